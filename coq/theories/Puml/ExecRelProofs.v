(** Adequacy of the enumerator of Puml/Exec.v for the rule-based semantics of Puml/ExecRel.v:
    [In f (runs_blk k b) <-> ExecBlk k b f] and [In f (runs_seq k s) <-> ExecSeq k s f];
    monotonicity in the loop bound; the left-nested readings; sanity lemmas; examples. *)
From Coq Require Import List Bool PArith Arith Lia.
From V Require Import Puml.Ast Puml.Exec Store.Unique Puml.Canon Puml.Accept Puml.CanonSpec
  Puml.CanonProofs Puml.ExecRel.
Import ListNotations.

(** * The algebra of [seq_frag] *)

Lemma flat_map_shift0 rs : flat_map (shift 0 [RIn]) rs = rs.
Proof.
  induction rs as [|r rs IH]; simpl; [reflexivity|].
  destruct r as [|j]; simpl; [|rewrite Nat.add_0_r]; f_equal; exact IH.
Qed.

Lemma map_shift0 (ns : list (evt * list ref)) :
  map (fun n => (fst n, flat_map (shift 0 [RIn]) (snd n))) ns = ns.
Proof.
  induction ns as [|[e ps] ns IH]; simpl; [reflexivity|].
  rewrite flat_map_shift0, IH. reflexivity.
Qed.

(** the empty fragment is a left unit ... *)
Lemma seq_empty_l f : seq_frag empty_frag f = f.
Proof.
  destruct f as [ns fr st]. unfold seq_frag. simpl.
  rewrite map_shift0, flat_map_shift0. reflexivity.
Qed.

Lemma live_Normal a : live a = true -> fstat a = Normal.
Proof. unfold live. destruct (fstat a); [reflexivity | discriminate]. Qed.

Lemma live_front a : live a = true -> ffront a <> [].
Proof. unfold live. destruct (fstat a); [|discriminate]. destruct (ffront a); [discriminate|]. discriminate. Qed.

(** ... and a right unit of Normal fragments *)
Lemma seq_empty_r a : fstat a = Normal -> seq_frag a empty_frag = a.
Proof.
  destruct a as [ns fr st]. unfold seq_frag. simpl. intros E. subst st.
  rewrite !app_nil_r. reflexivity.
Qed.

Lemma shift_comp la lb fa fb rs :
  flat_map (shift (la + lb) (flat_map (shift la fa) fb)) rs =
  flat_map (shift la fa) (flat_map (shift lb fb) rs).
Proof.
  induction rs as [|r rs IH]; simpl; [reflexivity|].
  rewrite flat_map_app, IH. destruct r as [|j]; simpl; [reflexivity|].
  replace (j + (la + lb)) with (j + lb + la) by lia. reflexivity.
Qed.

(** [seq_frag] is associative (unconditionally) *)
Lemma seq_frag_assoc a b c : seq_frag (seq_frag a b) c = seq_frag a (seq_frag b c).
Proof.
  unfold seq_frag. simpl. rewrite app_length, map_length. f_equal.
  - rewrite map_app, <- app_assoc, map_map. f_equal. f_equal.
    apply map_ext. intros [e ps]. simpl. f_equal. apply shift_comp.
  - apply shift_comp.
Qed.

Lemma flat_map_shift_nil off fr rs :
  fr <> [] -> (flat_map (shift off fr) rs = [] <-> rs = []).
Proof.
  intros Hfr. destruct rs as [|r rs]; simpl; [tauto|].
  split; [|discriminate]. destruct r as [|j]; simpl.
  - destruct fr; [congruence | discriminate].
  - discriminate.
Qed.

(** after a live fragment, liveness is that of the second fragment *)
Lemma live_seq a b : live a = true -> live (seq_frag a b) = live b.
Proof.
  intros Ha. apply live_front in Ha. unfold live. simpl. destruct (fstat b); [|reflexivity].
  destruct (ffront b) as [|r rs] eqn:Eb; simpl; [reflexivity|].
  destruct (shift (length (fnodes a)) (ffront a) r ++
            flat_map (shift (length (fnodes a)) (ffront a)) rs) eqn:E; [|reflexivity].
  exfalso. apply (proj1 (flat_map_shift_nil (length (fnodes a)) (ffront a) (r :: rs) Ha)) in E.
  discriminate.
Qed.

Lemma unbreak_seq a o : unbreak (seq_frag a o) = seq_frag a (unbreak o).
Proof. reflexivity. Qed.

Lemma fstat_seq a b : fstat (seq_frag a b) = fstat b.
Proof. reflexivity. Qed.

(** * Generic list facts *)

Lemma Forall2_iff_Forall {A B} (R R' : A -> B -> Prop) : forall l l',
  Forall (fun x => forall y, R x y <-> R' x y) l -> (Forall2 R l l' <-> Forall2 R' l l').
Proof.
  induction l as [|x l IH]; intros l' Hl.
  - split; intros H; inversion H; constructor.
  - inversion Hl as [|x' l0 Hx Hl']; subst.
    split; intros H; inversion H as [|x0 y l1 l1' Hxy Hr]; subst; constructor;
      try (apply Hx; exact Hxy); apply (IH l1' Hl'); exact Hr.
Qed.

Lemma in_product {A} : forall (ls : list (list A)) (l : list A),
  In l (product ls) <-> Forall2 (fun xs x => In x xs) ls l.
Proof.
  induction ls as [|xs ls IH]; intros l; simpl.
  - split.
    + intros [E | []]. subst l. constructor.
    + intros H. inversion H. left. reflexivity.
  - rewrite in_flat_map. split.
    + intros [x [Hx Hl]]. apply in_map_iff in Hl. destruct Hl as [l' [E Hl']]. subst l.
      constructor; [exact Hx | apply IH, Hl'].
    + intros H. inversion H as [|xs' x ls' l' Hx Hr]; subst.
      exists x. split; [exact Hx|]. apply in_map. apply IH, Hr.
Qed.

Lemma Forall2_map_l {A B C} (g : A -> B) (R : B -> C -> Prop) : forall l l',
  Forall2 R (map g l) l' <-> Forall2 (fun x y => R (g x) y) l l'.
Proof.
  induction l as [|x l IH]; intros l'; simpl.
  - split; intros H; inversion H; constructor.
  - split; intros H; inversion H as [|x0 y l0 l1 Hxy Hr]; subst; constructor;
      try exact Hxy; apply IH, Hr.
Qed.

Lemma in_sublists_Sub {A} : forall (l s : list A), In s (sublists l) <-> Sub s l.
Proof.
  induction l as [|x l IH]; intros s; simpl.
  - split.
    + intros [E | []]. subst s. constructor.
    + intros H. inversion H. left. reflexivity.
  - rewrite in_app_iff, in_map_iff. split.
    + intros [[s' [E Hs']] | Hs].
      * subst s. constructor. apply IH, Hs'.
      * constructor. apply IH, Hs.
    + intros H. inversion H as [|x' s' l' Hs'|x' s' l' Hs']; subst.
      * left. exists s'. split; [reflexivity | apply IH, Hs'].
      * right. apply IH, Hs'.
Qed.

Lemma Sub_map {A B} (g : A -> B) : forall (l : list A) (s' : list B),
  Sub s' (map g l) <-> exists s, Sub s l /\ s' = map g s.
Proof.
  induction l as [|x l IH]; intros s'; simpl.
  - split.
    + intros H. inversion H. exists []. split; [constructor | reflexivity].
    + intros [s [Hs E]]. inversion Hs; subst. constructor.
  - split.
    + intros H. inversion H as [|x' t l' Ht|x' t l' Ht]; subst.
      * apply IH in Ht. destruct Ht as [s [Hs E]]. subst t.
        exists (x :: s). split; [constructor; exact Hs | reflexivity].
      * apply IH in Ht. destruct Ht as [s [Hs E]]. subst s'.
        exists s. split; [constructor; exact Hs | reflexivity].
    + intros [s [Hs E]]. subst s'. inversion Hs as [|x' t l' Ht|x' t l' Ht]; subst; simpl.
      * constructor. apply IH. exists t. split; [exact Ht | reflexivity].
      * constructor. apply IH. exists s. split; [exact Ht | reflexivity].
Qed.

Lemma Sub_Forall {A} (P : A -> Prop) : forall s l, Sub s l -> Forall P l -> Forall P s.
Proof.
  intros s l H. induction H as [|x s l _ IH|x s l _ IH]; intros Hl.
  - constructor.
  - inversion Hl; subst. constructor; auto.
  - inversion Hl; subst. auto.
Qed.

Lemma Sub_refl {A} : forall l : list A, Sub l l.
Proof. induction l as [|x l IH]; constructor; exact IH. Qed.

Lemma Sub_incl {A} : forall s l : list A, Sub s l -> incl s l.
Proof.
  intros s l H. induction H as [|x s l _ IH|x s l _ IH]; intros y Hy.
  - destruct Hy.
  - destruct Hy as [E | Hy]; [left; exact E | right; apply IH, Hy].
  - right. apply IH, Hy.
Qed.

Lemma in_nonempty_sublists {A} (l s : list A) :
  In s (nonempty_sublists l) <-> Sub s l /\ s <> [].
Proof.
  unfold nonempty_sublists. rewrite filter_In, in_sublists_Sub.
  destruct s; split; intros [H1 H2]; split; try exact H1; try discriminate; congruence.
Qed.

(** * The enumerator's sequencing is the right-nested one *)

Lemma in_seq_all acc next f :
  In f (seq_all acc next) <->
  exists a, In a acc /\
    ((live a = true /\ exists b, In b next /\ f = seq_frag a b) \/ (live a = false /\ f = a)).
Proof.
  unfold seq_all. rewrite in_flat_map. split.
  - intros [a [Ha Hf]]. exists a. split; [exact Ha|]. destruct (live a).
    + left. split; [reflexivity|]. apply in_map_iff in Hf. destruct Hf as [b [E Hb]].
      exists b. split; [exact Hb | symmetry; exact E].
    + right. destruct Hf as [E | []]. split; [reflexivity | symmetry; exact E].
  - intros [a [Ha [[Hl [b [Hb E]]] | [Hl E]]]]; exists a; (split; [exact Ha|]); rewrite Hl.
    + subst f. apply in_map, Hb.
    + left. symmetry. exact E.
Qed.

Lemma in_runs_seqR_cons k b r f :
  In f (runs_seqR k (b :: r)) <->
  exists f1, In f1 (runs_blk k b) /\
    ((live f1 = true /\ exists f2, In f2 (runs_seqR k r) /\ f = seq_frag f1 f2) \/
     (live f1 = false /\ f = f1)).
Proof.
  change (runs_seqR k (b :: r)) with (seq_all (runs_blk k b) (runs_seqR k r)). apply in_seq_all.
Qed.

Lemma fold_seq_all_spec k : forall s acc f,
  In f (fold_left (fun acc b => seq_all acc (runs_blk k b)) s acc) <->
  exists a, In a acc /\
    ((live a = true /\ exists g, In g (runs_seqR k s) /\ f = seq_frag a g) \/ (live a = false /\ f = a)).
Proof.
  induction s as [|b r IH]; intros acc f.
  - simpl. split.
    + intros H. exists f. split; [exact H|]. destruct (live f) eqn:E.
      * left. split; [reflexivity|]. exists empty_frag. split; [left; reflexivity|].
        symmetry. apply seq_empty_r, live_Normal, E.
      * right. split; reflexivity.
    + intros [a [Ha [[Hl [g [[Eg | []] E]]] | [Hl E]]]].
      * subst g f. rewrite seq_empty_r; [exact Ha | apply live_Normal, Hl].
      * subst f. exact Ha.
  - simpl fold_left. rewrite IH. split.
    + intros [a' [Ha' H]]. apply in_seq_all in Ha'.
      destruct Ha' as [a [Ha [[Hl [f1 [Hf1 E]]] | [Hl E]]]]; subst a'.
      * exists a. split; [exact Ha|]. left. split; [exact Hl|].
        destruct H as [[Hl' [g [Hg E]]] | [Hl' E]]; rewrite (live_seq a f1 Hl) in Hl'.
        -- exists (seq_frag f1 g). split; [|subst f; apply seq_frag_assoc].
           apply in_runs_seqR_cons. exists f1. split; [exact Hf1|]. left. split; [exact Hl'|].
           exists g. split; [exact Hg | reflexivity].
        -- exists f1. split; [|exact E].
           apply in_runs_seqR_cons. exists f1. split; [exact Hf1|]. right. split; [exact Hl' | reflexivity].
      * exists a. split; [exact Ha|]. right. split; [exact Hl|].
        destruct H as [[Hl' _] | [_ E]]; [congruence | exact E].
    + intros [a [Ha [[Hl [g [Hg E]]] | [Hl E]]]].
      * apply in_runs_seqR_cons in Hg.
        destruct Hg as [f1 [Hf1 [[Hl1 [f2 [Hf2 Eg]]] | [Hl1 Eg]]]]; subst g.
        -- exists (seq_frag a f1). split.
           ++ apply in_seq_all. exists a. split; [exact Ha|]. left. split; [exact Hl|].
              exists f1. split; [exact Hf1 | reflexivity].
           ++ left. split; [rewrite live_seq; assumption|].
              exists f2. split; [exact Hf2|]. subst f. symmetry. apply seq_frag_assoc.
        -- exists (seq_frag a f1). split.
           ++ apply in_seq_all. exists a. split; [exact Ha|]. left. split; [exact Hl|].
              exists f1. split; [exact Hf1 | reflexivity].
           ++ right. split; [rewrite live_seq; assumption | exact E].
      * exists a. split.
        -- apply in_seq_all. exists a. split; [exact Ha|]. right. split; [exact Hl | reflexivity].
        -- right. split; [exact Hl | exact E].
Qed.

(** the left fold and the right-nested enumerator have the same members *)
Theorem runs_seq_right k s f : In f (runs_seq k s) <-> In f (runs_seqR k s).
Proof.
  unfold runs_seq. rewrite fold_seq_all_spec. split.
  - intros [a [[Ea | []] [[_ [g [Hg E]]] | [Hl _]]]]; subst a.
    + subst f. rewrite seq_empty_l. exact Hg.
    + discriminate.
  - intros H. exists empty_frag. split; [left; reflexivity|]. left. split; [reflexivity|].
    exists f. split; [exact H | symmetry; apply seq_empty_l].
Qed.

(** * Loops: [loop_runs] computes [Iter] *)

Lemma Iter_pos one n f : Iter one n f -> 1 <= n.
Proof. intros H. destruct H; lia. Qed.

Lemma Iter_impl (one one' : frag -> Prop) : (forall f, one f -> one' f) ->
  forall n f, Iter one n f -> Iter one' n f.
Proof.
  intros Himp n f H. induction H as [f Hf Hs|f Hf Hs|n f1 f2 Hf1 Hl _ IH].
  - apply Iter_leave; auto.
  - apply Iter_break; auto.
  - apply Iter_again; auto.
Qed.

Lemma in_step (one cur : list frag) x :
  In x (flat_map (fun a => map (seq_frag a) one) cur) <->
  exists a o, In a cur /\ In o one /\ x = seq_frag a o.
Proof.
  rewrite in_flat_map. split.
  - intros [a [Ha Hx]]. apply in_map_iff in Hx. destruct Hx as [o [E Ho]].
    exists a, o. auto.
  - intros [a [o [Ha [Ho E]]]]. exists a. split; [exact Ha|]. subst x. apply in_map, Ho.
Qed.

Lemma loop_runs_spec (one : list frag) : forall k cur,
  (forall a, In a cur -> live a = true) -> forall f,
  In f (loop_runs k one cur) <->
  exists a n g, In a cur /\ n <= k /\ Iter (fun o => In o one) n g /\ f = seq_frag a g.
Proof.
  induction k as [|k IH]; intros cur Hcur f.
  - simpl. split; [intros [] |]. intros [a [n [g [_ [Hn [Hg _]]]]]]. apply Iter_pos in Hg. lia.
  - cbn [loop_runs]. set (step := flat_map (fun a => map (seq_frag a) one) cur).
    assert (Hnext : forall a, In a (filter live
              (filter (fun f => match fstat f with Broke => false | Normal => true end) step)) ->
              live a = true).
    { intros a Ha. apply filter_In in Ha. apply Ha. }
    rewrite !in_app_iff, in_map_iff, (IH _ Hnext). split.
    + intros [[x [E Hx]] | [Hx | [a' [n [g [Ha' [Hn [Hg E]]]]]]]].
      * apply filter_In in Hx. destruct Hx as [Hx Hs]. apply in_step in Hx.
        destruct Hx as [a [o [Ha [Ho Ex]]]]. subst x f.
        exists a, 1, (unbreak o). split; [exact Ha|]. split; [lia|]. split; [|reflexivity].
        apply Iter_break; [exact Ho|]. rewrite fstat_seq in Hs. destruct (fstat o); [discriminate | reflexivity].
      * apply filter_In in Hx. destruct Hx as [Hx Hs]. apply in_step in Hx.
        destruct Hx as [a [o [Ha [Ho Ex]]]]. subst f.
        exists a, 1, o. split; [exact Ha|]. split; [lia|]. split; [|reflexivity].
        apply Iter_leave; [exact Ho|]. rewrite fstat_seq in Hs. destruct (fstat o); [reflexivity | discriminate].
      * apply filter_In in Ha'. destruct Ha' as [Ha' Hl']. apply filter_In in Ha'.
        destruct Ha' as [Ha' _]. apply in_step in Ha'. destruct Ha' as [a [o [Ha [Ho Ex]]]]. subst a'.
        rewrite (live_seq a o (Hcur a Ha)) in Hl'.
        exists a, (S n), (seq_frag o g). split; [exact Ha|]. split; [lia|]. split.
        -- apply Iter_again; assumption.
        -- subst f. apply seq_frag_assoc.
    + intros [a [n [g [Ha [Hn [Hg E]]]]]]. subst f.
      destruct Hg as [o Ho Hs|o Ho Hs|n o g Ho Hl Hg].
      * right. left. apply filter_In. split; [apply in_step; exists a, o; auto|].
        rewrite fstat_seq, Hs. reflexivity.
      * left. exists (seq_frag a o). split; [reflexivity|].
        apply filter_In. split; [apply in_step; exists a, o; auto|].
        rewrite fstat_seq, Hs. reflexivity.
      * right. right. exists (seq_frag a o), n, g.
        split; [|split; [lia|split; [exact Hg | symmetry; apply seq_frag_assoc]]].
        apply filter_In. split; [|rewrite live_seq; [exact Hl | apply Hcur, Ha]].
        apply filter_In. split; [apply in_step; exists a, o; auto|].
        rewrite fstat_seq, (live_Normal o Hl). reflexivity.
Qed.

Lemma loop_runs_Iter k one f :
  In f (loop_runs k one [empty_frag]) <->
  exists n, 1 <= n /\ n <= k /\ Iter (fun o => In o one) n f.
Proof.
  rewrite loop_runs_spec.
  - split.
    + intros [a [n [g [[Ea | []] [Hn [Hg E]]]]]]. subst a f. rewrite seq_empty_l.
      exists n. split; [eapply Iter_pos, Hg|]. split; assumption.
    + intros [n [_ [Hn Hg]]]. exists empty_frag, n, f.
      split; [left; reflexivity|]. split; [exact Hn|]. split; [exact Hg|].
      symmetry. apply seq_empty_l.
  - intros a [E | []]. subst a. reflexivity.
Qed.

(** * Adequacy *)

Definition adequate_blk (k : nat) (b : blk) : Prop := forall f, In f (runs_blk k b) <-> ExecBlk k b f.
Definition adequate_seq (k : nat) (s : list blk) : Prop := forall f, In f (runs_seq k s) <-> ExecSeq k s f.

Lemma adequate_seqR k : forall s, Forall (adequate_blk k) s ->
  forall f, In f (runs_seqR k s) <-> ExecSeq k s f.
Proof.
  induction s as [|b r IH]; intros Hs f.
  - simpl. split.
    + intros [E | []]. subst f. constructor.
    + intros H. inversion H. left. reflexivity.
  - inversion Hs as [|b' r' Hb Hr]; subst. rewrite in_runs_seqR_cons. split.
    + intros [f1 [Hf1 [[Hl [f2 [Hf2 E]]] | [Hl E]]]]; subst f.
      * apply S_cons; [apply Hb, Hf1 | exact Hl | apply (IH Hr), Hf2].
      * apply S_stop; [apply Hb, Hf1 | exact Hl].
    + intros H. inversion H as [|b0 r0 f1 Hf1 Hl|b0 r0 f1 f2 Hf1 Hl Hf2]; subst.
      * exists f. split; [apply Hb, Hf1|]. right. split; [exact Hl | reflexivity].
      * exists f1. split; [apply Hb, Hf1|]. left. split; [exact Hl|].
        exists f2. split; [apply (IH Hr), Hf2 | reflexivity].
Qed.

Lemma adequate_seq_of_blks k s : Forall (adequate_blk k) s -> adequate_seq k s.
Proof. intros Hs f. rewrite runs_seq_right. apply adequate_seqR, Hs. Qed.

Lemma runs_blk_fork k kd bs :
  runs_blk k (Fork kd bs) =
  match kd with
  | XOR => concat (map (runs_seq k) bs)
  | AND => map par_frag (product (map (runs_seq k) bs))
  | OR => flat_map (fun sel => map par_frag (product sel)) (nonempty_sublists (map (runs_seq k) bs))
  end.
Proof. reflexivity. Qed.

Lemma runs_blk_loop k body :
  runs_blk k (Loop body) = loop_runs k (runs_seq k body) [empty_frag].
Proof. reflexivity. Qed.

Lemma in_product_runs k bs fs :
  Forall (adequate_seq k) bs ->
  (In fs (product (map (runs_seq k) bs)) <-> Forall2 (ExecSeq k) bs fs).
Proof.
  intros Hbs. rewrite in_product, Forall2_map_l. apply Forall2_iff_Forall.
  eapply Forall_impl; [|exact Hbs]. intros s Hs f. apply Hs.
Qed.

Theorem runs_blk_adequate k : forall b, adequate_blk k b.
Proof.
  induction b as [e|kd bs IH|body IH| |] using blk_ind'.
  - intros f. simpl. split.
    + intros [E | []]. subst f. constructor.
    + intros H. inversion H. left. reflexivity.
  - assert (Hbs : Forall (adequate_seq k) bs).
    { eapply Forall_impl; [|exact IH]. intros s Hs. apply adequate_seq_of_blks, Hs. }
    intros f. rewrite runs_blk_fork. destruct kd.
    + (* AND *)
      rewrite in_map_iff. split.
      * intros [fs [E Hfs]]. subst f. apply X_and. apply in_product_runs; assumption.
      * intros H. inversion H as [| | | |bs' fs Hfs| |]; subst.
        exists fs. split; [reflexivity|]. apply in_product_runs; assumption.
    + (* OR *)
      rewrite in_flat_map. split.
      * intros [sel' [Hsel' Hf]]. apply in_nonempty_sublists in Hsel'. destruct Hsel' as [Hsub Hne].
        apply Sub_map in Hsub. destruct Hsub as [sel [Hsub E]]. subst sel'.
        apply in_map_iff in Hf. destruct Hf as [fs [E Hfs]]. subst f.
        apply (X_or k bs sel fs Hsub).
        -- intros E. subst sel. apply Hne. reflexivity.
        -- apply in_product_runs; [|exact Hfs]. eapply Sub_Forall; eassumption.
      * intros H. inversion H as [| | | | |bs' sel fs Hsub Hne Hfs|]; subst.
        exists (map (runs_seq k) sel). split.
        -- apply in_nonempty_sublists. split.
           ++ apply Sub_map. exists sel. split; [exact Hsub | reflexivity].
           ++ destruct sel; [congruence | discriminate].
        -- apply in_map. apply in_product_runs; [|exact Hfs]. eapply Sub_Forall; eassumption.
    + (* XOR *)
      rewrite in_concat. split.
      * intros [xs [Hxs Hf]]. apply in_map_iff in Hxs. destruct Hxs as [s [E Hs]]. subst xs.
        apply (X_xor k bs s f Hs). rewrite Forall_forall in Hbs. apply (Hbs s Hs), Hf.
      * intros H. inversion H as [| | |bs' s f' Hs Hf| | |]; subst.
        exists (runs_seq k s). split; [apply in_map, Hs|].
        rewrite Forall_forall in Hbs. apply (Hbs s Hs), Hf.
  - assert (Hbody : adequate_seq k body) by (apply adequate_seq_of_blks, IH).
    intros f. rewrite runs_blk_loop, loop_runs_Iter. split.
    + intros [n [H1 [Hn Hit]]]. apply (X_loop k body n f H1 Hn).
      eapply Iter_impl; [|exact Hit]. intros g Hg. apply Hbody, Hg.
    + intros H. inversion H as [| | | | | |body' n f' H1 Hn Hit]; subst.
      exists n. split; [exact H1|]. split; [exact Hn|].
      eapply Iter_impl; [|exact Hit]. intros g Hg. apply Hbody, Hg.
  - intros f. simpl. split.
    + intros [E | []]. subst f. constructor.
    + intros H. inversion H. left. reflexivity.
  - intros f. simpl. split.
    + intros [E | []]. subst f. constructor.
    + intros H. inversion H. left. reflexivity.
Qed.

Theorem runs_seq_adequate k s : adequate_seq k s.
Proof.
  apply adequate_seq_of_blks. rewrite Forall_forall. intros b _. apply runs_blk_adequate.
Qed.

(** ** (a) soundness of the enumerator *)
Theorem runs_sound :
  (forall k b f, In f (runs_blk k b) -> ExecBlk k b f) /\
  (forall k s f, In f (runs_seq k s) -> ExecSeq k s f).
Proof.
  split; [intros k b f; apply runs_blk_adequate | intros k s f; apply runs_seq_adequate].
Qed.

(** ** (b) completeness of the enumerator *)
Theorem runs_complete :
  (forall k b f, ExecBlk k b f -> In f (runs_blk k b)) /\
  (forall k s f, ExecSeq k s f -> In f (runs_seq k s)).
Proof.
  split; [intros k b f; apply runs_blk_adequate | intros k s f; apply runs_seq_adequate].
Qed.

Corollary runs_seq_iff k d f : In f (runs_seq k d) <-> ExecSeq k d f.
Proof. apply runs_seq_adequate. Qed.

Corollary runs_blk_iff k b f : In f (runs_blk k b) <-> ExecBlk k b f.
Proof. apply runs_blk_adequate. Qed.

(** * An induction principle over derivations

    [ExecBlk]/[ExecSeq] are mutual AND nested (through [Forall2] and [Iter]), so Coq generates no
    usable induction scheme.  This one is obtained by structural induction on the block
    ([blk_ind']) and inversion of the rules. *)

Lemma Forall2_impl_Forall {A B} (R R' : A -> B -> Prop) : forall l l',
  Forall (fun x => forall y, R x y -> R' x y) l -> Forall2 R l l' -> Forall2 R' l l'.
Proof.
  intros l l' Hl H. induction H as [|x y l l' Hxy _ IH]; [constructor|].
  inversion Hl; subst. constructor; auto.
Qed.

Lemma Forall2_impl' {A B} (R R' : A -> B -> Prop) : (forall x y, R x y -> R' x y) ->
  forall l l', Forall2 R l l' -> Forall2 R' l l'.
Proof. intros Himp l l' H. induction H; constructor; auto. Qed.

Section ExecInd.
  Variable k : nat.
  Variable P : blk -> frag -> Prop.
  Variable Q : list blk -> frag -> Prop.
  Hypothesis Hev : forall e, P (Ev e) (ev_frag e).
  Hypothesis Hbreak : P Break break_frag.
  Hypothesis Hdetach : P Detach detach_frag.
  Hypothesis Hxor : forall bs s f, In s bs -> ExecSeq k s f -> Q s f -> P (Fork XOR bs) f.
  Hypothesis Hand : forall bs fs,
    Forall2 (fun s f => ExecSeq k s f /\ Q s f) bs fs -> P (Fork AND bs) (par_frag fs).
  Hypothesis Hor : forall bs sel fs, Sub sel bs -> sel <> [] ->
    Forall2 (fun s f => ExecSeq k s f /\ Q s f) sel fs -> P (Fork OR bs) (par_frag fs).
  Hypothesis Hloop : forall body n f, 1 <= n -> n <= k ->
    Iter (fun g => ExecSeq k body g /\ Q body g) n f -> P (Loop body) f.
  Hypothesis Hnil : Q [] empty_frag.
  Hypothesis Hstop : forall b r f1, ExecBlk k b f1 -> P b f1 -> live f1 = false -> Q (b :: r) f1.
  Hypothesis Hcons : forall b r f1 f2, ExecBlk k b f1 -> P b f1 -> live f1 = true ->
    ExecSeq k r f2 -> Q r f2 -> Q (b :: r) (seq_frag f1 f2).

  Lemma Exec_ind_seq_of_blks : forall s,
    Forall (fun b => forall f, ExecBlk k b f -> P b f) s -> forall f, ExecSeq k s f -> Q s f.
  Proof.
    induction s as [|b r IH]; intros Hs f H.
    - inversion H. exact Hnil.
    - inversion Hs as [|b' r' Hb Hr]; subst.
      inversion H as [|b0 r0 f1 Hf1 Hl|b0 r0 f1 f2 Hf1 Hl Hf2]; subst.
      + apply Hstop; auto.
      + apply Hcons; auto.
  Qed.

  Theorem Exec_ind_blk : forall b f, ExecBlk k b f -> P b f.
  Proof.
    induction b as [e|kd bs IH|body IH| |] using blk_ind'; intros f H.
    - inversion H. apply Hev.
    - assert (Hbs : Forall (fun s => forall f, ExecSeq k s f -> ExecSeq k s f /\ Q s f) bs).
      { eapply Forall_impl; [|exact IH]. intros s Hs g Hg. split; [exact Hg|].
        apply Exec_ind_seq_of_blks; assumption. }
      inversion H as [| | |bs' s f' Hs Hf|bs' fs Hfs|bs' sel fs Hsub Hne Hfs|]; subst.
      + apply (Hxor bs s f Hs Hf). rewrite Forall_forall in Hbs. apply (Hbs s Hs), Hf.
      + apply Hand. eapply Forall2_impl_Forall; [exact Hbs | exact Hfs].
      + apply (Hor bs sel fs Hsub Hne). eapply Forall2_impl_Forall; [|exact Hfs].
        eapply Sub_Forall; eassumption.
    - inversion H as [| | | | | |body' n f' H1 Hn Hit]; subst.
      apply (Hloop body n f H1 Hn). eapply Iter_impl; [|exact Hit].
      intros g Hg. split; [exact Hg|]. apply Exec_ind_seq_of_blks; assumption.
    - inversion H. exact Hbreak.
    - inversion H. exact Hdetach.
  Qed.

  Theorem Exec_ind_seq : forall s f, ExecSeq k s f -> Q s f.
  Proof.
    intros s. apply Exec_ind_seq_of_blks. rewrite Forall_forall. intros b _. apply Exec_ind_blk.
  Qed.
End ExecInd.

(** * (c) Monotonicity in the loop bound, finiteness *)

Theorem exec_mono k k' : k <= k' ->
  (forall b f, ExecBlk k b f -> ExecBlk k' b f) /\ (forall s f, ExecSeq k s f -> ExecSeq k' s f).
Proof.
  intros Hle.
  split; [apply (Exec_ind_blk k (ExecBlk k') (ExecSeq k')) | apply (Exec_ind_seq k (ExecBlk k') (ExecSeq k'))];
    try (intros; constructor; assumption).
  - intros bs s f Hs _ Hf. apply (X_xor k' bs s f Hs Hf).
  - intros bs fs Hfs. apply X_and. eapply Forall2_impl'; [|exact Hfs]. intros s f [_ H]. exact H.
  - intros bs sel fs Hsub Hne Hfs. apply (X_or k' bs sel fs Hsub Hne).
    eapply Forall2_impl'; [|exact Hfs]. intros s f [_ H]. exact H.
  - intros body n f H1 Hn Hit. apply (X_loop k' body n f H1); [lia|].
    eapply Iter_impl; [|exact Hit]. intros g [_ H]. exact H.
  - intros bs s f Hs _ Hf. apply (X_xor k' bs s f Hs Hf).
  - intros bs fs Hfs. apply X_and. eapply Forall2_impl'; [|exact Hfs]. intros s f [_ H]. exact H.
  - intros bs sel fs Hsub Hne Hfs. apply (X_or k' bs sel fs Hsub Hne).
    eapply Forall2_impl'; [|exact Hfs]. intros s f [_ H]. exact H.
  - intros body n f H1 Hn Hit. apply (X_loop k' body n f H1); [lia|].
    eapply Iter_impl; [|exact Hit]. intros g [_ H]. exact H.
Qed.

Corollary exec_seq_mono k k' s f : k <= k' -> ExecSeq k s f -> ExecSeq k' s f.
Proof. intros Hle. apply (exec_mono k k' Hle). Qed.

Corollary runs_seq_mono k k' d : k <= k' -> incl (runs_seq k d) (runs_seq k' d).
Proof. intros Hle f Hf. apply runs_seq_iff. apply (exec_seq_mono k k' d f Hle). apply runs_seq_iff, Hf. Qed.

Corollary jobs_mono k k' d : k <= k' -> incl (jobs k d) (jobs k' d).
Proof.
  intros Hle j Hj. unfold jobs in *. apply in_map_iff in Hj. destruct Hj as [f [E Hf]].
  apply in_map_iff. exists f. split; [exact E | apply (runs_seq_mono k k' d Hle), Hf].
Qed.

(** the set of runs is finite, by construction *)
Corollary exec_finite k s : exists l, forall f, ExecSeq k s f <-> In f l.
Proof. exists (runs_seq k s). intros f. symmetry. apply runs_seq_iff. Qed.

(** * Acceptance *)

Theorem accepts_jobs k d j : Accepts k d j <-> In j (jobs k d).
Proof.
  unfold Accepts, jobs. rewrite in_map_iff. split; intros [f [H1 H2]]; exists f.
  - split; [exact H2 | apply runs_seq_iff, H1].
  - split; [apply runs_seq_iff, H2 | exact H1].
Qed.

Theorem accepts_mono k k' d j : k <= k' -> Accepts k d j -> Accepts k' d j.
Proof. intros Hle [f [Hf E]]. exists f. split; [apply (exec_seq_mono k k' d f Hle Hf) | exact E]. Qed.

(** the boolean validators decide the rule-based notions *)
Theorem accepts_b_rel k d j : accepts_b k d j = true <-> AcceptsCanon k d j.
Proof.
  rewrite accepts_b_spec, topo_b_topo. unfold AcceptsCanon. split; intros [Ht [g [Hg E]]].
  - split; [exact Ht|]. exists g. split; [apply accepts_jobs, Hg | exact E].
  - split; [exact Ht|]. exists g. split; [apply accepts_jobs, Hg | exact E].
Qed.

Theorem incl_b_rel k1 k2 d1 d2 : incl_b k1 k2 d1 d2 = true <-> InclCanon k1 k2 d1 d2.
Proof.
  rewrite incl_b_spec. unfold InclCanon. split; intros H g1 Hg1.
  - apply accepts_jobs in Hg1. destruct (H g1 Hg1) as [g2 [Hg2 E]].
    exists g2. split; [apply accepts_jobs, Hg2 | exact E].
  - apply accepts_jobs in Hg1. destruct (H g1 Hg1) as [g2 [Hg2 E]].
    exists g2. split; [apply accepts_jobs, Hg2 | exact E].
Qed.

(** every accepted job graph is topologically ordered, hence accepted up to canonical form *)
Theorem accepts_topo k d j : Accepts k d j -> topo j.
Proof. intros H. apply topo_b_topo. apply (jobs_topo k d). apply accepts_jobs, H. Qed.

Corollary accepts_canon k d j : Accepts k d j -> AcceptsCanon k d j.
Proof. intros H. split; [eapply accepts_topo, H|]. exists j. split; [exact H | reflexivity]. Qed.

(** fragments of the rule-based semantics are well formed (references point backwards) *)
Theorem exec_wf k s f : ExecSeq k s f -> wf_frag f.
Proof. intros H. apply (runs_wf_frag k s). apply runs_seq_iff, H. Qed.

(** * The left-nested readings *)

Lemma runs_seq_snoc k s b : runs_seq k (s ++ [b]) = seq_all (runs_seq k s) (runs_blk k b).
Proof. unfold runs_seq. rewrite fold_left_app. reflexivity. Qed.

Theorem ExecSeqL_runs k s f : ExecSeqL k s f <-> In f (runs_seq k s).
Proof.
  split.
  - intros H. induction H as [|s b a _ IH Hl|s b a f _ IH Hl Hf].
    + left. reflexivity.
    + rewrite runs_seq_snoc. apply in_seq_all. exists a. split; [exact IH|]. right. split; [exact Hl | reflexivity].
    + rewrite runs_seq_snoc. apply in_seq_all. exists a. split; [exact IH|]. left. split; [exact Hl|].
      exists f. split; [apply runs_blk_iff, Hf | reflexivity].
  - revert f. induction s as [|b s IH] using rev_ind; intros f H.
    + destruct H as [E | []]. subst f. constructor.
    + rewrite runs_seq_snoc in H. apply in_seq_all in H.
      destruct H as [a [Ha [[Hl [g [Hg E]]] | [Hl E]]]]; subst f.
      * apply L_snoc; [apply IH, Ha | exact Hl | apply runs_blk_iff, Hg].
      * apply L_stop; [apply IH, Ha | exact Hl].
Qed.

(** the two associativities of sequencing define the same runs *)
Theorem ExecSeqL_iff k s f : ExecSeqL k s f <-> ExecSeq k s f.
Proof. rewrite ExecSeqL_runs. apply runs_seq_iff. Qed.

Lemma Rounds_cons one : forall n a, Rounds one n a -> forall f1, one f1 -> live f1 = true ->
  Rounds one (S n) (seq_frag f1 a).
Proof.
  intros n a H. induction H as [|n a o _ IH Ho Hl]; intros f1 Hf1 Hl1.
  - rewrite (seq_empty_r f1 (live_Normal f1 Hl1)). rewrite <- (seq_empty_l f1).
    apply Rounds_S; [constructor | exact Hf1 | exact Hl1].
  - rewrite <- seq_frag_assoc. apply Rounds_S; [apply IH; assumption | exact Ho | exact Hl].
Qed.

Lemma Rounds_Iter one : forall n a, Rounds one n a -> forall m g, Iter one m g ->
  Iter one (n + m) (seq_frag a g).
Proof.
  intros n a H. induction H as [|n a o _ IH Ho Hl]; intros m g Hg.
  - rewrite seq_empty_l. exact Hg.
  - rewrite seq_frag_assoc. replace (S n + m) with (n + S m) by lia.
    apply IH. apply Iter_again; assumption.
Qed.

(** the two associativities of loop iteration define the same runs *)
Theorem IterL_iff one n f : IterL one n f <-> Iter one n f.
Proof.
  split.
  - intros H. destruct H as [n a o Ha Ho Hs|n a o Ha Ho Hs].
    + replace (S n) with (n + 1) by lia. apply (Rounds_Iter one n a Ha). apply Iter_leave; assumption.
    + rewrite unbreak_seq. replace (S n) with (n + 1) by lia.
      apply (Rounds_Iter one n a Ha). apply Iter_break; assumption.
  - intros H. induction H as [f Hf Hs|f Hf Hs|n f1 f2 Hf1 Hl _ IH].
    + rewrite <- (seq_empty_l f). apply IterL_leave; [constructor | exact Hf | exact Hs].
    + rewrite <- (seq_empty_l f). apply IterL_break; [constructor | exact Hf | exact Hs].
    + destruct IH as [n a o Ha Ho Hs|n a o Ha Ho Hs].
      * rewrite <- seq_frag_assoc. apply IterL_leave; [apply Rounds_cons; assumption | exact Ho | exact Hs].
      * rewrite <- unbreak_seq, <- seq_frag_assoc.
        apply IterL_break; [apply Rounds_cons; assumption | exact Ho | exact Hs].
Qed.

Corollary exec_loop_left k body f :
  ExecBlk k (Loop body) f <-> exists n, n <= k /\ IterL (ExecSeq k body) n f.
Proof.
  split.
  - intros H. inversion H as [| | | | | |body' n f' H1 Hn Hit]; subst.
    exists n. split; [exact Hn | apply IterL_iff, Hit].
  - intros [n [Hn Hit]]. apply IterL_iff in Hit.
    apply (X_loop k body n f (Iter_pos _ _ _ Hit) Hn Hit).
Qed.

(** * (d) Sanity lemmas: the rules say what the PV link discipline says *)

(** a one-event sequence has exactly one run: that event, linked to the entry frontier *)
Lemma exec_single_ev k e f : ExecSeq k [Ev e] f <-> f = ev_frag e.
Proof.
  rewrite <- runs_seq_iff. change (runs_seq k [Ev e]) with [ev_frag e]. simpl.
  split; [intros [E | []]; auto | intros E; left; auto].
Qed.

(** an XOR of single events accepts exactly the one-event continuations *)
Theorem xor_single_events k es f :
  ExecBlk k (Fork XOR (map (fun e => [Ev e]) es)) f <-> exists e, In e es /\ f = ev_frag e.
Proof.
  split.
  - intros H. inversion H as [| | |bs' s f' Hs Hf| | |]; subst.
    apply in_map_iff in Hs. destruct Hs as [e [E He]]. subst s.
    exists e. split; [exact He | apply exec_single_ev in Hf; exact Hf].
  - intros [e [He E]]. subst f. apply (X_xor k _ [Ev e]).
    + apply in_map_iff. exists e. split; [reflexivity | exact He].
    + apply exec_single_ev. reflexivity.
Qed.

(** every event of every run names at least one predecessor reference *)
Lemma preds_ne_seq a b : ffront a <> [] -> preds_ne a -> preds_ne b -> preds_ne (seq_frag a b).
Proof.
  unfold preds_ne. intros Hfr Ha Hb. simpl. apply Forall_app. split; [exact Ha|].
  rewrite Forall_map. eapply Forall_impl; [|exact Hb]. intros [e ps] Hps. simpl in *.
  intros E. apply Hps. apply (proj1 (flat_map_shift_nil (length (fnodes a)) (ffront a) ps Hfr)), E.
Qed.

Lemma preds_ne_par fs : Forall preds_ne fs -> preds_ne (par_frag fs).
Proof.
  induction 1 as [|a r Ha _ IH]; [constructor|].
  unfold preds_ne in *. simpl. apply Forall_app. split; [exact Ha|].
  rewrite Forall_map. eapply Forall_impl; [|exact IH]. intros [e ps] Hps. simpl in *.
  intros E. apply Hps. apply (proj1 (flat_map_shift_nil (length (fnodes a)) [RIn] ps ltac:(discriminate))), E.
Qed.

Theorem exec_preds_ne k :
  (forall b f, ExecBlk k b f -> preds_ne f) /\ (forall s f, ExecSeq k s f -> preds_ne f).
Proof.
  assert (Hf2 : forall (bs : list (list blk)) fs,
            Forall2 (fun s f => ExecSeq k s f /\ preds_ne f) bs fs -> Forall preds_ne fs).
  { intros bs fs H. induction H as [|s f bs fs [_ Hf] _ IH]; constructor; assumption. }
  split; [apply (Exec_ind_blk k (fun _ f => preds_ne f) (fun _ f => preds_ne f))
         | apply (Exec_ind_seq k (fun _ f => preds_ne f) (fun _ f => preds_ne f))];
    try (intros; repeat constructor; discriminate); try (intros; assumption).
  - intros bs fs H. apply preds_ne_par, (Hf2 bs), H.
  - intros bs sel fs _ _ H. apply preds_ne_par, (Hf2 sel), H.
  - intros body n f _ _ H. induction H as [f [_ Hf] _|f [_ Hf] _|n f1 f2 [_ Hf1] Hl _ IH].
    + exact Hf.
    + exact Hf.
    + apply preds_ne_seq; [apply live_front, Hl | exact Hf1 | exact IH].
  - intros b r f1 f2 _ Hf1 Hl _ Hf2'. apply preds_ne_seq; [apply live_front, Hl | exact Hf1 | exact Hf2'].
  - intros bs fs H. apply preds_ne_par, (Hf2 bs), H.
  - intros bs sel fs _ _ H. apply preds_ne_par, (Hf2 sel), H.
  - intros body n f _ _ H. induction H as [f [_ Hf] _|f [_ Hf] _|n f1 f2 [_ Hf1] Hl _ IH].
    + exact Hf.
    + exact Hf.
    + apply preds_ne_seq; [apply live_front, Hl | exact Hf1 | exact IH].
  - intros b r f1 f2 _ Hf1 Hl _ Hf2'. apply preds_ne_seq; [apply live_front, Hl | exact Hf1 | exact Hf2'].
Qed.

(** relocating a list of entry references changes nothing *)
Lemma flat_map_shift_RIn off ps : Forall (eq RIn) ps -> flat_map (shift off [RIn]) ps = ps.
Proof.
  induction 1 as [|r ps Hr _ IH]; simpl; [reflexivity|]. subst r. simpl. f_equal. exact IH.
Qed.

(** the first node of a well-formed fragment can only refer to the entry frontier *)
Lemma wf_first_RIn f e ps : wf_frag f -> nth_error (fnodes f) 0 = Some (e, ps) -> Forall (eq RIn) ps.
Proof.
  intros [Hok _] Hn. destruct (fnodes f) as [|n ns]; [discriminate|]. simpl in Hn.
  inversion Hn; subst n. destruct Hok as [Hlt _]. simpl in Hlt.
  rewrite Forall_forall. intros r Hr. destruct r as [|j]; [reflexivity|].
  specialize (Hlt j Hr). lia.
Qed.

Lemma branch_off_S a r i : branch_off (a :: r) (S i) = length (fnodes a) + branch_off r i.
Proof. unfold branch_off. simpl. rewrite app_length. reflexivity. Qed.

(** in [par_frag fs] the first node of the i-th fragment sits at [branch_off fs i], unchanged *)
Lemma par_frag_first : forall fs, Forall wf_frag fs -> forall i fi e ps,
  nth_error fs i = Some fi -> nth_error (fnodes fi) 0 = Some (e, ps) ->
  nth_error (fnodes (par_frag fs)) (branch_off fs i) = Some (e, ps).
Proof.
  induction fs as [|a r IH]; intros Hwf i fi e ps Hi Hn.
  - destruct i; discriminate.
  - inversion Hwf as [|a' r' Ha Hr]; subst. destruct i as [|i].
    + simpl in Hi. inversion Hi; subst fi. unfold branch_off. simpl.
      destruct (fnodes a) as [|n ns]; [discriminate|]. exact Hn.
    + simpl in Hi. rewrite branch_off_S. cbn [par_frag fnodes].
      rewrite nth_error_app2 by lia.
      replace (length (fnodes a) + branch_off r i - length (fnodes a)) with (branch_off r i) by lia.
      rewrite nth_error_map, (IH Hr i fi e ps Hi Hn). simpl.
      assert (Hps : Forall (eq RIn) ps).
      { rewrite Forall_forall in Hr. eapply wf_first_RIn; [apply Hr; eapply nth_error_In, Hi | exact Hn]. }
      rewrite (flat_map_shift_RIn _ ps Hps). reflexivity.
Qed.

(** in every run of an AND fork, the first event of every branch is a node of the run whose
    predecessors are exactly (a non-empty list of references to) the fork's entry frontier *)
Theorem and_first_events k bs f :
  ExecBlk k (Fork AND bs) f ->
  exists fs, Forall2 (ExecSeq k) bs fs /\ f = par_frag fs /\
    forall i fi e ps, nth_error fs i = Some fi -> nth_error (fnodes fi) 0 = Some (e, ps) ->
      nth_error (fnodes f) (branch_off fs i) = Some (e, ps) /\ ps <> [] /\ Forall (eq RIn) ps.
Proof.
  intros H. inversion H as [| | | |bs' fs Hfs| |]; subst.
  exists fs. split; [exact Hfs|]. split; [reflexivity|].
  assert (Hall : Forall (fun f => wf_frag f /\ preds_ne f) fs).
  { clear H. induction Hfs as [|s f bs fs Hf _ IH]; constructor; [|exact IH].
    split; [eapply exec_wf, Hf | eapply (proj2 (exec_preds_ne k)), Hf]. }
  intros i fi e ps Hi Hn. split; [|split].
  - apply (par_frag_first fs) with (fi := fi); [|exact Hi | exact Hn].
    eapply Forall_impl; [|exact Hall]. intros g [Hg _]. exact Hg.
  - rewrite Forall_forall in Hall. destruct (Hall fi (nth_error_In _ _ Hi)) as [_ Hne].
    unfold preds_ne in Hne. rewrite Forall_forall in Hne.
    apply (Hne (e, ps)). eapply nth_error_In, Hn.
  - rewrite Forall_forall in Hall. destruct (Hall fi (nth_error_In _ _ Hi)) as [Hwf _].
    eapply wf_first_RIn; eassumption.
Qed.

(** the frontier after a fork is the union of the branches' frontiers (each relocated to its
    branch's position) ... *)
Lemma par_front_shift : forall fs off,
  flat_map (shift off [RIn]) (ffront (par_frag fs)) = par_front off fs.
Proof.
  induction fs as [|a r IH]; intros off; [reflexivity|].
  cbn [par_frag ffront par_front]. rewrite flat_map_app. f_equal.
  rewrite <- IH. symmetry. apply (shift_comp off (length (fnodes a)) [RIn] [RIn]).
Qed.

Theorem ffront_par_frag fs : ffront (par_frag fs) = par_front 0 fs.
Proof. rewrite <- par_front_shift. symmetry. apply flat_map_shift0. Qed.

(** ... a detached branch contributes nothing ... *)
Lemma par_front_detached off a r :
  ffront a = [] -> par_front off (a :: r) = par_front (off + length (fnodes a)) r.
Proof. intros E. simpl. rewrite E. reflexivity. Qed.

(** ... and, element-wise: a reference is in the fork's frontier iff it is (the relocation of) a
    frontier reference of one of the branches *)
Lemma in_par_front : forall fs off r,
  In r (par_front off fs) <->
  exists i fi r0, nth_error fs i = Some fi /\ In r0 (ffront fi) /\
                  In r (shift (off + branch_off fs i) [RIn] r0).
Proof.
  induction fs as [|a rs IH]; intros off r.
  - simpl. split; [intros [] |]. intros [i [fi [r0 [Hi _]]]]. destruct i; discriminate.
  - cbn [par_front]. rewrite in_app_iff, in_flat_map, IH. split.
    + intros [[r0 [Hr0 Hr]] | [i [fi [r0 [Hi [Hr0 Hr]]]]]].
      * exists 0, a, r0. split; [reflexivity|]. split; [exact Hr0|].
        unfold branch_off. simpl. rewrite Nat.add_0_r. exact Hr.
      * exists (S i), fi, r0. split; [exact Hi|]. split; [exact Hr0|].
        rewrite branch_off_S, Nat.add_assoc. exact Hr.
    + intros [i [fi [r0 [Hi [Hr0 Hr]]]]]. destruct i as [|i].
      * left. simpl in Hi. inversion Hi; subst fi. exists r0. split; [exact Hr0|].
        unfold branch_off in Hr. simpl in Hr. rewrite Nat.add_0_r in Hr. exact Hr.
      * right. exists i, fi, r0. split; [exact Hi|]. split; [exact Hr0|].
        rewrite branch_off_S, Nat.add_assoc in Hr. exact Hr.
Qed.

Theorem in_ffront_par_frag fs r :
  In r (ffront (par_frag fs)) <->
  exists i fi r0, nth_error fs i = Some fi /\ In r0 (ffront fi) /\
                  In r (shift (branch_off fs i) [RIn] r0).
Proof. rewrite ffront_par_frag. apply in_par_front. Qed.

(** the event after a block: if the block's run [p] is live the event is appended with
    predecessors = the frontier of [p]; otherwise (break, detach) it does not run *)
Theorem next_event_preds k b e f :
  ExecSeq k [b; Ev e] f <->
  exists p, ExecBlk k b p /\
    ((live p = false /\ f = p) \/
     (live p = true /\ f = mkfrag (fnodes p ++ [(e, ffront p)]) [RLoc (length (fnodes p))] Normal)).
Proof.
  assert (Eseq : forall p, seq_frag p (ev_frag e) =
                           mkfrag (fnodes p ++ [(e, ffront p)]) [RLoc (length (fnodes p))] Normal).
  { intros p. unfold seq_frag. simpl. rewrite app_nil_r. reflexivity. }
  split.
  - intros H. inversion H as [|b0 r0 f1 Hf1 Hl|b0 r0 f1 f2 Hf1 Hl Hf2]; subst.
    + exists f. split; [exact Hf1|]. left. split; [exact Hl | reflexivity].
    + exists f1. split; [exact Hf1|]. right. split; [exact Hl|].
      apply exec_single_ev in Hf2. subst f2. apply Eseq.
  - intros [p [Hp [[Hl E] | [Hl E]]]]; subst f.
    + apply S_stop; assumption.
    + rewrite <- Eseq. apply S_cons; [exact Hp | exact Hl | apply exec_single_ev; reflexivity].
Qed.

(** after a fork the next event's predecessors are the union of the non-detached branches'
    frontiers *)
Corollary after_and_fork_next_event k bs fs e :
  Forall2 (ExecSeq k) bs fs -> live (par_frag fs) = true ->
  ExecSeq k [Fork AND bs; Ev e]
    (mkfrag (fnodes (par_frag fs) ++ [(e, par_front 0 fs)]) [RLoc (length (fnodes (par_frag fs)))] Normal).
Proof.
  intros Hfs Hl. apply next_event_preds. exists (par_frag fs). split; [apply X_and, Hfs|].
  right. split; [exact Hl|]. rewrite ffront_par_frag. reflexivity.
Qed.

(** [Loop [Ev e]] with k = 2 has exactly the runs e and e;e *)
Theorem loop_single_two e f :
  ExecBlk 2 (Loop [Ev e]) f <->
  f = ev_frag e \/ f = mkfrag [(e, [RIn]); (e, [RLoc 0])] [RLoc 1] Normal.
Proof.
  rewrite <- runs_blk_iff.
  change (runs_blk 2 (Loop [Ev e]))
    with [ev_frag e; mkfrag [(e, [RIn]); (e, [RLoc 0])] [RLoc 1] Normal].
  simpl. split; [intros [E | [E | []]]; auto | intros [E | E]; auto].
Qed.

(** nothing runs after a break or a detach; k = 0 gives a loop no run at all *)
Theorem after_detach k e r f : ExecSeq k (Ev e :: Detach :: r) f <-> f = mkfrag [(e, [RIn])] [] Normal.
Proof.
  split.
  - intros H. inversion H as [|b0 r0 f1 Hf1 Hl|b0 r0 f1 f2 Hf1 Hl Hf2]; subst.
    + inversion Hf1; subst. discriminate.
    + inversion Hf1; subst. inversion Hf2 as [|b1 r1 g1 Hg1 Hl1|b1 r1 g1 g2 Hg1 Hl1 Hg2]; subst.
      * inversion Hg1; subst. reflexivity.
      * inversion Hg1; subst. discriminate.
  - intros E. subst f. change (mkfrag [(e, [RIn])] [] Normal) with (seq_frag (ev_frag e) detach_frag).
    apply S_cons; [constructor | reflexivity|]. apply S_stop; [constructor | reflexivity].
Qed.

Theorem loop_bound_zero body f : ~ ExecBlk 0 (Loop body) f.
Proof. intros H. inversion H; subst. lia. Qed.

(** * (e) Examples *)

(** the three parts of the witness run of [ex_rel_diag], built from the rules:
    the loop runs twice, 2 3 then 2 6 break ... *)
Definition ex_it1 : frag :=
  seq_frag (ev_frag 2%positive) (seq_frag (seq_frag (ev_frag 3%positive) empty_frag) empty_frag).
Definition ex_it2 : frag :=
  seq_frag (ev_frag 2%positive) (seq_frag (ev_frag 6%positive) break_frag).
Definition ex_loop_frag : frag := seq_frag ex_it1 (unbreak ex_it2).
(** ... the OR fork takes both branches, the second one detaches *)
Definition ex_or_frag : frag :=
  par_frag [seq_frag (ev_frag 4%positive) empty_frag; seq_frag (ev_frag 5%positive) detach_frag].

Example ex_it1_exec : ExecSeq 2 [Ev 2; Fork XOR [[Ev 6; Break]; [Ev 3]]]%positive ex_it1.
Proof.
  apply S_cons; [constructor | reflexivity|].
  apply S_cons; [|reflexivity | constructor].
  apply (X_xor 2 _ [Ev 3%positive]); [right; left; reflexivity|].
  apply S_cons; [constructor | reflexivity | constructor].
Qed.

(** the break branch [Ev 6; Break]: the XOR's fragment is Broke, so the body stops there *)
Example ex_it2_exec : ExecSeq 2 [Ev 2; Fork XOR [[Ev 6; Break]; [Ev 3]]]%positive ex_it2.
Proof.
  apply S_cons; [constructor | reflexivity|].
  apply S_stop; [|reflexivity].
  apply (X_xor 2 _ [Ev 6%positive; Break]); [left; reflexivity|].
  apply S_cons; [constructor | reflexivity|].
  apply S_stop; [constructor | reflexivity].
Qed.

Example ex_loop_exec : ExecBlk 2 (Loop [Ev 2; Fork XOR [[Ev 6; Break]; [Ev 3]]])%positive ex_loop_frag.
Proof.
  apply (X_loop 2 _ 2); [lia | lia|].
  apply Iter_again; [exact ex_it1_exec | reflexivity|].
  apply Iter_break; [exact ex_it2_exec | reflexivity].
Qed.

Example ex_or_exec : ExecBlk 2 (Fork OR [[Ev 4]; [Ev 5; Detach]])%positive ex_or_frag.
Proof.
  apply (X_or 2 _ [[Ev 4]; [Ev 5; Detach]]%positive); [apply Sub_refl | discriminate|].
  constructor; [|constructor; [|constructor]].
  - apply S_cons; [constructor | reflexivity | constructor].
  - apply S_cons; [constructor | reflexivity|]. apply S_stop; [constructor | reflexivity].
Qed.

(** the OR fork may also take the detaching branch alone: the run has an empty frontier *)
Example ex_or_exec_detached :
  ExecBlk 2 (Fork OR [[Ev 4]; [Ev 5; Detach]])%positive (mkfrag [(5%positive, [RIn])] [] Normal).
Proof.
  change (mkfrag [(5%positive, [RIn])] [] Normal) with (par_frag [seq_frag (ev_frag 5%positive) detach_frag]).
  apply (X_or 2 _ [[Ev 5; Detach]]%positive);
    [apply Sub_skip, Sub_take, Sub_nil | discriminate|].
  constructor; [|constructor].
  apply S_cons; [constructor | reflexivity|]. apply S_stop; [constructor | reflexivity].
Qed.

Example ex_rel_exec : ExecSeq 2 ex_rel_diag ex_rel_run.
Proof.
  change ex_rel_run
    with (seq_frag (ev_frag 1%positive) (seq_frag ex_loop_frag (seq_frag ex_or_frag empty_frag))).
  apply S_cons; [constructor | reflexivity|].
  apply S_cons; [exact ex_loop_exec | reflexivity|].
  apply S_cons; [exact ex_or_exec | reflexivity | constructor].
Qed.

(** the enumerator finds it (by the theorem, and by computation) *)
Example ex_rel_enum : In ex_rel_run (runs_seq 2 ex_rel_diag).
Proof. apply runs_seq_iff, ex_rel_exec. Qed.

Example ex_rel_enum' : existsb (fun f => canon_eqb (canon (close f)) (canon ex_rel_job)) (runs_seq 2 ex_rel_diag) = true
  /\ length (runs_seq 2 ex_rel_diag) = 12 /\ length (runs_seq 1 ex_rel_diag) = 6.
Proof. repeat split; vm_compute; reflexivity. Qed.

Example ex_rel_accepts : Accepts 2 ex_rel_diag ex_rel_job.
Proof. exists ex_rel_run. split; [exact ex_rel_exec | reflexivity]. Qed.

(** the same job with the OR branches listed in the other order is accepted up to canonical
    form (by the rule-based reading, and by the validator) but is not literally a run *)
Example ex_rel_accepts_canon : AcceptsCanon 2 ex_rel_diag ex_rel_job'.
Proof.
  split; [apply topo_b_topo; vm_compute; reflexivity|].
  exists ex_rel_job. split; [exact ex_rel_accepts | vm_compute; reflexivity].
Qed.

Example ex_rel_accepts_b : accepts_b 2 ex_rel_diag ex_rel_job' = true.
Proof. apply accepts_b_rel, ex_rel_accepts_canon. Qed.

(** the witness needs two iterations: with k = 1 it is rejected, also up to canonical form *)
Example ex_rel_rejects : ~ AcceptsCanon 1 ex_rel_diag ex_rel_job /\ ~ Accepts 1 ex_rel_diag ex_rel_job.
Proof.
  assert (H : ~ AcceptsCanon 1 ex_rel_diag ex_rel_job).
  { intros H. apply accepts_b_rel in H. vm_compute in H. discriminate. }
  split; [exact H|]. intros H'. apply H, accepts_canon, H'.
Qed.

(** monotonicity, instantiated: the k = 1 runs are among the k = 2 runs, not conversely *)
Example ex_rel_mono : incl (jobs 1 ex_rel_diag) (jobs 2 ex_rel_diag)
  /\ incl_b 1 2 ex_rel_diag ex_rel_diag = true /\ incl_b 2 1 ex_rel_diag ex_rel_diag = false.
Proof. split; [apply jobs_mono; lia|]. split; vm_compute; reflexivity. Qed.

(** [and_first_events] / [after_and_fork_next_event] on 1; fork {2 | 3}; 4 : the diamond *)
Example ex_and_diamond :
  ExecSeq 1 [Fork AND [[Ev 2]; [Ev 3]]; Ev 4]%positive
    (mkfrag [(2%positive, [RIn]); (3%positive, [RIn]); (4%positive, [RLoc 0; RLoc 1])] [RLoc 2] Normal).
Proof.
  apply (after_and_fork_next_event 1 [[Ev 2]; [Ev 3]]%positive [ev_frag 2%positive; ev_frag 3%positive] 4%positive).
  - constructor; [apply exec_single_ev; reflexivity|].
    constructor; [apply exec_single_ev; reflexivity | constructor].
  - reflexivity.
Qed.

(** [and_first_events] instantiated: in every run of fork {2 | 3} the second node is event 3
    linked to the entry frontier *)
Example ex_and_first f :
  ExecBlk 1 (Fork AND [[Ev 2]; [Ev 3]])%positive f -> nth_error (fnodes f) 1 = Some (3%positive, [RIn]).
Proof.
  intros H. destruct (and_first_events _ _ _ H) as [fs [Hfs [E Hall]]].
  inversion Hfs as [|s g bs' fs' Hg Hr]; subst.
  inversion Hr as [|s' g' bs'' fs'' Hg' Hr']; subst. inversion Hr'; subst.
  apply exec_single_ev in Hg, Hg'. subst g g'.
  destruct (Hall 1 (ev_frag 3%positive) 3%positive [RIn] eq_refl eq_refl) as [Hn _]. exact Hn.
Qed.

(** the left-nested reading on the same sequence *)
Example ex_rel_exec_left : ExecSeqL 2 ex_rel_diag ex_rel_run.
Proof. apply ExecSeqL_iff, ex_rel_exec. Qed.

(** * Assumptions *)
Print Assumptions runs_sound.
Print Assumptions runs_complete.
Print Assumptions runs_seq_iff.
Print Assumptions runs_blk_iff.
Print Assumptions runs_seq_right.
Print Assumptions exec_mono.
Print Assumptions jobs_mono.
Print Assumptions exec_finite.
Print Assumptions accepts_jobs.
Print Assumptions accepts_b_rel.
Print Assumptions incl_b_rel.
Print Assumptions ExecSeqL_iff.
Print Assumptions IterL_iff.
Print Assumptions Exec_ind_blk.
Print Assumptions xor_single_events.
Print Assumptions exec_preds_ne.
Print Assumptions and_first_events.
Print Assumptions in_ffront_par_frag.
Print Assumptions next_event_preds.
Print Assumptions after_and_fork_next_event.
Print Assumptions loop_single_two.
Print Assumptions after_detach.
Print Assumptions ex_and_first.
Print Assumptions ex_rel_exec.
Print Assumptions ex_rel_accepts_canon.
Print Assumptions ex_rel_rejects.
