(** Block-structured activity diagrams (the meaning of the PlantUML dialect otel2puml emits and of
    the job definitions it learns from).  No proofs in this file. *)
From Coq Require Import List Bool PArith.
Import ListNotations.

Definition evt := positive.               (* event type, interned by the harness *)

Inductive kind := AND | OR | XOR.

Inductive blk :=
| Ev (e : evt)
| Fork (k : kind) (bs : list (list blk))  (* fork / split / switch with its branches *)
| Loop (body : list blk)                  (* repeat ... repeat while *)
| Break
| Detach.

Definition diagram := list blk.            (* a sequence *)

Definition kind_eqb (a b : kind) : bool :=
  match a, b with AND, AND | OR, OR | XOR, XOR => true | _, _ => false end.

Fixpoint events_blk (b : blk) : list evt :=
  match b with
  | Ev e => [e]
  | Fork _ bs => flat_map (fun s => flat_map events_blk s) bs
  | Loop body => flat_map events_blk body
  | Break | Detach => []
  end.
Definition events_of (d : diagram) : list evt := flat_map events_blk d.

Definition is_terminator (b : blk) : bool := match b with Break | Detach => true | _ => false end.

(** Syntactic well-formedness (the C05 clause): break/detach only as the last item of a sequence,
    forks have at least one branch and no empty branch, loop bodies are non-empty. *)
Fixpoint wf_blk (b : blk) : bool :=
  let wf_seq := fix go (s : list blk) : bool :=
      match s with
      | [] => true
      | b' :: r =>
          match r with
          | [] => wf_blk b'
          | _ :: _ => negb (is_terminator b') && wf_blk b' && go r
          end
      end in
  match b with
  | Ev _ | Break | Detach => true
  | Fork _ bs =>
      match bs with [] => false | _ => true end
      && forallb (fun s => match s with [] => false | _ => true end && wf_seq s) bs
  | Loop body => match body with [] => false | _ => true end && wf_seq body
  end.

Fixpoint wf_seq (s : list blk) : bool :=
  match s with
  | [] => true
  | b' :: r =>
      match r with
      | [] => wf_blk b'
      | _ :: _ => negb (is_terminator b') && wf_blk b' && wf_seq r
      end
  end.
Definition wf (d : diagram) : bool := wf_seq d.
