(** Execution semantics: the finite set of runs of a diagram with every loop iterated 1..k times,
    each run denoted as a PV job graph (events with their predecessor links).  This executable
    enumerator IS the semantics used by C01-C05/C14; Puml/ExecRel.v (if present) gives an
    inductive reading and relates the two.  No proofs in this file. *)
From Coq Require Import List Bool PArith Arith.
From V Require Import Puml.Ast.
Import ListNotations.

(** A predecessor reference inside a run fragment: the entry frontier or a local node index. *)
Inductive ref := RIn | RLoc (i : nat).

Inductive status := Normal | Broke.

(** A run fragment: local nodes (type, predecessor refs), the frontier the next item links to
    ([RIn] alone = nothing emitted so far; [] = detached, nothing may follow) and whether a break
    is propagating to the enclosing loop. *)
Record frag := mkfrag { fnodes : list (evt * list ref); ffront : list ref; fstat : status }.

Definition empty_frag : frag := mkfrag [] [RIn] Normal.

Definition shift (off : nat) (front : list ref) (r : ref) : list ref :=
  match r with RIn => front | RLoc j => [RLoc (j + off)] end.

(** [seq_frag a b]: run [b] after [a] (only legal when a is Normal with a non-empty frontier) *)
Definition seq_frag (a b : frag) : frag :=
  let off := length (fnodes a) in
  let sub := fun rs => flat_map (shift off (ffront a)) rs in
  mkfrag (fnodes a ++ map (fun n => (fst n, sub (snd n))) (fnodes b)) (sub (ffront b)) (fstat b).

Definition live (a : frag) : bool :=
  match fstat a, ffront a with Normal, _ :: _ => true | _, _ => false end.

(** all ways to continue every run in [acc] with a run of the next item *)
Definition seq_all (acc : list frag) (next : list frag) : list frag :=
  flat_map (fun a => if live a then map (seq_frag a) next else [a]) acc.

(** [par_frag fs]: chosen branches of an AND/OR fork side by side; frontier = union of the
    branches' frontiers (a detached branch contributes nothing); Broke if any branch broke *)
Fixpoint par_frag (fs : list frag) : frag :=
  match fs with
  | [] => mkfrag [] [] Normal
  | a :: r =>
      let p := par_frag r in
      let off := length (fnodes a) in
      let sub := fun rs => flat_map (shift off [RIn]) rs in
      mkfrag (fnodes a ++ map (fun n => (fst n, sub (snd n))) (fnodes p))
             (ffront a ++ sub (ffront p))
             (match fstat a, fstat p with Normal, Normal => Normal | _, _ => Broke end)
  end.

Fixpoint product {A} (ls : list (list A)) : list (list A) :=
  match ls with
  | [] => [[]]
  | l :: r => flat_map (fun x => map (cons x) (product r)) l
  end.

(** non-empty sub-lists (OR: any non-empty subset of the branches) *)
Fixpoint sublists {A} (l : list A) : list (list A) :=
  match l with
  | [] => [[]]
  | x :: r => let s := sublists r in map (cons x) s ++ s
  end.
Definition nonempty_sublists {A} (l : list A) : list (list A) :=
  filter (fun s => match s with [] => false | _ => true end) (sublists l).

(** loop: 1..k iterations; an iteration that breaks ends the loop (its frontier is kept, the
    break is consumed); [one] = runs of the body *)
Fixpoint loop_runs (k : nat) (one : list frag) (cur : list frag) : list frag :=
  match k with
  | O => []
  | S k' =>
      let step := flat_map (fun a => map (seq_frag a) one) cur in
      let broke := filter (fun f => match fstat f with Broke => true | Normal => false end) step in
      let normal := filter (fun f => match fstat f with Broke => false | Normal => true end) step in
      map (fun f => mkfrag (fnodes f) (ffront f) Normal) broke
      ++ normal                                  (* leave after this iteration *)
      ++ loop_runs k' one (filter live normal)   (* or go round again *)
  end.

Fixpoint runs_blk (k : nat) (b : blk) {struct b} : list frag :=
  match b with
  | Ev e => [mkfrag [(e, [RIn])] [RLoc 0] Normal]
  | Break => [mkfrag [] [RIn] Broke]
  | Detach => [mkfrag [] [] Normal]
  | Fork kd bs =>
      let brs := map (fun s => fold_left (fun acc b' => seq_all acc (runs_blk k b')) s [empty_frag]) bs in
      match kd with
      | XOR => concat brs
      | AND => map par_frag (product brs)
      | OR => flat_map (fun sel => map par_frag (product sel)) (nonempty_sublists brs)
      end
  | Loop body =>
      let one := fold_left (fun acc b' => seq_all acc (runs_blk k b')) body [empty_frag] in
      loop_runs k one [empty_frag]
  end.

Definition runs_seq (k : nat) (s : list blk) : list frag :=
  fold_left (fun acc b => seq_all acc (runs_blk k b)) s [empty_frag].

(** A PV job graph: node i = (event type, predecessor indices). *)
Definition jobgraph := list (evt * list nat).

Definition close (f : frag) : jobgraph :=
  map (fun n => (fst n, flat_map (fun r => match r with RIn => [] | RLoc j => [j] end) (snd n))) (fnodes f).

Definition jobs (k : nat) (d : diagram) : list jobgraph := map close (runs_seq k d).
