(** Line lexer for the PlantUML dialect otel2puml emits: one token per non-blank line, leading
    spaces ignored.  Names are kept as strings (the harness interns them afterwards).
    No proofs in this file. *)
From Coq Require Import List Bool String Ascii.
Import ListNotations.
Local Open Scope string_scope.

Inductive token' :=
| LStartUml                      (* @startuml *)
| LPartition (name : string)     (* partition "name" { *)
| LGroup (name : string)         (* group "name" *)
| LEvent (name : string)         (* :name; *)
| LSwitch | LCase | LEndSwitch   (* switch (XOR) / case ("") / endswitch *)
| LFork | LForkAgain | LEndFork  (* fork / fork again / end fork *)
| LSplit | LSplitAgain | LEndSplit
| LRepeat | LRepeatWhile         (* repeat / repeat while *)
| LBreak | LDetach
| LEndGroup | LClose | LEndUml.  (* end group / } / @enduml *)

Definition nl : ascii := Ascii.ascii_of_nat 10.
Definition dquote : ascii := Ascii.ascii_of_nat 34.
Definition semicolon : ascii := ";"%char.
Definition space : ascii := " "%char.

Definition dq : string := String dquote "".

(** the emitted line, without indentation *)
Definition render_token (t : token') : string :=
  match t with
  | LStartUml => "@startuml"
  | LPartition n => "partition " ++ dq ++ n ++ dq ++ " {"
  | LGroup n => "group " ++ dq ++ n ++ dq
  | LEvent n => ":" ++ n ++ ";"
  | LSwitch => "switch (XOR)"
  | LCase => "case (" ++ dq ++ dq ++ ")"
  | LEndSwitch => "endswitch"
  | LFork => "fork"
  | LForkAgain => "fork again"
  | LEndFork => "end fork"
  | LSplit => "split"
  | LSplitAgain => "split again"
  | LEndSplit => "end split"
  | LRepeat => "repeat"
  | LRepeatWhile => "repeat while"
  | LBreak => "break"
  | LDetach => "detach"
  | LEndGroup => "end group"
  | LClose => "}"
  | LEndUml => "@enduml"
  end.

Fixpoint spaces (n : nat) : string :=
  match n with O => "" | S m => String space (spaces m) end.

(** "\n".join *)
Fixpoint unlines (ls : list string) : string :=
  match ls with
  | [] => ""
  | l :: r => match r with [] => l | _ :: _ => l ++ String nl (unlines r) end
  end.

Fixpoint has_char (c : ascii) (s : string) : bool :=
  match s with
  | EmptyString => false
  | String a r => Ascii.eqb a c || has_char c r
  end.

Fixpoint strip_spaces (s : string) : string :=
  match s with
  | String a r => if Ascii.eqb a space then strip_spaces r else s
  | EmptyString => s
  end.

Fixpoint strip_prefix (p s : string) : option string :=
  match p with
  | EmptyString => Some s
  | String a p' =>
      match s with
      | String b s' => if Ascii.eqb a b then strip_prefix p' s' else None
      | EmptyString => None
      end
  end.

(** [until_char c s = Some (a, b)] when [s = a ++ c :: b] and [c] does not occur in [a] *)
Fixpoint until_char (c : ascii) (s : string) : option (string * string) :=
  match s with
  | EmptyString => None
  | String a r =>
      if Ascii.eqb a c then Some ("", r)
      else match until_char c r with
           | Some (n, rest) => Some (String a n, rest)
           | None => None
           end
  end.

(** [prefix NAME delim suffix] with NAME free of [delim] *)
Definition lex_named (prefix : string) (delim : ascii) (suffix : string) (s : string)
  : option string :=
  match strip_prefix prefix s with
  | Some r =>
      match until_char delim r with
      | Some (name, rest) => if String.eqb rest suffix then Some name else None
      | None => None
      end
  | None => None
  end.

Definition keywords : list (string * token') :=
  [ ("@startuml", LStartUml); ("switch (XOR)", LSwitch); ("case (" ++ dq ++ dq ++ ")", LCase);
    ("endswitch", LEndSwitch); ("fork", LFork); ("fork again", LForkAgain);
    ("end fork", LEndFork); ("split", LSplit); ("split again", LSplitAgain);
    ("end split", LEndSplit); ("repeat", LRepeat); ("repeat while", LRepeatWhile);
    ("break", LBreak); ("detach", LDetach); ("end group", LEndGroup); ("}", LClose);
    ("@enduml", LEndUml) ].

Fixpoint lookup (s : string) (l : list (string * token')) : option token' :=
  match l with
  | [] => None
  | (k, t) :: r => if String.eqb s k then Some t else lookup s r
  end.

(** [None]: not a line of the dialect; [Some None]: blank line; [Some (Some t)]: token [t] *)
Definition lex_line (line : string) : option (option token') :=
  let s := strip_spaces line in
  match s with
  | EmptyString => Some None
  | _ =>
      match lookup s keywords with
      | Some t => Some (Some t)
      | None =>
          match lex_named ":" semicolon "" s with
          | Some n => Some (Some (LEvent n))
          | None =>
              match lex_named ("partition " ++ dq) dquote " {" s with
              | Some n => Some (Some (LPartition n))
              | None =>
                  match lex_named ("group " ++ dq) dquote "" s with
                  | Some n => Some (Some (LGroup n))
                  | None => None
                  end
              end
          end
      end
  end.

(** split on "\n": [k] newlines give [k + 1] lines *)
Fixpoint split_lines (s : string) : list string :=
  match s with
  | EmptyString => [""]
  | String a r =>
      if Ascii.eqb a nl then "" :: split_lines r
      else match split_lines r with
           | l :: ls => String a l :: ls
           | [] => [String a ""]   (* unreachable: [split_lines] never returns [] *)
           end
  end.

Fixpoint lex_lines (ls : list string) : option (list token') :=
  match ls with
  | [] => Some []
  | l :: r =>
      match lex_line l with
      | None => None
      | Some None => lex_lines r
      | Some (Some t) =>
          match lex_lines r with
          | Some ts => Some (t :: ts)
          | None => None
          end
      end
  end.

Definition lex (s : string) : option (list token') := lex_lines (split_lines s).

(** names that the line formats can carry unambiguously *)
Definition token_ok (t : token') : bool :=
  match t with
  | LPartition n | LGroup n => negb (has_char nl n) && negb (has_char dquote n)
  | LEvent n => negb (has_char nl n) && negb (has_char semicolon n)
  | _ => true
  end.
