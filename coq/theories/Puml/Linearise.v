(** The last stage of the diagram generator: [tel2puml/puml_graph.py],
    [PUMLGraph.write_puml_string] / [write_uml_blocks] / [_order_nodes_from_dfs_successors_dict]
    and the [write_uml_blocks] methods of [PUMLEventNode], [PUMLOperatorNode], [PUMLKillNode],
    together with [networkx.dfs_successors] (networkx 3.2.1, [dfs_edges] with an explicit stack).

    The PUML graph is modelled as the printer sees it: node payloads, adjacency lists in
    networkx insertion order ([graph.succ[node]]), and the head (first element of
    [topological_sort], which is the first node, in node insertion order, of in-degree 0: see
    [topo_head]).  Indentation is cosmetic (the lexer strips it) and is not modelled.
    No proofs in this file. *)
From Coq Require Import List Bool PArith Arith.
From V Require Import Puml.Ast Puml.Syntax.
Import ListNotations.

(** * Graphs *)

Inductive opkind := OStart | OPath | OEnd.
Inductive okind := KGate (k : kind) | KLoop.

Inductive pnode :=
| PEvent (e : evt) (brk : bool)          (* PUMLEventNode without sub graph; [brk]: BREAK in event_types *)
| PLoop (body : pgraph) (brk : bool)     (* PUMLEventNode with sub graph and LOOP in event_types *)
| PSub (body : pgraph) (brk : bool)      (* PUMLEventNode with sub graph, LOOP not in event_types *)
| POp (o : opkind) (k : okind)           (* PUMLOperatorNode *)
| PKill                                  (* PUMLKillNode *)
with pgraph :=
| PGraph (nodes : list (nat * pnode))    (* [graph.nodes] in insertion order, numbered by the exporter *)
         (succ : list (nat * list nat))  (* [graph.succ]: node -> successors in insertion order *)
         (head : nat).                   (* [list(topological_sort(graph))[0]]; ignored when there are no nodes *)

Arguments PEvent e%positive brk%bool.

Definition g_nodes (g : pgraph) := match g with PGraph ns _ _ => ns end.
Definition g_succ (g : pgraph) := match g with PGraph _ sc _ => sc end.
Definition g_head (g : pgraph) := match g with PGraph _ _ h => h end.

Definition adjl := list (nat * list nat).

Fixpoint lookup {A : Type} (l : list (nat * A)) (n : nat) : option A :=
  match l with
  | [] => None
  | (k, v) :: r => if Nat.eqb k n then Some v else lookup r n
  end.

(** [G[n]] / [d[n]] for an adjacency list or a successor dictionary *)
Definition adj (sc : adjl) (n : nat) : list nat :=
  match lookup sc n with Some l => l | None => [] end.

Definition mem (n : nat) (l : list nat) : bool := existsb (Nat.eqb n) l.

(** * networkx.dfs_edges(G, source) with its explicit stack

    [stack] is a list of (parent, remaining children) frames, top first; the python [iter(G[child])]
    is the list of children not yet looked at.  One unit of fuel per child looked at and per frame
    popped; [depth_limit = len(G)] is not modelled (a stack of distinct nodes cannot exceed it).
    The result is the list of yielded edges, in order. *)
Fixpoint dfs_loop (fuel : nat) (sc : adjl) (visited : list nat) (stack : list (nat * list nat))
         (out : list (nat * nat)) {struct fuel} : option (list (nat * nat)) :=
  match stack with
  | [] => Some out
  | (p, cs) :: rest =>
      match fuel with
      | O => None
      | S f =>
          match cs with
          | [] => dfs_loop f sc visited rest out                       (* for-else: stack.pop() *)
          | c :: cs' =>
              if mem c visited then dfs_loop f sc visited ((p, cs') :: rest) out
              else dfs_loop f sc (c :: visited) ((c, adj sc c) :: (p, cs') :: rest) (out ++ [(p, c)])
          end
      end
  end.

Definition n_edges (sc : adjl) : nat := fold_right (fun kv a => length (snd kv) + a) 0 sc.

Definition dfs_fuel (g : pgraph) : nat := length (g_nodes g) + n_edges (g_succ g).

Definition dfs_edges (g : pgraph) : option (list (nat * nat)) :=
  dfs_loop (dfs_fuel g) (g_succ g) [g_head g] [(g_head g, adj (g_succ g) (g_head g))] [].

(** [d = defaultdict(list); for s, t in edges: d[s].append(t)] *)
Fixpoint dict_append (d : adjl) (s t : nat) : adjl :=
  match d with
  | [] => [(s, [t])]
  | (k, l) :: r => if Nat.eqb k s then (k, l ++ [t]) :: r else (k, l) :: dict_append r s t
  end.

Definition dict_of_edges (es : list (nat * nat)) : adjl :=
  fold_left (fun d st => dict_append d (fst st) (snd st)) es [].

Definition dfs_successors (g : pgraph) : option adjl := option_map dict_of_edges (dfs_edges g).

(** * _order_nodes_from_dfs_successors_dict *)

(** what the ordering needs to know about a node: is it a START operator with a PATH node
    ([OPERATOR_PATH_FUNCTION_MAP]: START_XOR/AND/OR give PATH nodes for i > 0, START_LOOP never) *)
Definition start_gate (n : pnode) : option kind :=
  match n with POp OStart (KGate k) => Some k | _ => None end.

Inductive onode := ONode (id : nat) | OPathNode (k : kind).

Definition path_nodes (sk : option kind) (i : nat) : list onode :=
  match sk, i with
  | Some k, S _ => [OPathNode k]
  | _, _ => []
  end.

(** a node id without payload cannot occur in python; the model treats it as a non-operator *)
Definition shape_of (shapes : list (nat * option kind)) (n : nat) : option kind :=
  match lookup shapes n with Some s => s | None => None end.

Section Order.
  Variable shapes : list (nat * option kind).
  Variable d : adjl.

  Fixpoint order_nodes (fuel : nat) (n : nat) {struct fuel} : option (list onode) :=
    match fuel with
    | O => None
    | S f =>
        let fix go (i : nat) (l : list nat) : option (list onode) :=
            match l with
            | [] => Some []
            | s :: r =>
                match order_nodes f s, go (S i) r with
                | Some a, Some b => Some (path_nodes (shape_of shapes n) i ++ a ++ b)
                | _, _ => None
                end
            end in
        option_map (cons (ONode n)) (go 0 (rev (adj d n)))
    end.
End Order.

(** * write_uml_blocks of the node classes *)

(** OPERATOR_NODE_PUML_MAP; there is no PATH_LOOP member of PUMLOperatorNodes *)
Definition op_tokens (o : opkind) (k : okind) : option (list token) :=
  match o, k with
  | OStart, KGate XOR => Some [TSwitch; TCase]
  | OStart, KGate k' => Some [opener k']
  | OPath, KGate k' => Some [separator k']
  | OEnd, KGate k' => Some [closer k']
  | OStart, KLoop => Some [TRepeat]
  | OEnd, KLoop => Some [TRepeatWhile]
  | OPath, KLoop => None
  end.

Definition brk_tokens (brk : bool) : list token := if brk then [TBreak] else [].

Definition shapes_of (ns : list (nat * pnode)) : list (nat * option kind) :=
  map (fun iv => (fst iv, start_gate (snd iv))) ns.

Definition render_onode (rend : list (nat * option (list token))) (o : onode) : option (list token) :=
  match o with
  | ONode n => match lookup rend n with Some r => r | None => None end
  | OPathNode k => op_tokens OPath (KGate k)
  end.

Fixpoint concat_opt (l : list (option (list token))) : option (list token) :=
  match l with
  | [] => Some []
  | x :: r => match x, concat_opt r with Some a, Some b => Some (a ++ b) | _, _ => None end
  end.

(** [PUMLGraph.write_uml_blocks] given the rendering of every node of this graph *)
Definition blocks_with (rend : list (nat * option (list token))) (shapes : list (nat * option kind))
           (sc : adjl) (nnodes : nat) (h : nat) : option (list token) :=
  match nnodes with
  | O => Some []                                   (* len(top_sort) == 0 *)
  | S _ =>
      match dfs_loop (nnodes + n_edges sc) sc [h] [(h, adj sc h)] [] with
      | None => None
      | Some es =>
          match order_nodes shapes (dict_of_edges es) (S nnodes) h with
          | None => None
          | Some ord => concat_opt (map (render_onode rend) ord)
          end
      end
  end.

(** [node.write_uml_blocks] (first component) *)
Fixpoint lin_node (n : pnode) : option (list token) :=
  let lin_graph := fun (g : pgraph) =>
      match g with
      | PGraph ns sc h =>
          let rend := (fix go (l : list (nat * pnode)) : list (nat * option (list token)) :=
                         match l with
                         | [] => []
                         | p :: r => match p with (i, x) => (i, lin_node x) :: go r end
                         end) ns in
          blocks_with rend (shapes_of ns) sc (length ns) h
      end in
  match n with
  | PEvent e brk => Some (TEvent e :: brk_tokens brk)
  | PLoop g brk => option_map (fun b => TRepeat :: b ++ TRepeatWhile :: brk_tokens brk) (lin_graph g)
  | PSub g brk => option_map (fun b => b ++ brk_tokens brk) (lin_graph g)
  | POp o k => op_tokens o k
  | PKill => Some [TDetach]
  end.

Definition render_nodes (ns : list (nat * pnode)) : list (nat * option (list token)) :=
  map (fun iv => (fst iv, lin_node (snd iv))) ns.

(** [PUMLGraph.write_uml_blocks] *)
Definition lin_blocks (g : pgraph) : option (list token) :=
  blocks_with (render_nodes (g_nodes g)) (shapes_of (g_nodes g)) (g_succ g) (length (g_nodes g)) (g_head g).

(** [PUMLGraph.write_puml_string(name)], tokenised; [None] = out of fuel / malformed term *)
Definition linearise (name : positive) (g : pgraph) : option (list token) :=
  option_map (fun b => [TStartUml; TPartition name; TGroup name] ++ b ++ [TEndGroup; TClose; TEndUml])
             (lin_blocks g).

(** * The head: first element of networkx.topological_sort

    [topological_generations] starts from [zero_indegree = [v for v, d in G.in_degree() if d == 0]]:
    the first node, in node order, that is the target of no edge.  (The python raises
    NetworkXUnfeasible on a cyclic graph; that exception is not modelled.) *)
Definition has_pred (sc : adjl) (n : nat) : bool := existsb (fun kv => mem n (snd kv)) sc.

Definition topo_head (g : pgraph) : option nat :=
  option_map fst (find (fun iv => negb (has_pred (g_succ g) (fst iv))) (g_nodes g)).

(** the [head] fields of a graph and of all its sub graphs are what networkx would compute *)
Fixpoint heads_ok_node (n : pnode) : bool :=
  let heads_ok := fun (g : pgraph) =>
      match g with
      | PGraph ns sc h =>
          match ns with
          | [] => true
          | _ :: _ => match topo_head (PGraph ns sc h) with Some h' => Nat.eqb h h' | None => false end
          end
          && (fix go (l : list (nat * pnode)) : bool :=
                match l with [] => true | p :: r => heads_ok_node (snd p) && go r end) ns
      end in
  match n with
  | PLoop g _ | PSub g _ => heads_ok g
  | _ => true
  end.

Definition heads_ok (g : pgraph) : bool := heads_ok_node (PSub g false).

(** * The DFS tree that [_order_nodes_from_dfs_successors_dict] walks *)

Inductive dtree := DNode (n : nat) (children : list dtree).   (* children in discovery order *)

Definition root (t : dtree) : nat := match t with DNode n _ => n end.

(** unfolding of a successor dictionary from a node *)
Fixpoint build_tree (d : adjl) (fuel : nat) (n : nat) {struct fuel} : option dtree :=
  match fuel with
  | O => None
  | S f =>
      option_map (DNode n)
        ((fix go (l : list nat) : option (list dtree) :=
            match l with
            | [] => Some []
            | s :: r => match build_tree d f s, go r with
                        | Some a, Some b => Some (a :: b)
                        | _, _ => None
                        end
            end) (adj d n))
  end.

Definition dfs_tree_of (sc : adjl) (nnodes : nat) (h : nat) : option dtree :=
  match dfs_loop (nnodes + n_edges sc) sc [h] [(h, adj sc h)] [] with
  | Some es => build_tree (dict_of_edges es) (S nnodes) h
  | None => None
  end.

Definition dfs_tree (g : pgraph) : option dtree :=
  dfs_tree_of (g_succ g) (length (g_nodes g)) (g_head g).

(** the output order, by structural recursion: children are emitted last-discovered first, with a
    PATH node in front of every child but the first emitted *)
Fixpoint order_tree (shapes : list (nat * option kind)) (t : dtree) : list onode :=
  match t with
  | DNode n cs =>
      ONode n ::
      (fix go (l : list dtree) : list onode :=
         match l with
         | [] => []
         | c :: r => go r ++ path_nodes (shape_of shapes n) (length r) ++ order_tree shapes c
         end) cs
  end.

Definition print_tree (rend : list (nat * option (list token))) (shapes : list (nat * option kind))
           (t : dtree) : option (list token) :=
  concat_opt (map (render_onode rend) (order_tree shapes t)).

(** * Recognising block-structured graphs (a checker for one exported graph) *)

Inductive nclass :=
| CEv (e : evt) (brk : bool)
| CLoop (body : diagram) (brk : bool)
| CStart (k : kind)
| CEnd (k : kind)
| CKill.

(** result of walking a DFS tree along its spine: the items before the first unmatched END
    operator, then for every unmatched END its kind and the items that follow it *)
Definition wres := (list blk * list (kind * list blk))%type.

Definition after_item (b : blk) (brk : bool) (r : option wres) : option wres :=
  match r with
  | None => None
  | Some (s, segs) =>
      if brk then match s with [] => Some ([b; Break], segs) | _ :: _ => None end
      else Some (b :: s, segs)
  end.

Definition after_term (b : blk) (r : option wres) : option wres :=
  match r with
  | Some ([], segs) => Some ([b], segs)
  | _ => None
  end.

Section Walk.
  Variable cls : list (nat * option nclass).

  Definition class_of (n : nat) : option nclass :=
    match lookup cls n with Some c => c | None => None end.

  Fixpoint walk (t : dtree) : option wres :=
    match t with
    | DNode n cs =>
        let next := match cs with [] => Some ([], []) | [c] => walk c | _ :: _ :: _ => None end in
        match class_of n with
        | None => None
        | Some (CEv e brk) => after_item (Ev e) brk next
        | Some (CLoop body brk) => after_item (Loop body) brk next
        | Some CKill => after_term Detach next
        | Some (CEnd k) =>
            match next with Some (s, segs) => Some ([], (k, s) :: segs) | None => None end
        | Some (CStart k) =>
            match cs with
            | [] => None
            | c :: others =>
                match walk c with
                | Some (sn, (k', s') :: segs) =>
                    if kind_eqb k k' then
                      match (fix go (l : list dtree) : option (list (list blk)) :=
                               match l with
                               | [] => Some []
                               | o :: r => match walk o, go r with
                                           | Some (s, []), Some acc => Some (s :: acc)
                                           | _, _ => None
                                           end
                               end) others with
                      | Some ss => Some (Fork k (rev ss ++ [sn]) :: s', segs)
                      | None => None
                      end
                    else None
                | _ => None
                end
            end
        end
    end.
End Walk.

Definition block_with (cls : list (nat * option nclass)) (sc : adjl) (nnodes : nat) (h : nat)
  : option diagram :=
  match nnodes with
  | O => Some []
  | S _ =>
      match dfs_tree_of sc nnodes h with
      | Some t => match walk cls t with Some (d, []) => Some d | _ => None end
      | None => None
      end
  end.

Fixpoint classify (pn : pnode) : option nclass :=
  let block_graph := fun (g : pgraph) =>
      match g with
      | PGraph ns sc h =>
          let cls := (fix go (l : list (nat * pnode)) : list (nat * option nclass) :=
                        match l with
                        | [] => []
                        | p :: r => match p with (i, x) => (i, classify x) :: go r end
                        end) ns in
          block_with cls sc (length ns) h
      end in
  match pn with
  | PEvent e brk => Some (CEv e brk)
  | PLoop g brk => match block_graph g with Some d => Some (CLoop d brk) | None => None end
  | PSub _ _ => None
  | POp OStart (KGate k) => Some (CStart k)
  | POp OEnd (KGate k) => Some (CEnd k)
  | POp _ _ => None
  | PKill => Some CKill
  end.

Definition classes_of (ns : list (nat * pnode)) : list (nat * option nclass) :=
  map (fun iv => (fst iv, classify (snd iv))) ns.

(** [Some d]: the DFS tree of [g] (and of its loop bodies, recursively) has the shape of the block
    diagram [d]; then the emitted text is [print name d] (LineariseProofs.is_block_graph_sound) *)
Definition is_block_graph (g : pgraph) : option diagram :=
  block_with (classes_of (g_nodes g)) (g_succ g) (length (g_nodes g)) (g_head g).

(** * The canonical PUML graph of a diagram

    Node ids are allocated right to left (the continuation of a block is built before the block).
    [Fork k [b1; ...; bn]] occupies END = base, START = base + 1, then b1, ..., bn; the edges
    out of START are inserted in the order bn, ..., b1 (the reverse of the printing order: the
    DFS enters bn first, reaches END and everything after the fork through it, and
    [_order_nodes_from_dfs_successors_dict] emits the children in reversed order); the last node
    of every branch, kill nodes and break events included, has an edge to END (as
    walk_puml_logic_graph builds them); END has an edge to the continuation.  [Ev e] followed
    by [Break] is one event node with the break flag, likewise [Loop]; [Detach] is a kill node.
    A fragment also carries the DFS tree it is expected to produce ([f_tree], given the tree
    [tail] hanging off its exit): used by the proofs only. *)

Record frag := Frag {
  f_nodes : list (nat * pnode);
  f_succ : adjl;
  f_next : nat;             (* first unused id *)
  f_entry : list nat;       (* [] or [first node]; the exit list of an empty fragment *)
  f_tree : list dtree }.

Definition followed_by_break (r : list blk) : bool :=
  match r with Break :: _ => true | _ => false end.

Definition frag_app (a b : frag) (next : nat) (entry : list nat) (tree : list dtree) : frag :=
  Frag (f_nodes a ++ f_nodes b) (f_succ a ++ f_succ b) next entry tree.

Definition pgraph_of_frag (f : frag) : pgraph := PGraph (f_nodes f) (f_succ f) (hd 0 (f_entry f)).

Fixpoint seg_blk (b : blk) (brk : bool) (base : nat) (nxt : list nat) (tail : list dtree)
         {struct b} : frag :=
  let seg := fix go (s : list blk) (base : nat) (xl : list nat) (tail : list dtree) {struct s} : frag :=
      match s with
      | [] => Frag [] [] base xl tail
      | b' :: r =>
          let fr := go r base xl tail in
          let fb := seg_blk b' (followed_by_break r) (f_next fr) (f_entry fr) (f_tree fr) in
          frag_app fb fr (f_next fb) (f_entry fb) (f_tree fb)
      end in
  match b with
  | Ev e => Frag [(base, PEvent e brk)] [(base, nxt)] (S base) [base] [DNode base tail]
  | Loop body =>
      Frag [(base, PLoop (pgraph_of_frag (seg body 0 [] [])) brk)] [(base, nxt)] (S base) [base]
           [DNode base tail]
  | Detach => Frag [(base, PKill)] [(base, nxt)] (S base) [base] [DNode base tail]
  | Break => Frag [] [] base nxt tail
  | Fork k bs =>
      let fbs := (fix gos (l : list (list blk)) (b0 : nat) {struct l} : frag :=
                    match l with
                    | [] => Frag [] [] b0 [] []
                    | s :: r =>
                        let fs := seg s b0 [base]
                                      (match r with [] => [DNode base tail] | _ :: _ => [] end) in
                        let fr := gos r (f_next fs) in
                        frag_app fs fr (f_next fr) (f_entry fr ++ f_entry fs) (f_tree fr ++ f_tree fs)
                    end) bs (S (S base)) in
      Frag ((base, POp OEnd (KGate k)) :: (S base, POp OStart (KGate k)) :: f_nodes fbs)
           ((base, nxt) :: (S base, f_entry fbs) :: f_succ fbs)
           (f_next fbs) [S base] [DNode (S base) (f_tree fbs)]
  end.

Fixpoint seg (s : list blk) (base : nat) (xl : list nat) (tail : list dtree) {struct s} : frag :=
  match s with
  | [] => Frag [] [] base xl tail
  | b' :: r =>
      let fr := seg r base xl tail in
      let fb := seg_blk b' (followed_by_break r) (f_next fr) (f_entry fr) (f_tree fr) in
      frag_app fb fr (f_next fb) (f_entry fb) (f_tree fb)
  end.

Definition graph_of (d : diagram) : pgraph := pgraph_of_frag (seg d 0 [] []).

(** diagrams that have a graph: every [Break] directly follows an event or a loop *)
Fixpoint lin_ok_blk (b : blk) : bool :=
  let ok_seq := fix go (can : bool) (s : list blk) {struct s} : bool :=
      match s with
      | [] => true
      | b' :: r =>
          match b' with
          | Break => can && go false r
          | Ev _ => go true r
          | Loop _ => lin_ok_blk b' && go true r
          | _ => lin_ok_blk b' && go false r
          end
      end in
  match b with
  | Fork _ bs => forallb (ok_seq false) bs
  | Loop body => ok_seq false body
  | _ => true
  end.

Fixpoint lin_ok_seq (can : bool) (s : list blk) {struct s} : bool :=
  match s with
  | [] => true
  | b' :: r =>
      match b' with
      | Break => can && lin_ok_seq false r
      | Ev _ => lin_ok_seq true r
      | Loop _ => lin_ok_blk b' && lin_ok_seq true r
      | _ => lin_ok_blk b' && lin_ok_seq false r
      end
  end.

Definition lin_ok (d : diagram) : bool := lin_ok_seq false d.
