(** Proofs about [Puml.Linearise] (the DFS printer of tel2puml/puml_graph.py). *)
From Coq Require Import List Bool PArith Arith Lia.
From V Require Import Puml.Ast Puml.Syntax Puml.Parse Puml.ParseProofs Puml.Linearise Puml.LineariseCheck.
Import ListNotations.

(* ------------------------------------------------------------------------------------------ *)
(** * (a) [linearise] is a function of the DFS tree only *)

Fixpoint map_opt {A B : Type} (f : A -> option B) (l : list A) : option (list B) :=
  match l with
  | [] => Some []
  | x :: r => match f x, map_opt f r with Some a, Some b => Some (a :: b) | _, _ => None end
  end.

Lemma map_opt_app {A B} (f : A -> option B) l1 l2 :
  map_opt f (l1 ++ l2) =
  match map_opt f l1, map_opt f l2 with Some a, Some b => Some (a ++ b) | _, _ => None end.
Proof.
  induction l1 as [|x l1 IH]; cbn [map_opt app].
  - destruct (map_opt f l2); reflexivity.
  - rewrite IH. destruct (f x); [|reflexivity].
    destruct (map_opt f l1); [|reflexivity]. destruct (map_opt f l2); reflexivity.
Qed.

Lemma map_opt_rev {A B} (f : A -> option B) l :
  map_opt f (rev l) = option_map (@rev B) (map_opt f l).
Proof.
  induction l as [|x l IH]; [reflexivity|].
  cbn [rev map_opt]. rewrite map_opt_app, IH. cbn [map_opt].
  destruct (f x); destruct (map_opt f l); reflexivity.
Qed.

Lemma build_tree_S d f n :
  build_tree d (S f) n = option_map (DNode n) (map_opt (build_tree d f) (adj d n)).
Proof.
  cbn [build_tree]. f_equal. induction (adj d n) as [|s r IH]; [reflexivity|].
  cbn [map_opt]. rewrite <- IH. reflexivity.
Qed.

(** emitted children, given the emitted lists in emission order *)
Fixpoint interleave (sk : option kind) (i : nat) (l : list (list onode)) : list onode :=
  match l with
  | [] => []
  | a :: r => path_nodes sk i ++ a ++ interleave sk (S i) r
  end.

Lemma interleave_snoc sk i l a :
  interleave sk i (l ++ [a]) = interleave sk i l ++ path_nodes sk (i + length l) ++ a.
Proof.
  revert i. induction l as [|x l IH]; intros i; cbn [interleave app length].
  - rewrite Nat.add_0_r, app_nil_r. reflexivity.
  - rewrite IH. rewrite <- !app_assoc. replace (S i + length l) with (i + S (length l)) by lia.
    reflexivity.
Qed.

Lemma order_tree_eq shapes n cs :
  order_tree shapes (DNode n cs) =
  ONode n :: interleave (shape_of shapes n) 0 (rev (map (order_tree shapes) cs)).
Proof.
  cbn [order_tree]. f_equal.
  induction cs as [|c r IH]; [reflexivity|].
  rewrite IH. cbn [map rev]. rewrite interleave_snoc, rev_length, map_length. reflexivity.
Qed.

Lemma order_nodes_S shapes d f n :
  order_nodes shapes d (S f) n =
  option_map (fun l => ONode n :: interleave (shape_of shapes n) 0 l)
             (map_opt (order_nodes shapes d f) (rev (adj d n))).
Proof.
  cbn [order_nodes]. generalize (rev (adj d n)) as l. generalize 0 as i.
  intros i l. revert i. induction l as [|s r IH]; intros i; [reflexivity|].
  cbn [map_opt interleave]. specialize (IH (S i)).
  destruct (order_nodes shapes d f s) as [a|]; [|reflexivity].
  match goal with |- option_map _ (match ?X with _ => _ end) = _ => destruct X as [b|] eqn:E end.
  - destruct (map_opt (order_nodes shapes d f) r) as [bs|]; cbn in IH |- *; [|discriminate].
    injection IH as IH. rewrite IH. reflexivity.
  - destruct (map_opt (order_nodes shapes d f) r) as [bs|]; cbn in IH |- *; [discriminate|reflexivity].
Qed.

Lemma map_opt_ext {A B} (f g : A -> option B) l :
  (forall x, f x = g x) -> map_opt f l = map_opt g l.
Proof. intros H. induction l as [|x l IH]; cbn; [reflexivity|]. now rewrite H, IH. Qed.

Lemma map_opt_map {A B C} (f : A -> option B) (g : B -> C) l :
  map_opt (fun x => option_map g (f x)) l = option_map (map g) (map_opt f l).
Proof.
  induction l as [|x l IH]; cbn; [reflexivity|]. rewrite IH.
  destruct (f x); cbn; [|reflexivity]. destruct (map_opt f l); reflexivity.
Qed.

(** the recursive walk over the successor dictionary = unfold the dictionary into a tree, then
    walk the tree structurally *)
Lemma order_nodes_build shapes d fuel n :
  order_nodes shapes d fuel n = option_map (order_tree shapes) (build_tree d fuel n).
Proof.
  revert n. induction fuel as [|f IH]; intros n; [reflexivity|].
  rewrite order_nodes_S, build_tree_S.
  rewrite (map_opt_ext _ _ _ IH), map_opt_map, map_opt_rev.
  destruct (map_opt (build_tree d f) (adj d n)) as [ts|]; cbn [option_map]; [|reflexivity].
  rewrite order_tree_eq, map_rev. reflexivity.
Qed.

Theorem blocks_with_tree rend shapes sc nn h :
  blocks_with rend shapes sc nn h =
  match nn with
  | O => Some []
  | S _ => match dfs_tree_of sc nn h with
           | Some t => print_tree rend shapes t
           | None => None
           end
  end.
Proof.
  unfold blocks_with, dfs_tree_of. destruct nn as [|m]; [reflexivity|].
  destruct (dfs_loop _ _ _ _ _) as [es|]; [|reflexivity].
  rewrite order_nodes_build. unfold print_tree.
  destruct (build_tree _ _ _); reflexivity.
Qed.

Lemma render_nodes_fix ns :
  (fix go (l : list (nat * pnode)) : list (nat * option (list token)) :=
     match l with
     | [] => []
     | p :: r => match p with (i, x) => (i, lin_node x) :: go r end
     end) ns = render_nodes ns.
Proof. induction ns as [|[i x] r IH]; [reflexivity|]. cbn [render_nodes map fst snd]. now rewrite IH. Qed.

Lemma lin_node_loop g brk :
  lin_node (PLoop g brk) =
  option_map (fun b => TRepeat :: b ++ TRepeatWhile :: brk_tokens brk) (lin_blocks g).
Proof. destruct g as [ns sc h]. cbn [lin_node]. rewrite render_nodes_fix. reflexivity. Qed.

Lemma lin_node_sub g brk :
  lin_node (PSub g brk) = option_map (fun b => b ++ brk_tokens brk) (lin_blocks g).
Proof. destruct g as [ns sc h]. cbn [lin_node]. rewrite render_nodes_fix. reflexivity. Qed.

Definition wrap (name : positive) (b : list token) : list token :=
  [TStartUml; TPartition name; TGroup name] ++ b ++ [TEndGroup; TClose; TEndUml].

(** the blocks of a graph are the structural print of its DFS tree ([None] on both sides when
    the DFS or the unfolding runs out of fuel) *)
Theorem lin_blocks_tree g :
  lin_blocks g =
  match g_nodes g with
  | [] => Some []
  | _ :: _ => match dfs_tree g with
              | Some t => print_tree (render_nodes (g_nodes g)) (shapes_of (g_nodes g)) t
              | None => None
              end
  end.
Proof.
  unfold lin_blocks, dfs_tree. rewrite blocks_with_tree.
  destruct (g_nodes g); reflexivity.
Qed.

Theorem linearise_tree name g :
  linearise name g =
  option_map (wrap name)
    match g_nodes g with
    | [] => Some []
    | _ :: _ => match dfs_tree g with
                | Some t => print_tree (render_nodes (g_nodes g)) (shapes_of (g_nodes g)) t
                | None => None
                end
    end.
Proof. unfold linearise. rewrite lin_blocks_tree. reflexivity. Qed.

(* ------------------------------------------------------------------------------------------ *)
(** * The iterative DFS of networkx computes the textbook recursive DFS tree *)

Section DtreeInd.
  Variable P : dtree -> Prop.
  Hypothesis H : forall n cs, Forall P cs -> P (DNode n cs).
  Fixpoint dtree_nested_ind (t : dtree) : P t :=
    match t with
    | DNode n cs =>
        H n cs ((fix go (l : list dtree) : Forall P l :=
                   match l with
                   | [] => Forall_nil P
                   | c :: r => Forall_cons c (dtree_nested_ind c) (go r)
                   end) cs)
    end.
End DtreeInd.

Fixpoint pre (t : dtree) : list nat := match t with DNode n cs => n :: flat_map pre cs end.
Definition pre_l (ts : list dtree) : list nat := flat_map pre ts.

(** edges yielded while exploring the trees [ts] below [p], in yield order *)
Fixpoint tedges (p : nat) (t : dtree) : list (nat * nat) :=
  match t with DNode n cs => (p, n) :: flat_map (tedges n) cs end.
Definition edges_l (p : nat) (ts : list dtree) : list (nat * nat) := flat_map (tedges p) ts.

Lemma mem_In n l : mem n l = true <-> In n l.
Proof.
  unfold mem. rewrite existsb_exists. split.
  - intros [x [Hx He]]. apply Nat.eqb_eq in He. now subst.
  - intros Hn. exists n. split; [assumption|apply Nat.eqb_refl].
Qed.

Lemma mem_false n l : mem n l = false <-> ~ In n l.
Proof. rewrite <- mem_In. destruct (mem n l); split; congruence. Qed.

Section Dfs.
  Variable sc : adjl.

  (** recursive DFS over a child list: [R V cs V' ts k]: starting with visited set [V], looking at
      the children [cs] in order yields the trees [ts] and visited set [V'], in [k] machine steps *)
  Inductive R : list nat -> list nat -> list nat -> list dtree -> nat -> Prop :=
  | RNil V : R V [] V [] 0
  | RSkip V c cs V' ts k : mem c V = true -> R V cs V' ts k -> R V (c :: cs) V' ts (S k)
  | RVisit V c cs V1 ts1 k1 V2 ts k2 :
      mem c V = false -> R (c :: V) (adj sc c) V1 ts1 k1 -> R V1 cs V2 ts k2 ->
      R V (c :: cs) V2 (DNode c ts1 :: ts) (S (k1 + S k2)).

  Lemma dfs_loop_R V cs V' ts k :
    R V cs V' ts k ->
    forall p K D fuel,
      dfs_loop (k + fuel) sc V ((p, cs) :: K) D = dfs_loop fuel sc V' ((p, []) :: K) (D ++ edges_l p ts).
  Proof.
    induction 1 as [V|V c cs V' ts k Hm _ IH|V c cs V1 ts1 k1 V2 ts k2 Hm _ IH1 _ IH2];
      intros p K D fuel.
    - cbn [edges_l flat_map]. now rewrite app_nil_r.
    - cbn [Nat.add dfs_loop]. rewrite Hm. apply IH.
    - cbn [Nat.add dfs_loop]. rewrite Hm.
      rewrite <- Nat.add_assoc. rewrite IH1. cbn [Nat.add dfs_loop].
      rewrite IH2. f_equal. cbn [edges_l flat_map tedges].
      rewrite <- !app_assoc. reflexivity.
  Qed.

  Lemma R_visited V cs V' ts k : R V cs V' ts k -> V' = rev (pre_l ts) ++ V.
  Proof.
    induction 1 as [V|V c cs V' ts k Hm _ IH|V c cs V1 ts1 k1 V2 ts k2 Hm _ IH1 _ IH2].
    - reflexivity.
    - assumption.
    - rewrite IH2, IH1.
      change (pre_l (DNode c ts1 :: ts)) with ((c :: pre_l ts1) ++ pre_l ts).
      rewrite rev_app_distr. cbn [rev]. rewrite <- !app_assoc. reflexivity.
  Qed.

  Lemma R_nodup V cs V' ts k : R V cs V' ts k -> NoDup V -> NoDup V'.
  Proof.
    induction 1 as [V|V c cs V' ts k Hm _ IH|V c cs V1 ts1 k1 V2 ts k2 Hm _ IH1 _ IH2]; intros Hn; auto.
    apply IH2, IH1. constructor; [now apply mem_false|assumption].
  Qed.

  Definition wsum (l : list nat) : nat := fold_right (fun n a => S (length (adj sc n)) + a) 0 l.

  Lemma wsum_app a b : wsum (a ++ b) = wsum a + wsum b.
  Proof. unfold wsum. induction a as [|x a IH]; cbn [app fold_right]; [reflexivity|]. rewrite IH. lia. Qed.

  Lemma R_cost V cs V' ts k : R V cs V' ts k -> k = length cs + wsum (pre_l ts).
  Proof.
    induction 1 as [V|V c cs V' ts k Hm _ IH|V c cs V1 ts1 k1 V2 ts k2 Hm _ IH1 _ IH2].
    - reflexivity.
    - cbn [length]. lia.
    - change (pre_l (DNode c ts1 :: ts)) with ((c :: pre_l ts1) ++ pre_l ts).
      rewrite wsum_app. change (wsum (c :: pre_l ts1)) with (S (length (adj sc c)) + wsum (pre_l ts1)).
      cbn [length]. lia.
  Qed.
End Dfs.

(** sum of out-degrees of distinct nodes is at most the number of edges *)
Definition dsum (sc : adjl) (l : list nat) : nat := fold_right (fun n a => length (adj sc n) + a) 0 l.

Lemma adj_cons k l sc n : adj ((k, l) :: sc) n = if Nat.eqb k n then l else adj sc n.
Proof. unfold adj. cbn [lookup]. destruct (Nat.eqb k n); reflexivity. Qed.

Lemma dsum_skip k l sc L : ~ In k L -> dsum ((k, l) :: sc) L = dsum sc L.
Proof.
  induction L as [|n L IH]; intros Hk; [reflexivity|].
  cbn [dsum fold_right]. fold (dsum ((k, l) :: sc) L) (dsum sc L).
  rewrite adj_cons. destruct (Nat.eqb k n) eqn:E.
  - apply Nat.eqb_eq in E. subst. elim Hk. now left.
  - rewrite IH; [reflexivity|]. intros Hi. apply Hk. now right.
Qed.

Lemma dsum_cons_le k l sc L : NoDup L -> dsum ((k, l) :: sc) L <= length l + dsum sc L.
Proof.
  induction L as [|n L IH]; intros Hn; [cbn; lia|].
  inversion Hn as [|? ? Hni HnL]; subst.
  cbn [dsum fold_right]. fold (dsum ((k, l) :: sc) L) (dsum sc L).
  rewrite adj_cons. destruct (Nat.eqb k n) eqn:E.
  - apply Nat.eqb_eq in E. subst. rewrite dsum_skip by assumption. lia.
  - specialize (IH HnL). lia.
Qed.

Lemma dsum_le sc L : NoDup L -> dsum sc L <= n_edges sc.
Proof.
  revert L. induction sc as [|[k l] sc IH]; intros L Hn.
  - induction L as [|n L IHL]; [reflexivity|]. inversion Hn; subst. cbn. now apply IHL.
  - cbn [n_edges fold_right snd]. fold (n_edges sc).
    pose proof (dsum_cons_le k l sc L Hn). specialize (IH L Hn). lia.
Qed.

Lemma wsum_dsum sc L : wsum sc L = length L + dsum sc L.
Proof.
  induction L as [|n L IH]; [reflexivity|].
  change (wsum sc (n :: L)) with (S (length (adj sc n)) + wsum sc L).
  change (dsum sc (n :: L)) with (length (adj sc n) + dsum sc L).
  cbn [length]. lia.
Qed.

(** ** the successor dictionary of the yielded edges unfolds back into the tree *)

Lemma adj_dict_append d s t n :
  adj (dict_append d s t) n = if Nat.eqb s n then adj d n ++ [t] else adj d n.
Proof.
  induction d as [|[k l] r IH].
  - cbn [dict_append]. rewrite adj_cons. destruct (Nat.eqb s n); reflexivity.
  - cbn [dict_append]. destruct (Nat.eqb k s) eqn:Eks.
    + apply Nat.eqb_eq in Eks. subst k. rewrite !adj_cons. destruct (Nat.eqb s n); reflexivity.
    + rewrite !adj_cons, IH. destruct (Nat.eqb k n) eqn:Ekn; [|reflexivity].
      apply Nat.eqb_eq in Ekn. subst k. now rewrite Nat.eqb_sym, Eks.
Qed.

Definition out_of (n : nat) (es : list (nat * nat)) : list nat :=
  map snd (filter (fun e => Nat.eqb (fst e) n) es).

Lemma adj_fold es d0 n :
  adj (fold_left (fun d st => dict_append d (fst st) (snd st)) es d0) n = adj d0 n ++ out_of n es.
Proof.
  revert d0. induction es as [|[s t] es IH]; intros d0.
  - cbn. now rewrite app_nil_r.
  - cbn [fold_left fst snd]. rewrite IH, adj_dict_append. unfold out_of. cbn [filter fst].
    destruct (Nat.eqb s n); cbn [map snd]; [rewrite <- app_assoc|]; reflexivity.
Qed.

Lemma adj_dict_of_edges es n : adj (dict_of_edges es) n = out_of n es.
Proof. unfold dict_of_edges. now rewrite adj_fold. Qed.

Lemma out_of_app n a b : out_of n (a ++ b) = out_of n a ++ out_of n b.
Proof. unfold out_of. now rewrite filter_app, map_app. Qed.

Lemma nodup_app {A} (a b : list A) :
  NoDup (a ++ b) <-> NoDup a /\ NoDup b /\ (forall x, In x a -> ~ In x b).
Proof.
  induction a as [|x a IH]; cbn [app].
  - split; [intros H; repeat split; [constructor|assumption|intros ? []]|tauto].
  - split.
    + intros H. inversion H as [|? ? Hx Hab]; subst. apply IH in Hab as [Ha [Hb Hd]].
      repeat split; [constructor; [intros Hi; apply Hx, in_or_app; auto|assumption]|assumption|].
      intros y [->|Hy]; [intros Hi; apply Hx, in_or_app; auto|now apply Hd].
    + intros [Ha [Hb Hd]]. inversion Ha as [|? ? Hx Ha']; subst. constructor.
      * intros Hi. apply in_app_or in Hi as [Hi|Hi]; [auto|]. apply (Hd x); [now left|assumption].
      * apply IH. repeat split; auto. intros y Hy. apply Hd. now right.
Qed.

(** children of node [n] in a tree (empty when absent) *)
Fixpoint kids (n : nat) (t : dtree) : list nat :=
  match t with
  | DNode m cs => if Nat.eqb m n then map root cs else flat_map (kids n) cs
  end.

Definition edges_of (t : dtree) : list (nat * nat) :=
  match t with DNode m cs => edges_l m cs end.

Lemma tedges_eq p t : tedges p t = (p, root t) :: edges_of t.
Proof. destruct t; reflexivity. Qed.

Lemma kids_absent n t : ~ In n (pre t) -> kids n t = [].
Proof.
  induction t as [m cs IH] using dtree_nested_ind. intros Hn.
  cbn [kids]. cbn [pre] in Hn. destruct (Nat.eqb m n) eqn:E.
  - apply Nat.eqb_eq in E. subst. elim Hn. now left.
  - assert (Hc : ~ In n (flat_map pre cs)) by (intros Hi; apply Hn; now right).
    clear Hn E. induction IH as [|c r Hc0 _ IHr]; [reflexivity|].
    cbn [flat_map] in *. rewrite Hc0, IHr; [reflexivity| |];
      intros Hi; apply Hc, in_or_app; auto.
Qed.

Lemma out_of_edges n t : NoDup (pre t) -> out_of n (edges_of t) = kids n t.
Proof.
  induction t as [m cs IH] using dtree_nested_ind. intros Hnd.
  cbn [edges_of kids]. cbn [pre] in Hnd. inversion Hnd as [|? ? Hm Hcs]; subst. clear Hnd.
  destruct (Nat.eqb m n) eqn:E.
  - apply Nat.eqb_eq in E. subst n.
    induction IH as [|c r Hc0 _ IHr]; [reflexivity|].
    cbn [flat_map] in Hm, Hcs. apply nodup_app in Hcs as [Hc1 [Hc2 _]].
    unfold edges_l in *. cbn [flat_map map]. rewrite out_of_app, tedges_eq.
    unfold out_of at 1. cbn [filter fst]. rewrite Nat.eqb_refl. cbn [map snd].
    fold (out_of m (edges_of c)). rewrite Hc0 by assumption.
    rewrite kids_absent by (intros Hi; apply Hm, in_or_app; auto). cbn [app].
    f_equal. apply IHr; [intros Hi; apply Hm, in_or_app; auto|assumption].
  - clear Hm. induction IH as [|c r Hc0 _ IHr]; [reflexivity|].
    cbn [flat_map] in Hcs. apply nodup_app in Hcs as [Hc1 [Hc2 _]].
    unfold edges_l in *. cbn [flat_map]. rewrite out_of_app, tedges_eq.
    unfold out_of at 1. cbn [filter fst]. rewrite E.
    fold (out_of n (edges_of c)). rewrite Hc0 by assumption. f_equal. now apply IHr.
Qed.

Fixpoint height (t : dtree) : nat :=
  match t with DNode _ cs => S (fold_right (fun c a => Nat.max (height c) a) 0 cs) end.

Definition agree (d : adjl) (t : dtree) : Prop := forall n, In n (pre t) -> adj d n = kids n t.

Lemma flat_kids_absent n cs : ~ In n (flat_map pre cs) -> flat_map (kids n) cs = [].
Proof.
  induction cs as [|y r IHr]; intros Hn; [reflexivity|]. cbn [flat_map] in *.
  rewrite kids_absent, IHr; [reflexivity| |]; intros Hi; apply Hn, in_or_app; auto.
Qed.

Lemma flat_kids_in n c cs :
  In c cs -> In n (pre c) -> NoDup (flat_map pre cs) -> flat_map (kids n) cs = kids n c.
Proof.
  induction cs as [|x r IH]; intros Hc Hn Hnd; [contradiction|].
  cbn [flat_map] in *. apply nodup_app in Hnd as [H1 [H2 Hd]].
  destruct Hc as [->|Hc].
  - rewrite flat_kids_absent by now apply Hd. now rewrite app_nil_r.
  - rewrite kids_absent, IH; auto.
    intros Hi. apply (Hd n Hi). apply in_flat_map. exists c. auto.
Qed.

Lemma agree_node d m cs :
  agree d (DNode m cs) -> NoDup (pre (DNode m cs)) ->
  adj d m = map root cs /\ forall c, In c cs -> agree d c.
Proof.
  intros Ha Hnd. cbn [pre] in Hnd. inversion Hnd as [|? ? Hm Hcs]; subst. split.
  - rewrite (Ha m) by (now left). cbn [kids]. now rewrite Nat.eqb_refl.
  - intros c Hc n Hn.
    assert (Hin : In n (flat_map pre cs)) by (apply in_flat_map; exists c; auto).
    rewrite (Ha n) by (now right). cbn [kids].
    destruct (Nat.eqb m n) eqn:E; [apply Nat.eqb_eq in E; subst; contradiction|].
    now apply flat_kids_in.
Qed.

Lemma height_child c cs : In c cs -> height c <= fold_right (fun c a => Nat.max (height c) a) 0 cs.
Proof.
  induction cs as [|x r IH]; [intros []|]. cbn [fold_right]. intros [->|Hc]; [lia|].
  specialize (IH Hc). lia.
Qed.

Lemma build_agree d t :
  forall fuel, agree d t -> NoDup (pre t) -> height t <= fuel -> build_tree d fuel (root t) = Some t.
Proof.
  induction t as [m cs IH] using dtree_nested_ind. intros fuel Ha Hnd Hh.
  destruct fuel as [|f]; [cbn [height] in Hh; lia|].
  destruct (agree_node d m cs Ha Hnd) as [Hadj Hcs].
  cbn [root]. rewrite build_tree_S, Hadj.
  assert (Hm : map_opt (build_tree d f) (map root cs) = Some cs).
  { cbn [pre] in Hnd. inversion Hnd as [|? ? _ Hnd']; subst. clear Hnd Ha Hadj.
    cbn [height] in Hh. apply le_S_n in Hh.
    induction IH as [|c r Hc _ IHr]; [reflexivity|].
    cbn [flat_map] in Hnd'. apply nodup_app in Hnd' as [H1 [H2 _]].
    cbn [fold_right] in Hh. cbn [map map_opt].
    rewrite Hc; [|apply Hcs; now left|assumption|lia].
    rewrite IHr; [reflexivity|lia| |assumption]. intros c' Hc'. apply Hcs. now right. }
  now rewrite Hm.
Qed.

Lemma height_le_pre t : height t <= length (pre t).
Proof.
  induction t as [m cs IH] using dtree_nested_ind. cbn [height pre length]. apply le_n_S.
  induction IH as [|c r Hc _ IHr]; [reflexivity|].
  cbn [fold_right flat_map]. rewrite app_length. lia.
Qed.

(** Main generic fact: if the recursive DFS from [h] yields the child trees [ts], then so does the
    networkx stack machine followed by the unfolding of its successor dictionary, provided the
    number of nodes is at least the number of nodes reached (fuel). *)
Theorem dfs_tree_R sc nn h V' ts k :
  R sc [h] (adj sc h) V' ts k -> length (pre (DNode h ts)) <= nn ->
  dfs_tree_of sc nn h = Some (DNode h ts).
Proof.
  intros HR Hlen.
  assert (Hnd : NoDup (pre (DNode h ts))).
  { pose proof (R_nodup _ _ _ _ _ _ HR) as Hn. rewrite (R_visited _ _ _ _ _ _ HR) in Hn.
    specialize (Hn (NoDup_cons h (@in_nil _ h) (NoDup_nil _))).
    apply NoDup_rev in Hn. rewrite rev_app_distr, rev_involutive in Hn. exact Hn. }
  pose proof (R_cost _ _ _ _ _ _ HR) as Hk.
  assert (Hfuel : S k <= nn + n_edges sc).
  { pose proof (wsum_dsum sc (pre (DNode h ts))) as Hw.
    change (wsum sc (pre (DNode h ts))) with (S (length (adj sc h)) + wsum sc (pre_l ts)) in Hw.
    pose proof (dsum_le sc _ Hnd). lia. }
  unfold dfs_tree_of.
  replace (nn + n_edges sc) with (k + S (nn + n_edges sc - S k)) by lia.
  rewrite (dfs_loop_R _ _ _ _ _ _ HR). cbn [dfs_loop app].
  replace (dfs_loop (nn + n_edges sc - S k) sc V' [] (edges_l h ts)) with (Some (edges_l h ts))
    by (destruct (nn + n_edges sc - S k); reflexivity).
  apply (build_agree _ (DNode h ts)).
  - intros n _. rewrite adj_dict_of_edges. now apply (out_of_edges n (DNode h ts)).
  - assumption.
  - pose proof (height_le_pre (DNode h ts)). lia.
Qed.

(* ------------------------------------------------------------------------------------------ *)
(** * (c) Soundness of the block-graph checker *)

Definition class_tokens (c : nclass) : list token :=
  match c with
  | CEv e brk => TEvent e :: brk_tokens brk
  | CLoop body brk => TRepeat :: print_seq body ++ TRepeatWhile :: brk_tokens brk
  | CStart XOR => [TSwitch; TCase]
  | CStart k => [opener k]
  | CEnd k => [closer k]
  | CKill => [TDetach]
  end.

Definition class_shape (c : nclass) : option kind :=
  match c with CStart k => Some k | _ => None end.

Definition print_segs (segs : list (kind * list blk)) : list token :=
  flat_map (fun ks => closer (fst ks) :: print_seq (snd ks)) segs.

(** branches with separators between them (the XOR [case] in front of the first branch belongs
    to the START operator's own text) *)
Definition seps (k : kind) (bs : list (list blk)) : list token :=
  match bs with [] => [] | b :: r => print_seq b ++ print_rest k r end.

Definition sep_if {A} (l : list A) (k : kind) : list token :=
  match l with [] => [] | _ :: _ => [separator k] end.

Lemma print_rest_app k a b : print_rest k (a ++ b) = print_rest k a ++ print_rest k b.
Proof. unfold print_rest. now rewrite flat_map_app. Qed.

Lemma seps_snoc k l a : seps k (l ++ [a]) = seps k l ++ sep_if l k ++ print_seq a.
Proof.
  destruct l as [|b r]; cbn [seps app sep_if].
  - unfold print_rest. cbn. now rewrite app_nil_r.
  - rewrite print_rest_app, print_rest_cons. unfold print_rest at 3. cbn [flat_map].
    rewrite app_nil_r, <- !app_assoc. reflexivity.
Qed.

Lemma print_fork_seps k b r :
  print_blk (Fork k (b :: r)) = class_tokens (CStart k) ++ seps k (b :: r) ++ [closer k].
Proof.
  rewrite print_blk_fork. destruct k.
  - rewrite print_branches_first by discriminate. reflexivity.
  - rewrite print_branches_first by discriminate. reflexivity.
  - rewrite print_branches_xor, print_rest_cons. reflexivity.
Qed.

Lemma concat_opt_app a b :
  concat_opt (a ++ b) =
  match concat_opt a, concat_opt b with Some x, Some y => Some (x ++ y) | _, _ => None end.
Proof.
  induction a as [|x a IH]; cbn [app concat_opt].
  - destruct (concat_opt b); reflexivity.
  - rewrite IH. destruct x; [|reflexivity]. destruct (concat_opt a); [|reflexivity].
    destruct (concat_opt b); [|reflexivity]. now rewrite app_assoc.
Qed.

Section WalkSound.
  Variable cls : list (nat * option nclass).
  Variable rend : list (nat * option (list token)).
  Variable shapes : list (nat * option kind).
  Hypothesis Htab : forall n c, class_of cls n = Some c ->
    render_onode rend (ONode n) = Some (class_tokens c) /\ shape_of shapes n = class_shape c.

  Definition rl (l : list onode) : option (list token) := concat_opt (map (render_onode rend) l).

  Lemma rl_app a b :
    rl (a ++ b) = match rl a, rl b with Some x, Some y => Some (x ++ y) | _, _ => None end.
  Proof. unfold rl. now rewrite map_app, concat_opt_app. Qed.

  Lemma print_tree_node n cs :
    print_tree rend shapes (DNode n cs) =
    match render_onode rend (ONode n),
          rl (interleave (shape_of shapes n) 0 (rev (map (order_tree shapes) cs))) with
    | Some a, Some b => Some (a ++ b)
    | _, _ => None
    end.
  Proof. unfold print_tree. rewrite order_tree_eq. reflexivity. Qed.

  Definition sound_at (t : dtree) : Prop :=
    forall s segs, walk cls t = Some (s, segs) ->
                   print_tree rend shapes t = Some (print_seq s ++ print_segs segs).

  Lemma next_sound n cs s1 segs :
    Forall sound_at cs -> shape_of shapes n = None ->
    match cs with [] => Some ([], []) | [c] => walk cls c | _ :: _ :: _ => None end = Some (s1, segs) ->
    rl (interleave (shape_of shapes n) 0 (rev (map (order_tree shapes) cs)))
    = Some (print_seq s1 ++ print_segs segs).
  Proof.
    intros Hcs Hsh Hn. rewrite Hsh. destruct cs as [|c [|c2 r]]; [| |discriminate].
    - injection Hn as <- <-. reflexivity.
    - inversion Hcs as [|? ? Hc _]; subst. specialize (Hc _ _ Hn).
      cbn [map rev app interleave path_nodes]. rewrite app_nil_r. exact Hc.
  Qed.

  Lemma others_sound k others ss :
    Forall sound_at others ->
    (fix go (l : list dtree) : option (list (list blk)) :=
       match l with
       | [] => Some []
       | o :: r => match walk cls o, go r with
                   | Some (s, []), Some acc => Some (s :: acc)
                   | _, _ => None
                   end
       end) others = Some ss ->
    rl (interleave (Some k) 0 (rev (map (order_tree shapes) others))) = Some (seps k (rev ss))
    /\ length ss = length others.
  Proof.
    intros Hall. revert ss. induction Hall as [|o r Ho _ IH]; intros ss Hgo.
    - injection Hgo as <-. split; reflexivity.
    - destruct (walk cls o) as [[s [|? ?]]|] eqn:Ew; try discriminate.
      match type of Hgo with match ?X with _ => _ end = _ => destruct X as [acc|] eqn:Eg end;
        [|discriminate].
      injection Hgo as <-. destruct (IH acc eq_refl) as [IH1 IH2]. split; [|cbn; now rewrite IH2].
      cbn [map rev]. rewrite interleave_snoc, !rl_app, IH1.
      rewrite rev_length, map_length, Nat.add_0_l.
      specialize (Ho _ _ Ew). unfold print_tree in Ho. unfold rl at 2. rewrite Ho.
      cbn [print_segs flat_map]. rewrite app_nil_r, seps_snoc.
      assert (Hp : rl (path_nodes (Some k) (length r)) = Some (sep_if (rev acc) k)).
      { rewrite <- IH2. destruct acc as [|a acc]; [reflexivity|].
        cbn [length path_nodes rev]. destruct (rev acc); destruct k; reflexivity. }
      rewrite Hp. reflexivity.
  Qed.

  Theorem walk_sound t : sound_at t.
  Proof.
    induction t as [n cs IH] using dtree_nested_ind. intros s segs Hw.
    cbn [walk] in Hw. rewrite print_tree_node.
    destruct (class_of cls n) as [c|] eqn:Ec; [|discriminate].
    destruct (Htab n c Ec) as [Hr Hs]. rewrite Hr.
    destruct c as [e brk|body brk|k|k|].
    - (* event *)
      unfold after_item in Hw.
      match type of Hw with match ?X with _ => _ end = _ => destruct X as [[s1 segs1]|] eqn:En end;
        [|discriminate].
      rewrite (next_sound n cs s1 segs1 IH Hs En).
      destruct brk.
      + destruct s1; [|discriminate]. injection Hw as <- <-. reflexivity.
      + injection Hw as <- <-. reflexivity.
    - (* loop *)
      unfold after_item in Hw.
      match type of Hw with match ?X with _ => _ end = _ => destruct X as [[s1 segs1]|] eqn:En end;
        [|discriminate].
      rewrite (next_sound n cs s1 segs1 IH Hs En).
      destruct brk.
      + destruct s1; [|discriminate]. injection Hw as <- <-.
        rewrite !print_seq_cons, print_blk_loop.
        cbn [class_tokens brk_tokens print_seq print_blk app].
        repeat first [rewrite <- app_assoc | progress cbn [app]]. reflexivity.
      + injection Hw as <- <-.
        rewrite !print_seq_cons, print_blk_loop.
        cbn [class_tokens brk_tokens print_seq print_blk app].
        repeat first [rewrite <- app_assoc | progress cbn [app]]. reflexivity.
    - (* START *)
      destruct cs as [|c others]; [discriminate|].
      destruct (walk cls c) as [[sn [|[k' s'] segs']]|] eqn:Ewc; try discriminate.
      destruct (kind_eqb k k') eqn:Ek; [|discriminate].
      assert (k' = k) by (destruct k, k'; try discriminate; reflexivity). subst k'.
      match type of Hw with match ?X with _ => _ end = _ => destruct X as [ss|] eqn:Eg end;
        [|discriminate].
      injection Hw as <- <-.
      inversion IH as [|? ? Hc Hothers]; subst.
      destruct (others_sound k others ss Hothers Eg) as [Ho Hlen].
      rewrite Hs. cbn [class_shape map rev]. rewrite interleave_snoc, !rl_app, Ho.
      rewrite rev_length, map_length, Nat.add_0_l.
      specialize (Hc _ _ Ewc). unfold print_tree in Hc. unfold rl at 2. rewrite Hc.
      assert (Hp : rl (path_nodes (Some k) (length others)) = Some (sep_if (rev ss) k)).
      { rewrite <- Hlen. destruct ss as [|a ss]; [reflexivity|].
        cbn [length path_nodes rev]. destruct (rev ss); destruct k; reflexivity. }
      rewrite Hp. f_equal.
      destruct (rev ss ++ [sn]) as [|b r] eqn:Eb; [destruct (rev ss); discriminate|].
      cbn [print_seq]. rewrite print_fork_seps, <- Eb, seps_snoc.
      cbn [print_segs flat_map fst snd]. rewrite <- !app_assoc. cbn [app]. reflexivity.
    - (* END *)
      match type of Hw with match ?X with _ => _ end = _ => destruct X as [[s1 segs1]|] eqn:En end;
        [|discriminate].
      rewrite (next_sound n cs s1 segs1 IH Hs En). injection Hw as <- <-. reflexivity.
    - (* kill *)
      unfold after_term in Hw.
      match type of Hw with match ?X with _ => _ end = _ => destruct X as [[s1 segs1]|] eqn:En end;
        [|discriminate].
      rewrite (next_sound n cs s1 segs1 IH Hs En).
      destruct s1; [|discriminate]. injection Hw as <- <-. reflexivity.
  Qed.
End WalkSound.

Section PnodeInd.
  Variable P : pnode -> Prop.
  Hypothesis HEv : forall e brk, P (PEvent e brk).
  Hypothesis HLoop : forall ns sc h brk, Forall (fun iv => P (snd iv)) ns -> P (PLoop (PGraph ns sc h) brk).
  Hypothesis HSub : forall ns sc h brk, Forall (fun iv => P (snd iv)) ns -> P (PSub (PGraph ns sc h) brk).
  Hypothesis HOp : forall o k, P (POp o k).
  Hypothesis HKill : P PKill.

  Fixpoint pnode_nested_ind (n : pnode) : P n :=
    let nodes_ind := fix go (l : list (nat * pnode)) : Forall (fun iv => P (snd iv)) l :=
        match l with
        | [] => Forall_nil _
        | p :: r => Forall_cons p (pnode_nested_ind (snd p)) (go r)
        end in
    match n with
    | PEvent e brk => HEv e brk
    | PLoop g brk =>
        match g as g0 return P (PLoop g0 brk) with
        | PGraph ns sc h => HLoop ns sc h brk (nodes_ind ns)
        end
    | PSub g brk =>
        match g as g0 return P (PSub g0 brk) with
        | PGraph ns sc h => HSub ns sc h brk (nodes_ind ns)
        end
    | POp o k => HOp o k
    | PKill => HKill
    end.
End PnodeInd.

Lemma lookup_map {A B} (f : A -> B) (l : list (nat * A)) n :
  lookup (map (fun iv => (fst iv, f (snd iv))) l) n = option_map f (lookup l n).
Proof.
  induction l as [|[k v] r IH]; [reflexivity|]. cbn [map lookup fst snd].
  destruct (Nat.eqb k n); [reflexivity|exact IH].
Qed.

Lemma lookup_In {A} (l : list (nat * A)) n v : lookup l n = Some v -> In (n, v) l.
Proof.
  induction l as [|[k w] r IH]; [discriminate|]. cbn [lookup].
  destruct (Nat.eqb k n) eqn:E.
  - apply Nat.eqb_eq in E. intros [= ->]. subst. now left.
  - intros H. right. now apply IH.
Qed.

Lemma classes_of_fix ns :
  (fix go (l : list (nat * pnode)) : list (nat * option nclass) :=
     match l with
     | [] => []
     | p :: r => match p with (i, x) => (i, classify x) :: go r end
     end) ns = classes_of ns.
Proof. induction ns as [|[i x] r IH]; [reflexivity|]. cbn [classes_of map fst snd]. now rewrite IH. Qed.

Lemma classify_loop g brk :
  classify (PLoop g brk) =
  match is_block_graph g with Some d => Some (CLoop d brk) | None => None end.
Proof. destruct g as [ns sc h]. cbn [classify]. rewrite classes_of_fix. reflexivity. Qed.

Definition node_sound (pn : pnode) : Prop :=
  forall c, classify pn = Some c ->
            lin_node pn = Some (class_tokens c) /\ start_gate pn = class_shape c.

Lemma graph_sound_aux ns sc h d :
  Forall (fun iv => node_sound (snd iv)) ns ->
  is_block_graph (PGraph ns sc h) = Some d -> lin_blocks (PGraph ns sc h) = Some (print_seq d).
Proof.
  intros Hall Hb. unfold is_block_graph, block_with in Hb. unfold lin_blocks.
  cbn [g_nodes g_succ g_head] in *. rewrite blocks_with_tree.
  destruct (length ns) as [|m] eqn:El; [now injection Hb as <-|].
  destruct (dfs_tree_of sc (S m) h) as [t|]; [|discriminate].
  destruct (walk (classes_of ns) t) as [[d' [|? ?]]|] eqn:Ew; try discriminate.
  injection Hb as ->.
  rewrite (walk_sound (classes_of ns) (render_nodes ns) (shapes_of ns)) with (s := d) (segs := []);
    [now rewrite app_nil_r| |exact Ew].
  intros n c Hc. unfold class_of, classes_of in Hc. rewrite lookup_map in Hc.
  destruct (lookup ns n) as [pn|] eqn:Eln; [|discriminate]. cbn [option_map] in Hc.
  apply lookup_In in Eln as Hin. rewrite Forall_forall in Hall. specialize (Hall _ Hin c Hc).
  cbn [snd] in Hall. destruct Hall as [H1 H2].
  unfold render_onode, render_nodes, shape_of, shapes_of. rewrite !lookup_map, Eln. cbn [option_map].
  now rewrite H1, H2.
Qed.

Lemma node_sound_all pn : node_sound pn.
Proof.
  induction pn as [e brk|ns sc h brk IH|ns sc h brk IH|o k|] using pnode_nested_ind; intros c Hc.
  - injection Hc as <-. split; reflexivity.
  - rewrite classify_loop in Hc.
    destruct (is_block_graph (PGraph ns sc h)) as [d|] eqn:Eb; [|discriminate].
    injection Hc as <-. rewrite lin_node_loop, (graph_sound_aux _ _ _ _ IH Eb). split; reflexivity.
  - discriminate.
  - destruct o, k as [k|]; try discriminate; injection Hc as <-; destruct k; split; reflexivity.
  - injection Hc as <-. split; reflexivity.
Qed.

(** A graph accepted by the checker prints as the diagram the checker returns. *)
Theorem is_block_graph_blocks g d : is_block_graph g = Some d -> lin_blocks g = Some (print_seq d).
Proof.
  destruct g as [ns sc h]. apply graph_sound_aux.
  apply Forall_forall. intros iv _. apply node_sound_all.
Qed.

Theorem is_block_graph_sound name g d :
  is_block_graph g = Some d -> linearise name g = Some (print name d).
Proof. intros H. unfold linearise. now rewrite (is_block_graph_blocks g d H). Qed.

(** ... and, when the diagram is well formed, the emitted text parses back to it *)
Corollary is_block_graph_parse name g d ts :
  is_block_graph g = Some d -> wf d = true -> linearise name g = Some ts -> parse ts = Some (name, d).
Proof.
  intros Hb Hwf Hl. rewrite (is_block_graph_sound name g d Hb) in Hl. injection Hl as <-.
  now apply parse_print.
Qed.

(** the known defect shape (pool definitions 408, 425, 501, ...: a loop body ending in a fork;
    removing the dummy end event leaves the kill nodes, and with them the END operator,
    unreachable from the head): [split ... split again ... repeat while] without [end split] *)
Local Arguments linearise name%positive g.

Definition defect_graph : pgraph :=
  PGraph [(0, PEvent 1 false);
          (1, PLoop (PGraph [(0, PEvent 2 false); (1, POp OStart (KGate OR)); (2, POp OEnd (KGate OR));
                             (3, PEvent 3 false); (4, PEvent 4 false); (5, PKill); (6, PKill)]
                            [(0, [1]); (1, [3; 4]); (2, []); (3, []); (4, []); (5, [2]); (6, [2])] 0)
                     false)]
         [(0, [1]); (1, [])] 0.

Example defect_linearise :
  linearise 9 defect_graph =
  Some [TStartUml; TPartition 9; TGroup 9; TEvent 1; TRepeat; TEvent 2; TSplit; TEvent 4; TSplitAgain;
        TEvent 3; TRepeatWhile; TEndGroup; TClose; TEndUml].
Proof. reflexivity. Qed.

Example defect_unparsable :
  match linearise 9 defect_graph with Some ts => parse ts | None => None end = None
  /\ is_block_graph defect_graph = None /\ heads_ok defect_graph = true.
Proof. repeat split; reflexivity. Qed.

(* ------------------------------------------------------------------------------------------ *)
(** * (b) The canonical graph of a diagram prints as the diagram *)

(** the branch fragments of a fork (named version of the local fixpoint of [seg_blk]) *)
Fixpoint segs (e : nat) (etree : list dtree) (l : list (list blk)) (b0 : nat) {struct l} : frag :=
  match l with
  | [] => Frag [] [] b0 [] []
  | s :: r =>
      let fs := seg s b0 [e] (match r with [] => etree | _ :: _ => [] end) in
      let fr := segs e etree r (f_next fs) in
      frag_app fs fr (f_next fr) (f_entry fr ++ f_entry fs) (f_tree fr ++ f_tree fs)
  end.

Lemma seg_blk_fork k bs brk base nxt tail :
  seg_blk (Fork k bs) brk base nxt tail =
  let fbs := segs base [DNode base tail] bs (S (S base)) in
  Frag ((base, POp OEnd (KGate k)) :: (S base, POp OStart (KGate k)) :: f_nodes fbs)
       ((base, nxt) :: (S base, f_entry fbs) :: f_succ fbs)
       (f_next fbs) [S base] [DNode (S base) (f_tree fbs)].
Proof.
  cbn [seg_blk]. generalize (S (S base)) as b0.
  assert (H : forall b0,
    (fix gos (l : list (list blk)) (b0 : nat) {struct l} : frag :=
       match l with
       | [] => Frag [] [] b0 [] []
       | s :: r =>
           let fs := seg s b0 [base] (match r with [] => [DNode base tail] | _ :: _ => [] end) in
           let fr := gos r (f_next fs) in
           frag_app fs fr (f_next fr) (f_entry fr ++ f_entry fs) (f_tree fr ++ f_tree fs)
       end) bs b0 = segs base [DNode base tail] bs b0).
  { induction bs as [|s r IH]; intros b0; [reflexivity|]. cbn [segs]. rewrite <- IH. reflexivity. }
  intros b0. rewrite <- H. reflexivity.
Qed.

Lemma seg_blk_loop body brk base nxt tail :
  seg_blk (Loop body) brk base nxt tail =
  Frag [(base, PLoop (graph_of body) brk)] [(base, nxt)] (S base) [base] [DNode base tail].
Proof. reflexivity. Qed.

Lemma seg_cons b r base xl tail :
  seg (b :: r) base xl tail =
  let fr := seg r base xl tail in
  let fb := seg_blk b (followed_by_break r) (f_next fr) (f_entry fr) (f_tree fr) in
  frag_app fb fr (f_next fb) (f_entry fb) (f_tree fb).
Proof. reflexivity. Qed.

(** ** id ranges of fragments *)

Definition ids (F : frag) : list nat := map fst (f_nodes F).

Definition Inv (F : frag) (base : nat) (tail : list dtree) : Prop :=
  base <= f_next F
  /\ (forall x, In x (pre_l (f_tree F)) -> In x (pre_l tail) \/ base <= x < f_next F)
  /\ (forall x, In x (pre_l tail) -> In x (pre_l (f_tree F)))
  /\ (forall x, In x (ids F) -> base <= x < f_next F)
  /\ NoDup (ids F)
  /\ length (ids F) = f_next F - base
  /\ map fst (f_succ F) = ids F.

Lemma pre_l_single n ts : pre_l [DNode n ts] = n :: pre_l ts.
Proof. unfold pre_l. cbn [flat_map pre]. now rewrite app_nil_r. Qed.

Lemma pre_l_app a b : pre_l (a ++ b) = pre_l a ++ pre_l b.
Proof. unfold pre_l. now rewrite flat_map_app. Qed.

Ltac split7 := refine (conj _ (conj _ (conj _ (conj _ (conj _ (conj _ _)))))).

Lemma Inv_single base pn nxt tail :
  Inv (Frag [(base, pn)] [(base, nxt)] (S base) [base] [DNode base tail]) base tail.
Proof.
  unfold Inv, ids. cbn [f_next f_tree f_nodes f_succ map fst length]. rewrite pre_l_single.
  split7.
  - lia.
  - intros x [<-|Hx]; [right; lia|now left].
  - intros x Hx. now right.
  - intros x [<-|[]]. lia.
  - constructor; [intros []|constructor].
  - lia.
  - reflexivity.
Qed.

Lemma Inv_empty base xl tail : Inv (Frag [] [] base xl tail) base tail.
Proof.
  unfold Inv, ids. cbn [f_next f_tree f_nodes f_succ map length].
  split7; auto; try lia; try (intros x []). constructor.
Qed.

Lemma Inv_app fb fr base tail :
  Inv fr base tail -> Inv fb (f_next fr) (f_tree fr) ->
  Inv (frag_app fb fr (f_next fb) (f_entry fb) (f_tree fb)) base tail.
Proof.
  intros (r1 & r2 & r3 & r4 & r5 & r6 & r7) (b1 & b2 & b3 & b4 & b5 & b6 & b7).
  unfold Inv, ids, frag_app in *. cbn [f_next f_tree f_nodes f_succ].
  rewrite !map_app, app_length.
  split7.
  - lia.
  - intros x Hx. destruct (b2 x Hx) as [Hx'|Hx']; [destruct (r2 x Hx'); [now left|right; lia]|right; lia].
  - intros x Hx. auto.
  - intros x H. apply in_app_or in H as [H|H]; [apply b4 in H|apply r4 in H]; lia.
  - apply nodup_app. repeat split; auto. intros x Hb Hr. apply b4 in Hb. apply r4 in Hr. lia.
  - lia.
  - now rewrite b7, r7.
Qed.

Definition seg_inv (s : list blk) : Prop :=
  forall base xl tail, Inv (seg s base xl tail) base tail.

Definition InvS (F : frag) (b0 : nat) (etree : list dtree) (ne : Prop) : Prop :=
  b0 <= f_next F
  /\ (forall x, In x (pre_l (f_tree F)) -> In x (pre_l etree) \/ b0 <= x < f_next F)
  /\ (ne -> forall x, In x (pre_l etree) -> In x (pre_l (f_tree F)))
  /\ (forall x, In x (ids F) -> b0 <= x < f_next F)
  /\ NoDup (ids F)
  /\ length (ids F) = f_next F - b0
  /\ map fst (f_succ F) = ids F.

Lemma segs_inv e etree bs :
  Forall seg_inv bs -> forall b0, InvS (segs e etree bs b0) b0 etree (bs <> []).
Proof.
  induction 1 as [|s r Hs _ IH]; intros b0.
  - unfold InvS, ids. cbn [segs f_next f_tree f_nodes f_succ map length].
    split7.
    + lia.
    + intros x [].
    + intros Hne. now elim Hne.
    + intros x [].
    + constructor.
    + lia.
    + reflexivity.
  - cbn [segs].
    set (t0 := match r with [] => etree | _ :: _ => [] end).
    pose proof (Hs b0 [e] t0) as (s1 & s2 & s3 & s4 & s5 & s6 & s7).
    set (fs := seg s b0 [e] t0) in *.
    destruct (IH (f_next fs)) as (r1 & r2 & r3 & r4 & r5 & r6 & r7).
    set (fr := segs e etree r (f_next fs)) in *.
    unfold InvS, ids, frag_app in *. cbn [f_next f_tree f_nodes f_succ].
    rewrite !map_app, app_length, pre_l_app.
    split7.
    + lia.
    + intros x Hx. apply in_app_or in Hx as [Hx|Hx].
      * destruct (r2 x Hx); [now left|right; lia].
      * destruct (s2 x Hx) as [Hx'|Hx']; [|right; lia].
        left. subst t0. destruct r; [assumption|destruct Hx'].
    + intros _ x Hx. apply in_or_app. destruct r as [|s' r'].
      * right. apply s3. exact Hx.
      * left. apply r3; [discriminate|exact Hx].
    + intros x H. apply in_app_or in H as [H|H]; [apply s4 in H|apply r4 in H]; lia.
    + apply nodup_app. repeat split; auto. intros x Hb Hr. apply s4 in Hb. apply r4 in Hr. lia.
    + lia.
    + now rewrite s7, r7.
Qed.

Lemma seg_inv_of_blocks (Pb : blk -> Prop) s :
  (forall b, Pb b -> wf_blk b = true -> forall brk base nxt tail, Inv (seg_blk b brk base nxt tail) base tail) ->
  Forall Pb s -> wf_seq s = true -> seg_inv s.
Proof.
  intros HP Hall. induction Hall as [|b r Hb _ IH]; intros Hwf base xl tail.
  - apply Inv_empty.
  - apply wf_seq_inv in Hwf as (Hwb & Hwr & _). rewrite seg_cons. cbn zeta.
    apply Inv_app; [now apply IH|]. now apply HP.
Qed.

Definition blk_inv (b : blk) : Prop :=
  wf_blk b = true -> forall brk base nxt tail, Inv (seg_blk b brk base nxt tail) base tail.

Lemma forallb_Forall {A} (f : A -> bool) l : forallb f l = true -> Forall (fun x => f x = true) l.
Proof. intros H. apply Forall_forall. now apply forallb_forall. Qed.

Lemma blk_inv_all b : blk_inv b.
Proof.
  induction b as [e|k bs IH|body IH| |] using blk_nested_ind; intros Hwf brk base nxt tail.
  - apply Inv_single.
  - rewrite wf_blk_fork in Hwf. apply andb_true_iff in Hwf as [Hne Hbs].
    assert (Hsi : Forall seg_inv bs).
    { apply forallb_Forall in Hbs. clear Hne.
      induction IH as [|s r Hs _ IHr]; [constructor|]. inversion Hbs as [|? ? Hw Hbs']; subst.
      constructor; [|now apply IHr]. unfold wf_branch in Hw. apply andb_true_iff in Hw as [_ Hw].
      apply (seg_inv_of_blocks blk_inv); auto. }
    rewrite seg_blk_fork. cbn zeta.
    destruct (segs_inv base [DNode base tail] bs Hsi (S (S base))) as (r1 & r2 & r3 & r4 & r5 & r6 & r7).
    set (fbs := segs base [DNode base tail] bs (S (S base))) in *.
    assert (Hbs' : bs <> []) by (destruct bs; [discriminate|discriminate]).
    unfold Inv, ids in *. cbn [f_next f_tree f_nodes f_succ map fst length].
    rewrite pre_l_single in *.
    split7.
    + lia.
    + intros x [<-|Hx]; [right; lia|]. destruct (r2 x Hx) as [[<-|Hx']|Hx']; [right; lia|now left|right; lia].
    + intros x Hx. right. apply r3; [assumption|now right].
    + intros x [<-|[<-|H]]; [lia|lia|apply r4 in H; lia].
    + constructor; [|constructor; [|assumption]].
      * intros [H|H]; [lia|apply r4 in H; lia].
      * intros H. apply r4 in H. lia.
    + lia.
    + now rewrite r7.
  - rewrite seg_blk_loop. apply Inv_single.
  - apply Inv_empty.
  - apply Inv_single.
Qed.

Lemma seg_inv_wf s : wf_seq s = true -> seg_inv s.
Proof.
  intros Hwf. apply (seg_inv_of_blocks blk_inv); auto.
  apply Forall_forall. intros b _. apply blk_inv_all.
Qed.

(** ** the recursive DFS of a fragment *)

Lemma R_app sc V cs1 V1 ts1 k1 cs2 V2 ts2 k2 :
  R sc V cs1 V1 ts1 k1 -> R sc V1 cs2 V2 ts2 k2 -> R sc V (cs1 ++ cs2) V2 (ts1 ++ ts2) (k1 + k2).
Proof.
  induction 1 as [V|V c cs V' ts k Hm _ IH|V c cs Va tsa ka Vb ts kb Hm Ha _ _ IH2]; intros H2.
  - exact H2.
  - cbn [app Nat.add]. apply RSkip; auto.
  - cbn [app]. replace (S (ka + S kb) + k2) with (S (ka + S (kb + k2))) by lia.
    eapply RVisit; eauto.
Qed.

(** the global adjacency agrees with the fragment's own entries *)
Definition A (sc : adjl) (F : frag) : Prop := forall k l, In (k, l) (f_succ F) -> adj sc k = l.

(** what is known about the exit of a fragment: exploring [xl] from any visited set that extends
    [V0] and avoids the zone [Z] yields the trees [tail] *)
Definition exit_ok (sc : adjl) (V0 : list nat) (Z : nat -> Prop) (xl : list nat) (tail : list dtree) : Prop :=
  forall V1, incl V0 V1 -> (forall x, Z x -> ~ In x V1) -> exists V' k, R sc V1 xl V' tail k.

Definition reach (sc : adjl) (F : frag) (base : nat) (xl : list nat) (tail : list dtree) : Prop :=
  forall V0 (Z : nat -> Prop),
    exit_ok sc V0 Z xl tail -> (forall x, Z x -> x < base) -> (forall x, In x (pre_l tail) -> x < base) ->
    forall V, incl V0 V -> (forall x, Z x \/ base <= x < f_next F -> ~ In x V) ->
              exists V' k, R sc V (f_entry F) V' (f_tree F) k.

Lemma reach_single sc base pn nxt tail :
  A sc (Frag [(base, pn)] [(base, nxt)] (S base) [base] [DNode base tail]) ->
  reach sc (Frag [(base, pn)] [(base, nxt)] (S base) [base] [DNode base tail]) base nxt tail.
Proof.
  intros HA V0 Z Hx HZ HT V HV0 HV. cbn [f_next f_entry f_tree] in *.
  assert (Hadj : adj sc base = nxt) by (apply HA; now left).
  destruct (Hx (base :: V)) as (V' & k & HR).
  - intros x Hi. right. now apply HV0.
  - intros x Hz [<-|Hi]; [apply HZ in Hz; lia|]. apply (HV x); auto.
  - exists V', (S (k + 1)). eapply RVisit.
    + apply mem_false. apply HV. right. lia.
    + rewrite Hadj. exact HR.
    + constructor.
Qed.

Lemma reach_empty sc base xl tail : reach sc (Frag [] [] base xl tail) base xl tail.
Proof.
  intros V0 Z Hx HZ HT V HV0 HV. cbn [f_next f_entry f_tree] in *.
  apply Hx; [assumption|]. intros x Hz. apply HV. now left.
Qed.

Definition seg_reach (s : list blk) : Prop :=
  forall sc base xl tail, A sc (seg s base xl tail) -> reach sc (seg s base xl tail) base xl tail.

Definition blk_reach (b : blk) : Prop :=
  wf_blk b = true ->
  forall sc brk base nxt tail, A sc (seg_blk b brk base nxt tail) ->
                               reach sc (seg_blk b brk base nxt tail) base nxt tail.

Lemma seg_reach_of_blocks s : Forall blk_reach s -> wf_seq s = true -> seg_reach s.
Proof.
  intros Hall. induction Hall as [|b r Hb _ IH]; intros Hwf sc base xl tail HA.
  - apply reach_empty.
  - apply wf_seq_inv in Hwf as (Hwb & Hwr & _). rewrite seg_cons in *. cbn zeta in *.
    pose proof (seg_inv_wf r Hwr base xl tail) as (r1 & r2 & r3 & r4 & r5 & r6 & r7).
    set (fr := seg r base xl tail) in *.
    pose proof (blk_inv_all b Hwb (followed_by_break r) (f_next fr) (f_entry fr) (f_tree fr))
      as (b1 & _).
    set (fb := seg_blk b (followed_by_break r) (f_next fr) (f_entry fr) (f_tree fr)) in *.
    assert (HAb : A sc fb) by (intros k l Hi; apply HA; cbn [frag_app f_succ]; apply in_or_app; auto).
    assert (HAr : A sc fr) by (intros k l Hi; apply HA; cbn [frag_app f_succ]; apply in_or_app; auto).
    specialize (IH Hwr sc base xl tail HAr). specialize (Hb Hwb sc _ _ _ _ HAb).
    fold fr in IH. fold fb in Hb.
    intros V0 Z Hx HZ HT V HV0 HV. cbn [frag_app f_next f_entry f_tree] in *.
    apply (Hb V0 (fun x => Z x \/ base <= x < f_next fr)).
    + intros V1 HV1 HZ1. apply (IH V0 Z); auto.
    + intros x [Hz|Hz]; [apply HZ in Hz|]; lia.
    + intros x Hi. destruct (r2 x Hi) as [Ht|Ht]; [apply HT in Ht|]; lia.
    + assumption.
    + intros x [[Hz|Hz]|Hz]; apply HV; auto; right; lia.
Qed.

Lemma R_incl sc V cs V' ts k : R sc V cs V' ts k -> incl V V'.
Proof. intros H. rewrite (R_visited _ _ _ _ _ _ H). intros x Hx. apply in_or_app. now right. Qed.

Lemma segs_reach sc e tailE bs :
  Forall seg_reach bs -> Forall seg_inv bs -> bs <> [] ->
  forall b0, A sc (segs e [DNode e tailE] bs b0) ->
  forall V0 (ZE : nat -> Prop),
    exit_ok sc V0 ZE [e] [DNode e tailE] -> e < b0 -> (forall x, ZE x -> x < b0) ->
    (forall x, In x (pre_l [DNode e tailE]) -> x < b0) ->
    forall V, incl V0 V ->
              (forall x, ZE x \/ b0 <= x < f_next (segs e [DNode e tailE] bs b0) -> ~ In x V) ->
              exists V' k, R sc V (f_entry (segs e [DNode e tailE] bs b0)) V'
                             (f_tree (segs e [DNode e tailE] bs b0)) k /\ In e V'.
Proof.
  intros Hre Hinv. revert Hre. induction Hinv as [|s r Hs Hinv IH]; intros Hre Hne; [now elim Hne|].
  inversion Hre as [|? ? Hrs Hrr]; subst. clear Hre Hne.
  intros b0 HA V0 ZE Hx He HZ HT V HV0 HV. cbn [segs] in *.
  set (etree := [DNode e tailE]) in *.
  set (t0 := match r with [] => etree | _ :: _ => [] end) in *.
  pose proof (Hs b0 [e] t0) as (s1 & s2 & s3 & s4 & s5 & s6 & s7).
  set (fs := seg s b0 [e] t0) in *.
  pose proof (segs_inv e etree r Hinv (f_next fs)) as (q1 & q2 & q3 & q4 & q5 & q6 & q7).
  set (fr := segs e etree r (f_next fs)) in *.
  cbn [frag_app f_next f_entry f_tree f_succ] in *.
  assert (HAs : A sc fs) by (intros k l Hi; apply HA; apply in_or_app; auto).
  assert (HAr : A sc fr) by (intros k l Hi; apply HA; apply in_or_app; auto).
  destruct r as [|s' r'].
  - (* the last branch: explored first, reaches END *)
    subst t0. cbn [segs f_entry f_tree f_next app] in *.
    destruct (Hrs sc b0 [e] etree HAs V0 ZE Hx HZ HT V HV0) as (V' & k & HR).
    + intros x Hz. apply HV. destruct Hz as [Hz|Hz]; [now left|right].
      unfold fr, fs. cbn [f_next]. exact Hz.
    + exists V', k. split; [exact HR|].
      rewrite (R_visited _ _ _ _ _ _ HR). apply in_or_app. left. rewrite <- in_rev. apply s3.
      subst etree. rewrite pre_l_single. now left.
  - (* an earlier branch: explored after the later ones, END already visited *)
    subst t0.
    destruct (IH Hrr ltac:(discriminate) (f_next fs) HAr V0 ZE Hx ltac:(lia)) with (V := V)
      as (V1 & k1 & HR1 & He1).
    + intros x Hz. apply HZ in Hz. lia.
    + intros x Hi. apply HT in Hi. lia.
    + assumption.
    + intros x Hz. apply HV. destruct Hz as [Hz|Hz]; [now left|right].
      change (f_next fs <= x < f_next fr) in Hz. lia.
    + fold fr in HR1.
      destruct (Hrs sc b0 [e] [] HAs V1 (fun _ => False)) with (V := V1) as (V2 & k2 & HR2).
      * intros V2 HV2 _. exists V2, 1. apply RSkip; [|constructor]. apply mem_In. now apply HV2.
      * intros x [].
      * intros x [].
      * apply incl_refl.
      * intros x [[]|Hxr] Hi. change (b0 <= x < f_next fs) in Hxr.
        rewrite (R_visited _ _ _ _ _ _ HR1) in Hi.
        apply in_app_or in Hi as [Hi|Hi].
        -- rewrite <- in_rev in Hi. destruct (q2 x Hi) as [Ht|Ht]; [apply HT in Ht|]; lia.
        -- revert Hi. apply HV. right. lia.
      * exists V2, (k1 + k2). split; [eapply R_app; eauto|].
        apply (R_incl _ _ _ _ _ _ HR2). exact He1.
Qed.

Lemma blk_reach_all b : blk_reach b.
Proof.
  induction b as [e|k bs IH|body IH| |] using blk_nested_ind; intros Hwf sc brk base nxt tail HA.
  - now apply reach_single.
  - rewrite wf_blk_fork in Hwf. apply andb_true_iff in Hwf as [Hne Hbs].
    assert (Hbs' : bs <> []) by (destruct bs; discriminate).
    apply forallb_Forall in Hbs.
    assert (Hsi : Forall seg_inv bs).
    { clear - Hbs. induction Hbs as [|s r Hw _ IHr]; constructor; auto.
      unfold wf_branch in Hw. apply andb_true_iff in Hw as [_ Hw]. now apply seg_inv_wf. }
    assert (Hsr : Forall seg_reach bs).
    { clear - Hbs IH. induction IH as [|s r Hs _ IHr]; [constructor|].
      inversion Hbs as [|? ? Hw Hbs']; subst. constructor; [|now apply IHr].
      unfold wf_branch in Hw. apply andb_true_iff in Hw as [_ Hw]. now apply seg_reach_of_blocks. }
    rewrite seg_blk_fork in *. cbn zeta in *.
    pose proof (segs_inv base [DNode base tail] bs Hsi (S (S base))) as (q1 & q2 & q3 & q4 & q5 & q6 & q7).
    set (fbs := segs base [DNode base tail] bs (S (S base))) in *.
    assert (Hadj_e : adj sc base = nxt) by (apply HA; now left).
    assert (Hadj_s : adj sc (S base) = f_entry fbs) by (apply HA; right; now left).
    assert (HAb : A sc fbs) by (intros k' l Hi; apply HA; right; now right).
    intros V0 Z Hx HZ HT V HV0 HV. cbn [f_next f_entry f_tree] in *.
    destruct (segs_reach sc base tail bs Hsr Hsi Hbs' (S (S base)) HAb V0 (fun x => Z x \/ x = base))
      with (V := S base :: V) as (V' & k' & HR & _).
    + (* the END operator *)
      intros V1 HV1 HZ1.
      destruct (Hx (base :: V1)) as (V'' & k'' & HR').
      * intros x Hi. right. now apply HV1.
      * intros x Hz [<-|Hi]; [apply HZ in Hz; lia|]. apply (HZ1 x); auto.
      * exists V'', (S (k'' + 1)). eapply RVisit.
        -- apply mem_false. apply HZ1. now right.
        -- rewrite Hadj_e. exact HR'.
        -- constructor.
    + lia.
    + intros x [Hz| ->]; [apply HZ in Hz|]; lia.
    + intros x Hi. rewrite pre_l_single in Hi. destruct Hi as [<-|Hi]; [|apply HT in Hi]; lia.
    + intros x Hi. right. now apply HV0.
    + fold fbs. intros x Hz [<-|Hi].
      * destruct Hz as [[Hz|Hz]|Hz]; [apply HZ in Hz| |]; lia.
      * revert Hi. apply HV. destruct Hz as [[Hz|Hz]|Hz]; [now left|right; lia|right; lia].
    + fold fbs in HR. exists V', (S (k' + 1)). eapply RVisit.
      * apply mem_false. apply HV. right. lia.
      * rewrite Hadj_s. exact HR.
      * constructor.
  - rewrite seg_blk_loop in *. now apply reach_single.
  - apply reach_empty.
  - now apply reach_single.
Qed.

Lemma seg_reach_wf s : wf_seq s = true -> seg_reach s.
Proof.
  intros Hwf. apply seg_reach_of_blocks; [|assumption].
  apply Forall_forall. intros b _. apply blk_reach_all.
Qed.

(** ** the DFS tree of the canonical graph is the expected tree *)

Lemma lookup_nodup {B} (l : list (nat * B)) k v :
  NoDup (map fst l) -> In (k, v) l -> lookup l k = Some v.
Proof.
  induction l as [|[k' v'] r IH]; intros Hnd Hi; [destruct Hi|].
  cbn [map fst] in Hnd. inversion Hnd as [|? ? Hk Hr]; subst. cbn [lookup].
  destruct Hi as [Hi|Hi].
  - injection Hi as -> ->. now rewrite Nat.eqb_refl.
  - destruct (Nat.eqb k' k) eqn:E; [|now apply IH].
    apply Nat.eqb_eq in E. subst. elim Hk. apply in_map_iff. exists (k, v). auto.
Qed.

Lemma A_self F base tail : Inv F base tail -> A (f_succ F) F.
Proof.
  intros (_ & _ & _ & _ & r5 & _ & r7) k l Hi. unfold adj.
  rewrite (lookup_nodup (f_succ F) k l); [reflexivity| |assumption]. now rewrite r7.
Qed.

Theorem dfs_tree_seg d h :
  wf_seq d = true -> f_entry (seg d 0 [] []) = [h] ->
  exists ts, f_tree (seg d 0 [] []) = [DNode h ts]
             /\ dfs_tree_of (f_succ (seg d 0 [] [])) (length (f_nodes (seg d 0 [] []))) h
                = Some (DNode h ts).
Proof.
  intros Hwf He.
  pose proof (seg_inv_wf d Hwf 0 [] []) as HInv.
  pose proof (A_self _ _ _ HInv) as HA.
  destruct HInv as (r1 & r2 & r3 & r4 & r5 & r6 & r7).
  set (F := seg d 0 [] []) in *.
  destruct (seg_reach_wf d Hwf (f_succ F) 0 [] [] HA [] (fun _ => False)) with (V := @nil nat)
    as (V' & k & HR).
  - intros V1 _ _. exists V1, 0. constructor.
  - intros x [].
  - intros x [].
  - apply incl_refl.
  - intros x _ [].
  - fold F in HR. rewrite He in HR.
    inversion HR as [| |V c cs V1 ts1 k1 V2 ts k2 Hm HR1 HR2]; subst; [discriminate|].
    inversion HR2; subst. exists ts1. split; [reflexivity|].
    apply (dfs_tree_R _ _ _ _ _ _ HR1).
    assert (Hnd : NoDup (pre (DNode h ts1))).
    { pose proof (R_nodup _ _ _ _ _ _ HR1) as Hn. rewrite (R_visited _ _ _ _ _ _ HR1) in Hn.
      specialize (Hn (NoDup_cons h (@in_nil _ h) (NoDup_nil _))).
      apply NoDup_rev in Hn. rewrite rev_app_distr, rev_involutive in Hn. exact Hn. }
    assert (Hin : incl (pre (DNode h ts1)) (seq 0 (f_next F))).
    { intros x Hx. apply in_seq.
      destruct (r2 x) as [[]|Hr]; [|lia].
      match goal with H : [DNode h ts1] = f_tree F |- _ => rewrite <- H end.
      now rewrite pre_l_single. }
    pose proof (NoDup_incl_length Hnd Hin) as Hl. rewrite seq_length in Hl.
    unfold ids in r6. rewrite map_length in r6. lia.
Qed.

(** ** the checker accepts the canonical graph (completeness on canonical graphs) *)

Definition walk_l (cls : list (nat * option nclass)) (ts : list dtree) : option wres :=
  match ts with [] => Some ([], []) | [c] => walk cls c | _ :: _ :: _ => None end.

Definition walk_others (cls : list (nat * option nclass)) :=
  fix go (l : list dtree) : option (list (list blk)) :=
    match l with
    | [] => Some []
    | o :: r => match walk cls o, go r with
                | Some (s, []), Some acc => Some (s :: acc)
                | _, _ => None
                end
    end.

Lemma walk_node cls n cs :
  walk cls (DNode n cs) =
  match class_of cls n with
  | None => None
  | Some (CEv e brk) => after_item (Ev e) brk (walk_l cls cs)
  | Some (CLoop body brk) => after_item (Loop body) brk (walk_l cls cs)
  | Some CKill => after_term Detach (walk_l cls cs)
  | Some (CEnd k) =>
      match walk_l cls cs with Some (s, segs) => Some ([], (k, s) :: segs) | None => None end
  | Some (CStart k) =>
      match cs with
      | [] => None
      | c :: others =>
          match walk cls c with
          | Some (sn, (k', s') :: segs) =>
              if kind_eqb k k' then
                match walk_others cls others with
                | Some ss => Some (Fork k (rev ss ++ [sn]) :: s', segs)
                | None => None
                end
              else None
          | _ => None
          end
      end
  end.
Proof. reflexivity. Qed.

Lemma walk_others_app cls a b :
  walk_others cls (a ++ b) =
  match walk_others cls a, walk_others cls b with
  | Some x, Some y => Some (x ++ y)
  | _, _ => None
  end.
Proof.
  induction a as [|o r IH]; cbn [app walk_others].
  - destruct (walk_others cls b); reflexivity.
  - fold (walk_others cls). rewrite IH.
    destruct (walk cls o) as [[s [|? ?]]|]; try reflexivity.
    destruct (walk_others cls r); [|reflexivity]. destruct (walk_others cls b); reflexivity.
Qed.

(** the payload table agrees with the fragment *)
Definition T (cls : list (nat * option nclass)) (F : frag) : Prop :=
  forall i pn, In (i, pn) (f_nodes F) -> class_of cls i = classify pn.

Definition items (b : blk) (brk : bool) : list blk :=
  match b with
  | Break => []
  | Ev _ | Loop _ => if brk then [b; Break] else [b]
  | _ => [b]
  end.

Definition strip (s : list blk) : list blk := match s with Break :: r => r | _ => s end.

Definition seg_walk (s : list blk) : Prop :=
  forall can, lin_ok_seq can s = true ->
  forall cls base xl tail segs,
    T cls (seg s base xl tail) -> walk_l cls tail = Some ([], segs) ->
    walk_l cls (f_tree (seg s base xl tail)) = Some (strip s, segs).

Definition blk_walk (b : blk) : Prop :=
  wf_blk b = true -> lin_ok_blk b = true ->
  forall cls brk base nxt tail s_t segs,
    T cls (seg_blk b brk base nxt tail) -> walk_l cls tail = Some (s_t, segs) ->
    (brk = true \/ b = Detach -> s_t = []) ->
    walk_l cls (f_tree (seg_blk b brk base nxt tail)) = Some (items b brk ++ s_t, segs).

Lemma lin_ok_seq_false_strip s : lin_ok_seq false s = true -> strip s = s.
Proof. destruct s as [|[] r]; try reflexivity. cbn. discriminate. Qed.

Lemma lin_ok_seq_weaken can s : lin_ok_seq false s = true -> lin_ok_seq can s = true.
Proof. destruct can; [|auto]. destruct s as [|[] r]; auto. cbn. discriminate. Qed.

(** the local fixpoint of [lin_ok_blk] is [lin_ok_seq] *)
Lemma lin_ok_blk_fork k bs : lin_ok_blk (Fork k bs) = forallb (lin_ok_seq false) bs.
Proof. reflexivity. Qed.
Lemma lin_ok_blk_loop body : lin_ok_blk (Loop body) = lin_ok_seq false body.
Proof. reflexivity. Qed.

Lemma lin_ok_seq_cons can b r :
  lin_ok_seq can (b :: r) = true ->
  lin_ok_blk b = true
  /\ lin_ok_seq (match b with Ev _ | Loop _ => true | _ => false end) r = true
  /\ (b = Break -> can = true).
Proof.
  destruct b; cbn [lin_ok_seq]; intros H.
  - repeat split; auto. discriminate.
  - apply andb_true_iff in H as [H1 H2]. repeat split; auto. discriminate.
  - apply andb_true_iff in H as [H1 H2]. repeat split; auto. discriminate.
  - apply andb_true_iff in H as [H1 H2]. repeat split; auto.
  - apply andb_true_iff in H as [H1 H2]. repeat split; auto. discriminate.
Qed.

Lemma seg_walk_of_blocks s : Forall blk_walk s -> wf_seq s = true -> seg_walk s.
Proof.
  intros Hall. induction Hall as [|b r Hb _ IH]; intros Hwf can Hok cls base xl tail segs HT Hw.
  - exact Hw.
  - apply wf_seq_inv in Hwf as (Hwb & Hwr & Hterm).
    apply lin_ok_seq_cons in Hok as (Hob & Hor & Hbrk).
    rewrite seg_cons in *. cbn zeta in *.
    set (fr := seg r base xl tail) in *.
    set (fb := seg_blk b (followed_by_break r) (f_next fr) (f_entry fr) (f_tree fr)) in *.
    assert (HTb : T cls fb) by (intros i pn Hi; apply HT; cbn [frag_app f_nodes]; apply in_or_app; auto).
    assert (HTr : T cls fr) by (intros i pn Hi; apply HT; cbn [frag_app f_nodes]; apply in_or_app; auto).
    specialize (IH Hwr _ Hor cls base xl tail segs HTr Hw). fold fr in IH.
    cbn [frag_app f_tree].
    unfold fb. rewrite (Hb Hwb Hob cls _ _ _ _ (strip r) segs HTb IH).
    + f_equal. f_equal. destruct b as [e|k bs|body| |]; cbn [items strip].
      * destruct r as [|[] r']; try reflexivity.
      * rewrite (lin_ok_seq_false_strip r Hor). reflexivity.
      * destruct r as [|[] r']; try reflexivity.
      * rewrite (lin_ok_seq_false_strip r Hor). reflexivity.
      * rewrite (lin_ok_seq_false_strip r Hor). reflexivity.
    + intros [Hbk| ->].
      * destruct r as [|[] r']; try discriminate. cbn [strip].
        (* [b; Break; r']: well-formedness forces r' = [] *)
        apply wf_seq_inv in Hwr as (_ & _ & Hlast). apply Hlast. reflexivity.
      * rewrite (Hterm eq_refl). reflexivity.
Qed.

Lemma seg_blk_shape b brk base nxt tail :
  b <> Break ->
  exists h t, f_entry (seg_blk b brk base nxt tail) = [h]
              /\ f_tree (seg_blk b brk base nxt tail) = [t]
              /\ f_nodes (seg_blk b brk base nxt tail) <> [].
Proof.
  intros Hb. destruct b as [e|k bs|body| |]; try (now elim Hb).
  - do 2 eexists. cbn. repeat split. discriminate.
  - rewrite seg_blk_fork. cbn zeta. do 2 eexists. cbn [f_entry f_tree f_nodes]. repeat split. discriminate.
  - rewrite seg_blk_loop. do 2 eexists. cbn. repeat split. discriminate.
  - do 2 eexists. cbn. repeat split. discriminate.
Qed.

Lemma seg_shape s base xl tail :
  nonempty s = true -> lin_ok_seq false s = true ->
  exists h t, f_entry (seg s base xl tail) = [h] /\ f_tree (seg s base xl tail) = [t]
              /\ f_nodes (seg s base xl tail) <> [].
Proof.
  destruct s as [|b r]; [discriminate|]. intros _ Hok.
  apply lin_ok_seq_cons in Hok as (_ & _ & Hbrk).
  assert (Hb : b <> Break) by (intros ->; specialize (Hbrk eq_refl); discriminate).
  rewrite seg_cons. cbn zeta. cbn [frag_app f_entry f_tree f_nodes].
  destruct (seg_blk_shape b (followed_by_break r) (f_next (seg r base xl tail))
              (f_entry (seg r base xl tail)) (f_tree (seg r base xl tail)) Hb) as (h & t & H1 & H2 & H3).
  exists h, t. repeat split; auto. intros Happ. apply app_eq_nil in Happ as [Happ _]. auto.
Qed.

Lemma class_of_classes ns i pn :
  NoDup (map fst ns) -> In (i, pn) ns -> class_of (classes_of ns) i = classify pn.
Proof.
  intros Hnd Hi. unfold class_of, classes_of. rewrite lookup_map.
  now rewrite (lookup_nodup ns i pn Hnd Hi).
Qed.

Lemma graph_complete s :
  seg_walk s -> wf_seq s = true -> lin_ok_seq false s = true -> is_block_graph (graph_of s) = Some s.
Proof.
  intros Hsw Hwf Hok. unfold is_block_graph, graph_of, pgraph_of_frag.
  cbn [g_nodes g_succ g_head].
  destruct s as [|b r]; [reflexivity|].
  destruct (seg_shape (b :: r) 0 [] [] eq_refl Hok) as (h & t & He & Ht & Hn).
  pose proof (seg_inv_wf _ Hwf 0 [] []) as (_ & _ & _ & _ & r5 & _ & _).
  set (F := seg (b :: r) 0 [] []) in *.
  destruct (dfs_tree_seg (b :: r) h Hwf He) as (ts & Hts & Hdfs). fold F in Hts, Hdfs.
  rewrite He. cbn [hd]. unfold block_with.
  destruct (length (f_nodes F)) as [|m] eqn:El; [destruct (f_nodes F); [now elim Hn|discriminate]|].
  rewrite Hdfs.
  assert (HT : T (classes_of (f_nodes F)) F).
  { intros i pn Hi. now apply class_of_classes. }
  pose proof (Hsw false Hok (classes_of (f_nodes F)) 0 [] [] [] HT eq_refl) as Hw.
  fold F in Hw. rewrite Hts in Hw. cbn [walk_l] in Hw. rewrite Hw.
  now rewrite (lin_ok_seq_false_strip _ Hok).
Qed.

Lemma segs_walk cls k e tailE s_t sg bs :
  Forall seg_walk bs ->
  Forall (fun s => nonempty s = true /\ lin_ok_seq false s = true) bs -> bs <> [] ->
  forall b0, T cls (segs e [DNode e tailE] bs b0) ->
  walk cls (DNode e tailE) = Some ([], (k, s_t) :: sg) ->
  exists c others ss sn,
    f_tree (segs e [DNode e tailE] bs b0) = c :: others
    /\ walk cls c = Some (sn, (k, s_t) :: sg)
    /\ walk_others cls others = Some ss
    /\ rev ss ++ [sn] = bs.
Proof.
  intros Hsw. induction Hsw as [|s r Hs _ IH]; intros Hok Hne b0 HT Hwe; [now elim Hne|].
  inversion Hok as [|? ? [Hnes Hoks] Hokr]; subst. clear Hok Hne.
  cbn [segs] in *.
  set (etree := [DNode e tailE]) in *.
  set (t0 := match r with [] => etree | _ :: _ => [] end) in *.
  destruct (seg_shape s b0 [e] t0 Hnes Hoks) as (h & t & _ & Ht & _).
  set (fs := seg s b0 [e] t0) in *.
  set (fr := segs e etree r (f_next fs)) in *.
  cbn [frag_app f_tree f_nodes] in *.
  assert (HTs : T cls fs) by (intros i pn Hi; apply HT; apply in_or_app; auto).
  assert (HTr : T cls fr) by (intros i pn Hi; apply HT; apply in_or_app; auto).
  destruct r as [|s' r'].
  - subst t0. cbn [segs f_tree app] in *.
    pose proof (Hs false Hoks cls b0 [e] etree _ HTs Hwe) as Hw. fold fs in Hw.
    rewrite Ht in Hw |- *. cbn [walk_l] in Hw.
    rewrite (lin_ok_seq_false_strip _ Hoks) in Hw.
    exists t, [], [], s. repeat split; auto.
  - subst t0.
    destruct (IH Hokr ltac:(discriminate) (f_next fs) HTr Hwe) as (c & others & ss & sn & H1 & H2 & H3 & H4).
    fold fr in H1.
    pose proof (Hs false Hoks cls b0 [e] [] [] HTs eq_refl) as Hw. fold fs in Hw.
    rewrite Ht in Hw |- *. cbn [walk_l] in Hw.
    rewrite (lin_ok_seq_false_strip _ Hoks) in Hw.
    rewrite H1. exists c, (others ++ [t]), (ss ++ [s]), sn. repeat split; auto.
    + rewrite walk_others_app, H3. cbn [walk_others]. now rewrite Hw.
    + rewrite rev_app_distr. cbn [rev app]. now rewrite H4.
Qed.

Lemma kind_eqb_refl k : kind_eqb k k = true.
Proof. destruct k; reflexivity. Qed.

Lemma blk_walk_all b : blk_walk b.
Proof.
  induction b as [e|k bs IH|body IH| |] using blk_nested_ind;
    intros Hwf Hok cls brk base nxt tail s_t sg HT Hw Hterm.
  - (* event *)
    cbn [seg_blk f_tree walk_l]. rewrite walk_node.
    rewrite (HT base (PEvent e brk)) by (now left). cbn [classify]. rewrite Hw.
    unfold after_item. destruct brk; cbn [items app].
    + rewrite Hterm by (now left). reflexivity.
    + reflexivity.
  - (* fork *)
    rewrite wf_blk_fork in Hwf. apply andb_true_iff in Hwf as [Hne Hbs].
    assert (Hbs' : bs <> []) by (destruct bs; discriminate).
    apply forallb_Forall in Hbs. rewrite lin_ok_blk_fork in Hok. apply forallb_Forall in Hok.
    assert (Hsw : Forall seg_walk bs).
    { clear - Hbs IH. induction IH as [|s r Hs _ IHr]; [constructor|].
      inversion Hbs as [|? ? Hw Hbs']; subst. constructor; [|now apply IHr].
      unfold wf_branch in Hw. apply andb_true_iff in Hw as [_ Hw]. now apply seg_walk_of_blocks. }
    assert (Hno : Forall (fun s => nonempty s = true /\ lin_ok_seq false s = true) bs).
    { clear - Hbs Hok. induction Hbs as [|s r Hw _ IHr]; [constructor|].
      inversion Hok; subst. constructor; [|now apply IHr].
      unfold wf_branch in Hw. apply andb_true_iff in Hw as [Hw _]. auto. }
    rewrite seg_blk_fork in *. cbn zeta in *.
    set (fbs := segs base [DNode base tail] bs (S (S base))) in *.
    cbn [f_tree f_nodes] in *.
    assert (Hce : class_of cls base = Some (CEnd k)) by (apply (HT base (POp OEnd (KGate k))); now left).
    assert (Hcs : class_of cls (S base) = Some (CStart k))
      by (apply (HT (S base) (POp OStart (KGate k))); right; now left).
    assert (HTb : T cls fbs) by (intros i pn Hi; apply HT; right; now right).
    assert (Hwe : walk cls (DNode base tail) = Some ([], (k, s_t) :: sg)).
    { rewrite walk_node, Hce. fold (walk_l cls tail). now rewrite Hw. }
    destruct (segs_walk cls k base tail s_t sg bs Hsw Hno Hbs' (S (S base)) HTb Hwe)
      as (c & others & ss & sn & H1 & H2 & H3 & H4).
    fold fbs in H1. cbn [walk_l]. rewrite walk_node, Hcs, H1, H2, kind_eqb_refl, H3, H4.
    reflexivity.
  - (* loop *)
    rewrite seg_blk_loop in *. cbn [f_tree f_nodes walk_l] in *. rewrite walk_node.
    rewrite (HT base (PLoop (graph_of body) brk)) by (now left).
    rewrite wf_blk_loop in Hwf. apply andb_true_iff in Hwf as [_ Hwf].
    rewrite lin_ok_blk_loop in Hok.
    rewrite classify_loop, (graph_complete body (seg_walk_of_blocks body IH Hwf) Hwf Hok).
    fold (walk_l cls tail). rewrite Hw.
    unfold after_item. destruct brk; cbn [items app].
    + rewrite Hterm by (now left). reflexivity.
    + reflexivity.
  - (* break: transparent *)
    cbn [seg_blk f_tree items app]. exact Hw.
  - (* detach *)
    cbn [seg_blk f_tree walk_l]. rewrite walk_node.
    rewrite (HT base PKill) by (now left). cbn [classify]. fold (walk_l cls tail). rewrite Hw.
    rewrite Hterm by (now right). reflexivity.
Qed.

Lemma seg_walk_wf s : wf_seq s = true -> seg_walk s.
Proof.
  intros Hwf. apply seg_walk_of_blocks; [|assumption].
  apply Forall_forall. intros b _. apply blk_walk_all.
Qed.

(** Completeness of the checker on canonical graphs, and the block structure theorem. *)
Theorem is_block_graph_graph_of d :
  wf d = true -> lin_ok d = true -> is_block_graph (graph_of d) = Some d.
Proof. intros Hwf Hok. apply graph_complete; auto. now apply seg_walk_wf. Qed.

Theorem linearise_graph_of name d :
  wf d = true -> lin_ok d = true -> linearise name (graph_of d) = Some (print name d).
Proof. intros Hwf Hok. apply is_block_graph_sound. now apply is_block_graph_graph_of. Qed.

Corollary parse_linearise_graph_of name d :
  wf d = true -> lin_ok d = true ->
  match linearise name (graph_of d) with Some ts => parse ts | None => None end = Some (name, d).
Proof. intros Hwf Hok. rewrite (linearise_graph_of name d Hwf Hok). now apply parse_print. Qed.

(* ------------------------------------------------------------------------------------------ *)
(** * Non-vacuity and necessity of the side conditions *)


(** E1; XOR { E2; AND {E3 | E4; detach} | repeat { E5; OR { E6; break | E7 } } ; break | detach }; E8 *)
Definition example_diagram : diagram :=
  [Ev 1;
   Fork XOR [[Ev 2; Fork AND [[Ev 3]; [Ev 4; Detach]]];
             [Loop [Ev 5; Fork OR [[Ev 6; Break]; [Ev 7]]]; Break];
             [Detach]];
   Ev 8].

Example example_hyps : wf example_diagram = true /\ lin_ok example_diagram = true.
Proof. split; reflexivity. Qed.

Example example_graph :
  graph_of example_diagram =
  PGraph
    [(11, PEvent 1 false); (1, POp OEnd (KGate XOR)); (2, POp OStart (KGate XOR)); (8, PEvent 2 false);
     (3, POp OEnd (KGate AND)); (4, POp OStart (KGate AND)); (5, PEvent 3 false); (7, PEvent 4 false);
     (6, PKill);
     (9, PLoop (PGraph [(4, PEvent 5 false); (0, POp OEnd (KGate OR)); (1, POp OStart (KGate OR));
                        (2, PEvent 6 true); (3, PEvent 7 false)]
                       [(4, [1]); (0, []); (1, [3; 2]); (2, [0]); (3, [0])] 4) true);
     (10, PKill); (0, PEvent 8 false)]
    [(11, [2]); (1, [0]); (2, [10; 9; 8]); (8, [4]); (3, [1]); (4, [7; 5]); (5, [3]); (7, [6]);
     (6, [3]); (9, [1]); (10, [1]); (0, [])] 11.
Proof. reflexivity. Qed.

Example example_dfs_tree :
  dfs_tree (graph_of example_diagram) =
  Some (DNode 11 [DNode 2 [DNode 10 [DNode 1 [DNode 0 []]]; DNode 9 [];
                           DNode 8 [DNode 4 [DNode 7 [DNode 6 [DNode 3 []]]; DNode 5 []]]]]).
Proof. reflexivity. Qed.

Example example_linearise :
  linearise 1 (graph_of example_diagram) = Some (print 1 example_diagram)
  /\ is_block_graph (graph_of example_diagram) = Some example_diagram
  /\ heads_ok (graph_of example_diagram) = true.
Proof. repeat split; reflexivity. Qed.

(** [dfs_tree_R] is not vacuous: a derivation of the recursive DFS for a diamond with a cross edge
    (0 -> 1, 2; 1 -> 3; 2 -> 3) *)
Example example_R :
  let sc := [(0, [1; 2]); (1, [3]); (2, [3]); (3, [])] in
  R sc [0] (adj sc 0) [2; 3; 1; 0] [DNode 1 [DNode 3 []]; DNode 2 []] 7
  /\ dfs_tree_of sc 4 0 = Some (DNode 0 [DNode 1 [DNode 3 []]; DNode 2 []]).
Proof.
  split; [|reflexivity]. cbn.
  apply (RVisit _ [0] 1 [2] [3; 1; 0] [DNode 3 []] 2 [2; 3; 1; 0] [DNode 2 []] 3); [reflexivity| |].
  - apply (RVisit _ [1; 0] 3 [] [3; 1; 0] [] 0 [3; 1; 0] [] 0); [reflexivity|constructor|constructor].
  - apply (RVisit _ [3; 1; 0] 2 [] [2; 3; 1; 0] [] 1 [2; 3; 1; 0] [] 0); [reflexivity| |constructor].
    apply RSkip; [reflexivity|constructor].
Qed.

(** [lin_ok] cannot be dropped: a fork followed by [break] is well formed but the graph has no
    place for the break flag *)
Example lin_ok_needed :
  let d := [Ev 1; Loop [Fork AND [[Ev 2]; [Ev 3]]; Break]] in
  wf d = true /\ lin_ok d = false /\ linearise 1 (graph_of d) <> Some (print 1 d).
Proof. repeat split; try reflexivity. cbv. discriminate. Qed.

(** [wf] cannot be dropped either: an empty branch loses its separator *)
Example wf_needed :
  let d := [Fork AND [[]; [Ev 1]]] in
  wf d = false /\ lin_ok d = true /\ linearise 1 (graph_of d) <> Some (print 1 d).
Proof. repeat split; try reflexivity. cbv. discriminate. Qed.

(** a graph that is not canonical (different ids and node order, as exported from python) but
    block shaped: accepted by the checker, hence [is_block_graph_sound] applies *)
Example exported_shape :
  let g := PGraph [(0, PEvent 1 false); (1, POp OStart (KGate AND)); (2, POp OEnd (KGate AND));
                   (3, PEvent 2 false); (4, PKill); (5, PEvent 3 false); (6, PKill)]
                  [(0, [1]); (1, [3; 5]); (2, []); (3, [4]); (4, [2]); (5, [6]); (6, [2])] 0 in
  is_block_graph g = Some [Ev 1; Fork AND [[Ev 3; Detach]; [Ev 2; Detach]]].
Proof. reflexivity. Qed.

(* ------------------------------------------------------------------------------------------ *)
(** * Soundness of the executable interface [Puml.LineariseCheck] *)

Lemma tok_eqb_eq a b : tok_eqb a b = true -> a = b.
Proof.
  destruct a, b; cbn [tok_eqb]; intros H; try discriminate; try reflexivity;
    apply Pos.eqb_eq in H; now subst.
Qed.

Lemma toks_eqb_eq a b : toks_eqb a b = true -> a = b.
Proof.
  revert b. induction a as [|x a IH]; intros [|y b] H; try discriminate; [reflexivity|].
  cbn [toks_eqb] in H. apply andb_true_iff in H as [H1 H2].
  apply tok_eqb_eq in H1. apply IH in H2. now subst.
Qed.

Theorem lin_agrees_sound name g ts : lin_agrees name g ts = true -> linearise name g = Some ts.
Proof.
  unfold lin_agrees. destruct (linearise name g) as [l|]; [|discriminate].
  intros H. apply toks_eqb_eq in H. now subst.
Qed.

(** certificate for one exported graph: the emitted text is the print of [d], and it is so because
    of the structure of the graph's DFS tree *)
Theorem lin_check_block name g ts d w :
  lin_check name g ts = VBlock d w ->
  linearise name g = Some ts /\ ts = print name d /\ is_block_graph g = Some d /\ w = wf d
  /\ (w = true -> parse ts = Some (name, d)).
Proof.
  unfold lin_check. destruct (lin_agrees name g ts) eqn:Ea; [|discriminate]. cbn [negb].
  destruct (heads_ok g); [|discriminate]. cbn [negb].
  destruct (is_block_graph g) as [d'|] eqn:Eb; [|discriminate].
  intros [= <- <-]. apply lin_agrees_sound in Ea.
  pose proof (is_block_graph_sound name g d' Eb) as Hp. rewrite Ea in Hp. injection Hp as ->.
  repeat split; auto. intros Hwf. now apply parse_print.
Qed.

(** a well-formed output can only come from ... nothing: [VNotBlock true] is possible in principle
    (the checker is sound, and complete on canonical graphs only); on the 1200 pool definitions
    it never occurs. *)
Example lin_check_example :
  lin_check 1 (graph_of example_diagram) (print 1 example_diagram) = VBlock example_diagram true
  /\ lin_check 9 defect_graph
       [TStartUml; TPartition 9; TGroup 9; TEvent 1; TRepeat; TEvent 2; TSplit; TEvent 4; TSplitAgain;
        TEvent 3; TRepeatWhile; TEndGroup; TClose; TEndUml] = VNotBlock false.
Proof. split; reflexivity. Qed.

Print Assumptions linearise_tree.
Print Assumptions dfs_tree_R.
Print Assumptions is_block_graph_sound.
Print Assumptions is_block_graph_parse.
Print Assumptions is_block_graph_graph_of.
Print Assumptions linearise_graph_of.
Print Assumptions parse_linearise_graph_of.
Print Assumptions lin_agrees_sound.
Print Assumptions lin_check_block.
