(** Proofs about [Puml.Linearise] (the DFS printer of tel2puml/puml_graph.py). *)
From Coq Require Import List Bool PArith Arith Lia.
From V Require Import Puml.Ast Puml.Syntax Puml.Parse Puml.ParseProofs Puml.Linearise.
Import ListNotations.

(* ------------------------------------------------------------------------------------------ *)
(** * (a) [linearise] is a function of the DFS tree only *)

Fixpoint map_opt {A B : Type} (f : A -> option B) (l : list A) : option (list B) :=
  match l with
  | [] => Some []
  | x :: r => match f x, map_opt f r with Some a, Some b => Some (a :: b) | _, _ => None end
  end.

Lemma map_opt_app {A B} (f : A -> option B) l1 l2 :
  map_opt f (l1 ++ l2) =
  match map_opt f l1, map_opt f l2 with Some a, Some b => Some (a ++ b) | _, _ => None end.
Proof.
  induction l1 as [|x l1 IH]; cbn [map_opt app].
  - destruct (map_opt f l2); reflexivity.
  - rewrite IH. destruct (f x); [|reflexivity].
    destruct (map_opt f l1); [|reflexivity]. destruct (map_opt f l2); reflexivity.
Qed.

Lemma map_opt_rev {A B} (f : A -> option B) l :
  map_opt f (rev l) = option_map (@rev B) (map_opt f l).
Proof.
  induction l as [|x l IH]; [reflexivity|].
  cbn [rev map_opt]. rewrite map_opt_app, IH. cbn [map_opt].
  destruct (f x); destruct (map_opt f l); reflexivity.
Qed.

Lemma build_tree_S d f n :
  build_tree d (S f) n = option_map (DNode n) (map_opt (build_tree d f) (adj d n)).
Proof.
  cbn [build_tree]. f_equal. induction (adj d n) as [|s r IH]; [reflexivity|].
  cbn [map_opt]. rewrite <- IH. reflexivity.
Qed.

(** emitted children, given the emitted lists in emission order *)
Fixpoint interleave (sk : option kind) (i : nat) (l : list (list onode)) : list onode :=
  match l with
  | [] => []
  | a :: r => path_nodes sk i ++ a ++ interleave sk (S i) r
  end.

Lemma interleave_snoc sk i l a :
  interleave sk i (l ++ [a]) = interleave sk i l ++ path_nodes sk (i + length l) ++ a.
Proof.
  revert i. induction l as [|x l IH]; intros i; cbn [interleave app length].
  - rewrite Nat.add_0_r, app_nil_r. reflexivity.
  - rewrite IH. rewrite <- !app_assoc. replace (S i + length l) with (i + S (length l)) by lia.
    reflexivity.
Qed.

Lemma order_tree_eq shapes n cs :
  order_tree shapes (DNode n cs) =
  ONode n :: interleave (shape_of shapes n) 0 (rev (map (order_tree shapes) cs)).
Proof.
  cbn [order_tree]. f_equal.
  induction cs as [|c r IH]; [reflexivity|].
  rewrite IH. cbn [map rev]. rewrite interleave_snoc, rev_length, map_length. reflexivity.
Qed.

Lemma order_nodes_S shapes d f n :
  order_nodes shapes d (S f) n =
  option_map (fun l => ONode n :: interleave (shape_of shapes n) 0 l)
             (map_opt (order_nodes shapes d f) (rev (adj d n))).
Proof.
  cbn [order_nodes]. generalize (rev (adj d n)) as l. generalize 0 as i.
  intros i l. revert i. induction l as [|s r IH]; intros i; [reflexivity|].
  cbn [map_opt interleave]. specialize (IH (S i)).
  destruct (order_nodes shapes d f s) as [a|]; [|reflexivity].
  match goal with |- option_map _ (match ?X with _ => _ end) = _ => destruct X as [b|] eqn:E end.
  - destruct (map_opt (order_nodes shapes d f) r) as [bs|]; cbn in IH |- *; [|discriminate].
    injection IH as IH. rewrite IH. reflexivity.
  - destruct (map_opt (order_nodes shapes d f) r) as [bs|]; cbn in IH |- *; [discriminate|reflexivity].
Qed.

Lemma map_opt_ext {A B} (f g : A -> option B) l :
  (forall x, f x = g x) -> map_opt f l = map_opt g l.
Proof. intros H. induction l as [|x l IH]; cbn; [reflexivity|]. now rewrite H, IH. Qed.

Lemma map_opt_map {A B C} (f : A -> option B) (g : B -> C) l :
  map_opt (fun x => option_map g (f x)) l = option_map (map g) (map_opt f l).
Proof.
  induction l as [|x l IH]; cbn; [reflexivity|]. rewrite IH.
  destruct (f x); cbn; [|reflexivity]. destruct (map_opt f l); reflexivity.
Qed.

(** the recursive walk over the successor dictionary = unfold the dictionary into a tree, then
    walk the tree structurally *)
Lemma order_nodes_build shapes d fuel n :
  order_nodes shapes d fuel n = option_map (order_tree shapes) (build_tree d fuel n).
Proof.
  revert n. induction fuel as [|f IH]; intros n; [reflexivity|].
  rewrite order_nodes_S, build_tree_S.
  rewrite (map_opt_ext _ _ _ IH), map_opt_map, map_opt_rev.
  destruct (map_opt (build_tree d f) (adj d n)) as [ts|]; cbn [option_map]; [|reflexivity].
  rewrite order_tree_eq, map_rev. reflexivity.
Qed.

Theorem blocks_with_tree rend shapes sc nn h :
  blocks_with rend shapes sc nn h =
  match nn with
  | O => Some []
  | S _ => match dfs_tree_of sc nn h with
           | Some t => print_tree rend shapes t
           | None => None
           end
  end.
Proof.
  unfold blocks_with, dfs_tree_of. destruct nn as [|m]; [reflexivity|].
  destruct (dfs_loop _ _ _ _ _) as [es|]; [|reflexivity].
  rewrite order_nodes_build. unfold print_tree.
  destruct (build_tree _ _ _); reflexivity.
Qed.

Lemma render_nodes_fix ns :
  (fix go (l : list (nat * pnode)) : list (nat * option (list token)) :=
     match l with
     | [] => []
     | p :: r => match p with (i, x) => (i, lin_node x) :: go r end
     end) ns = render_nodes ns.
Proof. induction ns as [|[i x] r IH]; [reflexivity|]. cbn [render_nodes map fst snd]. now rewrite IH. Qed.

Lemma lin_node_loop g brk :
  lin_node (PLoop g brk) =
  option_map (fun b => TRepeat :: b ++ TRepeatWhile :: brk_tokens brk) (lin_blocks g).
Proof. destruct g as [ns sc h]. cbn [lin_node]. rewrite render_nodes_fix. reflexivity. Qed.

Lemma lin_node_sub g brk :
  lin_node (PSub g brk) = option_map (fun b => b ++ brk_tokens brk) (lin_blocks g).
Proof. destruct g as [ns sc h]. cbn [lin_node]. rewrite render_nodes_fix. reflexivity. Qed.

Definition wrap (name : positive) (b : list token) : list token :=
  [TStartUml; TPartition name; TGroup name] ++ b ++ [TEndGroup; TClose; TEndUml].

(** the blocks of a graph are the structural print of its DFS tree ([None] on both sides when
    the DFS or the unfolding runs out of fuel) *)
Theorem lin_blocks_tree g :
  lin_blocks g =
  match g_nodes g with
  | [] => Some []
  | _ :: _ => match dfs_tree g with
              | Some t => print_tree (render_nodes (g_nodes g)) (shapes_of (g_nodes g)) t
              | None => None
              end
  end.
Proof.
  unfold lin_blocks, dfs_tree. rewrite blocks_with_tree.
  destruct (g_nodes g); reflexivity.
Qed.

Theorem linearise_tree name g :
  linearise name g =
  option_map (wrap name)
    match g_nodes g with
    | [] => Some []
    | _ :: _ => match dfs_tree g with
                | Some t => print_tree (render_nodes (g_nodes g)) (shapes_of (g_nodes g)) t
                | None => None
                end
    end.
Proof. unfold linearise. rewrite lin_blocks_tree. reflexivity. Qed.

(* ------------------------------------------------------------------------------------------ *)
(** * The iterative DFS of networkx computes the textbook recursive DFS tree *)

Section DtreeInd.
  Variable P : dtree -> Prop.
  Hypothesis H : forall n cs, Forall P cs -> P (DNode n cs).
  Fixpoint dtree_nested_ind (t : dtree) : P t :=
    match t with
    | DNode n cs =>
        H n cs ((fix go (l : list dtree) : Forall P l :=
                   match l with
                   | [] => Forall_nil P
                   | c :: r => Forall_cons c (dtree_nested_ind c) (go r)
                   end) cs)
    end.
End DtreeInd.

Fixpoint pre (t : dtree) : list nat := match t with DNode n cs => n :: flat_map pre cs end.
Definition pre_l (ts : list dtree) : list nat := flat_map pre ts.

(** edges yielded while exploring the trees [ts] below [p], in yield order *)
Fixpoint tedges (p : nat) (t : dtree) : list (nat * nat) :=
  match t with DNode n cs => (p, n) :: flat_map (tedges n) cs end.
Definition edges_l (p : nat) (ts : list dtree) : list (nat * nat) := flat_map (tedges p) ts.

Lemma mem_In n l : mem n l = true <-> In n l.
Proof.
  unfold mem. rewrite existsb_exists. split.
  - intros [x [Hx He]]. apply Nat.eqb_eq in He. now subst.
  - intros Hn. exists n. split; [assumption|apply Nat.eqb_refl].
Qed.

Lemma mem_false n l : mem n l = false <-> ~ In n l.
Proof. rewrite <- mem_In. destruct (mem n l); split; congruence. Qed.

Section Dfs.
  Variable sc : adjl.

  (** recursive DFS over a child list: [R V cs V' ts k]: starting with visited set [V], looking at
      the children [cs] in order yields the trees [ts] and visited set [V'], in [k] machine steps *)
  Inductive R : list nat -> list nat -> list nat -> list dtree -> nat -> Prop :=
  | RNil V : R V [] V [] 0
  | RSkip V c cs V' ts k : mem c V = true -> R V cs V' ts k -> R V (c :: cs) V' ts (S k)
  | RVisit V c cs V1 ts1 k1 V2 ts k2 :
      mem c V = false -> R (c :: V) (adj sc c) V1 ts1 k1 -> R V1 cs V2 ts k2 ->
      R V (c :: cs) V2 (DNode c ts1 :: ts) (S (k1 + S k2)).

  Lemma dfs_loop_R V cs V' ts k :
    R V cs V' ts k ->
    forall p K D fuel,
      dfs_loop (k + fuel) sc V ((p, cs) :: K) D = dfs_loop fuel sc V' ((p, []) :: K) (D ++ edges_l p ts).
  Proof.
    induction 1 as [V|V c cs V' ts k Hm _ IH|V c cs V1 ts1 k1 V2 ts k2 Hm _ IH1 _ IH2];
      intros p K D fuel.
    - cbn [edges_l flat_map]. now rewrite app_nil_r.
    - cbn [Nat.add dfs_loop]. rewrite Hm. apply IH.
    - cbn [Nat.add dfs_loop]. rewrite Hm.
      rewrite <- Nat.add_assoc. rewrite IH1. cbn [Nat.add dfs_loop].
      rewrite IH2. f_equal. cbn [edges_l flat_map tedges].
      rewrite <- !app_assoc. reflexivity.
  Qed.

  Lemma R_visited V cs V' ts k : R V cs V' ts k -> V' = rev (pre_l ts) ++ V.
  Proof.
    induction 1 as [V|V c cs V' ts k Hm _ IH|V c cs V1 ts1 k1 V2 ts k2 Hm _ IH1 _ IH2].
    - reflexivity.
    - assumption.
    - rewrite IH2, IH1.
      change (pre_l (DNode c ts1 :: ts)) with ((c :: pre_l ts1) ++ pre_l ts).
      rewrite rev_app_distr. cbn [rev]. rewrite <- !app_assoc. reflexivity.
  Qed.

  Lemma R_nodup V cs V' ts k : R V cs V' ts k -> NoDup V -> NoDup V'.
  Proof.
    induction 1 as [V|V c cs V' ts k Hm _ IH|V c cs V1 ts1 k1 V2 ts k2 Hm _ IH1 _ IH2]; intros Hn; auto.
    apply IH2, IH1. constructor; [now apply mem_false|assumption].
  Qed.

  Definition wsum (l : list nat) : nat := fold_right (fun n a => S (length (adj sc n)) + a) 0 l.

  Lemma wsum_app a b : wsum (a ++ b) = wsum a + wsum b.
  Proof. unfold wsum. induction a as [|x a IH]; cbn [app fold_right]; [reflexivity|]. rewrite IH. lia. Qed.

  Lemma R_cost V cs V' ts k : R V cs V' ts k -> k = length cs + wsum (pre_l ts).
  Proof.
    induction 1 as [V|V c cs V' ts k Hm _ IH|V c cs V1 ts1 k1 V2 ts k2 Hm _ IH1 _ IH2].
    - reflexivity.
    - cbn [length]. lia.
    - change (pre_l (DNode c ts1 :: ts)) with ((c :: pre_l ts1) ++ pre_l ts).
      rewrite wsum_app. change (wsum (c :: pre_l ts1)) with (S (length (adj sc c)) + wsum (pre_l ts1)).
      cbn [length]. lia.
  Qed.
End Dfs.

(** sum of out-degrees of distinct nodes is at most the number of edges *)
Definition dsum (sc : adjl) (l : list nat) : nat := fold_right (fun n a => length (adj sc n) + a) 0 l.

Lemma adj_cons k l sc n : adj ((k, l) :: sc) n = if Nat.eqb k n then l else adj sc n.
Proof. unfold adj. cbn [lookup]. destruct (Nat.eqb k n); reflexivity. Qed.

Lemma dsum_skip k l sc L : ~ In k L -> dsum ((k, l) :: sc) L = dsum sc L.
Proof.
  induction L as [|n L IH]; intros Hk; [reflexivity|].
  cbn [dsum fold_right]. fold (dsum ((k, l) :: sc) L) (dsum sc L).
  rewrite adj_cons. destruct (Nat.eqb k n) eqn:E.
  - apply Nat.eqb_eq in E. subst. elim Hk. now left.
  - rewrite IH; [reflexivity|]. intros Hi. apply Hk. now right.
Qed.

Lemma dsum_cons_le k l sc L : NoDup L -> dsum ((k, l) :: sc) L <= length l + dsum sc L.
Proof.
  induction L as [|n L IH]; intros Hn; [cbn; lia|].
  inversion Hn as [|? ? Hni HnL]; subst.
  cbn [dsum fold_right]. fold (dsum ((k, l) :: sc) L) (dsum sc L).
  rewrite adj_cons. destruct (Nat.eqb k n) eqn:E.
  - apply Nat.eqb_eq in E. subst. rewrite dsum_skip by assumption. lia.
  - specialize (IH HnL). lia.
Qed.

Lemma dsum_le sc L : NoDup L -> dsum sc L <= n_edges sc.
Proof.
  revert L. induction sc as [|[k l] sc IH]; intros L Hn.
  - induction L as [|n L IHL]; [reflexivity|]. inversion Hn; subst. cbn. now apply IHL.
  - cbn [n_edges fold_right snd]. fold (n_edges sc).
    pose proof (dsum_cons_le k l sc L Hn). specialize (IH L Hn). lia.
Qed.

Lemma wsum_dsum sc L : wsum sc L = length L + dsum sc L.
Proof.
  induction L as [|n L IH]; [reflexivity|].
  change (wsum sc (n :: L)) with (S (length (adj sc n)) + wsum sc L).
  change (dsum sc (n :: L)) with (length (adj sc n) + dsum sc L).
  cbn [length]. lia.
Qed.

(** ** the successor dictionary of the yielded edges unfolds back into the tree *)

Lemma adj_dict_append d s t n :
  adj (dict_append d s t) n = if Nat.eqb s n then adj d n ++ [t] else adj d n.
Proof.
  induction d as [|[k l] r IH].
  - cbn [dict_append]. rewrite adj_cons. destruct (Nat.eqb s n); reflexivity.
  - cbn [dict_append]. destruct (Nat.eqb k s) eqn:Eks.
    + apply Nat.eqb_eq in Eks. subst k. rewrite !adj_cons. destruct (Nat.eqb s n); reflexivity.
    + rewrite !adj_cons, IH. destruct (Nat.eqb k n) eqn:Ekn; [|reflexivity].
      apply Nat.eqb_eq in Ekn. subst k. now rewrite Nat.eqb_sym, Eks.
Qed.

Definition out_of (n : nat) (es : list (nat * nat)) : list nat :=
  map snd (filter (fun e => Nat.eqb (fst e) n) es).

Lemma adj_fold es d0 n :
  adj (fold_left (fun d st => dict_append d (fst st) (snd st)) es d0) n = adj d0 n ++ out_of n es.
Proof.
  revert d0. induction es as [|[s t] es IH]; intros d0.
  - cbn. now rewrite app_nil_r.
  - cbn [fold_left fst snd]. rewrite IH, adj_dict_append. unfold out_of. cbn [filter fst].
    destruct (Nat.eqb s n); cbn [map snd]; [rewrite <- app_assoc|]; reflexivity.
Qed.

Lemma adj_dict_of_edges es n : adj (dict_of_edges es) n = out_of n es.
Proof. unfold dict_of_edges. now rewrite adj_fold. Qed.

Lemma out_of_app n a b : out_of n (a ++ b) = out_of n a ++ out_of n b.
Proof. unfold out_of. now rewrite filter_app, map_app. Qed.

Lemma nodup_app {A} (a b : list A) :
  NoDup (a ++ b) <-> NoDup a /\ NoDup b /\ (forall x, In x a -> ~ In x b).
Proof.
  induction a as [|x a IH]; cbn [app].
  - split; [intros H; repeat split; [constructor|assumption|intros ? []]|tauto].
  - split.
    + intros H. inversion H as [|? ? Hx Hab]; subst. apply IH in Hab as [Ha [Hb Hd]].
      repeat split; [constructor; [intros Hi; apply Hx, in_or_app; auto|assumption]|assumption|].
      intros y [->|Hy]; [intros Hi; apply Hx, in_or_app; auto|now apply Hd].
    + intros [Ha [Hb Hd]]. inversion Ha as [|? ? Hx Ha']; subst. constructor.
      * intros Hi. apply in_app_or in Hi as [Hi|Hi]; [auto|]. apply (Hd x); [now left|assumption].
      * apply IH. repeat split; auto. intros y Hy. apply Hd. now right.
Qed.

(** children of node [n] in a tree (empty when absent) *)
Fixpoint kids (n : nat) (t : dtree) : list nat :=
  match t with
  | DNode m cs => if Nat.eqb m n then map root cs else flat_map (kids n) cs
  end.

Definition edges_of (t : dtree) : list (nat * nat) :=
  match t with DNode m cs => edges_l m cs end.

Lemma tedges_eq p t : tedges p t = (p, root t) :: edges_of t.
Proof. destruct t; reflexivity. Qed.

Lemma kids_absent n t : ~ In n (pre t) -> kids n t = [].
Proof.
  induction t as [m cs IH] using dtree_nested_ind. intros Hn.
  cbn [kids]. cbn [pre] in Hn. destruct (Nat.eqb m n) eqn:E.
  - apply Nat.eqb_eq in E. subst. elim Hn. now left.
  - assert (Hc : ~ In n (flat_map pre cs)) by (intros Hi; apply Hn; now right).
    clear Hn E. induction IH as [|c r Hc0 _ IHr]; [reflexivity|].
    cbn [flat_map] in *. rewrite Hc0, IHr; [reflexivity| |];
      intros Hi; apply Hc, in_or_app; auto.
Qed.

Lemma out_of_edges n t : NoDup (pre t) -> out_of n (edges_of t) = kids n t.
Proof.
  induction t as [m cs IH] using dtree_nested_ind. intros Hnd.
  cbn [edges_of kids]. cbn [pre] in Hnd. inversion Hnd as [|? ? Hm Hcs]; subst. clear Hnd.
  destruct (Nat.eqb m n) eqn:E.
  - apply Nat.eqb_eq in E. subst n.
    induction IH as [|c r Hc0 _ IHr]; [reflexivity|].
    cbn [flat_map] in Hm, Hcs. apply nodup_app in Hcs as [Hc1 [Hc2 _]].
    unfold edges_l in *. cbn [flat_map map]. rewrite out_of_app, tedges_eq.
    unfold out_of at 1. cbn [filter fst]. rewrite Nat.eqb_refl. cbn [map snd].
    fold (out_of m (edges_of c)). rewrite Hc0 by assumption.
    rewrite kids_absent by (intros Hi; apply Hm, in_or_app; auto). cbn [app].
    f_equal. apply IHr; [intros Hi; apply Hm, in_or_app; auto|assumption].
  - clear Hm. induction IH as [|c r Hc0 _ IHr]; [reflexivity|].
    cbn [flat_map] in Hcs. apply nodup_app in Hcs as [Hc1 [Hc2 _]].
    unfold edges_l in *. cbn [flat_map]. rewrite out_of_app, tedges_eq.
    unfold out_of at 1. cbn [filter fst]. rewrite E.
    fold (out_of n (edges_of c)). rewrite Hc0 by assumption. f_equal. now apply IHr.
Qed.

Fixpoint height (t : dtree) : nat :=
  match t with DNode _ cs => S (fold_right (fun c a => Nat.max (height c) a) 0 cs) end.

Definition agree (d : adjl) (t : dtree) : Prop := forall n, In n (pre t) -> adj d n = kids n t.

Lemma flat_kids_absent n cs : ~ In n (flat_map pre cs) -> flat_map (kids n) cs = [].
Proof.
  induction cs as [|y r IHr]; intros Hn; [reflexivity|]. cbn [flat_map] in *.
  rewrite kids_absent, IHr; [reflexivity| |]; intros Hi; apply Hn, in_or_app; auto.
Qed.

Lemma flat_kids_in n c cs :
  In c cs -> In n (pre c) -> NoDup (flat_map pre cs) -> flat_map (kids n) cs = kids n c.
Proof.
  induction cs as [|x r IH]; intros Hc Hn Hnd; [contradiction|].
  cbn [flat_map] in *. apply nodup_app in Hnd as [H1 [H2 Hd]].
  destruct Hc as [->|Hc].
  - rewrite flat_kids_absent by now apply Hd. now rewrite app_nil_r.
  - rewrite kids_absent, IH; auto.
    intros Hi. apply (Hd n Hi). apply in_flat_map. exists c. auto.
Qed.

Lemma agree_node d m cs :
  agree d (DNode m cs) -> NoDup (pre (DNode m cs)) ->
  adj d m = map root cs /\ forall c, In c cs -> agree d c.
Proof.
  intros Ha Hnd. cbn [pre] in Hnd. inversion Hnd as [|? ? Hm Hcs]; subst. split.
  - rewrite (Ha m) by (now left). cbn [kids]. now rewrite Nat.eqb_refl.
  - intros c Hc n Hn.
    assert (Hin : In n (flat_map pre cs)) by (apply in_flat_map; exists c; auto).
    rewrite (Ha n) by (now right). cbn [kids].
    destruct (Nat.eqb m n) eqn:E; [apply Nat.eqb_eq in E; subst; contradiction|].
    now apply flat_kids_in.
Qed.

Lemma height_child c cs : In c cs -> height c <= fold_right (fun c a => Nat.max (height c) a) 0 cs.
Proof.
  induction cs as [|x r IH]; [intros []|]. cbn [fold_right]. intros [->|Hc]; [lia|].
  specialize (IH Hc). lia.
Qed.

Lemma build_agree d t :
  forall fuel, agree d t -> NoDup (pre t) -> height t <= fuel -> build_tree d fuel (root t) = Some t.
Proof.
  induction t as [m cs IH] using dtree_nested_ind. intros fuel Ha Hnd Hh.
  destruct fuel as [|f]; [cbn [height] in Hh; lia|].
  destruct (agree_node d m cs Ha Hnd) as [Hadj Hcs].
  cbn [root]. rewrite build_tree_S, Hadj.
  assert (Hm : map_opt (build_tree d f) (map root cs) = Some cs).
  { cbn [pre] in Hnd. inversion Hnd as [|? ? _ Hnd']; subst. clear Hnd Ha Hadj.
    cbn [height] in Hh. apply le_S_n in Hh.
    induction IH as [|c r Hc _ IHr]; [reflexivity|].
    cbn [flat_map] in Hnd'. apply nodup_app in Hnd' as [H1 [H2 _]].
    cbn [fold_right] in Hh. cbn [map map_opt].
    rewrite Hc; [|apply Hcs; now left|assumption|lia].
    rewrite IHr; [reflexivity|lia| |assumption]. intros c' Hc'. apply Hcs. now right. }
  now rewrite Hm.
Qed.

Lemma height_le_pre t : height t <= length (pre t).
Proof.
  induction t as [m cs IH] using dtree_nested_ind. cbn [height pre length]. apply le_n_S.
  induction IH as [|c r Hc _ IHr]; [reflexivity|].
  cbn [fold_right flat_map]. rewrite app_length. lia.
Qed.

(** Main generic fact: if the recursive DFS from [h] yields the child trees [ts], then so does the
    networkx stack machine followed by the unfolding of its successor dictionary, provided the
    number of nodes is at least the number of nodes reached (fuel). *)
Theorem dfs_tree_R sc nn h V' ts k :
  R sc [h] (adj sc h) V' ts k -> length (pre (DNode h ts)) <= nn ->
  dfs_tree_of sc nn h = Some (DNode h ts).
Proof.
  intros HR Hlen.
  assert (Hnd : NoDup (pre (DNode h ts))).
  { pose proof (R_nodup _ _ _ _ _ _ HR) as Hn. rewrite (R_visited _ _ _ _ _ _ HR) in Hn.
    specialize (Hn (NoDup_cons h (@in_nil _ h) (NoDup_nil _))).
    apply NoDup_rev in Hn. rewrite rev_app_distr, rev_involutive in Hn. exact Hn. }
  pose proof (R_cost _ _ _ _ _ _ HR) as Hk.
  assert (Hfuel : S k <= nn + n_edges sc).
  { pose proof (wsum_dsum sc (pre (DNode h ts))) as Hw.
    change (wsum sc (pre (DNode h ts))) with (S (length (adj sc h)) + wsum sc (pre_l ts)) in Hw.
    pose proof (dsum_le sc _ Hnd). lia. }
  unfold dfs_tree_of.
  replace (nn + n_edges sc) with (k + S (nn + n_edges sc - S k)) by lia.
  rewrite (dfs_loop_R _ _ _ _ _ _ HR). cbn [dfs_loop app].
  replace (dfs_loop (nn + n_edges sc - S k) sc V' [] (edges_l h ts)) with (Some (edges_l h ts))
    by (destruct (nn + n_edges sc - S k); reflexivity).
  apply (build_agree _ (DNode h ts)).
  - intros n _. rewrite adj_dict_of_edges. now apply (out_of_edges n (DNode h ts)).
  - assumption.
  - pose proof (height_le_pre (DNode h ts)). lia.
Qed.

(* ------------------------------------------------------------------------------------------ *)
(** * (c) Soundness of the block-graph checker *)

Definition class_tokens (c : nclass) : list token :=
  match c with
  | CEv e brk => TEvent e :: brk_tokens brk
  | CLoop body brk => TRepeat :: print_seq body ++ TRepeatWhile :: brk_tokens brk
  | CStart XOR => [TSwitch; TCase]
  | CStart k => [opener k]
  | CEnd k => [closer k]
  | CKill => [TDetach]
  end.

Definition class_shape (c : nclass) : option kind :=
  match c with CStart k => Some k | _ => None end.

Definition print_segs (segs : list (kind * list blk)) : list token :=
  flat_map (fun ks => closer (fst ks) :: print_seq (snd ks)) segs.

(** branches with separators between them (the XOR [case] in front of the first branch belongs
    to the START operator's own text) *)
Definition seps (k : kind) (bs : list (list blk)) : list token :=
  match bs with [] => [] | b :: r => print_seq b ++ print_rest k r end.

Definition sep_if {A} (l : list A) (k : kind) : list token :=
  match l with [] => [] | _ :: _ => [separator k] end.

Lemma print_rest_app k a b : print_rest k (a ++ b) = print_rest k a ++ print_rest k b.
Proof. unfold print_rest. now rewrite flat_map_app. Qed.

Lemma seps_snoc k l a : seps k (l ++ [a]) = seps k l ++ sep_if l k ++ print_seq a.
Proof.
  destruct l as [|b r]; cbn [seps app sep_if].
  - unfold print_rest. cbn. now rewrite app_nil_r.
  - rewrite print_rest_app, print_rest_cons. unfold print_rest at 3. cbn [flat_map].
    rewrite app_nil_r, <- !app_assoc. reflexivity.
Qed.

Lemma print_fork_seps k b r :
  print_blk (Fork k (b :: r)) = class_tokens (CStart k) ++ seps k (b :: r) ++ [closer k].
Proof.
  rewrite print_blk_fork. destruct k.
  - rewrite print_branches_first by discriminate. reflexivity.
  - rewrite print_branches_first by discriminate. reflexivity.
  - rewrite print_branches_xor, print_rest_cons. reflexivity.
Qed.

Lemma concat_opt_app a b :
  concat_opt (a ++ b) =
  match concat_opt a, concat_opt b with Some x, Some y => Some (x ++ y) | _, _ => None end.
Proof.
  induction a as [|x a IH]; cbn [app concat_opt].
  - destruct (concat_opt b); reflexivity.
  - rewrite IH. destruct x; [|reflexivity]. destruct (concat_opt a); [|reflexivity].
    destruct (concat_opt b); [|reflexivity]. now rewrite app_assoc.
Qed.

Section WalkSound.
  Variable cls : list (nat * option nclass).
  Variable rend : list (nat * option (list token)).
  Variable shapes : list (nat * option kind).
  Hypothesis Htab : forall n c, class_of cls n = Some c ->
    render_onode rend (ONode n) = Some (class_tokens c) /\ shape_of shapes n = class_shape c.

  Definition rl (l : list onode) : option (list token) := concat_opt (map (render_onode rend) l).

  Lemma rl_app a b :
    rl (a ++ b) = match rl a, rl b with Some x, Some y => Some (x ++ y) | _, _ => None end.
  Proof. unfold rl. now rewrite map_app, concat_opt_app. Qed.

  Lemma print_tree_node n cs :
    print_tree rend shapes (DNode n cs) =
    match render_onode rend (ONode n),
          rl (interleave (shape_of shapes n) 0 (rev (map (order_tree shapes) cs))) with
    | Some a, Some b => Some (a ++ b)
    | _, _ => None
    end.
  Proof. unfold print_tree. rewrite order_tree_eq. reflexivity. Qed.

  Definition sound_at (t : dtree) : Prop :=
    forall s segs, walk cls t = Some (s, segs) ->
                   print_tree rend shapes t = Some (print_seq s ++ print_segs segs).

  Lemma next_sound n cs s1 segs :
    Forall sound_at cs -> shape_of shapes n = None ->
    match cs with [] => Some ([], []) | [c] => walk cls c | _ :: _ :: _ => None end = Some (s1, segs) ->
    rl (interleave (shape_of shapes n) 0 (rev (map (order_tree shapes) cs)))
    = Some (print_seq s1 ++ print_segs segs).
  Proof.
    intros Hcs Hsh Hn. rewrite Hsh. destruct cs as [|c [|c2 r]]; [| |discriminate].
    - injection Hn as <- <-. reflexivity.
    - inversion Hcs as [|? ? Hc _]; subst. specialize (Hc _ _ Hn).
      cbn [map rev app interleave path_nodes]. rewrite app_nil_r. exact Hc.
  Qed.

  Lemma others_sound k others ss :
    Forall sound_at others ->
    (fix go (l : list dtree) : option (list (list blk)) :=
       match l with
       | [] => Some []
       | o :: r => match walk cls o, go r with
                   | Some (s, []), Some acc => Some (s :: acc)
                   | _, _ => None
                   end
       end) others = Some ss ->
    rl (interleave (Some k) 0 (rev (map (order_tree shapes) others))) = Some (seps k (rev ss))
    /\ length ss = length others.
  Proof.
    intros Hall. revert ss. induction Hall as [|o r Ho _ IH]; intros ss Hgo.
    - injection Hgo as <-. split; reflexivity.
    - destruct (walk cls o) as [[s [|? ?]]|] eqn:Ew; try discriminate.
      match type of Hgo with match ?X with _ => _ end = _ => destruct X as [acc|] eqn:Eg end;
        [|discriminate].
      injection Hgo as <-. destruct (IH acc eq_refl) as [IH1 IH2]. split; [|cbn; now rewrite IH2].
      cbn [map rev]. rewrite interleave_snoc, !rl_app, IH1.
      rewrite rev_length, map_length, Nat.add_0_l.
      specialize (Ho _ _ Ew). unfold print_tree in Ho. unfold rl at 2. rewrite Ho.
      cbn [print_segs flat_map]. rewrite app_nil_r, seps_snoc.
      assert (Hp : rl (path_nodes (Some k) (length r)) = Some (sep_if (rev acc) k)).
      { rewrite <- IH2. destruct acc as [|a acc]; [reflexivity|].
        cbn [length path_nodes rev]. destruct (rev acc); destruct k; reflexivity. }
      rewrite Hp. reflexivity.
  Qed.

  Theorem walk_sound t : sound_at t.
  Proof.
    induction t as [n cs IH] using dtree_nested_ind. intros s segs Hw.
    cbn [walk] in Hw. rewrite print_tree_node.
    destruct (class_of cls n) as [c|] eqn:Ec; [|discriminate].
    destruct (Htab n c Ec) as [Hr Hs]. rewrite Hr.
    destruct c as [e brk|body brk|k|k|].
    - (* event *)
      unfold after_item in Hw.
      match type of Hw with match ?X with _ => _ end = _ => destruct X as [[s1 segs1]|] eqn:En end;
        [|discriminate].
      rewrite (next_sound n cs s1 segs1 IH Hs En).
      destruct brk.
      + destruct s1; [|discriminate]. injection Hw as <- <-. reflexivity.
      + injection Hw as <- <-. reflexivity.
    - (* loop *)
      unfold after_item in Hw.
      match type of Hw with match ?X with _ => _ end = _ => destruct X as [[s1 segs1]|] eqn:En end;
        [|discriminate].
      rewrite (next_sound n cs s1 segs1 IH Hs En).
      destruct brk.
      + destruct s1; [|discriminate]. injection Hw as <- <-.
        rewrite !print_seq_cons, print_blk_loop.
        cbn [class_tokens brk_tokens print_seq print_blk app].
        repeat first [rewrite <- app_assoc | progress cbn [app]]. reflexivity.
      + injection Hw as <- <-.
        rewrite !print_seq_cons, print_blk_loop.
        cbn [class_tokens brk_tokens print_seq print_blk app].
        repeat first [rewrite <- app_assoc | progress cbn [app]]. reflexivity.
    - (* START *)
      destruct cs as [|c others]; [discriminate|].
      destruct (walk cls c) as [[sn [|[k' s'] segs']]|] eqn:Ewc; try discriminate.
      destruct (kind_eqb k k') eqn:Ek; [|discriminate].
      assert (k' = k) by (destruct k, k'; try discriminate; reflexivity). subst k'.
      match type of Hw with match ?X with _ => _ end = _ => destruct X as [ss|] eqn:Eg end;
        [|discriminate].
      injection Hw as <- <-.
      inversion IH as [|? ? Hc Hothers]; subst.
      destruct (others_sound k others ss Hothers Eg) as [Ho Hlen].
      rewrite Hs. cbn [class_shape map rev]. rewrite interleave_snoc, !rl_app, Ho.
      rewrite rev_length, map_length, Nat.add_0_l.
      specialize (Hc _ _ Ewc). unfold print_tree in Hc. unfold rl at 2. rewrite Hc.
      assert (Hp : rl (path_nodes (Some k) (length others)) = Some (sep_if (rev ss) k)).
      { rewrite <- Hlen. destruct ss as [|a ss]; [reflexivity|].
        cbn [length path_nodes rev]. destruct (rev ss); destruct k; reflexivity. }
      rewrite Hp. f_equal.
      destruct (rev ss ++ [sn]) as [|b r] eqn:Eb; [destruct (rev ss); discriminate|].
      cbn [print_seq]. rewrite print_fork_seps, <- Eb, seps_snoc.
      cbn [print_segs flat_map fst snd]. rewrite <- !app_assoc. cbn [app]. reflexivity.
    - (* END *)
      match type of Hw with match ?X with _ => _ end = _ => destruct X as [[s1 segs1]|] eqn:En end;
        [|discriminate].
      rewrite (next_sound n cs s1 segs1 IH Hs En). injection Hw as <- <-. reflexivity.
    - (* kill *)
      unfold after_term in Hw.
      match type of Hw with match ?X with _ => _ end = _ => destruct X as [[s1 segs1]|] eqn:En end;
        [|discriminate].
      rewrite (next_sound n cs s1 segs1 IH Hs En).
      destruct s1; [|discriminate]. injection Hw as <- <-. reflexivity.
  Qed.
End WalkSound.
