(** Proofs about [Puml.Linearise] (the DFS printer of tel2puml/puml_graph.py). *)
From Coq Require Import List Bool PArith Arith Lia.
From V Require Import Puml.Ast Puml.Syntax Puml.Parse Puml.ParseProofs Puml.Linearise.
Import ListNotations.

(* ------------------------------------------------------------------------------------------ *)
(** * (a) [linearise] is a function of the DFS tree only *)

Fixpoint map_opt {A B : Type} (f : A -> option B) (l : list A) : option (list B) :=
  match l with
  | [] => Some []
  | x :: r => match f x, map_opt f r with Some a, Some b => Some (a :: b) | _, _ => None end
  end.

Lemma map_opt_app {A B} (f : A -> option B) l1 l2 :
  map_opt f (l1 ++ l2) =
  match map_opt f l1, map_opt f l2 with Some a, Some b => Some (a ++ b) | _, _ => None end.
Proof.
  induction l1 as [|x l1 IH]; cbn [map_opt app].
  - destruct (map_opt f l2); reflexivity.
  - rewrite IH. destruct (f x); [|reflexivity].
    destruct (map_opt f l1); [|reflexivity]. destruct (map_opt f l2); reflexivity.
Qed.

Lemma map_opt_rev {A B} (f : A -> option B) l :
  map_opt f (rev l) = option_map (@rev B) (map_opt f l).
Proof.
  induction l as [|x l IH]; [reflexivity|].
  cbn [rev map_opt]. rewrite map_opt_app, IH. cbn [map_opt].
  destruct (f x); destruct (map_opt f l); reflexivity.
Qed.

Lemma build_tree_S d f n :
  build_tree d (S f) n = option_map (DNode n) (map_opt (build_tree d f) (adj d n)).
Proof.
  cbn [build_tree]. f_equal. induction (adj d n) as [|s r IH]; [reflexivity|].
  cbn [map_opt]. rewrite <- IH. reflexivity.
Qed.

(** emitted children, given the emitted lists in emission order *)
Fixpoint interleave (sk : option kind) (i : nat) (l : list (list onode)) : list onode :=
  match l with
  | [] => []
  | a :: r => path_nodes sk i ++ a ++ interleave sk (S i) r
  end.

Lemma interleave_snoc sk i l a :
  interleave sk i (l ++ [a]) = interleave sk i l ++ path_nodes sk (i + length l) ++ a.
Proof.
  revert i. induction l as [|x l IH]; intros i; cbn [interleave app length].
  - rewrite Nat.add_0_r, app_nil_r. reflexivity.
  - rewrite IH. rewrite <- !app_assoc. replace (S i + length l) with (i + S (length l)) by lia.
    reflexivity.
Qed.

Lemma order_tree_eq shapes n cs :
  order_tree shapes (DNode n cs) =
  ONode n :: interleave (shape_of shapes n) 0 (rev (map (order_tree shapes) cs)).
Proof.
  cbn [order_tree]. f_equal.
  induction cs as [|c r IH]; [reflexivity|].
  rewrite IH. cbn [map rev]. rewrite interleave_snoc, rev_length, map_length. reflexivity.
Qed.

Lemma order_nodes_S shapes d f n :
  order_nodes shapes d (S f) n =
  option_map (fun l => ONode n :: interleave (shape_of shapes n) 0 l)
             (map_opt (order_nodes shapes d f) (rev (adj d n))).
Proof.
  cbn [order_nodes]. generalize (rev (adj d n)) as l. generalize 0 as i.
  intros i l. revert i. induction l as [|s r IH]; intros i; [reflexivity|].
  cbn [map_opt interleave]. specialize (IH (S i)).
  destruct (order_nodes shapes d f s) as [a|]; [|reflexivity].
  match goal with |- option_map _ (match ?X with _ => _ end) = _ => destruct X as [b|] eqn:E end.
  - destruct (map_opt (order_nodes shapes d f) r) as [bs|]; cbn in IH |- *; [|discriminate].
    injection IH as IH. rewrite IH. reflexivity.
  - destruct (map_opt (order_nodes shapes d f) r) as [bs|]; cbn in IH |- *; [discriminate|reflexivity].
Qed.

Lemma map_opt_ext {A B} (f g : A -> option B) l :
  (forall x, f x = g x) -> map_opt f l = map_opt g l.
Proof. intros H. induction l as [|x l IH]; cbn; [reflexivity|]. now rewrite H, IH. Qed.

Lemma map_opt_map {A B C} (f : A -> option B) (g : B -> C) l :
  map_opt (fun x => option_map g (f x)) l = option_map (map g) (map_opt f l).
Proof.
  induction l as [|x l IH]; cbn; [reflexivity|]. rewrite IH.
  destruct (f x); cbn; [|reflexivity]. destruct (map_opt f l); reflexivity.
Qed.

(** the recursive walk over the successor dictionary = unfold the dictionary into a tree, then
    walk the tree structurally *)
Lemma order_nodes_build shapes d fuel n :
  order_nodes shapes d fuel n = option_map (order_tree shapes) (build_tree d fuel n).
Proof.
  revert n. induction fuel as [|f IH]; intros n; [reflexivity|].
  rewrite order_nodes_S, build_tree_S.
  rewrite (map_opt_ext _ _ _ IH), map_opt_map, map_opt_rev.
  destruct (map_opt (build_tree d f) (adj d n)) as [ts|]; cbn [option_map]; [|reflexivity].
  rewrite order_tree_eq, map_rev. reflexivity.
Qed.

Theorem blocks_with_tree rend shapes sc nn h :
  blocks_with rend shapes sc nn h =
  match nn with
  | O => Some []
  | S _ => match dfs_tree_of sc nn h with
           | Some t => print_tree rend shapes t
           | None => None
           end
  end.
Proof.
  unfold blocks_with, dfs_tree_of. destruct nn as [|m]; [reflexivity|].
  destruct (dfs_loop _ _ _ _ _) as [es|]; [|reflexivity].
  rewrite order_nodes_build. unfold print_tree.
  destruct (build_tree _ _ _); reflexivity.
Qed.

Lemma render_nodes_fix ns :
  (fix go (l : list (nat * pnode)) : list (nat * option (list token)) :=
     match l with
     | [] => []
     | p :: r => match p with (i, x) => (i, lin_node x) :: go r end
     end) ns = render_nodes ns.
Proof. induction ns as [|[i x] r IH]; [reflexivity|]. cbn [render_nodes map fst snd]. now rewrite IH. Qed.

Lemma lin_node_loop g brk :
  lin_node (PLoop g brk) =
  option_map (fun b => TRepeat :: b ++ TRepeatWhile :: brk_tokens brk) (lin_blocks g).
Proof. destruct g as [ns sc h]. cbn [lin_node]. rewrite render_nodes_fix. reflexivity. Qed.

Lemma lin_node_sub g brk :
  lin_node (PSub g brk) = option_map (fun b => b ++ brk_tokens brk) (lin_blocks g).
Proof. destruct g as [ns sc h]. cbn [lin_node]. rewrite render_nodes_fix. reflexivity. Qed.

Definition wrap (name : positive) (b : list token) : list token :=
  [TStartUml; TPartition name; TGroup name] ++ b ++ [TEndGroup; TClose; TEndUml].

(** the blocks of a graph are the structural print of its DFS tree ([None] on both sides when
    the DFS or the unfolding runs out of fuel) *)
Theorem lin_blocks_tree g :
  lin_blocks g =
  match g_nodes g with
  | [] => Some []
  | _ :: _ => match dfs_tree g with
              | Some t => print_tree (render_nodes (g_nodes g)) (shapes_of (g_nodes g)) t
              | None => None
              end
  end.
Proof.
  unfold lin_blocks, dfs_tree. rewrite blocks_with_tree.
  destruct (g_nodes g); reflexivity.
Qed.

Theorem linearise_tree name g :
  linearise name g =
  option_map (wrap name)
    match g_nodes g with
    | [] => Some []
    | _ :: _ => match dfs_tree g with
                | Some t => print_tree (render_nodes (g_nodes g)) (shapes_of (g_nodes g)) t
                | None => None
                end
    end.
Proof. unfold linearise. rewrite lin_blocks_tree. reflexivity. Qed.
