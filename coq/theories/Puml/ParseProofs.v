(** Correctness of [Puml.Parse]: a successful parse is a certificate of grammar membership.
      parse ts = Some (n, d)  <->  ts = print n d /\ wf d = true. *)
From Coq Require Import List Bool PArith Lia.
From V Require Import Puml.Ast Puml.Syntax Puml.Parse.
Import ListNotations.

(* ------------------------------------------------------------------------------------------ *)
(** * Nested induction principle for [blk] *)

Section BlkInd.
  Variable P : blk -> Prop.
  Hypothesis HEv : forall e, P (Ev e).
  Hypothesis HFork : forall k bs, Forall (Forall P) bs -> P (Fork k bs).
  Hypothesis HLoop : forall body, Forall P body -> P (Loop body).
  Hypothesis HBreak : P Break.
  Hypothesis HDetach : P Detach.

  Fixpoint blk_nested_ind (b : blk) : P b :=
    let seq_ind := fix go (s : list blk) : Forall P s :=
        match s with
        | [] => Forall_nil P
        | b' :: r => Forall_cons b' (blk_nested_ind b') (go r)
        end in
    match b with
    | Ev e => HEv e
    | Fork k bs =>
        HFork k bs
          ((fix gos (l : list (list blk)) : Forall (Forall P) l :=
              match l with
              | [] => Forall_nil (Forall P)
              | s :: r => Forall_cons s (seq_ind s) (gos r)
              end) bs)
    | Loop body => HLoop body (seq_ind body)
    | Break => HBreak
    | Detach => HDetach
    end.
End BlkInd.

(* ------------------------------------------------------------------------------------------ *)
(** * Unfolding lemmas for the nested fixpoints of [Ast] and [Syntax] *)

Definition wf_branch (s : list blk) : bool := nonempty s && wf_seq s.

Lemma wf_blk_fork k bs : wf_blk (Fork k bs) = nonempty bs && forallb wf_branch bs.
Proof. reflexivity. Qed.

Lemma wf_blk_loop body : wf_blk (Loop body) = nonempty body && wf_seq body.
Proof. reflexivity. Qed.

Lemma wf_seq_cons b r :
  is_terminator b = false -> wf_seq (b :: r) = wf_blk b && wf_seq r.
Proof.
  intros Hb. destruct r as [|b2 r].
  - cbn [wf_seq]. now rewrite andb_true_r.
  - change (wf_seq (b :: b2 :: r))
      with (negb (is_terminator b) && wf_blk b && wf_seq (b2 :: r)).
    now rewrite Hb.
Qed.

Lemma wf_seq_inv b r :
  wf_seq (b :: r) = true ->
  wf_blk b = true /\ wf_seq r = true /\ (is_terminator b = true -> r = []).
Proof.
  intros H. destruct r as [|b2 r].
  - cbn [wf_seq] in H. auto.
  - change (wf_seq (b :: b2 :: r))
      with (negb (is_terminator b) && wf_blk b && wf_seq (b2 :: r)) in H.
    apply andb_true_iff in H. destruct H as [H H3].
    apply andb_true_iff in H. destruct H as [H1 H2].
    repeat split; auto.
    intros Ht. rewrite Ht in H1. discriminate.
Qed.

(** branches of a fork after the first one (AND/OR), or all of them (XOR) *)
Definition print_rest (k : kind) (bs : list (list blk)) : list token :=
  flat_map (fun s => separator k :: print_seq s) bs.

Definition print_branches (k : kind) : bool -> list (list blk) -> list token :=
  fix branches (first : bool) (l : list (list blk)) : list token :=
    match l with
    | [] => []
    | s :: r =>
        (match k, first with
         | XOR, _ => [TCase]
         | _, true => []
         | _, false => [separator k]
         end) ++ print_seq s ++ branches false r
    end.

Lemma print_blk_fork k bs :
  print_blk (Fork k bs) = opener k :: print_branches k true bs ++ [closer k].
Proof. reflexivity. Qed.

Lemma print_blk_loop body : print_blk (Loop body) = TRepeat :: print_seq body ++ [TRepeatWhile].
Proof. reflexivity. Qed.

Lemma print_branches_false k bs : print_branches k false bs = print_rest k bs.
Proof.
  induction bs as [|s bs IH]; [reflexivity|].
  cbn [print_branches print_rest flat_map]. fold (print_rest k bs). rewrite IH.
  destruct k; reflexivity.
Qed.

Lemma print_branches_xor bs : print_branches XOR true bs = print_rest XOR bs.
Proof.
  destruct bs as [|s bs]; [reflexivity|].
  cbn [print_branches print_rest flat_map]. fold (print_rest XOR bs).
  now rewrite print_branches_false.
Qed.

Lemma print_branches_first k s bs :
  k <> XOR -> print_branches k true (s :: bs) = print_seq s ++ print_rest k bs.
Proof.
  intros Hk. cbn [print_branches]. rewrite print_branches_false.
  destruct k; try reflexivity. now elim Hk.
Qed.

Lemma print_rest_cons k s bs :
  print_rest k (s :: bs) = separator k :: print_seq s ++ print_rest k bs.
Proof. reflexivity. Qed.

Lemma print_seq_cons b r : print_seq (b :: r) = print_blk b ++ print_seq r.
Proof. reflexivity. Qed.

Lemma is_closer_closer k : is_closer k (closer k) = true.
Proof. destruct k; reflexivity. Qed.

Lemma is_closer_separator k : is_closer k (separator k) = false.
Proof. destruct k; reflexivity. Qed.

Lemma is_separator_separator k : is_separator k (separator k) = true.
Proof. destruct k; reflexivity. Qed.

Lemma is_closer_spec k t : is_closer k t = true -> t = closer k.
Proof. destruct k, t; cbn; intros H; try discriminate; reflexivity. Qed.

Lemma is_separator_spec k t : is_separator k t = true -> t = separator k.
Proof. destruct k, t; cbn; intros H; try discriminate; reflexivity. Qed.

Lemma nonempty_true {A} (l : list A) : nonempty l = true -> l <> [].
Proof. destruct l; [discriminate|]. intros _ H. discriminate. Qed.

Lemma is_footer_spec r : is_footer r = true <-> r = [TEndGroup; TClose; TEndUml].
Proof.
  split.
  - intros H.
    destruct r as [|t0 r]; [discriminate|]. destruct t0; try discriminate.
    destruct r as [|t1 r]; [discriminate|]. destruct t1; try discriminate.
    destruct r as [|t2 r]; [discriminate|]. destruct t2; try discriminate.
    destruct r as [|t3 r]; [reflexivity|discriminate].
  - intros ->. reflexivity.
Qed.

Lemma parse_seq_S f ts :
  parse_seq (S f) ts =
  match ts with
  | [] => Some ([], [])
  | t :: r =>
      match parse_item (parse_seq f) (parse_branches f) t r with
      | IErr => None
      | IStop => Some ([], ts)
      | ILast b r' => Some ([b], r')
      | IBlk b r' =>
          match parse_seq f r' with
          | Some (s, r'') => Some (b :: s, r'')
          | None => None
          end
      end
  end.
Proof. reflexivity. Qed.

Lemma parse_branches_S f k ts :
  parse_branches (S f) k ts =
  match ts with
  | [] => None
  | t :: r =>
      if is_closer k t then Some ([], r)
      else if is_separator k t then
        match parse_seq f r with
        | Some (s, r1) =>
            if nonempty s then
              match parse_branches f k r1 with
              | Some (bs, r2) => Some (s :: bs, r2)
              | None => None
              end
            else None
        | None => None
        end
      else None
  end.
Proof. reflexivity. Qed.

(* ------------------------------------------------------------------------------------------ *)
(** * Soundness *)

Definition seq_sound (pseq : list token -> option (list blk * list token)) : Prop :=
  forall ts s r, pseq ts = Some (s, r) -> ts = print_seq s ++ r /\ wf_seq s = true.

Definition br_sound (pbr : kind -> list token -> option (list (list blk) * list token)) : Prop :=
  forall k ts bs r,
    pbr k ts = Some (bs, r) ->
    ts = print_rest k bs ++ closer k :: r /\ forallb wf_branch bs = true.

Definition item_sound (t : token) (r : list token) (i : item) : Prop :=
  match i with
  | IErr | IStop => True
  | ILast b r' => t :: r = print_blk b ++ r' /\ wf_blk b = true
  | IBlk b r' => t :: r = print_blk b ++ r' /\ wf_blk b = true /\ is_terminator b = false
  end.

Section ItemSound.
  Variable pseq : list token -> option (list blk * list token).
  Variable pbr : kind -> list token -> option (list (list blk) * list token).
  Hypothesis Hseq : seq_sound pseq.
  Hypothesis Hbr : br_sound pbr.

  Lemma parse_fork_sound k r :
    item_sound (opener k) r (parse_fork pseq pbr k r).
  Proof.
    assert (Hgen : k <> XOR ->
      item_sound (opener k) r
        (match pseq r with
         | Some (s, r1) =>
             if nonempty s then
               match pbr k r1 with
               | Some (bs, r') => IBlk (Fork k (s :: bs)) r'
               | None => IErr
               end
             else IErr
         | None => IErr
         end)).
    { intros Hk.
      destruct (pseq r) as [[s r1]|] eqn:Es; [|exact I].
      destruct (nonempty s) eqn:En; [|exact I].
      destruct (pbr k r1) as [[bs r']|] eqn:Eb; [|exact I].
      apply Hseq in Es. destruct Es as [-> Hws].
      apply Hbr in Eb. destruct Eb as [-> Hwb].
      cbn [item_sound]. repeat split.
      - rewrite print_blk_fork, print_branches_first by exact Hk.
        cbn [app]. f_equal. rewrite <- !app_assoc. reflexivity.
      - rewrite wf_blk_fork. cbn [nonempty forallb andb].
        unfold wf_branch at 1. now rewrite En, Hws, Hwb. }
    destruct k.
    - apply Hgen. discriminate.
    - apply Hgen. discriminate.
    - cbn [parse_fork].
      destruct (pbr XOR r) as [[bs r']|] eqn:Eb; [|exact I].
      destruct (nonempty bs) eqn:En; [|exact I].
      apply Hbr in Eb. destruct Eb as [-> Hwb].
      cbn [item_sound]. repeat split.
      + rewrite print_blk_fork, print_branches_xor.
        cbn [app opener]. f_equal. rewrite <- app_assoc. reflexivity.
      + rewrite wf_blk_fork. now rewrite En, Hwb.
  Qed.

  Lemma parse_item_sound t r : item_sound t r (parse_item pseq pbr t r).
  Proof.
    destruct t; cbn [parse_item]; try exact I;
      try (cbn [item_sound]; repeat split; reflexivity).
    - exact (parse_fork_sound XOR r).
    - exact (parse_fork_sound AND r).
    - exact (parse_fork_sound OR r).
    - (* TRepeat *)
      destruct (pseq r) as [[body r1]|] eqn:Es; [|exact I].
      destruct (nonempty body) eqn:En; [|exact I].
      destruct r1 as [|t1 r2]; [exact I|].
      destruct t1; try exact I.
      apply Hseq in Es. destruct Es as [-> Hws].
      cbn [item_sound]. repeat split.
      + rewrite print_blk_loop. cbn [app]. f_equal.
        rewrite <- app_assoc. reflexivity.
      + rewrite wf_blk_loop. now rewrite En, Hws.
  Qed.
End ItemSound.

Lemma parse_fuel_sound f : seq_sound (parse_seq f) /\ br_sound (parse_branches f).
Proof.
  induction f as [|f [IHs IHb]].
  - split.
    + intros ts s r H. discriminate.
    + intros k ts bs r H. discriminate.
  - split.
    + intros ts s r H. rewrite parse_seq_S in H.
      destruct ts as [|t ts'].
      { injection H as <- <-. split; reflexivity. }
      pose proof (parse_item_sound _ _ IHs IHb t ts') as Hi.
      destruct (parse_item (parse_seq f) (parse_branches f) t ts') as [| |b r'|b r'].
      * discriminate.
      * injection H as <- <-. split; reflexivity.
      * injection H as <- <-. cbn [item_sound] in Hi. destruct Hi as [Hi Hw].
        split.
        -- rewrite Hi. cbn [print_seq]. now rewrite app_nil_r.
        -- exact Hw.
      * cbn [item_sound] in Hi. destruct Hi as [Hi [Hw Ht]].
        destruct (parse_seq f r') as [[s' r'']|] eqn:Es; [|discriminate].
        injection H as <- <-.
        apply IHs in Es. destruct Es as [-> Hws].
        split.
        -- rewrite Hi, print_seq_cons, app_assoc. reflexivity.
        -- rewrite wf_seq_cons by exact Ht. now rewrite Hw, Hws.
    + intros k ts bs r H. rewrite parse_branches_S in H.
      destruct ts as [|t ts']; [discriminate|].
      destruct (is_closer k t) eqn:Ec.
      { injection H as <- <-. apply is_closer_spec in Ec. subst t.
        split; reflexivity. }
      destruct (is_separator k t) eqn:Esep; [|discriminate].
      destruct (parse_seq f ts') as [[s r1]|] eqn:Es; [|discriminate].
      destruct (nonempty s) eqn:En; [|discriminate].
      destruct (parse_branches f k r1) as [[bs' r2]|] eqn:Eb; [|discriminate].
      injection H as <- <-.
      apply is_separator_spec in Esep. subst t.
      apply IHs in Es. destruct Es as [-> Hws].
      apply IHb in Eb. destruct Eb as [-> Hwb].
      split.
      * rewrite print_rest_cons. cbn [app]. f_equal.
        rewrite <- app_assoc. reflexivity.
      * cbn [forallb]. unfold wf_branch at 1. now rewrite En, Hws, Hwb.
Qed.

Theorem parse_sound :
  forall ts n d, parse ts = Some (n, d) -> ts = print n d /\ wf d = true.
Proof.
  intros ts n d H. unfold parse in H.
  destruct ts as [|t0 ts]; [discriminate|]. destruct t0; try discriminate.
  destruct ts as [|t1 ts]; [discriminate|]. destruct t1; try discriminate.
  destruct ts as [|t2 ts]; [discriminate|]. destruct t2; try discriminate.
  destruct (Pos.eqb name name0) eqn:En; [|discriminate].
  apply Pos.eqb_eq in En. subst name0.
  destruct (parse_seq (S (length ts)) ts) as [[d' r']|] eqn:Es; [|discriminate].
  destruct (is_footer r') eqn:Ef; [|discriminate].
  injection H as <- <-.
  apply is_footer_spec in Ef. subst r'.
  apply (proj1 (parse_fuel_sound _)) in Es. destruct Es as [-> Hw].
  split; [reflexivity|exact Hw].
Qed.

(* ------------------------------------------------------------------------------------------ *)
(** * Completeness *)

Definition is_stop (t : token) : bool :=
  match t with
  | TEvent _ | TBreak | TDetach | TRepeat | TFork | TSplit | TSwitch => false
  | _ => true
  end.

Definition stop_head (ts : list token) : bool :=
  match ts with [] => true | t :: _ => is_stop t end.

Lemma parse_seq_stop f rest : stop_head rest = true -> parse_seq (S f) rest = Some ([], rest).
Proof.
  intros H. rewrite parse_seq_S.
  destruct rest as [|t r]; [reflexivity|].
  destruct t; try discriminate; reflexivity.
Qed.

Lemma stop_head_rest k bs rest : stop_head (print_rest k bs ++ closer k :: rest) = true.
Proof. destruct bs as [|s bs]; destruct k; reflexivity. Qed.

Definition seq_complete (n : nat) (pseq : list token -> option (list blk * list token)) : Prop :=
  forall s rest,
    length (print_seq s ++ rest) < n -> wf_seq s = true -> stop_head rest = true ->
    pseq (print_seq s ++ rest) = Some (s, rest).

Definition br_complete (n : nat)
    (pbr : kind -> list token -> option (list (list blk) * list token)) : Prop :=
  forall k bs rest,
    length (print_rest k bs ++ closer k :: rest) < n -> forallb wf_branch bs = true ->
    pbr k (print_rest k bs ++ closer k :: rest) = Some (bs, rest).

Section ItemComplete.
  Variable n : nat.
  Variable pseq : list token -> option (list blk * list token).
  Variable pbr : kind -> list token -> option (list (list blk) * list token).
  Hypothesis Hseq : seq_complete n pseq.
  Hypothesis Hbr : br_complete n pbr.

  Lemma parse_fork_complete k bs rest :
    length (print_branches k true bs ++ closer k :: rest) < n ->
    wf_blk (Fork k bs) = true ->
    parse_fork pseq pbr k (print_branches k true bs ++ closer k :: rest)
    = IBlk (Fork k bs) rest.
  Proof.
    intros Hlen Hwf. rewrite wf_blk_fork in Hwf.
    apply andb_true_iff in Hwf. destruct Hwf as [Hne Hall].
    assert (Hgen : k <> XOR ->
      match pseq (print_branches k true bs ++ closer k :: rest) with
      | Some (s, r1) =>
          if nonempty s then
            match pbr k r1 with
            | Some (bs, r') => IBlk (Fork k (s :: bs)) r'
            | None => IErr
            end
          else IErr
      | None => IErr
      end = IBlk (Fork k bs) rest).
    { intros Hk. destruct bs as [|s bs]; [discriminate|].
      rewrite print_branches_first in * by exact Hk.
      cbn [forallb] in Hall. apply andb_true_iff in Hall. destruct Hall as [Hs Hall].
      unfold wf_branch in Hs. apply andb_true_iff in Hs. destruct Hs as [Hsn Hsw].
      rewrite <- app_assoc in *.
      rewrite Hseq; [| exact Hlen | exact Hsw | apply stop_head_rest].
      rewrite Hsn.
      rewrite Hbr; [reflexivity | | exact Hall].
      rewrite app_length in Hlen. lia. }
    destruct k.
    - apply Hgen. discriminate.
    - apply Hgen. discriminate.
    - cbn [parse_fork]. rewrite print_branches_xor in *.
      rewrite Hbr; [| exact Hlen | exact Hall].
      now rewrite Hne.
  Qed.

  Lemma parse_item_complete b rest t r :
    print_blk b ++ rest = t :: r ->
    length r < n ->
    wf_blk b = true ->
    parse_item pseq pbr t r = if is_terminator b then ILast b rest else IBlk b rest.
  Proof.
    intros Heq Hlen Hwf. destruct b as [e|k bs|body| |].
    - cbn in Heq. injection Heq as <- <-. reflexivity.
    - rewrite print_blk_fork in Heq. cbn [app] in Heq. injection Heq as <- <-.
      rewrite <- app_assoc in *. cbn [app] in *.
      pose proof (parse_fork_complete k bs rest Hlen Hwf) as H.
      destruct k; exact H.
    - rewrite print_blk_loop in Heq. cbn [app] in Heq. injection Heq as <- <-.
      rewrite wf_blk_loop in Hwf. apply andb_true_iff in Hwf. destruct Hwf as [Hne Hw].
      rewrite <- app_assoc in *. cbn [app] in *.
      cbn [parse_item is_terminator].
      rewrite Hseq; [| exact Hlen | exact Hw | reflexivity].
      now rewrite Hne.
    - cbn in Heq. injection Heq as <- <-. reflexivity.
    - cbn in Heq. injection Heq as <- <-. reflexivity.
  Qed.
End ItemComplete.

Lemma print_blk_nonempty b : exists t r, print_blk b = t :: r.
Proof.
  destruct b as [e|k bs|body| |].
  - now exists (TEvent e), [].
  - rewrite print_blk_fork. eauto.
  - rewrite print_blk_loop. eauto.
  - now exists TBreak, [].
  - now exists TDetach, [].
Qed.

Lemma parse_fuel_complete f : seq_complete f (parse_seq f) /\ br_complete f (parse_branches f).
Proof.
  induction f as [|f [IHs IHb]].
  - split.
    + intros s rest H. inversion H.
    + intros k bs rest H. inversion H.
  - split.
    + intros s rest Hlen Hwf Hstop.
      destruct s as [|b s].
      { cbn [print_seq app]. apply parse_seq_stop. exact Hstop. }
      apply wf_seq_inv in Hwf. destruct Hwf as [Hwb [Hws Hterm]].
      rewrite print_seq_cons, <- app_assoc in *.
      destruct (print_blk_nonempty b) as [t [r Hb]].
      assert (Heq : print_blk b ++ print_seq s ++ rest = t :: r ++ print_seq s ++ rest)
        by now rewrite Hb.
      rewrite Heq in Hlen. cbn [length] in Hlen.
      rewrite Heq, parse_seq_S.
      rewrite (parse_item_complete f _ _ IHs IHb b (print_seq s ++ rest) t _ Heq)
        by (exact Hwb || lia).
      destruct (is_terminator b) eqn:Et.
      * rewrite (Hterm eq_refl). reflexivity.
      * rewrite IHs; [reflexivity | | exact Hws | exact Hstop].
        rewrite app_length in Hlen. lia.
    + intros k bs rest Hlen Hall. rewrite parse_branches_S.
      destruct bs as [|s bs].
      { cbn [print_rest flat_map app]. now rewrite is_closer_closer. }
      rewrite print_rest_cons in *. cbn [app] in *. cbn [length] in Hlen.
      rewrite is_closer_separator, is_separator_separator.
      cbn [forallb] in Hall. apply andb_true_iff in Hall. destruct Hall as [Hs Hall].
      unfold wf_branch in Hs. apply andb_true_iff in Hs. destruct Hs as [Hsn Hsw].
      rewrite <- app_assoc in *.
      rewrite IHs; [| lia | exact Hsw | apply stop_head_rest].
      rewrite Hsn.
      rewrite IHb; [reflexivity | | exact Hall].
      rewrite app_length in Hlen. lia.
Qed.

Theorem parse_print : forall n d, wf d = true -> parse (print n d) = Some (n, d).
Proof.
  intros n d Hwf. unfold print, parse. cbn [app].
  rewrite Pos.eqb_refl.
  rewrite (proj1 (parse_fuel_complete _)); [reflexivity | lia | exact Hwf | reflexivity].
Qed.

Theorem parse_iff :
  forall ts n d, parse ts = Some (n, d) <-> ts = print n d /\ wf d = true.
Proof.
  intros ts n d. split.
  - apply parse_sound.
  - intros [-> Hwf]. now apply parse_print.
Qed.

Corollary print_inj :
  forall n d n' d',
    wf d = true -> wf d' = true -> print n d = print n' d' -> n = n' /\ d = d'.
Proof.
  intros n d n' d' Hd Hd' Heq.
  pose proof (parse_print n d Hd) as H1.
  pose proof (parse_print n' d' Hd') as H2.
  rewrite Heq, H2 in H1. injection H1 as <- <-. split; reflexivity.
Qed.

Corollary parse_unique :
  forall ts n d n' d',
    parse ts = Some (n, d) -> parse ts = Some (n', d') -> n = n' /\ d = d'.
Proof.
  intros ts n d n' d' H1 H2. rewrite H1 in H2. injection H2 as <- <-. split; reflexivity.
Qed.

(* ------------------------------------------------------------------------------------------ *)
(** * Events *)

Definition tok_events (ts : list token) : list evt :=
  flat_map (fun t => match t with TEvent e => [e] | _ => [] end) ts.

Lemma tok_events_app a b : tok_events (a ++ b) = tok_events a ++ tok_events b.
Proof. apply flat_map_app. Qed.

Lemma tok_events_cons t ts : tok_events (t :: ts) = tok_events [t] ++ tok_events ts.
Proof. unfold tok_events. cbn [flat_map]. now rewrite app_nil_r. Qed.

Lemma events_blk_fork k bs :
  events_blk (Fork k bs) = flat_map (fun s => flat_map events_blk s) bs.
Proof. reflexivity. Qed.

Lemma events_blk_loop body : events_blk (Loop body) = flat_map events_blk body.
Proof. reflexivity. Qed.

Lemma tok_events_seq s :
  Forall (fun b => tok_events (print_blk b) = events_blk b) s ->
  tok_events (print_seq s) = flat_map events_blk s.
Proof.
  induction 1 as [|b s Hb _ IH]; [reflexivity|].
  rewrite print_seq_cons, tok_events_app, Hb, IH. reflexivity.
Qed.

Lemma tok_events_rest k bs :
  Forall (Forall (fun b => tok_events (print_blk b) = events_blk b)) bs ->
  tok_events (print_rest k bs) = flat_map (fun s => flat_map events_blk s) bs.
Proof.
  induction 1 as [|s bs Hs _ IH]; [reflexivity|].
  rewrite print_rest_cons.
  rewrite tok_events_cons, tok_events_app, (tok_events_seq s Hs), IH.
  destruct k; reflexivity.
Qed.

Lemma tok_events_blk b : tok_events (print_blk b) = events_blk b.
Proof.
  induction b as [e|k bs IH|body IH| |] using blk_nested_ind; try reflexivity.
  - rewrite print_blk_fork, events_blk_fork.
    rewrite tok_events_cons, tok_events_app.
    assert (Hb : tok_events (print_branches k true bs)
                 = flat_map (fun s => flat_map events_blk s) bs).
    { destruct k.
      - destruct bs as [|s bs]; [reflexivity|].
        rewrite print_branches_first by discriminate.
        inversion IH as [|s' bs' Hs Hbs]; subst.
        rewrite tok_events_app, (tok_events_seq s Hs), (tok_events_rest AND bs Hbs).
        reflexivity.
      - destruct bs as [|s bs]; [reflexivity|].
        rewrite print_branches_first by discriminate.
        inversion IH as [|s' bs' Hs Hbs]; subst.
        rewrite tok_events_app, (tok_events_seq s Hs), (tok_events_rest OR bs Hbs).
        reflexivity.
      - rewrite print_branches_xor. apply tok_events_rest. exact IH. }
    rewrite Hb. destruct k; cbn; now rewrite app_nil_r.
  - rewrite print_blk_loop, events_blk_loop.
    change (tok_events (TRepeat :: print_seq body ++ [TRepeatWhile]))
      with (tok_events (print_seq body ++ [TRepeatWhile])).
    rewrite tok_events_app, (tok_events_seq body IH). cbn. now rewrite app_nil_r.
Qed.

Lemma tok_events_print n d : tok_events (print n d) = events_of d.
Proof.
  unfold print. rewrite !tok_events_app.
  change (tok_events [TStartUml; TPartition n; TGroup n]) with (@nil evt).
  change (tok_events [TEndGroup; TClose; TEndUml]) with (@nil evt).
  cbn [app]. rewrite app_nil_r. unfold events_of.
  apply tok_events_seq. apply Forall_forall. intros b _. apply tok_events_blk.
Qed.

Theorem events_preserved :
  forall ts n d,
    parse ts = Some (n, d) ->
    events_of d = flat_map (fun t => match t with TEvent e => [e] | _ => [] end) ts.
Proof.
  intros ts n d H. apply parse_sound in H. destruct H as [-> _].
  symmetry. apply tok_events_print.
Qed.

(* ------------------------------------------------------------------------------------------ *)
(** * Examples *)

(** nested fork kinds, a loop containing an XOR with an [Ev; Break] branch, a detach at the end
    of an AND branch *)
Definition ex_diagram : diagram :=
  [ Ev 1;
    Fork AND
      [ [Ev 2; Fork OR [[Ev 3]; [Ev 4; Fork XOR [[Ev 5]; [Ev 6]]]]];
        [Ev 7; Detach] ];
    Loop [ Ev 8; Fork XOR [[Ev 9; Break]; [Ev 10]]; Ev 11 ];
    Fork XOR [[Ev 12]];
    Ev 13 ]%positive.

Example ex_wf : wf ex_diagram = true.
Proof. vm_compute. reflexivity. Qed.

Example ex_roundtrip : parse (print 42 ex_diagram) = Some (42%positive, ex_diagram).
Proof. vm_compute. reflexivity. Qed.

Example ex_tokens :
  print 42 ex_diagram =
  [ TStartUml; TPartition 42; TGroup 42;
    TEvent 1;
    TFork;
      TEvent 2; TSplit; TEvent 3; TSplitAgain; TEvent 4;
        TSwitch; TCase; TEvent 5; TCase; TEvent 6; TEndSwitch; TEndSplit;
    TForkAgain;
      TEvent 7; TDetach;
    TEndFork;
    TRepeat;
      TEvent 8; TSwitch; TCase; TEvent 9; TBreak; TCase; TEvent 10; TEndSwitch; TEvent 11;
    TRepeatWhile;
    TSwitch; TCase; TEvent 12; TEndSwitch;
    TEvent 13;
    TEndGroup; TClose; TEndUml ]%positive.
Proof. vm_compute. reflexivity. Qed.

Example ex_events :
  events_of ex_diagram = [1; 2; 3; 4; 5; 6; 7; 8; 9; 10; 11; 12; 13]%positive.
Proof. vm_compute. reflexivity. Qed.

(** empty diagram, and a break as the last top-level item, are well-formed and round-trip *)
Example ex_empty : parse (print 1 []) = Some (1%positive, []).
Proof. vm_compute. reflexivity. Qed.

Example ex_top_break : parse (print 1 [Ev 1; Break]%positive) = Some (1%positive, [Ev 1; Break]%positive).
Proof. vm_compute. reflexivity. Qed.

(** a one-branch fork is accepted ([wf] allows it) *)
Example ex_single_branch :
  parse [TStartUml; TPartition 1; TGroup 1; TFork; TEvent 1; TEndFork; TEndGroup; TClose; TEndUml]%positive
  = Some (1%positive, [Fork AND [[Ev 1]]]%positive).
Proof. vm_compute. reflexivity. Qed.

Definition wrap (ts : list token) : list token :=
  [TStartUml; TPartition 1; TGroup 1]%positive ++ ts ++ [TEndGroup; TClose; TEndUml].

(** malformed inputs, each rejected for a different reason *)
Example rej_missing_closer :
  parse (wrap [TFork; TEvent 1; TForkAgain; TEvent 2]%positive) = None.
Proof. vm_compute. reflexivity. Qed.

Example rej_wrong_closer :
  parse (wrap [TFork; TEvent 1; TForkAgain; TEvent 2; TEndSplit]%positive) = None.
Proof. vm_compute. reflexivity. Qed.

Example rej_foreign_separator :
  parse (wrap [TFork; TEvent 1; TSplitAgain; TEvent 2; TEndFork]%positive) = None.
Proof. vm_compute. reflexivity. Qed.

Example rej_case_outside_switch :
  parse (wrap [TEvent 1; TCase; TEvent 2]%positive) = None.
Proof. vm_compute. reflexivity. Qed.

Example rej_repeat_while_without_repeat :
  parse (wrap [TEvent 1; TRepeatWhile]%positive) = None.
Proof. vm_compute. reflexivity. Qed.

Example rej_break_in_middle :
  parse (wrap [TRepeat; TEvent 1; TBreak; TEvent 2; TRepeatWhile]%positive) = None.
Proof. vm_compute. reflexivity. Qed.

Example rej_detach_in_middle_top :
  parse (wrap [TEvent 1; TDetach; TEvent 2]%positive) = None.
Proof. vm_compute. reflexivity. Qed.

Example rej_empty_branch :
  parse (wrap [TSwitch; TCase; TEvent 1; TCase; TEndSwitch]%positive) = None.
Proof. vm_compute. reflexivity. Qed.

Example rej_empty_first_branch :
  parse (wrap [TFork; TForkAgain; TEvent 1; TEndFork]%positive) = None.
Proof. vm_compute. reflexivity. Qed.

Example rej_switch_without_case :
  parse (wrap [TSwitch; TEndSwitch]%positive) = None.
Proof. vm_compute. reflexivity. Qed.

Example rej_switch_first_branch_without_case :
  parse (wrap [TSwitch; TEvent 1; TCase; TEvent 2; TEndSwitch]%positive) = None.
Proof. vm_compute. reflexivity. Qed.

Example rej_empty_loop :
  parse (wrap [TRepeat; TRepeatWhile]) = None.
Proof. vm_compute. reflexivity. Qed.

Example rej_split_closed_by_repeat_while :
  parse (wrap [TSplit; TEvent 1; TSplitAgain; TEvent 2; TRepeatWhile]%positive) = None.
Proof. vm_compute. reflexivity. Qed.

Example rej_loop_crossing_split :
  parse (wrap [TRepeat; TSplit; TEvent 1; TSplitAgain; TEvent 2; TRepeatWhile; TEndSplit]%positive) = None.
Proof. vm_compute. reflexivity. Qed.

Example rej_trailing_tokens :
  parse (wrap [TEvent 1]%positive ++ [TEvent 2]%positive) = None.
Proof. vm_compute. reflexivity. Qed.

Example rej_group_name_mismatch :
  parse [TStartUml; TPartition 1; TGroup 2; TEvent 1; TEndGroup; TClose; TEndUml]%positive = None.
Proof. vm_compute. reflexivity. Qed.

Example rej_missing_footer :
  parse [TStartUml; TPartition 1; TGroup 1; TEvent 1; TEndGroup; TClose]%positive = None.
Proof. vm_compute. reflexivity. Qed.

Example rej_missing_header :
  parse [TPartition 1; TGroup 1; TEvent 1; TEndGroup; TClose; TEndUml]%positive = None.
Proof. vm_compute. reflexivity. Qed.

Example rej_empty_input : parse [] = None.
Proof. vm_compute. reflexivity. Qed.

(** the non-[wf] diagrams are exactly where printing is ambiguous: these two print alike *)
Example ex_ambiguous_without_wf :
  print 1 [Fork AND []] = print 1 [Fork AND [[]]] /\ parse (print 1 [Fork AND []]) = None.
Proof. vm_compute. split; reflexivity. Qed.

(** a big input: ~2000 tokens, nesting depth 60 *)
Fixpoint nest (depth : nat) (inner : list blk) : list blk :=
  match depth with
  | O => inner
  | S m =>
      let k := match Nat.modulo m 3 with 0 => AND | 1 => OR | _ => XOR end in
      [ Ev 1;
        Fork k
          [ [Ev 2; Loop (nest m inner)]; [Ev 3; Fork XOR [[Ev 4; Break]; [Ev 5]]]; [Ev 6; Detach] ];
        Ev 7 ]%positive
  end.

Definition big_diagram : diagram :=
  flat_map (fun _ => nest 20 [Ev 8; Ev 9]%positive) (seq 0 6).

Example big_wf : wf big_diagram = true.
Proof. vm_compute. reflexivity. Qed.

Example big_roundtrip :
  Nat.leb 2000 (length (print 1 big_diagram)) = true /\
  parse (print 1 big_diagram) = Some (1%positive, big_diagram).
Proof. vm_compute. split; reflexivity. Qed.

Print Assumptions parse_sound.
Print Assumptions parse_print.
Print Assumptions parse_iff.
Print Assumptions print_inj.
Print Assumptions parse_unique.
Print Assumptions events_preserved.
