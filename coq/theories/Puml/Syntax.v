(** Tokens of the PlantUML dialect that otel2puml emits (one token per non-blank line) and the
    printer from diagrams to token lists, i.e. the grammar.  No proofs in this file. *)
From Coq Require Import List Bool PArith.
From V Require Import Puml.Ast.
Import ListNotations.

Inductive token :=
| TStartUml                      (* @startuml *)
| TPartition (name : positive)   (* partition "name" { *)
| TGroup (name : positive)       (* group "name" *)
| TEvent (e : evt)               (* :E; *)
| TSwitch | TCase | TEndSwitch   (* switch (XOR) / case ("") / endswitch *)
| TFork | TForkAgain | TEndFork  (* fork / fork again / end fork *)
| TSplit | TSplitAgain | TEndSplit
| TRepeat | TRepeatWhile         (* repeat / repeat while *)
| TBreak | TDetach
| TEndGroup | TClose | TEndUml.  (* end group / } / @enduml *)

Definition opener (k : kind) : token := match k with AND => TFork | OR => TSplit | XOR => TSwitch end.
Definition closer (k : kind) : token := match k with AND => TEndFork | OR => TEndSplit | XOR => TEndSwitch end.
Definition separator (k : kind) : token := match k with AND => TForkAgain | OR => TSplitAgain | XOR => TCase end.

(** branches of a fork: XOR puts a `case ("")` in front of every branch, AND/OR put their
    separator between branches *)
Fixpoint print_blk (b : blk) : list token :=
  let print_seq := fix go (s : list blk) : list token :=
      match s with [] => [] | b' :: r => print_blk b' ++ go r end in
  match b with
  | Ev e => [TEvent e]
  | Break => [TBreak]
  | Detach => [TDetach]
  | Loop body => TRepeat :: print_seq body ++ [TRepeatWhile]
  | Fork k bs =>
      let fix branches (first : bool) (l : list (list blk)) : list token :=
          match l with
          | [] => []
          | s :: r =>
              (match k, first with
               | XOR, _ => [TCase]
               | _, true => []
               | _, false => [separator k]
               end) ++ print_seq s ++ branches false r
          end in
      opener k :: branches true bs ++ [closer k]
  end.

Fixpoint print_seq (s : list blk) : list token :=
  match s with [] => [] | b :: r => print_blk b ++ print_seq r end.

Definition print (name : positive) (d : diagram) : list token :=
  [TStartUml; TPartition name; TGroup name] ++ print_seq d ++ [TEndGroup; TClose; TEndUml].
