(** Rule-based (declarative) execution semantics of block-structured activity diagrams.

    Puml/Exec.v defines the meaning of a diagram by an ENUMERATOR ([runs_blk]/[runs_seq]): the
    finite list of run fragments with every loop iterated 1..k times.  This file says the same
    thing with one inference rule per construct, so that "diagram d accepts job j" has a meaning
    that does not mention the enumeration algorithm.  ExecRelProofs.v proves the two readings
    equal ([In f (runs_seq k d) <-> ExecSeq k d f]).

    The PV link discipline, as it appears in the rules.  A run fragment [mkfrag nodes front st]
    lists the events emitted so far ([nodes], each with its predecessor references), the
    FRONTIER [front] (what the next event will name as its predecessors; [RIn] stands for "the
    frontier on entry of this fragment", [RLoc i] for the i-th local node) and whether a break
    is travelling to the enclosing loop.  [seq_frag a b] plugs the frontier of [a] into the
    entry of [b]; [par_frag fs] puts fragments side by side on a common entry, the frontier
    being the union of the branches' frontiers.

    Definitions only, no proofs. *)
From Coq Require Import List Bool PArith Arith.
From V Require Import Puml.Ast Puml.Exec Store.Unique Puml.Canon Puml.CanonSpec.
Import ListNotations.

(** * The three atomic fragments *)

(** one node [e] whose predecessors are the entry frontier; the frontier becomes that node *)
Definition ev_frag (e : evt) : frag := mkfrag [(e, [RIn])] [RLoc 0] Normal.
(** no node, the frontier is still the entry frontier, a break is travelling *)
Definition break_frag : frag := mkfrag [] [RIn] Broke.
(** no node, EMPTY frontier: nothing can be linked after a detach *)
Definition detach_frag : frag := mkfrag [] [] Normal.

(** a loop consumes the break of its last iteration *)
Definition unbreak (f : frag) : frag := mkfrag (fnodes f) (ffront f) Normal.

(** * Auxiliary relations *)

(** [Sub s l]: [s] is a sub-list of [l], order preserved (the branches an OR fork takes) *)
Inductive Sub {A : Type} : list A -> list A -> Prop :=
| Sub_nil : Sub [] []
| Sub_take x s l : Sub s l -> Sub (x :: s) (x :: l)
| Sub_skip x s l : Sub s l -> Sub s (x :: l).

(** [Iter one n f]: [f] is [n >= 1] iterations chained with [seq_frag], each iteration being a
    fragment satisfying [one] (a run of the loop body).
      - the LAST iteration either ends Normal (the loop is left through its exit, whatever the
        frontier: a detached last iteration leaves an empty frontier) or ends Broke (the loop
        is left through the break; the break is consumed: status reset to Normal, the frontier
        of the broken iteration is kept);
      - only a LIVE iteration (Normal, non-empty frontier) may be followed by another one. *)
Inductive Iter (one : frag -> Prop) : nat -> frag -> Prop :=
| Iter_leave f :
    one f -> fstat f = Normal ->
    Iter one 1 f
| Iter_break f :
    one f -> fstat f = Broke ->
    Iter one 1 (unbreak f)
| Iter_again n f1 f2 :
    one f1 -> live f1 = true -> Iter one n f2 ->
    Iter one (S n) (seq_frag f1 f2).

(** * The rules *)

(** [ExecBlk k b f]: [f] is a run of the block [b]; [ExecSeq k s f]: [f] is a run of the
    sequence [s]; in both every loop is iterated between 1 and [k] times. *)
Inductive ExecBlk (k : nat) : blk -> frag -> Prop :=
| X_ev e :
    ExecBlk k (Ev e) (ev_frag e)
| X_break :
    ExecBlk k Break break_frag
| X_detach :
    ExecBlk k Detach detach_frag
(** XOR: exactly one branch runs *)
| X_xor bs s f :
    In s bs -> ExecSeq k s f ->
    ExecBlk k (Fork XOR bs) f
(** AND: every branch runs; the fragments are put side by side in branch order *)
| X_and bs fs :
    Forall2 (ExecSeq k) bs fs ->
    ExecBlk k (Fork AND bs) (par_frag fs)
(** OR: a non-empty sub-list of the branches runs *)
| X_or bs sel fs :
    Sub sel bs -> sel <> [] -> Forall2 (ExecSeq k) sel fs ->
    ExecBlk k (Fork OR bs) (par_frag fs)
(** Loop: between 1 and k iterations of the body *)
| X_loop body n f :
    1 <= n -> n <= k -> Iter (ExecSeq k body) n f ->
    ExecBlk k (Loop body) f

with ExecSeq (k : nat) : list blk -> frag -> Prop :=
(** the empty sequence emits nothing and hands the entry frontier on *)
| S_nil :
    ExecSeq k [] empty_frag
(** the first item breaks or detaches (not live): the rest of the sequence does not run *)
| S_stop b r f1 :
    ExecBlk k b f1 -> live f1 = false ->
    ExecSeq k (b :: r) f1
(** the first item is live: the rest runs from its frontier *)
| S_cons b r f1 f2 :
    ExecBlk k b f1 -> live f1 = true -> ExecSeq k r f2 ->
    ExecSeq k (b :: r) (seq_frag f1 f2).

(** * Acceptance *)

(** the diagram has a run (loops bounded by k) that denotes exactly the job graph [j] *)
Definition Accepts (k : nat) (d : diagram) (j : jobgraph) : Prop :=
  exists f, ExecSeq k d f /\ close f = j.

(** ... up to the canonical form of job graphs (what the validators [accepts_b] etc. decide):
    [j] is topologically ordered and some accepted job graph has the canonical form of [j] *)
Definition AcceptsCanon (k : nat) (d : diagram) (j : jobgraph) : Prop :=
  topo j /\ exists j', Accepts k d j' /\ canon j' = canon j.

(** every run of d1 (bound k1) is accepted by d2 (bound k2) up to canonical form *)
Definition InclCanon (k1 k2 : nat) (d1 d2 : diagram) : Prop :=
  forall j1, Accepts k1 d1 j1 -> exists j2, Accepts k2 d2 j2 /\ canon j2 = canon j1.

(** * The other associativity *)

(** The enumerator [runs_seq] is a LEFT fold; [ExecSeq] above is right-nested.  The left-nested
    reading of a sequence: run the prefix, and if its fragment is live run the last item from
    its frontier. *)
Inductive ExecSeqL (k : nat) : list blk -> frag -> Prop :=
| L_nil :
    ExecSeqL k [] empty_frag
| L_stop s b a :
    ExecSeqL k s a -> live a = false ->
    ExecSeqL k (s ++ [b]) a
| L_snoc s b a f :
    ExecSeqL k s a -> live a = true -> ExecBlk k b f ->
    ExecSeqL k (s ++ [b]) (seq_frag a f).

(** The left-nested reading of a loop (what [loop_runs] computes): [Rounds one n a] = [a] is
    [n >= 0] live iterations chained from the left; [IterL one n f] = after [n - 1] live rounds a
    last iteration that leaves through the exit or through a break. *)
Inductive Rounds (one : frag -> Prop) : nat -> frag -> Prop :=
| Rounds_O : Rounds one 0 empty_frag
| Rounds_S n a o : Rounds one n a -> one o -> live o = true -> Rounds one (S n) (seq_frag a o).

Inductive IterL (one : frag -> Prop) : nat -> frag -> Prop :=
| IterL_leave n a o :
    Rounds one n a -> one o -> fstat o = Normal -> IterL one (S n) (seq_frag a o)
| IterL_break n a o :
    Rounds one n a -> one o -> fstat o = Broke -> IterL one (S n) (unbreak (seq_frag a o)).

(** the right-nested enumerator (bridge between the left fold [runs_seq] and [ExecSeq]) *)
Fixpoint runs_seqR (k : nat) (s : list blk) : list frag :=
  match s with
  | [] => [empty_frag]
  | b :: r =>
      flat_map (fun f1 => if live f1 then map (seq_frag f1) (runs_seqR k r) else [f1]) (runs_blk k b)
  end.

(** * Helpers for stating the sanity lemmas *)

(** the frontier of [par_frag fs] spelled out: the branches' frontiers, each relocated to the
    position [off] of its branch's nodes (a detached branch has frontier [] and adds nothing) *)
Fixpoint par_front (off : nat) (fs : list frag) : list ref :=
  match fs with
  | [] => []
  | a :: r => flat_map (shift off [RIn]) (ffront a) ++ par_front (off + length (fnodes a)) r
  end.

(** position of the first node of the i-th branch inside [par_frag fs] *)
Definition branch_off (fs : list frag) (i : nat) : nat := length (flat_map fnodes (firstn i fs)).

(** every node names at least one predecessor reference *)
Definition preds_ne (f : frag) : Prop := Forall (fun n => snd n <> []) (fnodes f).

(** * Witnesses for the examples in ExecRelProofs.v *)

(** 1; repeat { 2; switch { 6; break | 3 } }; split-OR { 4 | 5; detach } *)
Definition ex_rel_diag : diagram :=
  [Ev 1; Loop [Ev 2; Fork XOR [[Ev 6; Break]; [Ev 3]]]; Fork OR [[Ev 4]; [Ev 5; Detach]]]%positive.

(** the run: 1; 2 3 (go round); 2 6 break; OR takes both branches: 4 | 5 detach *)
Definition ex_rel_run : frag :=
  mkfrag [(1%positive, [RIn]); (2%positive, [RLoc 0]); (3%positive, [RLoc 1]);
          (2%positive, [RLoc 2]); (6%positive, [RLoc 3]);
          (4%positive, [RLoc 4]); (5%positive, [RLoc 4])]
         [RLoc 5] Normal.

Definition ex_rel_job : jobgraph :=
  [(1%positive, []); (2%positive, [0]); (3%positive, [1]); (2%positive, [2]); (6%positive, [3]);
   (4%positive, [4]); (5%positive, [4])].

(** the same job with the two OR branches listed in the other order *)
Definition ex_rel_job' : jobgraph :=
  [(1%positive, []); (2%positive, [0]); (3%positive, [1]); (2%positive, [2]); (6%positive, [3]);
   (5%positive, [4]); (4%positive, [4])].
