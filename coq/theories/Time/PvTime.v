(** Model of tel2puml.utils.unix_nano_to_pv_string and
    tel2puml.pv_to_tel.convert_timestamp_to_unix_nano.  No proofs in this file. *)
From Coq Require Import ZArith Bool String.
From V Require Import Time.Calendar Time.Render Time.F64.
Open Scope Z_scope.

Definition e9 : f64 := of_Z 1000000000.
Definition e6 : f64 := of_Z 1000000.
Definition e3 : f64 := of_Z 1000.

(** datetime.fromtimestamp(unix_nano / 1e9, tz=UTC):
    - [unix_nano / 1e9]: int -> double (nearest even), IEEE division;
    - _PyTime_DoubleToDenominator(d, &sec, &us, 1e6, ROUND_HALF_EVEN):
        floatpart = modf(d, &intpart); floatpart *= 1e6; floatpart = round_half_even(floatpart);
        if (floatpart >= 1e6) { floatpart -= 1e6; intpart += 1.0; }
        else if (floatpart < 0) { floatpart += 1e6; intpart -= 1.0; }
    Result: (seconds, microseconds). *)
Definition split_seconds (n : Z) : Z * Z :=
  let x := fdiv (of_Z n) e9 in
  let ip := ftrunc x in
  let fp := fsub x (of_Z ip) in
  let scaled := frint (fmul fp e6) in
  let u := ftrunc scaled in
  if 1000000 <=? u then (ip + 1, u - 1000000)
  else if u <? 0 then (ip - 1, u + 1000000)
  else (ip, u).

Definition nano_to_us (n : Z) : Z := let '(s, u) := split_seconds n in s * 1000000 + u.

Definition nano_to_pv (n : Z) : string := render (nano_to_us n).

(** convert_timestamp_to_unix_nano as it stands in /repo (variant [v0], the float formula):
      dt = fromisoformat(s.rstrip("Z")).replace(tzinfo=utc)
      unix_timestamp = dt.timestamp()      # (dt - epoch) / timedelta(seconds=1): int/int true division
      int(unix_timestamp * 1e9 + dt.microsecond * 1e3)                                         *)
Definition nano_of_dt_v0 (t : dt) : Z :=
  let ts := fdiv (of_Z (us_of_dt t)) e6 in
  ftrunc (fadd (fmul ts e9) (fmul (of_Z (fr t)) e3)).

Definition pv_to_nano_v0 (s : string) : option Z :=
  match parse_dt s with Some t => Some (nano_of_dt_v0 t) | None => None end.

(** The integer formula (candidate repair; also the specification of "the instant it denotes"). *)
Definition nano_of_dt_exact (t : dt) : Z := us_of_dt t * 1000.

Definition pv_to_nano_exact (s : string) : option Z :=
  match parse_dt s with Some t => Some (nano_of_dt_exact t) | None => None end.
