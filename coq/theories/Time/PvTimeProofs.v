(** Proofs about the two timestamp converters.  The float part (Tier 2) goes through Flocq's
    real-number semantics and therefore depends on the standard library's classical reals. *)
From Coq Require Import ZArith List Bool String Lia Reals Lra.
From Flocq Require Import Core BinarySingleNaN.
From V Require Import Time.Calendar Time.Render Time.F64 Time.PvTime
  Time.CalendarProofs Time.RenderProofs Time.F64Proofs.
Open Scope Z_scope.

(** * The integer formula denotes the instant *)

Lemma pv_to_nano_exact_correct :
  forall us, 0 <= us < us_2100 -> pv_to_nano_exact (render us) = Some (1000 * us).
Proof.
  intros us Hus. unfold pv_to_nano_exact. rewrite (parse_render us Hus).
  unfold nano_of_dt_exact. rewrite (proj1 (dt_roundtrip us Hus)). f_equal. lia.
Qed.

Example pv_to_nano_exact_ex :
  pv_to_nano_exact "2023-09-25T10:58:06.059959Z" = Some 1695639486059959000.
Proof. vm_compute. reflexivity. Qed.

(** * The float formula of /repo double-counts the microseconds *)

Lemma pv_to_nano_v0_refuted :
  exists us, 0 <= us < us_2100 /\ pv_to_nano_v0 (render us) <> Some (1000 * us).
Proof.
  exists 1695639486059959. split.
  - vm_compute. repeat split; discriminate.
  - vm_compute. discriminate.
Qed.

Example pv_to_nano_v0_ex :
  pv_to_nano_v0 "2023-09-25T10:58:06.059959Z" = Some 1695639486119918080.
Proof. vm_compute. reflexivity. Qed.

(** * Tier 2: the float converter [nano_to_us] *)

Lemma bpow_62 : bpow radix2 62 = 4611686018427387904%R. Proof. reflexivity. Qed.
Lemma bpow_33 : bpow radix2 33 = 8589934592%R. Proof. reflexivity. Qed.
Lemma bpow_32 : bpow radix2 32 = 4294967296%R. Proof. reflexivity. Qed.
Lemma bpow_20 : bpow radix2 20 = 1048576%R. Proof. reflexivity. Qed.
Lemma bpow_8 : bpow radix2 8 = 256%R. Proof. reflexivity. Qed.
Lemma bpow_0 : bpow radix2 0 = 1%R. Proof. reflexivity. Qed.
Lemma bpow_m22 : bpow radix2 (-22) = (/ 4194304)%R. Proof. reflexivity. Qed.
Lemma bpow_m34 : bpow radix2 (-34) = (/ 17179869184)%R. Proof. reflexivity. Qed.

(** The real-number reading of the seconds value computed by [unix_nano / 1e9]. *)
Definition secs_R (n : Z) : R := RN (RN (IZR n) / 1000000000).

(** The real-number reading of the microsecond count produced from a seconds value. *)
Definition us_of_secs (x : R) : Z :=
  Zfloor x * 1000000 + ZnearestE (RN ((x - IZR (Zfloor x)) * 1000000)).

Lemma secs_R_range : forall n, 0 <= n < 2 ^ 62 -> (0 <= secs_R n <= 8589934592)%R.
Proof.
  intros n Hn. unfold secs_R.
  assert (0 <= IZR n <= 4611686018427387904)%R as Hr.
  { split; [apply IZR_le; lia | apply IZR_le; lia]. }
  assert (0 <= RN (IZR n) <= 4611686018427387904)%R as Ha.
  { split; [apply RN_ge_0; lra|].
    apply RN_le_format; [|lra]. rewrite <- bpow_62. apply format64_bpow. lia. }
  split.
  - apply RN_ge_0. lra.
  - apply RN_le_format; [rewrite <- bpow_33; apply format64_bpow; lia | lra].
Qed.

Lemma frac_us_range :
  forall x, (0 <= x)%R ->
  0 <= ZnearestE (RN ((x - IZR (Zfloor x)) * 1000000)) <= 1000000.
Proof.
  intros x Hx.
  pose proof (Zfloor_lb x) as Hlb. pose proof (Zfloor_ub x) as Hub.
  set (y := ((x - IZR (Zfloor x)) * 1000000)%R).
  assert (0 <= y <= 1000000)%R as Hy by (unfold y; lra).
  assert (0 <= RN y <= 1000000)%R as Hv.
  { split; [apply RN_ge_0; lra|]. apply RN_le_format; [|lra]. apply format64_IZR. lia. }
  split.
  - rewrite <- (ZnearestE_IZR 0). apply ZnearestE_le. lra.
  - rewrite <- (ZnearestE_IZR 1000000). apply ZnearestE_le. lra.
Qed.

(** [nano_to_us] computes [us_of_secs (secs_R n)]: every float operation is replaced by its
    correctly rounded real counterpart, the fractional-part subtraction is exact, and the
    three carry branches all denote the same integer. *)
Lemma nano_to_us_spec :
  forall n, 0 <= n < 2 ^ 62 -> nano_to_us n = us_of_secs (secs_R n).
Proof.
  intros n Hn.
  pose proof (secs_R_range n Hn) as Hx.
  destruct (of_Z_exact 1000000000) as [E9 F9]; [lia|].
  destruct (of_Z_exact 1000000) as [E6 F6]; [lia|].
  destruct (of_Z_correct n) as [En Fn]; [lia|].
  assert (0 <= IZR n <= 4611686018427387904)%R as Hr.
  { split; [apply IZR_le; lia | apply IZR_le; lia]. }
  assert (0 <= RN (IZR n) <= 4611686018427387904)%R as Ha.
  { split; [apply RN_ge_0; lra|].
    apply RN_le_format; [|lra]. rewrite <- bpow_62. apply format64_bpow. lia. }
  (* x = n / 1e9 *)
  destruct (fdiv_correct (of_Z n) e9 33) as [Ex Fx].
  { unfold e9. rewrite E9. lra. }
  { unfold e9. rewrite E9, En, bpow_33. rewrite Rabs_pos_eq; lra. }
  { lia. }
  unfold e9 in Ex at 2. rewrite E9, En in Ex. fold (secs_R n) in Ex. rewrite Fn in Fx.
  (* ip = trunc x *)
  set (x := fdiv (of_Z n) e9) in *.
  set (xr := secs_R n) in *.
  assert (ftrunc x = Zfloor xr) as Eip.
  { rewrite ftrunc_correct, Ex. apply Ztrunc_floor. lra. }
  pose proof (Zfloor_lb xr) as Hlb. pose proof (Zfloor_ub xr) as Hub.
  assert (0 <= Zfloor xr <= 8589934592) as Hk.
  { split; [apply Zfloor_lub; lra|]. apply le_IZR. lra. }
  destruct (of_Z_exact (Zfloor xr)) as [Ek Fk]; [lia|].
  (* fp = x - ip, exact *)
  destruct (fsub_correct x (of_Z (Zfloor xr)) 0 Fx Fk) as [Efp Ffp].
  { rewrite Ex, Ek, bpow_0. rewrite Rabs_pos_eq; lra. }
  { lia. }
  rewrite Ex, Ek in Efp.
  rewrite RN_generic in Efp.
  2:{ apply format64_frac; [apply format64_RN | lra | lia]. }
  (* scaled = rint (fp * 1e6) *)
  set (fp := fsub x (of_Z (Zfloor xr))) in *.
  assert (B2R (fmul fp e6) = RN ((xr - IZR (Zfloor xr)) * 1000000)) as Emul.
  { rewrite (fmul_correct fp e6 20).
    - unfold e6. rewrite E6, Efp. reflexivity.
    - unfold e6. rewrite E6, Efp, bpow_20. rewrite Rabs_pos_eq; lra.
    - lia. }
  assert (ftrunc (frint (fmul fp e6)) = ZnearestE (RN ((xr - IZR (Zfloor xr)) * 1000000))) as Eu.
  { rewrite ftrunc_correct, frint_correct, Emul. apply Ztrunc_IZR. }
  unfold nano_to_us, split_seconds. fold x. rewrite Eip. fold fp. rewrite Eu.
  unfold us_of_secs.
  set (u := ZnearestE (RN ((xr - IZR (Zfloor xr)) * 1000000))).
  destruct (1000000 <=? u) eqn:C1; [lia|].
  destruct (u <? 0) eqn:C2; lia.
Qed.

(** ** Monotonicity *)

Lemma secs_R_mono : forall n1 n2, n1 <= n2 -> (secs_R n1 <= secs_R n2)%R.
Proof.
  intros n1 n2 H. unfold secs_R. apply RN_le.
  assert (RN (IZR n1) <= RN (IZR n2))%R as Ha by (apply RN_le; apply IZR_le; exact H).
  lra.
Qed.

Lemma us_of_secs_mono :
  forall x1 x2, (0 <= x1 <= x2)%R -> us_of_secs x1 <= us_of_secs x2.
Proof.
  intros x1 x2 [H0 H12]. unfold us_of_secs.
  assert (0 <= x2)%R as H0' by lra.
  pose proof (frac_us_range x1 H0) as R1. pose proof (frac_us_range x2 H0') as R2.
  assert (Zfloor x1 <= Zfloor x2) as Hk by (apply Zfloor_le; exact H12).
  destruct (Z.eq_dec (Zfloor x1) (Zfloor x2)) as [E|Hne].
  - rewrite E. apply Zplus_le_compat_l. apply ZnearestE_le. apply RN_le. lra.
  - lia.
Qed.

Lemma range_2_62 : 1000 * us_2100 < 2 ^ 62.
Proof. vm_compute. reflexivity. Qed.

Lemma nano_to_us_mono :
  forall n1 n2, 0 <= n1 <= n2 /\ n2 < 1000 * us_2100 -> nano_to_us n1 <= nano_to_us n2.
Proof.
  intros n1 n2 [[H0 H12] H2]. pose proof range_2_62 as Hr.
  rewrite !nano_to_us_spec by lia.
  apply us_of_secs_mono. split.
  - apply (secs_R_range n1). lia.
  - apply secs_R_mono. exact H12.
Qed.

Example nano_to_us_mono_ex :
  nano_to_us 1695639486059959000 = 1695639486059959
  /\ nano_to_us 1695639486059959500 = 1695639486059960
  /\ (0 <= 1695639486059959000 <= 1695639486059959500 /\ 1695639486059959500 < 1000 * us_2100).
Proof. vm_compute. repeat split; discriminate. Qed.

(** ** Exactness on whole microseconds *)

Lemma us_2100_val : us_2100 = 4102444800000000.
Proof. reflexivity. Qed.

Lemma nano_to_us_exact :
  forall us, 0 <= us < us_2100 -> nano_to_us (1000 * us) = us.
Proof.
  intros us Hus. pose proof range_2_62 as Hr. rewrite us_2100_val in Hus.
  assert (0 <= 1000 * us < 2 ^ 62) as Hn by (rewrite us_2100_val in Hr; lia).
  rewrite nano_to_us_spec by exact Hn.
  unfold us_of_secs, secs_R.
  assert (0 <= IZR us <= 4102444799999999)%R as Hu.
  { split; apply IZR_le; lia. }
  rewrite mult_IZR.
  set (nr := (1000 * IZR us)%R).
  (* int -> float: error <= 256 ns *)
  assert (Rabs (RN nr - nr) <= 256)%R as Ea.
  { rewrite <- bpow_8. apply (RN_error nr 62); [|lia].
    rewrite bpow_62. unfold nr. rewrite Rabs_pos_eq; lra. }
  apply Rabs_le_inv in Ea.
  assert (0 <= RN nr)%R as Ha0 by (apply RN_ge_0; unfold nr; lra).
  set (a := RN nr) in *.
  (* division: error <= 2^-22 s *)
  set (q := (a / 1000000000)%R).
  assert (0 <= q < 4294967296)%R as Hq by (unfold q, nr in *; lra).
  assert (Rabs (RN q - q) <= / 4194304)%R as Ex.
  { rewrite <- bpow_m22. apply (RN_error q 32); [|lia].
    rewrite bpow_32. rewrite Rabs_pos_eq; lra. }
  apply Rabs_le_inv in Ex.
  set (x := RN q) in *.
  assert (0 <= x)%R as Hx0 by (apply RN_ge_0; lra).
  pose proof (Zfloor_lb x) as Hlb. pose proof (Zfloor_ub x) as Hub.
  set (k := Zfloor x) in *.
  (* scaling: error <= 2^-34 us *)
  set (y := ((x - IZR k) * 1000000)%R).
  assert (0 <= y < 1000000)%R as Hy by (unfold y; lra).
  assert (Rabs (RN y - y) <= / 17179869184)%R as Ev.
  { rewrite <- bpow_m34. apply (RN_error y 20); [|lia].
    rewrite bpow_20. rewrite Rabs_pos_eq; lra. }
  apply Rabs_le_inv in Ev.
  assert (ZnearestE (RN y) = us - k * 1000000) as Eu.
  { apply Znearest_imp. rewrite minus_IZR, mult_IZR.
    apply Rabs_def1; unfold y, q, nr in *; lra. }
  rewrite Eu. lia.
Qed.

Example nano_to_us_exact_ex :
  nano_to_us (1000 * 4102444799999999) = 4102444799999999 /\ nano_to_us (1000 * 2000000) = 2000000.
Proof. vm_compute. split; reflexivity. Qed.

Lemma nano_to_pv_exact :
  forall us, 0 <= us < us_2100 -> nano_to_pv (1000 * us) = render us.
Proof. intros us Hus. unfold nano_to_pv. rewrite nano_to_us_exact by exact Hus. reflexivity. Qed.

(** ** Round trip through the integer formula *)

Lemma roundtrip_pv :
  forall us, 0 <= us < us_2100 ->
  match pv_to_nano_exact (render us) with
  | Some n => nano_to_pv n = render us
  | None => False
  end.
Proof.
  intros us Hus. rewrite (pv_to_nano_exact_correct us Hus). apply nano_to_pv_exact. exact Hus.
Qed.

Example roundtrip_pv_ex :
  match pv_to_nano_exact "2023-09-25T10:58:06.059959Z" with
  | Some n => nano_to_pv n = "2023-09-25T10:58:06.059959Z"%string
  | None => False
  end.
Proof. vm_compute. reflexivity. Qed.
