(** Proleptic Gregorian calendar arithmetic over Z (model of what CPython's datetime does for
    UTC instants): days since 1970-01-01 <-> (year, month, day).  No proofs in this file. *)
From Coq Require Import ZArith Bool.
Open Scope Z_scope.

Definition days_from_civil (y m d : Z) : Z :=
  let y' := if m <=? 2 then y - 1 else y in
  let era := y' / 400 in
  let yoe := y' - era * 400 in
  let mp := if 2 <? m then m - 3 else m + 9 in
  let doy := (153 * mp + 2) / 5 + d - 1 in
  let doe := yoe * 365 + yoe / 4 - yoe / 100 + doy in
  era * 146097 + doe - 719468.

Definition civil_from_days (z0 : Z) : Z * Z * Z :=
  let z := z0 + 719468 in
  let era := z / 146097 in
  let doe := z - era * 146097 in
  let yoe := (doe - doe / 1460 + doe / 36524 - doe / 146096) / 365 in
  let y := yoe + era * 400 in
  let doy := doe - (365 * yoe + yoe / 4 - yoe / 100) in
  let mp := (5 * doy + 2) / 153 in
  let d := doy - (153 * mp + 2) / 5 + 1 in
  let m := if mp <? 10 then mp + 3 else mp - 9 in
  ((if m <=? 2 then y + 1 else y), m, d).

Definition is_leap (y : Z) : bool :=
  ((y mod 4 =? 0) && negb (y mod 100 =? 0)) || (y mod 400 =? 0).

Definition days_in_month (y m : Z) : Z :=
  if m =? 2 then (if is_leap y then 29 else 28)
  else if (m =? 4) || (m =? 6) || (m =? 9) || (m =? 11) then 30 else 31.

Definition valid_date (y m d : Z) : bool :=
  (1 <=? m) && (m <=? 12) && (1 <=? d) && (d <=? days_in_month y m).

(** Broken-down UTC time with microseconds. *)
Record dt := mkdt { yr : Z; mo : Z; dy : Z; hh : Z; mi : Z; ss : Z; fr : Z }.

Definition us_per_day : Z := 86400000000.

Definition dt_of_us (us : Z) : dt :=
  let days := us / us_per_day in
  let r := us mod us_per_day in
  let '(y, m, d) := civil_from_days days in
  let secs := r / 1000000 in
  mkdt y m d (secs / 3600) ((secs / 60) mod 60) (secs mod 60) (r mod 1000000).

Definition us_of_dt (t : dt) : Z :=
  (((days_from_civil (yr t) (mo t) (dy t) * 24 + hh t) * 60 + mi t) * 60 + ss t) * 1000000 + fr t.

Definition valid_dt (t : dt) : bool :=
  valid_date (yr t) (mo t) (dy t) && (1 <=? yr t) && (yr t <=? 9999)
  && (0 <=? hh t) && (hh t <? 24) && (0 <=? mi t) && (mi t <? 60)
  && (0 <=? ss t) && (ss t <? 60) && (0 <=? fr t) && (fr t <? 1000000).

(** Range of the property: 1970-01-01T00:00:00.000000Z <= instant < 2100-01-01. *)
Definition days_2100 : Z := 47482.
Definition us_2100 : Z := days_2100 * us_per_day.
