(** Proofs about the calendar model: civil_from_days / days_from_civil are inverse on
    1970-01-01 .. 2099-12-31, dt_of_us / us_of_dt round-trip, and the date key is strictly
    increasing in the day number. *)
From Coq Require Import ZArith List Bool Lia.
From V Require Import Time.Calendar.
Open Scope Z_scope.

(** * Finite ranges of Z: [all_below f n] checks [f] on 0 .. n-1 with logarithmic stack depth *)

Definition chk_step (f : Z -> bool) (st : Z * bool) : Z * bool :=
  let '(z, b) := st in (z + 1, if b then f z else false).

Definition all_below (f : Z -> bool) (n : Z) : bool := snd (Z.iter n (chk_step f) (0, true)).

Lemma chk_iter_nat :
  forall f (n : nat),
  fst (Nat.iter n (chk_step f) (0, true)) = Z.of_nat n /\
  (snd (Nat.iter n (chk_step f) (0, true)) = true ->
   forall z, 0 <= z < Z.of_nat n -> f z = true).
Proof.
  intros f n. induction n as [|n IH].
  - cbn. split; [reflexivity | intros _ z Hz; lia].
  - cbn [Nat.iter nat_rect].
    change (nat_rect (fun _ => (Z * bool)%type) (0, true) (fun _ => chk_step f) n)
      with (Nat.iter n (chk_step f) (0, true)).
    destruct (Nat.iter n (chk_step f) (0, true)) as [z0 b] eqn:E.
    cbn [fst snd] in IH. destruct IH as [IH1 IH2].
    unfold chk_step. cbn [fst snd]. split; [lia|].
    intros Hb z Hz. destruct b; [|discriminate].
    destruct (Z.eq_dec z z0) as [->|Hne]; [exact Hb|]. apply IH2; [reflexivity | lia].
Qed.

Lemma all_below_spec :
  forall f n, all_below f n = true -> forall z, 0 <= z < n -> f z = true.
Proof.
  intros f n H z Hz. unfold all_below in H.
  destruct n as [|p|p]; try lia.
  cbn [Z.iter] in H. rewrite Pos2Nat.inj_iter in H.
  destruct (chk_iter_nat f (Pos.to_nat p)) as [_ H2].
  apply H2; [exact H | lia].
Qed.

(** * calendar_inverse *)

Definition cal_inv_check (z : Z) : bool :=
  let '(y, m, d) := civil_from_days z in
  valid_date y m d && (1970 <=? y) && (y <=? 2099) && (days_from_civil y m d =? z).

Lemma cal_inv_check_all : all_below cal_inv_check 47482 = true.
Proof. vm_compute. reflexivity. Qed.

Lemma calendar_inverse :
  forall z, 0 <= z < 47482 ->
  let '(y, m, d) := civil_from_days z in
  valid_date y m d = true /\ 1970 <= y <= 2099 /\ days_from_civil y m d = z.
Proof.
  intros z Hz.
  pose proof (all_below_spec _ _ cal_inv_check_all z Hz) as H.
  unfold cal_inv_check in H.
  destruct (civil_from_days z) as [[y m] d].
  apply andb_true_iff in H. destruct H as [H H4].
  apply andb_true_iff in H. destruct H as [H H3].
  apply andb_true_iff in H. destruct H as [H1 H2].
  apply Z.leb_le in H2. apply Z.leb_le in H3. apply Z.eqb_eq in H4.
  repeat split; assumption || lia.
Qed.

Example calendar_inverse_ex :
  civil_from_days 19625 = (2023, 9, 25) /\ days_from_civil 2023 9 25 = 19625 /\ 0 <= 19625 < 47482.
Proof. vm_compute. repeat split; discriminate. Qed.

(** Consequences of [valid_date] used elsewhere. *)
Lemma valid_date_bounds :
  forall y m d, valid_date y m d = true -> 1 <= m <= 12 /\ 1 <= d <= 31.
Proof.
  intros y m d H. unfold valid_date in H.
  apply andb_true_iff in H. destruct H as [H H4].
  apply andb_true_iff in H. destruct H as [H H3].
  apply andb_true_iff in H. destruct H as [H1 H2].
  apply Z.leb_le in H1. apply Z.leb_le in H2. apply Z.leb_le in H3. apply Z.leb_le in H4.
  assert (days_in_month y m <= 31) as Hd.
  { unfold days_in_month.
    destruct (m =? 2); [destruct (is_leap y); lia|].
    destruct ((m =? 4) || (m =? 6) || (m =? 9) || (m =? 11)); lia. }
  lia.
Qed.

(** * Decomposition of a microsecond count *)

Lemma us_decomp :
  forall us, 0 <= us ->
  let days := us / us_per_day in
  let r := us mod us_per_day in
  let secs := r / 1000000 in
  us = (((days * 24 + secs / 3600) * 60 + (secs / 60) mod 60) * 60 + secs mod 60) * 1000000
       + r mod 1000000
  /\ 0 <= secs / 3600 < 24 /\ 0 <= (secs / 60) mod 60 < 60 /\ 0 <= secs mod 60 < 60
  /\ 0 <= r mod 1000000 < 1000000.
Proof.
  intros us Hus days r secs.
  assert (us = us_per_day * days + r) as E1 by (apply Z.div_mod; unfold us_per_day; lia).
  assert (0 <= r < us_per_day) as B1 by (apply Z.mod_pos_bound; unfold us_per_day; lia).
  assert (r = 1000000 * secs + r mod 1000000) as E2 by (apply Z.div_mod; lia).
  assert (0 <= r mod 1000000 < 1000000) as B2 by (apply Z.mod_pos_bound; lia).
  assert (secs = 60 * (secs / 60) + secs mod 60) as E3 by (apply Z.div_mod; lia).
  assert (0 <= secs mod 60 < 60) as B3 by (apply Z.mod_pos_bound; lia).
  assert (secs / 60 = 60 * (secs / 60 / 60) + (secs / 60) mod 60) as E4 by (apply Z.div_mod; lia).
  assert (0 <= (secs / 60) mod 60 < 60) as B4 by (apply Z.mod_pos_bound; lia).
  assert (secs / 60 / 60 = secs / 3600) as E5 by (rewrite Z.div_div by lia; reflexivity).
  rewrite E5 in E4.
  unfold us_per_day in *.
  assert (0 <= secs / 3600 < 24) as B5.
  { assert (0 <= secs < 86400) as Bs by lia.
    split; [apply Z.div_pos; lia | apply Z.div_lt_upper_bound; lia]. }
  repeat split; try lia.
Qed.

(** * dt_roundtrip *)

Lemma days_range : forall us, 0 <= us < us_2100 -> 0 <= us / us_per_day < 47482.
Proof.
  intros us Hus. unfold us_2100, days_2100, us_per_day in *.
  split; [apply Z.div_pos; lia | apply Z.div_lt_upper_bound; lia].
Qed.

Lemma dt_roundtrip :
  forall us, 0 <= us < us_2100 -> us_of_dt (dt_of_us us) = us /\ valid_dt (dt_of_us us) = true.
Proof.
  intros us Hus.
  pose proof (days_range us Hus) as Hd.
  pose proof (calendar_inverse _ Hd) as Hc.
  assert (0 <= us) as Hus0 by lia.
  pose proof (us_decomp us Hus0) as Hu. cbv zeta in Hu.
  destruct Hu as (E & B1 & B2 & B3 & B4).
  unfold dt_of_us.
  destruct (civil_from_days (us / us_per_day)) as [[y m] d].
  destruct Hc as (Hv & Hy & Hdays).
  unfold us_of_dt, valid_dt. cbn [yr mo dy hh mi ss fr].
  split.
  - rewrite Hdays. symmetry. exact E.
  - rewrite Hv.
    repeat (apply andb_true_iff; split); try reflexivity;
      try (apply Z.leb_le; lia); try (apply Z.ltb_lt; lia).
Qed.

Example dt_roundtrip_ex :
  dt_of_us 1695639486059959 = mkdt 2023 9 25 10 58 6 59959 /\ 0 <= 1695639486059959 < us_2100.
Proof. vm_compute. repeat split; discriminate. Qed.

(** * The date key is strictly increasing in the day number *)

Definition date_key (z : Z) : Z := let '(y, m, d) := civil_from_days z in y * 10000 + m * 100 + d.

Definition key_step_check (z : Z) : bool := date_key z <? date_key (z + 1).

Lemma key_step_check_all : all_below key_step_check 47481 = true.
Proof. vm_compute. reflexivity. Qed.

Lemma date_key_step : forall z, 0 <= z < 47481 -> date_key z < date_key (z + 1).
Proof.
  intros z Hz. apply Z.ltb_lt. exact (all_below_spec _ _ key_step_check_all z Hz).
Qed.

Lemma date_key_mono_nat :
  forall (n : nat) z, 0 <= z -> z + Z.of_nat n + 1 < 47482 ->
  date_key z < date_key (z + Z.of_nat n + 1).
Proof.
  induction n as [|n IH]; intros z Hz Hn.
  - replace (z + Z.of_nat 0 + 1) with (z + 1) by lia. apply date_key_step. lia.
  - assert (date_key z < date_key (z + Z.of_nat n + 1)) as H1 by (apply IH; lia).
    assert (date_key (z + Z.of_nat n + 1) < date_key (z + Z.of_nat n + 1 + 1)) as H2
        by (apply date_key_step; lia).
    replace (z + Z.of_nat (S n) + 1) with (z + Z.of_nat n + 1 + 1) by lia. lia.
Qed.

Lemma date_key_mono : forall z1 z2, 0 <= z1 < z2 -> z2 < 47482 -> date_key z1 < date_key z2.
Proof.
  intros z1 z2 H1 H2.
  replace z2 with (z1 + Z.of_nat (Z.to_nat (z2 - z1 - 1)) + 1) by lia.
  apply date_key_mono_nat; lia.
Qed.

(** Lexicographic order on (year, month, day). *)
Definition lex3 (a b : Z * Z * Z) : Prop :=
  let '(y1, m1, d1) := a in let '(y2, m2, d2) := b in
  y1 < y2 \/ (y1 = y2 /\ (m1 < m2 \/ (m1 = m2 /\ d1 < d2))).

Lemma civil_mono :
  forall z1 z2, 0 <= z1 < z2 -> z2 < 47482 -> lex3 (civil_from_days z1) (civil_from_days z2).
Proof.
  intros z1 z2 H1 H2.
  pose proof (date_key_mono z1 z2 H1 H2) as Hk. unfold date_key in Hk.
  assert (0 <= z1 < 47482) as R1 by lia. assert (0 <= z2 < 47482) as R2 by lia.
  pose proof (calendar_inverse z1 R1) as C1. pose proof (calendar_inverse z2 R2) as C2.
  destruct (civil_from_days z1) as [[y1 m1] d1]. destruct (civil_from_days z2) as [[y2 m2] d2].
  destruct C1 as (V1 & _ & _). destruct C2 as (V2 & _ & _).
  apply valid_date_bounds in V1. apply valid_date_bounds in V2.
  unfold lex3. lia.
Qed.
