(** Proofs about fixed-width rendering/parsing: parse_dt inverts render, and render is strictly
    monotone (hence injective) for the lexicographic string order. *)
From Coq Require Import ZArith List Bool String Ascii Lia.
From V Require Import Time.Calendar Time.Render Time.CalendarProofs.
Open Scope Z_scope.

(** * Digits *)

Lemma digit_cases :
  forall v, 0 <= v < 10 ->
  v = 0 \/ v = 1 \/ v = 2 \/ v = 3 \/ v = 4 \/ v = 5 \/ v = 6 \/ v = 7 \/ v = 8 \/ v = 9.
Proof. intros v Hv. lia. Qed.

Lemma digit_val_digit : forall v, 0 <= v < 10 -> digit_val (digit v) = Some v.
Proof.
  intros v Hv.
  destruct (digit_cases v Hv) as [E|[E|[E|[E|[E|[E|[E|[E|[E|E]]]]]]]]]; subst v; reflexivity.
Qed.

Lemma nat_of_digit : forall v, 0 <= v < 10 -> Z.of_nat (nat_of_ascii (digit v)) = 48 + v.
Proof.
  intros v Hv.
  destruct (digit_cases v Hv) as [E|[E|[E|[E|[E|[E|[E|[E|[E|E]]]]]]]]]; subst v; reflexivity.
Qed.

(** * Front-structured view of [pad] *)

Lemma append_assoc : forall a b c : string, ((a ++ b) ++ c = a ++ (b ++ c))%string.
Proof.
  induction a as [|x a IH]; intros b c; cbn [append]; [reflexivity | rewrite IH; reflexivity].
Qed.

Lemma pow10_pos : forall k : nat, 0 < 10 ^ Z.of_nat k.
Proof. intros k. apply Z.pow_pos_nonneg; lia. Qed.

Lemma pow10_S : forall k : nat, 10 ^ Z.of_nat (S k) = 10 * 10 ^ Z.of_nat k.
Proof. intros k. rewrite Nat2Z.inj_succ. rewrite Z.pow_succ_r by lia. reflexivity. Qed.

Lemma pad_front :
  forall (k : nat) n,
  pad (S k) n = String (digit ((n / 10 ^ Z.of_nat k) mod 10)) (pad k n).
Proof.
  induction k as [|k IH]; intros n.
  - cbn [pad append]. change (10 ^ Z.of_nat 0) with 1. rewrite Z.div_1_r. reflexivity.
  - change (pad (S (S k)) n)
      with (append (pad (S k) (n / 10)) (String (digit (n mod 10)) EmptyString)).
    rewrite IH. cbn [append].
    rewrite Z.div_div by (try lia; apply pow10_pos).
    rewrite <- pow10_S. reflexivity.
Qed.

(** [n mod 10^(k+1)] splits into its leading digit and [n mod 10^k]. *)
Lemma mod_pow10_S :
  forall (k : nat) n,
  n mod 10 ^ Z.of_nat (S k) = n mod 10 ^ Z.of_nat k + 10 ^ Z.of_nat k * ((n / 10 ^ Z.of_nat k) mod 10).
Proof.
  intros k n. rewrite pow10_S. rewrite (Z.mul_comm 10).
  apply Z.rem_mul_r; [pose proof (pow10_pos k); lia | lia].
Qed.

(** * read_digits inverts pad *)

Lemma read_digits_pad_mod :
  forall (k : nat) acc n rest,
  read_digits k acc (pad k n ++ rest) = Some (acc * 10 ^ Z.of_nat k + n mod 10 ^ Z.of_nat k, rest).
Proof.
  induction k as [|k IH]; intros acc n rest.
  - cbn [pad append read_digits]. change (10 ^ Z.of_nat 0) with 1.
    rewrite Z.mod_1_r. f_equal. f_equal. lia.
  - rewrite pad_front. cbn [append read_digits].
    assert (0 <= (n / 10 ^ Z.of_nat k) mod 10 < 10) as Hd by (apply Z.mod_pos_bound; lia).
    rewrite (digit_val_digit _ Hd). rewrite IH.
    rewrite mod_pow10_S. rewrite pow10_S. f_equal. f_equal. ring.
Qed.

Lemma read_digits_pad :
  forall (k : nat) acc n rest, 0 <= n < 10 ^ Z.of_nat k ->
  read_digits k acc (pad k n ++ rest) = Some (acc * 10 ^ Z.of_nat k + n, rest).
Proof.
  intros k acc n rest Hn. rewrite read_digits_pad_mod. rewrite Z.mod_small by exact Hn. reflexivity.
Qed.

Lemma read_digits_pad0 :
  forall (k : nat) n rest, 0 <= n < 10 ^ Z.of_nat k ->
  read_digits k 0 (pad k n ++ rest) = Some (n, rest).
Proof. intros k n rest Hn. rewrite read_digits_pad by exact Hn. reflexivity. Qed.

(** * Field ranges of a valid dt *)

Record dt_fields_ok (t : dt) : Prop := {
  ok_yr : 0 <= yr t < 10000;
  ok_mo : 0 <= mo t < 100;
  ok_dy : 0 <= dy t < 100;
  ok_hh : 0 <= hh t < 100;
  ok_mi : 0 <= mi t < 100;
  ok_ss : 0 <= ss t < 100;
  ok_fr : 0 <= fr t < 1000000 }.

Lemma valid_dt_fields : forall t, valid_dt t = true -> dt_fields_ok t.
Proof.
  intros t H. unfold valid_dt in H.
  do 10 (apply andb_true_iff in H; let H' := fresh "H" in destruct H as [H H']).
  apply valid_date_bounds in H.
  repeat match goal with
         | X : (_ <=? _) = true |- _ => apply Z.leb_le in X
         | X : (_ <? _) = true |- _ => apply Z.ltb_lt in X
         end.
  constructor; lia.
Qed.

(** * parse_render *)

Lemma parse_render_dt :
  forall t, valid_dt t = true -> parse_dt (render_dt t) = Some t.
Proof.
  intros t Hv. pose proof (valid_dt_fields t Hv) as [Hy Hm Hd Hh Hmi Hs Hf].
  unfold parse_dt, render_dt.
  rewrite (read_digits_pad0 4) by (change (10 ^ Z.of_nat 4) with 10000; exact Hy).
  cbn [bind append expect Ascii.eqb Bool.eqb].
  rewrite (read_digits_pad0 2) by (change (10 ^ Z.of_nat 2) with 100; exact Hm).
  cbn [bind append expect Ascii.eqb Bool.eqb].
  rewrite (read_digits_pad0 2) by (change (10 ^ Z.of_nat 2) with 100; exact Hd).
  cbn [bind append expect Ascii.eqb Bool.eqb].
  rewrite (read_digits_pad0 2) by (change (10 ^ Z.of_nat 2) with 100; exact Hh).
  cbn [bind append expect Ascii.eqb Bool.eqb].
  rewrite (read_digits_pad0 2) by (change (10 ^ Z.of_nat 2) with 100; exact Hmi).
  cbn [bind append expect Ascii.eqb Bool.eqb].
  rewrite (read_digits_pad0 2) by (change (10 ^ Z.of_nat 2) with 100; exact Hs).
  cbn [bind append expect Ascii.eqb Bool.eqb].
  rewrite (read_digits_pad0 6) by (change (10 ^ Z.of_nat 6) with 1000000; exact Hf).
  cbn [bind].
  destruct t as [y m d h mi s f]. cbn [yr mo dy hh Calendar.mi ss fr] in *.
  rewrite Hv. reflexivity.
Qed.

Lemma parse_render :
  forall us, 0 <= us < us_2100 -> parse_dt (render us) = Some (dt_of_us us).
Proof.
  intros us Hus. unfold render. apply parse_render_dt. apply (dt_roundtrip us Hus).
Qed.

Example parse_render_ex :
  render 1695639486059959 = "2023-09-25T10:58:06.059959Z"%string
  /\ parse_dt "2023-09-25T10:58:06.059959Z" = Some (mkdt 2023 9 25 10 58 6 59959).
Proof. vm_compute. split; reflexivity. Qed.

(** * String order on fixed-width fields *)

Lemma str_ltb_same_head :
  forall c a b, str_ltb (String c a) (String c b) = str_ltb a b.
Proof.
  intros c a b. cbn [str_ltb]. rewrite Nat.ltb_irrefl. reflexivity.
Qed.

Lemma str_ltb_pad :
  forall (k : nat) a b r1 r2,
  str_ltb (pad k a ++ r1) (pad k b ++ r2) =
  if a mod 10 ^ Z.of_nat k <? b mod 10 ^ Z.of_nat k then true
  else if b mod 10 ^ Z.of_nat k <? a mod 10 ^ Z.of_nat k then false
  else str_ltb r1 r2.
Proof.
  induction k as [|k IH]; intros a b r1 r2.
  - cbn [pad append]. change (10 ^ Z.of_nat 0) with 1. rewrite !Z.mod_1_r. reflexivity.
  - rewrite !pad_front. cbn [append str_ltb]. rewrite IH.
    rewrite !mod_pow10_S.
    set (P := 10 ^ Z.of_nat k).
    assert (0 < P) as HP by apply pow10_pos.
    set (da := (a / P) mod 10). set (db := (b / P) mod 10).
    assert (0 <= da < 10) as Hda by (apply Z.mod_pos_bound; lia).
    assert (0 <= db < 10) as Hdb by (apply Z.mod_pos_bound; lia).
    pose proof (nat_of_digit da Hda) as Na. pose proof (nat_of_digit db Hdb) as Nb.
    assert (0 <= a mod P < P) as Ha by (apply Z.mod_pos_bound; lia).
    assert (0 <= b mod P < P) as Hb by (apply Z.mod_pos_bound; lia).
    destruct (Nat.ltb (nat_of_ascii (digit da)) (nat_of_ascii (digit db))) eqn:E1.
    + apply Nat.ltb_lt in E1.
      assert (da + 1 <= db) as Hlt by lia.
      assert (a mod P + P * da < b mod P + P * db) as Hgoal by nia.
      apply Z.ltb_lt in Hgoal. rewrite Hgoal. reflexivity.
    + apply Nat.ltb_ge in E1.
      destruct (Nat.ltb (nat_of_ascii (digit db)) (nat_of_ascii (digit da))) eqn:E2.
      * apply Nat.ltb_lt in E2.
        assert (db + 1 <= da) as Hlt by lia.
        assert (b mod P + P * db < a mod P + P * da) as Hgoal by nia.
        assert (a mod P + P * da <? b mod P + P * db = false) as G1 by (apply Z.ltb_ge; lia).
        apply Z.ltb_lt in Hgoal. rewrite G1, Hgoal. reflexivity.
      * apply Nat.ltb_ge in E2.
        assert (da = db) as Heq by lia. rewrite Heq.
        destruct (a mod P <? b mod P) eqn:E3.
        { apply Z.ltb_lt in E3.
          assert (a mod P + P * db <? b mod P + P * db = true) as G by (apply Z.ltb_lt; lia).
          rewrite G. reflexivity. }
        apply Z.ltb_ge in E3.
        assert (a mod P + P * db <? b mod P + P * db = false) as G by (apply Z.ltb_ge; lia).
        rewrite G.
        destruct (b mod P <? a mod P) eqn:E4.
        { apply Z.ltb_lt in E4.
          assert (b mod P + P * db <? a mod P + P * db = true) as G' by (apply Z.ltb_lt; lia).
          rewrite G'. reflexivity. }
        apply Z.ltb_ge in E4.
        assert (b mod P + P * db <? a mod P + P * db = false) as G' by (apply Z.ltb_ge; lia).
        rewrite G'. reflexivity.
Qed.

Lemma str_ltb_pad_small :
  forall (k : nat) a b r1 r2, 0 <= a < 10 ^ Z.of_nat k -> 0 <= b < 10 ^ Z.of_nat k ->
  str_ltb (pad k a ++ r1) (pad k b ++ r2) =
  if a <? b then true else if b <? a then false else str_ltb r1 r2.
Proof.
  intros k a b r1 r2 Ha Hb. rewrite str_ltb_pad. rewrite !Z.mod_small by assumption. reflexivity.
Qed.

(** Lexicographic order on broken-down times. *)
Definition dt_lex (t1 t2 : dt) : Prop :=
  yr t1 < yr t2 \/ (yr t1 = yr t2 /\
  (mo t1 < mo t2 \/ (mo t1 = mo t2 /\
  (dy t1 < dy t2 \/ (dy t1 = dy t2 /\
  (hh t1 < hh t2 \/ (hh t1 = hh t2 /\
  (mi t1 < mi t2 \/ (mi t1 = mi t2 /\
  (ss t1 < ss t2 \/ (ss t1 = ss t2 /\ fr t1 < fr t2))))))))))).

Lemma render_dt_lex :
  forall t1 t2, dt_fields_ok t1 -> dt_fields_ok t2 -> dt_lex t1 t2 ->
  str_ltb (render_dt t1) (render_dt t2) = true.
Proof.
  intros t1 t2 [Hy1 Hm1 Hd1 Hh1 Hi1 Hs1 Hf1] [Hy2 Hm2 Hd2 Hh2 Hi2 Hs2 Hf2] Hlex.
  unfold dt_lex in Hlex. unfold render_dt.
  rewrite (str_ltb_pad_small 4) by (change (10 ^ Z.of_nat 4) with 10000; assumption).
  cbn [append]. rewrite str_ltb_same_head.
  rewrite (str_ltb_pad_small 2) by (change (10 ^ Z.of_nat 2) with 100; assumption).
  cbn [append]. rewrite str_ltb_same_head.
  rewrite (str_ltb_pad_small 2) by (change (10 ^ Z.of_nat 2) with 100; assumption).
  cbn [append]. rewrite str_ltb_same_head.
  rewrite (str_ltb_pad_small 2) by (change (10 ^ Z.of_nat 2) with 100; assumption).
  cbn [append]. rewrite str_ltb_same_head.
  rewrite (str_ltb_pad_small 2) by (change (10 ^ Z.of_nat 2) with 100; assumption).
  cbn [append]. rewrite str_ltb_same_head.
  rewrite (str_ltb_pad_small 2) by (change (10 ^ Z.of_nat 2) with 100; assumption).
  cbn [append]. rewrite str_ltb_same_head.
  rewrite (str_ltb_pad_small 6) by (change (10 ^ Z.of_nat 6) with 1000000; assumption).
  repeat match goal with
         | |- context [?x <? ?y] =>
             let E := fresh "E" in
             destruct (x <? y) eqn:E; [apply Z.ltb_lt in E | apply Z.ltb_ge in E]
         end; try reflexivity; exfalso; lia.
Qed.

(** * render_mono *)

Lemma dt_of_us_lex :
  forall u1 u2, 0 <= u1 < u2 -> u2 < us_2100 -> dt_lex (dt_of_us u1) (dt_of_us u2).
Proof.
  intros u1 u2 H1 H2.
  assert (0 <= u1 < us_2100) as R1 by lia. assert (0 <= u2 < us_2100) as R2 by lia.
  pose proof (days_range u1 R1) as D1. pose proof (days_range u2 R2) as D2.
  assert (0 <= u1) as P1 by lia. assert (0 <= u2) as P2 by lia.
  pose proof (us_decomp u1 P1) as U1. pose proof (us_decomp u2 P2) as U2.
  cbv zeta in U1, U2.
  destruct U1 as (E1 & A1 & B1 & C1 & F1). destruct U2 as (E2 & A2 & B2 & C2 & F2).
  assert (u1 / us_per_day <= u2 / us_per_day) as Hle
      by (apply Z.div_le_mono; unfold us_per_day; lia).
  unfold dt_lex, dt_of_us.
  destruct (Z.eq_dec (u1 / us_per_day) (u2 / us_per_day)) as [Heq|Hne].
  - rewrite <- Heq in *.
    destruct (civil_from_days (u1 / us_per_day)) as [[y m] d].
    cbn [yr mo dy hh mi ss fr].
    set (s1 := u1 mod us_per_day / 1000000) in *.
    set (s2 := u2 mod us_per_day / 1000000) in *.
    right; split; [reflexivity|]. right; split; [reflexivity|]. right; split; [reflexivity|].
    lia.
  - assert (u1 / us_per_day < u2 / us_per_day) as Hlt by lia.
    assert (0 <= u1 / us_per_day < u2 / us_per_day) as Hlt' by lia.
    pose proof (civil_mono _ _ Hlt' (proj2 D2)) as Hc. unfold lex3 in Hc.
    destruct (civil_from_days (u1 / us_per_day)) as [[y1 m1] d1].
    destruct (civil_from_days (u2 / us_per_day)) as [[y2 m2] d2].
    cbn [yr mo dy hh mi ss fr]. lia.
Qed.

Lemma render_mono :
  forall u1 u2, 0 <= u1 < u2 /\ u2 < us_2100 -> str_ltb (render u1) (render u2) = true.
Proof.
  intros u1 u2 (H1 & H2).
  assert (0 <= u1 < us_2100) as R1 by lia. assert (0 <= u2 < us_2100) as R2 by lia.
  unfold render. apply render_dt_lex.
  - apply valid_dt_fields. apply (dt_roundtrip u1 R1).
  - apply valid_dt_fields. apply (dt_roundtrip u2 R2).
  - apply dt_of_us_lex; lia.
Qed.

Example render_mono_ex :
  str_ltb (render 1695639486059959) (render 1695639486059960) = true
  /\ (0 <= 1695639486059959 < 1695639486059960 /\ 1695639486059960 < us_2100).
Proof. vm_compute. repeat split; discriminate. Qed.

Lemma str_ltb_irrefl : forall s, str_ltb s s = false.
Proof.
  induction s as [|c s IH]; [reflexivity|]. cbn [str_ltb]. rewrite Nat.ltb_irrefl. exact IH.
Qed.

Lemma render_inj :
  forall u1 u2, 0 <= u1 < us_2100 -> 0 <= u2 < us_2100 -> render u1 = render u2 -> u1 = u2.
Proof.
  intros u1 u2 H1 H2 E.
  destruct (Z.lt_trichotomy u1 u2) as [Hlt|[Heq|Hgt]]; [exfalso | exact Heq | exfalso].
  - assert (str_ltb (render u1) (render u2) = true) as H by (apply render_mono; lia).
    rewrite E, str_ltb_irrefl in H. discriminate.
  - assert (str_ltb (render u2) (render u1) = true) as H by (apply render_mono; lia).
    rewrite E, str_ltb_irrefl in H. discriminate.
Qed.
