(** Real-number semantics of the binary64 operations of [F64], derived from Flocq's
    correctness theorems, plus the rounding-error and monotonicity facts used by PvTimeProofs.
    Uses the classical real numbers of the standard library (through Flocq). *)
From Coq Require Import ZArith Reals Lia Lra.
From Flocq Require Import Core BinarySingleNaN Sterbenz.
From V Require Import Time.F64.
Open Scope Z_scope.

(** The binary64 exponent function and round-to-nearest-even, written exactly as they appear in
    the statements of Flocq's theorems once instantiated with [prec] and [emax]. *)
Notation fexp64 := (FLT_exp (3 - emax - prec) prec).
Notation format64 := (generic_format radix2 fexp64).

Definition RN (x : R) : R := round radix2 fexp64 ZnearestE x.

Lemma round_mode_NE : round_mode mode_NE = ZnearestE.
Proof. reflexivity. Qed.

(** * Basic properties of RN *)

Lemma RN_le : forall x y, (x <= y)%R -> (RN x <= RN y)%R.
Proof. intros x y H. unfold RN. apply round_le; auto with typeclass_instances. Qed.

Lemma RN_generic : forall x, format64 x -> RN x = x.
Proof. intros x H. unfold RN. apply round_generic; auto with typeclass_instances. Qed.

Lemma RN_0 : RN 0 = 0%R.
Proof. unfold RN. apply round_0; auto with typeclass_instances. Qed.

Lemma format64_RN : forall x, format64 (RN x).
Proof. intros x. unfold RN. apply generic_format_round; auto with typeclass_instances. Qed.

Lemma format64_IZR : forall z, Z.abs z < 2 ^ 53 -> format64 (IZR z).
Proof.
  intros z Hz. apply generic_format_FLT.
  exists (Float radix2 z 0).
  - unfold F2R. cbn [Fnum Fexp bpow]. rewrite Rmult_1_r. reflexivity.
  - cbn [Fnum]. exact Hz.
  - cbn [Fexp]. unfold emax, prec. lia.
Qed.

Lemma format64_bpow : forall e, -1074 <= e -> format64 (bpow radix2 e).
Proof. intros e He. apply generic_format_FLT_bpow; [exact Hprec | exact He]. Qed.

Lemma RN_IZR : forall z, Z.abs z < 2 ^ 53 -> RN (IZR z) = IZR z.
Proof. intros z Hz. apply RN_generic. apply format64_IZR. exact Hz. Qed.

Lemma RN_abs_le : forall x y, format64 y -> (Rabs x <= y)%R -> (Rabs (RN x) <= y)%R.
Proof. intros x y Hy Hx. unfold RN. apply abs_round_le_generic; auto with typeclass_instances. Qed.

Lemma RN_ge_0 : forall x, (0 <= x)%R -> (0 <= RN x)%R.
Proof. intros x Hx. rewrite <- RN_0. apply RN_le. exact Hx. Qed.

Lemma RN_le_format : forall x y, format64 y -> (x <= y)%R -> (RN x <= y)%R.
Proof. intros x y Hy Hx. rewrite <- (RN_generic y Hy). apply RN_le. exact Hx. Qed.

Lemma RN_ge_format : forall x y, format64 y -> (y <= x)%R -> (y <= RN x)%R.
Proof. intros x y Hy Hx. rewrite <- (RN_generic y Hy). apply RN_le. exact Hx. Qed.

(** Half-ulp error bound in absolute form. *)
Lemma RN_error :
  forall x e, (Rabs x < bpow radix2 e)%R -> -1021 <= e ->
  (Rabs (RN x - x) <= bpow radix2 (e - 54))%R.
Proof.
  intros x e Hx He.
  destruct (Req_dec x 0) as [E|Hx0].
  - subst x. rewrite RN_0, Rminus_0_r, Rabs_R0. apply bpow_ge_0.
  - eapply Rle_trans; [unfold RN; apply error_le_half_ulp; auto with typeclass_instances|].
    rewrite ulp_neq_0 by exact Hx0. unfold cexp.
    assert (mag radix2 x <= e) as Hm by (apply mag_le_bpow; assumption).
    replace (e - 54) with (-1 + (e - 53)) by lia. rewrite bpow_plus.
    change (bpow radix2 (-1)) with (/ 2)%R.
    apply Rmult_le_compat_l; [lra|]. apply bpow_le.
    unfold FLT_exp, emax, prec. lia.
Qed.

Lemma bpow_lt_emax : forall e, e <= 1023 -> (bpow radix2 e < bpow radix2 emax)%R.
Proof. intros e He. apply bpow_lt. unfold emax. lia. Qed.

(** No overflow when the exact value is bounded by a representable power of two. *)
Lemma RN_no_overflow :
  forall x e, (Rabs x <= bpow radix2 e)%R -> -1074 <= e <= 1023 ->
  (Rabs (RN x) < bpow radix2 emax)%R.
Proof.
  intros x e Hx He. eapply Rle_lt_trans; [apply RN_abs_le; [apply format64_bpow|exact Hx]; lia|].
  apply bpow_lt_emax. lia.
Qed.

(** * Semantics of the operations *)

Lemma of_Z_correct :
  forall z, Z.abs z <= 2 ^ 64 -> B2R (of_Z z) = RN (IZR z) /\ is_finite (of_Z z) = true.
Proof.
  intros z Hz. unfold of_Z.
  pose proof (binary_normalize_correct prec emax Hprec Hmax mode_NE z 0 false) as H.
  cbv zeta in H. rewrite round_mode_NE in H.
  assert (F2R (Float radix2 z 0) = IZR z) as E.
  { unfold F2R. cbn [Fnum Fexp bpow]. apply Rmult_1_r. }
  rewrite E in H. fold (RN (IZR z)) in H.
  rewrite Rlt_bool_true in H.
  - destruct H as (H1 & H2 & _). split; assumption.
  - apply (RN_no_overflow _ 64); [|lia].
    rewrite <- abs_IZR. change (bpow radix2 64) with (IZR (2 ^ 64)). apply IZR_le. exact Hz.
Qed.

Lemma of_Z_exact :
  forall z, Z.abs z < 2 ^ 53 -> B2R (of_Z z) = IZR z /\ is_finite (of_Z z) = true.
Proof.
  intros z Hz. destruct (of_Z_correct z) as [H1 H2]; [lia|].
  split; [|exact H2]. rewrite H1. apply RN_IZR. exact Hz.
Qed.

Lemma fdiv_correct :
  forall a b e, B2R b <> 0%R -> (Rabs (B2R a / B2R b) <= bpow radix2 e)%R -> -1074 <= e <= 1023 ->
  B2R (fdiv a b) = RN (B2R a / B2R b) /\ is_finite (fdiv a b) = is_finite a.
Proof.
  intros a b e Hb Hq He. unfold fdiv.
  pose proof (Bdiv_correct prec emax Hprec Hmax mode_NE a b Hb) as H.
  rewrite round_mode_NE in H. fold (RN (B2R a / B2R b)) in H.
  rewrite Rlt_bool_true in H by (apply (RN_no_overflow _ e); assumption).
  destruct H as (H1 & H2 & _). split; assumption.
Qed.

Lemma fmul_correct :
  forall a b e, (Rabs (B2R a * B2R b) <= bpow radix2 e)%R -> -1074 <= e <= 1023 ->
  B2R (fmul a b) = RN (B2R a * B2R b).
Proof.
  intros a b e Hq He. unfold fmul.
  pose proof (Bmult_correct prec emax Hprec Hmax mode_NE a b) as H.
  rewrite round_mode_NE in H. fold (RN (B2R a * B2R b)) in H.
  rewrite Rlt_bool_true in H by (apply (RN_no_overflow _ e); assumption).
  destruct H as (H1 & _). exact H1.
Qed.

Lemma fsub_correct :
  forall a b e, is_finite a = true -> is_finite b = true ->
  (Rabs (B2R a - B2R b) <= bpow radix2 e)%R -> -1074 <= e <= 1023 ->
  B2R (fsub a b) = RN (B2R a - B2R b) /\ is_finite (fsub a b) = true.
Proof.
  intros a b e Fa Fb Hq He. unfold fsub.
  pose proof (Bminus_correct prec emax Hprec Hmax mode_NE a b Fa Fb) as H.
  rewrite round_mode_NE in H. fold (RN (B2R a - B2R b)) in H.
  rewrite Rlt_bool_true in H by (apply (RN_no_overflow _ e); assumption).
  destruct H as (H1 & H2 & _). split; assumption.
Qed.

Lemma ftrunc_correct : forall a, ftrunc a = Ztrunc (B2R a).
Proof.
  intros a. unfold ftrunc. apply eq_IZR.
  rewrite (Btrunc_correct prec emax Hmax a). apply round_FIX_IZR.
Qed.

Lemma frint_correct : forall a, B2R (frint a) = IZR (ZnearestE (B2R a)).
Proof.
  intros a. unfold frint.
  destruct (Bnearbyint_correct prec emax Hmax mode_NE a) as (H & _).
  rewrite H. rewrite round_mode_NE. apply round_FIX_IZR.
Qed.

(** * Exactness of the fractional-part subtraction (Sterbenz) *)

Lemma format64_frac :
  forall x, format64 x -> (0 <= x)%R -> Z.abs (Zfloor x) < 2 ^ 53 ->
  format64 (x - IZR (Zfloor x)).
Proof.
  intros x Fx Hx Hk.
  pose proof (Zfloor_lb x) as Hlb. pose proof (Zfloor_ub x) as Hub.
  destruct (Z.eq_dec (Zfloor x) 0) as [E|Hne].
  - rewrite E. rewrite Rminus_0_r. exact Fx.
  - assert (1 <= Zfloor x) as H1.
    { assert (0 <= Zfloor x) as H0 by (apply Zfloor_lub; exact Hx). lia. }
    apply IZR_le in H1.
    apply sterbenz; auto with typeclass_instances.
    + apply format64_IZR. exact Hk.
    + split; lra.
Qed.

(** * Monotonicity of nearest-even to integer *)

Lemma ZnearestE_le : forall x y, (x <= y)%R -> ZnearestE x <= ZnearestE y.
Proof. intros x y H. apply Zrnd_le; auto with typeclass_instances. Qed.

Lemma ZnearestE_IZR : forall z, ZnearestE (IZR z) = z.
Proof. intros z. apply Zrnd_IZR; auto with typeclass_instances. Qed.
