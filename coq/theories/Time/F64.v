(** IEEE-754 binary64 as Flocq's computable [binary_float 53 1024] (single-NaN variant).
    Only the operations CPython performs in the two converters.  No proofs in this file. *)
From Coq Require Import ZArith.
From Flocq Require Import Core BinarySingleNaN.
Open Scope Z_scope.

Definition prec := 53.
Definition emax := 1024.
#[global] Instance Hprec : Prec_gt_0 prec. Proof. reflexivity. Qed.
#[global] Instance Hmax : Prec_lt_emax prec emax. Proof. reflexivity. Qed.

Definition f64 := binary_float prec emax.

(** int -> float, correctly rounded to nearest even (PyLong_AsDouble). *)
Definition of_Z (z : Z) : f64 := binary_normalize prec emax Hprec Hmax mode_NE z 0 false.
Definition fdiv (a b : f64) : f64 := Bdiv mode_NE a b.
Definition fmul (a b : f64) : f64 := Bmult mode_NE a b.
Definition fadd (a b : f64) : f64 := Bplus mode_NE a b.
Definition fsub (a b : f64) : f64 := Bminus mode_NE a b.
(** C's (long)/modf integer part: truncation toward zero. *)
Definition ftrunc (a : f64) : Z := Btrunc a.
(** round-half-even to an integral float (_PyTime_Round with ROUND_HALF_EVEN). *)
Definition frint (a : f64) : f64 := Bnearbyint mode_NE a.
Definition fle (a b : f64) : bool := Bleb a b.
Definition flt (a b : f64) : bool := Bltb a b.

(** Observation of a float as (signed mantissa, exponent); used by the correspondence check
    against float.hex(). *)
Definition show (x : f64) : option (Z * Z) :=
  match x with
  | B754_finite s m e _ => Some ((if s then -1 else 1) * Zpos m, e)
  | B754_zero _ => Some (0, 0)
  | _ => None
  end.
