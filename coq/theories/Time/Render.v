(** Fixed-width printing/parsing of "%Y-%m-%dT%H:%M:%S.%fZ".  No proofs in this file. *)
From Coq Require Import ZArith Bool String Ascii List.
From V Require Import Time.Calendar.
Open Scope Z_scope.

Definition digit (n : Z) : ascii := ascii_of_nat (48 + Z.to_nat n).

(** [pad k n]: the k least significant decimal digits of n, most significant first. *)
Fixpoint pad (k : nat) (n : Z) : string :=
  match k with
  | O => EmptyString
  | S k' => append (pad k' (n / 10)) (String (digit (n mod 10)) EmptyString)
  end.

Definition sep (c : string) (s : string) : string := append c s.

Definition render_dt (t : dt) : string :=
  (pad 4 (yr t) ++ "-" ++ pad 2 (mo t) ++ "-" ++ pad 2 (dy t) ++ "T" ++
   pad 2 (hh t) ++ ":" ++ pad 2 (mi t) ++ ":" ++ pad 2 (ss t) ++ "." ++ pad 6 (fr t) ++ "Z")%string.

Definition render (us : Z) : string := render_dt (dt_of_us us).

(** Parsing: exactly the shape produced above (the model's domain); anything else is None. *)
Definition digit_val (c : ascii) : option Z :=
  let n := Z.of_nat (nat_of_ascii c) in
  if (48 <=? n) && (n <=? 57) then Some (n - 48) else None.

Fixpoint read_digits (k : nat) (acc : Z) (s : string) : option (Z * string) :=
  match k with
  | O => Some (acc, s)
  | S k' => match s with
            | EmptyString => None
            | String c r => match digit_val c with
                            | Some v => read_digits k' (acc * 10 + v) r
                            | None => None
                            end
            end
  end.

Definition expect (c : ascii) (s : string) : option string :=
  match s with
  | String c' r => if Ascii.eqb c c' then Some r else None
  | EmptyString => None
  end.

Definition bind {A B} (o : option A) (f : A -> option B) : option B :=
  match o with Some a => f a | None => None end.

Definition parse_dt (s : string) : option dt :=
  bind (read_digits 4 0 s) (fun '(y, s) =>
  bind (expect "-" s) (fun s =>
  bind (read_digits 2 0 s) (fun '(m, s) =>
  bind (expect "-" s) (fun s =>
  bind (read_digits 2 0 s) (fun '(d, s) =>
  bind (expect "T" s) (fun s =>
  bind (read_digits 2 0 s) (fun '(h, s) =>
  bind (expect ":" s) (fun s =>
  bind (read_digits 2 0 s) (fun '(mi, s) =>
  bind (expect ":" s) (fun s =>
  bind (read_digits 2 0 s) (fun '(sec, s) =>
  bind (expect "." s) (fun s =>
  bind (read_digits 6 0 s) (fun '(f, s) =>
  match s with
  | String "Z" EmptyString =>
      let t := mkdt y m d h mi sec f in if valid_dt t then Some t else None
  | _ => None
  end))))))))))))).

(** Lexicographic order on strings by character code (Python's str comparison on ASCII). *)
Fixpoint str_ltb (a b : string) : bool :=
  match a, b with
  | EmptyString, EmptyString => false
  | EmptyString, String _ _ => true
  | String _ _, EmptyString => false
  | String x a', String y b' =>
      let nx := nat_of_ascii x in let ny := nat_of_ascii y in
      if Nat.ltb nx ny then true else if Nat.ltb ny nx then false else str_ltb a' b'
  end.
