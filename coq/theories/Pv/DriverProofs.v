(** Proofs about the glue model Pv/Driver.v (pv_streams_to_puml_files, -im / -om handling):
    isolation between job names inside one invocation, the two quirks (later model file wins; a loaded
    model is mutated in place), the file-name mangling, and the main theorem [chain_one_shot]: chunked
    learning through saved model files for several job names at once equals one run per job name over
    all of its jobs, provided the job names of one invocation are distinct and the file-name mangling
    does not identify two job names.  [chain_collision_refuted] shows the second proviso is needed. *)
From Coq Require Import List Bool PArith Arith String Ascii Lia.
From V Require Import Puml.Ast Puml.Exec Pv.EventModel Pv.EventModelProofs Pv.Driver.
Import ListNotations.
Open Scope string_scope.
Open Scope list_scope.

(** * 0. The two finite maps *)

Lemma get_set_same : forall n m s, get n (set n m s) = Some m.
Proof.
  intros n m. induction s as [|[k x] r IH]; simpl.
  - rewrite String.eqb_refl. reflexivity.
  - destruct (String.eqb n k) eqn:E; simpl; rewrite E; [reflexivity | exact IH].
Qed.

Lemma get_set_other : forall n n' m s, n <> n' -> get n (set n' m s) = get n s.
Proof.
  intros n n' m s Hne. induction s as [|[k x] r IH]; simpl.
  - apply String.eqb_neq in Hne. rewrite Hne. reflexivity.
  - destruct (String.eqb n' k) eqn:E; simpl.
    + apply String.eqb_eq in E. subst k. apply String.eqb_neq in Hne. rewrite Hne. reflexivity.
    + destruct (String.eqb n k); [reflexivity | exact IH].
Qed.

Lemma fget_fset_same : forall f v d, fget f (fset f v d) = Some v.
Proof.
  intros f v. induction d as [|[k x] r IH]; simpl.
  - rewrite String.eqb_refl. reflexivity.
  - destruct (String.eqb f k) eqn:E; simpl; rewrite E; [reflexivity | exact IH].
Qed.

Lemma fget_fset_other : forall f f' v d, f <> f' -> fget f (fset f' v d) = fget f d.
Proof.
  intros f f' v d Hne. induction d as [|[k x] r IH]; simpl.
  - apply String.eqb_neq in Hne. rewrite Hne. reflexivity.
  - destruct (String.eqb f' k) eqn:E; simpl.
    + apply String.eqb_eq in E. subst k. apply String.eqb_neq in Hne. rewrite Hne. reflexivity.
    + destruct (String.eqb f k); [reflexivity | exact IH].
Qed.

Lemma fset_keys_in : forall f v d k, In k (map fst (fset f v d)) -> k = f \/ In k (map fst d).
Proof.
  intros f v. induction d as [|[k0 x] r IH]; intros k H; simpl in H.
  - destruct H as [H | []]. left. symmetry. exact H.
  - destruct (String.eqb f k0) eqn:E; simpl in H.
    + right. exact H.
    + destruct H as [H | H]; [right; left; exact H|].
      apply IH in H. destruct H as [H | H]; [left; exact H | right; right; exact H].
Qed.

Lemma fset_keys_nodup : forall f v d, NoDup (map fst d) -> NoDup (map fst (fset f v d)).
Proof.
  intros f v. induction d as [|[k x] r IH]; intros H; simpl.
  - constructor; [intros [] | constructor].
  - destruct (String.eqb f k) eqn:E; simpl; [exact H|].
    simpl in H. inversion H as [|? ? Hk Hr]; subst. constructor; [|apply IH, Hr].
    intros Hin. apply fset_keys_in in Hin. destruct Hin as [Hin | Hin]; [|exact (Hk Hin)].
    subst k. rewrite String.eqb_refl in E. discriminate.
Qed.

Lemma fget_Some_In : forall f v d, fget f d = Some v -> In (f, v) d.
Proof.
  intros f v. induction d as [|[k x] r IH]; simpl; intros H; [discriminate|].
  destruct (String.eqb f k) eqn:E.
  - apply String.eqb_eq in E. subst k. inversion H. left. reflexivity.
  - right. apply IH, H.
Qed.

Lemma In_fget : forall f v d, NoDup (map fst d) -> In (f, v) d -> fget f d = Some v.
Proof.
  intros f v. induction d as [|[k x] r IH]; intros Hnd Hin; [destruct Hin|]. simpl.
  simpl in Hnd. inversion Hnd as [|? ? Hk Hr]; subst.
  destruct Hin as [Hin | Hin].
  - inversion Hin; subst. rewrite String.eqb_refl. reflexivity.
  - destruct (String.eqb f k) eqn:E; [|apply IH; assumption].
    apply String.eqb_eq in E. subst k. exfalso. apply Hk.
    apply in_map_iff. exists (f, v). split; [reflexivity | exact Hin].
Qed.

(** * 1-3. One invocation *)

Lemma step_stream_eq : forall mp out n js,
  step_stream (mp, out) (n, js) =
  match get n mp with
  | Some m => (set n (ingest_from m js) mp, out ++ [mkemitted (file_name n) n (ingest_from m js)])
  | None => (mp, out ++ [mkemitted (file_name n) n (ingest_from [] js)])
  end.
Proof. reflexivity. Qed.

Lemma fold_step_isolated : forall streams mp out, NoDup (map fst streams) ->
  snd (fold_left step_stream streams (mp, out)) =
  out ++ map (fun s => mkemitted (file_name (fst s)) (fst s)
                         (ingest_from (match get (fst s) mp with Some m => m | None => [] end) (snd s)))
             streams.
Proof.
  induction streams as [|[n js] rest IH]; intros mp out Hnd.
  - simpl. rewrite app_nil_r. reflexivity.
  - simpl map in Hnd. inversion Hnd as [|? ? Hn Hrest]; subst.
    cbn [fold_left]. rewrite step_stream_eq. simpl map. simpl fst. simpl snd.
    destruct (get n mp) as [m|] eqn:G.
    + rewrite (IH _ _ Hrest). rewrite <- app_assoc. simpl. f_equal. f_equal.
      apply map_ext_in. intros s Hs. rewrite get_set_other; [reflexivity|].
      intros Heq. apply Hn. rewrite <- Heq. apply in_map, Hs.
    + rewrite (IH _ _ Hrest). rewrite <- app_assoc. reflexivity.
Qed.

(** With distinct job names in one invocation, what is written for a job name depends only on that
    name's loaded model and that name's stream. *)
Theorem run_streams_isolated : forall mp streams, NoDup (map fst streams) ->
  snd (run_streams mp streams) =
  map (fun s => mkemitted (file_name (fst s)) (fst s)
                  (ingest_from (match get (fst s) mp with Some m => m | None => [] end) (snd s)))
      streams.
Proof. intros mp streams H. unfold run_streams. rewrite fold_step_isolated by exact H. reflexivity. Qed.

Lemma fold_step_names : forall streams mp out,
  map e_name (snd (fold_left step_stream streams (mp, out))) = map e_name out ++ map fst streams /\
  map e_file (snd (fold_left step_stream streams (mp, out))) =
    map e_file out ++ map (fun s => file_name (fst s)) streams.
Proof.
  induction streams as [|[n js] rest IH]; intros mp out.
  - simpl. rewrite !app_nil_r. split; reflexivity.
  - cbn [fold_left]. rewrite step_stream_eq.
    destruct (get n mp) as [m|]; destruct (IH
      (match get n mp with Some m => set n (ingest_from m js) mp | None => mp end)
      (out ++ [mkemitted (file_name n) n (ingest_from (match get n mp with Some m => m | None => [] end) js)]))
      as [_ _];
    match goal with |- context [fold_left step_stream rest (?a, ?b)] => destruct (IH a b) as [H1 H2] end;
    rewrite H1, H2, !map_app, <- !app_assoc; split; reflexivity.
Qed.

Theorem run_streams_names : forall mp streams,
  map e_name (snd (run_streams mp streams)) = map fst streams /\
  map e_file (snd (run_streams mp streams)) = map (fun s => file_name (fst s)) streams.
Proof. intros mp streams. unfold run_streams. apply (fold_step_names streams mp []). Qed.

(** The in-place quirk: a loaded model is continued by a second stream of the same name ... *)
Theorem run_streams_repeat_loaded : forall mp n m js1 js2, get n mp = Some m ->
  snd (run_streams mp [(n, js1); (n, js2)]) =
  [mkemitted (file_name n) n (ingest_from m js1); mkemitted (file_name n) n (ingest_from m (js1 ++ js2))].
Proof.
  intros mp n m js1 js2 H. unfold run_streams. cbn [fold_left].
  rewrite step_stream_eq, H, step_stream_eq, get_set_same, ingest_from_app. reflexivity.
Qed.

(** ... whereas without a loaded model each stream starts from the empty model. *)
Theorem run_streams_repeat_unloaded : forall mp n js1 js2, get n mp = None ->
  snd (run_streams mp [(n, js1); (n, js2)]) =
  [mkemitted (file_name n) n (ingest_from [] js1); mkemitted (file_name n) n (ingest_from [] js2)].
Proof.
  intros mp n js1 js2 H. unfold run_streams. cbn [fold_left].
  rewrite step_stream_eq, H, step_stream_eq, H. reflexivity.
Qed.

(** * 4. Of two model files for one job name the later wins *)

(** the last file named [n] *)
Fixpoint last_file (files : list (string * jmodel)) (n : string) : option jmodel :=
  match files with
  | [] => None
  | (k, j) :: r => match last_file r n with
                   | Some j' => Some j'
                   | None => if String.eqb n k then Some j else None
                   end
  end.

(** the model loaded from the last file named [n], None if there is none *)
Definition last_model (files : list (string * jmodel)) (n : string) : option emodel :=
  match last_file files n with Some j => load j | None => None end.

Lemma load_inputs_get : forall files acc mp, load_inputs files acc = Some mp ->
  forall n, get n mp = match last_file files n with Some j => load j | None => get n acc end.
Proof.
  induction files as [|[k j] r IH]; intros acc mp H n; simpl in H.
  - inversion H. reflexivity.
  - destruct (load j) as [m|] eqn:L; [|discriminate].
    rewrite (IH _ _ H n). simpl. destruct (last_file r n) as [j'|]; [reflexivity|].
    destruct (String.eqb n k) eqn:E.
    + apply String.eqb_eq in E. subst k. rewrite get_set_same. symmetry. exact L.
    + apply String.eqb_neq in E. apply get_set_other, E.
Qed.

Theorem load_inputs_last_wins : forall files mp, load_inputs files [] = Some mp ->
  forall n, get n mp = last_model files n.
Proof.
  intros files mp H n. rewrite (load_inputs_get _ _ _ H n). unfold last_model.
  destruct (last_file files n); reflexivity.
Qed.

(** * 5. File names *)

Fixpoint has_space (s : string) : bool :=
  match s with
  | EmptyString => false
  | String c r => Ascii.eqb c " "%char || has_space r
  end.

Theorem file_name_no_space : forall s, has_space (file_name s) = false.
Proof.
  induction s as [|c r IH]; [reflexivity|]. simpl.
  destruct (Ascii.eqb c " "%char) eqn:E; [exact IH|]. rewrite E. exact IH.
Qed.

Theorem file_name_fixed : forall s, has_space s = false -> file_name s = s.
Proof.
  induction s as [|c r IH]; intros H; [reflexivity|]. simpl in H.
  apply orb_false_iff in H. destruct H as [H1 H2]. simpl. rewrite H1, (IH H2). reflexivity.
Qed.

Theorem file_name_idem : forall s, file_name (file_name s) = file_name s.
Proof. intros s. apply file_name_fixed, file_name_no_space. Qed.

Theorem file_name_collision : file_name "a b" = file_name "a_b" /\ "a b" <> "a_b".
Proof. split; [reflexivity | discriminate]. Qed.

(** * 6. A chain of invocations *)

Definition occurs (runs : list (list stream)) (n : string) : Prop :=
  exists r, In r runs /\ In n (map fst r).

(** the model of job name [n] learnt in one shot from all of its jobs *)
Definition model_of (runs : list (list stream)) (n : string) : emodel :=
  ingest_from [] (List.concat (map (jobs_of n) runs)).

Lemma jobs_of_not_in : forall n r, ~ In n (map fst r) -> jobs_of n r = [].
Proof.
  intros n. induction r as [|[k js] r IH]; intros H; [reflexivity|].
  unfold jobs_of. simpl. destruct (String.eqb n k) eqn:E.
  - apply String.eqb_eq in E. exfalso. apply H. left. symmetry. exact E.
  - simpl. apply IH. intros Hin. apply H. right. exact Hin.
Qed.

Lemma jobs_of_nodup : forall r n js, NoDup (map fst r) -> In (n, js) r -> jobs_of n r = js.
Proof.
  induction r as [|[k js'] r IH]; intros n js Hnd Hin; [destruct Hin|].
  simpl in Hnd. inversion Hnd as [|? ? Hk Hr]; subst.
  change (jobs_of n ((k, js') :: r)) with ((if String.eqb n k then js' else []) ++ jobs_of n r).
  destruct Hin as [Hin | Hin].
  - inversion Hin; subst. rewrite String.eqb_refl, (jobs_of_not_in _ _ Hk). apply app_nil_r.
  - destruct (String.eqb n k) eqn:E.
    + apply String.eqb_eq in E. subst k. exfalso. apply Hk.
      apply in_map_iff. exists (n, js). split; [reflexivity | exact Hin].
    + simpl. apply IH; assumption.
Qed.

Lemma model_of_snoc : forall pre r n, model_of (pre ++ [r]) n = ingest_from (model_of pre n) (jobs_of n r).
Proof.
  intros pre r n. unfold model_of. rewrite map_app, List.concat_app. simpl. rewrite app_nil_r.
  apply ingest_from_app.
Qed.

Lemma model_of_not_occurs : forall runs n, ~ occurs runs n -> model_of runs n = [].
Proof.
  intros runs n H. unfold model_of.
  assert (E : List.concat (map (jobs_of n) runs) = []).
  { induction runs as [|r rs IH]; [reflexivity|]. simpl. rewrite jobs_of_not_in.
    - apply IH. intros [r' [H1 H2]]. apply H. exists r'. split; [right; exact H1 | exact H2].
    - intros Hin. apply H. exists r. split; [left; reflexivity | exact Hin]. }
  rewrite E. reflexivity.
Qed.

Lemma occurs_app : forall a b n, occurs (a ++ b) n <-> occurs a n \/ occurs b n.
Proof.
  intros a b n. unfold occurs. split.
  - intros [r [H1 H2]]. apply in_app_or in H1. destruct H1 as [H1 | H1]; [left | right]; exists r; tauto.
  - intros [[r [H1 H2]] | [r [H1 H2]]]; exists r; (split; [apply in_or_app; tauto | exact H2]).
Qed.

Lemma occurs_single : forall r n, occurs [r] n <-> In n (map fst r).
Proof.
  intros r n. unfold occurs. split.
  - intros [r' [[H1 | []] H2]]. subst r'. exact H2.
  - intros H. exists r. split; [left; reflexivity | exact H].
Qed.

(** every model file named with -im holds the well-formed model [Mf] of its job name: all load, and
    the map of loaded models is [Mf] on the names given *)
Lemma load_inputs_uniform : forall (Mf : string -> emodel) files acc,
  (forall n j, In (n, j) files -> j = save (Mf n) /\ wf_model (Mf n) = true) ->
  exists mp, load_inputs files acc = Some mp /\
             (forall n, In n (map fst files) -> get n mp = Some (Mf n)) /\
             (forall n, ~ In n (map fst files) -> get n mp = get n acc).
Proof.
  intros Mf. induction files as [|[k j] r IH]; intros acc H.
  - exists acc. split; [reflexivity|]. split; [intros n [] | reflexivity].
  - destruct (H k j (or_introl eq_refl)) as [Hj Hw]. simpl. subst j. rewrite (load_save _ Hw).
    destruct (IH (set k (Mf k) acc)) as [mp [Hl [Hin Hnin]]].
    { intros n j Hnj. apply H. right. exact Hnj. }
    exists mp. split; [exact Hl|]. split.
    + intros n Hn. destruct (in_dec string_dec n (map fst r)) as [Hr | Hr]; [apply Hin, Hr|].
      destruct Hn as [Hn | Hn]; [|contradiction]. simpl in Hn. subst k.
      rewrite (Hnin n Hr). apply get_set_same.
    + intros n Hn. simpl in Hn. rewrite Hnin; [|tauto]. apply get_set_other. intros E. apply Hn. left.
      symmetry. exact E.
Qed.

Lemma write_models_other : forall out d f, (forall e, In e out -> e_file e <> f) ->
  fget f (write_models d out) = fget f d.
Proof.
  unfold write_models. induction out as [|e out IH]; intros d f H; [reflexivity|]. simpl.
  rewrite IH; [|intros e' He'; apply H; right; exact He'].
  apply fget_fset_other. intros E. apply (H e (or_introl eq_refl)). symmetry. exact E.
Qed.

Lemma write_models_in : forall out d e, NoDup (map e_file out) -> In e out ->
  fget (e_file e) (write_models d out) = Some (e_name e, save (e_model e)).
Proof.
  induction out as [|e0 out IH]; intros d e Hnd Hin; [destruct Hin|].
  simpl in Hnd. inversion Hnd as [|? ? H0 Hr]; subst.
  change (write_models d (e0 :: out)) with (write_models (fset (e_file e0) (e_name e0, save (e_model e0)) d) out).
  destruct Hin as [Hin | Hin].
  - subst e0. rewrite write_models_other; [apply fget_fset_same|].
    intros e' He' E. apply H0. rewrite <- E. apply in_map, He'.
  - apply IH; assumption.
Qed.

Lemma write_models_nodup : forall out d, NoDup (map fst d) -> NoDup (map fst (write_models d out)).
Proof.
  unfold write_models. induction out as [|e out IH]; intros d H; [exact H|]. simpl.
  apply IH, fset_keys_nodup, H.
Qed.

Lemma NoDup_map_inj_in {A B} (f : A -> B) : forall l,
  (forall x y, In x l -> In y l -> f x = f y -> x = y) -> NoDup l -> NoDup (map f l).
Proof.
  induction l as [|a l IH]; intros Hinj Hnd; [constructor|].
  inversion Hnd as [|? ? Ha Hl]; subst. simpl. constructor.
  - intros Hin. apply in_map_iff in Hin. destruct Hin as [x [Hx Hxl]].
    apply Hinj in Hx; [|right; exact Hxl | left; reflexivity]. subst x. exact (Ha Hxl).
  - apply IH; [|exact Hl]. intros x y Hx Hy. apply Hinj; right; assumption.
Qed.

(** the invariant of the chain: the directory holds, for exactly the job names seen so far, the
    one-shot model of the name under the mangled file name, and records the name *)
Record inv (runs : list (list stream)) (d : mfiles) : Prop := mkinv {
  inv_nodup : NoDup (map fst d);
  inv_has : forall n, occurs runs n -> fget (file_name n) d = Some (n, save (model_of runs n));
  inv_only : forall f v, fget f d = Some v ->
             exists n, occurs runs n /\ f = file_name n /\ v = (n, save (model_of runs n)) }.

Lemma chain_step_inv : forall pre d r,
  inv pre d -> NoDup (map fst r) ->
  (forall n n', occurs (pre ++ [r]) n -> occurs (pre ++ [r]) n' -> file_name n = file_name n' -> n = n') ->
  exists d', chain_step (Some d) r = Some d' /\ inv (pre ++ [r]) d'.
Proof.
  intros pre d r [Hnd Hhas Honly] Hr Hinj.
  assert (Hfiles : forall n j, In (n, j) (map snd d) ->
                   j = save (model_of pre n) /\ wf_model (model_of pre n) = true).
  { intros n j Hin. apply in_map_iff in Hin. destruct Hin as [[f [n' j']] [Heq Hin]].
    simpl in Heq. inversion Heq; subst n' j'. apply (In_fget _ _ _ Hnd) in Hin.
    apply Honly in Hin. destruct Hin as [n0 [_ [_ Hv]]]. inversion Hv; subst n0.
    split; [reflexivity | apply ingest_from_wf; reflexivity]. }
  destruct (load_inputs_uniform (model_of pre) (map snd d) [] Hfiles) as [mp [Hload [Hin Hnin]]].
  assert (Hbase : forall n, match get n mp with Some m => m | None => [] end = model_of pre n).
  { intros n. destruct (in_dec string_dec n (map fst (map snd d))) as [H | H].
    - rewrite (Hin n H). reflexivity.
    - rewrite (Hnin n H). simpl. symmetry. apply model_of_not_occurs. intros Hocc. apply H.
      apply Hhas, fget_Some_In in Hocc.
      apply in_map_iff. exists (n, save (model_of pre n)). split; [reflexivity|].
      apply in_map_iff. exists (file_name n, (n, save (model_of pre n))). split; [reflexivity | exact Hocc]. }
  set (out := map (fun s : stream => mkemitted (file_name (fst s)) (fst s) (model_of (pre ++ [r]) (fst s))) r).
  assert (Hout : snd (run_streams mp r) = out).
  { rewrite run_streams_isolated by exact Hr. apply map_ext_in. intros [n js] Hs. simpl.
    rewrite Hbase, model_of_snoc, (jobs_of_nodup r n js Hr Hs). reflexivity. }
  assert (Hoccr : forall n, In n (map fst r) -> occurs (pre ++ [r]) n).
  { intros n Hn. apply occurs_app. right. apply occurs_single, Hn. }
  assert (Hoccp : forall n, occurs pre n -> occurs (pre ++ [r]) n).
  { intros n Hn. apply occurs_app. left. exact Hn. }
  assert (Hnot : forall n, ~ In n (map fst r) -> model_of (pre ++ [r]) n = model_of pre n).
  { intros n Hn. rewrite model_of_snoc, (jobs_of_not_in _ _ Hn). reflexivity. }
  assert (Hofiles : map e_file out = map file_name (map fst r)).
  { unfold out. rewrite !map_map. reflexivity. }
  assert (Hondup : NoDup (map e_file out)).
  { rewrite Hofiles. apply NoDup_map_inj_in; [|exact Hr].
    intros x y Hx Hy. apply Hinj; apply Hoccr; assumption. }
  assert (Hoin : forall n, In n (map fst r) ->
            In (mkemitted (file_name n) n (model_of (pre ++ [r]) n)) out).
  { intros n Hn. apply in_map_iff in Hn. destruct Hn as [s [Hs1 Hs2]]. subst n.
    unfold out. apply in_map_iff. exists s. split; [reflexivity | exact Hs2]. }
  assert (Hoout : forall e, In e out -> In (e_name e) (map fst r) /\
            e_file e = file_name (e_name e) /\ e_model e = model_of (pre ++ [r]) (e_name e)).
  { intros e He. unfold out in He. apply in_map_iff in He. destruct He as [s [Hs1 Hs2]]. subst e. simpl.
    split; [apply in_map, Hs2 | split; reflexivity]. }
  exists (write_models d out). split.
  { unfold chain_step, invoke. rewrite Hload, Hout. reflexivity. }
  constructor.
  - apply write_models_nodup, Hnd.
  - intros n Hocc. destruct (in_dec string_dec n (map fst r)) as [Hn | Hn].
    + apply (write_models_in out d _ Hondup (Hoin n Hn)).
    + rewrite write_models_other.
      * rewrite (Hnot n Hn). apply Hhas. apply occurs_app in Hocc. destruct Hocc as [Hocc | Hocc]; [exact Hocc|].
        apply occurs_single in Hocc. contradiction.
      * intros e He E. destruct (Hoout e He) as [He1 [He2 _]]. rewrite He2 in E.
        apply Hinj in E; [|apply Hoccr, He1 | exact Hocc]. apply Hn. rewrite <- E. exact He1.
  - intros f v Hf. destruct (in_dec string_dec f (map e_file out)) as [Hfo | Hfo].
    + apply in_map_iff in Hfo. destruct Hfo as [e [He1 He2]]. subst f.
      rewrite (write_models_in out d e Hondup He2) in Hf. inversion Hf; subst v.
      destruct (Hoout e He2) as [Hn [Hef Hem]]. exists (e_name e). split; [apply Hoccr, Hn|].
      rewrite Hem. split; [exact Hef | reflexivity].
    + rewrite write_models_other in Hf.
      * apply Honly in Hf. destruct Hf as [n [Hocc [Hf Hv]]]. exists n. split; [apply Hoccp, Hocc|].
        split; [exact Hf|]. rewrite Hnot; [exact Hv|]. intros Hn. apply Hfo. subst f.
        rewrite Hofiles. apply in_map, Hn.
      * intros e He E. apply Hfo. rewrite <- E. apply in_map, He.
Qed.

Lemma chain_inv : forall runs pre d,
  inv pre d -> Forall (fun r => NoDup (map fst r)) runs ->
  (forall n n', occurs (pre ++ runs) n -> occurs (pre ++ runs) n' -> file_name n = file_name n' -> n = n') ->
  exists d', fold_left chain_step runs (Some d) = Some d' /\ inv (pre ++ runs) d'.
Proof.
  induction runs as [|r rs IH]; intros pre d Hinv Hnd Hinj.
  - exists d. rewrite app_nil_r. split; [reflexivity | exact Hinv].
  - inversion Hnd as [|? ? Hr Hrs]; subst.
    assert (Hsub : forall n, occurs (pre ++ [r]) n -> occurs (pre ++ r :: rs) n).
    { intros n H. apply occurs_app in H. apply occurs_app. destruct H as [H | H]; [left; exact H|]. right.
      apply occurs_single in H. exists r. split; [left; reflexivity | exact H]. }
    destruct (chain_step_inv pre d r Hinv Hr) as [d1 [Hstep Hinv1]].
    { intros n n' Hn Hn'. apply Hinj; apply Hsub; assumption. }
    destruct (IH (pre ++ [r]) d1 Hinv1 Hrs) as [d' [Hfold Hinv']].
    { rewrite <- app_assoc. exact Hinj. }
    exists d'. cbn [fold_left]. rewrite Hstep. rewrite <- app_assoc in Hinv'. split; assumption.
Qed.

(** Chunked learning through saved model files, for several job names at once, equals one run over all
    the jobs of each name, and each model file records its job name. *)
Theorem chain_one_shot : forall runs : list (list stream),
  Forall (fun r => NoDup (map fst r)) runs ->
  (forall n n', occurs runs n -> occurs runs n' -> file_name n = file_name n' -> n = n') ->
  exists d, chain runs = Some d /\
    (forall n, occurs runs n ->
       fget (file_name n) d = Some (n, save (ingest_from [] (List.concat (map (jobs_of n) runs))))) /\
    (forall f, (forall n, occurs runs n -> f <> file_name n) -> fget f d = None).
Proof.
  intros runs Hnd Hinj.
  destruct (chain_inv runs [] []) as [d [Hd [_ Hhas Honly]]].
  - constructor; [constructor | intros n [r [[] _]] | intros f v H; discriminate].
  - exact Hnd.
  - exact Hinj.
  - simpl in Hhas, Honly. exists d. split; [exact Hd|]. split; [exact Hhas|].
    intros f Hf. destruct (fget f d) as [v|] eqn:E; [|reflexivity].
    apply Honly in E. destruct E as [n [Hocc [E _]]]. exfalso. exact (Hf n Hocc E).
Qed.

(** * 7. Without injectivity of the file-name mangling the chain theorem fails: two job names that
    differ only by space / underscore share one model file, the later write wins and the file records
    the later name. *)
Theorem chain_collision_refuted :
  exists runs, Forall (fun r => NoDup (map fst r)) runs /\
    exists d, chain runs = Some d /\
      exists n, (exists r, In r runs /\ In n (map fst r)) /\
        fget (file_name n) d <> Some (n, save (ingest_from [] (List.concat (map (jobs_of n) runs)))).
Proof.
  exists [[("a b", [[(2%positive, [])]]); ("a_b", [[(3%positive, [])]])]]. split.
  - constructor; [|constructor]. simpl. constructor; [|constructor; [intros [] | constructor]].
    intros [H | []]. discriminate.
  - eexists. split; [vm_compute; reflexivity|].
    exists "a b". split.
    + eexists. split; [left; reflexivity | left; reflexivity].
    + vm_compute. discriminate.
Qed.

(** * 8. Non-vacuity of [chain_one_shot]: two job names (one with a space), two invocations *)

Definition ex_runs : list (list stream) :=
  [ [("job a", [[(2%positive, []); (3%positive, [0])]]); ("jobb", [[(2%positive, []); (4%positive, [0])]])];
    [("jobb", [[(2%positive, []); (5%positive, [0]); (6%positive, [0])]]); ("job a", [[(3%positive, [])]; [(2%positive, [])]])] ].

Lemma ex_runs_occurs : forall n, occurs ex_runs n -> n = "job a" \/ n = "jobb".
Proof.
  intros n [r [Hr Hn]]. simpl in Hr. destruct Hr as [Hr | [Hr | []]]; subst r; simpl in Hn;
    destruct Hn as [Hn | [Hn | []]]; subst n; tauto.
Qed.

Example ex_runs_hyps :
  Forall (fun r => NoDup (map fst r)) ex_runs /\
  (forall n n', occurs ex_runs n -> occurs ex_runs n' -> file_name n = file_name n' -> n = n') /\
  occurs ex_runs "job a" /\ occurs ex_runs "jobb".
Proof.
  split; [|split; [|split]].
  - repeat constructor; simpl; intros H; repeat (destruct H as [H | H]; [discriminate|]); exact H.
  - intros n n' Hn Hn' E. apply ex_runs_occurs in Hn. apply ex_runs_occurs in Hn'.
    destruct Hn as [Hn | Hn]; destruct Hn' as [Hn' | Hn']; subst n n'; try reflexivity; discriminate.
  - eexists. split; [left; reflexivity | left; reflexivity].
  - eexists. split; [left; reflexivity | right; left; reflexivity].
Qed.

(** the conclusion of [chain_one_shot] on the example, by computation: the directory holds exactly the
    two files, each with its job name and the one-shot model of all the jobs of that name *)
Example ex_runs_chain :
  chain ex_runs =
  Some [("job_a", ("job a", save (ingest_from [] [[(2%positive, []); (3%positive, [0])]; [(3%positive, [])]; [(2%positive, [])]])));
        ("jobb", ("jobb", save (ingest_from [] [[(2%positive, []); (4%positive, [0])];
                                                 [(2%positive, []); (5%positive, [0]); (6%positive, [0])]])))] /\
  List.concat (map (jobs_of "job a") ex_runs) = [[(2%positive, []); (3%positive, [0])]; [(3%positive, [])]; [(2%positive, [])]] /\
  List.concat (map (jobs_of "jobb") ex_runs) = [[(2%positive, []); (4%positive, [0])]; [(2%positive, []); (5%positive, [0]); (6%positive, [0])]].
Proof. vm_compute. repeat split. Qed.

(** ... and the same obtained from the theorem *)
Example ex_runs_one_shot :
  exists d, chain ex_runs = Some d /\
    fget "job_a" d = Some ("job a", save (ingest_from [] (List.concat (map (jobs_of "job a") ex_runs)))) /\
    fget "jobb" d = Some ("jobb", save (ingest_from [] (List.concat (map (jobs_of "jobb") ex_runs)))) /\
    fget "job a" d = None.
Proof.
  destruct ex_runs_hyps as [Ha [Hb [Ho1 Ho2]]].
  destruct (chain_one_shot ex_runs Ha Hb) as [d [Hd [Hhas Hnone]]].
  exists d. split; [exact Hd|]. split; [exact (Hhas _ Ho1)|]. split; [exact (Hhas _ Ho2)|].
  apply Hnone. intros n Hn. apply ex_runs_occurs in Hn. destruct Hn as [Hn | Hn]; subst n; discriminate.
Qed.

Print Assumptions chain_one_shot.
Print Assumptions run_streams_isolated.
