(** Model of the glue between the PV streams and the learner: tel2puml/pv_to_puml/pv_to_puml.py
    pv_streams_to_puml_files (lines 267-313) and the -im / -om handling of tel2puml/otel_to_puml.py
    (lines 57-69, 131-137).

    One invocation receives the model files named with -im (each records a job NAME and a model) and a
    sequence of (job name, job stream) pairs; per pair it learns from the stream on top of the model
    loaded for that job name (an empty model when none was given) and writes <file>.puml and, with -om,
    <file>_model.json where <file> is the job name with every space replaced by an underscore; the model
    file records the job NAME.

    Faithful to two quirks of the code:
    - the dictionary of loaded models is keyed by job name and filled in the order the files are named, so
      of two model files for one job name the later wins;
    - a loaded model is updated IN PLACE, so a second stream under the same job name in the same invocation
      continues from the first one's result, whereas without a loaded model every stream starts from an
      empty model (the fresh dictionary is not entered into the map).
    No proofs in this file. *)
From Coq Require Import List Bool PArith Arith String Ascii.
From V Require Import Puml.Ast Puml.Exec Pv.EventModel.
Import ListNotations.
Open Scope string_scope.
Open Scope list_scope.

(** job_name.replace(" ", "_") *)
Fixpoint file_name (s : string) : string :=
  match s with
  | EmptyString => EmptyString
  | String c r => String (if Ascii.eqb c " "%char then "_"%char else c) (file_name r)
  end.

Definition mstore := list (string * emodel).

Fixpoint get (n : string) (s : mstore) : option emodel :=
  match s with
  | [] => None
  | (k, m) :: r => if String.eqb n k then Some m else get n r
  end.

(** dict assignment: replace in place, or append *)
Fixpoint set (n : string) (m : emodel) (s : mstore) : mstore :=
  match s with
  | [] => [(n, m)]
  | (k, x) :: r => if String.eqb n k then (k, m) :: r else (k, x) :: set n m r
  end.

(** what one (job name, stream) pair produces *)
Record emitted := mkemitted { e_file : string; e_name : string; e_model : emodel }.

Definition stream := (string * list jobgraph)%type.

(** pv_streams_to_puml_files over the map of loaded models; returns the map afterwards (loaded models are
    mutated in place) and what was written, in order *)
Definition step_stream (st : mstore * list emitted) (s : stream) : mstore * list emitted :=
  let '(mp, out) := st in
  let '(n, js) := s in
  match get n mp with
  | Some m => let r := ingest_from m js in (set n r mp, out ++ [mkemitted (file_name n) n r])
  | None => (mp, out ++ [mkemitted (file_name n) n (ingest_from [] js)])
  end.

Definition run_streams (mp : mstore) (streams : list stream) : mstore * list emitted :=
  fold_left step_stream streams (mp, []).

(** otel_to_puml: load_events_from_file for every -im file in order (ValueError of any file aborts) *)
Fixpoint load_inputs (files : list (string * jmodel)) (acc : mstore) : option mstore :=
  match files with
  | [] => Some acc
  | (n, j) :: r => match load j with Some m => load_inputs r (set n m acc) | None => None end
  end.

(** one CLI invocation with -im <files> and -om *)
Definition invoke (files : list (string * jmodel)) (streams : list stream) : option (list emitted) :=
  match load_inputs files [] with
  | Some mp => Some (snd (run_streams mp streams))
  | None => None
  end.

(** the directory of model files after an invocation with -om: <file>_model.json is overwritten by the
    later write; contents = (recorded job name, saved model) *)
Definition mfiles := list (string * (string * jmodel)).      (* file name -> (job name, model) *)

Fixpoint fset (f : string) (v : string * jmodel) (d : mfiles) : mfiles :=
  match d with
  | [] => [(f, v)]
  | (k, x) :: r => if String.eqb f k then (k, v) :: r else (k, x) :: fset f v r
  end.

Definition write_models (d : mfiles) (out : list emitted) : mfiles :=
  fold_left (fun acc e => fset (e_file e) (e_name e, save (e_model e)) acc) out d.

(** a chain of invocations, each given every model file written so far (-im <dir>/*_model.json) and -om *)
Definition chain_step (d : option mfiles) (streams : list stream) : option mfiles :=
  match d with
  | None => None
  | Some d => match invoke (map snd d) streams with
              | Some out => Some (write_models d out)
              | None => None
              end
  end.

Definition chain (runs : list (list stream)) : option mfiles := fold_left chain_step runs (Some []).

(** the jobs supplied under job name [n] in one invocation / over a chain *)
Definition jobs_of (n : string) (streams : list stream) : list jobgraph :=
  flat_map (fun s => if String.eqb n (fst s) then snd s else []) streams.

Fixpoint fget (f : string) (d : mfiles) : option (string * jmodel) :=
  match d with
  | [] => None
  | (k, v) :: r => if String.eqb f k then Some v else fget f r
  end.
