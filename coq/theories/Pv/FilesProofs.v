(** Proofs about the file layer model [V.Pv.Files]: clustering by job id, numbered sequence files. *)
From Coq Require Import List Bool PArith Arith String Ascii Lia Permutation DecimalString DecimalNat DecimalFacts.
From V Require Import Pv.Files.
Import ListNotations.
Open Scope list_scope.

(** job ids in order of first appearance *)
Fixpoint first_seen (l : list positive) : list positive :=
  match l with
  | [] => []
  | x :: r => x :: filter (fun y => negb (Pos.eqb y x)) (first_seen r)
  end.

Lemma filter_true_id : forall (B : Type) (l : list B), filter (fun _ => true) l = l.
Proof.
  intros B l. induction l as [|x r IH]; simpl; [reflexivity|]. now rewrite IH.
Qed.

Lemma filter_filter_and : forall (B : Type) (f g : B -> bool) (l : list B),
  filter f (filter g l) = filter (fun x => g x && f x) l.
Proof.
  intros B f g l. induction l as [|x r IH]; simpl; [reflexivity|].
  destruct (g x) eqn:Hg; simpl.
  - destruct (f x); now rewrite IH.
  - exact IH.
Qed.

Lemma first_seen_In : forall l x, In x (first_seen l) <-> In x l.
Proof.
  induction l as [|a r IH]; intros x; simpl; [tauto|].
  rewrite filter_In, IH. split.
  - intros [H|[H _]]; auto.
  - intros [H|H]; auto. destruct (Pos.eqb_spec x a) as [E|E]; auto.
Qed.

Lemma first_seen_NoDup : forall l, NoDup (first_seen l).
Proof.
  induction l as [|a r IH]; simpl; constructor.
  - rewrite filter_In. intros [_ H]. now rewrite Pos.eqb_refl in H.
  - now apply NoDup_filter.
Qed.

Lemma Permutation_filter' : forall (B : Type) (f : B -> bool) (l l' : list B),
  Permutation l l' -> Permutation (filter f l) (filter f l').
Proof.
  intros B f l l' H. induction H as [|x l l' H IH|x y l|l l' l'' H1 IH1 H2 IH2]; simpl.
  - constructor.
  - destruct (f x); auto.
  - destruct (f x), (f y); auto using Permutation_refl. apply perm_swap.
  - eapply perm_trans; eauto.
Qed.

Section ClusterProofs.
  Variable A : Type.

  Notation step := (fun acc (p : positive * A) => cluster_add A (fst p) (snd p) acc).

  (** the list recorded for job [k] in an accumulator ([[]] when absent) *)
  Fixpoint lst (k : positive) (acc : list (positive * list A)) : list A :=
    match acc with
    | [] => []
    | (k', l) :: r => if Pos.eqb k k' then l else lst k r
    end.

  Lemma keys_cluster_add : forall j e acc,
    map fst (cluster_add A j e acc) =
    if existsb (Pos.eqb j) (map fst acc) then map fst acc else map fst acc ++ [j].
  Proof.
    intros j e acc. induction acc as [|[k l] r IH]; simpl; [reflexivity|].
    destruct (Pos.eqb j k) eqn:E; simpl; [reflexivity|].
    rewrite IH. now destruct (existsb (Pos.eqb j) (map fst r)).
  Qed.

  Lemma existsb_eqb_In : forall j l, existsb (Pos.eqb j) l = true <-> In j l.
  Proof.
    intros j l. rewrite existsb_exists. split.
    - intros [x [Hx E]]. apply Pos.eqb_eq in E. now subst.
    - intros H. exists j. split; auto. apply Pos.eqb_refl.
  Qed.

  Lemma lst_cluster_add : forall k j e acc,
    lst k (cluster_add A j e acc) = if Pos.eqb k j then lst k acc ++ [e] else lst k acc.
  Proof.
    intros k j e acc. induction acc as [|[k' l] r IH]; simpl.
    - now destruct (Pos.eqb k j).
    - destruct (Pos.eqb_spec j k') as [E1|E1]; simpl.
      + subst k'. destruct (Pos.eqb k j); reflexivity.
      + destruct (Pos.eqb_spec k k') as [E2|E2].
        * subst k'. destruct (Pos.eqb_spec k j) as [E3|E3]; [congruence|reflexivity].
        * exact IH.
  Qed.

  Lemma nodup_cluster_add : forall j e acc,
    NoDup (map fst acc) -> NoDup (map fst (cluster_add A j e acc)).
  Proof.
    intros j e acc H. rewrite keys_cluster_add.
    destruct (existsb (Pos.eqb j) (map fst acc)) eqn:E; [exact H|].
    eapply Permutation_NoDup; [apply Permutation_cons_append|].
    constructor; [|exact H]. intros Hin. apply existsb_eqb_In in Hin. congruence.
  Qed.

  Definition nonempty_lists (acc : list (positive * list A)) : Prop :=
    forall k l, In (k, l) acc -> l <> [].

  Lemma nonempty_cluster_add : forall j e acc,
    nonempty_lists acc -> nonempty_lists (cluster_add A j e acc).
  Proof.
    intros j e acc. induction acc as [|[k' l'] r IH]; intros H k l Hin; simpl in Hin.
    - destruct Hin as [Hin|[]]. inversion Hin. discriminate.
    - destruct (Pos.eqb j k').
      + destruct Hin as [Hin|Hin].
        * inversion Hin. destruct l'; discriminate.
        * apply (H k l). now right.
      + destruct Hin as [Hin|Hin].
        * apply (H k l). now left.
        * apply IH in Hin; auto. intros k0 l0 H0. apply (H k0 l0). now right.
  Qed.

  Lemma fold_keys : forall evs acc,
    map fst (fold_left step evs acc) =
    map fst acc ++ filter (fun y => negb (existsb (Pos.eqb y) (map fst acc))) (first_seen (map fst evs)).
  Proof.
    induction evs as [|[j e] r IH]; intros acc; simpl.
    - now rewrite List.app_nil_r.
    - rewrite IH, keys_cluster_add.
      destruct (existsb (Pos.eqb j) (map fst acc)) eqn:E; simpl.
      + f_equal. rewrite filter_filter_and. apply filter_ext. intros x.
        destruct (Pos.eqb_spec x j) as [Ex|Ex]; simpl.
        * subst x. now rewrite E.
        * reflexivity.
      + rewrite <- List.app_assoc. simpl. f_equal. f_equal.
        rewrite filter_filter_and. apply filter_ext. intros x.
        rewrite existsb_app. simpl. rewrite orb_false_r, negb_orb. apply andb_comm.
  Qed.

  Lemma fold_lst : forall k evs acc,
    lst k (fold_left step evs acc) = lst k acc ++ events_of_job A k evs.
  Proof.
    intros k. induction evs as [|[j e] r IH]; intros acc; simpl.
    - unfold events_of_job. simpl. now rewrite List.app_nil_r.
    - rewrite IH, lst_cluster_add. unfold events_of_job. simpl.
      rewrite (Pos.eqb_sym j k). destruct (Pos.eqb k j); simpl.
      + now rewrite <- List.app_assoc.
      + reflexivity.
  Qed.

  Lemma fold_nodup : forall evs acc,
    NoDup (map fst acc) -> NoDup (map fst (fold_left step evs acc)).
  Proof.
    induction evs as [|[j e] r IH]; intros acc H; simpl; [exact H|].
    apply IH. now apply nodup_cluster_add.
  Qed.

  Lemma In_lst : forall acc k l, NoDup (map fst acc) ->
    (In (k, l) acc <-> In k (map fst acc) /\ l = lst k acc).
  Proof.
    induction acc as [|[k' l'] r IH]; intros k l H; simpl.
    - tauto.
    - simpl in H. inversion H as [|x xs Hnin Hnd]; subst.
      destruct (Pos.eqb_spec k k') as [E|E].
      + subst k'. split.
        * intros [Hin|Hin].
          -- inversion Hin. auto.
          -- exfalso. apply Hnin. apply (in_map fst) in Hin. exact Hin.
        * intros [_ Hl]. left. now subst.
      + rewrite (IH k l Hnd). split.
        * intros [Hin|Hin]; [inversion Hin; congruence|]. tauto.
        * intros [[Hk|Hk] Hl]; [congruence|]. right. tauto.
  Qed.

  Lemma events_of_job_nonempty : forall j evs,
    events_of_job A j evs <> [] <-> In j (map fst evs).
  Proof.
    intros j evs. unfold events_of_job. induction evs as [|[k e] r IH]; simpl.
    - split; [congruence|tauto].
    - destruct (Pos.eqb_spec k j) as [E|E]; simpl.
      + split; [auto|discriminate].
      + rewrite IH. split; [auto|]. intros [H|H]; [congruence|exact H].
  Qed.

  Theorem cluster_keys_first_appearance : forall evs,
    map fst (cluster A evs) = first_seen (map fst evs).
  Proof.
    intros evs. unfold cluster. rewrite fold_keys. simpl. apply filter_true_id.
  Qed.

  Theorem cluster_keys_nodup : forall evs, NoDup (map fst (cluster A evs)).
  Proof.
    intros evs. unfold cluster. apply fold_nodup. constructor.
  Qed.

  Theorem cluster_spec : forall (evs : list (positive * A)) j l,
    In (j, l) (cluster A evs) <-> (l = events_of_job A j evs /\ l <> []).
  Proof.
    intros evs j l. rewrite (In_lst _ j l (cluster_keys_nodup evs)).
    rewrite cluster_keys_first_appearance, first_seen_In.
    unfold cluster. rewrite fold_lst. simpl.
    rewrite <- events_of_job_nonempty. split.
    - intros [H1 H2]. subst l. auto.
    - intros [H1 H2]. subst l. auto.
  Qed.

  Lemma cluster_NoDup : forall evs, NoDup (cluster A evs).
  Proof.
    intros evs. apply (NoDup_map_inv fst). apply cluster_keys_nodup.
  Qed.

  Lemma events_of_job_perm : forall j evs evs',
    Permutation evs evs' -> Permutation (events_of_job A j evs) (events_of_job A j evs').
  Proof.
    intros j evs evs' H. unfold events_of_job. apply Permutation_map. now apply Permutation_filter'.
  Qed.

  Theorem cluster_perm : forall evs evs', Permutation evs evs' ->
    Permutation (map fst (cluster A evs)) (map fst (cluster A evs')) /\
    forall j, Permutation (events_of_job A j evs) (events_of_job A j evs').
  Proof.
    intros evs evs' H. split.
    - apply NoDup_Permutation; try apply cluster_keys_nodup.
      intros x. rewrite !cluster_keys_first_appearance, !first_seen_In.
      assert (Hp : Permutation (map fst evs) (map fst evs')) by now apply Permutation_map.
      split; intros Hin.
      + eapply Permutation_in; eauto.
      + eapply Permutation_in; [apply Permutation_sym|]; eauto.
    - intros j. now apply events_of_job_perm.
  Qed.

  Theorem cluster_stable_perm : forall evs evs',
    (forall j, events_of_job A j evs = events_of_job A j evs') ->
    Permutation (cluster A evs) (cluster A evs').
  Proof.
    intros evs evs' H. apply NoDup_Permutation; try apply cluster_NoDup.
    intros [j l]. rewrite !cluster_spec, H. tauto.
  Qed.
End ClusterProofs.

(** the consecutive grouping is NOT the clustering on interleaved jobs, but is on a job-by-job listing *)
Theorem group_consecutive_contiguous_only_refuted :
  exists (evs : list (positive * nat)),
    group_consecutive nat evs <> cluster nat evs /\
    exists evs', Permutation evs evs' /\ group_consecutive nat evs' = cluster nat evs'.
Proof.
  exists [(1%positive, 0); (2%positive, 1); (1%positive, 2)]. split.
  - vm_compute. discriminate.
  - exists [(1%positive, 0); (1%positive, 2); (2%positive, 1)]. split.
    + apply perm_skip. apply perm_swap.
    + vm_compute. reflexivity.
Qed.

(** * file names *)

Lemma string_append_inj_l : forall (p s1 s2 : string), (p ++ s1 = p ++ s2)%string -> s1 = s2.
Proof.
  induction p as [|c p IH]; intros s1 s2 H; simpl in H; [exact H|].
  inversion H. auto.
Qed.

Lemma string_length_append : forall s1 s2 : string,
  String.length (s1 ++ s2)%string = String.length s1 + String.length s2.
Proof.
  induction s1 as [|c s1 IH]; intros s2; simpl; [reflexivity|]. now rewrite IH.
Qed.

Lemma string_append_inj_r : forall (s1 s2 t : string), (s1 ++ t = s2 ++ t)%string -> s1 = s2.
Proof.
  induction s1 as [|c s1 IH]; intros s2 t H; destruct s2 as [|c2 s2]; simpl in H.
  - reflexivity.
  - apply (f_equal String.length) in H. simpl in H. rewrite string_length_append in H. lia.
  - apply (f_equal String.length) in H. simpl in H. rewrite string_length_append in H. lia.
  - inversion H. f_equal. eapply IH; eauto.
Qed.

Lemma string_of_uint_inj : forall d d',
  NilEmpty.string_of_uint d = NilEmpty.string_of_uint d' -> d = d'.
Proof.
  intros d d' H. apply (f_equal NilEmpty.uint_of_string) in H.
  rewrite !NilEmpty.usu in H. now inversion H.
Qed.

Lemma to_uint_inj : forall n n', Nat.to_uint n = Nat.to_uint n' -> n = n'.
Proof.
  intros n n' H. apply (f_equal Nat.of_uint) in H. now rewrite !DecimalNat.Unsigned.of_to in H.
Qed.

Theorem seq_file_name_inj : forall k k', seq_file_name k = seq_file_name k' -> k = k'.
Proof.
  intros k k' H. unfold seq_file_name in H.
  apply string_append_inj_l in H. apply string_append_inj_r in H.
  apply string_of_uint_inj in H. now apply to_uint_inj.
Qed.

Section SaveProofs.
  Variable job : Type.

  Lemma save_gen_fst : forall (jobs : list job) s,
    map fst (map (fun p => (seq_file_name (S (fst p)), snd p)) (combine (seq s (List.length jobs)) jobs)) =
    map (fun k => seq_file_name (S k)) (seq s (List.length jobs)).
  Proof.
    induction jobs as [|j r IH]; intros s; simpl; [reflexivity|]. now rewrite IH.
  Qed.

  Lemma save_gen_snd : forall (jobs : list job) s,
    map snd (map (fun p => (seq_file_name (S (fst p)), snd p)) (combine (seq s (List.length jobs)) jobs)) = jobs.
  Proof.
    induction jobs as [|j r IH]; intros s; simpl; [reflexivity|]. now rewrite IH.
  Qed.

  Theorem save_jobs_names : forall (jobs : list job),
    map fst (save_jobs job jobs) = map (fun k => seq_file_name (S k)) (seq 0 (List.length jobs)) /\
    map snd (save_jobs job jobs) = jobs.
  Proof.
    intros jobs. unfold save_jobs. split; [apply save_gen_fst|apply save_gen_snd].
  Qed.

  Theorem save_jobs_names_nodup : forall (jobs : list job), NoDup (map fst (save_jobs job jobs)).
  Proof.
    intros jobs. rewrite (proj1 (save_jobs_names jobs)).
    apply FinFun.Injective_map_NoDup; [|apply seq_NoDup].
    intros x y H. apply seq_file_name_inj in H. lia.
  Qed.

  Lemma read_file_In : forall (dir : list (string * job)) n j,
    NoDup (map fst dir) -> In (n, j) dir -> read_file job n dir = Some j.
  Proof.
    induction dir as [|[k j'] r IH]; intros n j Hnd Hin; simpl in *; [contradiction|].
    inversion Hnd as [|x xs Hnin Hnd']; subst.
    destruct Hin as [Hin|Hin].
    - inversion Hin; subst. now rewrite String.eqb_refl.
    - destruct (String.eqb_spec n k) as [E|E].
      + subst k. exfalso. apply Hnin. apply (in_map fst) in Hin. exact Hin.
      + now apply IH.
  Qed.

  Lemma read_folder_sub : forall (dir d : list (string * job)),
    (forall n j, In (n, j) d -> read_file job n dir = Some j) ->
    read_folder job dir (map fst d) = map snd d.
  Proof.
    intros dir d. induction d as [|[n j] r IH]; intros H; simpl; [reflexivity|].
    rewrite (H n j) by now left. simpl. f_equal. apply IH. intros n0 j0 H0. apply H. now right.
  Qed.

  Lemma read_folder_dir_perm : forall (dir : list (string * job)) listing,
    NoDup (map fst dir) -> Permutation listing (map fst dir) ->
    Permutation (read_folder job dir listing) (map snd dir).
  Proof.
    intros dir listing Hnd Hp.
    rewrite <- (read_folder_sub dir dir).
    - unfold read_folder. now apply Permutation_flat_map.
    - intros n j Hin. now apply read_file_In.
  Qed.

  Theorem read_folder_perm : forall (jobs : list job) listing,
    Permutation listing (map fst (save_jobs job jobs)) ->
    Permutation (read_folder job (save_jobs job jobs) listing) jobs.
  Proof.
    intros jobs listing Hp.
    rewrite <- (proj2 (save_jobs_names jobs)) at 2.
    apply read_folder_dir_perm; [apply save_jobs_names_nodup|exact Hp].
  Qed.
End SaveProofs.

(** a deleted file loses a job *)
Theorem read_folder_missing_file_refuted :
  exists (jobs : list nat) listing,
    incl listing (map fst (save_jobs nat jobs)) /\ NoDup listing /\
    ~ Permutation (read_folder nat (save_jobs nat jobs) listing) jobs.
Proof.
  exists [5; 6], [seq_file_name 1]. split; [|split].
  - intros x [Hx|[]]. subst x. simpl. now left.
  - constructor; [intros []|constructor].
  - intros H. apply Permutation_length in H. vm_compute in H. discriminate.
Qed.

(** * non-vacuity *)

Example cluster_perm_example :
  let evs := [(1%positive, 10); (2%positive, 20); (1%positive, 11); (3%positive, 30); (2%positive, 21)] in
  let evs' := [(2%positive, 21); (3%positive, 30); (1%positive, 11); (1%positive, 10); (2%positive, 20)] in
  Permutation evs evs' /\
  cluster nat evs <> cluster nat evs' /\
  Permutation (map fst (cluster nat evs)) (map fst (cluster nat evs')) /\
  Permutation (events_of_job nat 1%positive evs) (events_of_job nat 1%positive evs').
Proof.
  intros evs evs'.
  assert (Hp : Permutation evs evs').
  { unfold evs, evs'.
    apply Permutation_sym.
    apply (Permutation_cons_app [(1%positive, 10); (2%positive, 20); (1%positive, 11); (3%positive, 30)] []).
    apply (Permutation_cons_app [(1%positive, 10); (2%positive, 20); (1%positive, 11)] []).
    apply (Permutation_cons_app [(1%positive, 10); (2%positive, 20)] []).
    apply Permutation_refl. }
  destruct (cluster_perm nat evs evs' Hp) as [H1 H2].
  split; [exact Hp|]. split; [vm_compute; discriminate|]. split; [exact H1|apply H2].
Qed.

Example cluster_stable_perm_example :
  let evs := [(1%positive, 10); (2%positive, 20); (1%positive, 11); (2%positive, 21)] in
  let evs' := [(2%positive, 20); (2%positive, 21); (1%positive, 10); (1%positive, 11)] in
  (forall j, events_of_job nat j evs = events_of_job nat j evs') /\
  cluster nat evs <> cluster nat evs' /\
  Permutation (cluster nat evs) (cluster nat evs').
Proof.
  intros evs evs'.
  assert (H : forall j, events_of_job nat j evs = events_of_job nat j evs').
  { intros j. unfold evs, evs', events_of_job. simpl.
    destruct (Pos.eqb_spec 1 j) as [E1|E1], (Pos.eqb_spec 2 j) as [E2|E2]; try reflexivity.
    congruence. }
  split; [exact H|]. split; [vm_compute; discriminate|].
  now apply cluster_stable_perm.
Qed.

Example read_folder_perm_example :
  let jobs := [7; 8; 9] in
  let listing := [seq_file_name 3; seq_file_name 1; seq_file_name 2] in
  Permutation listing (map fst (save_jobs nat jobs)) /\
  read_folder nat (save_jobs nat jobs) listing = [9; 7; 8] /\
  Permutation (read_folder nat (save_jobs nat jobs) listing) jobs.
Proof.
  intros jobs listing.
  assert (Hp : Permutation listing (map fst (save_jobs nat jobs))).
  { unfold listing, jobs. simpl.
    apply Permutation_sym. apply (Permutation_cons_app [seq_file_name 3] [seq_file_name 2]).
    apply perm_swap. }
  split; [exact Hp|]. split; [vm_compute; reflexivity|].
  now apply read_folder_perm.
Qed.

Print Assumptions cluster_perm.
Print Assumptions read_folder_perm.
Print Assumptions seq_file_name_inj.
