(** The file layer between the PV stream and the learner.

    - tel2puml/pv_to_puml/data_ingestion.py:135-149 cluster_events_by_job_id: a python dict (insertion
      ordered) from job id to the list of that job's events in arrival order; used by pv2puml -group-by-job
      (pv_event_files_to_job_id_streams, pv_to_puml.py) on single-event files listed in any order.
    - tel2puml/otel_to_pv/otel_to_pv.py:114-157 handle_save_events: job k (counting from 1) of workflow
      [name] is written to <out>/<name>/pv_event_sequence_<k>.json; pv2puml -fp <out>/<name> reads every
      file of the folder in os.listdir order (arbitrary).
    No proofs in this file. *)
From Coq Require Import List Bool PArith Arith String Ascii DecimalString.
Import ListNotations.
Open Scope list_scope.

Section Cluster.
  Variable A : Type.

  Fixpoint cluster_add (j : positive) (e : A) (acc : list (positive * list A)) : list (positive * list A) :=
    match acc with
    | [] => [(j, [e])]
    | (k, l) :: r => if Pos.eqb j k then (k, l ++ [e]) :: r else (k, l) :: cluster_add j e r
    end.

  (** cluster_events_by_job_id; the result lists the jobs in order of first appearance *)
  Definition cluster (evs : list (positive * A)) : list (positive * list A) :=
    fold_left (fun acc p => cluster_add (fst p) (snd p) acc) evs [].

  (** the events of job [j] in arrival order (the specification of one cluster) *)
  Definition events_of_job (j : positive) (evs : list (positive * A)) : list A :=
    map snd (filter (fun p => Pos.eqb (fst p) j) evs).

  (** itertools.groupby-style grouping of CONSECUTIVE equal job ids: what a "streaming" rewrite would do; it
      agrees with [cluster] only when every job's events are contiguous (kept here to state that boundary) *)
  Fixpoint group_consecutive (evs : list (positive * A)) : list (positive * list A) :=
    match evs with
    | [] => []
    | (j, e) :: r =>
        match group_consecutive r with
        | (k, l) :: g => if Pos.eqb j k then (k, e :: l) :: g else (j, [e]) :: (k, l) :: g
        | [] => [(j, [e])]
        end
    end.
End Cluster.

(** pv_event_sequence_<k>.json, k in decimal *)
Definition seq_file_name (k : nat) : string :=
  ("pv_event_sequence_" ++ NilEmpty.string_of_uint (Nat.to_uint k) ++ ".json")%string.

Section Save.
  Variable job : Type.

  (** handle_save_events: the jobs of one workflow, numbered from 1 *)
  Definition save_jobs (jobs : list job) : list (string * job) :=
    map (fun p => (seq_file_name (S (fst p)), snd p)) (combine (seq 0 (List.length jobs)) jobs).

  (** pv2puml -fp <folder>: every file of the folder, in the order [listing] (a permutation of the names chosen by
      the file system); a name that is not in the folder reads nothing *)
  Fixpoint read_file (n : string) (dir : list (string * job)) : option job :=
    match dir with
    | [] => None
    | (k, j) :: r => if String.eqb n k then Some j else read_file n r
    end.

  Definition read_folder (dir : list (string * job)) (listing : list string) : list job :=
    flat_map (fun n => match read_file n dir with Some j => [j] | None => [] end) listing.
End Save.
