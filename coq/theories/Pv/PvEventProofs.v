(** Proofs about the PV event file boundary (Pv/PvEvent.v): saving with a field-name mapping and
    loading with the same mapping is the identity on events as soon as the mapping sends the seven
    PV fields to pairwise distinct keys (C14). *)
From Coq Require Import List Bool String PArith.
From V Require Import Pv.PvEvent.
Import ListNotations.
Open Scope string_scope.
Open Scope positive_scope.

(** * The saved dictionary, explicitly *)

Definition save_flat (mc : mconf) (e : pvevent) : jdict :=
  [ (k_jobId mc, VS (p_jobId e)); (k_eventId mc, VS (p_eventId e)); (k_eventType mc, VS (p_eventType e));
    (k_timestamp mc, VS (p_timestamp e)); (k_prev mc, VL (p_prev e)); (k_app mc, VS (p_app e));
    (k_jobName mc, VS (p_jobName e)) ].

Ltac nodup_split :=
  repeat match goal with
         | H : NoDup (_ :: _) |- _ => inversion H; clear H; subst
         | H : NoDup [] |- _ => clear H
         end.

Ltac eqb_neq_rw :=
  repeat (cbn [dset dget]; rewrite ?String.eqb_refl;
          rewrite (proj2 (String.eqb_neq _ _)) by (simpl in *; intuition congruence)).

Lemma save_explicit : forall mc e, NoDup (keys mc) -> save mc e = save_flat mc e.
Proof.
  intros [a b c d f g h] e Hnd. unfold keys, save, save_flat in *. cbn [k_jobId k_eventId k_timestamp k_prev k_app k_jobName k_eventType] in *.
  nodup_split. eqb_neq_rw. reflexivity.
Qed.

Theorem save_keys : forall mc e, NoDup (keys mc) ->
  map fst (save mc e) =
  [k_jobId mc; k_eventId mc; k_eventType mc; k_timestamp mc; k_prev mc; k_app mc; k_jobName mc].
Proof.
  intros mc e Hnd. rewrite (save_explicit mc e Hnd). reflexivity.
Qed.

(** * Round trip *)

Theorem load_save : forall mc e, NoDup (keys mc) -> load mc (save mc e) = Some e.
Proof.
  intros mc e Hnd. rewrite (save_explicit mc e Hnd).
  destruct mc as [a b c d f g h]. destruct e as [j i t ts pr ap nm].
  unfold keys, save_flat, load, get_s in *.
  cbn [k_jobId k_eventId k_timestamp k_prev k_app k_jobName k_eventType
       p_jobId p_eventId p_eventType p_timestamp p_prev p_app p_jobName] in *.
  nodup_split. eqb_neq_rw. cbn [dget]. rewrite ?String.eqb_refl. reflexivity.
Qed.

Theorem load_save_job : forall mc job, NoDup (keys mc) -> load_job mc (save_job mc job) = Some job.
Proof.
  intros mc job Hnd. unfold load_job, save_job.
  induction job as [|e job IH]; [reflexivity|].
  cbn [map fold_right]. rewrite IH, (load_save mc e Hnd). reflexivity.
Qed.

Lemma default_keys_nodup : NoDup (keys default_mc).
Proof.
  unfold keys, default_mc. cbn [k_jobId k_eventId k_timestamp k_prev k_app k_jobName k_eventType].
  repeat constructor; simpl; intuition discriminate.
Qed.

Theorem load_save_default : forall e, load default_mc (save default_mc e) = Some e.
Proof. intros e. apply load_save, default_keys_nodup. Qed.

Theorem load_save_job_default : forall job, load_job default_mc (save_job default_mc job) = Some job.
Proof. intros job. apply load_save_job, default_keys_nodup. Qed.

(** * The hypothesis is needed, and the same mapping must be used on both sides *)

Definition ex_event : pvevent := mkpv 1 2 3 4 [5; 6] 7 8.

(** a custom mapping with pairwise distinct keys: the theorems apply (non-vacuity) *)
Definition ex_custom_mc : mconf :=
  mkmc "job_id" "event_id" "time" "previous" "app" "job_name" "event_type".

Example ex_custom_nodup : NoDup (keys ex_custom_mc).
Proof.
  unfold keys, ex_custom_mc. cbn [k_jobId k_eventId k_timestamp k_prev k_app k_jobName k_eventType].
  repeat constructor; simpl; intuition discriminate.
Qed.

Example ex_custom_roundtrip :
  save ex_custom_mc ex_event =
    [("job_id", VS 1); ("event_id", VS 2); ("event_type", VS 3); ("time", VS 4);
     ("previous", VL [5; 6]); ("app", VS 7); ("job_name", VS 8)]
  /\ load ex_custom_mc (save ex_custom_mc ex_event) = Some ex_event.
Proof. split; reflexivity. Qed.

(** two fields sent to one key: the file has six keys, the later field (eventId) overwrites the
    earlier one (jobId), and loading SUCCEEDS with a different event *)
Definition ex_colliding_mc : mconf :=
  mkmc "id" "id" "timestamp" "previousEventIds" "applicationName" "jobName" "eventType".

Example collision_breaks :
  ~ NoDup (keys ex_colliding_mc)
  /\ load ex_colliding_mc (save ex_colliding_mc ex_event) <> Some ex_event
  /\ load ex_colliding_mc (save ex_colliding_mc ex_event) = Some (mkpv 2 2 3 4 [5; 6] 7 8)
  /\ map fst (save ex_colliding_mc ex_event) =
       ["id"; "eventType"; "timestamp"; "previousEventIds"; "applicationName"; "jobName"].
Proof.
  split; [|split; [|split]].
  - intros H. inversion H as [|x l Hni _]; subst. apply Hni. left. reflexivity.
  - vm_compute. discriminate.
  - vm_compute. reflexivity.
  - vm_compute. reflexivity.
Qed.

(** previousEventIds overwriting an earlier string field makes the load fail outright (the
    string field then holds a list) *)
Definition ex_colliding_prev_mc : mconf :=
  mkmc "x" "eventId" "timestamp" "x" "applicationName" "jobName" "eventType".

Example collision_breaks_prev : forall e, load ex_colliding_prev_mc (save ex_colliding_prev_mc e) = None.
Proof. intros [j i t ts pr ap nm]. reflexivity. Qed.

(** saving with a custom mapping and loading with the default one fails *)
Example mismatched_mapping : forall e, load default_mc (save ex_custom_mc e) = None.
Proof. intros [j i t ts pr ap nm]. reflexivity. Qed.

Example mismatched_mapping_rev : forall e, load ex_custom_mc (save default_mc e) = None.
Proof. intros [j i t ts pr ap nm]. reflexivity. Qed.

(** * previousEventIds on the loading side: optional, and a bare string is wrapped *)

Theorem load_single_string_prev : forall mc d j i t ts a n,
  get_s (k_jobId mc) d = Some j -> get_s (k_eventId mc) d = Some i ->
  get_s (k_eventType mc) d = Some t -> get_s (k_timestamp mc) d = Some ts ->
  get_s (k_app mc) d = Some a -> get_s (k_jobName mc) d = Some n ->
  (forall p, dget (k_prev mc) d = Some (VS p) -> load mc d = Some (mkpv j i t ts [p] a n))
  /\ (forall l, dget (k_prev mc) d = Some (VL l) -> load mc d = Some (mkpv j i t ts l a n))
  /\ (dget (k_prev mc) d = None -> load mc d = Some (mkpv j i t ts [] a n)).
Proof.
  intros mc d j i t ts a n H1 H2 H3 H4 H5 H6. unfold load. rewrite H1, H2, H3, H4, H5, H6.
  split; [|split].
  - intros p Hp. rewrite Hp. reflexivity.
  - intros l Hl. rewrite Hl. reflexivity.
  - intros Hn. rewrite Hn. reflexivity.
Qed.

Example ex_single_string_prev :
  load default_mc [("jobId", VS 1); ("eventId", VS 2); ("eventType", VS 3); ("timestamp", VS 4);
                   ("previousEventIds", VS 9); ("applicationName", VS 7); ("jobName", VS 8)]
  = Some (mkpv 1 2 3 4 [9] 7 8)
  /\ load default_mc [("jobId", VS 1); ("eventId", VS 2); ("eventType", VS 3); ("timestamp", VS 4);
                      ("applicationName", VS 7); ("jobName", VS 8)]
  = Some (mkpv 1 2 3 4 [] 7 8).
Proof. split; reflexivity. Qed.

Print Assumptions load_save.
Print Assumptions load_save_job.
Print Assumptions load_save_default.
Print Assumptions save_keys.
Print Assumptions collision_breaks.
Print Assumptions mismatched_mapping.
Print Assumptions load_single_string_prev.
