(** Model of the learner's evidence store: per event type the set of observed successor multisets
    and predecessor multisets (tel2puml/events.py Event/EventSet, pv_to_puml/data_ingestion.py), its
    JSON (de)serialisation (events.py:599-713) and the cached gate tree with its staleness flag
    (events.py:250-286).  Everything is kept in canonical form (sorted, de-duplicated), so equality of
    models is Leibniz equality.  No proofs in this file. *)
From Coq Require Import List Bool PArith Arith.
From V Require Import Puml.Ast Puml.Exec.
Import ListNotations.

(** EventSet: event type -> count (> 0), sorted by event type *)
Definition mset := list (evt * nat).

Fixpoint mset_add (e : evt) (m : mset) : mset :=
  match m with
  | [] => [(e, 1)]
  | (x, c) :: r => match Pos.compare e x with
                   | Eq => (x, S c) :: r
                   | Lt => (e, 1) :: m
                   | Gt => (x, c) :: mset_add e r
                   end
  end.
Definition mset_of (l : list evt) : mset := fold_right mset_add [] l.

Fixpoint mset_cmp (a b : mset) : comparison :=
  match a, b with
  | [], [] => Eq
  | [], _ :: _ => Lt
  | _ :: _, [] => Gt
  | (x, c) :: a', (y, d) :: b' =>
      match Pos.compare x y with
      | Eq => match Nat.compare c d with Eq => mset_cmp a' b' | o => o end
      | o => o
      end
  end.

(** a set of multisets, sorted by [mset_cmp], no duplicates *)
Fixpoint sset_add (m : mset) (s : list mset) : list mset :=
  match s with
  | [] => [m]
  | x :: r => match mset_cmp m x with
              | Eq => s
              | Lt => m :: s
              | Gt => x :: sset_add m r
              end
  end.

Record einfo := mkinfo { outs : list mset; ins : list mset }.

(** the events dictionary, sorted by event type *)
Definition emodel := list (evt * einfo).

Fixpoint upd (e : evt) (f : einfo -> einfo) (m : emodel) : emodel :=
  match m with
  | [] => [(e, f (mkinfo [] []))]
  | (x, i) :: r => match Pos.compare e x with
                   | Eq => (x, f i) :: r
                   | Lt => (e, f (mkinfo [] [])) :: m
                   | Gt => (x, i) :: upd e f r
                   end
  end.

(** update_event_sets / update_in_event_sets: an empty list records nothing (but the event type
    is still created) *)
Definition add_out (l : list evt) (i : einfo) : einfo :=
  match l with [] => i | _ => mkinfo (sset_add (mset_of l) (outs i)) (ins i) end.
Definition add_in (l : list evt) (i : einfo) : einfo :=
  match l with [] => i | _ => mkinfo (outs i) (sset_add (mset_of l) (ins i)) end.

Definition start_evt : evt := 1%positive.      (* |||START|||, interned first by the harness *)

(** one job with the dummy start event added in front of its start events *)
Definition with_start (g : jobgraph) : jobgraph :=
  (start_evt, []) :: map (fun n => (fst n, match snd n with [] => [0] | ps => map S ps end)) g.

Definition succ_types (g : jobgraph) (i : nat) : list evt :=
  flat_map (fun n => if existsb (Nat.eqb i) (snd n) then [fst n] else []) g.
Definition pred_types (g : jobgraph) (ps : list nat) : list evt :=
  map (fun j => fst (nth j g (start_evt, []))) ps.

(** update_and_create_events_from_graph_solution *)
Definition ingest_graph (m : emodel) (g : jobgraph) : emodel :=
  fold_left (fun acc p =>
               let i := fst p in let n := snd p in
               upd (fst n) (fun info => add_in (pred_types g (snd n)) (add_out (succ_types g i) info)) acc)
            (combine (seq 0 (length g)) g) m.

Definition ingest_from (m : emodel) (js : list jobgraph) : emodel :=
  fold_left (fun acc g => ingest_graph acc (with_start g)) js m.
Definition ingest (js : list jobgraph) : emodel := ingest_from [] js.

(** ------------------------------------------------------------------ model file *)
(** EventInput: eventType, outgoingEventSets, incomingEventSets (lists of lists of
    {eventType, count}) exactly as written to <job>_model.json *)
Definition jset := list (evt * nat).
Definition jevent := (evt * list jset * list jset)%type.
Definition jmodel := list jevent.

Definition save (m : emodel) : jmodel := map (fun p => (fst p, outs (snd p), ins (snd p))) m.

(** EventSet([type repeated count times ...]) *)
Definition expand (s : jset) : list evt := flat_map (fun p => repeat (fst p) (snd p)) s.

Fixpoint has_key (e : evt) (m : emodel) : bool :=
  match m with [] => false | (x, _) :: r => Pos.eqb e x || has_key e r end.

(** event_inputs_to_events: ValueError on a repeated eventType *)
Fixpoint load_from (acc : emodel) (j : jmodel) : option emodel :=
  match j with
  | [] => Some acc
  | (e, os, is_) :: r =>
      if has_key e acc then None
      else load_from (upd e (fun _ => mkinfo (fold_right (fun s a => sset_add (mset_of (expand s)) a) [] os)
                                             (fold_right (fun s a => sset_add (mset_of (expand s)) a) [] is_)) acc) r
  end.
Definition load (j : jmodel) : option emodel := load_from [] j.

(** canonical models: what [ingest] produces *)
Fixpoint sorted_keys {A} (m : list (evt * A)) : bool :=
  match m with
  | (x, _) :: (((y, _) :: _) as r) => Pos.ltb x y && sorted_keys r
  | _ => true
  end.
Definition wf_mset (s : mset) : bool := sorted_keys s && forallb (fun p => Nat.ltb 0 (snd p)) s
                                        && match s with [] => false | _ => true end.
Fixpoint sorted_sset (s : list mset) : bool :=
  match s with
  | x :: ((y :: _) as r) => match mset_cmp x y with Lt => sorted_sset r | _ => false end
  | _ => true
  end.
Definition wf_info (i : einfo) : bool :=
  forallb wf_mset (outs i) && sorted_sset (outs i) && forallb wf_mset (ins i) && sorted_sset (ins i).
Definition wf_model (m : emodel) : bool := sorted_keys m && forallb (fun p => wf_info (snd p)) m.

(** ------------------------------------------------------------------ cached gate tree *)
Section Cache.
  Variable tree : Type.
  Variable clg : list mset -> tree.        (* calculate_logic_gates on a non-empty set of event sets *)

  (** one Event object: evidence + cache + staleness flag *)
  Record estate := mkes { e_outs : list mset; e_ins : list mset; e_cache : option tree; e_stale : bool }.

  Definition fresh_event : estate := mkes [] [] None false.

  Definition update_out (l : list evt) (s : estate) : estate :=
    match l with [] => s | _ => mkes (sset_add (mset_of l) (e_outs s)) (e_ins s) (e_cache s) true end.
  Definition update_in (l : list evt) (s : estate) : estate :=
    match l with [] => s | _ => mkes (e_outs s) (sset_add (mset_of l) (e_ins s)) (e_cache s) (e_stale s) end.

  (** event_inputs_to_events builds a fresh Event and fills both families; the repaired code goes
      through update_event_sets (flag set), the pinned tree wrote into event_sets directly *)
  Definition load_event (i : einfo) : estate :=
    mkes (outs i) (ins i) None (match outs i with [] => false | _ => true end).
  Definition load_event_v0 (i : einfo) : estate := mkes (outs i) (ins i) None false.

  (** the logic_gate_tree property: recomputed only when marked stale; calculate_logic_gates
      returns None for an empty family *)
  Definition get_tree (s : estate) : option tree * estate :=
    if e_stale s
    then let t := match e_outs s with [] => None | o => Some (clg o) end in
         (t, mkes (e_outs s) (e_ins s) t false)
    else (e_cache s, s).

  Inductive op := OUpdOut (l : list evt) | OUpdIn (l : list evt) | OGet | OSaveLoad.

  Definition step (v0 : bool) (s : estate) (o : op) : estate :=
    match o with
    | OUpdOut l => update_out l s
    | OUpdIn l => update_in l s
    | OGet => snd (get_tree s)
    | OSaveLoad => (if v0 then load_event_v0 else load_event) (mkinfo (e_outs s) (e_ins s))
    end.
  Definition run_ops (v0 : bool) (ops : list op) : estate := fold_left (step v0) ops fresh_event.
End Cache.
