(** Model of the PV event file boundary: save_pv_event_stream_to_file with key renaming
    (otel_to_pv.py:160-203) and transform_dict_into_pv_event + PVEventModel
    (pv_event_simulator.py:260-303, tel2puml_types.py:28-71).  No proofs in this file. *)
From Coq Require Import List Bool String PArith.
Import ListNotations.
Open Scope string_scope.

(** field values are interned strings; previousEventIds is a list of them *)
Record pvevent := mkpv {
  p_jobId : positive; p_eventId : positive; p_eventType : positive; p_timestamp : positive;
  p_prev : list positive; p_app : positive; p_jobName : positive }.

(** PVEventMappingConfig: PV field -> key used in the file *)
Record mconf := mkmc {
  k_jobId : string; k_eventId : string; k_timestamp : string; k_prev : string;
  k_app : string; k_jobName : string; k_eventType : string }.

Definition default_mc : mconf :=
  mkmc "jobId" "eventId" "timestamp" "previousEventIds" "applicationName" "jobName" "eventType".

Inductive jval := VS (p : positive) | VL (l : list positive).

(** a JSON object as Python builds it: insertion ordered, a repeated key overwrites in place *)
Definition jdict := list (string * jval).
Fixpoint dset (k : string) (v : jval) (d : jdict) : jdict :=
  match d with
  | [] => [(k, v)]
  | (k', v') :: r => if String.eqb k k' then (k', v) :: r else (k', v') :: dset k v r
  end.
Fixpoint dget (k : string) (d : jdict) : option jval :=
  match d with
  | [] => None
  | (k', v) :: r => if String.eqb k k' then Some v else dget k r
  end.

(** {getattr(mapping_config, key): value for key, value in pv_event.items()} - the PVEvent dict is
    built in sequence_otel_event_job in the order jobId, eventId, eventType, timestamp,
    previousEventIds, applicationName, jobName *)
Definition save (mc : mconf) (e : pvevent) : jdict :=
  dset (k_jobName mc) (VS (p_jobName e))
  (dset (k_app mc) (VS (p_app e))
  (dset (k_prev mc) (VL (p_prev e))
  (dset (k_timestamp mc) (VS (p_timestamp e))
  (dset (k_eventType mc) (VS (p_eventType e))
  (dset (k_eventId mc) (VS (p_eventId e))
  (dset (k_jobId mc) (VS (p_jobId e)) [])))))).

Definition get_s (k : string) (d : jdict) : option positive :=
  match dget k d with Some (VS p) => Some p | _ => None end.

(** transform_dict_into_pv_event: all mandatory keys present (ValueError otherwise), string
    fields must be strings (pydantic), previousEventIds defaults to [] and a single string is
    wrapped into a list *)
Definition load (mc : mconf) (d : jdict) : option pvevent :=
  match get_s (k_jobId mc) d, get_s (k_eventId mc) d, get_s (k_eventType mc) d, get_s (k_timestamp mc) d,
        get_s (k_app mc) d, get_s (k_jobName mc) d with
  | Some j, Some i, Some t, Some ts, Some a, Some n =>
      let prev := match dget (k_prev mc) d with
                  | None => Some []
                  | Some (VL l) => Some l
                  | Some (VS p) => Some [p]
                  end in
      match prev with Some l => Some (mkpv j i t ts l a n) | None => None end
  | _, _, _, _, _, _ => None
  end.

Definition keys (mc : mconf) : list string :=
  [k_jobId mc; k_eventId mc; k_timestamp mc; k_prev mc; k_app mc; k_jobName mc; k_eventType mc].

(** a job file / a folder of job files *)
Definition save_job (mc : mconf) (job : list pvevent) : list jdict := map (save mc) job.
Definition load_job (mc : mconf) (f : list jdict) : option (list pvevent) :=
  fold_right (fun d acc => match load mc d, acc with Some e, Some l => Some (e :: l) | _, _ => None end) (Some []) f.
