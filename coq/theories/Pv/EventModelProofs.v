(** Proofs about the learner's evidence store (Pv/EventModel.v): algebra of the canonical
    containers, ingestion as a function of the SET of job graphs up to isomorphism (C03), nothing
    observed is dropped (C01), model file round trip / chunked ingestion (C04) and freshness of the
    cached gate tree (C04). *)
From Coq Require Import List Bool PArith Arith Lia Permutation.
From V Require Import Puml.Ast Puml.Exec Puml.Canon Puml.CanonSpec Puml.CanonProofs Pv.EventModel.
Import ListNotations.

(** [lia] does not see through the alias [evt := positive] *)
Ltac plia :=
  unfold evt in *;
  repeat match goal with
         | H : Pos.compare ?a ?b = Lt |- _ => change (Pos.lt a b) in H
         | H : Pos.compare ?a ?b = Gt |- _ => apply Pos.compare_gt_iff in H
         | |- Pos.compare ?a ?b = Lt => change (Pos.lt a b)
         | |- Pos.compare ?a ?b = Gt => apply Pos.compare_gt_iff
         end; lia.

(** * A. Algebra of the canonical containers *)

(** ** [mset_cmp] is a strict total order compatible with equality (no hypothesis needed) *)

Lemma mset_cmp_refl a : mset_cmp a a = Eq.
Proof.
  induction a as [|[x c] a IH]; simpl; [reflexivity|].
  rewrite Pos.compare_refl, Nat.compare_refl. exact IH.
Qed.

Theorem mset_cmp_eq : forall a b, mset_cmp a b = Eq <-> a = b.
Proof.
  intros a b. split.
  - revert b. induction a as [|[x c] a IH]; intros [|[y d] b] H; simpl in H;
      try discriminate; try reflexivity.
    destruct (Pos.compare x y) eqn:E1; try discriminate.
    destruct (Nat.compare c d) eqn:E2; try discriminate.
    apply Pos.compare_eq in E1. apply Nat.compare_eq in E2. subst. f_equal. apply IH, H.
  - intros ->. apply mset_cmp_refl.
Qed.

Theorem mset_cmp_antisym : forall a b, mset_cmp b a = CompOpp (mset_cmp a b).
Proof.
  induction a as [|[x c] a IH]; intros [|[y d] b]; simpl; try reflexivity.
  rewrite (Pos.compare_antisym x y). destruct (Pos.compare x y); simpl; try reflexivity.
  rewrite (Nat.compare_antisym c d). destruct (Nat.compare c d); simpl; try reflexivity.
  apply IH.
Qed.

Theorem mset_cmp_trans : forall a b c, mset_cmp a b = Lt -> mset_cmp b c = Lt -> mset_cmp a c = Lt.
Proof.
  induction a as [|[x c] a IH]; intros [|[y d] b] [|[z e] k] H1 H2; simpl in *;
    try discriminate; try reflexivity.
  destruct (Pos.compare x y) eqn:E1; try discriminate;
    destruct (Pos.compare y z) eqn:E2; try discriminate.
  - apply Pos.compare_eq in E1. apply Pos.compare_eq in E2. subst. rewrite Pos.compare_refl.
    destruct (Nat.compare c d) eqn:F1; try discriminate;
      destruct (Nat.compare d e) eqn:F2; try discriminate.
    + apply Nat.compare_eq in F1. apply Nat.compare_eq in F2. subst. rewrite Nat.compare_refl.
      eapply IH; eassumption.
    + apply Nat.compare_eq in F1. subst. rewrite F2. reflexivity.
    + apply Nat.compare_eq in F2. subst. rewrite F1. reflexivity.
    + apply Nat.compare_lt_iff in F1. apply Nat.compare_lt_iff in F2.
      assert (F : Nat.compare c e = Lt) by (apply Nat.compare_lt_iff; lia). rewrite F. reflexivity.
  - apply Pos.compare_eq in E1. subst. rewrite E2. reflexivity.
  - apply Pos.compare_eq in E2. subst. rewrite E1. reflexivity.
  - apply Pos.compare_lt_iff in E1. apply Pos.compare_lt_iff in E2.
    assert (F : Pos.compare x z = Lt) by (apply Pos.compare_lt_iff; plia). rewrite F. reflexivity.
Qed.

Corollary mset_cmp_irrefl : forall a, mset_cmp a a <> Lt.
Proof. intros a. rewrite mset_cmp_refl. discriminate. Qed.

Corollary mset_cmp_total : forall a b, mset_cmp a b = Lt \/ a = b \/ mset_cmp b a = Lt.
Proof.
  intros a b. destruct (mset_cmp a b) eqn:E.
  - right. left. apply mset_cmp_eq, E.
  - left. reflexivity.
  - right. right. rewrite mset_cmp_antisym, E. reflexivity.
Qed.

Lemma mset_cmp_gt_lt a b : mset_cmp a b = Gt <-> mset_cmp b a = Lt.
Proof.
  rewrite (mset_cmp_antisym a b). destruct (mset_cmp a b); simpl; split; congruence.
Qed.

(** ** [sset_add]: idempotent, commutative, keeps [sorted_sset] *)

Theorem sset_add_idem : forall a s, sset_add a (sset_add a s) = sset_add a s.
Proof.
  intros a. induction s as [|x r IH]; simpl.
  - rewrite mset_cmp_refl. reflexivity.
  - destruct (mset_cmp a x) eqn:E; simpl.
    + rewrite E. reflexivity.
    + rewrite mset_cmp_refl. reflexivity.
    + rewrite E, IH. reflexivity.
Qed.

Theorem sset_add_comm : forall a b s, sset_add a (sset_add b s) = sset_add b (sset_add a s).
Proof.
  intros a b. induction s as [|x r IH]; simpl.
  - rewrite (mset_cmp_antisym a b). destruct (mset_cmp a b) eqn:E; simpl; try reflexivity.
    apply mset_cmp_eq in E. subst. reflexivity.
  - destruct (mset_cmp a x) eqn:Ea; destruct (mset_cmp b x) eqn:Eb; simpl;
      rewrite ?Ea, ?Eb; try reflexivity.
    + (* a = x, b < x *)
      apply mset_cmp_eq in Ea. subst x.
      rewrite (proj2 (mset_cmp_gt_lt a b) Eb). reflexivity.
    + (* a < x, b = x *)
      apply mset_cmp_eq in Eb. subst x.
      rewrite (proj2 (mset_cmp_gt_lt b a) Ea). reflexivity.
    + (* a < x, b < x *)
      rewrite (mset_cmp_antisym a b). destruct (mset_cmp a b) eqn:E; simpl; try reflexivity.
      apply mset_cmp_eq in E. subst. reflexivity.
    + (* a < x, b > x *)
      apply mset_cmp_gt_lt in Eb.
      assert (E : mset_cmp a b = Lt) by (eapply mset_cmp_trans; eassumption).
      rewrite (proj2 (mset_cmp_gt_lt b a) E). reflexivity.
    + (* a > x, b < x *)
      apply mset_cmp_gt_lt in Ea.
      assert (E : mset_cmp b a = Lt) by (eapply mset_cmp_trans; eassumption).
      rewrite (proj2 (mset_cmp_gt_lt a b) E). reflexivity.
    + rewrite IH. reflexivity.
Qed.

Lemma sset_add_In : forall a s, In a (sset_add a s).
Proof.
  intros a. induction s as [|x r IH]; simpl; [left; reflexivity|].
  destruct (mset_cmp a x) eqn:E.
  - apply mset_cmp_eq in E. subst. left. reflexivity.
  - left. reflexivity.
  - right. exact IH.
Qed.

Lemma sset_add_mono : forall a b s, In b s -> In b (sset_add a s).
Proof.
  intros a b. induction s as [|x r IH]; intros H; [destruct H|]. simpl.
  destruct (mset_cmp a x); [exact H | right; exact H |].
  destruct H as [H | H]; [left; exact H | right; apply IH, H].
Qed.

Lemma sset_add_inv : forall a b s, In b (sset_add a s) -> b = a \/ In b s.
Proof.
  intros a b. induction s as [|x r IH]; simpl; intros H.
  - destruct H as [H | []]. left. symmetry. exact H.
  - destruct (mset_cmp a x).
    + right. exact H.
    + destruct H as [H | H]; [left; symmetry; exact H | right; exact H].
    + destruct H as [H | H]; [right; left; exact H|]. destruct (IH H) as [E | E]; auto.
Qed.

Lemma sset_add_nonnil a s : sset_add a s <> [].
Proof. destruct s as [|x r]; simpl; [discriminate|]. destruct (mset_cmp a x); discriminate. Qed.

Lemma sorted_sset_cons x s :
  sorted_sset (x :: s) = true <-> (forall y, In y s -> mset_cmp x y = Lt) /\ sorted_sset s = true.
Proof.
  revert x. induction s as [|y r IH]; intros x.
  - simpl. split; [intros _; split; [intros y []|reflexivity] | reflexivity].
  - change (sorted_sset (x :: y :: r)) with (match mset_cmp x y with Lt => sorted_sset (y :: r) | _ => false end).
    split.
    + intros H. destruct (mset_cmp x y) eqn:E; try discriminate. split; [|exact H].
      intros z [Hz | Hz]; [subst; exact E|].
      apply IH in H. destruct H as [H _]. eapply mset_cmp_trans; [exact E | apply H, Hz].
    + intros [H1 H2]. rewrite (H1 y (or_introl eq_refl)). exact H2.
Qed.

Theorem sset_add_sorted : forall a s, sorted_sset s = true -> sorted_sset (sset_add a s) = true.
Proof.
  intros a. induction s as [|x r IH]; intros Hs; [reflexivity|].
  simpl. destruct (mset_cmp a x) eqn:E; [exact Hs| |].
  - change (sorted_sset (a :: x :: r)) with (match mset_cmp a x with Lt => sorted_sset (x :: r) | _ => false end).
    rewrite E. exact Hs.
  - apply sorted_sset_cons in Hs. destruct Hs as [H1 H2]. apply sorted_sset_cons. split; [|apply IH, H2].
    intros y Hy. apply sset_add_inv in Hy. destruct Hy as [Hy | Hy]; [subst y | apply H1, Hy].
    apply mset_cmp_gt_lt, E.
Qed.

(** ** generic facts about key-sorted association lists *)

Definition keys_gt {A} (x : evt) (m : list (evt * A)) : Prop :=
  forall y b, In (y, b) m -> (x < y)%positive.

Lemma sorted_keys_cons {A} x (a : A) m :
  sorted_keys ((x, a) :: m) = true <-> keys_gt x m /\ sorted_keys m = true.
Proof.
  revert x a. induction m as [|[y b] r IH]; intros x a.
  - simpl. split; [intros _; split; [intros y b []|reflexivity] | reflexivity].
  - change (sorted_keys ((x, a) :: (y, b) :: r)) with (Pos.ltb x y && sorted_keys ((y, b) :: r)).
    rewrite andb_true_iff, Pos.ltb_lt. split.
    + intros [H1 H2]. split; [|exact H2]. intros z c [Hz | Hz].
      * inversion Hz; subst. exact H1.
      * apply IH in H2. destruct H2 as [H2 _]. specialize (H2 z c Hz). plia.
    + intros [H1 H2]. split; [|exact H2]. apply (H1 y b). left. reflexivity.
Qed.

(** ** [mset_add] / [mset_of] *)

Lemma mset_add_nonnil e m : mset_add e m <> [].
Proof. destruct m as [|[x c] r]; simpl; [discriminate|]. destruct (Pos.compare e x); discriminate. Qed.

Lemma mset_of_nil_iff l : mset_of l = [] <-> l = [].
Proof.
  destruct l as [|a l]; simpl; [tauto|]. split; [intros H | discriminate].
  exfalso. exact (mset_add_nonnil _ _ H).
Qed.

Theorem mset_add_comm : forall a b m, mset_add a (mset_add b m) = mset_add b (mset_add a m).
Proof.
  intros a b. induction m as [|[x c] r IH]; simpl.
  - rewrite (Pos.compare_antisym a b). destruct (Pos.compare a b) eqn:E; simpl; try reflexivity.
    apply Pos.compare_eq in E. subst. reflexivity.
  - destruct (Pos.compare a x) eqn:Ea; destruct (Pos.compare b x) eqn:Eb; simpl;
      rewrite ?Ea, ?Eb; try reflexivity.
    + apply Pos.compare_eq in Ea. subst x.
      assert (E : Pos.compare a b = Gt) by plia. rewrite E. reflexivity.
    + apply Pos.compare_eq in Eb. subst x.
      assert (E : Pos.compare b a = Gt) by plia. rewrite E. reflexivity.
    + rewrite (Pos.compare_antisym a b). destruct (Pos.compare a b) eqn:E; simpl; try reflexivity.
      apply Pos.compare_eq in E. subst. reflexivity.
    + assert (E : Pos.compare b a = Gt) by plia. rewrite E. reflexivity.
    + assert (E : Pos.compare a b = Gt) by plia. rewrite E. reflexivity.
    + rewrite IH. reflexivity.
Qed.

Theorem mset_of_perm : forall l l', Permutation l l' -> mset_of l = mset_of l'.
Proof.
  intros l l' H. induction H as [|x l l' _ IH|x y l|l l' l'' _ IH1 _ IH2]; simpl.
  - reflexivity.
  - rewrite IH. reflexivity.
  - apply mset_add_comm.
  - rewrite IH1. exact IH2.
Qed.

Lemma mset_add_keys e m y c : In (y, c) (mset_add e m) -> y = e \/ exists c', In (y, c') m.
Proof.
  induction m as [|[x d] r IH]; simpl.
  - intros [H | []]. inversion H. left. reflexivity.
  - destruct (Pos.compare e x) eqn:E.
    + intros [H | H]; [inversion H; subst; right; eexists; left; reflexivity | right; exists c; right; exact H].
    + intros [H | H]; [inversion H; left; reflexivity | right; exists c; exact H].
    + intros [H | H]; [inversion H; subst; right; eexists; left; reflexivity|].
      destruct (IH H) as [E' | [c' Hc']]; [left; exact E' | right; exists c'; right; exact Hc'].
Qed.

Lemma mset_add_sorted e m : sorted_keys m = true -> sorted_keys (mset_add e m) = true.
Proof.
  induction m as [|[x d] r IH]; intros Hs; [reflexivity|]. simpl.
  destruct (Pos.compare e x) eqn:E.
  - apply sorted_keys_cons in Hs. apply sorted_keys_cons. exact Hs.
  - apply sorted_keys_cons. split; [|exact Hs]. apply Pos.compare_lt_iff in E.
    intros y b [H | H].
    + inversion H; subst. exact E.
    + apply sorted_keys_cons in Hs. destruct Hs as [Hs _]. specialize (Hs y b H). plia.
  - apply sorted_keys_cons in Hs. destruct Hs as [H1 H2]. apply sorted_keys_cons. split; [|apply IH, H2].
    apply Pos.compare_gt_iff in E. intros y b Hy. apply mset_add_keys in Hy.
    destruct Hy as [Hy | [c' Hy]]; [subst y; exact E | apply (H1 y c' Hy)].
Qed.

Lemma mset_add_pos e m :
  forallb (fun p : evt * nat => Nat.ltb 0 (snd p)) m = true ->
  forallb (fun p : evt * nat => Nat.ltb 0 (snd p)) (mset_add e m) = true.
Proof.
  induction m as [|[x d] r IH]; intros H; [reflexivity|]. simpl in *.
  apply andb_true_iff in H. destruct H as [H1 H2].
  destruct (Pos.compare e x); simpl.
  - rewrite H2. reflexivity.
  - rewrite H1, H2. reflexivity.
  - rewrite H1, (IH H2). reflexivity.
Qed.

Theorem mset_of_wf : forall l, l <> [] -> wf_mset (mset_of l) = true.
Proof.
  intros l Hl.
  assert (H : sorted_keys (mset_of l) = true /\
              forallb (fun p : evt * nat => Nat.ltb 0 (snd p)) (mset_of l) = true).
  { clear Hl. induction l as [|a l [IH1 IH2]]; simpl; [split; reflexivity|].
    split; [apply mset_add_sorted, IH1 | apply mset_add_pos, IH2]. }
  destruct H as [H1 H2]. unfold wf_mset. rewrite H1, H2. simpl.
  destruct (mset_of l) eqn:E; [|reflexivity]. apply mset_of_nil_iff in E. contradiction.
Qed.

(** ** [upd] *)

Lemma upd_ext e f g : (forall i, f i = g i) -> forall m, upd e f m = upd e g m.
Proof.
  intros H. induction m as [|[x i] r IH]; simpl; [rewrite H; reflexivity|].
  destruct (Pos.compare e x); [rewrite H | rewrite H | rewrite IH]; reflexivity.
Qed.

Lemma upd_upd_same e f g : forall m, upd e f (upd e g m) = upd e (fun i => f (g i)) m.
Proof.
  induction m as [|[x i] r IH]; simpl.
  - rewrite Pos.compare_refl. reflexivity.
  - destruct (Pos.compare e x) eqn:E; simpl.
    + rewrite E. reflexivity.
    + rewrite Pos.compare_refl. reflexivity.
    + rewrite E, IH. reflexivity.
Qed.

Lemma upd_comm_neq e e' f g : e <> e' -> forall m, upd e f (upd e' g m) = upd e' g (upd e f m).
Proof.
  intros Hne. induction m as [|[x i] r IH]; simpl.
  - rewrite (Pos.compare_antisym e e'). destruct (Pos.compare e e') eqn:E; simpl; try reflexivity.
    apply Pos.compare_eq in E. contradiction.
  - destruct (Pos.compare e x) eqn:Ea; destruct (Pos.compare e' x) eqn:Eb; simpl;
      rewrite ?Ea, ?Eb; try reflexivity.
    + apply Pos.compare_eq in Ea. apply Pos.compare_eq in Eb. subst. contradiction.
    + apply Pos.compare_eq in Ea. subst x.
      assert (E : Pos.compare e e' = Gt) by plia. rewrite E. reflexivity.
    + apply Pos.compare_eq in Eb. subst x.
      assert (E : Pos.compare e' e = Gt) by plia. rewrite E. reflexivity.
    + rewrite (Pos.compare_antisym e e'). destruct (Pos.compare e e') eqn:E; simpl; try reflexivity.
      apply Pos.compare_eq in E. contradiction.
    + assert (E : Pos.compare e' e = Gt) by plia. rewrite E. reflexivity.
    + assert (E : Pos.compare e e' = Gt) by plia. rewrite E. reflexivity.
    + rewrite IH. reflexivity.
Qed.

(** the target: updates at different keys commute, updates at the same key commute when the
    update functions do (no sortedness hypothesis is needed) *)
Theorem upd_comm : forall e e' f g m,
  (e <> e' \/ forall i, f (g i) = g (f i)) ->
  upd e f (upd e' g m) = upd e' g (upd e f m).
Proof.
  intros e e' f g m H. destruct (Pos.eq_dec e e') as [E | NE].
  - subst e'. destruct H as [H | H]; [contradiction|].
    rewrite !upd_upd_same. apply upd_ext, H.
  - apply upd_comm_neq, NE.
Qed.

Theorem upd_idem : forall e f m, (forall i, f (f i) = f i) -> upd e f (upd e f m) = upd e f m.
Proof. intros e f m H. rewrite upd_upd_same. apply upd_ext, H. Qed.

Lemma upd_keys e f m y b : In (y, b) (upd e f m) -> y = e \/ exists b', In (y, b') m.
Proof.
  induction m as [|[x d] r IH]; simpl.
  - intros [H | []]. inversion H. left. reflexivity.
  - destruct (Pos.compare e x) eqn:E.
    + intros [H | H]; [inversion H; subst; right; eexists; left; reflexivity | right; exists b; right; exact H].
    + intros [H | H]; [inversion H; left; reflexivity | right; exists b; exact H].
    + intros [H | H]; [inversion H; subst; right; eexists; left; reflexivity|].
      destruct (IH H) as [E' | [c' Hc']]; [left; exact E' | right; exists c'; right; exact Hc'].
Qed.

Lemma upd_sorted e f m : sorted_keys m = true -> sorted_keys (upd e f m) = true.
Proof.
  induction m as [|[x d] r IH]; intros Hs; [reflexivity|]. simpl.
  destruct (Pos.compare e x) eqn:E.
  - apply sorted_keys_cons in Hs. apply sorted_keys_cons. exact Hs.
  - apply sorted_keys_cons. split; [|exact Hs]. apply Pos.compare_lt_iff in E.
    intros y b [H | H].
    + inversion H; subst. exact E.
    + apply sorted_keys_cons in Hs. destruct Hs as [Hs _]. specialize (Hs y b H). plia.
  - apply sorted_keys_cons in Hs. destruct Hs as [H1 H2]. apply sorted_keys_cons. split; [|apply IH, H2].
    apply Pos.compare_gt_iff in E. intros y b Hy. apply upd_keys in Hy.
    destruct Hy as [Hy | [c' Hy]]; [subst y; exact E | apply (H1 y c' Hy)].
Qed.

(** ** well-formedness is preserved *)

Lemma wf_info_iff i :
  wf_info i = true <->
  (forallb wf_mset (outs i) = true /\ sorted_sset (outs i) = true) /\
  (forallb wf_mset (ins i) = true /\ sorted_sset (ins i) = true).
Proof. unfold wf_info. rewrite !andb_true_iff. tauto. Qed.

Lemma sset_add_wf a s :
  wf_mset a = true -> forallb wf_mset s = true -> forallb wf_mset (sset_add a s) = true.
Proof.
  intros Ha Hs. apply forallb_forall. intros b Hb. apply sset_add_inv in Hb.
  destruct Hb as [Hb | Hb]; [subst; exact Ha|]. rewrite forallb_forall in Hs. apply Hs, Hb.
Qed.

Lemma add_out_wf l i : wf_info i = true -> wf_info (add_out l i) = true.
Proof.
  intros H. destruct l as [|a l]; [exact H|]. unfold add_out.
  apply wf_info_iff in H. destruct H as [[H1 H2] H3]. apply wf_info_iff. simpl outs. simpl ins.
  split; [|exact H3]. split; [apply sset_add_wf; [apply (mset_of_wf (a :: l)); discriminate | exact H1]|].
  apply sset_add_sorted, H2.
Qed.

Lemma add_in_wf l i : wf_info i = true -> wf_info (add_in l i) = true.
Proof.
  intros H. destruct l as [|a l]; [exact H|]. unfold add_in.
  apply wf_info_iff in H. destruct H as [H3 [H1 H2]]. apply wf_info_iff. simpl outs. simpl ins.
  split; [exact H3|]. split; [apply sset_add_wf; [apply (mset_of_wf (a :: l)); discriminate | exact H1]|].
  apply sset_add_sorted, H2.
Qed.

Lemma upd_wf e f m :
  (forall i, wf_info i = true -> wf_info (f i) = true) ->
  wf_model m = true -> wf_model (upd e f m) = true.
Proof.
  intros Hf H. unfold wf_model in *. apply andb_true_iff in H. destruct H as [H1 H2].
  apply andb_true_iff. split; [apply upd_sorted, H1|]. clear H1.
  induction m as [|[x d] r IH]; simpl in *.
  - rewrite Hf; reflexivity.
  - apply andb_true_iff in H2. destruct H2 as [Hd Hr].
    destruct (Pos.compare e x); simpl.
    + rewrite (Hf d Hd), Hr. reflexivity.
    + rewrite (Hf (mkinfo [] []) eq_refl), Hd, Hr. reflexivity.
    + rewrite Hd, (IH Hr). reflexivity.
Qed.

Lemma fold_left_inv {S A} (P : S -> Prop) (f : S -> A -> S) :
  (forall s a, P s -> P (f s a)) -> forall l s, P s -> P (fold_left f l s).
Proof. intros H. induction l as [|a l IH]; intros s Hs; simpl; [exact Hs | apply IH, H, Hs]. Qed.

Theorem ingest_graph_wf : forall m g, wf_model m = true -> wf_model (ingest_graph m g) = true.
Proof.
  intros m g. unfold ingest_graph. apply (fold_left_inv (fun s => wf_model s = true)). intros s [i n] Hs. simpl.
  apply upd_wf; [|exact Hs]. intros info Hi. apply add_in_wf, add_out_wf, Hi.
Qed.

Theorem ingest_from_wf : forall js m, wf_model m = true -> wf_model (ingest_from m js) = true.
Proof.
  intros js m. unfold ingest_from. apply (fold_left_inv (fun s => wf_model s = true)). intros s g Hs. apply ingest_graph_wf, Hs.
Qed.

Corollary ingest_wf : forall js, wf_model (ingest js) = true.
Proof. intros js. apply ingest_from_wf. reflexivity. Qed.

(** * B. Ingestion is a fold of commuting idempotent atomic updates *)

(** folds of a commutative idempotent step function depend only on the SET of the inputs *)
Section FoldSet.
  Variables (S A : Type) (step : S -> A -> S).
  Hypothesis comm : forall s a b, step (step s a) b = step (step s b) a.
  Hypothesis idem : forall s a, step (step s a) a = step s a.

  Lemma fold_perm l l' : Permutation l l' -> forall s, fold_left step l s = fold_left step l' s.
  Proof.
    intros H. induction H as [|x l l' _ IH|x y l|l l' l'' _ IH1 _ IH2]; intros s; simpl.
    - reflexivity.
    - apply IH.
    - rewrite comm. reflexivity.
    - rewrite IH1. apply IH2.
  Qed.

  Lemma fold_absorb a l : In a l -> forall s, fold_left step (a :: l) s = fold_left step l s.
  Proof.
    intros H s. apply in_split in H. destruct H as [l1 [l2 E]]. subst l.
    assert (P : Permutation (l1 ++ a :: l2) (a :: l1 ++ l2)) by (symmetry; apply Permutation_middle).
    rewrite (fold_perm _ _ (perm_skip a P)). rewrite (fold_perm _ _ P).
    simpl. rewrite idem. reflexivity.
  Qed.

  Lemma fold_incl_app l l' : incl l l' -> forall s, fold_left step (l ++ l') s = fold_left step l' s.
  Proof.
    induction l as [|a l IH]; intros Hi s; [reflexivity|].
    change ((a :: l) ++ l') with (a :: (l ++ l')). rewrite fold_absorb.
    - apply IH. intros x Hx. apply Hi. right. exact Hx.
    - apply in_or_app. right. apply Hi. left. reflexivity.
  Qed.

  Theorem fold_set l l' : incl l l' -> incl l' l -> forall s, fold_left step l s = fold_left step l' s.
  Proof.
    intros H1 H2 s. transitivity (fold_left step (l ++ l') s); [|apply fold_incl_app, H1].
    rewrite (fold_perm _ _ (Permutation_app_comm l l')). symmetry. apply fold_incl_app, H2.
  Qed.
End FoldSet.

Lemma fold_left_map {S A B} (f : S -> B -> S) (h : A -> B) : forall l s,
  fold_left f (map h l) s = fold_left (fun a x => f a (h x)) l s.
Proof. induction l as [|x l IH]; intros s; simpl; [reflexivity | apply IH]. Qed.

Lemma fold_left_ext {S A} (f g : S -> A -> S) : (forall s a, f s a = g s a) ->
  forall l s, fold_left f l s = fold_left g l s.
Proof. intros H. induction l as [|x l IH]; intros s; simpl; [reflexivity|]. rewrite H. apply IH. Qed.

Lemma perm_flat_map {A B} (f : A -> list B) l l' :
  Permutation l l' -> Permutation (flat_map f l) (flat_map f l').
Proof.
  intros H. induction H as [|x l l' _ IH|x y l|l l' l'' _ IH1 _ IH2]; simpl.
  - constructor.
  - apply Permutation_app_head, IH.
  - rewrite !app_assoc. apply Permutation_app_tail, Permutation_app_comm.
  - eapply perm_trans; eassumption.
Qed.

Lemma incl_flat_map {A B} (f : A -> list B) l l' :
  (forall x, In x l -> In x l') -> incl (flat_map f l) (flat_map f l').
Proof.
  intros H y Hy. apply in_flat_map in Hy. destruct Hy as [x [Hx Hy]].
  apply in_flat_map. exists x. split; [apply H, Hx | exact Hy].
Qed.

(** an atomic update: (event type, successor multiset or [], predecessor multiset or []) *)
Definition aop := (evt * mset * mset)%type.

Definition add_out_m (s : mset) (i : einfo) : einfo :=
  match s with [] => i | _ => mkinfo (sset_add s (outs i)) (ins i) end.
Definition add_in_m (s : mset) (i : einfo) : einfo :=
  match s with [] => i | _ => mkinfo (outs i) (sset_add s (ins i)) end.
Definition op_fun (o : aop) (i : einfo) : einfo := add_in_m (snd o) (add_out_m (snd (fst o)) i).
Definition astep (m : emodel) (o : aop) : emodel := upd (fst (fst o)) (op_fun o) m.

(** the atomic update contributed by node [p = (index, node)] of job [g], all of a job, all of
    a list of jobs *)
Definition node_op (g : jobgraph) (p : nat * (evt * list nat)) : aop :=
  (fst (snd p), mset_of (succ_types g (fst p)), mset_of (pred_types g (snd (snd p)))).
Definition gops (g : jobgraph) : list aop := map (node_op g) (combine (seq 0 (length g)) g).
Definition jops (js : list jobgraph) : list aop := flat_map (fun g => gops (with_start g)) js.

Lemma add_out_mset l i : add_out l i = add_out_m (mset_of l) i.
Proof.
  destruct l as [|a l]; [reflexivity|]. unfold add_out, add_out_m.
  destruct (mset_of (a :: l)) eqn:E; [apply mset_of_nil_iff in E; discriminate | reflexivity].
Qed.

Lemma add_in_mset l i : add_in l i = add_in_m (mset_of l) i.
Proof.
  destruct l as [|a l]; [reflexivity|]. unfold add_in, add_in_m.
  destruct (mset_of (a :: l)) eqn:E; [apply mset_of_nil_iff in E; discriminate | reflexivity].
Qed.

Lemma op_fun_comm a b i : op_fun a (op_fun b i) = op_fun b (op_fun a i).
Proof.
  destruct a as [[t so] pi], b as [[t' so'] pi'], i as [o n]. unfold op_fun. simpl fst. simpl snd.
  destruct so, so', pi, pi'; simpl; try reflexivity; f_equal; apply sset_add_comm.
Qed.

Lemma op_fun_idem a i : op_fun a (op_fun a i) = op_fun a i.
Proof.
  destruct a as [[t so] pi], i as [o n]. unfold op_fun. simpl fst. simpl snd.
  destruct so, pi; simpl; try reflexivity; f_equal; apply sset_add_idem.
Qed.

Lemma astep_comm m a b : astep (astep m a) b = astep (astep m b) a.
Proof. unfold astep. apply upd_comm. right. intros i. apply op_fun_comm. Qed.

Lemma astep_idem m a : astep (astep m a) a = astep m a.
Proof. unfold astep. apply upd_idem. intros i. apply op_fun_idem. Qed.

Lemma ingest_graph_ops m g : ingest_graph m g = fold_left astep (gops g) m.
Proof.
  unfold ingest_graph, gops. rewrite fold_left_map. apply fold_left_ext.
  intros s [i n]. unfold astep, node_op. simpl. apply upd_ext. intros info.
  unfold op_fun. simpl. rewrite add_out_mset, add_in_mset. reflexivity.
Qed.

Lemma ingest_from_ops : forall js m, ingest_from m js = fold_left astep (jops js) m.
Proof.
  induction js as [|j js IH]; intros m; [reflexivity|].
  change (jops (j :: js)) with (gops (with_start j) ++ jops js).
  rewrite fold_left_app, <- ingest_graph_ops. apply IH.
Qed.

Lemma ingest_from_app m js js' : ingest_from m (js ++ js') = ingest_from (ingest_from m js) js'.
Proof. unfold ingest_from. apply fold_left_app. Qed.

(** the model depends only on the set of atomic updates ... *)
Lemma ingest_ops_set m js js' :
  incl (jops js) (jops js') -> incl (jops js') (jops js) -> ingest_from m js = ingest_from m js'.
Proof.
  intros H1 H2. rewrite !ingest_from_ops.
  apply fold_set; [intros; apply astep_comm | intros; apply astep_idem | exact H1 | exact H2].
Qed.

(** ... hence only on the set of jobs (the hypothesis [wf_model m] of the targets is not needed) *)
Theorem ingest_same_set : forall m js js',
  (forall j, In j js <-> In j js') -> ingest_from m js = ingest_from m js'.
Proof.
  intros m js js' H. apply ingest_ops_set; apply incl_flat_map; intros x Hx; apply H, Hx.
Qed.

Theorem ingest_perm_gen : forall m js js', Permutation js js' -> ingest_from m js = ingest_from m js'.
Proof.
  intros m js js' H. apply ingest_same_set. intros j. split; apply Permutation_in; [|symmetry]; exact H.
Qed.

Theorem ingest_perm : forall m js js',
  wf_model m = true -> Permutation js js' -> ingest_from m js = ingest_from m js'.
Proof. intros m js js' _. apply ingest_perm_gen. Qed.

Theorem ingest_dup : forall m j js,
  wf_model m = true -> ingest_from m (j :: j :: js) = ingest_from m (j :: js).
Proof.
  intros m j js _. apply ingest_same_set. intros x. simpl. tauto.
Qed.

Theorem ingest_idem : forall m js, ingest_from (ingest_from m js) js = ingest_from m js.
Proof.
  intros m js. rewrite <- ingest_from_app. apply ingest_same_set. intros x. rewrite in_app_iff. tauto.
Qed.

(** more generally: jobs all of which were seen before change nothing *)
Theorem ingest_absorb : forall m js js',
  incl js' js -> ingest_from (ingest_from m js) js' = ingest_from m js.
Proof.
  intros m js js' H. rewrite <- ingest_from_app. apply ingest_same_set. intros x. rewrite in_app_iff.
  split; [intros [Hx | Hx]; [exact Hx | apply H, Hx] | intros Hx; left; exact Hx].
Qed.

(** * D. The model file: [load (save m) = Some m]; chunked ingestion *)

Lemma mset_add_lt x r : keys_gt x r -> mset_add x r = (x, 1) :: r.
Proof.
  intros H. destruct r as [|[y d] r]; [reflexivity|]. simpl.
  assert (E : Pos.compare x y = Lt) by (apply (H y d); left; reflexivity). rewrite E. reflexivity.
Qed.

Lemma mset_add_repeat x r : keys_gt x r ->
  forall c, fold_right mset_add r (repeat x (S c)) = (x, S c) :: r.
Proof.
  intros H. induction c as [|c IH].
  - simpl. apply mset_add_lt, H.
  - change (repeat x (S (S c))) with (x :: repeat x (S c)).
    change (fold_right mset_add r (x :: repeat x (S c)))
      with (mset_add x (fold_right mset_add r (repeat x (S c)))).
    rewrite IH. simpl. rewrite Pos.compare_refl. reflexivity.
Qed.

(** expanding a canonical multiset into a list and re-counting gives it back *)
Lemma mset_of_expand : forall s,
  sorted_keys s = true -> forallb (fun p : evt * nat => Nat.ltb 0 (snd p)) s = true ->
  mset_of (expand s) = s.
Proof.
  induction s as [|[x c] r IH]; intros Hs Hp; [reflexivity|].
  change (expand ((x, c) :: r)) with (repeat x c ++ expand r).
  unfold mset_of. rewrite fold_right_app. fold (mset_of (expand r)).
  apply sorted_keys_cons in Hs. destruct Hs as [Hg Hs].
  simpl in Hp. apply andb_true_iff in Hp. destruct Hp as [Hc Hp].
  rewrite (IH Hs Hp). destruct c as [|c]; [discriminate|]. apply mset_add_repeat, Hg.
Qed.

Lemma wf_mset_expand s : wf_mset s = true -> mset_of (expand s) = s.
Proof.
  unfold wf_mset. rewrite !andb_true_iff. intros [[H1 H2] _]. apply mset_of_expand; assumption.
Qed.

Lemma sset_add_lt x r : (forall y, In y r -> mset_cmp x y = Lt) -> sset_add x r = x :: r.
Proof.
  intros H. destruct r as [|y r]; [reflexivity|]. simpl. rewrite (H y (or_introl eq_refl)). reflexivity.
Qed.

Lemma load_sets_id : forall os,
  forallb wf_mset os = true -> sorted_sset os = true ->
  fold_right (fun s a => sset_add (mset_of (expand s)) a) [] os = os.
Proof.
  induction os as [|x r IH]; intros Hw Hs; [reflexivity|]. simpl.
  simpl in Hw. apply andb_true_iff in Hw. destruct Hw as [Hx Hw].
  apply sorted_sset_cons in Hs. destruct Hs as [Hlt Hs].
  rewrite (IH Hw Hs), (wf_mset_expand x Hx). apply sset_add_lt, Hlt.
Qed.

Lemma has_key_lt e (acc : emodel) : (forall x a, In (x, a) acc -> (x < e)%positive) -> has_key e acc = false.
Proof.
  induction acc as [|[y b] acc IH]; intros H; [reflexivity|]. simpl.
  assert (Hy : (y < e)%positive) by (apply (H y b); left; reflexivity).
  assert (E : Pos.eqb e y = false) by (apply Pos.eqb_neq; plia). rewrite E. simpl.
  apply IH. intros x a Hx. apply (H x a). right. exact Hx.
Qed.

Lemma upd_snoc e f (acc : emodel) : (forall x a, In (x, a) acc -> (x < e)%positive) ->
  upd e f acc = acc ++ [(e, f (mkinfo [] []))].
Proof.
  induction acc as [|[y b] acc IH]; intros H; [reflexivity|]. simpl.
  assert (Hy : (y < e)%positive) by (apply (H y b); left; reflexivity).
  assert (E : Pos.compare e y = Gt) by plia. rewrite E. f_equal.
  apply IH. intros x a Hx. apply (H x a). right. exact Hx.
Qed.

Lemma sorted_app_lt {A} (acc : list (evt * A)) e i r :
  sorted_keys (acc ++ (e, i) :: r) = true -> forall x a, In (x, a) acc -> (x < e)%positive.
Proof.
  induction acc as [|[y b] acc IH]; intros H x a Hx; [destruct Hx|].
  change ((((y, b) :: acc) ++ (e, i) :: r)) with ((y, b) :: (acc ++ (e, i) :: r)) in H.
  apply sorted_keys_cons in H. destruct H as [H1 H2]. destruct Hx as [Hx | Hx].
  - inversion Hx; subst. apply (H1 e i). apply in_or_app. right. left. reflexivity.
  - apply (IH H2 x a Hx).
Qed.

Lemma load_from_save : forall m acc,
  sorted_keys (acc ++ m) = true -> forallb (fun p : evt * einfo => wf_info (snd p)) m = true ->
  load_from acc (save m) = Some (acc ++ m).
Proof.
  induction m as [|[e i] r IH]; intros acc Hs Hw; simpl.
  - rewrite app_nil_r. reflexivity.
  - assert (Hlt := sorted_app_lt acc e i r Hs).
    rewrite (has_key_lt e acc Hlt), (upd_snoc e _ acc Hlt).
    simpl in Hw. apply andb_true_iff in Hw. destruct Hw as [Hi Hw].
    apply wf_info_iff in Hi. destruct Hi as [[Ho1 Ho2] [Hi1 Hi2]].
    rewrite (load_sets_id _ Ho1 Ho2), (load_sets_id _ Hi1 Hi2).
    destruct i as [o n]. simpl outs. simpl ins.
    rewrite IH; [rewrite <- app_assoc; reflexivity | rewrite <- app_assoc; exact Hs | exact Hw].
Qed.

Theorem load_save : forall m, wf_model m = true -> load (save m) = Some m.
Proof.
  intros m H. unfold wf_model in H. apply andb_true_iff in H. destruct H as [H1 H2].
  unfold load. apply (load_from_save m [] H1 H2).
Qed.

(** the file lists every event type with both families, nothing else *)
Theorem save_faithful : forall m e i,
  In (e, i) m <-> In (e, outs i, ins i) (save m).
Proof.
  intros m e i. unfold save. rewrite in_map_iff. split.
  - intros H. exists (e, i). split; [reflexivity | exact H].
  - intros [[e' i'] [E H]]. simpl in E. inversion E; subst. destruct i, i'. simpl in *. subst. exact H.
Qed.

(** ** a repeated eventType is rejected, and nothing else is *)
Definition jkeys (j : jmodel) : list evt := map (fun x => fst (fst x)) j.

Lemma has_key_upd e e' f (acc : emodel) : has_key e (upd e' f acc) = Pos.eqb e e' || has_key e acc.
Proof.
  induction acc as [|[x i] r IH]; simpl; [reflexivity|].
  destruct (Pos.compare e' x) eqn:E; simpl.
  - apply Pos.compare_eq in E. subst x. destruct (Pos.eqb e e'); reflexivity.
  - reflexivity.
  - rewrite IH. destruct (Pos.eqb e x), (Pos.eqb e e'); reflexivity.
Qed.

Lemma load_from_dup : forall j acc,
  ((exists e, In e (jkeys j) /\ has_key e acc = true) \/ ~ NoDup (jkeys j)) -> load_from acc j = None.
Proof.
  induction j as [|[[e os] is_] r IH]; intros acc H.
  - destruct H as [[e [[] _]] | H]. exfalso. apply H. constructor.
  - simpl. destruct (has_key e acc) eqn:Hk; [reflexivity|]. apply IH.
    destruct H as [[e' [[He | He] Hk']] | H].
    + simpl in He. subst e'. congruence.
    + left. exists e'. split; [exact He|]. rewrite has_key_upd, Hk'. apply orb_true_r.
    + destruct (in_dec Pos.eq_dec e (jkeys r)) as [Hin | Hnin].
      * left. exists e. split; [exact Hin|]. rewrite has_key_upd, Pos.eqb_refl. reflexivity.
      * right. intros Hnd. apply H. simpl. constructor; assumption.
Qed.

Lemma load_from_nodup : forall j acc,
  NoDup (jkeys j) -> (forall e, In e (jkeys j) -> has_key e acc = false) ->
  exists m, load_from acc j = Some m.
Proof.
  induction j as [|[[e os] is_] r IH]; intros acc Hnd Hk.
  - exists acc. reflexivity.
  - simpl. rewrite (Hk e (or_introl eq_refl)). simpl in Hnd. inversion Hnd as [|e' l' Hni Hnd']; subst.
    apply IH; [exact Hnd'|]. intros e' He'. rewrite has_key_upd, (Hk e' (or_intror He')).
    rewrite orb_false_r. apply Pos.eqb_neq. intros ->. contradiction.
Qed.

Theorem load_rejects_duplicates : forall j, ~ NoDup (jkeys j) -> load j = None.
Proof. intros j H. apply load_from_dup. right. exact H. Qed.

Theorem load_accepts_nodup : forall j, NoDup (jkeys j) -> exists m, load j = Some m.
Proof. intros j H. apply load_from_nodup; [exact H | reflexivity]. Qed.

(** ** chunked ingestion *)

Theorem chunks_ingest : forall m chunks,
  ingest_from m (concat chunks) = fold_left ingest_from chunks m.
Proof.
  intros m chunks. revert m. induction chunks as [|c cs IH]; intros m; [reflexivity|].
  simpl. rewrite ingest_from_app. apply IH.
Qed.

(** one run of the tool on chunk [c]: load the previous model file (if the previous run
    succeeded), ingest the chunk; the result is saved for the next run *)
Definition chunk_step (acc : option emodel) (c : list jobgraph) : option emodel :=
  match acc with
  | Some a => match load (save a) with Some a' => Some (ingest_from a' c) | None => None end
  | None => None
  end.
Definition ingest_chunked (m : emodel) (chunks : list (list jobgraph)) : option emodel :=
  fold_left chunk_step chunks (Some m).

Theorem chunks_ingest_saved : forall m chunks,
  wf_model m = true -> ingest_chunked m chunks = Some (ingest_from m (concat chunks)).
Proof.
  intros m chunks. unfold ingest_chunked. revert m.
  induction chunks as [|c cs IH]; intros m Hw; [reflexivity|].
  simpl. rewrite (load_save m Hw). rewrite (IH _ (ingest_from_wf c m Hw)).
  rewrite ingest_from_app. reflexivity.
Qed.

(** the order of the chunks and the way the jobs are split are irrelevant *)
Corollary chunks_any_split : forall chunks chunks',
  (forall j, In j (concat chunks) <-> In j (concat chunks')) ->
  ingest_chunked [] chunks = ingest_chunked [] chunks'.
Proof.
  intros chunks chunks' H. rewrite !chunks_ingest_saved by reflexivity. f_equal.
  apply ingest_same_set, H.
Qed.

(** * E. The cached gate tree *)
Section CacheProofs.
  Variable tree : Type.
  Variable clg : list mset -> tree.

  Definition fresh_inv (s : estate tree) : Prop :=
    e_outs tree s <> [] -> e_stale tree s = true \/ e_cache tree s = Some (clg (e_outs tree s)).

  Lemma step_fresh_inv s o : fresh_inv s -> fresh_inv (step tree clg false s o).
  Proof.
    intros H. destruct o as [l | l | |]; simpl.
    - destruct l as [|a l]; [exact H|]. intros _. left. reflexivity.
    - destruct l as [|a l]; [exact H|]. exact H.
    - unfold get_tree. destruct (e_stale tree s) eqn:E; simpl; [|exact H].
      intros Hne. right. simpl in *. destruct (e_outs tree s); [contradiction | reflexivity].
    - intros Hne. left. simpl in *. destruct (e_outs tree s); [contradiction | reflexivity].
  Qed.

  Theorem tree_fresh_inv : forall ops, fresh_inv (run_ops tree clg false ops).
  Proof.
    intros ops. unfold run_ops. apply (fold_left_inv fresh_inv).
    - intros s o. apply step_fresh_inv.
    - intros H. exfalso. apply H. reflexivity.
  Qed.

  Theorem tree_fresh : forall ops,
    let s := run_ops tree clg false ops in
    e_outs tree s <> [] -> fst (get_tree tree clg s) = Some (clg (e_outs tree s)).
  Proof.
    intros ops s Hne. assert (H := tree_fresh_inv ops). fold s in H.
    unfold get_tree. destruct (e_stale tree s) eqn:E; simpl.
    - destruct (e_outs tree s); [contradiction | reflexivity].
    - destruct (H Hne) as [H' | H']; [congruence | exact H'].
  Qed.

  Theorem tree_fresh_v0_refuted : exists ops,
    let s := run_ops tree clg true ops in
    e_outs tree s <> [] /\ fst (get_tree tree clg s) = None.
  Proof.
    exists [OUpdOut [2; 3]%positive; OSaveLoad]. simpl. split; [discriminate | reflexivity].
  Qed.
End CacheProofs.

(** * C. Nothing observed is dropped (C01) *)

Fixpoint lookup (e : evt) (m : emodel) : option einfo :=
  match m with
  | [] => None
  | (x, i) :: r => if Pos.eqb e x then Some i else lookup e r
  end.

Lemma lookup_upd_other e e' f : e <> e' -> forall m, lookup e' (upd e f m) = lookup e' m.
Proof.
  intros Hne. assert (E0 : Pos.eqb e' e = false) by (apply Pos.eqb_neq; congruence).
  induction m as [|[x i] r IH]; simpl; [rewrite E0; reflexivity|].
  destruct (Pos.compare e x) eqn:E; simpl.
  - apply Pos.compare_eq in E. subst x. rewrite E0. reflexivity.
  - rewrite E0. reflexivity.
  - rewrite IH. reflexivity.
Qed.

Lemma lookup_none_gt e m : keys_gt e m -> lookup e m = None.
Proof.
  induction m as [|[x i] r IH]; intros H; [reflexivity|]. simpl.
  assert (Hx : (e < x)%positive) by (apply (H x i); left; reflexivity).
  assert (E : Pos.eqb e x = false) by (apply Pos.eqb_neq; plia). rewrite E.
  apply IH. intros y b Hy. apply (H y b). right. exact Hy.
Qed.

Definition get (e : evt) (m : emodel) : einfo :=
  match lookup e m with Some i => i | None => mkinfo [] [] end.

Lemma lookup_upd_same e f : forall m, sorted_keys m = true ->
  lookup e (upd e f m) = Some (f (get e m)).
Proof.
  unfold get. induction m as [|[x i] r IH]; intros Hs; simpl.
  - rewrite Pos.eqb_refl. reflexivity.
  - destruct (Pos.compare e x) eqn:E; simpl.
    + apply Pos.compare_eq in E. subst x. rewrite Pos.eqb_refl. reflexivity.
    + rewrite Pos.eqb_refl.
      assert (E' : Pos.eqb e x = false) by (apply Pos.eqb_neq; plia). rewrite E'.
      apply sorted_keys_cons in Hs. destruct Hs as [Hg _].
      rewrite lookup_none_gt; [reflexivity|]. intros y b Hy. specialize (Hg y b Hy). plia.
    + assert (E' : Pos.eqb e x = false) by (apply Pos.eqb_neq; plia). rewrite E'.
      apply sorted_keys_cons in Hs. apply IH, Hs.
Qed.

(** the evidence of atomic update [o] is present in model [m] *)
Definition has_ev (o : aop) (m : emodel) : Prop :=
  exists info, lookup (fst (fst o)) m = Some info /\
               (snd (fst o) <> [] -> In (snd (fst o)) (outs info)) /\
               (snd o <> [] -> In (snd o) (ins info)).

Lemma op_fun_records o i :
  (snd (fst o) <> [] -> In (snd (fst o)) (outs (op_fun o i))) /\
  (snd o <> [] -> In (snd o) (ins (op_fun o i))).
Proof.
  destruct o as [[t so] pi], i as [os ns]. unfold op_fun. simpl fst. simpl snd.
  destruct so as [|a so], pi as [|b pi]; simpl; split; intros H; try contradiction;
    apply sset_add_In.
Qed.

Lemma op_fun_mono o i :
  (forall s, In s (outs i) -> In s (outs (op_fun o i))) /\
  (forall s, In s (ins i) -> In s (ins (op_fun o i))).
Proof.
  destruct o as [[t so] pi], i as [os ns]. unfold op_fun. simpl fst. simpl snd.
  destruct so as [|a so], pi as [|b pi]; simpl; split; intros s H; try exact H;
    apply sset_add_mono, H.
Qed.

Lemma astep_sorted m o : sorted_keys m = true -> sorted_keys (astep m o) = true.
Proof. apply upd_sorted. Qed.

Lemma astep_has_ev m o : sorted_keys m = true -> has_ev o (astep m o).
Proof.
  intros Hs. unfold has_ev, astep. rewrite (lookup_upd_same _ _ m Hs).
  eexists. split; [reflexivity|]. apply op_fun_records.
Qed.

Lemma astep_keeps_ev m o o' : sorted_keys m = true -> has_ev o m -> has_ev o (astep m o').
Proof.
  intros Hs [info [Hl [Ho Hi]]]. unfold has_ev, astep.
  destruct (Pos.eq_dec (fst (fst o')) (fst (fst o))) as [E | NE].
  - rewrite E, (lookup_upd_same _ _ m Hs). unfold get. rewrite Hl.
    eexists. split; [reflexivity|]. destruct (op_fun_mono o' info) as [M1 M2].
    split; intros H; [apply M1, Ho, H | apply M2, Hi, H].
  - rewrite (lookup_upd_other _ _ _ NE). exists info. auto.
Qed.

Lemma fold_keeps_ev o : forall ops m, sorted_keys m = true -> has_ev o m ->
  has_ev o (fold_left astep ops m).
Proof.
  induction ops as [|a ops IH]; intros m Hs H; [exact H|]. simpl.
  apply IH; [apply astep_sorted, Hs | apply astep_keeps_ev; assumption].
Qed.

Lemma fold_has_ev o : forall ops m, sorted_keys m = true -> In o ops ->
  has_ev o (fold_left astep ops m).
Proof.
  induction ops as [|a ops IH]; intros m Hs Hin; [destruct Hin|]. simpl.
  destruct Hin as [E | Hin].
  - subst a. apply fold_keeps_ev; [apply astep_sorted, Hs | apply astep_has_ev, Hs].
  - apply IH; [apply astep_sorted, Hs | exact Hin].
Qed.

Theorem ingest_from_evidence : forall m js j i,
  sorted_keys m = true -> In j js -> i < length (with_start j) ->
  let g := with_start j in
  let t := fst (nth i g (start_evt, [])) in
  let ps := snd (nth i g (start_evt, [])) in
  exists info, lookup t (ingest_from m js) = Some info /\
    (succ_types g i <> [] -> In (mset_of (succ_types g i)) (outs info)) /\
    (pred_types g ps <> [] -> In (mset_of (pred_types g ps)) (ins info)).
Proof.
  intros m js j i Hs Hj Hi g t ps.
  assert (Hin : In (node_op g (i, nth i g (start_evt, []))) (jops js)).
  { unfold jops. apply in_flat_map. exists j. split; [exact Hj|]. fold g. unfold gops.
    apply in_map. apply (in_combine_seq0 (start_evt, [])). split; [exact Hi | reflexivity]. }
  destruct (fold_has_ev _ _ m Hs Hin) as [info [Hl [Ho Hn]]].
  rewrite <- ingest_from_ops in Hl. unfold node_op in *. simpl in Hl, Ho, Hn.
  exists info. split; [exact Hl|]. split; intros H.
  - apply Ho. intros E. apply mset_of_nil_iff in E. contradiction.
  - apply Hn. intros E. apply mset_of_nil_iff in E. contradiction.
Qed.

Theorem ingest_evidence : forall js j i,
  In j js -> i < length (with_start j) ->
  let g := with_start j in
  let t := fst (nth i g (start_evt, [])) in
  let ps := snd (nth i g (start_evt, [])) in
  exists info, lookup t (ingest js) = Some info /\
    (succ_types g i <> [] -> In (mset_of (succ_types g i)) (outs info)) /\
    (pred_types g ps <> [] -> In (mset_of (pred_types g ps)) (ins info)).
Proof. intros js j i. apply (ingest_from_evidence [] js j i). reflexivity. Qed.

(** * B'. Invariance under renumbering of the nodes (graph isomorphism) *)

(** every predecessor list is duplicate-free (true of the Python representation, where
    [previous_events] is a dictionary keyed by event id) *)
Definition preds_nodup (g : jobgraph) : Prop := forall i, i < length g -> NoDup (npreds g i).

Lemma map_filter_combine {A B} (q : A -> bool) (h : A -> B) : forall (l : list A) s,
  map (fun p => h (snd p)) (filter (fun p => q (snd p)) (combine (seq s (length l)) l)) =
  flat_map (fun n => if q n then [h n] else []) l.
Proof.
  induction l as [|x l IH]; intros s; simpl; [reflexivity|].
  destruct (q x); simpl; rewrite IH; reflexivity.
Qed.

Lemma succ_types_succs g i : succ_types g i = map (ntype g) (succs g i).
Proof.
  unfold succ_types, succs. rewrite map_map.
  rewrite <- (map_filter_combine (fun n => existsb (Nat.eqb i) (snd n)) fst g 0).
  apply map_ext_in. intros [j n] Hin. apply filter_In in Hin. destruct Hin as [Hin _].
  apply (in_combine_seq0 dnode) in Hin. destruct Hin as [_ Hn]. unfold ntype. simpl. rewrite Hn. reflexivity.
Qed.

Lemma pred_types_ntype g ps : pred_types g ps = map (ntype g) ps.
Proof. reflexivity. Qed.

Lemma gops_In g o :
  In o (gops g) <->
  exists i, i < length g /\
            o = (ntype g i, mset_of (succ_types g i), mset_of (pred_types g (npreds g i))).
Proof.
  unfold gops. rewrite in_map_iff. split.
  - intros [[i n] [E Hin]]. apply (in_combine_seq0 dnode) in Hin. destruct Hin as [Hi Hn].
    exists i. split; [exact Hi|]. subst o n. reflexivity.
  - intros [i [Hi E]]. exists (i, nth i g dnode). split; [subst o; reflexivity|].
    apply (in_combine_seq0 dnode). split; [exact Hi | reflexivity].
Qed.

Section IsoIngest.
  Variables (g1 g2 : jobgraph) (f : nat -> nat).
  Hypothesis T1 : topo_b g1 = true.
  Hypothesis T2 : topo_b g2 = true.
  Hypothesis N1 : preds_nodup g1.
  Hypothesis N2 : preds_nodup g2.
  Hypothesis Hlen : length g1 = length g2.
  Hypothesis Hr : forall i, i < length g1 -> f i < length g2.
  Hypothesis Hinj : forall i j, i < length g1 -> j < length g1 -> f i = f j -> i = j.
  Hypothesis Hty : forall i, i < length g1 -> ntype g2 (f i) = ntype g1 i.
  Hypothesis Hp : forall i j, i < length g1 -> j < length g1 ->
                              (In j (npreds g1 i) <-> In (f j) (npreds g2 (f i))).

  Lemma iso_succs_perm i : i < length g1 -> Permutation (map f (succs g1 i)) (succs g2 (f i)).
  Proof.
    intros Hi. apply NoDup_Permutation.
    - apply NoDup_map_inj_on; [|apply succs_NoDup].
      intros a b Ha Hb. apply succs_In in Ha. apply succs_In in Hb. apply Hinj; tauto.
    - apply succs_NoDup.
    - intros y. rewrite in_map_iff, succs_In. split.
      + intros [j [E Hj]]. apply succs_In in Hj. destruct Hj as [Hj Hin]. subst y.
        split; [apply Hr, Hj | apply Hp; assumption].
      + intros [Hy Hin]. destruct (Iso_surj g1 g2 f Hlen Hr Hinj y Hy) as [j [Hj E]]. subst y.
        exists j. split; [reflexivity|]. apply succs_In. split; [exact Hj | apply Hp; assumption].
  Qed.

  Lemma iso_preds_perm i : i < length g1 -> Permutation (map f (npreds g1 i)) (npreds g2 (f i)).
  Proof.
    intros Hi. assert (Ht1 := proj1 (topo_b_topo g1) T1).
    assert (Hlt : forall j, In j (npreds g1 i) -> j < length g1).
    { intros j Hj. apply (topo_lt_length g1 i j Ht1 Hi Hj). }
    apply NoDup_Permutation.
    - apply NoDup_map_inj_on; [|apply N1, Hi]. intros a b Ha Hb. apply Hinj; auto.
    - apply N2, Hr, Hi.
    - intros y. rewrite in_map_iff. split.
      + intros [j [E Hj]]. subst y. apply Hp; auto.
      + intros Hy. destruct (Iso_preds_onto g1 g2 f T2 Hlen Hr Hinj Hp i y Hi Hy) as [j [Hj [Hin E]]].
        exists j. split; [exact E | exact Hin].
  Qed.

  Lemma iso_node_op i : i < length g1 ->
    (ntype g2 (f i), mset_of (succ_types g2 (f i)), mset_of (pred_types g2 (npreds g2 (f i)))) =
    (ntype g1 i, mset_of (succ_types g1 i), mset_of (pred_types g1 (npreds g1 i))).
  Proof.
    intros Hi. assert (Ht1 := proj1 (topo_b_topo g1) T1).
    rewrite (Hty i Hi). f_equal; [f_equal|].
    - rewrite !succ_types_succs. apply mset_of_perm.
      eapply perm_trans; [apply Permutation_map; symmetry; apply (iso_succs_perm i Hi)|].
      rewrite map_map. erewrite map_ext_in; [apply Permutation_refl|].
      intros j Hj. apply succs_In in Hj. apply Hty, Hj.
    - rewrite !pred_types_ntype. apply mset_of_perm.
      eapply perm_trans; [apply Permutation_map; symmetry; apply (iso_preds_perm i Hi)|].
      rewrite map_map. erewrite map_ext_in; [apply Permutation_refl|].
      intros j Hj. apply Hty. apply (topo_lt_length g1 i j Ht1 Hi Hj).
  Qed.

  Lemma gops_iso : incl (gops g1) (gops g2) /\ incl (gops g2) (gops g1).
  Proof.
    split; intros o Ho; apply gops_In in Ho; destruct Ho as [i [Hi E]]; apply gops_In.
    - exists (f i). split; [apply Hr, Hi|]. rewrite (iso_node_op i Hi). exact E.
    - destruct (Iso_surj g1 g2 f Hlen Hr Hinj i Hi) as [j [Hj Ej]]. subst i.
      exists j. split; [exact Hj|]. rewrite <- (iso_node_op j Hj). exact E.
  Qed.
End IsoIngest.

Lemma gops_Iso g1 g2 :
  topo_b g1 = true -> topo_b g2 = true -> preds_nodup g1 -> preds_nodup g2 -> Iso g1 g2 ->
  incl (gops g1) (gops g2) /\ incl (gops g2) (gops g1).
Proof.
  intros T1 T2 N1 N2 [Hlen [f [Hr [Hinj [Hty Hp]]]]].
  exact (gops_iso g1 g2 f T1 T2 N1 N2 Hlen Hr Hinj Hty Hp).
Qed.

(** ingestion of a job graph does not depend on the numbering of its nodes *)
Theorem ingest_graph_iso : forall m g1 g2,
  topo_b g1 = true -> topo_b g2 = true -> preds_nodup g1 -> preds_nodup g2 -> Iso g1 g2 ->
  ingest_graph m g1 = ingest_graph m g2.
Proof.
  intros m g1 g2 T1 T2 N1 N2 HI. destruct (gops_Iso g1 g2 T1 T2 N1 N2 HI) as [I1 I2].
  rewrite !ingest_graph_ops.
  apply fold_set; [intros; apply astep_comm | intros; apply astep_idem | exact I1 | exact I2].
Qed.

(** ** the dummy start event preserves all of this *)

Definition ws_preds (ps : list nat) : list nat :=
  match ps with [] => [0] | y :: l => map S (y :: l) end.
Definition ws_node (n : evt * list nat) : evt * list nat := (fst n, ws_preds (snd n)).

Lemma ws_length g : length (with_start g) = S (length g).
Proof. unfold with_start. simpl. rewrite map_length. reflexivity. Qed.

Lemma ws_nth g i : i < length g -> nth (S i) (with_start g) dnode = ws_node (nth i g dnode).
Proof.
  intros Hi. change (nth (S i) (with_start g) dnode) with (nth i (map ws_node g) dnode).
  rewrite (nth_indep _ dnode (ws_node dnode)) by (rewrite map_length; exact Hi).
  apply (map_nth ws_node).
Qed.

Lemma ws_ntype g i : i < length g -> ntype (with_start g) (S i) = ntype g i.
Proof. intros Hi. unfold ntype. rewrite (ws_nth g i Hi). reflexivity. Qed.

Lemma ws_npreds g i : i < length g ->
  npreds (with_start g) (S i) = ws_preds (npreds g i).
Proof. intros Hi. unfold npreds. rewrite (ws_nth g i Hi). reflexivity. Qed.

Lemma in_ws_preds k ps :
  In k (ws_preds ps) <-> (k = 0 /\ ps = []) \/ (exists b, k = S b /\ In b ps).
Proof.
  destruct ps as [|p ps]; unfold ws_preds.
  - simpl. split.
    + intros [H | []]. left. auto.
    + intros [[H _] | [b [_ []]]]. left. auto.
  - rewrite in_map_iff. split.
    + intros [b [E H]]. right. exists b. auto.
    + intros [[_ H] | [b [E H]]]; [discriminate | exists b; auto].
Qed.

Lemma with_start_topo g : topo_b g = true -> topo_b (with_start g) = true.
Proof.
  rewrite !topo_b_topo. intros Ht i j Hi Hj. rewrite ws_length in Hi.
  destruct i as [|a]; [destruct Hj|].
  assert (Ha : a < length g) by lia. rewrite (ws_npreds g a Ha) in Hj.
  apply in_ws_preds in Hj. destruct Hj as [[E _] | [b [E Hb]]]; [lia|].
  subst j. specialize (Ht a b Ha Hb). lia.
Qed.

Lemma with_start_nodup g : preds_nodup g -> preds_nodup (with_start g).
Proof.
  intros Hn i Hi. rewrite ws_length in Hi. destruct i as [|a]; [constructor|].
  assert (Ha : a < length g) by lia. rewrite (ws_npreds g a Ha).
  specialize (Hn a Ha). unfold ws_preds. destruct (npreds g a) as [|p ps].
  - constructor; [intros [] | constructor].
  - apply NoDup_map_inj_on; [|exact Hn]. intros x y _ _ E. congruence.
Qed.

Lemma with_start_iso g1 g2 :
  topo_b g1 = true -> topo_b g2 = true -> Iso g1 g2 -> Iso (with_start g1) (with_start g2).
Proof.
  intros T1 T2 [Hlen [f [Hr [Hinj [Hty Hp]]]]].
  assert (Ht1 := proj1 (topo_b_topo g1) T1).
  split; [rewrite !ws_length; congruence|].
  exists (fun i => match i with 0 => 0 | S k => S (f k) end).
  rewrite !ws_length. repeat split.
  - intros [|a] Ha; [lia|]. specialize (Hr a). lia.
  - intros [|a] [|b] Ha Hb E; try reflexivity; try discriminate.
    f_equal. apply Hinj; lia.
  - intros [|a] Ha; [reflexivity|].
    assert (Ha' : a < length g1) by lia.
    rewrite (ws_ntype g2 (f a) (Hr a Ha')), (ws_ntype g1 a Ha'). apply Hty, Ha'.
  - destruct i as [|a]; [intros []|]. intros Hin.
    assert (Ha' : a < length g1) by lia.
    rewrite (ws_npreds g1 a Ha') in Hin. rewrite (ws_npreds g2 (f a) (Hr a Ha')).
    apply in_ws_preds in Hin. apply in_ws_preds.
    destruct Hin as [[E Hnil] | [b [E Hb]]].
    + subst j. left. split; [reflexivity|].
      destruct (npreds g2 (f a)) as [|q qs] eqn:Eq; [reflexivity|]. exfalso.
      destruct (Iso_preds_onto g1 g2 f T2 Hlen Hr Hinj Hp a q Ha') as [j [_ [Hj _]]].
      { rewrite Eq. left. reflexivity. }
      rewrite Hnil in Hj. destruct Hj.
    + subst j. right. exists (f b). split; [reflexivity|].
      apply Hp; [exact Ha' | lia | exact Hb].
  - destruct i as [|a]; [intros []|]. intros Hin.
    assert (Ha' : a < length g1) by lia.
    rewrite (ws_npreds g2 (f a) (Hr a Ha')) in Hin. rewrite (ws_npreds g1 a Ha').
    apply in_ws_preds in Hin. apply in_ws_preds.
    destruct j as [|b].
    + left. split; [reflexivity|]. destruct Hin as [[_ Hnil] | [b [E _]]]; [|discriminate].
      destruct (npreds g1 a) as [|q qs] eqn:Eq; [reflexivity|]. exfalso.
      assert (Hq : In q (npreds g1 a)) by (rewrite Eq; left; reflexivity).
      assert (Hq' : q < length g1) by (apply (topo_lt_length g1 a q Ht1 Ha' Hq)).
      apply (Hp a q Ha' Hq') in Hq. rewrite Hnil in Hq. destruct Hq.
    + right. exists b. split; [reflexivity|].
      destruct Hin as [[E _] | [b' [E Hb']]]; [discriminate|]. inversion E; subst b'.
      apply Hp; [exact Ha' | lia | exact Hb'].
Qed.

(** Target: two isomorphic presentations of a job are ingested identically.  Hypotheses added
    to the informal statement: predecessor lists are duplicate-free in both presentations
    ([preds_nodup]; [Iso] compares predecessor SETS while the learner counts predecessor
    occurrences -- see [ingest_iso_nodup_needed]) and indices are in range (implied by
    [topo_b]).  [wf_model m] is not used. *)
Theorem ingest_iso : forall m g1 g2,
  wf_model m = true -> topo_b g1 = true -> topo_b g2 = true ->
  preds_nodup g1 -> preds_nodup g2 -> Iso g1 g2 ->
  ingest_graph m (with_start g1) = ingest_graph m (with_start g2).
Proof.
  intros m g1 g2 _ T1 T2 N1 N2 HI.
  apply ingest_graph_iso; auto using with_start_topo, with_start_nodup, with_start_iso.
Qed.

(** ... and the duplicate-freeness hypothesis cannot be dropped *)
Theorem ingest_iso_nodup_needed : exists m g1 g2,
  wf_model m = true /\ topo_b g1 = true /\ topo_b g2 = true /\ Iso g1 g2 /\
  ingest_graph m (with_start g1) <> ingest_graph m (with_start g2).
Proof.
  exists [], ex_diamond1, ex_diamond2.
  split; [reflexivity|]. split; [reflexivity|]. split; [reflexivity|].
  split; [exact ex_diamond_iso|]. vm_compute. discriminate.
Qed.

(** the model is a function of the SET of job graphs up to isomorphism *)
Theorem ingest_set : forall m js js',
  wf_model m = true ->
  (forall j, In j js \/ In j js' -> topo_b j = true /\ preds_nodup j) ->
  (forall j, In j js -> exists j', In j' js' /\ Iso j j') ->
  (forall j', In j' js' -> exists j, In j js /\ Iso j' j) ->
  ingest_from m js = ingest_from m js'.
Proof.
  intros m js js' _ Hw H1 H2.
  assert (K : forall a b, (forall j, In j a \/ In j b -> topo_b j = true /\ preds_nodup j) ->
                          (forall j, In j a -> exists j', In j' b /\ Iso j j') ->
                          incl (jops a) (jops b)).
  { intros a b Hab H o Ho. unfold jops in *. apply in_flat_map in Ho. destruct Ho as [j [Hj Ho]].
    destruct (H j Hj) as [j' [Hj' HI]]. apply in_flat_map. exists j'. split; [exact Hj'|].
    destruct (Hab j (or_introl Hj)) as [T1 N1]. destruct (Hab j' (or_intror Hj')) as [T2 N2].
    apply (proj1 (gops_Iso (with_start j) (with_start j')
                   (with_start_topo j T1) (with_start_topo j' T2)
                   (with_start_nodup j N1) (with_start_nodup j' N2)
                   (with_start_iso j j' T1 T2 HI))). exact Ho. }
  apply ingest_ops_set; apply K; try assumption.
  intros j Hj. apply Hw. tauto.
Qed.

(** * F. Non-vacuity *)

Local Open Scope positive_scope.
Local Notation "# n" := (n%nat) (at level 0, n at level 0, only parsing).

(** event types: 1 = |||START|||, 2 = A, 3 = B, 4 = C, 5 = D.
    [ex_fork]: A -> {B, C} -> D; [ex_fork']: the same job with B and C listed in the other order;
    [ex_chain]: A -> B -> D *)
Definition ex_fork : jobgraph := [(2, []); (3, [#0]); (4, [#0]); (5, [#1; #2])].
Definition ex_fork' : jobgraph := [(2, []); (4, [#0]); (3, [#0]); (5, [#2; #1])].
Definition ex_chain : jobgraph := [(2, []); (3, [#0]); (5, [#1])].

Definition ex_model : emodel :=
  [(1, mkinfo [[(2, #1)]] []);
   (2, mkinfo [[(3, #1)]; [(3, #1); (4, #1)]] [[(1, #1)]]);
   (3, mkinfo [[(5, #1)]] [[(2, #1)]]);
   (4, mkinfo [[(5, #1)]] [[(2, #1)]]);
   (5, mkinfo [] [[(3, #1)]; [(3, #1); (4, #1)]])].

Example ex_ingest : ingest [ex_fork; ex_chain] = ex_model.
Proof. vm_compute. reflexivity. Qed.

Example ex_model_wf : wf_model ex_model = true.
Proof. vm_compute. reflexivity. Qed.

(** permuted, duplicated and renumbered presentations give the same model (by computation ...) *)
Example ex_ingest_presentations :
  ingest [ex_chain; ex_fork'; ex_chain; ex_fork] = ex_model /\
  ingest [ex_chain; ex_fork] = ex_model /\ ingest [ex_fork'; ex_chain] = ex_model.
Proof. repeat split; vm_compute; reflexivity. Qed.

(** ... and the hypotheses of [ingest_iso] / [ingest_set] are satisfied by the two fork
    presentations *)
Example ex_fork_topo : topo_b ex_fork = true /\ topo_b ex_fork' = true /\ topo_b ex_chain = true.
Proof. repeat split; vm_compute; reflexivity. Qed.

Example ex_fork_nodup : preds_nodup ex_fork /\ preds_nodup ex_fork' /\ preds_nodup ex_chain.
Proof.
  repeat split; intros i Hi; simpl in Hi;
    do 4 (destruct i as [|i]; [unfold npreds; simpl; repeat constructor; simpl; intuition discriminate|]);
    exfalso; lia.
Qed.

Example ex_fork_iso : Iso ex_fork ex_fork'.
Proof.
  split; [reflexivity|]. exists ex_swap12. simpl. repeat split.
  - intros i Hi. do 4 (destruct i as [|i]; [simpl; lia|]). lia.
  - intros i j Hi Hj. do 4 (destruct i as [|i]; [do 4 (destruct j as [|j]; [simpl; lia|]); lia|]). lia.
  - intros i Hi. do 4 (destruct i as [|i]; [reflexivity|]). lia.
  - do 4 (destruct i as [|i]; [do 4 (destruct j as [|j]; [simpl; intuition lia|]); lia|]). lia.
  - do 4 (destruct i as [|i]; [do 4 (destruct j as [|j]; [simpl; intuition lia|]); lia|]). lia.
Qed.

Example ex_ingest_iso : ingest_graph ex_model (with_start ex_fork) = ingest_graph ex_model (with_start ex_fork').
Proof.
  destruct ex_fork_topo as [T1 [T2 _]]. destruct ex_fork_nodup as [N1 [N2 _]].
  exact (ingest_iso ex_model ex_fork ex_fork' ex_model_wf T1 T2 N1 N2 ex_fork_iso).
Qed.

(** evidence is kept: A's fork {B, C} and its predecessor START *)
Example ex_evidence :
  lookup 2 (ingest [ex_fork]) = Some (mkinfo [[(3, #1); (4, #1)]] [[(1, #1)]]).
Proof. vm_compute. reflexivity. Qed.

(** model file round trip, by computation *)
Example ex_save : save ex_model =
  [(1, [[(2, #1)]], []);
   (2, [[(3, #1)]; [(3, #1); (4, #1)]], [[(1, #1)]]);
   (3, [[(5, #1)]], [[(2, #1)]]);
   (4, [[(5, #1)]], [[(2, #1)]]);
   (5, [], [[(3, #1)]; [(3, #1); (4, #1)]])].
Proof. reflexivity. Qed.

Example ex_load_save : load (save ex_model) = Some ex_model.
Proof. vm_compute. reflexivity. Qed.

(** a non-canonical file (events out of order, a type listed twice inside one set, a zero
    count, sets in another order, a set given twice up to order) loads to the canonical model *)
Example load_normalises :
  load [(3, [[(5, #1)]; [(5, #1); (4, #0)]], [[(2, #1)]]);
        (2, [[(4, #1); (3, #1); (3, #1)]; [(3, #2); (4, #1)]; [(3, #1)]], [])]
  = Some [(2, mkinfo [[(3, #1)]; [(3, #2); (4, #1)]] []);
          (3, mkinfo [[(5, #1)]] [[(2, #1)]])].
Proof. vm_compute. reflexivity. Qed.

Example ex_load_dup : load [(2, [[(3, #1)]], []); (3, [], []); (2, [], [[(1, #1)]])] = None.
Proof. vm_compute. reflexivity. Qed.

(** three runs with a model file between them = one run *)
Example ex_chunks :
  ingest_chunked [] [[ex_fork]; [ex_chain; ex_fork']; [ex_chain]] = Some ex_model /\
  ingest_chunked [] [[ex_chain]; []; [ex_fork]] = Some ex_model.
Proof. split; vm_compute; reflexivity. Qed.

(** the cache: repaired semantics recomputes after a reload, the pinned tree does not *)
Example ex_tree_fresh :
  let s := run_ops (list mset) (fun x => x) false [OUpdOut [2; 3]; OGet; OSaveLoad] in
  e_outs _ s = [[(2, #1); (3, #1)]] /\ fst (get_tree _ (fun x => x) s) = Some [[(2, #1); (3, #1)]].
Proof. vm_compute. split; reflexivity. Qed.

Example ex_tree_v0 :
  let s := run_ops (list mset) (fun x => x) true [OUpdOut [2; 3]; OGet; OSaveLoad] in
  e_outs _ s = [[(2, #1); (3, #1)]] /\ fst (get_tree _ (fun x => x) s) = None.
Proof. vm_compute. split; reflexivity. Qed.
