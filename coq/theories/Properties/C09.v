From Coq Require Import ZArith List Bool Permutation.
From V Require Import Store.Rel Store.Clean Store.Unique Store.UniqueSpec Store.UniqueProofs.
Import ListNotations.

Theorem c09_hash_eq_iff :
  forall (D : Type) (dleb : D -> D -> bool) (X : positive -> list D -> D),
  (forall a b, dleb a b = true \/ dleb b a = true) ->
  (forall a b, dleb a b = true -> dleb b a = true -> a = b) ->
  (forall a b c, dleb a b = true -> dleb b c = true -> dleb a c = true) ->
  (forall t1 l1 t2 l2, X t1 l1 = X t2 l2 -> t1 = t2 /\ l1 = l2) ->
  forall a b, thash D dleb X a = thash D dleb X b <-> TreeIso a b.
Proof. exact hash_eq_iff. Qed.
Print Assumptions c09_hash_eq_iff.

Theorem c09_ct_leb_total : forall a b, ct_leb a b = true \/ ct_leb b a = true.
Proof. exact ct_leb_total. Qed.
Print Assumptions c09_ct_leb_total.

Theorem c09_ct_leb_antisym : forall a b, ct_leb a b = true -> ct_leb b a = true -> a = b.
Proof. exact ct_leb_antisym. Qed.
Print Assumptions c09_ct_leb_antisym.

Theorem c09_ct_leb_trans : forall a b c, ct_leb a b = true -> ct_leb b c = true -> ct_leb a c = true.
Proof. exact ct_leb_trans. Qed.
Print Assumptions c09_ct_leb_trans.

Theorem c09_ct_eqb_eq : forall a b, ct_eqb a b = true <-> a = b.
Proof. exact ct_eqb_eq. Qed.
Print Assumptions c09_ct_eqb_eq.

Theorem c09_canon_iso : forall a b, canon a = canon b <-> TreeIso a b.
Proof. exact canon_iso. Qed.
Print Assumptions c09_canon_iso.

Theorem c09_hash_node_store :
  forall (D : Type) (dleb : D -> D -> bool) (X : positive -> list D -> D)
         (traces : list trace) (js : list positive) (tr : trace) (fuel : nat),
  NoDup (all_ids traces) -> In tr traces -> In (tjob tr) js ->
  (depth (ttree tr) < fuel)%nat ->
  hash_node D dleb X fuel (filter (fun n => memp (njob n) js) (db (store_of traces))) (rootnode tr)
  = Some (thash D dleb X (ttree tr)).
Proof. exact hash_node_store. Qed.
Print Assumptions c09_hash_node_store.

Theorem c09_hash_node_store_batch_fuel :
  forall (D : Type) (dleb : D -> D -> bool) (X : positive -> list D -> D)
         (traces : list trace) (js : list positive) (tr : trace),
  NoDup (all_ids traces) -> In tr traces -> In (tjob tr) js ->
  let batch := filter (fun n => memp (njob n) js) (db (store_of traces)) in
  hash_node D dleb X (S (length batch)) batch (rootnode tr) = Some (thash D dleb X (ttree tr)).
Proof. exact hash_node_store_batch_fuel. Qed.
Print Assumptions c09_hash_node_store_batch_fuel.

Theorem c09_all_hashes_store :
  forall (D : Type) (dleb : D -> D -> bool) (X : positive -> list D -> D)
         (traces : list trace) (bs : nat) (w : Z * Z),
  NoDup (all_ids traces) -> (0 < bs)%nat ->
  all_hashes D dleb X bs w (store_of traces) =
  if win0 w then map (row_of D (thash D dleb X)) traces else [].
Proof. exact all_hashes_store. Qed.
Print Assumptions c09_all_hashes_store.

Theorem c09_paging_indep :
  forall (D : Type) (dleb : D -> D -> bool) (X : positive -> list D -> D)
         (traces : list trace) (w : Z * Z) (bs1 bs2 : nat),
  NoDup (all_ids traces) -> (0 < bs1)%nat -> (0 < bs2)%nat ->
  all_hashes D dleb X bs1 w (store_of traces) = all_hashes D dleb X bs2 w (store_of traces).
Proof. exact paging_indep. Qed.
Print Assumptions c09_paging_indep.

Theorem c09_bs_zero_selects_nothing : forall w st, find_unique 0 w st = [].
Proof. exact bs_zero_selects_nothing. Qed.
Print Assumptions c09_bs_zero_selects_nothing.

Theorem c09_select_spec : forall l : list row, all_some l ->
  let sel := select_first [] l in
  (forall nm j, In (nm, j) sel -> exists d, In (j, nm, d) l) /\
  sel = map rproj (select_rows [] l) /\
  (forall r, In r (select_rows [] l) -> In r l) /\
  (forall r, In r l -> length (filter (same_group r) (select_rows [] l)) = 1%nat) /\
  (forall r, In r l -> exists r', In r' (select_rows [] l) /\ rkey r' = rkey r /\
        forall r'', In r'' (select_rows [] l) -> rkey r'' = rkey r -> r'' = r') /\
  NoDup (map rkey (select_rows [] l)).
Proof. exact select_spec. Qed.
Print Assumptions c09_select_spec.

Theorem c09_valid_selection_spec : forall (l sel : list row), all_some l -> valid_selection l sel ->
  (forall r, In r sel -> In r l) /\
  (forall r, In r l -> exists r', In r' sel /\ rkey r' = rkey r /\
                              forall r'', In r'' sel -> rkey r'' = rkey r -> r'' = r') /\
  NoDup (map rkey sel).
Proof. exact valid_selection_spec. Qed.
Print Assumptions c09_valid_selection_spec.

Theorem c09_select_rows_valid : forall l, all_some l -> valid_selection l (select_rows [] l).
Proof. exact select_rows_valid. Qed.
Print Assumptions c09_select_rows_valid.

Theorem c09_valid_selection_keys_perm : forall (l s1 s2 : list row),
  all_some l -> valid_selection l s1 -> valid_selection l s2 ->
  Permutation (map rkey s1) (map rkey s2).
Proof. exact valid_selection_keys_perm. Qed.
Print Assumptions c09_valid_selection_keys_perm.

Theorem c09_main : forall (traces : list trace) (bs : nat) (w : Z * Z),
  NoDup (all_ids traces) -> NoDup (map tjob traces) -> (0 < bs)%nat -> win0 w = true ->
  let sel := find_unique bs w (store_of traces) in
  (forall nm j, In (nm, j) sel -> exists t, In (j, nm, t) traces) /\
  NoDup sel /\
  (forall j nm t, In (j, nm, t) traces ->
     exists j', (In (nm, j') sel /\ exists t', In (j', nm, t') traces /\ TreeIso t t') /\
       forall j'', In (nm, j'') sel ->
                   (exists t'', In (j'', nm, t'') traces /\ TreeIso t t'') -> j'' = j') /\
  (forall nm j1 j2 t1 t2, In (nm, j1) sel -> In (nm, j2) sel ->
     In (j1, nm, t1) traces -> In (j2, nm, t2) traces -> TreeIso t1 t2 -> j1 = j2).
Proof. exact c09_main_thm. Qed.
Print Assumptions c09_main.

Theorem c09_main_any_representative : forall (traces : list trace) (selrows : list row),
  NoDup (map tjob traces) -> valid_selection (map (row_of ctree canon) traces) selrows ->
  let sel := map rproj selrows in
  (forall nm j, In (nm, j) sel -> exists t, In (j, nm, t) traces) /\
  NoDup sel /\
  (forall j nm t, In (j, nm, t) traces ->
     exists j', (In (nm, j') sel /\ exists t', In (j', nm, t') traces /\ TreeIso t t') /\
       forall j'', In (nm, j'') sel ->
                   (exists t'', In (j'', nm, t'') traces /\ TreeIso t t'') -> j'' = j') /\
  (forall nm j1 j2 t1 t2, In (nm, j1) sel -> In (nm, j2) sel ->
     In (j1, nm, t1) traces -> In (j2, nm, t2) traces -> TreeIso t1 t2 -> j1 = j2).
Proof. exact c09_main_any. Qed.
Print Assumptions c09_main_any_representative.

Theorem c09_order_indep : forall (traces traces' : list trace) (bs bs' : nat) (w : Z * Z),
  NoDup (all_ids traces) -> NoDup (map tjob traces) -> Permutation traces traces' ->
  (0 < bs)%nat -> (0 < bs')%nat ->
  forall nm c, shapes_hit bs w traces nm c <-> shapes_hit bs' w traces' nm c.
Proof. exact order_indep. Qed.
Print Assumptions c09_order_indep.

Theorem c09_encoding_collision_breaks :
  forall (D : Type) (dleb : D -> D -> bool) (X : positive -> list D -> D) (ty1 ty2 tyb : positive),
  X ty1 [] = X ty2 [X tyb []] ->
  exists a b, thash D dleb X a = thash D dleb X b /\ ~ TreeIso a b.
Proof. exact encoding_collision_breaks. Qed.
Print Assumptions c09_encoding_collision_breaks.
