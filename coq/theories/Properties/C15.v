(** C15: histories of runs over one file-backed database (otel_to_pv.py:17-112): re-running with
    ingestion disabled, with unique-graph filtering, or re-ingesting the same files completes and
    yields the same streamed events and the same selected traces as the first run. *)
From Coq Require Import ZArith List Bool.
From V Require Import Store.Rel Store.Ingest Store.Clean Store.Unique Store.Stream Store.Runs.
From V Require Import Store.CleanProofs Store.RunsProofs.
Import ListNotations.
Open Scope Z_scope.

Theorem c15_runs_repeatable :
  forall bs buf files, Good buf files ->
  forall u1 s1 (h : list flags),
    let first := mkflags true u1 s1 in
    let outs := history bs buf files (first :: h) empty_store in
    Forall (fun o => o <> None) outs
    /\ forall i j fi fj (oi oj : option output),
         nth_error (first :: h) i = Some fi -> nth_error (first :: h) j = Some fj ->
         f_unique fi = f_unique fj ->
         nth_error outs i = Some oi -> nth_error outs j = Some oj -> oi = oj.
Proof. exact runs_repeatable. Qed.
Print Assumptions c15_runs_repeatable.

Theorem c15_runs_repeatable_reingest :
  forall bs buf files,
  (exists w0, window buf (fst (track files)) (snd (track files)) = Some w0) ->
  forall u1 s1 (h : list flags), Forall (fun fl => f_ingest fl = true) h ->
    let first := mkflags true u1 s1 in
    let outs := history bs buf files (first :: h) empty_store in
    Forall (fun o => o <> None) outs
    /\ forall i j fi fj (oi oj : option output),
         nth_error (first :: h) i = Some fi -> nth_error (first :: h) j = Some fj ->
         f_unique fi = f_unique fj ->
         nth_error outs i = Some oi -> nth_error outs j = Some oj -> oi = oj.
Proof. exact runs_repeatable_reingest. Qed.
Print Assumptions c15_runs_repeatable_reingest.

Theorem c15_runs_store_stable :
  forall bs buf files, Good buf files ->
  forall fl S w0, window buf (fst (track files)) (snd (track files)) = Some w0 ->
    Stable (clean w0 (spec_ingest empty_store files)) S ->
    exists S', run bs buf files fl S
               = Some (S', out_of bs w0 (clean w0 (spec_ingest empty_store files)) (f_unique fl))
               /\ Stable (clean w0 (spec_ingest empty_store files)) S'.
Proof. exact runs_store_stable. Qed.
Print Assumptions c15_runs_store_stable.

Theorem c15_runs_v0_refuted_hashes :
  let h := [mkflags true true true; mkflags false true true] in
  (exists o, history_v0 10 0 files_hashes h empty_store = [Some o; None])
  /\ (exists o, history 10 0 files_hashes h empty_store = [Some o; Some o]
                /\ out_ids o = [(1, [[2; 1]])]%positive).
Proof. exact runs_v0_refuted_hashes. Qed.
Print Assumptions c15_runs_v0_refuted_hashes.

Theorem c15_runs_v0_refuted_assoc :
  let h := [mkflags true false true; mkflags true false true] in
  (exists o, history_v0 10 0 files_assoc h empty_store = [Some o; None])
  /\ (exists o, history 10 0 files_assoc h empty_store = [Some o; Some o]
                /\ out_ids o = [(1, [[2; 1]])]%positive).
Proof. exact runs_v0_refuted_assoc. Qed.
Print Assumptions c15_runs_v0_refuted_assoc.

Theorem c15_good_witness : Good 1 files_good.
Proof. exact good_witness. Qed.
Print Assumptions c15_good_witness.

Theorem c15_good_history :
  exists ou on,
    history 2 1 files_good
      [mkflags true true true; mkflags false false true; mkflags true false false;
       mkflags false true true] empty_store
    = [Some ou; Some on; Some on; Some ou]
    /\ out_ids ou = [(1, [[2; 1]]); (3, [[10; 9; 8]])]%positive
    /\ out_ids on = [(1, [[2; 1]; [7; 6]]); (3, [[10; 9; 8]])]%positive.
Proof. exact good_history. Qed.
Print Assumptions c15_good_history.

Theorem c15_cross_trace_parent_breaks_repeatability :
  (exists w0, window 1 (fst (track files_cross)) (snd (track files_cross)) = Some w0)
  /\ (forall n, In n files_cross -> 0 <= nst n /\ nen n <= int64_max)
  /\ ~ TraceClosed (spec_ingest empty_store files_cross)
  /\ ~ Good 1 files_cross
  /\ exists o,
       history 10 1 files_cross
         [mkflags true false true; mkflags false false true; mkflags true false true] empty_store
       = [Some o; Some []; Some o]
       /\ out_ids o = [(1, [[1]])]%positive.
Proof. exact cross_trace_parent_breaks_repeatability. Qed.
Print Assumptions c15_cross_trace_parent_breaks_repeatability.

Theorem c15_negative_timestamps_break_repeatability :
  (exists w0, window 0 (fst (track files_neg)) (snd (track files_neg)) = Some w0)
  /\ TraceClosed (spec_ingest empty_store files_neg)
  /\ exists o1 o2,
       history 10 0 files_neg
         [mkflags true false true; mkflags false false true; mkflags true false true] empty_store
       = [Some o1; Some o2; Some o1]
       /\ out_ids o1 = [(1, [[1]; [2]])]%positive /\ out_ids o2 = [(1, [[2]])]%positive.
Proof. exact negative_timestamps_break_repeatability. Qed.
Print Assumptions c15_negative_timestamps_break_repeatability.
