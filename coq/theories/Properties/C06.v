(** C06: logic-gate inference (/repo/tel2puml/logic_detection.py [calculate_logic_gates]).
    "For the successor sets observed after an event, the inferred AND/OR/XOR gate tree admits
    every observed set. When the sets are exactly the outcomes of a gate tree whose OR gates join
    only plain events and none of whose AND gates has two OR children, the inferred tree admits
    exactly those sets and nothing more."

    This file fixes the MEANING used by the harness: the declarative semantics [Admits], its
    executable counterpart [outcomes]/[admits_b], the validators [sound_b]/[exact_b]/[c06_check]
    that the harness evaluates on the tree returned by the Python code, and the enumeration
    [enum_trees n] of the finite domain (all gate trees over the events 1..n, no tau, arity >= 2,
    alternating operators, depth <= 3, up to the order of children). The verdict about the code
    itself comes from the harness run, case by case; nothing here asserts it. *)
From Coq Require Import List Bool PArith NArith Arith Permutation.
From V Require Import Gate.GateTree Gate.GateProofs Gate.GateEnum Gate.GateEnumProofs.
From V Require Import Gate.Cover Gate.CoverProofs.
Import ListNotations.

(** ** Executable semantics = declarative semantics *)

Theorem c06_admits_b_iff : forall t s, admits_b t s = true <-> Admits t (norm s).
Proof. exact admits_b_iff. Qed.
Print Assumptions c06_admits_b_iff.

Theorem c06_outcomes_spec : forall t s, In s (outcomes t) <-> Admits t s /\ canonical s.
Proof. exact outcomes_spec. Qed.
Print Assumptions c06_outcomes_spec.

Theorem c06_admits_canonical : forall t s, Admits t s -> canonical s.
Proof. exact Admits_canonical. Qed.
Print Assumptions c06_admits_canonical.

Theorem c06_outcomes_sorted : forall t, sets_canonical_b (outcomes t) = true.
Proof. exact outcomes_sorted. Qed.
Print Assumptions c06_outcomes_sorted.

(** ** Validators *)

Theorem c06_sound_b_unfold : forall res F, sound_b res F = forallb (admits_b res) F.
Proof. exact sound_b_unfold. Qed.
Print Assumptions c06_sound_b_unfold.

Theorem c06_exact_b_unfold : forall res F,
  exact_b res F = sound_b res F && forallb (fun s => mem s (map norm F)) (outcomes res).
Proof. exact exact_b_unfold. Qed.
Print Assumptions c06_exact_b_unfold.

Theorem c06_sound_b_spec : forall res F,
  sound_b res F = true <-> forall s, In s F -> Admits res (norm s).
Proof. exact sound_b_spec. Qed.
Print Assumptions c06_sound_b_spec.

Theorem c06_exact_b_spec : forall res F,
  exact_b res F = true <-> forall s, canonical s -> (Admits res s <-> In s (map norm F)).
Proof. exact exact_b_spec. Qed.
Print Assumptions c06_exact_b_spec.

Theorem c06_exact_b_spec_strong : forall res F,
  exact_b res F = true <-> forall s, Admits res s <-> In s (map norm F).
Proof. exact exact_b_spec_strong. Qed.
Print Assumptions c06_exact_b_spec_strong.

Theorem c06_exact_b_outcomes : forall res t,
  exact_b res (outcomes t) = true <-> outcomes res = outcomes t.
Proof. exact exact_b_outcomes. Qed.
Print Assumptions c06_exact_b_outcomes.

Theorem c06_check_spec : forall t res,
  c06_check t res = true <->
  (forall s, Admits t s -> Admits res s) /\
  (exact_class t = true -> forall s, Admits res s <-> Admits t s).
Proof. exact GateProofs.c06_check_spec. Qed.
Print Assumptions c06_check_spec.

(** ** Structural predicates *)

Theorem c06_plain_or_spec : forall t,
  plain_or t = true <->
  forall cs, subtree (Node GOr cs) t -> forall c, In c cs -> exists e, c = Leaf e.
Proof. exact plain_or_spec. Qed.
Print Assumptions c06_plain_or_spec.

Theorem c06_no_and_two_or_spec : forall t,
  no_and_two_or t = true <->
  forall cs, subtree (Node GAnd cs) t -> length (filter is_or cs) <= 1.
Proof. exact no_and_two_or_spec. Qed.
Print Assumptions c06_no_and_two_or_spec.

Theorem c06_alternating_spec : forall t,
  alternating t = true <->
  forall op cs cs', subtree (Node op cs) t -> ~ In (Node op cs') cs.
Proof. exact alternating_spec. Qed.
Print Assumptions c06_alternating_spec.

Theorem c06_no_tau_spec : forall t, no_tau t = true <-> ~ subtree Tau t.
Proof. exact no_tau_spec. Qed.
Print Assumptions c06_no_tau_spec.

Theorem c06_arity_ok_spec : forall t,
  arity_ok t = true <-> forall op cs, subtree (Node op cs) t -> 2 <= length cs.
Proof. exact arity_ok_spec. Qed.
Print Assumptions c06_arity_ok_spec.

Theorem c06_distinct_leaves_spec : forall t, distinct_leaves t = true <-> NoDup (leaves t).
Proof. exact distinct_leaves_spec. Qed.
Print Assumptions c06_distinct_leaves_spec.

Theorem c06_depth_node : forall op cs d,
  depth (Node op cs) <= S d <-> forall c, In c cs -> depth c <= d.
Proof. exact depth_node. Qed.
Print Assumptions c06_depth_node.

(** ** The enumerated domain *)

Theorem c06_enum_trees_sound : forall n t, In t (enum_trees n) -> in_domain n t = true.
Proof. exact enum_trees_sound. Qed.
Print Assumptions c06_enum_trees_sound.

(** full completeness, for every n (not only n <= 6) *)
Theorem c06_enum_trees_complete : forall n t,
  in_domain n t = true -> In (canon_tree t) (map canon_tree (enum_trees n)).
Proof. exact enum_trees_complete. Qed.
Print Assumptions c06_enum_trees_complete.

Theorem c06_enum_trees_complete_tperm : forall n t,
  in_domain n t = true ->
  exists t', In t' (enum_trees n) /\ canon_tree t' = canon_tree t /\ outcomes t' = outcomes t.
Proof. exact enum_trees_complete_tperm. Qed.
Print Assumptions c06_enum_trees_complete_tperm.

(** one representative per unordered tree (by computation, bound in the statement) *)
Theorem c06_enum_trees_one_rep : forall n t t',
  n <= 6 -> In t (enum_trees n) -> In t' (enum_trees n) -> tperm t t' -> t = t'.
Proof. exact enum_trees_one_rep. Qed.
Print Assumptions c06_enum_trees_one_rep.

Theorem c06_enum_counts :
  map (fun n => N.of_nat (length (enum_trees n))) [1; 2; 3; 4; 5; 6]
  = [1; 3; 21; 243; 2493; 27099]%N.
Proof. exact enum_counts. Qed.
Print Assumptions c06_enum_counts.

Theorem c06_enum_exact_class_counts :
  map (fun n => N.of_nat (length (enum_exact_class n))) [1; 2; 3; 4; 5; 6]
  = [1; 3; 15; 112; 943; 8592]%N.
Proof. exact enum_exact_class_counts. Qed.
Print Assumptions c06_enum_exact_class_counts.

Theorem c06_brute_agrees : forall n,
  n <= 4 ->
  nrm tcmp (map canon_tree (brute_trees n)) = nrm tcmp (map canon_tree (enum_trees n)).
Proof. exact brute_agrees. Qed.
Print Assumptions c06_brute_agrees.

(** ** Reading results: order of children, gates over plain events, no empty outcome *)

Theorem c06_outcomes_perm_invariant : forall t t', tperm t t' -> outcomes t = outcomes t'.
Proof. exact outcomes_perm_invariant. Qed.
Print Assumptions c06_outcomes_perm_invariant.

Theorem c06_admits_perm : forall op cs cs' s,
  Permutation cs cs' -> (Admits (Node op cs) s <-> Admits (Node op cs') s).
Proof. exact Admits_perm_iff. Qed.
Print Assumptions c06_admits_perm.

Theorem c06_tperm_canon_tree : forall t, tperm t (canon_tree t).
Proof. exact tperm_canon_tree. Qed.
Print Assumptions c06_tperm_canon_tree.

Theorem c06_tperm_canon_eq : forall t t', tperm t t' -> canon_tree t = canon_tree t'.
Proof. exact tperm_canon_eq. Qed.
Print Assumptions c06_tperm_canon_eq.

Theorem c06_outcomes_canon_tree : forall t, outcomes (canon_tree t) = outcomes t.
Proof. exact outcomes_canon_tree. Qed.
Print Assumptions c06_outcomes_canon_tree.

Theorem c06_or_leaves : forall es s,
  Admits (Node GOr (map Leaf es)) s <-> canonical s /\ s <> [] /\ incl s es.
Proof. exact or_leaves. Qed.
Print Assumptions c06_or_leaves.

Theorem c06_xor_leaves : forall es s,
  Admits (Node GXor (map Leaf es)) s <-> exists e, In e es /\ s = [e].
Proof. exact xor_leaves. Qed.
Print Assumptions c06_xor_leaves.

Theorem c06_and_leaves : forall es s, Admits (Node GAnd (map Leaf es)) s <-> s = norm es.
Proof. exact and_leaves. Qed.
Print Assumptions c06_and_leaves.

Theorem c06_no_empty_outcome : forall t, no_tau t = true -> arity_ok t = true -> ~ Admits t [].
Proof. exact no_empty_outcome. Qed.
Print Assumptions c06_no_empty_outcome.

Theorem c06_no_empty_in_domain : forall n t, in_domain n t = true -> ~ In [] (outcomes t).
Proof. exact no_empty_in_domain. Qed.
Print Assumptions c06_no_empty_in_domain.

(** ** Examples *)

Example c06_ex_mixed_outcomes :
  outcomes (Node GAnd [Leaf 1; Node GOr [Leaf 2; Leaf 3]; Node GXor [Leaf 4; Leaf 5]]%positive)
  = [[1; 2; 3; 4]; [1; 2; 3; 5]; [1; 2; 4]; [1; 2; 5]; [1; 3; 4]; [1; 3; 5]]%positive.
Proof. exact ex_mixed_outcomes. Qed.

Example c06_ex_mixed_in_domain : in_domain 5 ex_mixed = true /\ exact_class ex_mixed = true.
Proof. exact ex_mixed_in_domain. Qed.

Example c06_ex_mixed_admits :
  Admits ex_mixed [1; 2; 3; 5]%positive /\ ~ Admits ex_mixed [1; 4; 5]%positive.
Proof. exact ex_mixed_admits. Qed.

Example c06_ex_unnormalised_family :
  exact_b ex_mixed [[4; 2; 1]; [5; 2; 1; 2]; [3; 1; 4]; [5; 3; 1]; [1; 2; 3; 4]; [3; 2; 1; 5];
                    [1; 2; 4]]%positive = true.
Proof. exact ex_unnormalised_family. Qed.

Example c06_ex_tau_outcomes : outcomes (Node GXor [Tau; Leaf 1%positive]) = [[]; [1%positive]].
Proof. exact ex_tau_outcomes. Qed.

Example c06_ex_sound_not_exact :
  let res := Node GOr [Leaf 1; Leaf 2]%positive in
  let F := [[1]; [2]]%positive in
  sound_b res F = true /\ exact_b res F = false /\
  Admits res [1; 2]%positive /\ ~ In [1; 2]%positive (map norm F).
Proof. exact ex_sound_not_exact. Qed.

Example c06_ex_not_sound :
  sound_b (Node GXor [Leaf 1; Leaf 2]%positive) [[2; 1]]%positive = false.
Proof. exact ex_not_sound. Qed.

Example c06_ex_canon :
  canon_tree (Node GAnd [Node GXor [Leaf 5; Leaf 4]; Node GOr [Leaf 3; Leaf 2]; Leaf 1]%positive)
  = canon_tree ex_mixed.
Proof. exact ex_canon. Qed.

Example c06_ex_and_two_or :
  let t := Node GAnd [Node GOr [Leaf 1; Leaf 2]; Node GOr [Leaf 3; Leaf 4]]%positive in
  in_domain 4 t = true /\ exact_class t = false /\ plain_or t = true /\ no_and_two_or t = false.
Proof. exact ex_and_two_or. Qed.

(** ** [get_weighted_cover] (utils.py:14-60), used by [process_missing_and_gates] *)

Theorem c06_cover_partition : forall E U C,
  get_weighted_cover E U = Cover C ->
  (forall a b, In a C -> In b C -> same a b \/ disjoint a b) /\
  (forall s, In s E -> ~ same s U -> union_of_contained C s) /\
  (forall x, In x U -> exists c, In c C /\ In x c) /\
  (forall c, In c C -> exists s, In s E /\ c = norm s /\ ~ same s U).
Proof. exact cover_partition. Qed.
Print Assumptions c06_cover_partition.

Theorem c06_cover_partition_sub : forall E U C,
  (forall s, In s E -> incl s U) ->
  get_weighted_cover E U = Cover C ->
  (forall a b, In a C -> In b C -> same a b \/ disjoint a b) /\
  (forall s, In s E -> union_of_contained C s) /\
  (forall x, In x U <-> exists c, In c C /\ In x c).
Proof. exact cover_partition_sub. Qed.
Print Assumptions c06_cover_partition_sub.

(** the first phrasing ("every set of E that is a subset of U ...", with U itself allowed in E
    and sets reaching outside U) is false *)
Theorem c06_cover_partition_refuted :
  exists E U C s,
    get_weighted_cover E U = Cover C /\ In s E /\ incl s U /\ ~ union_of_contained C s.
Proof. exact cover_partition_refuted. Qed.
Print Assumptions c06_cover_partition_refuted.

Theorem c06_cover_fuel : forall E U, get_weighted_cover E U <> OutOfFuel.
Proof. exact gwc_fuel. Qed.
Print Assumptions c06_cover_fuel.

Example c06_cover_example :
  get_weighted_cover [[1; 2]; [3]; [1; 2; 3]; [3; 2; 1]]%positive [1; 2; 3]%positive
  = Cover [[3]; [1; 2]]%positive.
Proof. exact cover_example. Qed.

(** The post-processing half of calculate_logic_gates inside the model (Gate/PostProcess.v): soundness under the stated,
    checkable hypotheses on the miner's tree, and the two refutations (with trees pm4py really returns) showing that
    they cannot simply be dropped. *)
From V Require Import Gate.PostProcess Gate.PostProcessProofs.
Theorem c06_post_sound_partial : forall ord F t r,
  nonempty_sets_b F = true -> (forall s, In s F -> padmits t (norm s)) ->
  im_shape_b t = true -> im_tight_b F t = true -> cover_safe_b F t = true ->
  post_res ord F t = FOk r -> forall s, In s F -> padmits r (norm s).
Proof. exact post_sound_partial. Qed.
Print Assumptions c06_post_sound_partial.

Theorem c06_post_sound_refuted :
  exists F t, F <> [] /\ (forall s, In s F -> padmits t s) /\ exists s, In s F /\ ~ padmits (post F t) s.
Proof. exact post_sound_refuted. Qed.
Print Assumptions c06_post_sound_refuted.
