(** C02: the verified validator behind "the learned diagram admits nothing beyond a complete sample":
    bounded language inclusion. *)
From Coq Require Import List Bool PArith Arith.
From V Require Import Store.Unique Store.UniqueSpec Store.UniqueProofs.
From V Require Import Puml.Ast Puml.Exec Puml.Canon Puml.Accept Puml.CanonSpec Puml.CanonProofs.
Import ListNotations.

Theorem c02_incl_b_spec :
  forall k1 k2 d1 d2, incl_b k1 k2 d1 d2 = true <->
    forall g1, In g1 (jobs k1 d1) -> exists g2, In g2 (jobs k2 d2) /\ canon g2 = canon g1.
Proof. exact incl_b_spec. Qed.
Print Assumptions c02_incl_b_spec.

Theorem c02_not_included_spec :
  forall k1 k2 d1 d2, not_included k1 k2 d1 d2 = [] <-> incl_b k1 k2 d1 d2 = true.
Proof. exact not_included_spec. Qed.
Print Assumptions c02_not_included_spec.

(** honesty: equality of canonical forms is strictly coarser than isomorphism, so the validator can
    accept wrongly (miss a violation) but - by c01_accepts_iso - never rejects wrongly *)
Theorem c02_canon_not_complete :
  topo_b ex_twoA = true /\ topo_b ex_twoB = true /\ canon ex_twoA = canon ex_twoB /\ ~ Iso ex_twoA ex_twoB.
Proof. exact canon_not_complete. Qed.
Print Assumptions c02_canon_not_complete.

From V Require Import Puml.ExecRel Puml.ExecRelProofs Puml.Check Puml.CheckProofs.
Theorem c02_incl_b_rel : forall k1 k2 d1 d2, incl_b k1 k2 d1 d2 = true <-> InclCanon k1 k2 d1 d2.
Proof. exact incl_b_rel. Qed.
Print Assumptions c02_incl_b_rel.

Theorem c02_incl_adaptive_sound : forall kmax cap k1 d1 d2,
  incl_adaptive kmax cap k1 d1 d2 = ([], []) ->
  forall g1, In g1 (jobs k1 d1) -> exists k2 g2, In g2 (jobs k2 d2) /\ canon g2 = canon g1.
Proof. exact incl_adaptive_sound. Qed.
Print Assumptions c02_incl_adaptive_sound.

Theorem c02_jobs_mono : forall k k' d, k <= k' -> incl (jobs k d) (jobs k' d).
Proof. exact jobs_mono. Qed.
Print Assumptions c02_jobs_mono.
