(** C10: SQLDataHolder ingestion (sql_dataholder.py:51-230) stores exactly one record per distinct
    span id - the first occurrence, with its parent link - for every batch size and any placement
    of duplicates, provided the store satisfies [inv_b] on entry. *)
From Coq Require Import ZArith List Bool.
From V Require Import Store.Rel Store.Ingest Store.IngestProofs.
Import ListNotations.

Theorem c10_ingest_refines : forall bs st evs,
  inv_b st = true -> ingest bs st evs = Some (spec_ingest st evs).
Proof. exact ingest_refines. Qed.
Print Assumptions c10_ingest_refines.

Theorem c10_ingest_inv : forall st evs, inv_b st = true -> inv_b (spec_ingest st evs) = true.
Proof. exact ingest_inv. Qed.
Print Assumptions c10_ingest_inv.

Theorem c10_ingest_runs_refines : forall bs st runs,
  inv_b st = true ->
  ingest_runs bs st runs = Some (fold_left spec_ingest runs st) /\
  fold_left spec_ingest runs st = spec_ingest st (concat runs).
Proof. exact ingest_runs_refines. Qed.
Print Assumptions c10_ingest_runs_refines.

Theorem c10_bs_indep : forall bs1 bs2 st evs,
  inv_b st = true -> ingest bs1 st evs = ingest bs2 st evs.
Proof. exact bs_indep. Qed.
Print Assumptions c10_bs_indep.

Theorem c10_stored_once : forall st evs,
  inv_b st = true ->
  NoDup (ids (db (spec_ingest st evs))) /\
  (forall i, In i (ids (db st)) \/ In i (ids evs) <-> In i (ids (db (spec_ingest st evs)))).
Proof. exact stored_once. Qed.
Print Assumptions c10_stored_once.

Theorem c10_first_wins : forall st evs pre n post,
  inv_b st = true -> evs = pre ++ n :: post ->
  ~ In (nid n) (ids pre) -> ~ In (nid n) (ids (db st)) ->
  In n (db (spec_ingest st evs)) /\
  (forall p, npar n = Some p -> In (p, nid n) (assoc (spec_ingest st evs))).
Proof. exact first_wins. Qed.
Print Assumptions c10_first_wins.

Theorem c10_old_rows_kept : forall st evs,
  (exists d', db (spec_ingest st evs) = db st ++ d') /\
  (exists a', assoc (spec_ingest st evs) = assoc st ++ a') /\
  hashes (spec_ingest st evs) = hashes st.
Proof. exact old_rows_kept. Qed.
Print Assumptions c10_old_rows_kept.

Theorem c10_ingest_first_wins : forall bs st evs pre n post,
  inv_b st = true -> evs = pre ++ n :: post ->
  ~ In (nid n) (ids pre) -> ~ In (nid n) (ids (db st)) ->
  exists st', ingest bs st evs = Some st' /\ NoDup (ids (db st')) /\ In n (db st') /\
    (forall p, npar n = Some p -> In (p, nid n) (assoc st')) /\
    (exists d', db st' = db st ++ d') /\ (exists a', assoc st' = assoc st ++ a').
Proof. exact ingest_first_wins. Qed.
Print Assumptions c10_ingest_first_wins.

Theorem c10_stale_assoc_breaks_crash :
  ingest 10 stale_store [nd 2 (Some 1%positive); nd 3 (Some 1%positive); nd 2 (Some 1%positive)] = None.
Proof. exact stale_assoc_breaks_crash. Qed.
Print Assumptions c10_stale_assoc_breaks_crash.

Theorem c10_stale_assoc_breaks_detached :
  ingest 10 stale_store [nd 2 (Some 1%positive); nd 3 (Some 1%positive)] = None.
Proof. exact (proj1 stale_assoc_breaks_detached). Qed.
Print Assumptions c10_stale_assoc_breaks_detached.

Theorem c10_ingest_refines_needs_inv :
  exists bs st evs, inv_b st = false /\ ingest bs st evs <> Some (spec_ingest st evs).
Proof. exact ingest_refines_needs_inv. Qed.
Print Assumptions c10_ingest_refines_needs_inv.
