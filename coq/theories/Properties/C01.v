(** C01: the verified validator behind "the learned diagram accepts every job it was learned from".
    Per-instance certificates are produced by the harness with [rejected_adaptive] (Puml/Check.v),
    whose verdict "accepted" always rests on [accepts_b]. *)
From Coq Require Import List Bool PArith Arith.
From V Require Import Store.Unique Store.UniqueSpec Store.UniqueProofs.
From V Require Import Puml.Ast Puml.Exec Puml.Canon Puml.Accept Puml.CanonSpec Puml.CanonProofs.
Import ListNotations.

(** what a positive verdict means *)
Theorem c01_accepts_b_spec :
  forall k d j, accepts_b k d j = true <->
                topo_b j = true /\ exists g, In g (jobs k d) /\ canon g = canon j.
Proof. exact accepts_b_spec. Qed.
Print Assumptions c01_accepts_b_spec.

Theorem c01_rejected_spec :
  forall k d js, rejected k d js = [] <-> forall j, In j js -> accepts_b k d j = true.
Proof. exact rejected_spec. Qed.
Print Assumptions c01_rejected_spec.

(** no false alarm: a job isomorphic to a run of the diagram is never rejected *)
Theorem c01_accepts_iso :
  forall k d g j, In g (jobs k d) -> topo_b j = true -> Iso g j -> accepts_b k d j = true.
Proof. exact accepts_iso. Qed.
Print Assumptions c01_accepts_iso.

Theorem c01_canon_iso_invariant :
  forall g1 g2, topo_b g1 = true -> topo_b g2 = true -> Iso g1 g2 -> canon g1 = canon g2.
Proof. exact canon_iso_invariant. Qed.
Print Assumptions c01_canon_iso_invariant.

(** every job graph the semantics produces is topologically ordered (so the validator applies) *)
Theorem c01_runs_topo :
  forall k d f, In f (runs_seq k d) -> topo_b (close f) = true.
Proof. exact runs_topo. Qed.
Print Assumptions c01_runs_topo.

(** nothing observed is dropped before the heuristics start: every successor multiset and every
    predecessor multiset seen in an input job is in the evidence the learner works from *)
From V Require Import Pv.EventModel Pv.EventModelProofs.
Theorem c01_ingest_evidence : forall js j i,
  In j js -> i < length (with_start j) ->
  let g := with_start j in
  let t := fst (nth i g (start_evt, [])) in
  let ps := snd (nth i g (start_evt, [])) in
  exists info, lookup t (ingest js) = Some info /\
    (succ_types g i <> [] -> In (mset_of (succ_types g i)) (outs info)) /\
    (pred_types g ps <> [] -> In (mset_of (pred_types g ps)) (ins info)).
Proof. exact ingest_evidence. Qed.
Print Assumptions c01_ingest_evidence.

(** the rule-based reading of the execution semantics (Puml/ExecRel.v) and the adequacy of the enumerator *)
From V Require Import Puml.ExecRel Puml.ExecRelProofs Puml.Check Puml.CheckProofs.
Theorem c01_runs_seq_iff : forall k d f, In f (runs_seq k d) <-> ExecSeq k d f.
Proof. exact runs_seq_iff. Qed.
Print Assumptions c01_runs_seq_iff.

Theorem c01_accepts_b_rel : forall k d j, accepts_b k d j = true <-> AcceptsCanon k d j.
Proof. exact accepts_b_rel. Qed.
Print Assumptions c01_accepts_b_rel.

(** a clean verdict of the adaptive check used by the harness means every job is accepted for some loop bound *)
Theorem c01_rejected_adaptive_sound : forall kmax cap d js,
  rejected_adaptive kmax cap d js = ([], []) -> forall j, In j js -> exists k', accepts_b k' d j = true.
Proof. exact rejected_adaptive_sound. Qed.
Print Assumptions c01_rejected_adaptive_sound.
