(** C03: the learned model depends only on the SET of job graphs, up to renumbering of the nodes:
    ingestion (data_ingestion.py:197-265, events.py:26-80) is a fold of commuting idempotent
    updates of canonical containers.  Also the C01 clause "nothing observed is dropped"
    ([c01_ingest_evidence]). *)
From Coq Require Import List Bool PArith Arith Permutation.
From V Require Import Puml.Ast Puml.Exec Puml.Canon Puml.CanonSpec Pv.EventModel Pv.EventModelProofs.
Import ListNotations.

(** A. canonical containers *)
Theorem c03_sset_add_comm :
  forall a b s, sset_add a (sset_add b s) = sset_add b (sset_add a s).
Proof. exact sset_add_comm. Qed.
Print Assumptions c03_sset_add_comm.

Theorem c03_sset_add_idem : forall a s, sset_add a (sset_add a s) = sset_add a s.
Proof. exact sset_add_idem. Qed.
Print Assumptions c03_sset_add_idem.

Theorem c03_sset_add_sorted : forall a s, sorted_sset s = true -> sorted_sset (sset_add a s) = true.
Proof. exact sset_add_sorted. Qed.
Print Assumptions c03_sset_add_sorted.

Theorem c03_mset_of_perm : forall l l', Permutation l l' -> mset_of l = mset_of l'.
Proof. exact mset_of_perm. Qed.
Print Assumptions c03_mset_of_perm.

Theorem c03_mset_of_wf : forall l, l <> [] -> wf_mset (mset_of l) = true.
Proof. exact mset_of_wf. Qed.
Print Assumptions c03_mset_of_wf.

Theorem c03_mset_cmp_eq : forall a b, mset_cmp a b = Eq <-> a = b.
Proof. exact mset_cmp_eq. Qed.
Print Assumptions c03_mset_cmp_eq.

Theorem c03_mset_cmp_antisym : forall a b, mset_cmp b a = CompOpp (mset_cmp a b).
Proof. exact mset_cmp_antisym. Qed.
Print Assumptions c03_mset_cmp_antisym.

Theorem c03_mset_cmp_trans :
  forall a b c, mset_cmp a b = Lt -> mset_cmp b c = Lt -> mset_cmp a c = Lt.
Proof. exact mset_cmp_trans. Qed.
Print Assumptions c03_mset_cmp_trans.

Theorem c03_upd_comm : forall e e' f g m,
  (e <> e' \/ forall i, f (g i) = g (f i)) ->
  upd e f (upd e' g m) = upd e' g (upd e f m).
Proof. exact upd_comm. Qed.
Print Assumptions c03_upd_comm.

Theorem c03_ingest_graph_wf : forall m g, wf_model m = true -> wf_model (ingest_graph m g) = true.
Proof. exact ingest_graph_wf. Qed.
Print Assumptions c03_ingest_graph_wf.

Theorem c03_ingest_from_wf : forall js m, wf_model m = true -> wf_model (ingest_from m js) = true.
Proof. exact ingest_from_wf. Qed.
Print Assumptions c03_ingest_from_wf.

(** B. the model is a function of the set of jobs *)
Theorem c03_ingest_perm : forall m js js',
  wf_model m = true -> Permutation js js' -> ingest_from m js = ingest_from m js'.
Proof. exact ingest_perm. Qed.
Print Assumptions c03_ingest_perm.

Theorem c03_ingest_dup : forall m j js,
  wf_model m = true -> ingest_from m (j :: j :: js) = ingest_from m (j :: js).
Proof. exact ingest_dup. Qed.
Print Assumptions c03_ingest_dup.

Theorem c03_ingest_idem : forall m js, ingest_from (ingest_from m js) js = ingest_from m js.
Proof. exact ingest_idem. Qed.
Print Assumptions c03_ingest_idem.

Theorem c03_ingest_same_set : forall m js js',
  (forall j, In j js <-> In j js') -> ingest_from m js = ingest_from m js'.
Proof. exact ingest_same_set. Qed.
Print Assumptions c03_ingest_same_set.

Theorem c03_ingest_iso : forall m g1 g2,
  wf_model m = true -> topo_b g1 = true -> topo_b g2 = true ->
  preds_nodup g1 -> preds_nodup g2 -> Iso g1 g2 ->
  ingest_graph m (with_start g1) = ingest_graph m (with_start g2).
Proof. exact ingest_iso. Qed.
Print Assumptions c03_ingest_iso.

Theorem c03_ingest_iso_nodup_needed : exists m g1 g2,
  wf_model m = true /\ topo_b g1 = true /\ topo_b g2 = true /\ Iso g1 g2 /\
  ingest_graph m (with_start g1) <> ingest_graph m (with_start g2).
Proof. exact ingest_iso_nodup_needed. Qed.
Print Assumptions c03_ingest_iso_nodup_needed.

Theorem c03_ingest_set : forall m js js',
  wf_model m = true ->
  (forall j, In j js \/ In j js' -> topo_b j = true /\ preds_nodup j) ->
  (forall j, In j js -> exists j', In j' js' /\ Iso j j') ->
  (forall j', In j' js' -> exists j, In j js /\ Iso j' j) ->
  ingest_from m js = ingest_from m js'.
Proof. exact ingest_set. Qed.
Print Assumptions c03_ingest_set.

(** C. (C01) nothing observed is dropped *)
Theorem c01_ingest_evidence : forall js j i,
  In j js -> i < length (with_start j) ->
  let g := with_start j in
  let t := fst (nth i g (start_evt, [])) in
  let ps := snd (nth i g (start_evt, [])) in
  exists info, lookup t (ingest js) = Some info /\
    (succ_types g i <> [] -> In (mset_of (succ_types g i)) (outs info)) /\
    (pred_types g ps <> [] -> In (mset_of (pred_types g ps)) (ins info)).
Proof. exact ingest_evidence. Qed.
Print Assumptions c01_ingest_evidence.

(** The file presentation (pv2puml -group-by-job: data_ingestion.py:135-149), model V.Pv.Files.cluster; tied to the code
    by the cluster leg and the file-presentation leg of harness/c03.py. *)
From V Require Import Pv.Files Pv.FilesProofs.

Theorem c03_cluster_spec : forall (A : Type) (evs : list (positive * A)) (j : positive) (l : list A),
  In (j, l) (cluster A evs) <-> l = events_of_job A j evs /\ l <> [].
Proof. exact cluster_spec. Qed.
Print Assumptions c03_cluster_spec.

Theorem c03_cluster_perm : forall (A : Type) (evs evs' : list (positive * A)), Permutation evs evs' ->
  Permutation (map fst (cluster A evs)) (map fst (cluster A evs')) /\
  (forall j, Permutation (events_of_job A j evs) (events_of_job A j evs')).
Proof. exact cluster_perm. Qed.
Print Assumptions c03_cluster_perm.

Theorem c03_cluster_stable_perm : forall (A : Type) (evs evs' : list (positive * A)),
  (forall j, events_of_job A j evs = events_of_job A j evs') -> Permutation (cluster A evs) (cluster A evs').
Proof. exact cluster_stable_perm. Qed.
Print Assumptions c03_cluster_stable_perm.

(** grouping consecutive equal job ids is NOT a substitute *)
Theorem c03_group_consecutive_refuted : exists evs : list (positive * nat),
  group_consecutive nat evs <> cluster nat evs /\
  exists evs', Permutation evs evs' /\ group_consecutive nat evs' = cluster nat evs'.
Proof. exact group_consecutive_contiguous_only_refuted. Qed.
Print Assumptions c03_group_consecutive_refuted.
