From Coq Require Import ZArith List Bool Permutation Sorted.
From V Require Import Otel.Span Otel.Sequencer Otel.SequencerSpec.
From V Require Import Otel.SequencerProofs Otel.MergeProofs Otel.GroupProofs Otel.RenameProofs.
Import ListNotations.
Open Scope Z_scope.

Theorem c08_event_groups_perm : forall async gm l,
  Permutation (concat (event_groups async gm l)) l /\
  Forall (fun g => g <> []) (event_groups async gm l).
Proof. exact event_groups_perm. Qed.
Print Assumptions c08_event_groups_perm.

Theorem c08_seq_once : forall async m t p,
  Permutation (map fst (seqf async m t p)) (ids t).
Proof. exact seq_once. Qed.
Print Assumptions c08_seq_once.

Theorem c08_seq_topological : forall async m t p o1 i ps o2,
  seqf async m t p = o1 ++ (i, ps) :: o2 ->
  forall q, In q ps -> In q p \/ In q (map fst o1).
Proof. exact seq_topological. Qed.
Print Assumptions c08_seq_topological.

Theorem c08_seq_root_last : forall async m t p,
  exists o ps, seqf async m t p = o ++ [(sid t, ps)].
Proof. exact seq_root_last. Qed.
Print Assumptions c08_seq_root_last.

Theorem c08_seq_after_desc : forall async m t p d,
  In d (ids t) -> d <> sid t -> path (seqf async m t p) d (sid t).
Proof. exact seq_after_desc. Qed.
Print Assumptions c08_seq_after_desc.

Theorem c08_seq_inherits : forall async m t p,
  exists b, In (b, p) (seqf async m t p) /\ (b = sid t \/ path (seqf async m t p) b (sid t)).
Proof. exact seq_inherits. Qed.
Print Assumptions c08_seq_inherits.

Theorem c08_seq_single_start_sync : forall t,
  length (filter (fun e => match snd e with [] => true | _ => false end) (seqf false [] t [])) = 1%nat.
Proof. exact seq_single_start_sync. Qed.
Print Assumptions c08_seq_single_start_sync.

Theorem c08_seq_links_sync : forall i ty st en pl kids p,
  seqf false [] (Span i ty st en pl kids) p =
  let '(o, p') := chain (seqf false []) (sort_spans kids) p in o ++ [(i, p')].
Proof. exact seq_links_sync. Qed.
Print Assumptions c08_seq_links_sync.

Theorem c08_merge_async_components : forall g r,
  let us := g :: r in
  StronglySorted (fun a b => lo a <= lo b) us ->
  Forall (fun u => u <> [] /\ lo u <= hi u) us ->
  let res := merge_async g (max_en g) r in
  let parts := merge_units [g] (hi g) r in
  concat res = concat us /\
  concat parts = us /\ map (@concat item) parts = res /\ Forall (fun p => p <> []) parts /\
  (forall a b, In a us -> In b us ->
     ((exists part, In part parts /\ In a part /\ In b part) <-> Chain us a b)).
Proof. exact merge_async_components. Qed.
Print Assumptions c08_merge_async_components.

Theorem c08_async_groups_components : forall gs,
  Forall (fun g => g <> []) gs ->
  (forall g x, In g gs -> In x g -> it_st x <= it_en x) ->
  match order_groups gs with
  | [] => async_groups gs = []
  | g :: r =>
      let us := g :: r in
      let parts := merge_units [g] (hi g) r in
      async_groups gs = map (@concat item) parts /\ concat parts = us /\
      Forall (fun p => p <> []) parts /\
      (forall a b, In a us -> In b us ->
         ((exists part, In part parts /\ In a part /\ In b part) <-> Chain us a b))
  end.
Proof. exact async_groups_components. Qed.
Print Assumptions c08_async_groups_components.

Theorem c08_merge_async_v0_refuted :
  exists g r, let us := g :: r in
    StronglySorted (fun a b => lo a <= lo b) us /\
    Forall (fun u => u <> [] /\ lo u <= hi u) us /\
    map (@concat item) (merge_units_v0 [g] r) = merge_async_v0 g r /\
    concat (merge_units_v0 [g] r) = us /\
    exists a c, In a us /\ In c us /\ ov a c /\ Chain us a c /\
      ~ (exists part, In part (merge_units_v0 [g] r) /\ In a part /\ In c part) /\
      ~ (exists grp x z, In grp (merge_async_v0 g r) /\ In x a /\ In z c /\ In x grp /\ In z grp).
Proof. exact merge_async_v0_refuted. Qed.
Print Assumptions c08_merge_async_v0_refuted.

Theorem c08_prior_groups_spec : forall gm l x y,
  NoDup (map it_id l) -> In x l -> In y l ->
  ((exists g, In g (prior_groups gm l) /\ In x g /\ In y g) <->
   it_id x = it_id y \/
   exists g, lookup (it_ty x) gm = Some g /\ lookup (it_ty y) gm = Some g).
Proof. exact prior_groups_spec. Qed.
Print Assumptions c08_prior_groups_spec.

Theorem c08_prior_groups_no_empty : forall gm l,
  Forall (fun g => g <> []) (prior_groups gm l).
Proof. exact prior_groups_no_empty. Qed.
Print Assumptions c08_prior_groups_no_empty.

Theorem c08_event_groups_v0_error : forall async gm l,
  event_groups_v0 async gm l = None <->
  l <> [] /\ exists g, In g (map snd gm) /\ forall x, In x l -> lookup (it_ty x) gm <> Some g.
Proof. exact event_groups_v0_error. Qed.
Print Assumptions c08_event_groups_v0_error.

Theorem c08_event_groups_v0_error_witness :
  event_groups_v0 false [(1, 5)]%positive [it 1 2 0 10] = None /\
  event_groups false [(1, 5)]%positive [it 1 2 0 10] = [[it 1 2 0 10]].
Proof. exact event_groups_v0_error_witness. Qed.
Print Assumptions c08_event_groups_v0_error_witness.

Theorem c08_rename_spec_correct : forall rs order t,
  NoDup (ids t) -> NoDup order -> (forall i, In i (ids t) -> In i order) ->
  (forall k mapped cts c, In (k, (mapped, cts)) rs -> In c cts ->
     lookup c rs = None /\ (forall k' m' cts', In (k', (m', cts')) rs -> m' <> c)) ->
  rename rs order t = rename_spec rs t.
Proof. exact rename_spec_correct. Qed.
Print Assumptions c08_rename_spec_correct.

Theorem c08_rename_order_dependent :
  NoDup (ids ex_t) /\ ~ rules_stable ex_rs_bad /\
  rename ex_rs_bad [1; 2; 3]%positive ex_t <> rename ex_rs_bad [2; 1; 3]%positive ex_t /\
  rename ex_rs_bad [1; 2; 3]%positive ex_t = rename_spec ex_rs_bad ex_t /\
  sty (rename ex_rs_bad [1; 2; 3]%positive ex_t) = 1%positive /\
  sty (rename ex_rs_bad [2; 1; 3]%positive ex_t) = 2%positive.
Proof. exact rename_order_dependent. Qed.
Print Assumptions c08_rename_order_dependent.

(** The glue around the sequencer (event dict, root, rename on the dict, recursion over child id lists, row emission)
    and its composition with streaming (C12): Otel/Pipeline.v.  These statements mention [nano_to_pv] (Flocq), hence
    the standard-library axioms in their Print Assumptions. *)
From V Require Import Store.Rel Store.Stream Otel.Pipeline Otel.PipelineProofs.

Theorem c08_build_tree_spec : forall job t,
  build_tree job = Some t ->
  Permutation (Span.ids t) (map (fun e => nid (fst e)) job)
  /\ forall s, In s (Span.nodes t) -> exists n cs, In (n, cs) job
       /\ sid s = nid n /\ sty s = nty n /\ sst s = nst n /\ sen s = nen n
       /\ spl s = njob n /\ map sid (skids s) = cs.
Proof. exact build_tree_spec. Qed.
Print Assumptions c08_build_tree_spec.

Theorem c08_tree_jobb_spec : forall job, tree_jobb job = true <-> TreeJob job.
Proof. exact tree_jobb_spec. Qed.
Print Assumptions c08_tree_jobb_spec.

Theorem c08_sequence_job_to_pv : forall async m rs job t,
  build_tree job = Some t -> parents_present job = true ->
  exists rows, sequence_job async m rs job = JOk rows
               /\ map PipelineCheck.row3_to_row rows = SeqCheck.to_pv async m rs (map eid job) t.
Proof. exact sequence_job_to_pv. Qed.
Print Assumptions c08_sequence_job_to_pv.

Theorem c08_job_skipped_iff : forall async m rs job,
  sequence_job async m rs job = JSkipped <-> exists e p, In e job /\ epar e = Some p /\ ~ In p (map eid job).
Proof. exact job_skipped_iff. Qed.
Print Assumptions c08_job_skipped_iff.

Theorem c08_job_error_iff : forall async m rs job,
  sequence_job async m rs job = JError <-> ParentsClosed job /\ ~ Sequencable (dict_of job).
Proof. exact job_error_iff. Qed.
Print Assumptions c08_job_error_iff.
