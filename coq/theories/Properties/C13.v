(** C13: for a JSON document and a field mapping in the documented forms - dotted paths through nested
    arrays, header values from enclosing objects, key/value lookup inside an attribute array, '_'
    concatenation and priority fall-backs - the extracted span records are exactly those obtained by
    flattening as documented: one record per innermost array element, outer values repeated, absent
    values null.  Records that cannot form a valid span are skipped without affecting the others, in
    whole-file and one-JSON-per-line modes alike.

    Status.
    - c13_compile_exact: for EVERY document the compiled jq program (json_jq_converter.py, modelled in
      Json/Mapping.v, evaluated by Json/Jq.v) yields exactly FlattenCode.flatten_code, which is the
      documented traversal (FlattenSpec.flatten_gen) with the two behaviours of the code that differ from
      the documentation (jq `//` skips false; the key/value lookup fails as a whole on one irregular
      attribute).
    - c13_compile_correct_partial / _simple: against the DOCUMENTED semantics FlattenSpec.flatten_spec, on
      the inputs delimited by the boolean predicate FlattenCode.regular (all documents, for mappings
      without key_value and without priority lists).
    - c13_compile_correct_refuted*: the unrestricted statement is false; three independent witnesses
      (confirmed on the real code, /root/c13_scratch/witnesses.py), plus c13_name_collision_refuted
      for mappings outside wf_mapping.
    - c13_skip_local*, c13_extract_*: skipping invalid records is local, per-line = concatenation. *)
From Coq Require Import ZArith List String Bool.
From V Require Import Json.Json Json.Jq Json.JqPrint Json.Mapping Json.FlattenSpec Json.FlattenCode
  Json.OtelRecord Json.Check Json.CompileProofs Json.NameProofs Json.SpecProofs Json.Examples.
Import ListNotations.

Theorem c13_compile_exact :
  forall m doc, wf_mapping m = true ->
  eval [] (compile m) doc = ok (map record_to_json (flatten_code m doc)).
Proof. exact compile_exact. Qed.
Print Assumptions c13_compile_exact.

Theorem c13_wf_syntactic_wf :
  forall m, wf_mapping_syntactic m = true -> wf_mapping m = true.
Proof. exact wf_syntactic_wf. Qed.
Print Assumptions c13_wf_syntactic_wf.

Theorem c13_compile_exact_syntactic :
  forall m doc, wf_mapping_syntactic m = true ->
  eval [] (compile m) doc = ok (map record_to_json (flatten_code m doc)).
Proof. exact compile_exact_syntactic. Qed.
Print Assumptions c13_compile_exact_syntactic.

Theorem c13_regular_agree :
  forall m doc, regular m doc = true -> flatten_code m doc = flatten_spec m doc.
Proof. exact regular_agree. Qed.
Print Assumptions c13_regular_agree.

Theorem c13_compile_correct_partial :
  forall m doc, wf_mapping m = true -> regular m doc = true ->
  eval [] (compile m) doc = ok (map record_to_json (flatten_spec m doc)).
Proof. exact compile_correct_partial. Qed.
Print Assumptions c13_compile_correct_partial.

Theorem c13_compile_correct_simple :
  forall m, wf_mapping m = true -> simple_mapping m = true ->
  forall doc, eval [] (compile m) doc = ok (map record_to_json (flatten_spec m doc)).
Proof. exact compile_correct_simple. Qed.
Print Assumptions c13_compile_correct_simple.

Theorem c13_compile_correct_refuted :
  exists m doc, wf_mapping m = true
                /\ eval [] (compile m) doc <> ok (map record_to_json (flatten_spec m doc)).
Proof. exact compile_correct_refuted. Qed.
Print Assumptions c13_compile_correct_refuted.

Theorem c13_compile_correct_refuted_kv_key :
  exists m doc, wf_mapping m = true
                /\ eval [] (compile m) doc <> ok (map record_to_json (flatten_spec m doc)).
Proof. exact compile_correct_refuted_kv_key. Qed.
Print Assumptions c13_compile_correct_refuted_kv_key.

Theorem c13_compile_correct_refuted_kv_value :
  exists m doc, wf_mapping m = true
                /\ eval [] (compile m) doc <> ok (map record_to_json (flatten_spec m doc)).
Proof. exact compile_correct_refuted_kv_value. Qed.
Print Assumptions c13_compile_correct_refuted_kv_value.

Theorem c13_refutation_witness_false :
  wf_mapping m_false = true
  /\ eval [] (compile m_false) doc_false = ok [JObj [("event_type"%string, JStr "x")]]
  /\ flatten_spec m_false doc_false = [[("event_type"%string, JStr "false")]].
Proof. exact m_false_results. Qed.
Print Assumptions c13_refutation_witness_false.

Theorem c13_refutation_witness_kv_key :
  wf_mapping m_kv = true
  /\ eval [] (compile m_kv) doc_kv_key = ok [JObj [("job_name"%string, JNull)]]
  /\ flatten_spec m_kv doc_kv_key = [[("job_name"%string, JStr "Frontend")]].
Proof. exact m_kv_key_results. Qed.
Print Assumptions c13_refutation_witness_kv_key.

Theorem c13_refutation_witness_kv_value :
  wf_mapping m_kv2 = true
  /\ eval [] (compile m_kv2) doc_kv_val = ok [JObj [("job_name"%string, JNull)]]
  /\ flatten_spec m_kv2 doc_kv_val = [[("job_name"%string, JStr "Frontend")]].
Proof. exact m_kv_val_results. Qed.
Print Assumptions c13_refutation_witness_kv_value.

Theorem c13_name_collision_refuted :
  wf_mapping m_collide = false
  /\ eval [] (compile m_collide) doc_collide
     = ok [JObj [("f"%string, JStr "0_wrong_2_3_4_5_6_7_8_9_10_wrong")]]
  /\ flatten_code m_collide doc_collide = [[("f"%string, JStr "0_right_2_3_4_5_6_7_8_9_10_wrong")]].
Proof. exact name_collision_refuted. Qed.
Print Assumptions c13_name_collision_refuted.

Theorem c13_extraction_total :
  forall m doc, wf_mapping m = true -> snd (eval [] (compile m) doc) = false.
Proof. exact extraction_total. Qed.
Print Assumptions c13_extraction_total.

Theorem c13_extract_exact :
  forall m doc, wf_mapping m = true -> extract m doc = filter valid (flatten_code m doc).
Proof. exact extract_exact. Qed.
Print Assumptions c13_extract_exact.

Theorem c13_extract_spec :
  forall m doc, wf_mapping m = true -> regular m doc = true ->
  extract m doc = filter valid (flatten_spec m doc).
Proof. exact extract_spec. Qed.
Print Assumptions c13_extract_spec.

Theorem c13_extract_lines_concat :
  forall m docs, extract_lines m docs = List.concat (map (extract m) docs).
Proof. exact extract_lines_concat. Qed.
Print Assumptions c13_extract_lines_concat.

Theorem c13_skip_invalid :
  forall (l1 l2 : list record) r,
  valid r = false -> filter valid (l1 ++ r :: l2) = filter valid (l1 ++ l2).
Proof. exact skip_invalid. Qed.
Print Assumptions c13_skip_invalid.

Theorem c13_skip_local :
  forall m docs, wf_mapping m = true ->
  extract_lines m docs = filter valid (List.concat (map (flatten_code m) docs))
  /\ extract_lines m docs = List.concat (map (extract m) docs)
  /\ (forall doc, extract_lines m [doc] = extract m doc).
Proof. exact skip_local. Qed.
Print Assumptions c13_skip_local.

Theorem c13_skip_local_spec :
  forall m docs, wf_mapping m = true -> forallb (regular m) docs = true ->
  extract_lines m docs = filter valid (List.concat (map (flatten_spec m) docs)).
Proof. exact skip_local_spec. Qed.
Print Assumptions c13_skip_local_spec.

Theorem c13_print_expected_full_query : compile_text test_field_mapping = expected_full_query.
Proof. exact print_expected_full_query. Qed.
Print Assumptions c13_print_expected_full_query.

Theorem c13_howto_example_4 :
  flatten_spec howto_mapping_4 howto_doc = howto_output_4
  /\ extract howto_mapping_4 howto_doc = howto_output_4.
Proof. exact howto_4_both. Qed.
Print Assumptions c13_howto_example_4.
