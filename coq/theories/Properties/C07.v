(** * Properties/C07.v -- loop detection output is an acyclic, single-entry nesting that
      contains every observed event type exactly once and encloses every input cycle.

    Translation validation: the harness exports one (input graph, returned nesting) pair,
    checks [c07_b s inp n = true] by [vm_compute], and [c07_sound] gives [C07_spec s inp n]. *)
From Coq Require Import PArith List Bool Permutation.
From V Require Import Loop.Digraph Loop.DigraphProofs Loop.Nesting Loop.NestingProofs.
Import ListNotations.

Theorem c07_reach_b_iff : forall g u v, wf_graph_b g = true ->
  (reach_b g u v = true <-> path g u v).
Proof. exact reach_b_iff. Qed.
Print Assumptions c07_reach_b_iff.

Theorem c07_acyclic_b_iff : forall g, wf_graph_b g = true ->
  (acyclic_b g = true <-> forall u, ~ path g u u).
Proof. exact acyclic_b_iff. Qed.
Print Assumptions c07_acyclic_b_iff.

Theorem c07_single_entry_b_iff : forall g, wf_graph_b g = true ->
  (single_entry_b g = true <->
   exists r, In r (gnodes g) /\
             (forall v, In v (gnodes g) -> ((forall u, ~ In (u, v) (gedges g)) <-> v = r)) /\
             (forall v, In v (gnodes g) -> v <> r -> path g r v)).
Proof. exact single_entry_b_iff. Qed.
Print Assumptions c07_single_entry_b_iff.

Theorem c07_sound : forall s inp n, wf_graph_b inp = true ->
  c07_b s inp n = true -> C07_spec s inp n.
Proof. exact c07_b_sound. Qed.
Print Assumptions c07_sound.

Theorem c07_complete : forall s inp n, wf_graph_b inp = true ->
  C07_spec s inp n -> c07_b s inp n = true.
Proof. exact c07_b_complete. Qed.
Print Assumptions c07_complete.

(** [C07_spec] written out. *)
Theorem c07_sound_unfolded : forall s inp n, wf_graph_b inp = true -> c07_b s inp n = true ->
  (forall m, In m (levels n) ->
     (NoDup (gnodes (ngraph m)) /\
      forall u v, In (u, v) (gedges (ngraph m)) ->
                  In u (gnodes (ngraph m)) /\ In v (gnodes (ngraph m))) /\
     Permutation (map fst (nlab m)) (gnodes (ngraph m)) /\
     Permutation (map fst (nsubs m)) (loop_nodes (nlab m)) /\
     (forall u, ~ path (ngraph m) u u) /\
     single_entry (ngraph m)) /\
  NoDup (event_types n) /\
  Permutation (event_types n) (remove Pos.eq_dec s (gnodes inp)) /\
  (forall u v, In (u, v) (gedges inp) -> (u = v \/ path inp v u) ->
     exists b, In b (bodies n) /\ In u (body_types b) /\ In v (body_types b)).
Proof. exact c07_b_sound. Qed.
Print Assumptions c07_sound_unfolded.

Theorem c07_acyclic_topological_order : forall g,
  wf_graph_b g = true -> acyclic_b g = true ->
  exists order, Permutation order (gnodes g) /\
                forall u v, In (u, v) (gedges g) -> before order u v.
Proof. exact acyclic_topological_order. Qed.
Print Assumptions c07_acyclic_topological_order.

(** The task statement of the topological-order theorem had no [wf_graph_b] premise; that
    version is false (an edge between unlisted nodes), so the premise was added. *)
Theorem c07_acyclic_topological_order_without_wf_refuted :
  exists g, acyclic_b g = true /\
    ~ exists order, Permutation order (gnodes g) /\
                    forall u v, In (u, v) (gedges g) -> before order u v.
Proof. exact acyclic_topological_order_without_wf_refuted. Qed.
Print Assumptions c07_acyclic_topological_order_without_wf_refuted.

Theorem c07_topological_order_acyclic : forall g order,
  NoDup order -> topological g order -> forall u, ~ path g u u.
Proof. exact topological_order_acyclic. Qed.
Print Assumptions c07_topological_order_acyclic.

Theorem c07_levels_can_be_ordered : forall s inp n, C07_spec s inp n ->
  forall m, In m (levels n) ->
  exists order, Permutation order (gnodes (ngraph m)) /\
                forall u v, In (u, v) (gedges (ngraph m)) -> before order u v.
Proof. exact c07_levels_orderable. Qed.
Print Assumptions c07_levels_can_be_ordered.

Theorem c07_type_exactly_once : forall s inp n, C07_spec s inp n ->
  forall t, In t (gnodes inp) -> t <> s -> count_occ Pos.eq_dec (event_types n) t = 1.
Proof. exact c07_each_type_once. Qed.
Print Assumptions c07_type_exactly_once.

Theorem c07_no_foreign_type : forall s inp n, C07_spec s inp n ->
  forall t, In t (event_types n) -> In t (gnodes inp) /\ t <> s.
Proof. exact c07_only_observed. Qed.
Print Assumptions c07_no_foreign_type.

Theorem c07_sibling_loop_bodies_disjoint : forall s inp n, C07_spec s inp n ->
  forall g lab s1 i b1 s2 j b2 s3,
  In (Nest g lab (s1 ++ (i, b1) :: s2 ++ (j, b2) :: s3)) (levels n) ->
  forall t, In t (body_types b1) -> ~ In t (body_types b2).
Proof. exact c07_sibling_bodies_disjoint. Qed.
Print Assumptions c07_sibling_loop_bodies_disjoint.

Theorem c07_level_and_body_disjoint : forall s inp n, C07_spec s inp n ->
  forall m i b, In m (levels n) -> In (i, b) (nsubs m) ->
  forall t, In t (level_types m) -> ~ In t (body_types b).
Proof. exact c07_level_body_disjoint. Qed.
Print Assumptions c07_level_and_body_disjoint.

Theorem c07_whole_cycles_enclosed : forall s inp n, C07_spec s inp n ->
  forall u v, path inp u v -> path inp v u ->
  exists b, In b (bodies n) /\ In u (body_types b) /\ In v (body_types b).
Proof. exact c07_cycles_enclosed. Qed.
Print Assumptions c07_whole_cycles_enclosed.

Theorem c07_condensation_acyclic : forall g, wf_graph_b g = true ->
  forall c, ~ path (condensation g) c c.
Proof. exact condensation_acyclic. Qed.
Print Assumptions c07_condensation_acyclic.

Theorem c07_condensation_collapses_cycles : forall g u v, wf_graph_b g = true ->
  path g u v -> path g v u -> rep g u = rep g v.
Proof. exact condensation_collapses_cycles. Qed.
Print Assumptions c07_condensation_collapses_cycles.

(** ** Examples (non-vacuity, acceptance and rejection) *)

Open Scope positive_scope.

(** (i) s=1 -> A=2 -> B=3 -> C=4 -> B,  C -> D=5. *)
Definition ex_inp : graph := mkgraph [1;2;3;4;5] [(1,2);(2,3);(3,4);(4,3);(4,5)].

Definition ex_body : nest :=
  Nest (mkgraph [1;2;3;4] [(1,2);(2,3);(3,4)])
       [(1,LDummy);(2,LEvent 3);(3,LEvent 4);(4,LDummy)] [].

Definition ex_out : nest :=
  Nest (mkgraph [1;2;3;4] [(1,2);(2,3);(3,4)])
       [(1,LDummy);(2,LEvent 2);(3,LLoop);(4,LEvent 5)]
       [(3, ex_body)].

Example ex_inp_wf : wf_graph_b ex_inp = true.
Proof. vm_compute. reflexivity. Qed.

Example ex_inp_cyclic : acyclic_b ex_inp = false.
Proof. vm_compute. reflexivity. Qed.

Example ex_accept : c07_b 1 ex_inp ex_out = true.
Proof. vm_compute. reflexivity. Qed.

Example ex_accept_spec : C07_spec 1 ex_inp ex_out.
Proof. apply c07_sound; vm_compute; reflexivity. Qed.

Example ex_types : event_types ex_out = [2;5;3;4].
Proof. vm_compute. reflexivity. Qed.

Example ex_topo : topo_order (ngraph ex_out) = [1;2;3;4].
Proof. vm_compute. reflexivity. Qed.

(** (ii) the same, but C also appears at top level: duplicated -> rejected by (b) only. *)
Definition ex_dup : nest :=
  Nest (mkgraph [1;2;3;4;5] [(1,2);(2,3);(3,4);(3,5)])
       [(1,LDummy);(2,LEvent 2);(3,LLoop);(4,LEvent 5);(5,LEvent 4)]
       [(3, ex_body)].

Example ex_dup_reject : c07_b 1 ex_inp ex_dup = false.
Proof. vm_compute. reflexivity. Qed.

Example ex_dup_reject_why :
  (c07a_b ex_dup, c07b_b 1 ex_inp ex_dup, c07c_b ex_inp ex_dup) = (true, false, true).
Proof. vm_compute. reflexivity. Qed.

Example ex_dup_not_spec : ~ C07_spec 1 ex_inp ex_dup.
Proof.
  intros H. apply c07_complete in H; [|vm_compute; reflexivity].
  vm_compute in H. discriminate.
Qed.

(** A type lost (D missing) is rejected by (b) as well. *)
Definition ex_lost : nest :=
  Nest (mkgraph [1;2;3] [(1,2);(2,3)])
       [(1,LDummy);(2,LEvent 2);(3,LLoop)]
       [(3, ex_body)].

Example ex_lost_reject_why :
  (c07a_b ex_lost, c07b_b 1 ex_inp ex_lost, c07c_b ex_inp ex_lost) = (true, false, true).
Proof. vm_compute. reflexivity. Qed.

(** (iii) the loop body still contains the back edge C -> B: rejected by (a) only. *)
Definition ex_backedge : nest :=
  Nest (mkgraph [1;2;3;4] [(1,2);(2,3);(3,4)])
       [(1,LDummy);(2,LEvent 2);(3,LLoop);(4,LEvent 5)]
       [(3, Nest (mkgraph [1;2;3;4] [(1,2);(2,3);(3,2);(3,4)])
                 [(1,LDummy);(2,LEvent 3);(3,LEvent 4);(4,LDummy)] [])].

Example ex_backedge_reject : c07_b 1 ex_inp ex_backedge = false.
Proof. vm_compute. reflexivity. Qed.

Example ex_backedge_reject_why :
  (c07a_b ex_backedge, c07b_b 1 ex_inp ex_backedge, c07c_b ex_inp ex_backedge)
  = (false, true, true)
  /\ bad_levels ex_backedge = [[true;true;true;true;true]; [true;true;true;false;true]]%bool.
Proof. vm_compute. split; reflexivity. Qed.

(** No loop detected at all (cycle simply cut): every type present once, every level a DAG,
    but the cyclic edges B->C, C->B are in no loop body: rejected by (c) only. *)
Definition ex_cut : nest :=
  Nest (mkgraph [1;2;3;4;5] [(1,2);(2,3);(3,4);(4,5)])
       [(1,LDummy);(2,LEvent 2);(3,LEvent 3);(4,LEvent 4);(5,LEvent 5)] [].

Example ex_cut_reject_why :
  (c07a_b ex_cut, c07b_b 1 ex_inp ex_cut, c07c_b ex_inp ex_cut) = (true, true, false).
Proof. vm_compute. reflexivity. Qed.

(** A loop node without a body, and a body attached to a non-loop node: rejected by (a). *)
Definition ex_nobody : nest :=
  Nest (mkgraph [1;2;3;4] [(1,2);(2,3);(3,4)])
       [(1,LDummy);(2,LEvent 2);(3,LLoop);(4,LEvent 5)] [].

Example ex_nobody_levels : bad_levels ex_nobody = [[true;true;false;true;true]]%bool.
Proof. vm_compute. reflexivity. Qed.

(** Two entry nodes at top level: rejected by (a) (single entry). *)
Definition ex_two_entries : nest :=
  Nest (mkgraph [1;2;3;4] [(1,3);(2,3);(3,4)])
       [(1,LDummy);(2,LEvent 2);(3,LLoop);(4,LEvent 5)]
       [(3, ex_body)].

Example ex_two_entries_levels :
  bad_levels ex_two_entries = [[true;true;true;true;false]; [true;true;true;true;true]]%bool.
Proof. vm_compute. reflexivity. Qed.

(** (iv) nested loops: s=1 -> A=2 -> B=3 -> C=4 -> D=5 -> C (inner), D -> B (outer), D -> E=6,
    plus a self-loop on E handled as a one-node loop. *)
Definition ex2_inp : graph :=
  mkgraph [1;2;3;4;5;6] [(1,2);(2,3);(3,4);(4,5);(5,4);(5,3);(5,6);(6,6)].

Definition ex2_inner : nest :=
  Nest (mkgraph [1;2;3;4] [(1,2);(2,3);(3,4)])
       [(1,LDummy);(2,LEvent 4);(3,LEvent 5);(4,LDummy)] [].

Definition ex2_outer : nest :=
  Nest (mkgraph [10;20;30;40] [(10,20);(20,30);(30,40)])
       [(10,LDummy);(20,LEvent 3);(30,LLoop);(40,LDummy)]
       [(30, ex2_inner)].

Definition ex2_self : nest :=
  Nest (mkgraph [1;2;3] [(1,2);(2,3)]) [(1,LDummy);(2,LEvent 6);(3,LDummy)] [].

Definition ex2_out : nest :=
  Nest (mkgraph [1;2;3;4] [(1,2);(2,3);(3,4)])
       [(1,LDummy);(2,LEvent 2);(3,LLoop);(4,LLoop)]
       [(4, ex2_self); (3, ex2_outer)].

Example ex2_accept : c07_b 1 ex2_inp ex2_out = true.
Proof. vm_compute. reflexivity. Qed.

Example ex2_levels : length (levels ex2_out) = 4%nat /\ length (bodies ex2_out) = 3%nat.
Proof. vm_compute. split; reflexivity. Qed.

(** Flattening the inner loop into the outer body while keeping its back edge out is still
    accepted (the validator does not demand maximal nesting), but hoisting the inner loop's
    events to the top level is rejected by (c). *)
Definition ex2_hoisted : nest :=
  Nest (mkgraph [1;2;3;4;5;6] [(1,2);(2,3);(3,4);(4,5);(5,6)])
       [(1,LDummy);(2,LEvent 2);(3,LLoop);(4,LEvent 4);(5,LEvent 5);(6,LLoop)]
       [(3, Nest (mkgraph [1;2;3] [(1,2);(2,3)]) [(1,LDummy);(2,LEvent 3);(3,LDummy)] []);
        (6, ex2_self)].

Example ex2_hoisted_reject_why :
  (c07a_b ex2_hoisted, c07b_b 1 ex2_inp ex2_hoisted, c07c_b ex2_inp ex2_hoisted)
  = (true, true, false).
Proof. vm_compute. reflexivity. Qed.

(** Condensation of the nested example: components {1},{2},{3,4,5},{6}. *)
Example ex2_condensation :
  condensation ex2_inp = mkgraph [1;2;3;6] [(1,2);(2,3);(3,6)].
Proof. vm_compute. reflexivity. Qed.
