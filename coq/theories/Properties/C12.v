(** C12: streaming from the store (SQLDataHolder.stream_data) yields each workflow name once and,
    under it, each of its traces exactly once with all its spans and correct parent/child links,
    with or without filters; no span is dropped, duplicated or attributed to another trace or
    workflow.  Stated for every key-sorted arrangement of the filtered rows. *)
From Coq Require Import ZArith PArith List Bool Sorting.Sorted Sorting.Permutation.
From V Require Import Store.Rel Store.Stream Store.StreamProofs.
Import ListNotations.

Theorem c12_groupby_concat :
  forall (A : Type) (key : A -> positive) (l : list A), concat (map snd (groupby key l)) = l.
Proof. exact groupby_concat. Qed.
Print Assumptions c12_groupby_concat.

Theorem c12_groupby_uniform :
  forall (A : Type) (key : A -> positive) (l : list A) k g,
  In (k, g) (groupby key l) -> g <> [] /\ Forall (fun x => key x = k) g.
Proof. exact groupby_uniform. Qed.
Print Assumptions c12_groupby_uniform.

Theorem c12_groupby_adjacent_distinct :
  forall (A : Type) (key : A -> positive) (l : list A) l1 k1 g1 k2 g2 l2,
  groupby key l = l1 ++ (k1, g1) :: (k2, g2) :: l2 -> k1 <> k2.
Proof. exact groupby_adjacent_distinct. Qed.
Print Assumptions c12_groupby_adjacent_distinct.

Theorem c12_groupby_sorted_nodup :
  forall (A : Type) (key : A -> positive) (l : list A),
  StronglySorted (fun a b => (key a <= key b)%positive) l ->
  StronglySorted Pos.lt (map fst (groupby key l)).
Proof. exact groupby_sorted_nodup. Qed.
Print Assumptions c12_groupby_sorted_nodup.

Theorem c12_groupby_keys_nodup :
  forall (A : Type) (key : A -> positive) (l : list A),
  StronglySorted (fun a b => (key a <= key b)%positive) l -> NoDup (map fst (groupby key l)).
Proof. exact groupby_keys_nodup. Qed.
Print Assumptions c12_groupby_keys_nodup.

Theorem c12_groupby_whole :
  forall (A : Type) (key : A -> positive) (l : list A),
  StronglySorted (fun a b => (key a <= key b)%positive) l ->
  forall k g, In (k, g) (groupby key l) -> forall x, In x l -> key x = k -> In x g.
Proof. exact groupby_whole. Qed.
Print Assumptions c12_groupby_whole.

Theorem c12_stream_exact :
  forall st fm fn rs,
  Sorted_rows rs -> Permutation rs (filter (keep fm fn) (db st)) ->
  let s := stream_of_rows st rs in
  StronglySorted Pos.lt (map fst s)
  /\ (forall nm jobs, In (nm, jobs) s ->
        StronglySorted Pos.lt
          (map (fun j : list oevent => match j with (n, _) :: _ => njob n | [] => 1%positive end) jobs)
        /\ Forall (fun j => j <> []) jobs)
  /\ (forall nm jobs j e, In (nm, jobs) s -> In j jobs -> In e j ->
        nname (fst e) = nm /\ (forall e', In e' j -> njob (fst e') = njob (fst e)))
  /\ (map fst (flatten s) = rs
      /\ Permutation (map fst (flatten s)) (filter (keep fm fn) (db st)))
  /\ (forall e, In e (flatten s) -> snd e = children st (fst e))
  /\ (forall nm jobs j n, In (nm, jobs) s -> In j jobs -> In n (map fst j) ->
        forall n', In n' rs -> nname n' = nname n -> njob n' = njob n -> In n' (map fst j)).
Proof. exact stream_exact. Qed.
Print Assumptions c12_stream_exact.

Theorem c12_rows_sorted_perm :
  forall fm fn st,
  Sorted_rows (rows fm fn st) /\ Permutation (rows fm fn st) (filter (keep fm fn) (db st)).
Proof. exact rows_sorted_perm. Qed.
Print Assumptions c12_rows_sorted_perm.

Theorem c12_stream_exact_model :
  forall st fm fn,
  let rs := rows fm fn st in
  let s := stream fm fn st in
  StronglySorted Pos.lt (map fst s)
  /\ (forall nm jobs, In (nm, jobs) s ->
        StronglySorted Pos.lt
          (map (fun j : list oevent => match j with (n, _) :: _ => njob n | [] => 1%positive end) jobs)
        /\ Forall (fun j => j <> []) jobs)
  /\ (forall nm jobs j e, In (nm, jobs) s -> In j jobs -> In e j ->
        nname (fst e) = nm /\ (forall e', In e' j -> njob (fst e') = njob (fst e)))
  /\ (map fst (flatten s) = rs
      /\ Permutation (map fst (flatten s)) (filter (keep fm fn) (db st)))
  /\ (forall e, In e (flatten s) -> snd e = children st (fst e))
  /\ (forall nm jobs j n, In (nm, jobs) s -> In j jobs -> In n (map fst j) ->
        forall n', In n' rs -> nname n' = nname n -> njob n' = njob n -> In n' (map fst j)).
Proof. exact stream_exact_model. Qed.
Print Assumptions c12_stream_exact_model.

Theorem c12_stream_span_count :
  forall st fm fn rs,
  Sorted_rows rs -> Permutation rs (filter (keep fm fn) (db st)) ->
  forall n, In n (map fst (flatten (stream_of_rows st rs))) <-> In n (db st) /\ keep fm fn n = true.
Proof. exact stream_span_count. Qed.
Print Assumptions c12_stream_span_count.

Theorem c12_children_spec :
  forall st n c, In c (children st n) <-> In (nid n, c) (assoc st) /\ In c (ids (db st)).
Proof. exact children_spec. Qed.
Print Assumptions c12_children_spec.

Theorem c12_keep_spec :
  forall fm fn n,
  keep fm fn n = true <->
  (fn = [] \/ In (nname n) fn) /\
  (fm = [] \/ exists js, In (nname n, js) fm /\ In (njob n) js).
Proof. exact keep_spec. Qed.
Print Assumptions c12_keep_spec.

Theorem c12_stream_example :
  stream ex_fm ex_fn ex_store =
  [ (1, [ [ (ex9, []); (ex4, []); (ex2, [4; 9]) ];
          [ (ex7, []); (ex5, [7]) ] ]);
    (2, [ [ (ex3, []); (ex1, [3]) ] ]) ]%positive.
Proof. exact stream_example. Qed.
Print Assumptions c12_stream_example.

Theorem c12_groupby_unsorted_repeats :
  let s := stream_of_rows ex_store (filter (keep ex_fm ex_fn) (db ex_store)) in
  map fst s = [2; 1; 2; 1]%positive
  /\ map (fun nj => (fst nj, map (map (fun e => nid (fst e))) (snd nj))) s =
     [ (2, [ [1] ]); (1, [ [2] ]); (2, [ [3] ]); (1, [ [4]; [5; 7]; [9] ]) ]%positive
  /\ ~ NoDup (map fst s).
Proof. exact groupby_unsorted_repeats. Qed.
Print Assumptions c12_groupby_unsorted_repeats.

Theorem c12_stream_exact_hyps_stable :
  Sorted_rows ex_rows_stable
  /\ Permutation ex_rows_stable (filter (keep ex_fm ex_fn) (db ex_store))
  /\ ex_rows_stable <> rows ex_fm ex_fn ex_store
  /\ stream_of_rows ex_store ex_rows_stable =
     [ (1, [ [ (ex2, [4; 9]); (ex4, []); (ex9, []) ]; [ (ex5, [7]); (ex7, []) ] ]);
       (2, [ [ (ex1, [3]); (ex3, []) ] ]) ]%positive.
Proof. exact stream_exact_hyps_stable. Qed.
Print Assumptions c12_stream_exact_hyps_stable.
