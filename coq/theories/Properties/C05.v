(** C05: the validators that turn a successful run of the checker on one emitted text into a
    certificate of grammar membership and of the event-name clause. *)
From Coq Require Import List Bool PArith String.
From V Require Import Puml.Ast Puml.Syntax Puml.Parse Puml.ParseProofs Puml.Lex Puml.LexProofs.
Import ListNotations.

Theorem c05_parse_sound :
  forall ts n d, parse ts = Some (n, d) -> ts = print n d /\ wf d = true.
Proof. exact parse_sound. Qed.
Print Assumptions c05_parse_sound.

Theorem c05_parse_print :
  forall n d, wf d = true -> parse (print n d) = Some (n, d).
Proof. exact parse_print. Qed.
Print Assumptions c05_parse_print.

Theorem c05_print_inj :
  forall n d n' d', wf d = true -> wf d' = true -> print n d = print n' d' -> n = n' /\ d = d'.
Proof. exact print_inj. Qed.
Print Assumptions c05_print_inj.

Theorem c05_events_preserved :
  forall ts n d, parse ts = Some (n, d) ->
  events_of d = flat_map (fun t => match t with TEvent e => [e] | _ => [] end) ts.
Proof. exact events_preserved. Qed.
Print Assumptions c05_events_preserved.

Theorem c05_lex_render :
  forall ts, Forall (fun t => token_ok t = true) ts -> lex (unlines (map render_token ts)) = Some ts.
Proof. exact lex_render. Qed.
Print Assumptions c05_lex_render.

(** The printer inside the model (Puml/Linearise.v): on the canonical graph of a well-formed diagram the DFS
    linearisation prints exactly the grammar; a graph recognised as a block graph prints a parsable text. *)
From V Require Import Puml.Linearise Puml.LineariseCheck Puml.LineariseProofs.
Theorem c05_linearise_graph_of : forall name d,
  wf d = true -> lin_ok d = true -> linearise name (graph_of d) = Some (print name d).
Proof. exact linearise_graph_of. Qed.
Print Assumptions c05_linearise_graph_of.

Theorem c05_is_block_graph_sound : forall name g d,
  is_block_graph g = Some d -> linearise name g = Some (print name d).
Proof. exact is_block_graph_sound. Qed.
Print Assumptions c05_is_block_graph_sound.

Theorem c05_lin_agrees_sound : forall name g ts, lin_agrees name g ts = true -> linearise name g = Some ts.
Proof. exact lin_agrees_sound. Qed.
Print Assumptions c05_lin_agrees_sound.
