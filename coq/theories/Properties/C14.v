(** C14: the saved PV files hold the same events, links and field values as the in-memory stream,
    including when one custom field-name mapping is used for both saving and loading. *)
From Coq Require Import List Bool String PArith.
From V Require Import Pv.PvEvent Pv.PvEventProofs.
Import ListNotations.
Open Scope string_scope.
Open Scope positive_scope.

Theorem c14_load_save :
  forall mc e, NoDup (keys mc) -> load mc (save mc e) = Some e.
Proof. exact load_save. Qed.
Print Assumptions c14_load_save.

Theorem c14_load_save_job :
  forall mc job, NoDup (keys mc) -> load_job mc (save_job mc job) = Some job.
Proof. exact load_save_job. Qed.
Print Assumptions c14_load_save_job.

Theorem c14_load_save_default :
  forall e, load default_mc (save default_mc e) = Some e.
Proof. exact load_save_default. Qed.
Print Assumptions c14_load_save_default.

Theorem c14_save_keys :
  forall mc e, NoDup (keys mc) ->
  map fst (save mc e) =
  [k_jobId mc; k_eventId mc; k_eventType mc; k_timestamp mc; k_prev mc; k_app mc; k_jobName mc].
Proof. exact save_keys. Qed.
Print Assumptions c14_save_keys.

Theorem c14_collision_breaks :
  ~ NoDup (keys ex_colliding_mc)
  /\ load ex_colliding_mc (save ex_colliding_mc ex_event) <> Some ex_event
  /\ load ex_colliding_mc (save ex_colliding_mc ex_event) = Some (mkpv 2 2 3 4 [5; 6] 7 8)
  /\ map fst (save ex_colliding_mc ex_event) =
       ["id"; "eventType"; "timestamp"; "previousEventIds"; "applicationName"; "jobName"].
Proof. exact collision_breaks. Qed.
Print Assumptions c14_collision_breaks.

Theorem c14_mismatched_mapping :
  forall e, load default_mc (save ex_custom_mc e) = None.
Proof. exact mismatched_mapping. Qed.
Print Assumptions c14_mismatched_mapping.

Theorem c14_load_single_string_prev :
  forall mc d j i t ts a n,
  get_s (k_jobId mc) d = Some j -> get_s (k_eventId mc) d = Some i ->
  get_s (k_eventType mc) d = Some t -> get_s (k_timestamp mc) d = Some ts ->
  get_s (k_app mc) d = Some a -> get_s (k_jobName mc) d = Some n ->
  (forall p, dget (k_prev mc) d = Some (VS p) -> load mc d = Some (mkpv j i t ts [p] a n))
  /\ (forall l, dget (k_prev mc) d = Some (VL l) -> load mc d = Some (mkpv j i t ts l a n))
  /\ (dget (k_prev mc) d = None -> load mc d = Some (mkpv j i t ts [] a n)).
Proof. exact load_single_string_prev. Qed.
Print Assumptions c14_load_single_string_prev.
