(** C14: the saved PV files hold the same events, links and field values as the in-memory stream,
    including when one custom field-name mapping is used for both saving and loading. *)
From Coq Require Import List Bool String PArith.
From V Require Import Pv.PvEvent Pv.PvEventProofs.
Import ListNotations.
Open Scope string_scope.
Open Scope positive_scope.

Theorem c14_load_save :
  forall mc e, NoDup (keys mc) -> load mc (save mc e) = Some e.
Proof. exact load_save. Qed.
Print Assumptions c14_load_save.

Theorem c14_load_save_job :
  forall mc job, NoDup (keys mc) -> load_job mc (save_job mc job) = Some job.
Proof. exact load_save_job. Qed.
Print Assumptions c14_load_save_job.

Theorem c14_load_save_default :
  forall e, load default_mc (save default_mc e) = Some e.
Proof. exact load_save_default. Qed.
Print Assumptions c14_load_save_default.

Theorem c14_save_keys :
  forall mc e, NoDup (keys mc) ->
  map fst (save mc e) =
  [k_jobId mc; k_eventId mc; k_eventType mc; k_timestamp mc; k_prev mc; k_app mc; k_jobName mc].
Proof. exact save_keys. Qed.
Print Assumptions c14_save_keys.

Theorem c14_collision_breaks :
  ~ NoDup (keys ex_colliding_mc)
  /\ load ex_colliding_mc (save ex_colliding_mc ex_event) <> Some ex_event
  /\ load ex_colliding_mc (save ex_colliding_mc ex_event) = Some (mkpv 2 2 3 4 [5; 6] 7 8)
  /\ map fst (save ex_colliding_mc ex_event) =
       ["id"; "eventType"; "timestamp"; "previousEventIds"; "applicationName"; "jobName"].
Proof. exact collision_breaks. Qed.
Print Assumptions c14_collision_breaks.

Theorem c14_mismatched_mapping :
  forall e, load default_mc (save ex_custom_mc e) = None.
Proof. exact mismatched_mapping. Qed.
Print Assumptions c14_mismatched_mapping.

Theorem c14_load_single_string_prev :
  forall mc d j i t ts a n,
  get_s (k_jobId mc) d = Some j -> get_s (k_eventId mc) d = Some i ->
  get_s (k_eventType mc) d = Some t -> get_s (k_timestamp mc) d = Some ts ->
  get_s (k_app mc) d = Some a -> get_s (k_jobName mc) d = Some n ->
  (forall p, dget (k_prev mc) d = Some (VS p) -> load mc d = Some (mkpv j i t ts [p] a n))
  /\ (forall l, dget (k_prev mc) d = Some (VL l) -> load mc d = Some (mkpv j i t ts l a n))
  /\ (dget (k_prev mc) d = None -> load mc d = Some (mkpv j i t ts [] a n)).
Proof. exact load_single_string_prev. Qed.
Print Assumptions c14_load_single_string_prev.

(** The file layer (otel_to_pv.py:114-157, pv_to_puml.py folder reading), model V.Pv.Files; tied to the code by the
    file-name check of harness/c14.py. *)
From Coq Require Import Permutation.
From V Require Import Pv.Files Pv.FilesProofs.

Theorem c14_seq_file_name_inj : forall k k' : nat, seq_file_name k = seq_file_name k' -> k = k'.
Proof. exact seq_file_name_inj. Qed.
Print Assumptions c14_seq_file_name_inj.

Theorem c14_save_jobs_names_nodup : forall (job : Type) (jobs : list job), NoDup (map fst (save_jobs job jobs)).
Proof. exact save_jobs_names_nodup. Qed.
Print Assumptions c14_save_jobs_names_nodup.

(** whatever order the file system lists the folder in, pv2puml reads exactly the saved jobs, each once *)
Theorem c14_read_folder_perm : forall (job : Type) (jobs : list job) (listing : list string),
  Permutation listing (map fst (save_jobs job jobs)) ->
  Permutation (read_folder job (save_jobs job jobs) listing) jobs.
Proof. exact read_folder_perm. Qed.
Print Assumptions c14_read_folder_perm.

Theorem c14_read_folder_missing_file_refuted : exists (jobs : list nat) listing,
  incl listing (map fst (save_jobs nat jobs)) /\ NoDup listing /\
  ~ Permutation (read_folder nat (save_jobs nat jobs) listing) jobs.
Proof. exact read_folder_missing_file_refuted. Qed.
Print Assumptions c14_read_folder_missing_file_refuted.
