(** C11: the cleaning statements of SQLDataHolder (remove_inconsistent_jobs,
    remove_jobs_outside_of_time_window, update_job_names_by_root_span), get_time_window, and the
    effect of cleaning on the streamed events. *)
From Coq Require Import ZArith List Bool.
From V Require Import Store.Rel Store.Clean Store.Stream Store.Ingest Store.CleanProofs.
Import ListNotations.
Open Scope Z_scope.

Theorem c11_dangling_exact :
  forall st n, In n (db (rm_inconsistent st)) <-> In n (db st) /\ ~ Dangling st (njob n).
Proof. exact dangling_exact. Qed.
Print Assumptions c11_dangling_exact.

Theorem c11_window_exact :
  forall w st n, In n (db (rm_outside w st)) <-> In n (db st) /\ InWindow w st (njob n).
Proof. exact window_exact. Qed.
Print Assumptions c11_window_exact.

Theorem c11_straddle_not_in_window :
  let st := mkstore [mknode 1 None 1 1 1 5 25 1] [] [] in
  db (rm_outside (10, 20) st) = [] /\ ~ InWindow (10, 20) st 1%positive.
Proof. exact straddle_not_in_window. Qed.
Print Assumptions c11_straddle_not_in_window.

Theorem c11_deletions_are_sublists :
  (forall st,
      db (rm_inconsistent st) = filter (fun n => negb (memp (njob n) (bad_jobs st))) (db st)
      /\ assoc (rm_inconsistent st) = prune_assoc (db (rm_inconsistent st)) (assoc st)
      /\ hashes (rm_inconsistent st) = hashes st)
  /\ (forall w st,
      db (rm_outside w st) = filter (fun n => memp (njob n) (window_jobs w st)) (db st)
      /\ assoc (rm_outside w st) = prune_assoc (db (rm_outside w st)) (assoc st)
      /\ hashes (rm_outside w st) = hashes st)
  /\ (forall st n n', In n (db st) -> In n' (db st) -> njob n = njob n' ->
        (In n (db (rm_inconsistent st)) <-> In n' (db (rm_inconsistent st))))
  /\ (forall w st n n', In n (db st) -> In n' (db st) -> njob n = njob n' ->
        (In n (db (rm_outside w st)) <-> In n' (db (rm_outside w st)))).
Proof. exact deletions_are_sublists. Qed.
Print Assumptions c11_deletions_are_sublists.

Theorem c11_name_by_root :
  forall st r,
  In r (db st) -> is_root r = true ->
  (forall r', In r' (db st) -> is_root r' = true -> njob r' = njob r -> r' = r) ->
  forall n, In n (db (update_names st)) -> njob n = njob r -> nname n = nname r.
Proof. exact name_by_root. Qed.
Print Assumptions c11_name_by_root.

Theorem c11_names_frame :
  forall st,
  assoc (update_names st) = assoc st /\ hashes (update_names st) = hashes st
  /\ length (db (update_names st)) = length (db st)
  /\ Forall2 (fun n n' =>
        nid n' = nid n /\ npar n' = npar n /\ njob n' = njob n /\ nty n' = nty n
        /\ nst n' = nst n /\ nen n' = nen n /\ napp n' = napp n
        /\ ((forall r, In r (db st) -> njob r = njob n -> is_root r = false) -> n' = n))
      (db st) (db (update_names st)).
Proof. exact names_frame. Qed.
Print Assumptions c11_names_frame.

Theorem c11_inwindow_after_inconsistent :
  forall w st j, InWindow w (rm_inconsistent st) j <-> InWindow w st j /\ ~ Dangling st j.
Proof. exact inwindow_after_inconsistent. Qed.
Print Assumptions c11_inwindow_after_inconsistent.

Theorem c11_clean_db :
  forall w st, db (clean w st) = map (renamed st) (db (rm_outside w (rm_inconsistent st))).
Proof. exact clean_db. Qed.
Print Assumptions c11_clean_db.

Theorem c11_clean_exact :
  forall w st n',
  In n' (db (clean w st)) <->
  exists n, In n (db st) /\ ~ Dangling st (njob n) /\ InWindow w (rm_inconsistent st) (njob n)
            /\ n' = renamed st n.
Proof. exact clean_exact. Qed.
Print Assumptions c11_clean_exact.

Theorem c11_clean_exact' :
  forall w st n',
  In n' (db (clean w st)) <->
  exists n, In n (db st) /\ ~ Dangling st (njob n) /\ InWindow w st (njob n) /\ n' = renamed st n.
Proof. exact clean_exact'. Qed.
Print Assumptions c11_clean_exact'.

Theorem c11_clean_names_by_root :
  forall w st r,
  In r (db st) -> is_root r = true ->
  (forall r', In r' (db st) -> is_root r' = true -> njob r' = njob r -> r' = r) ->
  forall n, In n (db (clean w st)) -> njob n = njob r -> nname n = nname r.
Proof. exact clean_names_by_root. Qed.
Print Assumptions c11_clean_names_by_root.

Theorem c11_clean_restrict_db :
  forall w st, TraceClosed st -> db (clean w (restrict (kept_jobs w st) st)) = db (clean w st).
Proof. exact clean_restrict_db. Qed.
Print Assumptions c11_clean_restrict_db.

Theorem c11_clean_pv_frame :
  forall w st,
  TraceClosed st -> NoDup (ids (db st)) ->
  let K := kept_jobs w st in
  db (clean w (restrict K st)) = db (clean w st)
  /\ forall fm fn, stream fm fn (clean w (restrict K st)) = stream fm fn (clean w st).
Proof. exact clean_pv_frame. Qed.
Print Assumptions c11_clean_pv_frame.

Theorem c11_clean_pv_frame_needs_trace_closed :
  exists w st, NoDup (ids (db st)) /\ ~ TraceClosed st
    /\ db (clean w (restrict (kept_jobs w st) st)) <> db (clean w st)
    /\ (forall fm fn, stream fm fn (clean w (restrict (kept_jobs w st) st)) = [])
    /\ stream [] [] (clean w st) <> [].
Proof. exact clean_pv_frame_needs_trace_closed. Qed.
Print Assumptions c11_clean_pv_frame_needs_trace_closed.

Theorem c11_clean_pv_frame_needs_nodup :
  exists w st, TraceClosed st /\ ~ NoDup (ids (db st))
    /\ db (clean w (restrict (kept_jobs w st) st)) = db (clean w st)
    /\ stream [] [] (clean w (restrict (kept_jobs w st) st)) <> stream [] [] (clean w st).
Proof. exact clean_pv_frame_needs_nodup. Qed.
Print Assumptions c11_clean_pv_frame_needs_nodup.

Theorem c11_clean_no_stale :
  forall w st p c, In (p, c) (assoc (clean w st)) -> In c (ids (db (clean w st))).
Proof. exact clean_no_stale. Qed.
Print Assumptions c11_clean_no_stale.

Theorem c11_clean_inv_b : forall w st, inv_b st = true -> inv_b (clean w st) = true.
Proof. exact clean_inv_b. Qed.
Print Assumptions c11_clean_inv_b.

Theorem c11_clean_inv_b_strong :
  forall w st,
  nodupb (ids (db st)) = true -> nodup_pairb (assoc st) = true -> inv_b (clean w st) = true.
Proof. exact clean_inv_b_strong. Qed.
Print Assumptions c11_clean_inv_b_strong.

Theorem c11_clean_v0_same_output :
  forall w st,
  db (clean w st) = db (clean_v0 w st)
  /\ forall fm fn, stream fm fn (clean w st) = stream fm fn (clean_v0 w st).
Proof. exact clean_v0_same_output. Qed.
Print Assumptions c11_clean_v0_same_output.

Theorem c11_clean_v0_leaves_stale :
  let st := mkstore [mknode 1 None 1 1 1 12 13 1; mknode 2 None 2 1 1 1 2 1;
                     mknode 3 (Some 2%positive) 2 1 1 1 2 1]
                    [(2, 3)%positive] [] in
  inv_b st = true
  /\ ids (db (clean_v0 (10, 20) st)) = [1%positive]
  /\ assoc (clean_v0 (10, 20) st) = [(2, 3)%positive]
  /\ inv_b (clean_v0 (10, 20) st) = false
  /\ assoc (clean (10, 20) st) = []
  /\ inv_b (clean (10, 20) st) = true.
Proof. exact clean_v0_leaves_stale. Qed.
Print Assumptions c11_clean_v0_leaves_stale.

Theorem c11_window_spec :
  forall b mn mx lo hi,
  window b mn mx = Some (lo, hi) <->
  lo = eff_min mn mx + b * 60 * 1000000000 /\ hi = eff_max mn mx - b * 60 * 1000000000 /\ lo < hi.
Proof. exact window_spec. Qed.
Print Assumptions c11_window_spec.

Theorem c11_window_none :
  forall b mn mx,
  window b mn mx = None <->
  eff_max mn mx - b * 60 * 1000000000 <= eff_min mn mx + b * 60 * 1000000000.
Proof. exact window_none. Qed.
Print Assumptions c11_window_none.

Theorem c11_track_spec :
  forall evs,
  (fst (track evs) <= int64_max
   /\ (forall n, In n evs -> fst (track evs) <= nst n)
   /\ (fst (track evs) = int64_max \/ exists n, In n evs /\ fst (track evs) = nst n))
  /\ (0 <= snd (track evs)
   /\ (forall n, In n evs -> nen n <= snd (track evs))
   /\ (snd (track evs) = 0 \/ exists n, In n evs /\ snd (track evs) = nen n)).
Proof. exact track_spec. Qed.
Print Assumptions c11_track_spec.

Theorem c11_ex_clean :
  db (clean (50, 500) ex_store)
  = [ mknode 1 None 1 1 1 100 200 1;
      mknode 2 (Some 1%positive) 1 1 1 110 150 1;
      mknode 7 None 4 2 1 300 400 1;
      mknode 8 (Some 7%positive) 4 2 1 310 320 1 ].
Proof. exact ex_clean. Qed.
Print Assumptions c11_ex_clean.

Theorem c11_ex_hyps : TraceClosed ex_store /\ NoDup (ids (db ex_store)).
Proof. exact ex_hyps. Qed.
Print Assumptions c11_ex_hyps.
