(** C16: the two timestamp converters (unix_nano_to_pv_string / convert_timestamp_to_unix_nano)
    on 1970-01-01T00:00:00.000000Z <= instant < 2100-01-01, at microsecond resolution. *)
From Coq Require Import ZArith String.
From V Require Import Time.Calendar Time.Render Time.F64 Time.PvTime
  Time.CalendarProofs Time.RenderProofs Time.PvTimeProofs.
Open Scope Z_scope.

Theorem C16_calendar_inverse :
  forall z, 0 <= z < 47482 ->
  let '(y, m, d) := civil_from_days z in
  valid_date y m d = true /\ 1970 <= y <= 2099 /\ days_from_civil y m d = z.
Proof. exact calendar_inverse. Qed.
Print Assumptions C16_calendar_inverse.

Theorem C16_dt_roundtrip :
  forall us, 0 <= us < us_2100 -> us_of_dt (dt_of_us us) = us /\ valid_dt (dt_of_us us) = true.
Proof. exact dt_roundtrip. Qed.
Print Assumptions C16_dt_roundtrip.

Theorem C16_parse_render :
  forall us, 0 <= us < us_2100 -> parse_dt (render us) = Some (dt_of_us us).
Proof. exact parse_render. Qed.
Print Assumptions C16_parse_render.

Theorem C16_pv_to_nano_exact_correct :
  forall us, 0 <= us < us_2100 -> pv_to_nano_exact (render us) = Some (1000 * us).
Proof. exact pv_to_nano_exact_correct. Qed.
Print Assumptions C16_pv_to_nano_exact_correct.

(** The float formula currently in /repo does not denote the instant (defect). *)
Theorem C16_pv_to_nano_v0_refuted :
  exists us, 0 <= us < us_2100 /\ pv_to_nano_v0 (render us) <> Some (1000 * us).
Proof. exact pv_to_nano_v0_refuted. Qed.
Print Assumptions C16_pv_to_nano_v0_refuted.

Theorem C16_render_mono :
  forall u1 u2, 0 <= u1 < u2 /\ u2 < us_2100 -> str_ltb (render u1) (render u2) = true.
Proof. exact render_mono. Qed.
Print Assumptions C16_render_mono.

Theorem C16_render_inj :
  forall u1 u2, 0 <= u1 < us_2100 -> 0 <= u2 < us_2100 -> render u1 = render u2 -> u1 = u2.
Proof. exact render_inj. Qed.
Print Assumptions C16_render_inj.

Theorem C16_nano_to_us_mono :
  forall n1 n2, 0 <= n1 <= n2 /\ n2 < 1000 * us_2100 -> nano_to_us n1 <= nano_to_us n2.
Proof. exact nano_to_us_mono. Qed.
Print Assumptions C16_nano_to_us_mono.

Theorem C16_nano_to_us_exact :
  forall us, 0 <= us < us_2100 -> nano_to_us (1000 * us) = us.
Proof. exact nano_to_us_exact. Qed.
Print Assumptions C16_nano_to_us_exact.

Theorem C16_nano_to_pv_exact :
  forall us, 0 <= us < us_2100 -> nano_to_pv (1000 * us) = render us.
Proof. exact nano_to_pv_exact. Qed.
Print Assumptions C16_nano_to_pv_exact.

Theorem C16_roundtrip_pv :
  forall us, 0 <= us < us_2100 ->
  match pv_to_nano_exact (render us) with
  | Some n => nano_to_pv n = render us
  | None => False
  end.
Proof. exact roundtrip_pv. Qed.
Print Assumptions C16_roundtrip_pv.
