(** C04: saving the learned model and loading it again together with further jobs equals one run
    over all jobs, for every split into chunks; the model file round-trips every event and set;
    a reloaded event type still yields its gate tree (repaired tree; refuted for the pinned tree).
    events.py:250-301, 599-713. *)
From Coq Require Import List Bool PArith Arith.
From V Require Import Puml.Ast Puml.Exec Pv.EventModel Pv.EventModelProofs Pv.Driver Pv.DriverProofs.
Import ListNotations.

Theorem c04_load_save : forall m, wf_model m = true -> load (save m) = Some m.
Proof. exact load_save. Qed.
Print Assumptions c04_load_save.

Theorem c04_save_faithful : forall m e i, In (e, i) m <-> In (e, outs i, ins i) (save m).
Proof. exact save_faithful. Qed.
Print Assumptions c04_save_faithful.

Theorem c04_load_rejects_duplicates : forall j, ~ NoDup (jkeys j) -> load j = None.
Proof. exact load_rejects_duplicates. Qed.
Print Assumptions c04_load_rejects_duplicates.

Theorem c04_load_accepts_nodup : forall j, NoDup (jkeys j) -> exists m, load j = Some m.
Proof. exact load_accepts_nodup. Qed.
Print Assumptions c04_load_accepts_nodup.

Theorem c04_load_normalises :
  load [(3%positive, [[(5%positive, 1)]; [(5%positive, 1); (4%positive, 0)]], [[(2%positive, 1)]]);
        (2%positive, [[(4%positive, 1); (3%positive, 1); (3%positive, 1)];
                      [(3%positive, 2); (4%positive, 1)]; [(3%positive, 1)]], [])]
  = Some [(2%positive, mkinfo [[(3%positive, 1)]; [(3%positive, 2); (4%positive, 1)]] []);
          (3%positive, mkinfo [[(5%positive, 1)]] [[(2%positive, 1)]])].
Proof. exact load_normalises. Qed.
Print Assumptions c04_load_normalises.

Theorem c04_chunks_ingest : forall m chunks,
  ingest_from m (concat chunks) = fold_left ingest_from chunks m.
Proof. exact chunks_ingest. Qed.
Print Assumptions c04_chunks_ingest.

Theorem c04_chunks_ingest_saved : forall m chunks,
  wf_model m = true -> ingest_chunked m chunks = Some (ingest_from m (concat chunks)).
Proof. exact chunks_ingest_saved. Qed.
Print Assumptions c04_chunks_ingest_saved.

Theorem c04_chunks_any_split : forall chunks chunks',
  (forall j, In j (concat chunks) <-> In j (concat chunks')) ->
  ingest_chunked [] chunks = ingest_chunked [] chunks'.
Proof. exact chunks_any_split. Qed.
Print Assumptions c04_chunks_any_split.

Theorem c04_tree_fresh_inv : forall (tree : Type) (clg : list mset -> tree) ops,
  let s := run_ops tree clg false ops in
  e_outs tree s <> [] -> e_stale tree s = true \/ e_cache tree s = Some (clg (e_outs tree s)).
Proof. exact tree_fresh_inv. Qed.
Print Assumptions c04_tree_fresh_inv.

Theorem c04_tree_fresh : forall (tree : Type) (clg : list mset -> tree) ops,
  let s := run_ops tree clg false ops in
  e_outs tree s <> [] -> fst (get_tree tree clg s) = Some (clg (e_outs tree s)).
Proof. exact tree_fresh. Qed.
Print Assumptions c04_tree_fresh.

Theorem c04_tree_fresh_v0_refuted : forall (tree : Type) (clg : list mset -> tree),
  exists ops, let s := run_ops tree clg true ops in
              e_outs tree s <> [] /\ fst (get_tree tree clg s) = None.
Proof. exact tree_fresh_v0_refuted. Qed.
Print Assumptions c04_tree_fresh_v0_refuted.

(** The glue (pv_to_puml.py:267-313, otel_to_puml.py:57-69): several job names in one invocation, -im / -om,
    chained invocations.  Tied to the code by the driver leg of harness/c04.py. *)
Theorem c04_run_streams_isolated : forall mp streams, NoDup (map fst streams) ->
  snd (run_streams mp streams) =
  map (fun s => mkemitted (file_name (fst s)) (fst s)
                          (ingest_from (match get (fst s) mp with Some m => m | None => [] end) (snd s))) streams.
Proof. exact run_streams_isolated. Qed.
Print Assumptions c04_run_streams_isolated.

Theorem c04_chain_one_shot : forall runs,
  Forall (fun r => NoDup (map fst r)) runs ->
  (forall n n', occurs runs n -> occurs runs n' -> file_name n = file_name n' -> n = n') ->
  exists d, chain runs = Some d /\
    (forall n, occurs runs n ->
       fget (file_name n) d = Some (n, save (ingest_from [] (List.concat (map (jobs_of n) runs))))) /\
    (forall f, (forall n, occurs runs n -> f <> file_name n) -> fget f d = None).
Proof. exact chain_one_shot. Qed.
Print Assumptions c04_chain_one_shot.

(** two job names that differ only in space / underscore share their output files: the later one wins *)
Theorem c04_chain_collision_refuted : exists runs, Forall (fun r => NoDup (map fst r)) runs /\
  exists d, chain runs = Some d /\ exists n, (exists r, In r runs /\ In n (map fst r)) /\
    fget (file_name n) d <> Some (n, save (ingest_from [] (List.concat (map (jobs_of n) runs)))).
Proof. exact chain_collision_refuted. Qed.
Print Assumptions c04_chain_collision_refuted.

Theorem c04_load_inputs_last_wins : forall files mp, load_inputs files [] = Some mp ->
  forall n, get n mp = last_model files n.
Proof. exact load_inputs_last_wins. Qed.
Print Assumptions c04_load_inputs_last_wins.
