(** Proofs about the SQLDataHolder ingestion model (Store/Ingest.v): under the store invariant
    [inv_b] the batched ingestion with its IntegrityError fallback refines [spec_ingest] for every
    batch size (0 included); consequences (C10). *)
From Coq Require Import ZArith List Bool Lia.
From V Require Import Store.Rel Store.Ingest.
Import ListNotations.

(** * Reflection of the boolean list predicates *)

Lemma memp_In k l : memp k l = true <-> In k l.
Proof.
  induction l as [|x r IH]; simpl.
  - split; [discriminate | tauto].
  - rewrite orb_true_iff, IH, Pos.eqb_eq. split; intros [H|H]; subst; auto.
Qed.

Lemma memp_nIn k l : memp k l = false <-> ~ In k l.
Proof.
  rewrite <- memp_In. destruct (memp k l); split; intros H.
  - discriminate H.
  - exfalso; apply H; reflexivity.
  - intros H1; discriminate H1.
  - reflexivity.
Qed.

Lemma memp_app k a b : memp k (a ++ b) = memp k a || memp k b.
Proof.
  induction a as [|x a IH]; simpl; [reflexivity|]. rewrite IH, orb_assoc. reflexivity.
Qed.

Lemma pair_eqb_eq a b : pair_eqb a b = true <-> a = b.
Proof.
  destruct a as [a1 a2], b as [b1 b2]; unfold pair_eqb; simpl.
  rewrite andb_true_iff, !Pos.eqb_eq. split.
  - intros [H1 H2]; subst; reflexivity.
  - intros H; inversion H; auto.
Qed.

Lemma mempair_In k l : mempair k l = true <-> In k l.
Proof.
  induction l as [|x r IH]; simpl.
  - split; [discriminate | tauto].
  - rewrite orb_true_iff, IH, pair_eqb_eq. split; intros [H|H]; subst; auto.
Qed.

Lemma mempair_nIn k l : mempair k l = false <-> ~ In k l.
Proof.
  rewrite <- mempair_In. destruct (mempair k l); split; intros H.
  - discriminate H.
  - exfalso; apply H; reflexivity.
  - intros H1; discriminate H1.
  - reflexivity.
Qed.

Lemma nodupb_NoDup l : nodupb l = true <-> NoDup l.
Proof.
  induction l as [|x r IH]; simpl.
  - split; intros _; [constructor | reflexivity].
  - rewrite andb_true_iff, negb_true_iff, memp_nIn, IH. split.
    + intros [H1 H2]; constructor; assumption.
    + intros H; inversion H; subst; split; assumption.
Qed.

Lemma nodup_pairb_NoDup l : nodup_pairb l = true <-> NoDup l.
Proof.
  induction l as [|x r IH]; simpl.
  - split; intros _; [constructor | reflexivity].
  - rewrite andb_true_iff, negb_true_iff, mempair_nIn, IH. split.
    + intros [H1 H2]; constructor; assumption.
    + intros H; inversion H; subst; split; assumption.
Qed.

Lemma NoDup_app_intro {A} (a b : list A) :
  NoDup a -> NoDup b -> (forall x, In x a -> ~ In x b) -> NoDup (a ++ b).
Proof.
  induction a as [|x a IH]; simpl; intros Ha Hb Hd; [assumption|].
  inversion Ha as [|? ? Hx Ha']; subst. constructor.
  - rewrite in_app_iff. intros [H|H]; [exact (Hx H) | exact (Hd x (or_introl eq_refl) H)].
  - apply IH; auto.
Qed.

Lemma ids_app a b : ids (a ++ b) = ids a ++ ids b.
Proof. unfold ids. apply map_app. Qed.

Lemma in_ids n l : In n l -> In (nid n) (ids l).
Proof. unfold ids. apply in_map. Qed.

(** * The table invariant in propositional form *)

Definition goodt (d : list node) (a : list (positive * positive)) : Prop :=
  NoDup (ids d) /\ NoDup a /\ (forall k, In k a -> In (snd k) (ids d)).

Lemma inv_b_goodt st : inv_b st = true <-> goodt (db st) (assoc st).
Proof.
  unfold inv_b, goodt. rewrite !andb_true_iff, nodupb_NoDup, nodup_pairb_NoDup, forallb_forall.
  split.
  - intros [[H1 H2] H3]. split; [exact H1|]. split; [exact H2|].
    intros k Hk. apply memp_In. apply H3. exact Hk.
  - intros [H1 [H2 H3]]. split; [split; assumption|].
    intros k Hk. apply memp_In. apply H3. exact Hk.
Qed.

(** * Association rows of a list of nodes *)

Notation rels := (flat_map rel_of).

Lemma rels_child k P : In k (rels P) -> In (snd k) (ids P).
Proof.
  induction P as [|n P IH]; simpl; [tauto|].
  rewrite in_app_iff. intros [H|H]; [|right; auto].
  unfold rel_of in H. destruct (npar n) as [p|]; simpl in H; [|tauto].
  destruct H as [H|[]]. subst k. left. reflexivity.
Qed.

Lemma rels_NoDup P : NoDup (ids P) -> NoDup (rels P).
Proof.
  induction P as [|n P IH]; simpl; intros H; [constructor|].
  inversion H as [|? ? Hn HP]; subst.
  unfold rel_of at 1. destruct (npar n) as [p|]; simpl; [|auto].
  constructor; [|auto]. intros Hin. apply Hn. exact (rels_child _ _ Hin).
Qed.

Lemma rels_app P Q : rels (P ++ Q) = rels P ++ rels Q.
Proof. apply flat_map_app. Qed.

Lemma rels_In n p P : In n P -> npar n = Some p -> In (p, nid n) (rels P).
Proof.
  intros Hn Hp. apply in_flat_map. exists n. split; [assumption|].
  unfold rel_of. rewrite Hp. left. reflexivity.
Qed.

(** * [firsts] *)

Lemma firsts_ext l : forall s1 s2, (forall k, memp k s1 = memp k s2) -> firsts s1 l = firsts s2 l.
Proof.
  induction l as [|n r IH]; intros s1 s2 H; simpl; [reflexivity|].
  rewrite H. destruct (memp (nid n) s2) eqn:E.
  - apply IH; assumption.
  - f_equal. apply IH. intros k. simpl. rewrite H. reflexivity.
Qed.

Lemma firsts_In_ids i l : forall seen,
  In i (ids (firsts seen l)) <-> In i (ids l) /\ ~ In i seen.
Proof.
  induction l as [|n r IH]; intros seen; simpl.
  - tauto.
  - destruct (memp (nid n) seen) eqn:E.
    + apply memp_In in E. rewrite IH. split.
      * intros [H1 H2]; auto.
      * intros [[H1|H1] H2]; [subst i; contradiction | auto].
    + apply memp_nIn in E. simpl. rewrite IH. simpl. split.
      * intros [H|[H1 H2]]; [subst i; auto | split; [auto | tauto]].
      * intros [[H1|H1] H2]; [auto|].
        destruct (Pos.eq_dec (nid n) i) as [Heq|Hne]; [auto|].
        right. split; [assumption|]. intros [H|H]; [exact (Hne H) | exact (H2 H)].
Qed.

Lemma firsts_NoDup l : forall seen, NoDup (ids (firsts seen l)).
Proof.
  induction l as [|n r IH]; intros seen; simpl; [constructor|].
  destruct (memp (nid n) seen) eqn:E; [apply IH|].
  simpl. constructor; [|apply IH].
  rewrite firsts_In_ids. intros [_ H]. apply H. left. reflexivity.
Qed.

Lemma firsts_id P : forall seen,
  NoDup (ids P) -> (forall n, In n P -> ~ In (nid n) seen) -> firsts seen P = P.
Proof.
  induction P as [|n P IH]; intros seen Hnd Hs; simpl; [reflexivity|].
  simpl in Hnd. inversion Hnd as [|? ? Hn HP]; subst.
  assert (E : memp (nid n) seen = false) by (apply memp_nIn; apply Hs; left; reflexivity).
  rewrite E. f_equal. apply IH; [assumption|].
  intros m Hm [H|H].
  - apply Hn. rewrite H. apply in_ids. exact Hm.
  - exact (Hs m (or_intror Hm) H).
Qed.

Lemma filter_firsts d l : forall seen,
  filter (fun n => negb (memp (nid n) d)) (firsts seen l) = firsts (seen ++ d) l.
Proof.
  induction l as [|n r IH]; intros seen; simpl; [reflexivity|].
  rewrite memp_app. destruct (memp (nid n) seen) eqn:E; simpl.
  - apply IH.
  - destruct (memp (nid n) d) eqn:E2; simpl.
    + rewrite IH. apply firsts_ext. intros k. simpl. rewrite !memp_app.
      destruct (Pos.eqb k (nid n)) eqn:E3; simpl; [|reflexivity].
      apply Pos.eqb_eq in E3. subst k. rewrite E2. symmetry. apply orb_true_r.
    + rewrite IH. reflexivity.
Qed.

Lemma firsts_app P : forall seen Q,
  firsts seen (P ++ Q) = firsts seen P ++ firsts (seen ++ ids (firsts seen P)) Q.
Proof.
  induction P as [|n P IH]; intros seen Q; simpl.
  - rewrite app_nil_r. reflexivity.
  - destruct (memp (nid n) seen) eqn:E.
    + apply IH.
    + simpl. f_equal. rewrite IH. f_equal. apply firsts_ext. intros k.
      simpl. rewrite !memp_app. simpl.
      destruct (Pos.eqb k (nid n)); destruct (memp k seen); reflexivity.
Qed.

Lemma spec_new_firsts st evs : spec_new st evs = firsts (ids (db st)) evs.
Proof. unfold spec_new. rewrite filter_firsts. reflexivity. Qed.

(** * One commit *)

(** What a flush of pending list [P] into tables [d], [a] must produce. *)
Definition addn (d : list node) (a : list (positive * positive)) (P : list node) : ist :=
  let N := firsts (ids d) P in mkist (d ++ N) (a ++ rels N) [] [].

Lemma insert_nodes_ok d P :
  NoDup (ids P) -> (forall n, In n P -> ~ In (nid n) (ids d)) -> insert_nodes d P = Some (d ++ P).
Proof.
  intros H1 H2. unfold insert_nodes.
  assert (E1 : nodupb (ids P) = true) by (apply nodupb_NoDup; assumption).
  assert (E2 : forallb (fun n => negb (memp (nid n) (ids d))) P = true).
  { apply forallb_forall. intros n Hn. apply negb_true_iff, memp_nIn. auto. }
  rewrite E1, E2. reflexivity.
Qed.

Lemma insert_assoc_ok d a P :
  goodt d a -> NoDup (ids P) -> (forall n, In n P -> ~ In (nid n) (ids d)) ->
  insert_assoc a (rels P) = Some (a ++ rels P).
Proof.
  intros (Hd & Ha & Hc) H1 H2. unfold insert_assoc.
  destruct (rels P) as [|k0 r0] eqn:ER; [rewrite app_nil_r; reflexivity|].
  rewrite <- ER.
  assert (E1 : nodup_pairb (rels P) = true) by (apply nodup_pairb_NoDup, rels_NoDup; assumption).
  assert (E2 : forallb (fun k => negb (mempair k a)) (rels P) = true).
  { apply forallb_forall. intros k Hk. apply negb_true_iff, mempair_nIn. intros Hin.
    apply rels_child in Hk. unfold ids in Hk. apply in_map_iff in Hk.
    destruct Hk as (n & Hn1 & Hn2). apply (H2 n Hn2). rewrite Hn1. apply Hc. exact Hin. }
  rewrite E1, E2. reflexivity.
Qed.

Lemma commit_good d a P :
  goodt d a -> NoDup (ids P) -> (forall n, In n P -> ~ In (nid n) (ids d)) ->
  commit (mkist d a P (rels P)) = COk (mkist (d ++ P) (a ++ rels P) [] []).
Proof.
  intros Hg H1 H2. unfold commit. cbn [i_db i_assoc pend prel].
  rewrite (insert_nodes_ok d P H1 H2), (insert_assoc_ok d a P Hg H1 H2). reflexivity.
Qed.

Lemma goodt_add d a N :
  goodt d a -> NoDup (ids N) -> (forall n, In n N -> ~ In (nid n) (ids d)) ->
  goodt (d ++ N) (a ++ rels N).
Proof.
  intros (Hd & Ha & Hc) H1 H2. unfold goodt. rewrite ids_app. split; [|split].
  - apply NoDup_app_intro; try assumption. intros x Hx Hx2.
    unfold ids in Hx2. apply in_map_iff in Hx2. destruct Hx2 as (n & Hn1 & Hn2).
    apply (H2 n Hn2). rewrite Hn1. exact Hx.
  - apply NoDup_app_intro; [assumption | apply rels_NoDup; assumption |].
    intros k Hk Hk2. apply rels_child in Hk2. unfold ids in Hk2. apply in_map_iff in Hk2.
    destruct Hk2 as (n & Hn1 & Hn2). apply (H2 n Hn2). rewrite Hn1. apply Hc. exact Hk.
  - intros k Hk. rewrite in_app_iff in *. destruct Hk as [Hk|Hk].
    + left. apply Hc. exact Hk.
    + right. apply rels_child. exact Hk.
Qed.

Lemma firsts_fresh d P n : In n (firsts (ids d) P) -> ~ In (nid n) (ids d).
Proof.
  intros Hn. apply in_ids in Hn. apply firsts_In_ids in Hn. tauto.
Qed.

Lemma goodt_addn d a P : goodt d a -> goodt (i_db (addn d a P)) (i_assoc (addn d a P)).
Proof.
  intros Hg. unfold addn. cbn [i_db i_assoc]. apply goodt_add; [assumption | apply firsts_NoDup |].
  intros n. apply firsts_fresh.
Qed.

(** commit_batched_unique_data_to_database on consistent tables = the flush, whether or not the
    IntegrityError fallback is taken. *)
Lemma commit_unique_spec d a P :
  goodt d a -> commit_unique (mkist d a P (rels P)) = Some (addn d a P).
Proof.
  intros Hg. unfold commit_unique.
  destruct (nodupb (ids P) && forallb (fun n => negb (memp (nid n) (ids d))) P) eqn:E.
  - apply andb_true_iff in E. destruct E as [E1 E2].
    apply nodupb_NoDup in E1. rewrite forallb_forall in E2.
    assert (H2 : forall n, In n P -> ~ In (nid n) (ids d)).
    { intros n Hn. apply memp_nIn, negb_true_iff. auto. }
    rewrite (commit_good d a P Hg E1 H2). unfold addn.
    rewrite (firsts_id P (ids d) E1 H2). reflexivity.
  - assert (EC : commit (mkist d a P (rels P)) = CIntegrity (mkist d a P (rels P))).
    { unfold commit, insert_nodes. cbn [i_db i_assoc pend prel]. rewrite E. reflexivity. }
    rewrite EC. unfold fallback. cbn [i_db i_assoc pend prel].
    rewrite filter_firsts. cbn [app].
    rewrite (commit_good d a (firsts (ids d) P) Hg (firsts_NoDup P (ids d))
               (fun n => firsts_fresh d P n)).
    reflexivity.
Qed.

(** * The batching loop *)

Definition goods (s : ist) : Prop := goodt (i_db s) (i_assoc s) /\ prel s = rels (pend s).

Lemma commit_unique_goods s :
  goods s -> commit_unique s = Some (addn (i_db s) (i_assoc s) (pend s)).
Proof.
  destruct s as [d a P R]. unfold goods. cbn [i_db i_assoc pend prel].
  intros [Hg HR]. subst R. apply commit_unique_spec. exact Hg.
Qed.

Lemma goods_addn d a P : goodt d a -> goods (addn d a P).
Proof.
  intros Hg. split; [apply goodt_addn; assumption | reflexivity].
Qed.

Lemma addn_app d a P Q :
  addn d a (P ++ Q) = addn (i_db (addn d a P)) (i_assoc (addn d a P)) Q.
Proof.
  unfold addn. cbn [i_db i_assoc]. rewrite firsts_app, rels_app, ids_app, !app_assoc. reflexivity.
Qed.

Lemma addn_nil d a : addn d a [] = mkist d a [] [].
Proof. unfold addn. simpl. rewrite !app_nil_r. reflexivity. Qed.

Lemma saves_spec bs evs : forall s, goods s ->
  exists s', saves bs s evs = Some s' /\ goods s' /\
    addn (i_db s') (i_assoc s') (pend s') = addn (i_db s) (i_assoc s) (pend s ++ evs).
Proof.
  induction evs as [|n r IH]; intros s Hs.
  - exists s. rewrite app_nil_r. auto.
  - cbn [saves]. unfold save.
    set (s1 := mkist (i_db s) (i_assoc s) (pend s ++ [n]) (prel s ++ rel_of n)).
    assert (Hs1 : goods s1).
    { destruct Hs as [Hg HR]. split; [exact Hg|]. unfold s1. cbn [pend prel].
      rewrite HR, rels_app. simpl. rewrite app_nil_r. reflexivity. }
    destruct (Nat.leb bs (length (pend s1))) eqn:E.
    + rewrite (commit_unique_goods s1 Hs1).
      set (f := addn (i_db s1) (i_assoc s1) (pend s1)).
      assert (Hf : goods f) by (apply goods_addn; apply Hs1).
      destruct (IH f Hf) as (s' & H1 & H2 & H3).
      exists s'. split; [exact H1|]. split; [exact H2|].
      rewrite H3. change (pend f) with (@nil node). cbn [app]. unfold f.
      rewrite <- addn_app. unfold s1. cbn [i_db i_assoc pend].
      rewrite <- app_assoc. reflexivity.
    + destruct (IH s1 Hs1) as (s' & H1 & H2 & H3).
      exists s'. split; [exact H1|]. split; [exact H2|].
      rewrite H3. unfold s1. cbn [i_db i_assoc pend]. rewrite <- app_assoc. reflexivity.
Qed.

(** * Target 1: refinement, every batch size (no side condition on [bs]; [bs = 0] flushes after
    every event and needs no separate treatment) *)

Lemma spec_ingest_addn st evs :
  spec_ingest st evs =
  mkstore (i_db (addn (db st) (assoc st) evs)) (i_assoc (addn (db st) (assoc st) evs)) (hashes st).
Proof. unfold spec_ingest, addn. cbn [i_db i_assoc]. rewrite spec_new_firsts. reflexivity. Qed.

Theorem ingest_refines : forall bs st evs,
  inv_b st = true -> ingest bs st evs = Some (spec_ingest st evs).
Proof.
  intros bs st evs Hinv. apply inv_b_goodt in Hinv. unfold ingest.
  assert (H0 : goods (mkist (db st) (assoc st) [] [])) by (split; [exact Hinv | reflexivity]).
  destruct (saves_spec bs evs _ H0) as (s' & H1 & H2 & H3).
  rewrite H1, (commit_unique_goods s' H2), H3. cbn [i_db i_assoc pend app].
  rewrite spec_ingest_addn. reflexivity.
Qed.

(** * Target 2: the invariant is preserved *)

Theorem ingest_inv : forall st evs, inv_b st = true -> inv_b (spec_ingest st evs) = true.
Proof.
  intros st evs Hinv. apply inv_b_goodt in Hinv. apply inv_b_goodt.
  rewrite spec_ingest_addn. cbn [db assoc]. apply goodt_addn. exact Hinv.
Qed.

(** * Target 3: several runs = one run over the concatenation *)

Lemma spec_ingest_nil st : spec_ingest st [] = st.
Proof.
  unfold spec_ingest, spec_new. simpl. rewrite !app_nil_r. destruct st; reflexivity.
Qed.

Lemma spec_ingest_app st a b : spec_ingest (spec_ingest st a) b = spec_ingest st (a ++ b).
Proof.
  rewrite (spec_ingest_addn st (a ++ b)), addn_app.
  rewrite (spec_ingest_addn (spec_ingest st a) b).
  rewrite (spec_ingest_addn st a). cbn [db assoc hashes]. reflexivity.
Qed.

Lemma spec_ingest_concat runs : forall st,
  fold_left spec_ingest runs st = spec_ingest st (concat runs).
Proof.
  induction runs as [|a r IH]; intros st; simpl.
  - rewrite spec_ingest_nil. reflexivity.
  - rewrite IH. apply spec_ingest_app.
Qed.

Theorem ingest_runs_refines : forall bs st runs,
  inv_b st = true ->
  ingest_runs bs st runs = Some (fold_left spec_ingest runs st) /\
  fold_left spec_ingest runs st = spec_ingest st (concat runs).
Proof.
  intros bs st runs Hinv. split; [|apply spec_ingest_concat].
  revert st Hinv. induction runs as [|a r IH]; intros st Hinv; simpl; [reflexivity|].
  rewrite (ingest_refines bs st a Hinv). apply IH. apply ingest_inv. exact Hinv.
Qed.

(** * Target 4: batch-size independence *)

Theorem bs_indep : forall bs1 bs2 st evs,
  inv_b st = true -> ingest bs1 st evs = ingest bs2 st evs.
Proof.
  intros bs1 bs2 st evs Hinv. rewrite !ingest_refines by exact Hinv. reflexivity.
Qed.

(** * Target 5: exactly one record per distinct span id *)

Theorem stored_once : forall st evs,
  inv_b st = true ->
  NoDup (ids (db (spec_ingest st evs))) /\
  (forall i, In i (ids (db st)) \/ In i (ids evs) <-> In i (ids (db (spec_ingest st evs)))).
Proof.
  intros st evs Hinv. split.
  - pose proof (ingest_inv st evs Hinv) as H. apply inv_b_goodt in H. apply H.
  - intros i. unfold spec_ingest. cbn [db]. rewrite spec_new_firsts, ids_app, in_app_iff, firsts_In_ids.
    split.
    + intros [H|H]; [left; exact H|].
      destruct (in_dec Pos.eq_dec i (ids (db st))) as [Hi|Hi]; [left; exact Hi | right; auto].
    + intros [H|[H _]]; auto.
Qed.

(** * Target 6: the first occurrence is the stored one, with its parent link; old rows are kept *)

Theorem first_wins : forall st evs pre n post,
  inv_b st = true -> evs = pre ++ n :: post ->
  ~ In (nid n) (ids pre) -> ~ In (nid n) (ids (db st)) ->
  In n (db (spec_ingest st evs)) /\
  (forall p, npar n = Some p -> In (p, nid n) (assoc (spec_ingest st evs))).
Proof.
  intros st evs pre n post _ Hevs Hpre Hdb. subst evs.
  assert (Hn : In n (spec_new st (pre ++ n :: post))).
  { rewrite spec_new_firsts, firsts_app, in_app_iff. right. cbn [firsts].
    assert (E : memp (nid n) (ids (db st) ++ ids (firsts (ids (db st)) pre)) = false).
    { apply memp_nIn. rewrite in_app_iff, firsts_In_ids. tauto. }
    rewrite E. left. reflexivity. }
  unfold spec_ingest. cbn [db assoc]. split.
  - apply in_app_iff. right. exact Hn.
  - intros p Hp. apply in_app_iff. right. apply rels_In; assumption.
Qed.

Theorem old_rows_kept : forall st evs,
  (exists d', db (spec_ingest st evs) = db st ++ d') /\
  (exists a', assoc (spec_ingest st evs) = assoc st ++ a') /\
  hashes (spec_ingest st evs) = hashes st.
Proof.
  intros st evs. unfold spec_ingest. cbn [db assoc hashes].
  split; [eexists; reflexivity|]. split; [eexists; reflexivity | reflexivity].
Qed.

(** The same facts stated on the implementation model, for every batch size. *)
Corollary ingest_first_wins : forall bs st evs pre n post,
  inv_b st = true -> evs = pre ++ n :: post ->
  ~ In (nid n) (ids pre) -> ~ In (nid n) (ids (db st)) ->
  exists st', ingest bs st evs = Some st' /\ NoDup (ids (db st')) /\ In n (db st') /\
    (forall p, npar n = Some p -> In (p, nid n) (assoc st')) /\
    (exists d', db st' = db st ++ d') /\ (exists a', assoc st' = assoc st ++ a').
Proof.
  intros bs st evs pre n post Hinv Hevs Hpre Hdb. exists (spec_ingest st evs).
  split; [apply ingest_refines; exact Hinv|].
  split; [apply (stored_once st evs Hinv)|].
  destruct (first_wins st evs pre n post Hinv Hevs Hpre Hdb) as [H1 H2].
  destruct (old_rows_kept st evs) as [H3 [H4 _]]. auto.
Qed.

(** * Target 7: outside the invariant (stale association row) *)

Local Open Scope positive_scope.

Definition nd (i : positive) (p : option positive) : node := mknode i p 1 1 1 0%Z 1%Z 1.

(** association row (1,2) whose child 2 has no node row (what an interrupted/partially deleted
    earlier history leaves behind; foreign keys are not enforced) *)
Definition stale_store : store := mkstore [nd 1 None] [(1, 2)] [].

Example stale_store_not_inv : inv_b stale_store = false.
Proof. vm_compute. reflexivity. Qed.

(** (a) child 2 re-ingested together with a duplicate of itself: the fallback's retry raises. *)
Example stale_assoc_breaks_crash :
  ingest 10 stale_store [nd 2 (Some 1); nd 3 (Some 1); nd 2 (Some 1)] = None.
Proof. vm_compute. reflexivity. Qed.

(** (b) no duplicate in the batch: the node transaction commits, the association transaction
    fails, and the fallback dies with DetachedInstanceError on the expired pending objects: the
    run crashes although nodes 2 and 3 are already stored (observed on the real code). *)
Example stale_assoc_breaks_detached :
  ingest 10 stale_store [nd 2 (Some 1); nd 3 (Some 1)] = None
  /\ spec_ingest stale_store [nd 2 (Some 1); nd 3 (Some 1)]
     = mkstore [nd 1 None; nd 2 (Some 1); nd 3 (Some 1)] [(1, 2); (1, 2); (1, 3)] [].
Proof. split; vm_compute; reflexivity. Qed.

(** the refinement theorem's hypothesis cannot be dropped *)
Example ingest_refines_needs_inv :
  exists bs st evs, inv_b st = false /\ ingest bs st evs <> Some (spec_ingest st evs).
Proof.
  exists 10%nat, stale_store, [nd 2 (Some 1); nd 2 (Some 1)].
  split; [vm_compute; reflexivity | vm_compute; discriminate].
Qed.

(** * Non-vacuity *)

Definition ex_store : store :=
  mkstore [nd 1 None; nd 2 (Some 1); nd 3 (Some 1)] [(1, 2); (1, 3)] [(1, 1, 7)].

(** duplicates inside a batch (5,5), across batches (4 ... 4), against stored rows (2, 3), with
    a different parent on the later copy *)
Definition ex_evs : list node :=
  [nd 4 (Some 2); nd 5 (Some 4); nd 5 (Some 3); nd 2 (Some 3); nd 6 None; nd 4 (Some 1);
   nd 7 (Some 6); nd 3 (Some 2); nd 7 (Some 6)].

Example ex_inv : inv_b ex_store = true.
Proof. vm_compute. reflexivity. Qed.

Example ex_ingest :
  forallb (fun bs =>
    match ingest bs ex_store ex_evs with
    | Some st' => list_eqb node_eqb (db st') (db (spec_ingest ex_store ex_evs))
                  && list_eqb pair_eqb (assoc st') (assoc (spec_ingest ex_store ex_evs))
    | None => false
    end) (seq 0 12) = true
  /\ ids (db (spec_ingest ex_store ex_evs)) = [1; 2; 3; 4; 5; 6; 7]
  /\ assoc (spec_ingest ex_store ex_evs) = [(1, 2); (1, 3); (2, 4); (4, 5); (6, 7)].
Proof. split; [|split]; vm_compute; reflexivity. Qed.

Example ex_ingest_eq :
  ingest 2 ex_store ex_evs = Some (spec_ingest ex_store ex_evs) /\
  ingest 0 ex_store ex_evs = Some (spec_ingest ex_store ex_evs) /\
  ingest 100 ex_store ex_evs = Some (spec_ingest ex_store ex_evs).
Proof. split; [|split]; vm_compute; reflexivity. Qed.

Example ex_runs :
  ingest_runs 3 ex_store [ex_evs; ex_evs; [nd 8 (Some 7); nd 1 None]]
  = Some (spec_ingest ex_store (ex_evs ++ ex_evs ++ [nd 8 (Some 7); nd 1 None])).
Proof. vm_compute. reflexivity. Qed.
