(** Proofs about histories of CLI runs over one persisted store (model: Store/Runs.v).
    Property C15: re-running the tool on the same database file - with ingestion disabled, with
    unique-graph filtering, or re-ingesting the same files - completes and yields the same output. *)
From Coq Require Import ZArith List Bool Lia.
From V Require Import Store.Rel Store.Ingest Store.Clean Store.Unique Store.Stream Store.Runs.
From V Require Import Store.IngestProofs Store.CleanProofs.
Import ListNotations.
Open Scope Z_scope.

(* ------------------------------------------------------------------------------------------ *)
(** * Generic list facts *)

Lemma filter_none {A} (f : A -> bool) l : (forall x, In x l -> f x = false) -> filter f l = [].
Proof.
  induction l as [|x r IH]; intros H; cbn [filter]; auto.
  rewrite (H x (or_introl eq_refl)). apply IH. intros y Hy. apply H. right; exact Hy.
Qed.

Lemma filter_map_comm {A B} (f : A -> B) (p : B -> bool) l :
  filter p (map f l) = map f (filter (fun x => p (f x)) l).
Proof.
  induction l as [|x r IH]; cbn [map filter]; auto.
  destruct (p (f x)); cbn [map]; rewrite IH; reflexivity.
Qed.

Lemma rels_filter (f : positive -> bool) l :
  rels (filter (fun n => f (nid n)) l) = filter (fun k => f (snd k)) (rels l).
Proof.
  induction l as [|n r IH]; cbn [filter flat_map]; auto.
  rewrite filter_app, <- IH.
  destruct (f (nid n)) eqn:E; cbn [flat_map].
  - f_equal. unfold rel_of. destruct (npar n); cbn [filter snd]; [rewrite E|]; reflexivity.
  - unfold rel_of. destruct (npar n); cbn [filter snd]; [rewrite E|]; reflexivity.
Qed.

Lemma firsts_incl l : forall seen n, In n (firsts seen l) -> In n l.
Proof.
  induction l as [|a r IH]; intros seen n; cbn [firsts]; [tauto|].
  destruct (memp (nid a) seen); cbn [In]; intros H.
  - right. eapply IH; eauto.
  - destruct H as [H|H]; [left; exact H | right; eapply IH; eauto].
Qed.

Lemma in_ids_iff i l : In i (ids l) <-> exists c, In c l /\ nid c = i.
Proof.
  unfold ids. rewrite in_map_iff. split; intros (c & H1 & H2); exists c; auto.
Qed.

(* ------------------------------------------------------------------------------------------ *)
(** * What the later phases read: only [db] and [assoc] *)

Lemma root_name_db_ext s1 s2 j : db s1 = db s2 -> root_name s1 j = root_name s2 j.
Proof. unfold root_name. intros ->. reflexivity. Qed.

Lemma renamed_db_ext s1 s2 n : db s1 = db s2 -> renamed s1 n = renamed s2 n.
Proof. intros H. unfold renamed. rewrite (root_name_db_ext s1 s2 _ H). reflexivity. Qed.

Lemma inv_b_ext s1 s2 : db s1 = db s2 -> assoc s1 = assoc s2 -> inv_b s1 = inv_b s2.
Proof. unfold inv_b. intros -> ->. reflexivity. Qed.

Lemma stream_ext fm fn s1 s2 :
  db s1 = db s2 -> assoc s1 = assoc s2 -> stream fm fn s1 = stream fm fn s2.
Proof.
  intros Hd Ha. unfold stream. rewrite (rows_db_ext fm fn s1 s2 Hd).
  apply stream_of_rows_ext. intros n. unfold children. rewrite Hd, Ha. reflexivity.
Qed.

Lemma roots_db_ext w s1 s2 : db s1 = db s2 -> roots w s1 = roots w s2.
Proof. unfold roots, window_jobs. intros ->. reflexivity. Qed.

(** the candidate roots are all root rows when every stored trace touches the window *)
Lemma roots_all w st :
  (forall n, In n (db st) -> InWindow w st (njob n)) -> roots w st = filter is_root (db st).
Proof.
  intros H. unfold roots. apply filter_pointwise. intros n Hn.
  rewrite (proj2 (memp_In _ _)); [apply andb_true_r|]. apply window_jobs_In. apply H. exact Hn.
Qed.

(** [hashes_ct] reads the store through [db] and the window through [roots] only *)
Lemma hashes_ct_ext bs w1 w2 s1 s2 :
  db s1 = db s2 -> roots w1 s1 = roots w2 s2 -> hashes_ct bs w1 s1 = hashes_ct bs w2 s2.
Proof.
  intros Hd Hr. unfold hashes_ct, all_hashes. rewrite Hr. destruct bs as [|bs]; auto.
  unfold batch_hashes. rewrite Hd. reflexivity.
Qed.

Lemma inwindow_db_ext w s1 s2 j : db s1 = db s2 -> InWindow w s1 j -> InWindow w s2 j.
Proof. unfold InWindow. intros <-. auto. Qed.

Lemma dangling_ext s1 s2 j :
  db s1 = db s2 -> assoc s1 = assoc s2 -> Dangling s1 j -> Dangling s2 j.
Proof. unfold Dangling. intros <- <-. auto. Qed.

(* ------------------------------------------------------------------------------------------ *)
(** * update_job_names_by_root_span is idempotent *)

Lemma set_name_self n : set_name n (nname n) = n.
Proof. destruct n; reflexivity. Qed.

Lemma root_filter_renamed st j l :
  filter (fun r => is_root r && Pos.eqb (njob r) j) (map (renamed st) l)
  = map (renamed st) (filter (fun r => is_root r && Pos.eqb (njob r) j) l).
Proof.
  rewrite filter_map_comm. f_equal. apply filter_pointwise. intros x _.
  destruct (renamed_fields st x) as (_ & Hp & Hj & _). unfold is_root. rewrite Hp, Hj. reflexivity.
Qed.

(** the root rows keep their own name, so the roots' names are the same after the UPDATE *)
Lemma root_name_update_names st j : root_name (update_names st) j = root_name st j.
Proof.
  unfold root_name. rewrite update_names_db, root_filter_renamed.
  destruct (filter (fun r => is_root r && Pos.eqb (njob r) j) (db st)) as [|r l] eqn:E;
    cbn [map]; auto.
  f_equal.
  assert (Hr : In r (filter (fun r => is_root r && Pos.eqb (njob r) j) (db st)))
    by (rewrite E; left; reflexivity).
  apply filter_In in Hr as [_ Hp]. apply andb_true_iff in Hp as [_ Hj]. apply Pos.eqb_eq in Hj.
  unfold renamed, root_name. rewrite Hj, E. reflexivity.
Qed.

Lemma renamed_update_names_idem st n :
  In n (db (update_names st)) -> renamed (update_names st) n = n.
Proof.
  rewrite update_names_db. intros Hn. apply in_map_iff in Hn as (m & <- & _).
  unfold renamed at 1. rewrite root_name_update_names, renamed_njob.
  unfold renamed. destruct (root_name st (njob m)); reflexivity.
Qed.

Lemma renamed_clean_idem w st n : In n (db (clean w st)) -> renamed (clean w st) n = n.
Proof. unfold clean. apply renamed_update_names_idem. Qed.

Lemma root_name_app_l st1 st2 d2 j :
  db st1 = db st2 ++ d2 -> (forall n, In n d2 -> njob n <> j) -> root_name st1 j = root_name st2 j.
Proof.
  intros Hd H. unfold root_name. rewrite Hd, filter_app, (filter_none _ d2), app_nil_r; auto.
  intros x Hx. apply andb_false_iff. right. apply Pos.eqb_neq. apply H. exact Hx.
Qed.

(* ------------------------------------------------------------------------------------------ *)
(** * General facts about the cleaned store *)

Lemma assoc_clean_filter w st :
  assoc (clean w st) = filter (fun k => memp (snd k) (ids (db (clean w st)))) (assoc st).
Proof.
  rewrite assoc_clean. unfold prune_assoc. rewrite ids_clean_mid. apply filter_absorb.
  intros k Hk. apply memp_In. apply memp_In in Hk. unfold ids in *.
  apply in_map_iff in Hk as (m & Hid & Hm). apply window_exact in Hm as [Hm _].
  apply in_map_iff. exists m. auto.
Qed.

(** every trace that survives cleaning still touches the window (in the cleaned table) *)
Lemma clean_all_inwindow w st n : In n (db (clean w st)) -> InWindow w (clean w st) (njob n).
Proof.
  intros Hn. apply clean_exact' in Hn as (n0 & Hn0 & Hd & (m & Hm & Hj & Hw) & ->).
  exists (renamed st m). split.
  - apply clean_exact'. exists m. rewrite Hj. repeat split; auto. exists m. auto.
  - destruct (renamed_fields st m) as (_ & _ & E3 & _ & E5 & E6 & _).
    rewrite E3, E5, E6, renamed_njob. auto.
Qed.

(** with parent links confined to their trace, cleaning leaves no dangling trace behind *)
Lemma clean_no_dangling w st : TraceClosed st -> forall j, ~ Dangling (clean w st) j.
Proof.
  intros Htc j (c & p & Hc & Hj & Hp & Hn).
  rewrite assoc_clean_filter in Hp. apply filter_In in Hp as [Hp _].
  apply clean_exact' in Hc as (c0 & Hc0 & Hd & Hw & ->). rewrite renamed_nid in Hp.
  destruct (Htc p (nid c0) c0 Hp Hc0 eq_refl) as [Hm | (np & Hnp & Hid & Hjob)].
  - apply Hd. exists c0, p. auto.
  - apply Hn. apply in_ids_iff. exists (renamed st np). split; [|rewrite renamed_nid; exact Hid].
    apply clean_exact'. exists np. rewrite Hjob. auto.
Qed.

(** a store on which the three cleaning statements have nothing to do *)
Lemma clean_noop w st :
  (forall j, ~ Dangling st j) ->
  (forall n, In n (db st) -> InWindow w st (njob n)) ->
  (forall n, In n (db st) -> renamed st n = n) ->
  (forall p c, In (p, c) (assoc st) -> In c (ids (db st))) ->
  db (clean w st) = db st /\ assoc (clean w st) = assoc st.
Proof.
  intros Hnd Hw Hr Hs.
  assert (H1 : db (rm_inconsistent st) = db st) by (apply rm_inconsistent_noop; exact Hnd).
  assert (H2 : db (rm_outside w (rm_inconsistent st)) = db st).
  { rewrite (rm_outside_db_ext w _ _ H1). unfold rm_outside; cbn [db]. apply filter_all_true.
    intros n Hn. apply memp_In, window_jobs_In. apply Hw. exact Hn. }
  split.
  - rewrite clean_db, H2. rewrite <- (map_id (db st)) at 2. apply map_ext_in. exact Hr.
  - rewrite assoc_clean, H1, H2. unfold prune_assoc.
    assert (E : filter (fun k => memp (snd k) (ids (db st))) (assoc st) = assoc st).
    { apply filter_all_true. intros [p c] Hk. cbn [snd]. apply memp_In. apply (Hs p c Hk). }
    rewrite E. exact E.
Qed.

(* ------------------------------------------------------------------------------------------ *)
(** * Re-ingesting the same files into the cleaned store, then cleaning again *)

(** the store after ingesting files whose first occurrences are [F] into an empty database *)
Definition st_of (F : list node) : store := mkstore F (rels F) [].

(** the rows a re-ingestion adds to a store holding [db C]: the events of [F] not stored any more *)
Definition newp (C : store) (F : list node) : list node :=
  filter (fun n => negb (memp (nid n) (ids (db C)))) F.
Definition reing (C : store) (F : list node) (h : list (positive * positive * positive)) : store :=
  mkstore (db C ++ newp C F) (assoc C ++ rels (newp C F)) h.

Lemma st_of_files files : spec_ingest empty_store files = st_of (firsts [] files).
Proof. unfold spec_ingest. rewrite spec_new_firsts. reflexivity. Qed.

Lemma spec_ingest_reing S files C :
  db S = db C -> assoc S = assoc C ->
  spec_ingest S files = reing C (firsts [] files) (hashes S).
Proof. intros Hd Ha. unfold spec_ingest, spec_new, reing, newp. rewrite Hd, Ha. reflexivity. Qed.

Section Reingest.
  Variable F : list node.
  Variable w : Z * Z.
  Variable h : list (positive * positive * positive).
  Hypothesis HF : NoDup (ids F).

  Notation AA := (st_of F).
  Notation CC := (clean w (st_of F)).
  Notation NN := (newp (clean w (st_of F)) F).
  Notation TT := (reing (clean w (st_of F)) F h).

  (** the re-ingested table holds the same spans as the first ingestion, up to job names *)
  Lemma T_nodes (Q : positive -> positive -> Z -> Z -> Prop) :
    (exists c, In c (db TT) /\ Q (nid c) (njob c) (nst c) (nen c)) <->
    (exists c, In c F /\ Q (nid c) (njob c) (nst c) (nen c)).
  Proof.
    split.
    - intros (c & Hc & HQ). cbn [db reing] in Hc. apply in_app_iff in Hc as [Hc|Hc].
      + apply clean_exact' in Hc as (n & Hn & _ & _ & ->). cbn [db st_of] in Hn.
        exists n. split; auto.
        destruct (renamed_fields AA n) as (E1 & _ & E3 & _ & E5 & E6 & _).
        rewrite E1, E3, E5, E6 in HQ. exact HQ.
      + apply filter_In in Hc as [Hc _]. exists c. auto.
    - intros (c & Hc & HQ). destruct (memp (nid c) (ids (db CC))) eqn:E.
      + exists (renamed AA c). split.
        * cbn [db reing]. apply in_app_iff. left.
          apply memp_In, in_ids_iff in E. destruct E as (c' & Hc' & Hid).
          assert (Hc'' := Hc'). apply clean_exact' in Hc'' as (m & Hm & _ & _ & ->).
          cbn [db st_of] in Hm. rewrite renamed_nid in Hid.
          assert (m = c) as <- by (apply (NoDup_map_In_inj nid F); auto).
          exact Hc'.
        * destruct (renamed_fields AA c) as (E1 & _ & E3 & _ & E5 & E6 & _).
          rewrite E1, E3, E5, E6. exact HQ.
      + exists c. split; auto. cbn [db reing]. apply in_app_iff. right. apply filter_In.
        split; auto. rewrite E. reflexivity.
  Qed.

  Lemma T_ids i : In i (ids (db TT)) <-> In i (ids F).
  Proof. rewrite !in_ids_iff. exact (T_nodes (fun i' _ _ _ => i' = i)). Qed.

  Lemma T_assoc k : In k (assoc TT) <-> In k (rels F).
  Proof.
    cbn [assoc reing]. rewrite assoc_clean_filter. cbn [assoc st_of]. unfold newp.
    rewrite (rels_filter (fun i => negb (memp i (ids (db CC))))).
    rewrite in_app_iff, !filter_In. destruct (memp (snd k) (ids (db CC))); cbn [negb]; intuition congruence.
  Qed.

  Lemma T_dangling j : Dangling TT j <-> Dangling AA j.
  Proof.
    pose (Q := fun (i' j' : positive) (_ _ : Z) =>
                 j' = j /\ exists p, In (p, i') (rels F) /\ ~ In p (ids F)).
    split.
    - intros (c & p & Hc & Hj & Hp & Hn). apply T_assoc in Hp. rewrite T_ids in Hn.
      destruct (proj1 (T_nodes Q)) as (c0 & Hc0 & Hj0 & p0 & Hp0 & Hn0).
      { exists c. split; auto. split; auto. exists p. auto. }
      exists c0, p0. cbn [db assoc st_of]. auto.
    - intros (c & p & Hc & Hj & Hp & Hn). cbn [db assoc st_of] in Hc, Hp, Hn.
      destruct (proj2 (T_nodes Q)) as (c0 & Hc0 & Hj0 & p0 & Hp0 & Hn0).
      { exists c. split; auto. split; auto. exists p. auto. }
      exists c0, p0. rewrite T_assoc, T_ids. auto.
  Qed.

  Lemma T_inwindow w' j : InWindow w' TT j <-> InWindow w' AA j.
  Proof.
    exact (T_nodes (fun _ j' s e => j' = j /\ ((fst w' <= s <= snd w') \/ (fst w' <= e <= snd w')))).
  Qed.

  Lemma T_kept j : In j (kept_jobs w TT) <-> In j (kept_jobs w AA).
  Proof. rewrite !kept_jobs_In, T_inwindow, T_dangling. reflexivity. Qed.

  (** the added rows belong to traces that cleaning removed *)
  Lemma N_not_kept m : In m NN -> ~ In (njob m) (kept_jobs w AA).
  Proof.
    intros Hm Hk. apply filter_In in Hm as [Hm E]. apply negb_true_iff, memp_false in E.
    apply E. rewrite ids_clean_mid, <- restrict_kept_db. apply in_ids. unfold restrict; cbn [db st_of].
    apply filter_In. split; auto. apply memp_In. exact Hk.
  Qed.

  Lemma C_kept n : In n (db CC) -> In (njob n) (kept_jobs w AA).
  Proof. intros Hn. unfold kept_jobs. apply in_map. exact Hn. Qed.

  Lemma T_mid : db (rm_outside w (rm_inconsistent TT)) = db CC.
  Proof.
    rewrite <- restrict_kept_db. unfold restrict; cbn [db reing]. rewrite filter_app.
    rewrite (filter_all_true _ (db CC)), (filter_none _ NN), app_nil_r; auto.
    - intros n Hn. apply memp_false. rewrite T_kept. apply N_not_kept. exact Hn.
    - intros n Hn. apply memp_In. rewrite T_kept. apply C_kept. exact Hn.
  Qed.

  Theorem T_clean_db : db (clean w TT) = db CC.
  Proof.
    rewrite clean_db, T_mid. rewrite <- (map_id (db CC)) at 2. apply map_ext_in. intros n Hn.
    transitivity (renamed CC n); [|apply renamed_clean_idem; exact Hn].
    unfold renamed. rewrite (root_name_app_l TT CC NN (njob n)); auto.
    intros m Hm E. apply (N_not_kept m Hm). rewrite E. apply C_kept. exact Hn.
  Qed.

  Theorem T_clean_assoc : assoc (clean w TT) = assoc CC.
  Proof.
    rewrite assoc_clean_filter, T_clean_db. cbn [assoc reing]. rewrite filter_app.
    rewrite (filter_all_true _ (assoc CC)), (filter_none _ (rels NN)), app_nil_r; auto.
    - intros k Hk. apply memp_false. intros Hin. apply rels_child in Hk.
      apply in_ids_iff in Hk as (m & Hm & Hid). apply filter_In in Hm as [_ E].
      apply negb_true_iff, memp_false in E. apply E. rewrite Hid. exact Hin.
    - intros [p c] Hk. cbn [snd]. apply memp_In. apply (clean_no_stale w AA p c Hk).
  Qed.
End Reingest.

(* ------------------------------------------------------------------------------------------ *)
(** * One run *)

(** the phases after ingestion: cleaning, optional unique-graph selection, streaming *)
Definition post (bs : nat) (w : Z * Z) (st1 : store) (u : bool) : store * output :=
  let st2 := clean w st1 in
  if u then
    let rows := hashes_ct bs w st2 in
    let st3 := mkstore (db st2) (assoc st2) (hash_rows rows) in
    (st3, stream (sel_map (select_first [] rows)) [] st3)
  else (st2, stream [] [] st2).

Lemma run_ingest_eq bs buf files u s S st1 w :
  ingest bs S files = Some st1 ->
  window buf (fst (track files)) (snd (track files)) = Some w ->
  run bs buf files (mkflags true u s) S = Some (post bs w st1 u).
Proof.
  unfold run. cbn [f_ingest f_unique]. intros ->. destruct (track files) as [mn mx].
  cbn [fst snd]. intros ->. unfold post. destruct u; reflexivity.
Qed.

Lemma run_noingest_eq bs buf files u s S w :
  window buf int64_max 0 = Some w ->
  run bs buf files (mkflags false u s) S = Some (post bs w S u).
Proof.
  unfold run. cbn [f_ingest f_unique]. intros ->. unfold post. destruct u; reflexivity.
Qed.

(** the output of every run, as a function of the stable cleaned store and the -ug flag *)
Definition out_of (bs : nat) (w0 : Z * Z) (C : store) (u : bool) : output :=
  if u then stream (sel_map (select_first [] (hashes_ct bs w0 C))) [] C else stream [] [] C.

(** what every run leaves in the database file (job_hashes may differ and does not matter) *)
Definition Stable (C S : store) : Prop := db S = db C /\ assoc S = assoc C.

Lemma post_stable bs w w0 C st1 u :
  db (clean w st1) = db C -> assoc (clean w st1) = assoc C ->
  roots w (clean w st1) = roots w0 C ->
  snd (post bs w st1 u) = out_of bs w0 C u /\ Stable C (fst (post bs w st1 u)).
Proof.
  intros Hd Ha Hr. unfold post, out_of, Stable. cbv zeta. destruct u; cbn [fst snd db assoc].
  - split; [|split; assumption].
    rewrite (hashes_ct_ext bs w w0 (clean w st1) C Hd Hr). apply stream_ext; cbn [db assoc]; auto.
  - split; [|split; assumption]. apply stream_ext; auto.
Qed.

Section Runs.
  Variable bs : nat.
  Variable buf : Z.
  Variable files : list node.
  Variable w0 : Z * Z.
  Hypothesis Hw0 : window buf (fst (track files)) (snd (track files)) = Some w0.

  Notation FF := (firsts [] files).
  Notation C1 := (clean w0 (st_of (firsts [] files))).

  Lemma inv_C1 : inv_b C1 = true.
  Proof. apply clean_inv_b. rewrite <- st_of_files. apply ingest_inv. reflexivity. Qed.

  Lemma stable_inv S : Stable C1 S -> inv_b S = true.
  Proof. intros [Hd Ha]. rewrite (inv_b_ext S C1 Hd Ha). apply inv_C1. Qed.

  (** the first run, on the empty database *)
  Lemma run_first u s :
    exists S', run bs buf files (mkflags true u s) empty_store = Some (S', out_of bs w0 C1 u)
               /\ Stable C1 S'.
  Proof.
    rewrite (run_ingest_eq bs buf files u s empty_store _ w0
               (ingest_refines bs empty_store files eq_refl) Hw0).
    rewrite st_of_files.
    destruct (post_stable bs w0 w0 C1 (st_of FF) u eq_refl eq_refl eq_refl) as [H1 H2].
    exists (fst (post bs w0 (st_of FF) u)). split; auto.
    rewrite <- H1. rewrite <- surjective_pairing. reflexivity.
  Qed.

  (** a later run that ingests the same files again: only the first window is needed *)
  Lemma run_step_ingest u s S :
    Stable C1 S ->
    exists S', run bs buf files (mkflags true u s) S = Some (S', out_of bs w0 C1 u) /\ Stable C1 S'.
  Proof.
    intros HS. assert (Hinv := stable_inv S HS). destruct HS as [Hd Ha].
    rewrite (run_ingest_eq bs buf files u s S _ w0 (ingest_refines bs S files Hinv) Hw0).
    rewrite (spec_ingest_reing S files C1 Hd Ha).
    assert (HF : NoDup (ids FF)) by apply firsts_NoDup.
    assert (HTd := T_clean_db FF w0 (hashes S) HF).
    assert (HTa := T_clean_assoc FF w0 (hashes S) HF).
    destruct (post_stable bs w0 w0 C1 (reing C1 FF (hashes S)) u HTd HTa
                (roots_db_ext w0 _ _ HTd)) as [H1 H2].
    exists (fst (post bs w0 (reing C1 FF (hashes S)) u)). split; auto.
    rewrite <- H1. rewrite <- surjective_pairing. reflexivity.
  Qed.

  (** a later --no-ingest run: its default window must exist and be touched by every trace the
      first run kept, and parent links must not cross traces *)
  Variable wni : Z * Z.
  Hypothesis Hwni : window buf int64_max 0 = Some wni.
  Hypothesis Hcover : forall n, In n (db C1) -> InWindow wni C1 (njob n).
  Hypothesis Htc : TraceClosed (st_of (firsts [] files)).

  Lemma C1_inwindow_ni S n : db S = db C1 -> In n (db S) -> InWindow wni S (njob n).
  Proof.
    intros Hd Hn. apply (inwindow_db_ext wni C1 S); auto. apply Hcover. rewrite <- Hd. exact Hn.
  Qed.

  Lemma run_step_noingest u s S :
    Stable C1 S ->
    exists S', run bs buf files (mkflags false u s) S = Some (S', out_of bs w0 C1 u) /\ Stable C1 S'.
  Proof.
    intros [Hd Ha]. rewrite (run_noingest_eq bs buf files u s S wni Hwni).
    destruct (clean_noop wni S) as [Hcd Hca].
    - intros j HD. apply (clean_no_dangling w0 _ Htc j).
      apply (dangling_ext S C1 j Hd Ha HD).
    - intros n Hn. apply C1_inwindow_ni; auto.
    - intros n Hn. rewrite (renamed_db_ext S C1 n Hd). apply renamed_clean_idem.
      rewrite <- Hd. exact Hn.
    - intros p c Hk. rewrite Hd. rewrite Ha in Hk. apply (clean_no_stale w0 _ p c Hk).
    - rewrite Hd in Hcd. rewrite Ha in Hca.
      assert (Hr : roots wni (clean wni S) = roots w0 C1).
      { rewrite (roots_all wni (clean wni S)), (roots_all w0 C1), Hcd; auto.
        - intros n Hn. apply clean_all_inwindow. exact Hn.
        - intros n Hn. apply C1_inwindow_ni; auto. }
      destruct (post_stable bs wni w0 C1 S u Hcd Hca Hr) as [H1 H2].
      exists (fst (post bs wni S u)). split; auto.
      rewrite <- H1. rewrite <- surjective_pairing. reflexivity.
  Qed.

  Lemma run_step fl S :
    Stable C1 S ->
    exists S', run bs buf files fl S = Some (S', out_of bs w0 C1 (f_unique fl)) /\ Stable C1 S'.
  Proof.
    destruct fl as [[|] u s]; cbn [f_unique]; [apply run_step_ingest | apply run_step_noingest].
  Qed.
End Runs.

(* ------------------------------------------------------------------------------------------ *)
(** * Histories *)

Lemma history_stable bs buf files (P : flags -> Prop) (C : store) (out : bool -> output) :
  (forall fl S, P fl -> Stable C S ->
     exists S', run bs buf files fl S = Some (S', out (f_unique fl)) /\ Stable C S') ->
  forall h S, Forall P h -> Stable C S ->
    history bs buf files h S = map (fun fl => Some (out (f_unique fl))) h.
Proof.
  intros Hstep h. induction h as [|fl r IH]; intros S HP HS; cbn [history map]; auto.
  inversion HP as [|? ? Hfl Hr]; subst.
  destruct (Hstep fl S Hfl HS) as (S' & -> & HS'). f_equal. apply IH; assumption.
Qed.

Lemma outs_conclusion (h : list flags) (out : bool -> output) outs :
  outs = map (fun fl => Some (out (f_unique fl))) h ->
  Forall (fun o => o <> None) outs
  /\ forall i j fi fj (oi oj : option output),
       nth_error h i = Some fi -> nth_error h j = Some fj -> f_unique fi = f_unique fj ->
       nth_error outs i = Some oi -> nth_error outs j = Some oj -> oi = oj.
Proof.
  intros ->. split.
  - apply Forall_forall. intros o Ho. apply in_map_iff in Ho as (fl & <- & _). discriminate.
  - intros i j fi fj oi oj Hi Hj Hu Hoi Hoj.
    rewrite (map_nth_error _ i h Hi) in Hoi. rewrite (map_nth_error _ j h Hj) in Hoj.
    injection Hoi as <-. injection Hoj as <-. rewrite Hu. reflexivity.
Qed.

Lemma inwindow_mono w w' st j :
  fst w' <= fst w -> snd w <= snd w' -> InWindow w st j -> InWindow w' st j.
Proof. intros H1 H2 (n & Hn & Hj & Hw). exists n. split; auto. split; auto. lia. Qed.

(** With non-negative int64 timestamps the buffered window of an ingesting run lies inside the
    default window of a --no-ingest run, which therefore exists and is touched by every kept trace. *)
Lemma default_window_covers buf files w0 :
  window buf (fst (track files)) (snd (track files)) = Some w0 ->
  (forall n, In n files -> 0 <= nst n /\ nen n <= int64_max) ->
  exists wni, window buf int64_max 0 = Some wni /\ fst wni <= fst w0 /\ snd w0 <= snd wni.
Proof.
  intros Hw0 Hts. destruct w0 as [lo hi]. apply window_spec in Hw0 as (Hlo & Hhi & Hlt).
  destruct (track_spec files) as ((_ & _ & Hmn) & (_ & _ & Hmx)).
  assert (Hmin : 0 <= eff_min (fst (track files)) (snd (track files))).
  { unfold eff_min. destruct (snd (track files) <? fst (track files)); [lia|].
    destruct Hmn as [-> | (n & Hn & ->)]; [unfold int64_max; lia | apply (Hts n Hn)]. }
  assert (Hmax : eff_max (fst (track files)) (snd (track files)) <= int64_max).
  { unfold eff_max. destruct (snd (track files) <? fst (track files)); [lia|].
    destruct Hmx as [-> | (n & Hn & ->)]; [unfold int64_max; lia | apply (Hts n Hn)]. }
  exists (buf * 60 * 1000000000, int64_max - buf * 60 * 1000000000). split.
  - apply window_spec. unfold eff_min, eff_max. change (0 <? int64_max) with true. cbv iota. lia.
  - cbn [fst snd]. lia.
Qed.

(** Hypotheses of the main theorem:
    - the first run's time window exists (otherwise the first run already dies with ValueError);
    - timestamps are non-negative signed 64-bit integers (what the INTEGER columns hold);
    - parent links stay inside their own trace, or dangle.
    The last two are used for --no-ingest runs only ([runs_repeatable_reingest]).  No condition on
    the batch size (0 included), on the number of root spans per trace or on duplicated events in
    the files is needed. *)
Definition Good (buf : Z) (files : list node) : Prop :=
  (exists w0, window buf (fst (track files)) (snd (track files)) = Some w0)
  /\ (forall n, In n files -> 0 <= nst n /\ nen n <= int64_max)
  /\ TraceClosed (spec_ingest empty_store files).

Lemma good_step bs buf files w0 :
  Good buf files -> window buf (fst (track files)) (snd (track files)) = Some w0 ->
  forall fl S, Stable (clean w0 (st_of (firsts [] files))) S ->
    exists S', run bs buf files fl S
               = Some (S', out_of bs w0 (clean w0 (st_of (firsts [] files))) (f_unique fl))
               /\ Stable (clean w0 (st_of (firsts [] files))) S'.
Proof.
  intros (_ & Hts & Htc) Hw0. rewrite st_of_files in Htc.
  destruct (default_window_covers buf files w0 Hw0 Hts) as (wni & Hwni & H1 & H2).
  apply (run_step bs buf files w0 Hw0 wni Hwni); auto.
  intros n Hn. apply (inwindow_mono w0 wni); auto. apply clean_all_inwindow. exact Hn.
Qed.

Theorem runs_repeatable : forall bs buf files, Good buf files ->
  forall u1 s1 (h : list flags),
    let first := mkflags true u1 s1 in
    let outs := history bs buf files (first :: h) empty_store in
    Forall (fun o => o <> None) outs
    /\ forall i j fi fj (oi oj : option output),
         nth_error (first :: h) i = Some fi -> nth_error (first :: h) j = Some fj ->
         f_unique fi = f_unique fj ->
         nth_error outs i = Some oi -> nth_error outs j = Some oj -> oi = oj.
Proof.
  intros bs buf files HG u1 s1 h first outs. assert (HG' := HG). destruct HG' as ((w0 & Hw0) & _).
  apply (outs_conclusion (first :: h) (out_of bs w0 (clean w0 (st_of (firsts [] files))))).
  subst outs first. cbn [history map f_unique].
  destruct (run_first bs buf files w0 Hw0 u1 s1) as (S' & -> & HS'). f_equal.
  apply (history_stable bs buf files (fun _ => True) (clean w0 (st_of (firsts [] files)))); auto.
  - intros fl S _ HS. apply (good_step bs buf files w0 HG Hw0 fl S HS).
  - apply Forall_forall. auto.
Qed.

(** Histories in which every run ingests the configured files again need the first window only:
    neither the timestamp range nor [TraceClosed]. *)
Theorem runs_repeatable_reingest : forall bs buf files,
  (exists w0, window buf (fst (track files)) (snd (track files)) = Some w0) ->
  forall u1 s1 (h : list flags), Forall (fun fl => f_ingest fl = true) h ->
    let first := mkflags true u1 s1 in
    let outs := history bs buf files (first :: h) empty_store in
    Forall (fun o => o <> None) outs
    /\ forall i j fi fj (oi oj : option output),
         nth_error (first :: h) i = Some fi -> nth_error (first :: h) j = Some fj ->
         f_unique fi = f_unique fj ->
         nth_error outs i = Some oi -> nth_error outs j = Some oj -> oi = oj.
Proof.
  intros bs buf files (w0 & Hw0) u1 s1 h Hh first outs.
  apply (outs_conclusion (first :: h) (out_of bs w0 (clean w0 (st_of (firsts [] files))))).
  subst outs first. cbn [history map f_unique].
  destruct (run_first bs buf files w0 Hw0 u1 s1) as (S' & -> & HS'). f_equal.
  apply (history_stable bs buf files (fun fl => f_ingest fl = true)
           (clean w0 (st_of (firsts [] files)))); auto.
  intros [i u s] S Hi HS. cbn [f_ingest] in Hi. subst i. cbn [f_unique].
  apply (run_step_ingest bs buf files w0 Hw0 u s S HS).
Qed.

(** the database file after any history: the same nodes and association rows as after run 1 *)
Theorem runs_store_stable : forall bs buf files, Good buf files ->
  forall fl S w0, window buf (fst (track files)) (snd (track files)) = Some w0 ->
    Stable (clean w0 (spec_ingest empty_store files)) S ->
    exists S', run bs buf files fl S
               = Some (S', out_of bs w0 (clean w0 (spec_ingest empty_store files)) (f_unique fl))
               /\ Stable (clean w0 (spec_ingest empty_store files)) S'.
Proof.
  intros bs buf files HG fl S w0 Hw0. rewrite st_of_files.
  apply (good_step bs buf files w0 HG Hw0).
Qed.

(* ------------------------------------------------------------------------------------------ *)
(** * The pinned tree ([run_v0]): an earlier run makes a later run fail *)

(** seconds after 2023-11-14T22:13:20Z, in nanoseconds since the epoch *)
Definition ns (x : Z) : Z := 1700000000000000000 + x * 1000000000.

(** the event ids streamed, per workflow and trace (a readable digest of an [output]) *)
Definition out_ids (o : output) : list (positive * list (list positive)) :=
  map (fun p => (fst p, map (fun t => map (fun e => nid (fst e)) t) (snd p))) o.

(** one complete trace: root 1 with child 2 *)
Definition files_hashes : list node :=
  [ mknode 1 None 1 1 1 (ns 0) (ns 1) 1; mknode 2 (Some 1%positive) 1 1 2 (ns 0) (ns 1) 1 ].

(** second -ug run over the same file: job_hashes still holds trace 1, the INSERT violates
    UNIQUE(job_hashes.job_id) and the run dies; the repaired run empties the table first *)
Example runs_v0_refuted_hashes :
  let h := [mkflags true true true; mkflags false true true] in
  (exists o, history_v0 10 0 files_hashes h empty_store = [Some o; None])
  /\ (exists o, history 10 0 files_hashes h empty_store = [Some o; Some o]
                /\ out_ids o = [(1, [[2; 1]])]%positive).
Proof.
  split.
  - eexists. vm_compute. reflexivity.
  - eexists. split; vm_compute; reflexivity.
Qed.

(** a complete trace (1) and a trace (2) whose span 4 has a parent that is in no file *)
Definition files_assoc : list node :=
  [ mknode 1 None 1 1 1 (ns 0) (ns 1) 1; mknode 2 (Some 1%positive) 1 1 2 (ns 0) (ns 1) 1;
    mknode 3 None 2 1 1 (ns 2) (ns 3) 1; mknode 4 (Some 99%positive) 2 1 2 (ns 2) (ns 3) 1 ].

(** the first run deletes trace 2 but (pinned tree) leaves its association row (99,4) behind;
    re-ingesting the same files inserts span 4 again and then its association row: PRIMARY KEY
    violation in the second transaction, DetachedInstanceError in the fallback, the run dies *)
Example runs_v0_refuted_assoc :
  let h := [mkflags true false true; mkflags true false true] in
  (exists o, history_v0 10 0 files_assoc h empty_store = [Some o; None])
  /\ (exists o, history 10 0 files_assoc h empty_store = [Some o; Some o]
                /\ out_ids o = [(1, [[2; 1]])]%positive).
Proof.
  split.
  - eexists. vm_compute. reflexivity.
  - eexists. split; vm_compute; reflexivity.
Qed.

(* ------------------------------------------------------------------------------------------ *)
(** * Non-vacuity *)

(** buffer 1 minute.  Trace 1: complete, the child carries another workflow name (2) than the root;
    trace 2: span 4 has a parent (99) that is in no file; trace 3: before the buffered window;
    trace 4: complete, same workflow and shape as trace 1; trace 5: another workflow, depth 3;
    trace 6: after the buffered window; the last event repeats event 2. *)
Definition files_good : list node :=
  [ mknode 1 None 1 1 1 (ns 100) (ns 110) 1; mknode 2 (Some 1%positive) 1 2 2 (ns 101) (ns 105) 1;
    mknode 3 None 2 1 1 (ns 100) (ns 110) 1; mknode 4 (Some 99%positive) 2 1 2 (ns 101) (ns 105) 1;
    mknode 5 None 3 1 1 (ns 0) (ns 1) 1;
    mknode 6 None 4 1 1 (ns 150) (ns 160) 1; mknode 7 (Some 6%positive) 4 1 2 (ns 151) (ns 155) 1;
    mknode 8 None 5 3 1 (ns 200) (ns 210) 1; mknode 9 (Some 8%positive) 5 3 2 (ns 201) (ns 205) 1;
    mknode 10 (Some 9%positive) 5 3 3 (ns 202) (ns 203) 1;
    mknode 11 None 6 1 1 (ns 300) (ns 301) 1;
    mknode 2 (Some 1%positive) 1 2 2 (ns 101) (ns 105) 1 ].

Example good_witness : Good 1 files_good.
Proof.
  split; [|split].
  - eexists. vm_compute. reflexivity.
  - intros n Hn. rewrite <- Z.leb_le, <- (Z.leb_le (nen n)), <- andb_true_iff. revert n Hn.
    apply forallb_forall. vm_compute. reflexivity.
  - apply trace_closedb_sound. vm_compute. reflexivity.
Qed.

Example good_windows :
  window 1 (fst (track files_good)) (snd (track files_good)) = Some (ns 60, ns 241)
  /\ window 1 int64_max 0 = Some (60000000000, 9223371976854775807).
Proof. split; vm_compute; reflexivity. Qed.

(** -ug first run, --no-ingest re-run, re-ingesting re-run, --no-ingest -ug re-run (batch size 2):
    all complete; runs 1 and 4 stream the selected traces 1 and 5, runs 2 and 3 the kept traces
    1, 4 and 5 (trace 1's child renamed to the root's workflow) *)
Example good_history :
  exists ou on,
    history 2 1 files_good
      [mkflags true true true; mkflags false false true; mkflags true false false;
       mkflags false true true] empty_store
    = [Some ou; Some on; Some on; Some ou]
    /\ out_ids ou = [(1, [[2; 1]]); (3, [[10; 9; 8]])]%positive
    /\ out_ids on = [(1, [[2; 1]; [7; 6]]); (3, [[10; 9; 8]])]%positive.
Proof. eexists. eexists. split; [|split]; vm_compute; reflexivity. Qed.

(** the theorem applied to the witness *)
Example good_history_repeatable :
  forall bs u1 s1 h,
    Forall (fun o => o <> None) (history bs 1 files_good (mkflags true u1 s1 :: h) empty_store).
Proof. intros bs u1 s1 h. apply (runs_repeatable bs 1 files_good good_witness u1 s1 h). Qed.

(* ------------------------------------------------------------------------------------------ *)
(** * Why [TraceClosed] is needed for --no-ingest re-runs *)

(** span 1 (trace 1, inside the buffered window) has its parent, span 2, in trace 2, which lies
    before the window; trace 3 only widens the window. *)
Definition files_cross : list node :=
  [ mknode 1 (Some 2%positive) 1 1 1 (ns 100) (ns 101) 1; mknode 2 None 2 1 1 (ns 0) (ns 1) 1;
    mknode 3 None 3 1 1 (ns 300) (ns 301) 1 ].

(** The ingesting run keeps trace 1: when remove_inconsistent_jobs runs, span 2 is still stored;
    the window then deletes trace 2.  A --no-ingest re-run sees the association row (2,1) with a
    missing parent and deletes trace 1: it completes, but streams nothing.  Re-ingesting brings
    trace 1 back.  All other hypotheses of [Good] hold. *)
Example cross_trace_parent_breaks_repeatability :
  (exists w0, window 1 (fst (track files_cross)) (snd (track files_cross)) = Some w0)
  /\ (forall n, In n files_cross -> 0 <= nst n /\ nen n <= int64_max)
  /\ ~ TraceClosed (spec_ingest empty_store files_cross)
  /\ ~ Good 1 files_cross
  /\ exists o,
       history 10 1 files_cross
         [mkflags true false true; mkflags false false true; mkflags true false true] empty_store
       = [Some o; Some []; Some o]
       /\ out_ids o = [(1, [[1]])]%positive.
Proof.
  assert (Hh : exists o,
       history 10 1 files_cross
         [mkflags true false true; mkflags false false true; mkflags true false true] empty_store
       = [Some o; Some []; Some o]
       /\ out_ids o = [(1, [[1]])]%positive).
  { eexists. split; vm_compute; reflexivity. }
  assert (Hw : exists w0, window 1 (fst (track files_cross)) (snd (track files_cross)) = Some w0).
  { eexists. vm_compute. reflexivity. }
  assert (Hn : forall n, In n files_cross -> 0 <= nst n /\ nen n <= int64_max).
  { intros n Hn. rewrite <- Z.leb_le, <- (Z.leb_le (nen n)), <- andb_true_iff. revert n Hn.
    apply forallb_forall. vm_compute. reflexivity. }
  assert (Hng : ~ Good 1 files_cross).
  { intros HG. destruct Hh as (o & Hh & Ho).
    destruct (runs_repeatable 10 1 files_cross HG false true
                [mkflags false false true; mkflags true false true]) as [_ Hb].
    cbv zeta in Hb. rewrite Hh in Hb.
    specialize (Hb 0%nat 1%nat _ _ (Some o) (Some []) eq_refl eq_refl eq_refl eq_refl eq_refl).
    injection Hb as Hb. rewrite Hb in Ho. vm_compute in Ho. discriminate. }
  split; [exact Hw|]. split; [exact Hn|]. split; [|split; [exact Hng | exact Hh]].
  intros Htc. apply Hng. split; [exact Hw|]. split; [exact Hn | exact Htc].
Qed.

(* ------------------------------------------------------------------------------------------ *)
(** * Why non-negative timestamps are needed for --no-ingest re-runs *)

(** buffer 0; trace 1 lies before the epoch.  The ingesting run's window is [min, max] of the
    files and keeps it; the default window [0, int64_max] of a --no-ingest run does not contain
    any of its timestamps, so the re-run deletes the trace. *)
Definition files_neg : list node :=
  [ mknode 1 None 1 1 1 (-20) (-10) 1; mknode 2 None 2 1 1 (ns 0) (ns 1) 1 ].

Example negative_timestamps_break_repeatability :
  (exists w0, window 0 (fst (track files_neg)) (snd (track files_neg)) = Some w0)
  /\ TraceClosed (spec_ingest empty_store files_neg)
  /\ exists o1 o2,
       history 10 0 files_neg
         [mkflags true false true; mkflags false false true; mkflags true false true] empty_store
       = [Some o1; Some o2; Some o1]
       /\ out_ids o1 = [(1, [[1]; [2]])]%positive /\ out_ids o2 = [(1, [[2]])]%positive.
Proof.
  split; [eexists; vm_compute; reflexivity|].
  split; [apply trace_closedb_sound; vm_compute; reflexivity|].
  eexists. eexists. split; [|split]; vm_compute; reflexivity.
Qed.
