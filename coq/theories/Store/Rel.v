(** The relational store behind SQLDataHolder: tables [nodes], [NODE_ASSOCIATION], [job_hashes].
    Strings are interned as [positive] by the harness; workflow names and trace ids are interned
    order-preservingly (rank in byte order) so that ORDER BY is [Pos.compare].  No proofs here. *)
From Coq Require Import ZArith List Bool.
Import ListNotations.
Open Scope Z_scope.

Record node := mknode {
  nid : positive;            (* event_id, UNIQUE *)
  npar : option positive;    (* parent_event_id *)
  njob : positive;           (* job_id (trace id) *)
  nname : positive;          (* job_name (workflow) *)
  nty : positive;            (* event_type *)
  nst : Z; nen : Z;          (* start/end timestamps *)
  napp : positive            (* application_name *)
}.

(** [db] is the nodes table in rowid order, [assoc] the association table in rowid order,
    [hashes] the job_hashes table: (job_id, job_name, hash). *)
Record store := mkstore {
  db : list node;
  assoc : list (positive * positive);       (* (parent_id, child_id), PRIMARY KEY (parent, child) *)
  hashes : list (positive * positive * positive)
}.

Definition ids (l : list node) : list positive := map nid l.

Fixpoint memp (k : positive) (l : list positive) : bool :=
  match l with [] => false | x :: r => Pos.eqb k x || memp k r end.

Definition pair_eqb (a b : positive * positive) : bool :=
  Pos.eqb (fst a) (fst b) && Pos.eqb (snd a) (snd b).
Fixpoint mempair (k : positive * positive) (l : list (positive * positive)) : bool :=
  match l with [] => false | x :: r => pair_eqb k x || mempair k r end.

Fixpoint nodupb (l : list positive) : bool :=
  match l with [] => true | x :: r => negb (memp x r) && nodupb r end.
Fixpoint nodup_pairb (l : list (positive * positive)) : bool :=
  match l with [] => true | x :: r => negb (mempair x r) && nodup_pairb r end.

Definition opt_eqb (a b : option positive) : bool :=
  match a, b with Some x, Some y => Pos.eqb x y | None, None => true | _, _ => false end.

Definition node_eqb (a b : node) : bool :=
  Pos.eqb (nid a) (nid b) && opt_eqb (npar a) (npar b) && Pos.eqb (njob a) (njob b)
  && Pos.eqb (nname a) (nname b) && Pos.eqb (nty a) (nty b) && Z.eqb (nst a) (nst b)
  && Z.eqb (nen a) (nen b) && Pos.eqb (napp a) (napp b).

Fixpoint list_eqb {A} (eqb : A -> A -> bool) (a b : list A) : bool :=
  match a, b with
  | [], [] => true
  | x :: a', y :: b' => eqb x y && list_eqb eqb a' b'
  | _, _ => false
  end.

Definition idx {A} (f : A -> bool) (l : list A) : list nat :=
  map fst (filter (fun p => negb (f (snd p))) (combine (seq 0 (length l)) l)).
