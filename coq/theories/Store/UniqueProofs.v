(** Proofs about the find_unique_graphs model (Store/Unique.v, Store/UniqueSpec.v) for C09. *)
From Coq Require Import ZArith List Bool Lia Permutation Sorted.
From V Require Import Store.Rel Store.Clean Store.Unique Store.UniqueSpec.
Import ListNotations.

(** * Induction principles for the nested tree types *)

Lemma ltree_ind' (P : ltree -> Prop)
  (H : forall i ty ks, Forall P ks -> P (LT i ty ks)) : forall t, P t.
Proof.
  fix IH 1. intros [i ty ks]. apply H.
  induction ks as [|k ks IHks]; constructor; [apply IH | exact IHks].
Qed.

Lemma ctree_ind' (P : ctree -> Prop)
  (H : forall ty ks, Forall P ks -> P (CT ty ks)) : forall t, P t.
Proof.
  fix IH 1. intros [ty ks]. apply H.
  induction ks as [|k ks IHks]; constructor; [apply IH | exact IHks].
Qed.

(** * Target 1: the generic digest theorem *)

Section DigestProofs.
  Variable D : Type.
  Variable dleb : D -> D -> bool.
  Variable X : positive -> list D -> D.
  Hypothesis dleb_total : forall a b, dleb a b = true \/ dleb b a = true.
  Hypothesis dleb_antisym : forall a b, dleb a b = true -> dleb b a = true -> a = b.
  Hypothesis dleb_trans : forall a b c, dleb a b = true -> dleb b c = true -> dleb a c = true.
  Hypothesis X_inj : forall t1 l1 t2 l2, X t1 l1 = X t2 l2 -> t1 = t2 /\ l1 = l2.

  Notation dins := (dins D dleb).
  Notation dsort := (dsort D dleb).
  Notation thash := (thash D dleb X).
  Let le (a b : D) : Prop := dleb a b = true.

  Lemma dins_perm x l : Permutation (dins x l) (x :: l).
  Proof.
    induction l as [|y r IH]; simpl; [apply Permutation_refl|].
    destruct (dleb x y) eqn:E; [apply Permutation_refl|].
    eapply perm_trans; [apply perm_skip, IH | apply perm_swap].
  Qed.

  Lemma dsort_perm l : Permutation (dsort l) l.
  Proof.
    induction l as [|x l IH]; simpl; [constructor|].
    eapply perm_trans; [apply dins_perm | apply perm_skip, IH].
  Qed.

  Lemma dins_sorted x l : StronglySorted le l -> StronglySorted le (dins x l).
  Proof.
    induction l as [|y r IH]; intros Hs; simpl.
    - constructor; constructor.
    - inversion Hs as [|y' r' Hr Hy]; subst.
      destruct (dleb x y) eqn:E.
      + constructor; [exact Hs|]. constructor; [exact E|].
        eapply Forall_impl; [|exact Hy]. intros a Ha. exact (dleb_trans _ _ _ E Ha).
      + constructor; [apply IH, Hr|].
        assert (Hyx : le y x) by (destruct (dleb_total x y) as [H|H]; [congruence | exact H]).
        eapply Permutation_Forall; [apply Permutation_sym, dins_perm|].
        constructor; assumption.
  Qed.

  Lemma dsort_sorted l : StronglySorted le (dsort l).
  Proof.
    induction l as [|x l IH]; simpl; [constructor | apply dins_sorted, IH].
  Qed.

  Lemma sorted_perm_eq l1 : forall l2,
    StronglySorted le l1 -> StronglySorted le l2 -> Permutation l1 l2 -> l1 = l2.
  Proof.
    induction l1 as [|a l1 IH]; intros l2 H1 H2 Hp.
    - apply Permutation_nil in Hp. congruence.
    - destruct l2 as [|b l2]; [apply Permutation_sym, Permutation_nil in Hp; discriminate|].
      inversion H1 as [|a' l1' Hs1 Ha]; subst. inversion H2 as [|b' l2' Hs2 Hb]; subst.
      assert (Hab : a = b).
      { assert (Hin1 : In a (b :: l2)) by (eapply Permutation_in; [exact Hp | left; reflexivity]).
        assert (Hin2 : In b (a :: l1))
          by (eapply Permutation_in; [apply Permutation_sym, Hp | left; reflexivity]).
        destruct Hin1 as [E|Hin1]; [congruence|].
        destruct Hin2 as [E|Hin2]; [congruence|].
        rewrite Forall_forall in Ha, Hb. apply dleb_antisym; [apply Ha, Hin2 | apply Hb, Hin1]. }
      subst b. f_equal. apply IH; try assumption. eapply Permutation_cons_inv, Hp.
  Qed.

  (** the sort is canonical *)
  Lemma dsort_canon l l' : Permutation l l' -> dsort l = dsort l'.
  Proof.
    intros Hp. apply sorted_perm_eq; try apply dsort_sorted.
    eapply perm_trans; [apply dsort_perm|].
    eapply perm_trans; [exact Hp | apply Permutation_sym, dsort_perm].
  Qed.

  Lemma dsort_eq_perm l l' : dsort l = dsort l' -> Permutation l l'.
  Proof.
    intros E. eapply perm_trans; [apply Permutation_sym, dsort_perm|]. rewrite E. apply dsort_perm.
  Qed.

  Lemma iso_hash : forall a b, TreeIso a b -> thash a = thash b.
  Proof.
    induction a as [i ty ks IH] using ltree_ind'. intros b Hiso.
    inversion Hiso as [i0 i' ty0 ks0 ks' ks'' Hp Hf]; subst. simpl. f_equal.
    assert (E : map thash ks = map thash ks'').
    { clear Hiso Hp. revert ks'' Hf. induction IH as [|k ks Hk _ IHks]; intros ks'' Hf.
      - inversion Hf; reflexivity.
      - inversion Hf as [|k0 k'' ks0 ks1 Hkk Hrest]; subst. simpl. f_equal; [apply Hk, Hkk | apply IHks, Hrest]. }
    rewrite E. apply dsort_canon, Permutation_map, Permutation_sym, Hp.
  Qed.

  Lemma hash_iso : forall a b, thash a = thash b -> TreeIso a b.
  Proof.
    induction a as [i ty ks IH] using ltree_ind'. intros [i' ty' ks'] E. simpl in E.
    apply X_inj in E. destruct E as [Ety Es]. subst ty'.
    apply dsort_eq_perm in Es.
    apply Permutation_map_inv in Es. destruct Es as [ks'' [Em Hp]].
    apply iso_node with (ks'' := ks''); [exact Hp|].
    clear Hp. revert ks'' Em. induction IH as [|k ks Hk _ IHks]; intros ks'' Em.
    - destruct ks''; [constructor | discriminate].
    - destruct ks'' as [|k'' ks'']; [discriminate|]. simpl in Em. inversion Em as [[E1 E2]].
      constructor; [apply Hk, E1 | apply IHks, E2].
  Qed.

  Theorem hash_eq_iff : forall a b, thash a = thash b <-> TreeIso a b.
  Proof. intros a b; split; [apply hash_iso | apply iso_hash]. Qed.
End DigestProofs.

(** * Target 2: the executable instance [ctree], [ct_leb], [CT] *)

Lemma ct_cmp_unfold ta ka tb kb :
  ct_cmp (CT ta ka) (CT tb kb) = match Pos.compare ta tb with Eq => lexc ka kb | c => c end.
Proof.
  reflexivity.
Qed.

Lemma ct_cmp_eq : forall a b, ct_cmp a b = Eq -> a = b.
Proof.
  induction a as [ta ka IH] using ctree_ind'. intros [tb kb] E.
  rewrite ct_cmp_unfold in E. destruct (Pos.compare ta tb) eqn:Et; try discriminate.
  apply Pos.compare_eq in Et. subst tb. f_equal.
  revert kb E. induction IH as [|p ka Hp _ IHka]; intros [|q kb] E; simpl in E; try discriminate.
  - reflexivity.
  - destruct (ct_cmp p q) eqn:Epq; try discriminate.
    f_equal; [apply Hp, Epq | apply IHka, E].
Qed.

Lemma ct_cmp_refl : forall a, ct_cmp a a = Eq.
Proof.
  induction a as [ta ka IH] using ctree_ind'.
  rewrite ct_cmp_unfold, Pos.compare_refl.
  induction IH as [|p ka Hp _ IHka]; simpl; [reflexivity|]. rewrite Hp. exact IHka.
Qed.

Lemma ct_cmp_opp : forall a b, ct_cmp b a = CompOpp (ct_cmp a b).
Proof.
  induction a as [ta ka IH] using ctree_ind'. intros [tb kb].
  rewrite !ct_cmp_unfold. rewrite (Pos.compare_antisym ta tb).
  destruct (Pos.compare ta tb); simpl; try reflexivity.
  revert kb. induction IH as [|p ka Hp _ IHka]; intros [|q kb]; simpl; try reflexivity.
  rewrite (Hp q). destruct (ct_cmp p q); simpl; try reflexivity. apply IHka.
Qed.

Lemma ct_cmp_lt_trans : forall a b c, ct_cmp a b = Lt -> ct_cmp b c = Lt -> ct_cmp a c = Lt.
Proof.
  induction a as [ta ka IH] using ctree_ind'. intros [tb kb] [tc kc].
  rewrite !ct_cmp_unfold.
  destruct (Pos.compare ta tb) eqn:Eab; try discriminate.
  - apply Pos.compare_eq in Eab. subst tb.
    destruct (Pos.compare ta tc) eqn:Eac; try discriminate; [|reflexivity].
    revert kb kc. induction IH as [|p ka Hp _ IHka]; intros [|q kb] [|r kc]; simpl;
      try discriminate; try reflexivity.
    destruct (ct_cmp p q) eqn:Epq; try discriminate.
    + apply ct_cmp_eq in Epq. subst q. destruct (ct_cmp p r); try discriminate; [|reflexivity].
      apply IHka.
    + intros _. destruct (ct_cmp q r) eqn:Eqr; try discriminate.
      * apply ct_cmp_eq in Eqr. subst r. rewrite Epq. reflexivity.
      * intros _. rewrite (Hp q r Epq Eqr). reflexivity.
  - intros _. destruct (Pos.compare tb tc) eqn:Ebc; try discriminate.
    + apply Pos.compare_eq in Ebc. subst tc. rewrite Eab. reflexivity.
    + intros _. rewrite Pos.compare_lt_iff in *. 
      assert (H : (ta < tc)%positive) by (eapply Pos.lt_trans; eassumption).
      rewrite <- Pos.compare_lt_iff in H. rewrite H. reflexivity.
Qed.

Lemma ct_eqb_eq a b : ct_eqb a b = true <-> a = b.
Proof.
  unfold ct_eqb. split.
  - destruct (ct_cmp a b) eqn:E; try discriminate. intros _. apply ct_cmp_eq, E.
  - intros ->. rewrite ct_cmp_refl. reflexivity.
Qed.

Lemma ct_leb_total a b : ct_leb a b = true \/ ct_leb b a = true.
Proof.
  unfold ct_leb. rewrite (ct_cmp_opp a b). destruct (ct_cmp a b); simpl; auto.
Qed.

Lemma ct_leb_antisym a b : ct_leb a b = true -> ct_leb b a = true -> a = b.
Proof.
  unfold ct_leb. rewrite (ct_cmp_opp a b). destruct (ct_cmp a b) eqn:E; simpl; try discriminate.
  intros _ _. apply ct_cmp_eq, E.
Qed.

Lemma ct_leb_trans a b c : ct_leb a b = true -> ct_leb b c = true -> ct_leb a c = true.
Proof.
  unfold ct_leb. destruct (ct_cmp a b) eqn:Eab; try discriminate; intros _.
  - apply ct_cmp_eq in Eab. subst b. auto.
  - destruct (ct_cmp b c) eqn:Ebc; try discriminate; intros _.
    + apply ct_cmp_eq in Ebc. subst c. rewrite Eab. reflexivity.
    + rewrite (ct_cmp_lt_trans a b c Eab Ebc). reflexivity.
Qed.

Lemma CT_inj : forall t1 l1 t2 l2, CT t1 l1 = CT t2 l2 -> t1 = t2 /\ l1 = l2.
Proof. intros t1 l1 t2 l2 E. inversion E. auto. Qed.

Theorem canon_iso : forall a b, canon a = canon b <-> TreeIso a b.
Proof.
  apply (hash_eq_iff ctree ct_leb CT ct_leb_total ct_leb_antisym ct_leb_trans CT_inj).
Qed.

(** consequences: [TreeIso] is an equivalence relation, and decidable via [ct_eqb] *)
Lemma TreeIso_refl a : TreeIso a a.
Proof. apply canon_iso. reflexivity. Qed.
Lemma TreeIso_sym a b : TreeIso a b -> TreeIso b a.
Proof. rewrite <- !canon_iso. auto. Qed.
Lemma TreeIso_trans a b c : TreeIso a b -> TreeIso b c -> TreeIso a c.
Proof. rewrite <- !canon_iso. congruence. Qed.
Lemma ct_eqb_iso a b : ct_eqb (canon a) (canon b) = true <-> TreeIso a b.
Proof. rewrite ct_eqb_eq. apply canon_iso. Qed.

(** * Target 5: the GROUP BY selection *)

Lemma select_first_rows seen l : select_first seen l = map rproj (select_rows seen l).
Proof.
  revert seen. induction l as [|r rest IH]; intros seen; simpl; [reflexivity|].
  destruct (existsb (same_group r) seen); simpl; rewrite IH; reflexivity.
Qed.

Lemma same_group_key a b : same_group a b = true -> rkey a = rkey b.
Proof.
  destruct a as [[ja na] da], b as [[jb nb] db]. unfold same_group, rkey; simpl.
  rewrite andb_true_iff, Pos.eqb_eq. intros [En Ed]. subst nb.
  destruct da as [x|], db as [y|]; try discriminate. apply ct_eqb_eq in Ed. subst y. reflexivity.
Qed.

Lemma same_group_key_l a b x : rkey a = rkey b -> same_group a x = same_group b x.
Proof.
  destruct a as [[ja na] da], b as [[jb nb] db]. unfold same_group, rkey; simpl.
  intros E. inversion E. reflexivity.
Qed.

Lemma same_group_key_r a b x : rkey a = rkey b -> same_group x a = same_group x b.
Proof.
  destruct a as [[ja na] da], b as [[jb nb] db]. unfold same_group, rkey; simpl.
  intros E. inversion E. reflexivity.
Qed.

Lemma same_group_refl j n c : same_group (j, n, Some c) (j, n, Some c) = true.
Proof.
  unfold same_group; simpl. rewrite Pos.eqb_refl. simpl. apply ct_eqb_eq. reflexivity.
Qed.

Lemma same_group_iff a b :
  same_group a b = true <-> rkey a = rkey b /\ snd a <> None.
Proof.
  split.
  - intros H. split; [apply same_group_key, H|].
    destruct a as [[ja na] [x|]]; [discriminate|]. unfold same_group in H; simpl in H.
    rewrite andb_false_r in H. discriminate.
  - intros [E Hn]. rewrite <- (same_group_key_r _ _ a E).
    destruct a as [[ja na] [x|]]; [apply same_group_refl | exfalso; apply Hn; reflexivity].
Qed.

Lemma existsb_same_group_ext a b l :
  same_group a b = true -> existsb (same_group a) l = existsb (same_group b) l.
Proof.
  intros H. apply same_group_key in H.
  induction l as [|x l IH]; simpl; [reflexivity|]. rewrite IH, (same_group_key_l a b x H). reflexivity.
Qed.

Lemma select_rows_incl seen l : incl (select_rows seen l) l.
Proof.
  revert seen. induction l as [|r rest IH]; intros seen; simpl; [apply incl_refl|].
  destruct (existsb (same_group r) seen).
  - apply incl_tl, IH.
  - apply incl_cons; [left; reflexivity | apply incl_tl, IH].
Qed.

(** the counting lemma: how many selected rows fall in the group of an arbitrary row [r] *)
Lemma select_rows_count r : forall l seen,
  length (filter (same_group r) (select_rows seen l)) =
  if existsb (same_group r) seen then 0%nat
  else if existsb (same_group r) l then 1%nat else 0%nat.
Proof.
  induction l as [|a rest IH]; intros seen; simpl.
  - destruct (existsb (same_group r) seen); reflexivity.
  - destruct (existsb (same_group a) seen) eqn:Ea.
    + rewrite IH. destruct (existsb (same_group r) seen) eqn:Er; [reflexivity|].
      destruct (same_group r a) eqn:Era; [|reflexivity].
      rewrite (existsb_same_group_ext r a seen Era) in Er. congruence.
    + simpl. destruct (same_group r a) eqn:Era; simpl.
      * rewrite IH. simpl. rewrite Era. simpl.
        rewrite (existsb_same_group_ext r a seen Era), Ea. reflexivity.
      * rewrite IH. simpl. rewrite Era. reflexivity.
Qed.

Lemma existsb_self (r : row) l :
  In r l -> snd r <> None -> existsb (same_group r) l = true.
Proof.
  intros Hin Hn. apply existsb_exists. exists r. split; [exact Hin|].
  apply same_group_iff. auto.
Qed.

Lemma filter_len1_uniq {A} (f : A -> bool) l a b :
  length (filter f l) = 1%nat -> In a l -> In b l -> f a = true -> f b = true -> a = b.
Proof.
  intros Hl Ha Hb Hfa Hfb.
  assert (Ia : In a (filter f l)) by (apply filter_In; auto).
  assert (Ib : In b (filter f l)) by (apply filter_In; auto).
  destruct (filter f l) as [|x [|y r]]; try discriminate.
  destruct Ia as [<-|[]], Ib as [<-|[]]. reflexivity.
Qed.

Lemma filter_len1_ex {A} (f : A -> bool) l :
  length (filter f l) = 1%nat -> exists a, In a l /\ f a = true.
Proof.
  intros Hl. destruct (filter f l) as [|x r] eqn:E; [discriminate|].
  exists x. apply filter_In. rewrite E. left; reflexivity.
Qed.

(** one representative per group implies that the selected keys are pairwise distinct *)
Lemma count1_nodup_keys sel :
  (forall r, In r sel -> length (filter (same_group r) sel) = 1%nat) ->
  NoDup (map rkey sel).
Proof.
  induction sel as [|a sel IH]; intros H; simpl; [constructor|].
  assert (Ha := H a (or_introl eq_refl)). simpl in Ha.
  destruct (same_group a a) eqn:Eaa.
  - simpl in Ha. constructor.
    + intros Hin. apply in_map_iff in Hin. destruct Hin as [b [Ek Hb]].
      assert (Hab : same_group a b = true).
      { rewrite (same_group_key_r b a a Ek). exact Eaa. }
      assert (Hf : In b (filter (same_group a) sel)) by (apply filter_In; auto).
      destruct (filter (same_group a) sel); [destruct Hf | discriminate].
    + apply IH. intros r Hr. assert (Hr' := H r (or_intror Hr)). simpl in Hr'.
      assert (Hrr : same_group r r = true).
      { destruct (same_group r r) eqn:Err; [reflexivity|].
        destruct (same_group r a) eqn:Era.
        - apply same_group_iff in Era. destruct Era as [_ Hn].
          assert (same_group r r = true) by (apply same_group_iff; auto). congruence.
        - exfalso. assert (Hnil : filter (same_group r) sel = []).
          { destruct (filter (same_group r) sel) as [|x [|y t]] eqn:Ef; try reflexivity; try discriminate.
            assert (Hx : In x (filter (same_group r) sel)) by (rewrite Ef; left; reflexivity).
            apply filter_In in Hx. destruct Hx as [_ Hx]. apply same_group_iff in Hx.
            destruct Hx as [_ Hn]. assert (same_group r r = true) by (apply same_group_iff; auto).
            congruence. }
          rewrite Hnil in Hr'. discriminate. }
      assert (Hge : In r (filter (same_group r) sel)) by (apply filter_In; auto).
      destruct (same_group r a); simpl in Hr'.
      * destruct (filter (same_group r) sel); [destruct Hge | discriminate].
      * exact Hr'.
  - (* a None row: it is in nobody's group, and the count hypothesis fails for it *)
    exfalso. assert (Hf : forall x, In x (filter (same_group a) sel) -> False).
    { intros x Hx. apply filter_In in Hx. destruct Hx as [_ Hx]. apply same_group_iff in Hx.
      destruct Hx as [_ Hn]. assert (same_group a a = true) by (apply same_group_iff; auto). congruence. }
    destruct (filter (same_group a) sel) as [|x t]; [discriminate|]. apply (Hf x). left; reflexivity.
Qed.

Definition all_some (l : list row) : Prop := forall r, In r l -> snd r <> None.

Theorem select_rows_valid l : all_some l -> valid_selection l (select_rows [] l).
Proof.
  intros Hs. split; [apply select_rows_incl|].
  intros r Hr. rewrite select_rows_count. simpl. rewrite (existsb_self r l Hr (Hs r Hr)). reflexivity.
Qed.

Lemma valid_nodup_keys l sel : valid_selection l sel -> NoDup (map rkey sel).
Proof.
  intros [Hi Hc]. apply count1_nodup_keys. intros r Hr. apply Hc, Hi, Hr.
Qed.

Lemma valid_keys_iff l sel : all_some l -> valid_selection l sel ->
  forall k, In k (map rkey sel) <-> In k (map rkey l).
Proof.
  intros Hs [Hi Hc] k. rewrite !in_map_iff. split.
  - intros [r [Ek Hr]]. exists r. auto.
  - intros [r [Ek Hr]]. destruct (filter_len1_ex _ _ (Hc r Hr)) as [r' [Hr' Hg]].
    exists r'. split; [|exact Hr']. apply same_group_key in Hg. congruence.
Qed.

(** whatever representative the GROUP BY picks, the groups that are hit are the same *)
Theorem valid_selection_keys_perm l s1 s2 :
  all_some l -> valid_selection l s1 -> valid_selection l s2 ->
  Permutation (map rkey s1) (map rkey s2).
Proof.
  intros Hs H1 H2. apply NoDup_Permutation.
  - eapply valid_nodup_keys, H1.
  - eapply valid_nodup_keys, H2.
  - intros k. rewrite (valid_keys_iff l s1 Hs H1), (valid_keys_iff l s2 Hs H2). tauto.
Qed.

(** select_spec, stated for any valid selection (in particular for the model's first-row choice) *)
Theorem valid_selection_spec l sel : all_some l -> valid_selection l sel ->
  (* (a) selected rows are rows of the table *)
  (forall r, In r sel -> In r l) /\
  (* (b) every row has exactly one selected representative of its (name, digest) group *)
  (forall r, In r l -> exists r', In r' sel /\ rkey r' = rkey r /\
                              forall r'', In r'' sel -> rkey r'' = rkey r -> r'' = r') /\
  (* (c) two selected rows never share (name, digest) *)
  NoDup (map rkey sel).
Proof.
  intros Hs Hv. split; [|split].
  - intros r Hr. apply (proj1 Hv), Hr.
  - intros r Hr. destruct Hv as [Hi Hc].
    destruct (filter_len1_ex _ _ (Hc r Hr)) as [r' [Hr' Hg]].
    exists r'. split; [exact Hr'|]. split; [symmetry; apply same_group_key, Hg|].
    intros r'' Hr'' Ek. apply (filter_len1_uniq (same_group r) sel r'' r' (Hc r Hr) Hr'' Hr'); [|exact Hg].
    apply same_group_iff. split; [congruence | apply Hs, Hr].
  - eapply valid_nodup_keys, Hv.
Qed.

Theorem select_spec l : all_some l ->
  let sel := select_first [] l in
  (forall nm j, In (nm, j) sel -> exists d, In (j, nm, d) l) /\
  sel = map rproj (select_rows [] l) /\
  (forall r, In r (select_rows [] l) -> In r l) /\
  (forall r, In r l -> length (filter (same_group r) (select_rows [] l)) = 1%nat) /\
  (forall r, In r l -> exists r', In r' (select_rows [] l) /\ rkey r' = rkey r /\
        forall r'', In r'' (select_rows [] l) -> rkey r'' = rkey r -> r'' = r') /\
  NoDup (map rkey (select_rows [] l)).
Proof.
  intros Hs sel. assert (Hv := select_rows_valid l Hs).
  destruct (valid_selection_spec l _ Hs Hv) as [Ha [Hb Hc]].
  split; [|split; [|split; [|split; [|split]]]]; try assumption.
  - intros nm j Hin. unfold sel in Hin. rewrite select_first_rows in Hin.
    apply in_map_iff in Hin. destruct Hin as [[[j' nm'] d] [E Hr]]. unfold rproj in E; simpl in E.
    inversion E; subst. exists d. apply Ha, Hr.
  - apply select_first_rows.
  - apply (proj2 Hv).
Qed.

(** * Target 3: the flat store against the trees *)

Lemma memp_In k l : memp k l = true <-> In k l.
Proof.
  induction l as [|x r IH]; simpl.
  - split; [discriminate | tauto].
  - rewrite orb_true_iff, IH, Pos.eqb_eq. split; intros [H|H]; subst; auto.
Qed.

Lemma depth_kid i ty ks k : In k ks -> (depth k < depth (LT i ty ks))%nat.
Proof.
  intros Hin. simpl. apply Nat.lt_succ_r.
  assert (H : Forall (fun n => (n <= list_max (map depth ks))%nat) (map depth ks))
    by (apply list_max_le; apply Nat.le_refl).
  rewrite Forall_forall in H. apply H, in_map, Hin.
Qed.

Lemma flatten_ids j nm ap par t : map nid (flatten j nm ap par t) = tids t.
Proof.
  revert par. induction t as [i ty ks IH] using ltree_ind'. intros par. simpl. f_equal.
  induction IH as [|k ks Hk _ IHks]; simpl; [reflexivity|].
  rewrite map_app, Hk, IHks. reflexivity.
Qed.

Lemma depth_le_size t : (depth t <= length (tids t))%nat.
Proof.
  induction t as [i ty ks IH] using ltree_ind'. simpl. apply le_n_S.
  induction IH as [|k ks Hk _ IHks]; simpl; [apply Nat.le_refl|].
  rewrite app_length. lia.
Qed.

Section Flat.
  Variable D : Type.
  Variable dleb : D -> D -> bool.
  Variable X : positive -> list D -> D.
  Notation thash := (thash D dleb X).
  Notation hash_node := (hash_node D dleb X).

  Lemma kids_in_app a b e : kids_in (a ++ b) e = kids_in a e ++ kids_in b e.
  Proof. unfold kids_in. apply filter_app. Qed.

  Lemma kids_in_flat_map_nil {A} (f : A -> list node) l e :
    (forall x, In x l -> kids_in (f x) e = []) -> kids_in (flat_map f l) e = [].
  Proof.
    induction l as [|x l IH]; intros H; simpl; [reflexivity|].
    rewrite kids_in_app, (H x (or_introl eq_refl)), IH; [reflexivity|].
    intros y Hy. apply H. right; exact Hy.
  Qed.

  (** a tree that does not contain [e], hanging below something else than [e], contributes no
      child of [e] *)
  Lemma kids_in_flatten_nil j nm ap e : forall t par,
    ~ In e (tids t) -> par <> Some e -> kids_in (flatten j nm ap par t) e = [].
  Proof.
    induction t as [i ty ks IH] using ltree_ind'. intros par Hn Hp. simpl in Hn.
    cbn [flatten]. change (kids_in (?a :: ?l) e) with (kids_in ([a] ++ l) e).
    rewrite kids_in_app.
    assert (E1 : kids_in [mknode i par j nm ty 0 0 ap] e = []).
    { unfold kids_in; simpl. destruct par as [p|]; [|reflexivity].
      destruct (Pos.eqb p e) eqn:E; [|reflexivity]. apply Pos.eqb_eq in E. congruence. }
    rewrite E1. simpl. apply kids_in_flat_map_nil. intros k Hk.
    rewrite Forall_forall in IH. apply IH; [exact Hk | | ].
    - intros Hin. apply Hn. right. apply in_flat_map. exists k. auto.
    - intros E. inversion E. apply Hn. left. assumption.
  Qed.

  Definition kidnode j nm ap (i : positive) (k : ltree) : node :=
    mknode (lid k) (Some i) j nm (lty k) 0 0 ap.

  Lemma flatten_head j nm ap par t :
    flatten j nm ap par t =
    mknode (lid t) par j nm (lty t) 0 0 ap :: flat_map (flatten j nm ap (Some (lid t))) (lkids t).
  Proof. destruct t; reflexivity. Qed.

  (** the children of [i] among the rows of its own subtrees are its child roots, in order *)
  Lemma kids_in_children j nm ap i : forall ks,
    ~ In i (flat_map tids ks) ->
    kids_in (flat_map (flatten j nm ap (Some i)) ks) i = map (kidnode j nm ap i) ks.
  Proof.
    induction ks as [|k ks IH]; intros Hn; simpl; [reflexivity|].
    simpl in Hn. rewrite in_app_iff in Hn.
    rewrite kids_in_app, IH by tauto. rewrite flatten_head.
    change (kids_in (?a :: ?l) i) with (kids_in ([a] ++ l) i). rewrite kids_in_app.
    assert (E1 : kids_in [mknode (lid k) (Some i) j nm (lty k) 0 0 ap] i = [kidnode j nm ap i k]).
    { unfold kids_in; simpl. rewrite Pos.eqb_refl. reflexivity. }
    rewrite E1.
    assert (E2 : kids_in (flat_map (flatten j nm ap (Some (lid k))) (lkids k)) i = []).
    { apply kids_in_flat_map_nil. intros g Hg. apply kids_in_flatten_nil.
      - intros Hin. apply Hn. left. destruct k as [ki kty kks]; simpl in *. right.
        apply in_flat_map. exists g. auto.
      - intros E. inversion E. apply Hn. left. destruct k; simpl in *. left. assumption. }
    rewrite E2. reflexivity.
  Qed.

  Lemma NoDup_app_l {A} (a b : list A) : NoDup (a ++ b) -> NoDup a.
  Proof.
    induction a as [|x a IH]; intros H; [constructor|]. inversion H as [|x' l' Hx Hr]; subst.
    constructor; [intros Hin; apply Hx, in_or_app; auto | apply IH, Hr].
  Qed.
  Lemma NoDup_app_r {A} (a b : list A) : NoDup (a ++ b) -> NoDup b.
  Proof.
    induction a as [|x a IH]; intros H; [exact H|]. inversion H; subst. apply IH. assumption.
  Qed.
  Lemma NoDup_app_disj {A} (a b : list A) x : NoDup (a ++ b) -> In x a -> In x b -> False.
  Proof.
    induction a as [|y a IH]; intros H Ha Hb; [destruct Ha|]. inversion H as [|y' l' Hy Hr]; subst.
    destruct Ha as [->|Ha]; [apply Hy, in_or_app; auto | exact (IH Hr Ha Hb)].
  Qed.

  Lemma hash_some_list (f : ltree -> node) (h : node -> option D) ks :
    (forall k, In k ks -> h (f k) = Some (thash k)) ->
    let hs := map h (map f ks) in
    forallb (fun o => match o with Some _ => true | None => false end) hs = true /\
    flat_map (fun o => match o with Some d => [d] | None => [] end) hs = map thash ks.
  Proof.
    induction ks as [|k ks IH]; intros H; simpl; [auto|].
    rewrite (H k (or_introl eq_refl)). simpl.
    destruct IH as [I1 I2]; [intros k' Hk'; apply H; right; exact Hk'|].
    split; [exact I1 | f_equal; exact I2].
  Qed.

  (** the tree [t], laid out below [par] inside any context that contributes no children to
      its nodes, hashes to [thash t] *)
  Lemma hash_node_ctx j nm ap : forall t fuel pre post par,
    NoDup (tids t) ->
    (forall i, In i (tids t) -> par <> Some i) ->
    (forall i, In i (tids t) -> kids_in pre i = [] /\ kids_in post i = []) ->
    (depth t < fuel)%nat ->
    forall n, nid n = lid t -> nty n = lty t ->
    hash_node fuel (pre ++ flatten j nm ap par t ++ post) n = Some (thash t).
  Proof.
    induction t as [i ty ks IH] using ltree_ind'.
    intros fuel pre post par Hnd Hpar Hctx Hfuel n Hid Hty.
    destruct fuel as [|f]; [inversion Hfuel|]. simpl in Hid, Hty.
    cbn [Unique.hash_node]. rewrite Hid, Hty.
    set (batch := pre ++ flatten j nm ap par (LT i ty ks) ++ post).
    assert (Hnd' : ~ In i (flat_map tids ks) /\ NoDup (flat_map tids ks)).
    { simpl in Hnd. inversion Hnd; auto. }
    destruct Hnd' as [Hi Hndk].
    assert (Ekids : kids_in batch i = map (kidnode j nm ap i) ks).
    { unfold batch. rewrite !kids_in_app.
      destruct (Hctx i (or_introl eq_refl)) as [-> ->]. rewrite app_nil_r. cbn [app].
      cbn [flatten]. change (kids_in (?a :: ?l) i) with (kids_in ([a] ++ l) i).
      rewrite kids_in_app.
      assert (E1 : kids_in [mknode i par j nm ty 0 0 ap] i = []).
      { unfold kids_in; simpl. destruct par as [p|]; [|reflexivity].
        destruct (Pos.eqb p i) eqn:E; [|reflexivity]. apply Pos.eqb_eq in E. subst p.
        exfalso. apply (Hpar i (or_introl eq_refl)). reflexivity. }
      rewrite E1. simpl. apply kids_in_children, Hi. }
    rewrite Ekids.
    assert (Hk : forall k, In k ks -> hash_node f batch (kidnode j nm ap i k) = Some (thash k)).
    { intros k Hin. destruct (in_split _ _ Hin) as [ks1 [ks2 Eks]].
      rewrite Forall_forall in IH.
      assert (Hb : batch = (pre ++ mknode i par j nm ty 0 0 ap :: flat_map (flatten j nm ap (Some i)) ks1)
                     ++ flatten j nm ap (Some i) k ++ (flat_map (flatten j nm ap (Some i)) ks2 ++ post)).
      { unfold batch. cbn [flatten]. rewrite Eks, flat_map_app. cbn [flat_map].
        rewrite <- ?app_assoc. cbn [app]. rewrite <- ?app_assoc. reflexivity. }
      rewrite Hb. rewrite Eks, flat_map_app in Hndk. simpl in Hndk.
      apply IH; try exact Hin; try reflexivity.
      - apply NoDup_app_r in Hndk. apply NoDup_app_l in Hndk. exact Hndk.
      - intros i' Hi' E. inversion E. subst i'. apply Hi. apply in_flat_map. exists k. auto.
      - intros i' Hi'.
        assert (Hit : In i' (tids (LT i ty ks))).
        { simpl. right. apply in_flat_map. exists k. auto. }
        destruct (Hctx i' Hit) as [Hpre Hpost].
        assert (Hne : i <> i').
        { intros <-. apply Hi. apply in_flat_map. exists k. auto. }
        split.
        + rewrite kids_in_app, Hpre. cbn [app].
          change (kids_in (?a :: ?l) i') with (kids_in ([a] ++ l) i'). rewrite kids_in_app.
          assert (E1 : kids_in [mknode i par j nm ty 0 0 ap] i' = []).
          { unfold kids_in; simpl. destruct par as [p|]; [|reflexivity].
            destruct (Pos.eqb p i') eqn:E; [|reflexivity]. apply Pos.eqb_eq in E. subst p.
            exfalso. apply (Hpar i' Hit). reflexivity. }
          rewrite E1. simpl. apply kids_in_flat_map_nil. intros k1 Hk1. apply kids_in_flatten_nil.
          * intros Hin1. apply (NoDup_app_disj _ _ i' Hndk); [apply in_flat_map; exists k1; auto|].
            simpl. apply in_or_app. left. exact Hi'.
          * intros E. inversion E. contradiction.
        + rewrite kids_in_app, Hpost, app_nil_r. apply kids_in_flat_map_nil.
          intros k2 Hk2. apply kids_in_flatten_nil.
          * intros Hin2. apply NoDup_app_r in Hndk. apply (NoDup_app_disj _ _ i' Hndk Hi').
            apply in_flat_map. exists k2. auto.
          * intros E. inversion E. contradiction.
      - assert (Hd := depth_kid i ty ks k Hin). lia. }
    destruct (hash_some_list (kidnode j nm ap i) (hash_node f batch) ks Hk) as [H1 H2].
    cbv zeta in H1, H2. rewrite H1, H2. reflexivity.
  Qed.
End Flat.

(** ** The store built from a list of traces *)

Lemma flatten_forall (P : node -> Prop) j nm ap :
  (forall i par ty, P (mknode i par j nm ty 0 0 ap)) ->
  forall t par, Forall P (flatten j nm ap par t).
Proof.
  intros HP. induction t as [i ty ks IH] using ltree_ind'. intros par. cbn [flatten].
  constructor; [apply HP|]. apply Forall_forall. intros n Hn. apply in_flat_map in Hn.
  destruct Hn as [k [Hk Hn]]. rewrite Forall_forall in IH.
  specialize (IH k Hk (Some i)). rewrite Forall_forall in IH. apply IH, Hn.
Qed.

Lemma trace_nodes_job tr n : In n (trace_nodes tr) -> njob n = tjob tr.
Proof.
  intros Hn. unfold trace_nodes in Hn.
  assert (H := flatten_forall (fun n => njob n = tjob tr) (tjob tr) (tname tr) app0
                 (fun _ _ _ => eq_refl) (ttree tr) None).
  rewrite Forall_forall in H. apply H, Hn.
Qed.

Lemma trace_nodes_times tr n : In n (trace_nodes tr) -> nst n = 0%Z /\ nen n = 0%Z.
Proof.
  intros Hn. unfold trace_nodes in Hn.
  assert (H := flatten_forall (fun n => nst n = 0%Z /\ nen n = 0%Z) (tjob tr) (tname tr) app0
                 (fun _ _ _ => conj eq_refl eq_refl) (ttree tr) None).
  rewrite Forall_forall in H. apply H, Hn.
Qed.

Lemma filter_all {A} (f : A -> bool) l : (forall a, In a l -> f a = true) -> filter f l = l.
Proof.
  induction l as [|x l IH]; intros H; simpl; [reflexivity|].
  rewrite (H x (or_introl eq_refl)), IH; [reflexivity|]. intros a Ha. apply H. right; exact Ha.
Qed.
Lemma filter_none {A} (f : A -> bool) l : (forall a, In a l -> f a = false) -> filter f l = [].
Proof.
  induction l as [|x l IH]; intros H; simpl; [reflexivity|].
  rewrite (H x (or_introl eq_refl)), IH; [reflexivity|]. intros a Ha. apply H. right; exact Ha.
Qed.

Lemma filter_flat_map_traces (p : node -> bool) (q : trace -> bool) traces :
  (forall tr n, In tr traces -> In n (trace_nodes tr) -> p n = q tr) ->
  filter p (flat_map trace_nodes traces) = flat_map trace_nodes (filter q traces).
Proof.
  induction traces as [|tr l IH]; intros H; simpl; [reflexivity|].
  rewrite filter_app, IH by (intros tr' n Htr Hn; apply H; [right; exact Htr | exact Hn]).
  destruct (q tr) eqn:Eq; simpl.
  - f_equal. apply filter_all. intros n Hn. rewrite (H tr n (or_introl eq_refl) Hn). exact Eq.
  - rewrite filter_none; [reflexivity|]. intros n Hn. rewrite (H tr n (or_introl eq_refl) Hn). exact Eq.
Qed.

Lemma NoDup_all_ids_filter (q : trace -> bool) traces :
  NoDup (all_ids traces) -> NoDup (all_ids (filter q traces)).
Proof.
  unfold all_ids. induction traces as [|tr l IH]; intros H; simpl; [constructor|].
  simpl in H. destruct (q tr); simpl.
  - assert (Hl := IH (NoDup_app_r _ _ H)).
    revert H Hl. generalize (tids (ttree tr)). intros a. induction a as [|x a IHa]; intros H Hl; simpl; [exact Hl|].
    simpl in H. inversion H as [|x' l' Hx Hr]; subst. constructor; [|apply IHa; assumption].
    intros Hin. apply Hx. apply in_app_or in Hin. apply in_or_app. destruct Hin as [Hin|Hin]; [left; exact Hin|right].
    apply in_flat_map in Hin. destruct Hin as [tr' [Htr' Hin]]. apply filter_In in Htr'.
    apply in_flat_map. exists tr'. tauto.
  - apply IH. eapply NoDup_app_r, H.
Qed.

Section Store.
  Variable D : Type.
  Variable dleb : D -> D -> bool.
  Variable X : positive -> list D -> D.
  Notation thash := (thash D dleb X).
  Notation hash_node := (hash_node D dleb X).

  Lemma job_batch traces js :
    filter (fun n => memp (njob n) js) (db (store_of traces)) =
    db (store_of (filter (fun tr => memp (tjob tr) js) traces)).
  Proof.
    simpl. apply filter_flat_map_traces. intros tr n _ Hn. rewrite (trace_nodes_job tr n Hn). reflexivity.
  Qed.

  (** whole-store version: the batch is the complete nodes table of [traces] *)
  Lemma hash_node_whole traces tr fuel :
    NoDup (all_ids traces) -> In tr traces -> (depth (ttree tr) < fuel)%nat ->
    hash_node fuel (db (store_of traces)) (rootnode tr) = Some (thash (ttree tr)).
  Proof.
    intros Hnd Hin Hfuel. destruct (in_split _ _ Hin) as [pre [post E]]. subst traces.
    simpl. rewrite flat_map_app. simpl. unfold trace_nodes at 2.
    unfold all_ids in Hnd. rewrite flat_map_app in Hnd. simpl in Hnd.
    apply hash_node_ctx; try reflexivity; try exact Hfuel.
    - apply NoDup_app_r in Hnd. apply NoDup_app_l in Hnd. exact Hnd.
    - intros i _. discriminate.
    - intros i Hi. split; apply kids_in_flat_map_nil; intros tr' Htr'; apply kids_in_flatten_nil;
        try discriminate.
      + intros Hin'. apply (NoDup_app_disj _ _ i Hnd); [apply in_flat_map; exists tr'; auto|].
        apply in_or_app. left. exact Hi.
      + intros Hin'. apply NoDup_app_r in Hnd. apply (NoDup_app_disj _ _ i Hnd Hi).
        apply in_flat_map. exists tr'. auto.
  Qed.

  Lemma length_whole traces tr :
    In tr traces -> (length (tids (ttree tr)) <= length (db (store_of traces)))%nat.
  Proof.
    intros Hin. destruct (in_split _ _ Hin) as [pre [post E]]. subst traces.
    simpl. rewrite flat_map_app. simpl. rewrite !app_length.
    unfold trace_nodes at 2. rewrite <- (flatten_ids (tjob tr) (tname tr) app0 None), map_length. lia.
  Qed.

  (** Target 3 *)
  Theorem hash_node_store traces js tr fuel :
    NoDup (all_ids traces) -> In tr traces -> In (tjob tr) js ->
    (depth (ttree tr) < fuel)%nat ->
    hash_node fuel (filter (fun n => memp (njob n) js) (db (store_of traces))) (rootnode tr)
    = Some (thash (ttree tr)).
  Proof.
    intros Hnd Hin Hj Hfuel. rewrite job_batch. apply hash_node_whole; [| |exact Hfuel].
    - apply NoDup_all_ids_filter, Hnd.
    - apply filter_In. split; [exact Hin | apply memp_In, Hj].
  Qed.

  (** ... in particular with the fuel used by [batch_hashes] *)
  Theorem hash_node_store_batch_fuel traces js tr :
    NoDup (all_ids traces) -> In tr traces -> In (tjob tr) js ->
    let batch := filter (fun n => memp (njob n) js) (db (store_of traces)) in
    hash_node (S (length batch)) batch (rootnode tr) = Some (thash (ttree tr)).
  Proof.
    intros Hnd Hin Hj batch. apply hash_node_store; try assumption.
    unfold batch. rewrite job_batch. apply Nat.lt_succ_r.
    eapply Nat.le_trans; [apply depth_le_size|]. apply length_whole.
    apply filter_In. split; [exact Hin | apply memp_In, Hj].
  Qed.

  (** * Target 4: paging *)

  Lemma chunks_map {A B} (f : A -> B) bs : forall n l,
    chunks n bs (map f l) = map (map f) (chunks n bs l).
  Proof.
    induction n as [|n IH]; intros [|x l]; try reflexivity.
    cbn [chunks]. change (f x :: map f l) with (map f (x :: l)).
    rewrite firstn_map, skipn_map, IH. reflexivity.
  Qed.

  Lemma chunks_incl {A} bs : forall n (l p : list A), In p (chunks n bs l) -> incl p l.
  Proof.
    induction n as [|n IH]; intros [|x l] p Hp; try (destruct Hp; fail).
    cbn [chunks] in Hp. destruct Hp as [<-|Hp]; intros a Ha.
    - rewrite <- (firstn_skipn bs (x :: l)). apply in_or_app. left; exact Ha.
    - rewrite <- (firstn_skipn bs (x :: l)). apply in_or_app. right. exact (IH _ _ Hp a Ha).
  Qed.

  Lemma chunks_concat {A} bs : (0 < bs)%nat -> forall n (l : list A),
    (length l <= n)%nat -> concat (chunks n bs l) = l.
  Proof.
    intros Hbs. induction n as [|n IH]; intros [|x l] Hl; try reflexivity.
    - simpl in Hl. lia.
    - cbn [chunks concat]. rewrite IH; [apply firstn_skipn|].
      rewrite skipn_length. simpl length in *. lia.
  Qed.

  Lemma is_root_flatten_some j nm ap : forall t p, filter is_root (flatten j nm ap (Some p) t) = [].
  Proof.
    induction t as [i ty ks IH] using ltree_ind'. intros p. cbn [flatten filter is_root npar].
    induction IH as [|k ks Hk _ IHks]; simpl; [reflexivity|]. rewrite filter_app, Hk. exact IHks.
  Qed.

  Lemma is_root_trace tr : filter is_root (trace_nodes tr) = [rootnode tr].
  Proof.
    unfold trace_nodes, rootnode. destruct (ttree tr) as [i ty ks]. cbn [flatten filter is_root npar lid lty].
    f_equal. induction ks as [|k ks IH]; simpl; [reflexivity|].
    rewrite filter_app, is_root_flatten_some. exact IH.
  Qed.

  Lemma in_window_store traces w n : In n (db (store_of traces)) -> in_window w n = win0 w.
  Proof.
    simpl. intros Hn. apply in_flat_map in Hn. destruct Hn as [tr [_ Hn]].
    destruct (trace_nodes_times tr n Hn) as [E1 E2]. unfold in_window, win0. rewrite E1, E2.
    apply orb_diag.
  Qed.

  Lemma roots_store traces w :
    roots w (store_of traces) = if win0 w then map rootnode traces else [].
  Proof.
    unfold roots, window_jobs.
    rewrite (filter_ext_in (in_window w) (fun _ => win0 w) _ (in_window_store traces w)).
    destruct (win0 w).
    - rewrite (filter_all (fun _ : node => true) (db (store_of traces))) by reflexivity.
      rewrite (filter_ext_in _ is_root).
      + simpl. induction traces as [|tr l IH]; simpl; [reflexivity|].
        rewrite filter_app, is_root_trace, IH. reflexivity.
      + intros n Hn. rewrite (proj2 (memp_In _ _) (in_map njob _ _ Hn)). apply andb_true_r.
    - rewrite (filter_none (fun _ : node => false) (db (store_of traces))) by reflexivity.
      apply filter_none. intros n _. apply andb_false_r.
  Qed.

  Lemma batch_hashes_page traces tp :
    NoDup (all_ids traces) -> incl tp traces ->
    batch_hashes D dleb X (store_of traces) (map rootnode tp) = map (row_of D thash) tp.
  Proof.
    intros Hnd Hincl. unfold batch_hashes. rewrite map_map. apply map_ext_in. intros tr Htr.
    unfold row_of. cbn [njob nname rootnode]. f_equal.
    apply hash_node_store_batch_fuel; [exact Hnd | apply Hincl, Htr|].
    change (tjob tr) with (njob (rootnode tr)). apply in_map, in_map, Htr.
  Qed.

  Theorem all_hashes_store traces bs w :
    NoDup (all_ids traces) -> (0 < bs)%nat ->
    all_hashes D dleb X bs w (store_of traces) =
    if win0 w then map (row_of D thash) traces else [].
  Proof.
    intros Hnd Hbs. unfold all_hashes. destruct bs as [|b]; [inversion Hbs|].
    rewrite roots_store. destruct (win0 w); [|reflexivity].
    rewrite map_length, chunks_map, flat_map_concat_map, map_map.
    rewrite (map_ext_in _ (map (row_of D thash))).
    - rewrite <- concat_map, chunks_concat; [reflexivity | lia | apply Nat.le_refl].
    - intros tp Htp. apply batch_hashes_page; [exact Hnd|]. eapply chunks_incl, Htp.
  Qed.

  Theorem paging_indep traces w bs1 bs2 :
    NoDup (all_ids traces) -> (0 < bs1)%nat -> (0 < bs2)%nat ->
    all_hashes D dleb X bs1 w (store_of traces) = all_hashes D dleb X bs2 w (store_of traces).
  Proof.
    intros Hnd H1 H2. rewrite !all_hashes_store by assumption. reflexivity.
  Qed.
End Store.

Example bs_zero_selects_nothing : forall w st, find_unique 0 w st = [].
Proof. reflexivity. Qed.

(** * Target 6: the main theorem *)

Local Notation rows_of traces := (map (row_of ctree canon) traces).

Lemma find_unique_store traces bs w :
  NoDup (all_ids traces) -> (0 < bs)%nat ->
  find_unique bs w (store_of traces) =
  if win0 w then map rproj (select_rows [] (rows_of traces)) else [].
Proof.
  intros Hnd Hbs. unfold find_unique, hashes_ct. rewrite all_hashes_store by assumption.
  destruct (win0 w); [apply select_first_rows | reflexivity].
Qed.

Lemma rows_all_some traces : all_some (rows_of traces).
Proof.
  intros r Hr. apply in_map_iff in Hr. destruct Hr as [tr [<- _]]. discriminate.
Qed.

Lemma in_rows_of traces j nm d :
  In (j, nm, d) (rows_of traces) <-> exists t, In (j, nm, t) traces /\ d = Some (canon t).
Proof.
  rewrite in_map_iff. split.
  - intros [[[j' nm'] t] [E Hin]]. unfold row_of in E; simpl in E. inversion E; subst.
    exists t. auto.
  - intros [t [Hin ->]]. exists (j, nm, t). auto.
Qed.

Lemma job_functional traces j n1 t1 n2 t2 :
  NoDup (map tjob traces) -> In (j, n1, t1) traces -> In (j, n2, t2) traces -> n1 = n2 /\ t1 = t2.
Proof.
  induction traces as [|tr l IH]; intros Hnd H1 H2; [destruct H1|].
  simpl in Hnd. inversion Hnd as [|x l' Hx Hr]; subst.
  destruct H1 as [E1|H1], H2 as [E2|H2].
  - rewrite E1 in E2. inversion E2. auto.
  - exfalso. apply Hx. subst tr. apply (in_map tjob) in H2. exact H2.
  - exfalso. apply Hx. subst tr. apply (in_map tjob) in H1. exact H1.
  - apply IH; assumption.
Qed.

Lemma select_rows_nodup_map {B} (g : row -> B) : forall l seen,
  NoDup (map g l) -> NoDup (map g (select_rows seen l)).
Proof.
  induction l as [|r rest IH]; intros seen Hnd; simpl; [constructor|].
  simpl in Hnd. inversion Hnd as [|x l' Hx Hr]; subst.
  destruct (existsb (same_group r) seen); [apply IH, Hr|].
  simpl. constructor; [|apply IH, Hr].
  intros Hin. apply Hx. apply in_map_iff in Hin. destruct Hin as [r' [E Hr']].
  apply in_map_iff. exists r'. split; [exact E | eapply select_rows_incl, Hr'].
Qed.

Lemma NoDup_map_inj_in {A B} (f : A -> B) l :
  NoDup l -> (forall a b, In a l -> In b l -> f a = f b -> a = b) -> NoDup (map f l).
Proof.
  induction l as [|x l IH]; intros Hnd Hinj; simpl; [constructor|].
  inversion Hnd as [|x' l' Hx Hr]; subst. constructor.
  - intros Hin. apply in_map_iff in Hin. destruct Hin as [y [E Hy]].
    assert (y = x) by (apply Hinj; [right; exact Hy | left; reflexivity | exact E]). subst y. contradiction.
  - apply IH; [exact Hr|]. intros a b Ha Hb. apply Hinj; right; assumption.
Qed.

(** the statement for ANY outcome of the GROUP BY (an arbitrary row per (name, digest) group) *)
Theorem c09_main_any traces selrows :
  NoDup (map tjob traces) -> valid_selection (rows_of traces) selrows ->
  let sel := map rproj selrows in
  (* selected entries are stored traces, each listed once *)
  (forall nm j, In (nm, j) sel -> exists t, In (j, nm, t) traces) /\
  NoDup sel /\
  (* every stored trace has exactly one selected representative of its shape under its name *)
  (forall j nm t, In (j, nm, t) traces ->
     exists j', (In (nm, j') sel /\ exists t', In (j', nm, t') traces /\ TreeIso t t') /\
       forall j'', In (nm, j'') sel ->
                   (exists t'', In (j'', nm, t'') traces /\ TreeIso t t'') -> j'' = j') /\
  (* two selected traces of one name never have the same shape *)
  (forall nm j1 j2 t1 t2, In (nm, j1) sel -> In (nm, j2) sel ->
     In (j1, nm, t1) traces -> In (j2, nm, t2) traces -> TreeIso t1 t2 -> j1 = j2).
Proof.
  intros Hjobs Hv sel.
  assert (Hs := rows_all_some traces).
  destruct (valid_selection_spec _ _ Hs Hv) as [Ha [Hb Hc]].
  assert (Hsel : forall nm j, In (nm, j) sel <-> exists d, In (j, nm, d) selrows).
  { intros nm j. unfold sel. rewrite in_map_iff. split.
    - intros [[[j' nm'] d] [E Hr]]. unfold rproj in E; simpl in E. inversion E; subst. exists d. exact Hr.
    - intros [d Hr]. exists (j, nm, d). auto. }
  assert (H3 : forall j nm t, In (j, nm, t) traces ->
     exists j', (In (nm, j') sel /\ exists t', In (j', nm, t') traces /\ TreeIso t t') /\
       forall j'', In (nm, j'') sel ->
                   (exists t'', In (j'', nm, t'') traces /\ TreeIso t t'') -> j'' = j').
  { intros j nm t Hin.
    assert (Hr : In (j, nm, Some (canon t)) (rows_of traces)) by (apply in_rows_of; eauto).
    destruct (Hb _ Hr) as [[[j' nm'] d'] [Hr' [Ek Huniq]]].
    unfold rkey in Ek; simpl in Ek. inversion Ek; subst nm' d'. clear Ek.
    exists j'. split.
    - split; [apply Hsel; eauto|]. apply Ha, in_rows_of in Hr'. destruct Hr' as [t' [Hin' Ec]].
      exists t'. split; [exact Hin'|]. apply canon_iso. congruence.
    - intros j'' Hj'' [t'' [Hin'' Hiso]]. apply Hsel in Hj''. destruct Hj'' as [d Hr''].
      assert (Hd : d = Some (canon t'')).
      { apply Ha, in_rows_of in Hr''. destruct Hr'' as [t3 [Hin3 ->]].
        destruct (job_functional _ _ _ _ _ _ Hjobs Hin3 Hin'') as [_ ->]. reflexivity. }
      subst d. apply canon_iso in Hiso.
      assert (E : (j'', nm, Some (canon t'')) = (j', nm, Some (canon t))).
      { apply Huniq; [exact Hr''|]. unfold rkey; simpl. rewrite Hiso. reflexivity. }
      inversion E. reflexivity. }
  split; [|split; [|split]].
  - intros nm j Hin. apply Hsel in Hin. destruct Hin as [d Hr]. apply Ha, in_rows_of in Hr.
    destruct Hr as [t [Hin _]]. eauto.
  - unfold sel. apply NoDup_map_inj_in; [eapply NoDup_map_inv, Hc|].
    intros [[ja na] da] [[jb nb] db] Hina Hinb E. unfold rproj in E; simpl in E. inversion E; subst.
    apply Ha, in_rows_of in Hina. apply Ha, in_rows_of in Hinb.
    destruct Hina as [ta [Hta ->]], Hinb as [tb [Htb ->]].
    destruct (job_functional _ _ _ _ _ _ Hjobs Hta Htb) as [_ ->]. reflexivity.
  - exact H3.
  - intros nm j1 j2 t1 t2 Hs1 Hs2 Hi1 Hi2 Hiso.
    destruct (H3 j1 nm t1 Hi1) as [j' [_ Hu]].
    rewrite (Hu j1 Hs1), (Hu j2 Hs2); eauto using TreeIso_refl.
Qed.

Theorem c09_main_thm traces bs w :
  NoDup (all_ids traces) -> NoDup (map tjob traces) -> (0 < bs)%nat -> win0 w = true ->
  let sel := find_unique bs w (store_of traces) in
  (forall nm j, In (nm, j) sel -> exists t, In (j, nm, t) traces) /\
  NoDup sel /\
  (forall j nm t, In (j, nm, t) traces ->
     exists j', (In (nm, j') sel /\ exists t', In (j', nm, t') traces /\ TreeIso t t') /\
       forall j'', In (nm, j'') sel ->
                   (exists t'', In (j'', nm, t'') traces /\ TreeIso t t'') -> j'' = j') /\
  (forall nm j1 j2 t1 t2, In (nm, j1) sel -> In (nm, j2) sel ->
     In (j1, nm, t1) traces -> In (j2, nm, t2) traces -> TreeIso t1 t2 -> j1 = j2).
Proof.
  intros Hids Hjobs Hbs Hw sel.
  assert (Esel : sel = map rproj (select_rows [] (rows_of traces))).
  { unfold sel. rewrite find_unique_store by assumption. rewrite Hw. reflexivity. }
  rewrite Esel. apply c09_main_any; [exact Hjobs|]. apply select_rows_valid, rows_all_some.
Qed.

(** * Target 7: independence of ingestion order (and of batch size) *)

Lemma shapes_hit_iff traces bs w nm c :
  NoDup (all_ids traces) -> NoDup (map tjob traces) -> (0 < bs)%nat ->
  shapes_hit bs w traces nm c <->
  win0 w = true /\ exists j t, In (j, nm, t) traces /\ canon t = c.
Proof.
  intros Hids Hjobs Hbs. unfold shapes_hit. split.
  - intros [j [t [Hsel [Hin Ec]]]]. split; [|eauto].
    rewrite find_unique_store in Hsel by assumption. destruct (win0 w); [reflexivity | destruct Hsel].
  - intros [Hw [j [t [Hin Ec]]]].
    destruct (c09_main_thm traces bs w Hids Hjobs Hbs Hw) as [_ [_ [H3 _]]].
    destruct (H3 j nm t Hin) as [j' [[Hsel [t' [Hin' Hiso]]] _]].
    exists j', t'. split; [exact Hsel|]. split; [exact Hin'|]. apply canon_iso in Hiso. congruence.
Qed.

Theorem order_indep traces traces' bs bs' w :
  NoDup (all_ids traces) -> NoDup (map tjob traces) -> Permutation traces traces' ->
  (0 < bs)%nat -> (0 < bs')%nat ->
  forall nm c, shapes_hit bs w traces nm c <-> shapes_hit bs' w traces' nm c.
Proof.
  intros Hids Hjobs Hp Hbs Hbs' nm c.
  assert (Hids' : NoDup (all_ids traces')).
  { eapply Permutation_NoDup; [|exact Hids]. unfold all_ids. apply Permutation_flat_map, Hp. }
  assert (Hjobs' : NoDup (map tjob traces')).
  { eapply Permutation_NoDup; [|exact Hjobs]. apply Permutation_map, Hp. }
  rewrite (shapes_hit_iff traces bs w nm c Hids Hjobs Hbs).
  rewrite (shapes_hit_iff traces' bs' w nm c Hids' Hjobs' Hbs').
  split; intros [Hw [j [t [Hin Ec]]]]; (split; [exact Hw|]); exists j, t; (split; [|exact Ec]).
  - eapply Permutation_in; [exact Hp | exact Hin].
  - eapply Permutation_in; [apply Permutation_sym, Hp | exact Hin].
Qed.

(** * Target 8: examples (also the non-vacuity witnesses) *)

Local Open Scope positive_scope.

(** types: A = 1, B = 2, C = 3; workflow names 10, 11; job ids 101.. *)
Definition ex_t1 : ltree := LT 1 1 [LT 2 2 []; LT 3 3 [LT 4 2 []]].          (* A(B, C(B)) *)
Definition ex_t2 : ltree := LT 5 1 [LT 6 3 [LT 7 2 []]; LT 8 2 []].          (* A(C(B), B) *)
Definition ex_t3 : ltree := LT 9 1 [LT 10 2 []; LT 11 3 [LT 12 2 []]].       (* A(B, C(B)) *)
Definition ex_t4 : ltree := LT 13 1 [LT 14 2 []; LT 15 2 []].                (* A(B, B) *)
Definition ex_t5 : ltree := LT 16 1 [LT 17 2 []].                            (* A(B) *)
Definition ex_traces : list trace :=
  [(101, 10, ex_t1); (102, 10, ex_t2); (103, 11, ex_t3); (104, 10, ex_t4); (105, 10, ex_t5)].

Example ex_hyps : NoDup (all_ids ex_traces) /\ NoDup (map tjob ex_traces) /\ win0 (-5, 5)%Z = true.
Proof.
  split; [|split]; [| |reflexivity]; vm_compute;
    repeat (constructor; [simpl; intros H; repeat (destruct H as [H|H]; [discriminate H|]); exact H|]);
    constructor.
Qed.

(** 101 and 102 have the same shape up to sibling order and the same name: one of them is kept;
    103 has that shape under another name: kept; A(B,B) and A(B) are different shapes: both kept.
    The result is the same for every batch size 1..6. *)
Example ex_find_unique :
  forallb (fun bs => list_eqb pair_eqb (find_unique bs (-5, 5)%Z (store_of ex_traces))
                       [(10, 101); (11, 103); (10, 104); (10, 105)])
          [1; 2; 3; 4; 5; 6]%nat = true.
Proof. vm_compute. reflexivity. Qed.

Example ex_find_unique_1 :
  find_unique 2 (-5, 5)%Z (store_of ex_traces) = [(10, 101); (11, 103); (10, 104); (10, 105)].
Proof. vm_compute. reflexivity. Qed.

(** ingestion in the reverse order keeps 102 instead of 101: another representative, same shapes *)
Example ex_find_unique_rev :
  find_unique 2 (-5, 5)%Z (store_of (rev ex_traces)) = [(10, 105); (10, 104); (11, 103); (10, 102)].
Proof. vm_compute. reflexivity. Qed.

(** sibling order does not matter, multiplicity does *)
Example ex_sibling_order : canon ex_t1 = canon ex_t2 /\ TreeIso ex_t1 ex_t2.
Proof. split; [vm_compute; reflexivity | apply canon_iso; vm_compute; reflexivity]. Qed.

Example ex_multiplicity : canon ex_t4 <> canon ex_t5 /\ ~ TreeIso ex_t4 ex_t5.
Proof.
  assert (H : canon ex_t4 <> canon ex_t5) by (vm_compute; discriminate).
  split; [exact H | intros Hiso; apply H, canon_iso, Hiso].
Qed.

(** a window that does not contain the (zero) timestamps selects nothing *)
Example ex_window_out : find_unique 2 (1, 5)%Z (store_of ex_traces) = [].
Proof. vm_compute. reflexivity. Qed.

(** a GROUP BY outcome that differs from the model's first-row choice (102 represents the group
    of 101/102) is also a valid selection: [c09_main_any] applies to it *)
Example ex_other_representative :
  valid_selection (map (row_of ctree canon) ex_traces)
    (map (row_of ctree canon) [(102, 10, ex_t2); (103, 11, ex_t3); (104, 10, ex_t4); (105, 10, ex_t5)]).
Proof.
  split.
  - intros r Hr. simpl in Hr. simpl. tauto.
  - intros r Hr. simpl in Hr.
    repeat (destruct Hr as [<-|Hr]; [vm_compute; reflexivity|]). destruct Hr.
Qed.

(** The injectivity hypothesis on [X] is necessary: an encoding collision between a leaf type and
    "type ++ child digest" (possible in the code, where the digest input is the plain string
    concatenation event_type ++ hexdigests) yields two different shapes with one digest. *)
Lemma encoding_collision_breaks (D : Type) (dleb : D -> D -> bool) (X : positive -> list D -> D)
      (ty1 ty2 tyb : positive) :
  X ty1 [] = X ty2 [X tyb []] ->
  exists a b, thash D dleb X a = thash D dleb X b /\ ~ TreeIso a b.
Proof.
  intros E. exists (LT 1 ty1 []), (LT 1 ty2 [LT 2 tyb []]). split; [simpl; exact E|].
  intros Hiso. inversion Hiso as [i i' ty ks ks' ks'' Hp Hf]; subst.
  inversion Hf; subst. apply Permutation_sym, Permutation_nil in Hp. discriminate.
Qed.
