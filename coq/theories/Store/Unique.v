(** Model of find_unique_graphs (sql_dataholder.py:486-775): candidate roots in the time window,
    root paging, per-batch child maps, order-insensitive recursive tree hash, GROUP BY selection.
    The digest function is a parameter [X] (xxhash64 of type ++ concatenated sorted child
    digests in the code).  No proofs in this file. *)
From Coq Require Import ZArith List Bool.
From V Require Import Store.Rel Store.Clean.
Import ListNotations.

Section Hash.
  Variable D : Type.                         (* digests *)
  Variable dleb : D -> D -> bool.            (* their order: Python's sorted() on hex strings *)
  Variable X : positive -> list D -> D.      (* digest of (event type, sorted child digests) *)

  Fixpoint dins (x : D) (l : list D) : list D :=
    match l with
    | [] => [x]
    | y :: r => if dleb x y then x :: l else y :: dins x r
    end.
  Definition dsort (l : list D) : list D := fold_right dins [] l.

  (** create_event_id_to_child_nodes_map over the nodes of the batch: children by the
      parent_event_id column, in row order *)
  Definition kids_in (batch : list node) (e : positive) : list node :=
    filter (fun c => match npar c with Some p => Pos.eqb p e | None => false end) batch.

  (** compute_graph_hash_from_event_ids; the Python recursion is unbounded, the model recurses on
      fuel and returns None when it runs out (a cycle below a root; excluded by the theorems) *)
  Fixpoint hash_node (fuel : nat) (batch : list node) (n : node) : option D :=
    match fuel with
    | O => None
    | S f =>
        let hs := map (hash_node f batch) (kids_in batch (nid n)) in
        if forallb (fun o => match o with Some _ => true | None => false end) hs
        then Some (X (nty n) (dsort (flat_map (fun o => match o with Some d => [d] | None => [] end) hs)))
        else None
    end.

  (** candidate roots: root spans of the traces that have a span start or end inside the window *)
  Definition roots (w : Z * Z) (st : store) : list node :=
    filter (fun n => is_root n && memp (njob n) (window_jobs w st)) (db st).

  Fixpoint chunks {A} (fuel : nat) (bs : nat) (l : list A) : list (list A) :=
    match fuel, l with
    | _, [] => []
    | O, _ => []
    | S f, _ => firstn bs l :: chunks f bs (skipn bs l)
    end.

  (** compute_graph_hashes_for_batch: rows (job_id, job_name, digest) for one page of roots *)
  Definition batch_hashes (st : store) (page : list node) : list (positive * positive * option D) :=
    let batch := filter (fun n => memp (njob n) (map njob page)) (db st) in
    map (fun r => (njob r, nname r, hash_node (S (length batch)) batch r)) page.

  (** the paging loop: `while True: page = roots[start:start+bs]; if not page: break; ...`;
      with bs = 0 the first page is empty and nothing is hashed *)
  Definition all_hashes (bs : nat) (w : Z * Z) (st : store) : list (positive * positive * option D) :=
    match bs with
    | O => []
    | _ => flat_map (batch_hashes st) (chunks (length (roots w st)) bs (roots w st))
    end.
End Hash.

(** Executable instance used by the correspondence check: the digest of a tree is its canonical
    form, so [X] is injective by construction. *)
Inductive ctree := CT (ty : positive) (kids : list ctree).

Fixpoint ct_cmp (a b : ctree) {struct a} : comparison :=
  match a, b with
  | CT ta ka, CT tb kb =>
      match Pos.compare ta tb with
      | Eq => (fix lex (x : list ctree) (y : list ctree) {struct x} : comparison :=
                 match x, y with
                 | [], [] => Eq
                 | [], _ :: _ => Lt
                 | _ :: _, [] => Gt
                 | p :: x', q :: y' => match ct_cmp p q with Eq => lex x' y' | c => c end
                 end) ka kb
      | c => c
      end
  end.
Definition ct_leb (a b : ctree) : bool := match ct_cmp a b with Gt => false | _ => true end.
Definition ct_eqb (a b : ctree) : bool := match ct_cmp a b with Eq => true | _ => false end.

Definition hashes_ct (bs : nat) (w : Z * Z) (st : store) := all_hashes ctree ct_leb CT bs w st.

(** get_unique_graph_job_ids_per_job_name: SELECT job_name, job_id FROM job_hashes GROUP BY
    job_name, job_hash - one (arbitrary) trace id per group; the model keeps the first row of
    each group, the theorems hold for any representative. *)
Definition same_group (a b : positive * positive * option ctree) : bool :=
  Pos.eqb (snd (fst a)) (snd (fst b))
  && match snd a, snd b with Some x, Some y => ct_eqb x y | _, _ => false end.

Fixpoint select_first (seen : list (positive * positive * option ctree))
         (l : list (positive * positive * option ctree)) : list (positive * positive) :=
  match l with
  | [] => []
  | r :: rest => if existsb (same_group r) seen then select_first seen rest
                 else (snd (fst r), fst (fst r)) :: select_first (r :: seen) rest
  end.

(** result: (job_name, selected job_id) pairs *)
Definition find_unique (bs : nat) (w : Z * Z) (st : store) : list (positive * positive) :=
  select_first [] (hashes_ct bs w st).

(** Structural view used by the theorems: a trace as a labelled rooted tree. *)
Inductive ltree := LT (id : positive) (ty : positive) (kids : list ltree).
