(** Model of SQLDataHolder ingestion (sql_dataholder.py:51-230): batching, the two-transaction
    bulk commit and the IntegrityError fallback.  No proofs in this file. *)
From Coq Require Import ZArith List Bool.
From V Require Import Store.Rel.
Import ListNotations.

(** In-flight state of one SQLDataHolder: the tables plus the two pending lists. *)
Record ist := mkist {
  i_db : list node;
  i_assoc : list (positive * positive);
  pend : list node;                          (* node_models_to_save *)
  prel : list (positive * positive)          (* node_relationships_to_save *)
}.

Definition rel_of (n : node) : list (positive * positive) :=
  match npar n with Some p => [(p, nid n)] | None => [] end.

(** session.add_all(pending); commit  - one transaction, UNIQUE(event_id) *)
Definition insert_nodes (d : list node) (p : list node) : option (list node) :=
  if nodupb (ids p) && forallb (fun n => negb (memp (nid n) (ids d))) p then Some (d ++ p) else None.

(** insert(NODE_ASSOCIATION) executemany; commit - one transaction, PRIMARY KEY(parent, child);
    skipped when there is nothing to insert; foreign keys are not enforced by SQLite *)
Definition insert_assoc (a : list (positive * positive)) (r : list (positive * positive))
  : option (list (positive * positive)) :=
  match r with
  | [] => Some a
  | _ => if nodup_pairb r && forallb (fun k => negb (mempair k a)) r then Some (a ++ r) else None
  end.

Inductive cres := COk (s : ist) | CIntegrity (s : ist) | CDetached.

(** commit_batched_data_to_database: nodes first, then associations; the pending lists are
    reset only on success.  A failure of the second transaction leaves the nodes stored and the
    pending NodeModel objects expired and detached: the fallback then dies with
    DetachedInstanceError on its first attribute access ([CDetached], observed on the real code). *)
Definition commit (s : ist) : cres :=
  match insert_nodes (i_db s) (pend s) with
  | None => CIntegrity s
  | Some d' =>
      match insert_assoc (i_assoc s) (prel s) with
      | None => CDetached
      | Some a' => COk (mkist d' a' [] [])
      end
  end.

(** first occurrence of every event id among the pending nodes *)
Fixpoint firsts (seen : list positive) (l : list node) : list node :=
  match l with
  | [] => []
  | n :: r => if memp (nid n) seen then firsts seen r else n :: firsts (nid n :: seen) r
  end.

(** check_and_filter_non_unique_nodes_and_associations; [None] = the retry raised (crash) *)
Definition fallback (s : ist) : option ist :=
  let filtered := filter (fun n => negb (memp (nid n) (ids (i_db s)))) (firsts [] (pend s)) in
  match commit (mkist (i_db s) (i_assoc s) filtered (flat_map rel_of filtered)) with
  | COk s' => Some s'
  | CIntegrity _ | CDetached => None
  end.

(** commit_batched_unique_data_to_database *)
Definition commit_unique (s : ist) : option ist :=
  match commit s with
  | COk s' => Some s'
  | CIntegrity s1 => fallback s1
  | CDetached => None
  end.

(** _save_data *)
Definition save (bs : nat) (s : ist) (n : node) : option ist :=
  let s1 := mkist (i_db s) (i_assoc s) (pend s ++ [n]) (prel s ++ rel_of n) in
  if Nat.leb bs (length (pend s1)) then commit_unique s1 else Some s1.

Fixpoint saves (bs : nat) (s : ist) (evs : list node) : option ist :=
  match evs with
  | [] => Some s
  | n :: r => match save bs s n with Some s' => saves bs s' r | None => None end
  end.

(** one `with data_holder:` block of IngestData.load_to_data_holder: save every event, flush at exit *)
Definition ingest (bs : nat) (st : store) (evs : list node) : option store :=
  match saves bs (mkist (db st) (assoc st) [] []) evs with
  | Some s => match commit_unique s with
              | Some s' => Some (mkstore (i_db s') (i_assoc s') (hashes st))
              | None => None
              end
  | None => None
  end.

Fixpoint ingest_runs (bs : nat) (st : store) (runs : list (list node)) : option store :=
  match runs with
  | [] => Some st
  | evs :: r => match ingest bs st evs with Some st' => ingest_runs bs st' r | None => None end
  end.

(** Specification: the store gains exactly the first occurrence of every id it does not hold yet,
    with that occurrence's parent link. *)
Definition spec_new (st : store) (evs : list node) : list node :=
  filter (fun n => negb (memp (nid n) (ids (db st)))) (firsts [] evs).
Definition spec_ingest (st : store) (evs : list node) : store :=
  let nw := spec_new st evs in mkstore (db st ++ nw) (assoc st ++ flat_map rel_of nw) (hashes st).

(** Store invariant assumed by the refinement theorem (it is what C15's histories can break). *)
Definition inv_b (st : store) : bool :=
  nodupb (ids (db st)) && nodup_pairb (assoc st)
  && forallb (fun k => memp (snd k) (ids (db st))) (assoc st).
