(** Executable glue for the correspondence check of C12: canonical form of a streamed result
    (events of a trace sorted by id, child ids sorted).  No proofs in this file. *)
From Coq Require Import ZArith List Bool.
From V Require Import Store.Rel Store.Stream.
Import ListNotations.

Fixpoint pins (x : positive) (l : list positive) : list positive :=
  match l with [] => [x] | y :: r => if Pos.leb x y then x :: l else y :: pins x r end.
Definition psort (l : list positive) : list positive := fold_right pins [] l.

Fixpoint eins (x : oevent) (l : list oevent) : list oevent :=
  match l with [] => [x] | y :: r => if Pos.leb (nid (fst x)) (nid (fst y)) then x :: l else y :: eins x r end.
Definition esort (l : list oevent) : list oevent := fold_right eins [] l.

Definition canon_stream (s : list (positive * list (list oevent))) : list (positive * list (list oevent)) :=
  map (fun nj => (fst nj, map (fun j => esort (map (fun e => (fst e, psort (snd e))) j)) (snd nj))) s.

Definition oevent_eqb (a b : oevent) : bool := node_eqb (fst a) (fst b) && list_eqb Pos.eqb (snd a) (snd b).
Definition stream_eqb (a b : list (positive * list (list oevent))) : bool :=
  list_eqb (fun x y => Pos.eqb (fst x) (fst y) && list_eqb (list_eqb oevent_eqb) (snd x) (snd y)) a b.
