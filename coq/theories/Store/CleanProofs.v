(** Proofs about the cleaning statements of SQLDataHolder (model: Store/Clean.v) and about the
    effect of cleaning on the streamed OTel events (model: Store/Stream.v).  Property C11. *)
From Coq Require Import ZArith List Bool Lia.
From V Require Import Store.Rel Store.Clean Store.Stream Store.Ingest.
Import ListNotations.
Open Scope Z_scope.

(* ------------------------------------------------------------------------------------------ *)
(** * Generic list / boolean facts *)

Lemma bool_eq_iff (a b : bool) : (a = true <-> b = true) -> a = b.
Proof. destruct a, b; intros [H1 H2]; auto; try (symmetry; auto). Qed.

Lemma memp_In k l : memp k l = true <-> In k l.
Proof.
  induction l as [|x r IH]; cbn [memp In].
  - split; [discriminate | intros []].
  - rewrite orb_true_iff, Pos.eqb_eq, IH. split; intros [H|H]; auto.
Qed.

Lemma memp_false k l : memp k l = false <-> ~ In k l.
Proof.
  rewrite <- memp_In. destruct (memp k l); split; intros H; auto; try discriminate.
  exfalso; apply H; reflexivity.
Qed.

Lemma filter_all_true {A} (f : A -> bool) l : (forall x, In x l -> f x = true) -> filter f l = l.
Proof.
  induction l as [|x r IH]; intros H; cbn [filter]; auto.
  rewrite (H x (or_introl eq_refl)). f_equal. apply IH. intros y Hy. apply H. right; exact Hy.
Qed.

Lemma filter_pointwise {A} (f g : A -> bool) l :
  (forall x, In x l -> f x = g x) -> filter f l = filter g l.
Proof.
  induction l as [|x r IH]; intros H; cbn [filter]; auto.
  rewrite (H x (or_introl eq_refl)), IH; auto. intros y Hy. apply H. right; exact Hy.
Qed.

Lemma filter_filter_and {A} (f g : A -> bool) l :
  filter g (filter f l) = filter (fun x => f x && g x) l.
Proof.
  induction l as [|x r IH]; cbn [filter]; auto.
  destruct (f x) eqn:Hf; cbn [filter andb].
  - destruct (g x); rewrite IH; reflexivity.
  - exact IH.
Qed.

Lemma filter_absorb {A} (g h : A -> bool) l :
  (forall k, g k = true -> h k = true) -> filter g (filter h l) = filter g l.
Proof.
  intros H. rewrite filter_filter_and. apply filter_pointwise. intros x _.
  destruct (g x) eqn:Hg.
  - rewrite (H x Hg). reflexivity.
  - apply andb_false_r.
Qed.

Lemma NoDup_map_In_inj {A B} (f : A -> B) l x y :
  NoDup (map f l) -> In x l -> In y l -> f x = f y -> x = y.
Proof.
  induction l as [|a r IH]; cbn [map In]; intros Hnd Hx Hy Hf; [contradiction|].
  inversion Hnd as [|? ? Hnotin Hnd']; subst.
  destruct Hx as [Hx|Hx], Hy as [Hy|Hy]; subst; auto.
  - exfalso. apply Hnotin. rewrite Hf. apply in_map. exact Hy.
  - exfalso. apply Hnotin. rewrite <- Hf. apply in_map. exact Hx.
Qed.

Lemma Forall2_map_r {A B} (R : A -> B -> Prop) (f : A -> B) l :
  (forall x, In x l -> R x (f x)) -> Forall2 R l (map f l).
Proof.
  induction l as [|x r IH]; intros H; cbn [map]; constructor.
  - apply H. left; reflexivity.
  - apply IH. intros y Hy. apply H. right; exact Hy.
Qed.

(* ------------------------------------------------------------------------------------------ *)
(** * 1. remove_inconsistent_jobs *)

(** trace [j] has a span that is the child of an association row whose parent is not stored *)
Definition Dangling (st : store) (j : positive) : Prop :=
  exists c p, In c (db st) /\ njob c = j /\ In (p, nid c) (assoc st) /\ ~ In p (ids (db st)).

Lemma missing_parents_In st p :
  In p (missing_parents st) <-> (exists c, In (p, c) (assoc st)) /\ ~ In p (ids (db st)).
Proof.
  unfold missing_parents. rewrite filter_In, in_map_iff. split.
  - intros [[[p' c] [Hf Hin]] Hn]. cbn [fst] in Hf. subst p'.
    apply negb_true_iff, memp_false in Hn. split; eauto.
  - intros [[c Hin] Hn]. split.
    + exists (p, c). split; auto.
    + apply negb_true_iff, memp_false. exact Hn.
Qed.

Lemma is_dangling_child_spec st n :
  is_dangling_child st n = true <-> exists p, In (p, nid n) (assoc st) /\ ~ In p (ids (db st)).
Proof.
  unfold is_dangling_child. rewrite existsb_exists. split.
  - intros [[p c] [Hin H]]. cbn [fst snd] in H. apply andb_true_iff in H as [H1 H2].
    apply Pos.eqb_eq in H1. subst c. apply memp_In, missing_parents_In in H2 as [_ H2].
    exists p. split; auto.
  - intros [p [Hin Hn]]. exists (p, nid n). split; auto. cbn [fst snd].
    rewrite Pos.eqb_refl. cbn [andb]. apply memp_In, missing_parents_In. split; eauto.
Qed.

Lemma bad_jobs_In st j : In j (bad_jobs st) <-> Dangling st j.
Proof.
  unfold bad_jobs, Dangling. rewrite in_map_iff. split.
  - intros [c [Hj Hc]]. apply filter_In in Hc as [Hc Hd].
    apply is_dangling_child_spec in Hd as [p [Hp Hn]]. exists c, p. auto.
  - intros [c [p [Hc [Hj [Hp Hn]]]]]. exists c. split; auto. apply filter_In. split; auto.
    apply is_dangling_child_spec. eauto.
Qed.

Theorem dangling_exact st n :
  In n (db (rm_inconsistent st)) <-> In n (db st) /\ ~ Dangling st (njob n).
Proof.
  unfold rm_inconsistent; cbn [db]. rewrite filter_In.
  split; intros [H1 H2]; split; auto.
  - apply negb_true_iff, memp_false in H2. rewrite bad_jobs_In in H2. exact H2.
  - apply negb_true_iff, memp_false. rewrite bad_jobs_In. exact H2.
Qed.

(* ------------------------------------------------------------------------------------------ *)
(** * 2. remove_jobs_outside_of_time_window *)

Definition InWindow (w : Z * Z) (st : store) (j : positive) : Prop :=
  exists n, In n (db st) /\ njob n = j /\
            ((fst w <= nst n <= snd w) \/ (fst w <= nen n <= snd w)).

Lemma in_window_spec w n :
  in_window w n = true <-> (fst w <= nst n <= snd w) \/ (fst w <= nen n <= snd w).
Proof. unfold in_window. rewrite orb_true_iff, !andb_true_iff, !Z.leb_le. lia. Qed.

Lemma window_jobs_In w st j : In j (window_jobs w st) <-> InWindow w st j.
Proof.
  unfold window_jobs, InWindow. rewrite in_map_iff. split.
  - intros [n [Hj Hn]]. apply filter_In in Hn as [Hn Hw]. apply in_window_spec in Hw.
    exists n. auto.
  - intros [n [Hn [Hj Hw]]]. exists n. split; auto. apply filter_In. split; auto.
    apply in_window_spec. exact Hw.
Qed.

Theorem window_exact w st n :
  In n (db (rm_outside w st)) <-> In n (db st) /\ InWindow w st (njob n).
Proof.
  unfold rm_outside; cbn [db]. rewrite filter_In.
  split; intros [H1 H2]; split; auto.
  - apply memp_In, window_jobs_In in H2. exact H2.
  - apply memp_In, window_jobs_In. exact H2.
Qed.

(** A trace whose only span starts before [lo] and ends after [hi] is removed: neither its start
    nor its end lies in the window.  This is what the SQL and the property statement both say. *)
Example straddle_not_in_window :
  let st := mkstore [mknode 1 None 1 1 1 5 25 1] [] [] in
  db (rm_outside (10, 20) st) = [] /\ ~ InWindow (10, 20) st 1%positive.
Proof.
  split; [vm_compute; reflexivity|].
  intros [n [Hn [_ Hw]]]. cbn [db In] in Hn. destruct Hn as [<-|[]].
  cbn [fst snd nst nen] in Hw. lia.
Qed.

(* ------------------------------------------------------------------------------------------ *)
(** * 3. The deletions are filters; whole traces go or stay *)

Theorem deletions_are_sublists :
  (forall st,
      db (rm_inconsistent st) = filter (fun n => negb (memp (njob n) (bad_jobs st))) (db st)
      /\ assoc (rm_inconsistent st) = prune_assoc (db (rm_inconsistent st)) (assoc st)
      /\ hashes (rm_inconsistent st) = hashes st)
  /\ (forall w st,
      db (rm_outside w st) = filter (fun n => memp (njob n) (window_jobs w st)) (db st)
      /\ assoc (rm_outside w st) = prune_assoc (db (rm_outside w st)) (assoc st)
      /\ hashes (rm_outside w st) = hashes st)
  /\ (forall st n n', In n (db st) -> In n' (db st) -> njob n = njob n' ->
        (In n (db (rm_inconsistent st)) <-> In n' (db (rm_inconsistent st))))
  /\ (forall w st n n', In n (db st) -> In n' (db st) -> njob n = njob n' ->
        (In n (db (rm_outside w st)) <-> In n' (db (rm_outside w st)))).
Proof.
  split; [|split; [|split]].
  - intros st. repeat split.
  - intros w st. repeat split.
  - intros st n n' Hn Hn' Hj. rewrite !dangling_exact, Hj. tauto.
  - intros w st n n' Hn Hn' Hj. rewrite !window_exact, Hj. tauto.
Qed.

(* ------------------------------------------------------------------------------------------ *)
(** * 4. update_job_names_by_root_span *)

(** the row [n] after the UPDATE *)
Definition renamed (st : store) (n : node) : node :=
  match root_name st (njob n) with Some nm => set_name n nm | None => n end.

Lemma update_names_db st : db (update_names st) = map (renamed st) (db st).
Proof. reflexivity. Qed.

Lemma root_name_unique_root st r :
  In r (db st) -> is_root r = true ->
  (forall r', In r' (db st) -> is_root r' = true -> njob r' = njob r -> r' = r) ->
  root_name st (njob r) = Some (nname r).
Proof.
  intros Hr Hroot Huniq. unfold root_name.
  destruct (filter (fun r0 => is_root r0 && Pos.eqb (njob r0) (njob r)) (db st)) as [|r' l] eqn:E.
  - exfalso. assert (Hin : In r (filter (fun r0 => is_root r0 && Pos.eqb (njob r0) (njob r)) (db st))).
    { apply filter_In. split; auto. rewrite Hroot, Pos.eqb_refl. reflexivity. }
    rewrite E in Hin. exact Hin.
  - assert (Hin : In r' (filter (fun r0 => is_root r0 && Pos.eqb (njob r0) (njob r)) (db st))).
    { rewrite E. left; reflexivity. }
    apply filter_In in Hin as [Hin Hp]. apply andb_true_iff in Hp as [Hp1 Hp2].
    apply Pos.eqb_eq in Hp2. rewrite (Huniq r' Hin Hp1 Hp2). reflexivity.
Qed.

Lemma root_name_no_root st j :
  (forall r, In r (db st) -> njob r = j -> is_root r = false) -> root_name st j = None.
Proof.
  intros H. unfold root_name.
  destruct (filter (fun r0 => is_root r0 && Pos.eqb (njob r0) j) (db st)) as [|r' l] eqn:E; auto.
  exfalso. assert (Hin : In r' (filter (fun r0 => is_root r0 && Pos.eqb (njob r0) j) (db st))).
  { rewrite E. left; reflexivity. }
  apply filter_In in Hin as [Hin Hp]. apply andb_true_iff in Hp as [Hp1 Hp2].
  apply Pos.eqb_eq in Hp2. rewrite (H r' Hin Hp2) in Hp1. discriminate.
Qed.

Lemma renamed_fields st n :
  nid (renamed st n) = nid n /\ npar (renamed st n) = npar n /\ njob (renamed st n) = njob n
  /\ nty (renamed st n) = nty n /\ nst (renamed st n) = nst n /\ nen (renamed st n) = nen n
  /\ napp (renamed st n) = napp n.
Proof. unfold renamed. destruct (root_name st (njob n)); repeat split. Qed.

Lemma renamed_njob st n : njob (renamed st n) = njob n.
Proof. apply renamed_fields. Qed.
Lemma renamed_nid st n : nid (renamed st n) = nid n.
Proof. apply renamed_fields. Qed.

Theorem name_by_root st r :
  In r (db st) -> is_root r = true ->
  (forall r', In r' (db st) -> is_root r' = true -> njob r' = njob r -> r' = r) ->
  forall n, In n (db (update_names st)) -> njob n = njob r -> nname n = nname r.
Proof.
  intros Hr Hroot Huniq n Hn Hj. rewrite update_names_db in Hn.
  apply in_map_iff in Hn as [m [Hm Hin]]. subst n. rewrite renamed_njob in Hj.
  unfold renamed. rewrite Hj, (root_name_unique_root st r Hr Hroot Huniq). reflexivity.
Qed.

(** Nothing but [nname] changes; row count and row order are preserved (position-wise relation
    between the table before and after); a trace without a root span is left untouched; the other
    two tables are not written. *)
Theorem names_frame st :
  assoc (update_names st) = assoc st /\ hashes (update_names st) = hashes st
  /\ length (db (update_names st)) = length (db st)
  /\ Forall2 (fun n n' =>
        nid n' = nid n /\ npar n' = npar n /\ njob n' = njob n /\ nty n' = nty n
        /\ nst n' = nst n /\ nen n' = nen n /\ napp n' = napp n
        /\ ((forall r, In r (db st) -> njob r = njob n -> is_root r = false) -> n' = n))
      (db st) (db (update_names st)).
Proof.
  split; [reflexivity|]. split; [reflexivity|]. split.
  - rewrite update_names_db. apply map_length.
  - rewrite update_names_db. apply Forall2_map_r. intros n Hn.
    destruct (renamed_fields st n) as (H1 & H2 & H3 & H4 & H5 & H6 & H7).
    repeat (split; [assumption|]).
    intros Hnoroot. unfold renamed. rewrite (root_name_no_root st (njob n) Hnoroot). reflexivity.
Qed.

(* ------------------------------------------------------------------------------------------ *)
(** * 5. The composition, in otel_to_pv's order *)

Lemma root_filter_jobfilter (f : positive -> bool) j l :
  f j = true ->
  filter (fun r => is_root r && Pos.eqb (njob r) j) (filter (fun n => f (njob n)) l)
  = filter (fun r => is_root r && Pos.eqb (njob r) j) l.
Proof.
  intros Hf. apply filter_absorb. intros k Hk. apply andb_true_iff in Hk as [_ Hk].
  apply Pos.eqb_eq in Hk. rewrite Hk. exact Hf.
Qed.

Lemma root_name_rm_inconsistent st j :
  ~ Dangling st j -> root_name (rm_inconsistent st) j = root_name st j.
Proof.
  intros H. unfold root_name, rm_inconsistent; cbn [db].
  rewrite (root_filter_jobfilter (fun j => negb (memp j (bad_jobs st)))); auto.
  apply negb_true_iff, memp_false. rewrite bad_jobs_In. exact H.
Qed.

Lemma root_name_rm_outside w st j :
  InWindow w st j -> root_name (rm_outside w st) j = root_name st j.
Proof.
  intros H. unfold root_name, rm_outside; cbn [db].
  rewrite (root_filter_jobfilter (fun j => memp j (window_jobs w st))); auto.
  apply memp_In, window_jobs_In. exact H.
Qed.

Theorem inwindow_after_inconsistent w st j :
  InWindow w (rm_inconsistent st) j <-> InWindow w st j /\ ~ Dangling st j.
Proof.
  split.
  - intros [n [Hn [Hj Hw]]]. apply dangling_exact in Hn as [Hn Hd]. subst j. split; auto.
    exists n. auto.
  - intros [[n [Hn [Hj Hw]]] Hd]. exists n. split; auto. apply dangling_exact. subst j. auto.
Qed.

(** list-level form: the cleaned table is the original one, filtered, then renamed by the roots
    found in the ORIGINAL table (removing whole other traces does not change a trace's root). *)
Theorem clean_db w st :
  db (clean w st) = map (renamed st) (db (rm_outside w (rm_inconsistent st))).
Proof.
  unfold clean. rewrite update_names_db. apply map_ext_in. intros n Hn.
  apply window_exact in Hn as [Hn Hw]. apply dangling_exact in Hn as [Hn Hd].
  unfold renamed. rewrite (root_name_rm_outside _ _ _ Hw), (root_name_rm_inconsistent _ _ Hd).
  reflexivity.
Qed.

Theorem clean_exact w st n' :
  In n' (db (clean w st)) <->
  exists n, In n (db st) /\ ~ Dangling st (njob n) /\ InWindow w (rm_inconsistent st) (njob n)
            /\ n' = renamed st n.
Proof.
  rewrite clean_db, in_map_iff. split.
  - intros [n [He Hn]]. apply window_exact in Hn as [Hn Hw]. apply dangling_exact in Hn as [Hn Hd].
    exists n. auto.
  - intros [n [Hn [Hd [Hw He]]]]. exists n. split; auto. apply window_exact. split; auto.
    apply dangling_exact. auto.
Qed.

(** the same, with the window condition evaluated on the original table *)
Theorem clean_exact' w st n' :
  In n' (db (clean w st)) <->
  exists n, In n (db st) /\ ~ Dangling st (njob n) /\ InWindow w st (njob n) /\ n' = renamed st n.
Proof.
  rewrite clean_exact. split; intros [n [Hn [Hd [Hw He]]]]; exists n; repeat split; auto.
  - apply inwindow_after_inconsistent in Hw. tauto.
  - apply inwindow_after_inconsistent. tauto.
Qed.

(** after cleaning every span of a trace carries the workflow name of the trace's root span *)
Theorem clean_names_by_root w st r :
  In r (db st) -> is_root r = true ->
  (forall r', In r' (db st) -> is_root r' = true -> njob r' = njob r -> r' = r) ->
  forall n, In n (db (clean w st)) -> njob n = njob r -> nname n = nname r.
Proof.
  intros Hr Hroot Huniq n Hn Hj. apply clean_exact in Hn as [m [_ [_ [_ He]]]]. subst n.
  rewrite renamed_njob in Hj. unfold renamed.
  rewrite Hj, (root_name_unique_root st r Hr Hroot Huniq). reflexivity.
Qed.

Lemma kept_jobs_In w st j :
  In j (kept_jobs w st) <-> InWindow w st j /\ ~ Dangling st j.
Proof.
  rewrite <- inwindow_after_inconsistent. unfold kept_jobs. rewrite in_map_iff. split.
  - intros [n' [Hj Hn']]. apply clean_exact in Hn' as [n [_ [_ [Hw He]]]]. subst n' j.
    rewrite renamed_njob. exact Hw.
  - intros Hw. assert (Hw' := Hw). destruct Hw' as [n [Hn [Hj _]]]. exists (renamed st n). split.
    + rewrite renamed_njob. exact Hj.
    + apply clean_exact. exists n. apply dangling_exact in Hn as [Hn Hd]. subst j.
      repeat split; auto.
Qed.

(* ------------------------------------------------------------------------------------------ *)
(** * 6. The kept traces are cleaned and streamed as if the removed traces had never been ingested *)

(** every parent link stays inside its own trace, or dangles *)
Definition TraceClosed (st : store) : Prop :=
  forall p c n, In (p, c) (assoc st) -> In n (db st) -> nid n = c ->
    (~ In p (ids (db st)) \/ exists np, In np (db st) /\ nid np = p /\ njob np = njob n).

Definition trace_closedb (st : store) : bool :=
  forallb (fun k =>
    forallb (fun n =>
      negb (Pos.eqb (nid n) (snd k)) || negb (memp (fst k) (ids (db st)))
      || existsb (fun np => Pos.eqb (nid np) (fst k) && Pos.eqb (njob np) (njob n)) (db st))
      (db st)) (assoc st).

Lemma trace_closedb_sound st : trace_closedb st = true -> TraceClosed st.
Proof.
  unfold trace_closedb, TraceClosed. intros H p c n Hk Hn Hc.
  rewrite forallb_forall in H. specialize (H _ Hk). rewrite forallb_forall in H.
  specialize (H _ Hn). cbn [fst snd] in H.
  apply orb_true_iff in H as [H|H]; [apply orb_true_iff in H as [H|H]|].
  - apply negb_true_iff, Pos.eqb_neq in H. contradiction.
  - left. apply negb_true_iff, memp_false in H. exact H.
  - right. apply existsb_exists in H as [np [Hnp H]]. apply andb_true_iff in H as [H1 H2].
    apply Pos.eqb_eq in H1, H2. exists np. auto.
Qed.

Lemma nodupb_sound l : nodupb l = true -> NoDup l.
Proof.
  induction l as [|x r IH]; cbn [nodupb]; intros H; constructor.
  - apply andb_true_iff in H as [H _]. apply negb_true_iff, memp_false in H. exact H.
  - apply IH. apply andb_true_iff in H as [_ H]. exact H.
Qed.

Lemma restrict_kept_db w st :
  db (restrict (kept_jobs w st) st) = db (rm_outside w (rm_inconsistent st)).
Proof.
  unfold restrict, rm_outside; cbn [db]. unfold rm_inconsistent at 2; cbn [db].
  rewrite filter_filter_and. apply filter_pointwise. intros n Hn. apply bool_eq_iff.
  rewrite andb_true_iff, negb_true_iff, memp_false, !memp_In, bad_jobs_In, window_jobs_In,
    kept_jobs_In, inwindow_after_inconsistent. tauto.
Qed.

Lemma restrict_no_dangling w st :
  TraceClosed st -> forall j, ~ Dangling (restrict (kept_jobs w st) st) j.
Proof.
  intros Htc j [c [p [Hc [Hj [Hp Hn]]]]].
  unfold restrict in Hc, Hp, Hn; cbn [db assoc] in Hc, Hp, Hn.
  apply filter_In in Hc as [Hc Hk]. apply filter_In in Hp as [Hp _].
  apply memp_In in Hk. destruct (Htc p (nid c) c Hp Hc eq_refl) as [Hmiss | [np [Hnp [Hid Hjob]]]].
  - apply kept_jobs_In in Hk as [_ Hk]. apply Hk. exists c, p. auto.
  - apply Hn. unfold ids. rewrite <- Hid. apply in_map. apply filter_In. split; auto.
    apply memp_In. rewrite Hjob. exact Hk.
Qed.

Lemma rm_inconsistent_noop st :
  (forall j, ~ Dangling st j) -> db (rm_inconsistent st) = db st.
Proof.
  intros H. unfold rm_inconsistent; cbn [db]. apply filter_all_true. intros n _.
  apply negb_true_iff, memp_false. rewrite bad_jobs_In. apply H.
Qed.

Lemma rm_outside_db_ext w s1 s2 : db s1 = db s2 -> db (rm_outside w s1) = db (rm_outside w s2).
Proof. unfold rm_outside, window_jobs; cbn [db]. intros ->. reflexivity. Qed.

Lemma update_names_db_ext s1 s2 : db s1 = db s2 -> db (update_names s1) = db (update_names s2).
Proof. unfold update_names, root_name; cbn [db]. intros ->. reflexivity. Qed.

Lemma rm_outside_idem w st : db (rm_outside w (rm_outside w st)) = db (rm_outside w st).
Proof.
  unfold rm_outside at 1; cbn [db]. apply filter_all_true. intros n Hn.
  apply memp_In, window_jobs_In. apply window_exact in Hn as [Hn [m [Hm [Hj Hw]]]].
  exists m. split; auto. apply window_exact. split; auto. exists m. auto.
Qed.

(** the nodes table: only [TraceClosed] is needed *)
Theorem clean_restrict_db w st :
  TraceClosed st -> db (clean w (restrict (kept_jobs w st) st)) = db (clean w st).
Proof.
  intros Htc. unfold clean. apply update_names_db_ext.
  rewrite (rm_outside_db_ext w (rm_inconsistent (restrict (kept_jobs w st) st))
             (rm_outside w (rm_inconsistent st))).
  - apply rm_outside_idem.
  - rewrite rm_inconsistent_noop by (apply restrict_no_dangling; exact Htc).
    apply restrict_kept_db.
Qed.

Lemma assoc_clean w st :
  assoc (clean w st)
  = prune_assoc (db (rm_outside w (rm_inconsistent st)))
      (prune_assoc (db (rm_inconsistent st)) (assoc st)).
Proof. reflexivity. Qed.

Lemma ids_clean w st : ids (db (clean w st)) = ids (db (restrict (kept_jobs w st) st)).
Proof.
  rewrite clean_db, restrict_kept_db. unfold ids. rewrite map_map. apply map_ext.
  intros n. apply renamed_nid.
Qed.

Lemma ids_clean_mid w st : ids (db (clean w st)) = ids (db (rm_outside w (rm_inconsistent st))).
Proof.
  rewrite clean_db. unfold ids. rewrite map_map. apply map_ext. intros n. apply renamed_nid.
Qed.

(** the pruned association rows are invisible to NodeModel.children: the child lists of the cleaned
    store can be read off the ORIGINAL association table *)
Lemma children_clean_raw w st n :
  children (clean w st) n
  = map snd (filter (fun k => Pos.eqb (fst k) (nid n) && memp (snd k) (ids (db (clean w st))))
               (assoc st)).
Proof.
  unfold children. rewrite assoc_clean. unfold prune_assoc. f_equal.
  rewrite filter_absorb, filter_absorb; auto.
  - intros k Hk. apply andb_true_iff in Hk as [_ Hk]. rewrite ids_clean_mid in Hk.
    apply memp_In. apply memp_In in Hk. unfold ids in *.
    apply in_map_iff in Hk as [m [Hid Hm]]. apply window_exact in Hm as [Hm _].
    apply in_map_iff. exists m. auto.
  - intros k Hk. apply andb_true_iff in Hk as [_ Hk]. rewrite ids_clean_mid in Hk. exact Hk.
Qed.

Lemma children_clean_restrict w st :
  TraceClosed st -> NoDup (ids (db st)) ->
  forall n, children (clean w (restrict (kept_jobs w st) st)) n = children (clean w st) n.
Proof.
  intros Htc Hnd n. rewrite !children_clean_raw. rewrite (clean_restrict_db w st Htc).
  unfold restrict at 1; cbn [assoc]. f_equal. apply filter_absorb.
  intros k Hk. apply andb_true_iff in Hk as [_ Hk]. rewrite ids_clean in Hk.
  apply memp_In in Hk. unfold restrict in Hk; cbn [db] in Hk. unfold ids in Hk.
  apply in_map_iff in Hk as [n0 [Hid Hn0]]. apply filter_In in Hn0 as [Hn0 Hk0].
  apply negb_true_iff, memp_false. intros Hgone. unfold ids in Hgone.
  apply in_map_iff in Hgone as [m [Hidm Hm]]. apply filter_In in Hm as [Hm Hkm].
  assert (n0 = m) as ->.
  { apply (NoDup_map_In_inj nid (db st)); auto. congruence. }
  rewrite Hk0 in Hkm. discriminate.
Qed.

Lemma rows_db_ext fm fn s1 s2 : db s1 = db s2 -> rows fm fn s1 = rows fm fn s2.
Proof. unfold rows. intros ->. reflexivity. Qed.

Lemma stream_of_rows_ext s1 s2 rs :
  (forall n, children s1 n = children s2 n) -> stream_of_rows s1 rs = stream_of_rows s2 rs.
Proof.
  intros H. unfold stream_of_rows. apply map_ext. intros ng. f_equal.
  apply map_ext. intros jg. apply map_ext. intros n. rewrite H. reflexivity.
Qed.

Theorem clean_pv_frame w st :
  TraceClosed st -> NoDup (ids (db st)) ->
  let K := kept_jobs w st in
  db (clean w (restrict K st)) = db (clean w st)
  /\ forall fm fn, stream fm fn (clean w (restrict K st)) = stream fm fn (clean w st).
Proof.
  intros Htc Hnd K. subst K. split.
  - apply clean_restrict_db. exact Htc.
  - intros fm fn. unfold stream.
    rewrite (rows_db_ext fm fn _ _ (clean_restrict_db w st Htc)).
    apply stream_of_rows_ext. apply children_clean_restrict; assumption.
Qed.

(** Without [TraceClosed] the statement fails: span 1 (trace 1, inside the window) has its parent
    span 2 in trace 2, which lies outside the window.  In the real run trace 1 survives (its parent
    was stored when remove_inconsistent_jobs ran); had trace 2 never been ingested, trace 1 would
    have a dangling parent and be deleted. *)
Example clean_pv_frame_needs_trace_closed :
  exists w st, NoDup (ids (db st)) /\ ~ TraceClosed st
    /\ db (clean w (restrict (kept_jobs w st) st)) <> db (clean w st)
    /\ (forall fm fn, stream fm fn (clean w (restrict (kept_jobs w st) st)) = [])
    /\ stream [] [] (clean w st) <> [].
Proof.
  exists (10, 20).
  exists (mkstore [mknode 1 (Some 2%positive) 1 1 1 12 13 1; mknode 2 None 2 1 1 1 2 1]
                  [(2, 1)%positive] []).
  assert (Hneq : db (clean (10, 20) (restrict (kept_jobs (10, 20)
     (mkstore [mknode 1 (Some 2%positive) 1 1 1 12 13 1; mknode 2 None 2 1 1 1 2 1]
              [(2, 1)%positive] []))
     (mkstore [mknode 1 (Some 2%positive) 1 1 1 12 13 1; mknode 2 None 2 1 1 1 2 1]
              [(2, 1)%positive] [])))
   <> db (clean (10, 20) (mkstore [mknode 1 (Some 2%positive) 1 1 1 12 13 1; mknode 2 None 2 1 1 1 2 1]
              [(2, 1)%positive] []))).
  { vm_compute. discriminate. }
  split; [apply nodupb_sound; vm_compute; reflexivity|].
  split; [intros Htc; apply Hneq; apply clean_restrict_db; exact Htc|].
  split; [exact Hneq|]. split.
  - intros fm fn. vm_compute. reflexivity.
  - vm_compute. discriminate.
Qed.

(** [NoDup] of the event ids (the UNIQUE constraint) is what the child lists need: with a
    duplicated id in a removed trace, [restrict] would drop association rows of a kept trace. *)
Example clean_pv_frame_needs_nodup :
  exists w st, TraceClosed st /\ ~ NoDup (ids (db st))
    /\ db (clean w (restrict (kept_jobs w st) st)) = db (clean w st)
    /\ stream [] [] (clean w (restrict (kept_jobs w st) st)) <> stream [] [] (clean w st).
Proof.
  exists (10, 20).
  exists (mkstore [mknode 1 None 1 1 1 12 13 1; mknode 2 (Some 1%positive) 1 1 1 12 13 1;
                   mknode 1 None 2 1 1 1 2 1; mknode 2 (Some 1%positive) 2 1 1 1 2 1]
                  [(1, 2)%positive] []).
  split; [apply trace_closedb_sound; vm_compute; reflexivity|].
  split.
  - intros H. cbn in H. inversion H as [|? ? Hn _].
    apply Hn. right; left; reflexivity.
  - split; [vm_compute; reflexivity | vm_compute; discriminate].
Qed.

(* ------------------------------------------------------------------------------------------ *)
(** * 6b. No stale association rows after cleaning; the repair does not change the output *)

Theorem clean_no_stale w st :
  forall p c, In (p, c) (assoc (clean w st)) -> In c (ids (db (clean w st))).
Proof.
  intros p c H. rewrite assoc_clean in H. unfold prune_assoc at 1 in H.
  apply filter_In in H as [_ H]. cbn [snd] in H. apply memp_In in H.
  rewrite ids_clean_mid. exact H.
Qed.

Lemma nodupb_complete l : NoDup l -> nodupb l = true.
Proof.
  induction 1 as [|x r Hx Hr IH]; cbn [nodupb]; auto.
  rewrite IH, andb_true_r. apply negb_true_iff, memp_false. exact Hx.
Qed.

Lemma pair_eqb_eq a b : pair_eqb a b = true <-> a = b.
Proof.
  unfold pair_eqb. rewrite andb_true_iff, !Pos.eqb_eq. destruct a, b; cbn [fst snd].
  split; [intros [-> ->]; reflexivity | intros E; injection E; auto].
Qed.

Lemma mempair_In k l : mempair k l = true <-> In k l.
Proof.
  induction l as [|x r IH]; cbn [mempair In].
  - split; [discriminate | intros []].
  - rewrite orb_true_iff, pair_eqb_eq, IH. split; intros [H|H]; auto.
Qed.

Lemma nodup_pairb_iff l : nodup_pairb l = true <-> NoDup l.
Proof.
  induction l as [|x r IH]; cbn [nodup_pairb].
  - split; [constructor | reflexivity].
  - rewrite andb_true_iff, negb_true_iff, IH. split.
    + intros [H1 H2]. constructor; auto. intros Hin. apply mempair_In in Hin. congruence.
    + intros H. inversion H as [|? ? Hx Hr]; subst. split; auto.
      destruct (mempair x r) eqn:E; auto. apply mempair_In in E. contradiction.
Qed.

Lemma NoDup_filter' {A} (f : A -> bool) l : NoDup l -> NoDup (filter f l).
Proof.
  induction 1 as [|x r Hx Hr IH]; cbn [filter]; [constructor|].
  destruct (f x); auto. constructor; auto. intros Hin. apply filter_In in Hin as [Hin _]. auto.
Qed.

Lemma NoDup_map_filter {A B} (f : A -> B) (g : A -> bool) l :
  NoDup (map f l) -> NoDup (map f (filter g l)).
Proof.
  induction l as [|x r IH]; cbn [map filter]; intros H; [constructor|].
  inversion H as [|? ? Hx Hr]; subst. destruct (g x); cbn [map]; auto.
  constructor; auto. intros Hin. apply Hx. apply in_map_iff in Hin as [y [Hy Hin]].
  apply filter_In in Hin as [Hin _]. rewrite <- Hy. apply in_map. exact Hin.
Qed.

(** cleaning re-establishes (and preserves) the store invariant of Ingest: unique event ids, unique
    association rows, every association child stored.  The third conjunct holds after cleaning
    whatever the input was. *)
Theorem clean_inv_b_strong w st :
  nodupb (ids (db st)) = true -> nodup_pairb (assoc st) = true -> inv_b (clean w st) = true.
Proof.
  intros Hn Ha. unfold inv_b. rewrite !andb_true_iff. split; [split|].
  - apply nodupb_complete. rewrite ids_clean_mid. unfold ids, rm_outside, rm_inconsistent; cbn [db].
    apply NoDup_map_filter, NoDup_map_filter. apply nodupb_sound. exact Hn.
  - apply nodup_pairb_iff. rewrite assoc_clean. unfold prune_assoc.
    apply NoDup_filter', NoDup_filter'. apply nodup_pairb_iff. exact Ha.
  - apply forallb_forall. intros [p c] Hk. cbn [snd]. apply memp_In.
    apply (clean_no_stale w st p c Hk).
Qed.

Theorem clean_inv_b w st : inv_b st = true -> inv_b (clean w st) = true.
Proof.
  unfold inv_b at 1. rewrite !andb_true_iff. intros [[Hn Ha] _].
  apply clean_inv_b_strong; assumption.
Qed.

(** The nodes table and the streamed events of the repaired cleaning are those of the pinned
    tree's cleaning: the repair only removes association rows that stream_data never sees. *)
Theorem clean_v0_same_output w st :
  db (clean w st) = db (clean_v0 w st)
  /\ forall fm fn, stream fm fn (clean w st) = stream fm fn (clean_v0 w st).
Proof.
  split; [reflexivity|]. intros fm fn. unfold stream.
  change (rows fm fn (clean_v0 w st)) with (rows fm fn (clean w st)).
  apply stream_of_rows_ext. intros n. rewrite children_clean_raw. reflexivity.
Qed.

(** On the pinned tree the cleaning left the association rows of the deleted nodes behind: trace 2
    (spans 2 and 3, row (2,3)) lies outside the window and is deleted, its association row stays,
    so the store no longer satisfies [inv_b]; the repaired cleaning removes the row. *)
Example clean_v0_leaves_stale :
  let st := mkstore [mknode 1 None 1 1 1 12 13 1; mknode 2 None 2 1 1 1 2 1;
                     mknode 3 (Some 2%positive) 2 1 1 1 2 1]
                    [(2, 3)%positive] [] in
  inv_b st = true
  /\ ids (db (clean_v0 (10, 20) st)) = [1%positive]
  /\ assoc (clean_v0 (10, 20) st) = [(2, 3)%positive]
  /\ inv_b (clean_v0 (10, 20) st) = false
  /\ assoc (clean (10, 20) st) = []
  /\ inv_b (clean (10, 20) st) = true.
Proof. vm_compute. repeat split. Qed.

(* ------------------------------------------------------------------------------------------ *)
(** * 7. get_time_window and the timestamp trackers *)

Theorem window_spec b mn mx lo hi :
  window b mn mx = Some (lo, hi) <->
  lo = eff_min mn mx + b * 60 * 1000000000 /\ hi = eff_max mn mx - b * 60 * 1000000000 /\ lo < hi.
Proof.
  unfold window. cbv zeta.
  destruct (Z.leb_spec (eff_max mn mx - b * 60 * 1000000000) (eff_min mn mx + b * 60 * 1000000000))
    as [H|H].
  - split; [discriminate | lia].
  - split.
    + intros E. injection E as <- <-. lia.
    + intros (-> & -> & _). reflexivity.
Qed.

(** the ValueError branch *)
Theorem window_none b mn mx :
  window b mn mx = None <->
  eff_max mn mx - b * 60 * 1000000000 <= eff_min mn mx + b * 60 * 1000000000.
Proof.
  unfold window. cbv zeta.
  destruct (Z.leb_spec (eff_max mn mx - b * 60 * 1000000000) (eff_min mn mx + b * 60 * 1000000000))
    as [H|H].
  - split; auto.
  - split; [discriminate | lia].
Qed.

Lemma track_split evs a b :
  fold_left (fun mm n => (Z.min (fst mm) (nst n), Z.max (snd mm) (nen n))) evs (a, b)
  = (fold_left (fun m n => Z.min m (nst n)) evs a, fold_left (fun m n => Z.max m (nen n)) evs b).
Proof.
  revert a b. induction evs as [|x r IH]; intros a b; cbn [fold_left fst snd]; auto.
Qed.

Lemma fold_min_spec evs a :
  let m := fold_left (fun m n => Z.min m (nst n)) evs a in
  m <= a /\ (forall n, In n evs -> m <= nst n) /\ (m = a \/ exists n, In n evs /\ m = nst n).
Proof.
  revert a. induction evs as [|x r IH]; intros a; cbn [fold_left In].
  - split; [lia|]. split; [intros n []|]. left; reflexivity.
  - specialize (IH (Z.min a (nst x))). cbv zeta in IH. destruct IH as (H1 & H2 & H3).
    split; [lia|]. split.
    + intros n [<-|Hn]; [lia | apply H2; exact Hn].
    + destruct H3 as [H3 | [n [Hn H3]]].
      * destruct (Z.min_spec a (nst x)) as [[_ E]|[_ E]].
        -- left. rewrite H3. exact E.
        -- right. exists x. split; [left; reflexivity|]. rewrite H3. exact E.
      * right. exists n. auto.
Qed.

Lemma fold_max_spec evs a :
  let m := fold_left (fun m n => Z.max m (nen n)) evs a in
  a <= m /\ (forall n, In n evs -> nen n <= m) /\ (m = a \/ exists n, In n evs /\ m = nen n).
Proof.
  revert a. induction evs as [|x r IH]; intros a; cbn [fold_left In].
  - split; [lia|]. split; [intros n []|]. left; reflexivity.
  - specialize (IH (Z.max a (nen x))). cbv zeta in IH. destruct IH as (H1 & H2 & H3).
    split; [lia|]. split.
    + intros n [<-|Hn]; [lia | apply H2; exact Hn].
    + destruct H3 as [H3 | [n [Hn H3]]].
      * destruct (Z.max_spec a (nen x)) as [[_ E]|[_ E]].
        -- right. exists x. split; [left; reflexivity|]. rewrite H3. exact E.
        -- left. rewrite H3. exact E.
      * right. exists n. auto.
Qed.

(** [fst (track evs)] is the minimum of [int64_max] and all start timestamps,
    [snd (track evs)] the maximum of [0] and all end timestamps. *)
Theorem track_spec evs :
  (fst (track evs) <= int64_max
   /\ (forall n, In n evs -> fst (track evs) <= nst n)
   /\ (fst (track evs) = int64_max \/ exists n, In n evs /\ fst (track evs) = nst n))
  /\ (0 <= snd (track evs)
   /\ (forall n, In n evs -> nen n <= snd (track evs))
   /\ (snd (track evs) = 0 \/ exists n, In n evs /\ snd (track evs) = nen n)).
Proof.
  unfold track. rewrite track_split. cbn [fst snd]. split.
  - apply fold_min_spec.
  - apply fold_max_spec.
Qed.

(* ------------------------------------------------------------------------------------------ *)
(** * 8. Non-vacuity *)

(** trace 1: complete, inside the window;  trace 2: span 5 has a parent (99) that is not stored;
    trace 3: entirely before the window;  trace 4: complete, the child carries another workflow
    name (3) than the root (2). *)
Definition ex_store : store :=
  mkstore
    [ mknode 1 None 1 1 1 100 200 1;
      mknode 2 (Some 1%positive) 1 1 1 110 150 1;
      mknode 4 None 2 1 1 100 200 1;
      mknode 5 (Some 99%positive) 2 1 1 120 130 1;
      mknode 6 None 3 1 1 1 5 1;
      mknode 7 None 4 2 1 300 400 1;
      mknode 8 (Some 7%positive) 4 3 1 310 320 1 ]
    [ (1, 2)%positive; (99, 5)%positive; (7, 8)%positive ]
    [].

Example ex_clean :
  db (clean (50, 500) ex_store)
  = [ mknode 1 None 1 1 1 100 200 1;
      mknode 2 (Some 1%positive) 1 1 1 110 150 1;
      mknode 7 None 4 2 1 300 400 1;
      mknode 8 (Some 7%positive) 4 2 1 310 320 1 ].
Proof. vm_compute. reflexivity. Qed.

Example ex_steps :
  ids (db (rm_inconsistent ex_store)) = [1; 2; 6; 7; 8]%positive
  /\ ids (db (rm_outside (50, 500) (rm_inconsistent ex_store))) = [1; 2; 7; 8]%positive
  /\ bad_jobs ex_store = [2%positive]
  /\ kept_jobs (50, 500) ex_store = [1; 1; 4; 4]%positive.
Proof. vm_compute. repeat split. Qed.

Example ex_dangling : Dangling ex_store 2%positive /\ ~ Dangling ex_store 1%positive.
Proof.
  split.
  - apply bad_jobs_In. vm_compute. left; reflexivity.
  - rewrite <- bad_jobs_In. vm_compute. intros [H|[]]. discriminate.
Qed.

Example ex_inwindow :
  InWindow (50, 500) ex_store 1%positive /\ ~ InWindow (50, 500) ex_store 3%positive.
Proof.
  split.
  - apply window_jobs_In. vm_compute. left; reflexivity.
  - rewrite <- window_jobs_In. vm_compute. intros H.
    repeat (destruct H as [H|H]; [discriminate|]). exact H.
Qed.

Example ex_hyps : TraceClosed ex_store /\ NoDup (ids (db ex_store)).
Proof.
  split; [apply trace_closedb_sound | apply nodupb_sound]; vm_compute; reflexivity.
Qed.

Example ex_unique_root :
  let r := mknode 7 None 4 2 1 300 400 1 in
  In r (db ex_store) /\ is_root r = true
  /\ (forall r', In r' (db ex_store) -> is_root r' = true -> njob r' = njob r -> r' = r).
Proof.
  split; [vm_compute; tauto|]. split; [reflexivity|].
  intros r' Hin Hroot Hj. cbn [ex_store db In] in Hin.
  repeat (destruct Hin as [<-|Hin]; [try reflexivity; try discriminate|]). contradiction.
Qed.

Example ex_stream :
  stream [] [] (clean (50, 500) ex_store)
  = [ (1%positive, [ [ (mknode 2 (Some 1%positive) 1 1 1 110 150 1, []);
                       (mknode 1 None 1 1 1 100 200 1, [2%positive]) ] ]);
      (2%positive, [ [ (mknode 8 (Some 7%positive) 4 2 1 310 320 1, []);
                       (mknode 7 None 4 2 1 300 400 1, [8%positive]) ] ]) ]
  /\ stream [] [] (clean (50, 500) (restrict (kept_jobs (50, 500) ex_store) ex_store))
     = stream [] [] (clean (50, 500) ex_store).
Proof. split; vm_compute; reflexivity. Qed.

Example ex_window :
  track (db ex_store) = (1, 400)
  /\ window 0 (fst (track (db ex_store))) (snd (track (db ex_store))) = Some (1, 400)
  /\ window 1 (fst (track (db ex_store))) (snd (track (db ex_store))) = None.
Proof. vm_compute. repeat split. Qed.

Example ex_window_ok :
  track [mknode 1 None 1 1 1 0 600000000000 1] = (0, 600000000000)
  /\ window 1 0 600000000000 = Some (60000000000, 540000000000)
  /\ window 5 0 600000000000 = None
  /\ window 0 int64_max 0 = Some (0, int64_max).
Proof. vm_compute. repeat split. Qed.
