(** Model of one CLI run of otel2pv/otel2puml against a persisted store (otel_to_pv.py:17-112) and of
    histories of such runs over one database file.  Composes Ingest, Clean, Unique and Stream
    exactly in the order otel_to_pv applies them.  No proofs in this file. *)
From Coq Require Import ZArith List Bool.
From V Require Import Store.Rel Store.Ingest Store.Clean Store.Unique Store.Stream.
Import ListNotations.
Open Scope Z_scope.

Record flags := mkflags { f_ingest : bool; f_unique : bool; f_save : bool }.

(** the {job_name: {job_id}} dict built from the selected (name, job) pairs *)
Fixpoint add_sel (nm j : positive) (m : list (positive * list positive)) : list (positive * list positive) :=
  match m with
  | [] => [(nm, [j])]
  | (k, js) :: r => if Pos.eqb k nm then (k, js ++ [j]) :: r else (k, js) :: add_sel nm j r
  end.
Definition sel_map (sel : list (positive * positive)) : list (positive * list positive) :=
  fold_left (fun m p => add_sel (fst p) (snd p) m) sel [].

(** what a run produces: the streamed OTel events per workflow and trace - the sequencer's whole
    input, hence (C08) the PV sequences *)
Definition output := list (positive * list (list oevent)).

(** job_hashes after a -ug run: one row per candidate root (digest strings are not modelled) *)
Definition hash_rows (rows : list (positive * positive * option ctree)) : list (positive * positive * positive) :=
  map (fun r => (fst (fst r), snd (fst r), 1%positive)) rows.

(** one process: [files] are the OTel events of the configured input files, in file order *)
Definition run (bs : nat) (buf : Z) (files : list node) (fl : flags) (st : store) : option (store * output) :=
  match (if f_ingest fl then ingest bs st files else Some st) with
  | None => None                                              (* crash during ingestion *)
  | Some st1 =>
      let '(mn, mx) := if f_ingest fl then track files else (int64_max, 0) in
      match window buf mn mx with
      | None => None                                          (* ValueError: time buffer too large *)
      | Some w =>
          let st2 := clean w st1 in
          if f_unique fl then
            let rows := hashes_ct bs w st2 in
            let st3 := mkstore (db st2) (assoc st2) (hash_rows rows) in   (* table emptied, then refilled *)
            Some (st3, stream (sel_map (select_first [] rows)) [] st3)
          else Some (st2, stream [] [] st2)
      end
  end.

(** the pinned tree: cleaning leaves association rows behind and -ug inserts into job_hashes
    without emptying it (UNIQUE(job_id) -> IntegrityError when a trace id is already there) *)
Definition run_v0 (bs : nat) (buf : Z) (files : list node) (fl : flags) (st : store) : option (store * output) :=
  match (if f_ingest fl then ingest bs st files else Some st) with
  | None => None
  | Some st1 =>
      let '(mn, mx) := if f_ingest fl then track files else (int64_max, 0) in
      match window buf mn mx with
      | None => None
      | Some w =>
          let st2 := clean_v0 w st1 in
          if f_unique fl then
            let rows := hashes_ct bs w st2 in
            if existsb (fun r => memp (fst (fst r)) (map (fun h => fst (fst h)) (hashes st2))) rows then None
            else
              let st3 := mkstore (db st2) (assoc st2) (hashes st2 ++ hash_rows rows) in
              Some (st3, stream (sel_map (select_first [] rows)) [] st3)
          else Some (st2, stream [] [] st2)
      end
  end.

(** a history of separate-process runs over one database file *)
Fixpoint history (bs : nat) (buf : Z) (files : list node) (h : list flags) (st : store)
  : list (option output) :=
  match h with
  | [] => []
  | fl :: r => match run bs buf files fl st with
               | Some (st', o) => Some o :: history bs buf files r st'
               | None => None :: history bs buf files r st      (* a crashed run: later runs see the old file *)
               end
  end.

Fixpoint history_v0 (bs : nat) (buf : Z) (files : list node) (h : list flags) (st : store)
  : list (option output) :=
  match h with
  | [] => []
  | fl :: r => match run_v0 bs buf files fl st with
               | Some (st', o) => Some o :: history_v0 bs buf files r st'
               | None => None :: history_v0 bs buf files r st
               end
  end.

Definition empty_store : store := mkstore [] [] [].
