(** Proofs about the model of SQLDataHolder.stream_data (Store/Stream.v): itertools.groupby laws,
    exactness of the stream for EVERY key-sorted arrangement of the filtered rows, the insertion
    sort standing for ORDER BY, the children join and the two filters. *)
From Coq Require Import ZArith PArith List Bool Lia Sorting.Sorted Sorting.Permutation.
From V Require Import Store.Rel Store.Stream.
Import ListNotations.

(* ------------------------------------------------------------------------------------------ *)
(** * Small list facts *)

Lemma memp_spec : forall k l, memp k l = true <-> In k l.
Proof.
  intros k l. induction l as [|x r IH]; cbn [memp In].
  - split; [discriminate|contradiction].
  - rewrite orb_true_iff, Pos.eqb_eq, IH. split; intros [H|H]; auto.
Qed.

Lemma SS_app_inv : forall (A : Type) (R : A -> A -> Prop) (a b : list A),
  StronglySorted R (a ++ b) -> StronglySorted R a /\ StronglySorted R b.
Proof.
  intros A R a b. induction a as [|x a IH]; cbn [app]; intros H.
  - split; [constructor|exact H].
  - apply StronglySorted_inv in H. destruct H as [Hs Hf].
    apply Forall_app in Hf. destruct Hf as [Hfa _].
    destruct (IH Hs) as [Ha Hb]. split; [constructor; assumption|exact Hb].
Qed.

Lemma SS_impl_Forall : forall (A : Type) (R R' : A -> A -> Prop) (P : A -> Prop) (l : list A),
  (forall a b, P a -> P b -> R a b -> R' a b) ->
  StronglySorted R l -> Forall P l -> StronglySorted R' l.
Proof.
  intros A R R' P l Himp. induction l as [|x l IH]; intros HS HP; [constructor|].
  apply StronglySorted_inv in HS. destruct HS as [HS HF].
  inversion HP as [|x' l' HPx HPl]; subst.
  constructor; [apply IH; assumption|].
  rewrite Forall_forall in *. intros y Hy. apply Himp; auto.
Qed.

Lemma SS_impl : forall (A : Type) (R R' : A -> A -> Prop) (l : list A),
  (forall a b, R a b -> R' a b) -> StronglySorted R l -> StronglySorted R' l.
Proof.
  intros A R R' l Himp HS.
  apply (SS_impl_Forall A R R' (fun _ => True) l); auto.
  apply Forall_forall; auto.
Qed.

Lemma SS_lt_NoDup : forall l, StronglySorted Pos.lt l -> NoDup l.
Proof.
  induction l as [|x l IH]; intros HS; [constructor|].
  apply StronglySorted_inv in HS. destruct HS as [HS HF].
  constructor; [|apply IH, HS].
  intros Hin. rewrite Forall_forall in HF. specialize (HF x Hin). lia.
Qed.

Lemma nodup_fst_inj : forall (B : Type) (L : list (positive * B)) k g1 g2,
  NoDup (map fst L) -> In (k, g1) L -> In (k, g2) L -> g1 = g2.
Proof.
  intros B L k g1 g2. induction L as [|[k0 g0] L IH]; intros HN H1 H2; [contradiction|].
  cbn [map fst] in HN. apply NoDup_cons_iff in HN. destruct HN as [Hni HN].
  destruct H1 as [H1|H1]; destruct H2 as [H2|H2].
  - congruence.
  - exfalso. apply Hni. inversion H1; subst. apply in_map_iff. exists (k, g2); auto.
  - exfalso. apply Hni. inversion H2; subst. apply in_map_iff. exists (k, g1); auto.
  - apply IH; assumption.
Qed.

(* ------------------------------------------------------------------------------------------ *)
(** * itertools.groupby *)

Lemma groupby_concat : forall (A : Type) (key : A -> positive) (l : list A),
  concat (map snd (groupby key l)) = l.
Proof.
  intros A key l. induction l as [|x r IH]; [reflexivity|].
  cbn [groupby]. destruct (groupby key r) as [|[k g] gs] eqn:E.
  - cbn in IH |- *. rewrite <- IH. reflexivity.
  - destruct (Pos.eqb (key x) k) eqn:Ek; cbn in IH |- *; rewrite <- IH; reflexivity.
Qed.

Lemma groupby_uniform : forall (A : Type) (key : A -> positive) (l : list A) k g,
  In (k, g) (groupby key l) -> g <> [] /\ Forall (fun x => key x = k) g.
Proof.
  intros A key l. induction l as [|x r IH]; intros k g H; [contradiction|].
  cbn [groupby] in H. destruct (groupby key r) as [|[k0 g0] gs] eqn:E.
  - destruct H as [H|[]]. inversion H; subst.
    split; [discriminate|repeat constructor].
  - destruct (Pos.eqb (key x) k0) eqn:Ek.
    + destruct H as [H|H].
      * inversion H; subst. apply Pos.eqb_eq in Ek.
        destruct (IH k g0 (or_introl eq_refl)) as [_ HF].
        split; [discriminate|constructor; assumption].
      * apply IH. right. exact H.
    + destruct H as [H|H].
      * inversion H; subst. split; [discriminate|repeat constructor].
      * apply IH. exact H.
Qed.

Lemma groupby_adjacent_distinct : forall (A : Type) (key : A -> positive) (l : list A)
    l1 k1 g1 k2 g2 l2,
  groupby key l = l1 ++ (k1, g1) :: (k2, g2) :: l2 -> k1 <> k2.
Proof.
  intros A key l. induction l as [|x r IH]; intros l1 k1 g1 k2 g2 l2 H.
  - destruct l1; discriminate.
  - cbn [groupby] in H. destruct (groupby key r) as [|[k g] gs] eqn:E.
    + destruct l1 as [|p [|q l1]]; discriminate.
    + destruct (Pos.eqb (key x) k) eqn:Ek.
      * destruct l1 as [|p l1]; cbn [app] in H; inversion H; subst.
        -- apply (IH [] k1 g k2 g2 l2). reflexivity.
        -- apply (IH ((k, g) :: l1) k1 g1 k2 g2 l2). reflexivity.
      * destruct l1 as [|p l1]; cbn [app] in H; inversion H; subst.
        -- apply Pos.eqb_neq in Ek. exact Ek.
        -- apply (IH l1 k1 g1 k2 g2 l2). assumption.
Qed.

Lemma groupby_group_incl : forall (A : Type) (key : A -> positive) (l : list A) k g,
  In (k, g) (groupby key l) -> forall x, In x g -> In x l.
Proof.
  intros A key l k g H x Hx.
  rewrite <- (groupby_concat A key l). apply in_concat.
  exists g. split; [|exact Hx]. apply in_map_iff. exists (k, g). auto.
Qed.

Lemma groupby_in_some_group : forall (A : Type) (key : A -> positive) (l : list A) x,
  In x l -> exists g, In (key x, g) (groupby key l) /\ In x g.
Proof.
  intros A key l x Hx.
  rewrite <- (groupby_concat A key l) in Hx. apply in_concat in Hx.
  destruct Hx as [g [Hg Hxg]]. apply in_map_iff in Hg. destruct Hg as [[k g'] [Heq Hin]].
  cbn [snd] in Heq. subst g'.
  destruct (groupby_uniform A key l k g Hin) as [_ HF].
  rewrite Forall_forall in HF. rewrite (HF x Hxg). exists g. auto.
Qed.

Lemma groupby_keys_in : forall (A : Type) (key : A -> positive) (l : list A) k,
  In k (map fst (groupby key l)) -> exists x, In x l /\ key x = k.
Proof.
  intros A key l k H. apply in_map_iff in H. destruct H as [[k' g] [Heq Hin]].
  cbn [fst] in Heq. subst k'.
  destruct (groupby_uniform A key l k g Hin) as [Hne HF].
  destruct g as [|y g']; [contradiction|].
  exists y. split.
  - apply (groupby_group_incl A key l k (y :: g') Hin). left. reflexivity.
  - inversion HF; assumption.
Qed.

Lemma groupby_sorted_nodup : forall (A : Type) (key : A -> positive) (l : list A),
  StronglySorted (fun a b => (key a <= key b)%positive) l ->
  StronglySorted Pos.lt (map fst (groupby key l)).
Proof.
  intros A key l. induction l as [|x r IH]; intros HS; [constructor|].
  apply StronglySorted_inv in HS. destruct HS as [HSr HF].
  specialize (IH HSr).
  cbn [groupby]. destruct (groupby key r) as [|[k g] gs] eqn:E.
  - cbn. constructor; constructor.
  - assert (Hk : (key x <= k)%positive).
    { destruct (groupby_keys_in A key r k) as [y [Hy Hky]].
      - rewrite E. left. reflexivity.
      - rewrite Forall_forall in HF. rewrite <- Hky. apply HF, Hy. }
    destruct (Pos.eqb (key x) k) eqn:Ek.
    + exact IH.
    + apply Pos.eqb_neq in Ek. cbn [map fst] in *. constructor; [exact IH|].
      apply StronglySorted_inv in IH. destruct IH as [_ HFk].
      constructor; [lia|]. eapply Forall_impl; [|exact HFk]. intros z Hz. cbn in Hz. lia.
Qed.

Lemma groupby_keys_nodup : forall (A : Type) (key : A -> positive) (l : list A),
  StronglySorted (fun a b => (key a <= key b)%positive) l ->
  NoDup (map fst (groupby key l)).
Proof. intros A key l HS. apply SS_lt_NoDup, groupby_sorted_nodup, HS. Qed.

(** on a key-sorted list a group holds ALL the elements with its key *)
Lemma groupby_whole : forall (A : Type) (key : A -> positive) (l : list A),
  StronglySorted (fun a b => (key a <= key b)%positive) l ->
  forall k g, In (k, g) (groupby key l) -> forall x, In x l -> key x = k -> In x g.
Proof.
  intros A key l HS k g Hg x Hx Hk.
  destruct (groupby_in_some_group A key l x Hx) as [g' [Hg' Hxg']].
  rewrite Hk in Hg'.
  rewrite (nodup_fst_inj _ (groupby key l) k g g'); auto.
  apply groupby_keys_nodup, HS.
Qed.

(** every group is a contiguous segment, so it inherits any StronglySorted order *)
Lemma groupby_group_sorted : forall (A : Type) (key : A -> positive) (R : A -> A -> Prop)
    (l : list A) k g,
  StronglySorted R l -> In (k, g) (groupby key l) -> StronglySorted R g.
Proof.
  intros A key R l k g HS Hin.
  apply in_split in Hin. destruct Hin as [l1 [l2 Heq]].
  rewrite <- (groupby_concat A key l) in HS. rewrite Heq in HS.
  rewrite map_app, concat_app in HS. cbn [map concat snd] in HS.
  apply SS_app_inv in HS. destruct HS as [_ HS].
  apply SS_app_inv in HS. destruct HS as [HS _]. exact HS.
Qed.

(* ------------------------------------------------------------------------------------------ *)
(** * ORDER BY job_name, job_id *)

Definition Sorted_rows (rs : list node) : Prop :=
  StronglySorted (fun a b => key_le a b = true) rs.

Lemma key_lt_spec : forall a b,
  key_lt a b = true <->
  (nname a < nname b \/ (nname a = nname b /\ njob a < njob b))%positive.
Proof.
  intros a b. unfold key_lt.
  rewrite orb_true_iff, andb_true_iff, !Pos.ltb_lt, Pos.eqb_eq. reflexivity.
Qed.

Lemma key_le_spec : forall a b,
  key_le a b = true <->
  (nname a < nname b \/ (nname a = nname b /\ njob a <= njob b))%positive.
Proof.
  intros a b. unfold key_le.
  rewrite negb_true_iff, <- not_true_iff_false, key_lt_spec. lia.
Qed.

Lemma sorted_rows_by_name : forall rs,
  Sorted_rows rs -> StronglySorted (fun a b => (nname a <= nname b)%positive) rs.
Proof.
  intros rs HS. eapply SS_impl; [|exact HS].
  intros a b Hab. cbn in Hab. apply key_le_spec in Hab. lia.
Qed.

Lemma name_group_sorted_by_job : forall rs nm g,
  Sorted_rows rs -> In (nm, g) (groupby nname rs) ->
  StronglySorted (fun a b => (njob a <= njob b)%positive) g.
Proof.
  intros rs nm g HS Hin.
  destruct (groupby_uniform _ nname rs nm g Hin) as [_ HF].
  apply (SS_impl_Forall node (fun a b => key_le a b = true) _ (fun x => nname x = nm) g).
  - intros a b Ha Hb Hab. apply key_le_spec in Hab. lia.
  - apply (groupby_group_sorted node nname _ rs nm g HS Hin).
  - exact HF.
Qed.

Lemma ins_row_perm : forall x l, Permutation (ins_row x l) (x :: l).
Proof.
  intros x l. induction l as [|y r IH]; cbn [ins_row]; [apply Permutation_refl|].
  destruct (key_lt x y) eqn:E; [apply Permutation_refl|].
  eapply perm_trans; [apply perm_skip, IH|apply perm_swap].
Qed.

Lemma sort_rows_perm : forall l, Permutation (sort_rows l) l.
Proof.
  induction l as [|x l IH]; cbn; [constructor|].
  eapply perm_trans; [apply ins_row_perm|apply perm_skip, IH].
Qed.

Lemma ins_row_sorted : forall x l, Sorted_rows l -> Sorted_rows (ins_row x l).
Proof.
  intros x l. unfold Sorted_rows. induction l as [|y r IH]; intros HS; cbn [ins_row].
  - constructor; constructor.
  - pose proof HS as HS0. apply StronglySorted_inv in HS. destruct HS as [HSr HF].
    destruct (key_lt x y) eqn:E.
    + apply key_lt_spec in E. constructor; [exact HS0|]. constructor.
      * apply key_le_spec. lia.
      * eapply Forall_impl; [|exact HF]. intros z Hz. cbn in Hz.
        apply key_le_spec in Hz. apply key_le_spec. lia.
    + constructor; [apply IH, HSr|].
      eapply Permutation_Forall; [apply Permutation_sym, ins_row_perm|].
      constructor; [|exact HF]. unfold key_le. rewrite E. reflexivity.
Qed.

Lemma sort_rows_sorted : forall l, Sorted_rows (sort_rows l).
Proof.
  induction l as [|x l IH]; cbn; [constructor|]. apply ins_row_sorted, IH.
Qed.

Lemma rows_sorted_perm : forall fm fn st,
  Sorted_rows (rows fm fn st) /\ Permutation (rows fm fn st) (filter (keep fm fn) (db st)).
Proof.
  intros fm fn st. unfold rows. split; [apply sort_rows_sorted|apply sort_rows_perm].
Qed.

(* ------------------------------------------------------------------------------------------ *)
(** * The children join and the filters *)

Lemma children_spec : forall st n c,
  In c (children st n) <-> In (nid n, c) (assoc st) /\ In c (ids (db st)).
Proof.
  intros st n c. unfold children. rewrite in_map_iff. split.
  - intros [[p c'] [Heq Hin]]. cbn [snd] in Heq. subst c'.
    apply filter_In in Hin. destruct Hin as [Hin Hb]. cbn [fst snd] in Hb.
    apply andb_true_iff in Hb. destruct Hb as [Hp Hc].
    apply Pos.eqb_eq in Hp. apply memp_spec in Hc. subst p. auto.
  - intros [Hin Hc]. exists (nid n, c). split; [reflexivity|].
    apply filter_In. split; [exact Hin|]. cbn [fst snd].
    apply andb_true_iff. split; [apply Pos.eqb_eq; reflexivity|apply memp_spec; exact Hc].
Qed.

Lemma keep_spec : forall fm fn n,
  keep fm fn n = true <->
  (fn = [] \/ In (nname n) fn) /\
  (fm = [] \/ exists js, In (nname n, js) fm /\ In (njob n) js).
Proof.
  intros fm fn n. unfold keep. rewrite andb_true_iff.
  assert (H1 : (match fn with [] => true | _ => memp (nname n) fn end) = true
               <-> (fn = [] \/ In (nname n) fn)).
  { destruct fn as [|f fn'].
    - split; auto.
    - rewrite memp_spec. split; [auto|]. intros [H|H]; [discriminate|exact H]. }
  assert (H2 : (match fm with
                | [] => true
                | _ => existsb (fun kv => Pos.eqb (nname n) (fst kv) && memp (njob n) (snd kv)) fm
                end) = true
               <-> (fm = [] \/ exists js, In (nname n, js) fm /\ In (njob n) js)).
  { destruct fm as [|m fm'].
    - split; auto.
    - rewrite existsb_exists. split.
      + intros [[k js] [Hin Hb]]. cbn [fst snd] in Hb. apply andb_true_iff in Hb.
        destruct Hb as [Hk Hj]. apply Pos.eqb_eq in Hk. apply memp_spec in Hj. subst k.
        right. exists js. auto.
      + intros [H|[js [Hin Hj]]]; [discriminate|].
        exists (nname n, js). split; [exact Hin|]. cbn [fst snd].
        apply andb_true_iff. split; [apply Pos.eqb_eq; reflexivity|apply memp_spec; exact Hj]. }
  rewrite H1, H2. reflexivity.
Qed.

(* ------------------------------------------------------------------------------------------ *)
(** * The stream *)

Lemma in_stream : forall st rs nm jobs,
  In (nm, jobs) (stream_of_rows st rs) ->
  exists g, In (nm, g) (groupby nname rs) /\
            jobs = map (fun jg => map (fun n => (n, children st n)) (snd jg)) (groupby njob g).
Proof.
  intros st rs nm jobs H. unfold stream_of_rows in H. apply in_map_iff in H.
  destruct H as [[k g] [Heq Hin]]. cbn [fst snd] in Heq. inversion Heq; subst. eauto.
Qed.

Lemma in_stream_job : forall st rs nm jobs j,
  In (nm, jobs) (stream_of_rows st rs) -> In j jobs ->
  exists g kj gj, In (nm, g) (groupby nname rs) /\ In (kj, gj) (groupby njob g) /\
                  j = map (fun n => (n, children st n)) gj.
Proof.
  intros st rs nm jobs j H Hj. apply in_stream in H. destruct H as [g [Hg Hjobs]].
  subst jobs. apply in_map_iff in Hj. destruct Hj as [[kj gj] [Heq Hin]].
  cbn [snd] in Heq. exists g, kj, gj. auto.
Qed.

Lemma map_fst_mk : forall st (l : list node), map fst (map (fun n => (n, children st n)) l) = l.
Proof. intros st l. rewrite map_map. cbn [fst]. apply map_id. Qed.

Lemma heads_map : forall st (gs : list (positive * list node)),
  (forall k g, In (k, g) gs -> g <> [] /\ Forall (fun x => njob x = k) g) ->
  map (fun j : list oevent => match j with (n, _) :: _ => njob n | [] => 1%positive end)
      (map (fun jg => map (fun n => (n, children st n)) (snd jg)) gs) = map fst gs.
Proof.
  intros st gs. induction gs as [|[k g] gs IH]; intros H; [reflexivity|].
  cbn [map fst snd]. f_equal.
  - destruct (H k g (or_introl eq_refl)) as [Hne HF].
    destruct g as [|y g']; [contradiction|]. cbn. inversion HF; assumption.
  - apply IH. intros k' g' Hin. apply H. right. exact Hin.
Qed.

Lemma flat_inner : forall st (H : list (positive * list node)),
  map fst (concat (map (fun jg => map (fun n => (n, children st n)) (snd jg)) H))
  = concat (map snd H).
Proof.
  intros st H. induction H as [|[k g] H IH]; [reflexivity|].
  cbn [map concat snd]. rewrite map_app, IH, map_fst_mk. reflexivity.
Qed.

Lemma flat_outer : forall st (G : list (positive * list node)),
  map fst (concat (concat
    (map (fun ng => map (fun jg => map (fun n => (n, children st n)) (snd jg))
                        (groupby njob (snd ng))) G)))
  = concat (map snd G).
Proof.
  intros st G. induction G as [|[k g] G IH]; [reflexivity|].
  cbn [map concat snd]. rewrite concat_app, map_app, IH, flat_inner, groupby_concat. reflexivity.
Qed.

Lemma stream_flatten_rows : forall st rs, map fst (flatten (stream_of_rows st rs)) = rs.
Proof.
  intros st rs. unfold flatten, stream_of_rows. rewrite map_map. cbn [snd].
  rewrite flat_outer. apply groupby_concat.
Qed.

Lemma stream_children : forall st rs e,
  In e (flatten (stream_of_rows st rs)) -> snd e = children st (fst e).
Proof.
  intros st rs e H. unfold flatten in H.
  apply in_concat in H. destruct H as [j [Hj He]].
  apply in_concat in Hj. destruct Hj as [jobs [Hjobs Hj]].
  apply in_map_iff in Hjobs. destruct Hjobs as [[nm jobs'] [Heq Hin]].
  cbn [snd] in Heq. subst jobs'.
  destruct (in_stream_job st rs nm jobs j Hin Hj) as [g [kj [gj [_ [_ Hjeq]]]]].
  subst j. apply in_map_iff in He. destruct He as [n [Heq _]]. subst e. reflexivity.
Qed.

Theorem stream_exact : forall st fm fn rs,
  Sorted_rows rs -> Permutation rs (filter (keep fm fn) (db st)) ->
  let s := stream_of_rows st rs in
  (* (a) each workflow name once *)
  StronglySorted Pos.lt (map fst s)
  (* (b) under it each trace once, no empty trace *)
  /\ (forall nm jobs, In (nm, jobs) s ->
        StronglySorted Pos.lt
          (map (fun j : list oevent => match j with (n, _) :: _ => njob n | [] => 1%positive end) jobs)
        /\ Forall (fun j => j <> []) jobs)
  (* (c) no span attributed to another workflow / trace *)
  /\ (forall nm jobs j e, In (nm, jobs) s -> In j jobs -> In e j ->
        nname (fst e) = nm /\ (forall e', In e' j -> njob (fst e') = njob (fst e)))
  (* (d) nothing dropped or duplicated *)
  /\ (map fst (flatten s) = rs
      /\ Permutation (map fst (flatten s)) (filter (keep fm fn) (db st)))
  (* (e) correct parent/child links *)
  /\ (forall e, In e (flatten s) -> snd e = children st (fst e))
  (* (f) whole traces *)
  /\ (forall nm jobs j n, In (nm, jobs) s -> In j jobs -> In n (map fst j) ->
        forall n', In n' rs -> nname n' = nname n -> njob n' = njob n -> In n' (map fst j)).
Proof.
  intros st fm fn rs HS HP s. subst s.
  pose proof (sorted_rows_by_name rs HS) as HSn.
  split; [|split; [|split; [|split; [|split]]]].
  - (* a *)
    unfold stream_of_rows. rewrite map_map. cbn [fst].
    apply groupby_sorted_nodup. exact HSn.
  - (* b *)
    intros nm jobs Hin. apply in_stream in Hin. destruct Hin as [g [Hg Hjobs]]. subst jobs.
    pose proof (name_group_sorted_by_job rs nm g HS Hg) as HSj.
    split.
    + rewrite heads_map; [apply groupby_sorted_nodup, HSj|].
      intros k g0 H0. apply (groupby_uniform _ njob g k g0 H0).
    + apply Forall_forall. intros j Hj. apply in_map_iff in Hj.
      destruct Hj as [[kj gj] [Heq Hin]]. cbn [snd] in Heq. subst j.
      destruct (groupby_uniform _ njob g kj gj Hin) as [Hne _].
      destruct gj; [contradiction|discriminate].
  - (* c *)
    intros nm jobs j e Hin Hj He.
    destruct (in_stream_job st rs nm jobs j Hin Hj) as [g [kj [gj [Hg [Hgj Hjeq]]]]].
    subst j.
    destruct (groupby_uniform _ nname rs nm g Hg) as [_ HFn].
    destruct (groupby_uniform _ njob g kj gj Hgj) as [_ HFj].
    rewrite Forall_forall in HFn, HFj.
    apply in_map_iff in He. destruct He as [n [Heq Hn]]. subst e. cbn [fst].
    split.
    + apply HFn. apply (groupby_group_incl _ njob g kj gj Hgj). exact Hn.
    + intros e' He'. apply in_map_iff in He'. destruct He' as [n' [Heq' Hn']]. subst e'.
      cbn [fst]. rewrite (HFj n Hn), (HFj n' Hn'). reflexivity.
  - (* d *)
    rewrite stream_flatten_rows. split; [reflexivity|exact HP].
  - (* e *)
    apply stream_children.
  - (* f *)
    intros nm jobs j n Hin Hj Hn n' Hn' Hname Hjob.
    destruct (in_stream_job st rs nm jobs j Hin Hj) as [g [kj [gj [Hg [Hgj Hjeq]]]]].
    subst j. rewrite map_fst_mk in Hn |- *.
    destruct (groupby_uniform _ nname rs nm g Hg) as [_ HFn].
    destruct (groupby_uniform _ njob g kj gj Hgj) as [_ HFj].
    rewrite Forall_forall in HFn, HFj.
    pose proof (groupby_group_incl _ njob g kj gj Hgj n Hn) as Hng.
    assert (Hn'g : In n' g).
    { apply (groupby_whole _ nname rs HSn nm g Hg n' Hn').
      rewrite Hname. apply HFn, Hng. }
    apply (groupby_whole _ njob g (name_group_sorted_by_job rs nm g HS Hg) kj gj Hgj n' Hn'g).
    rewrite Hjob. apply HFj, Hn.
Qed.

(** the same for the model's own sorter *)
Corollary stream_exact_model : forall st fm fn,
  let rs := rows fm fn st in
  let s := stream fm fn st in
  StronglySorted Pos.lt (map fst s)
  /\ (forall nm jobs, In (nm, jobs) s ->
        StronglySorted Pos.lt
          (map (fun j : list oevent => match j with (n, _) :: _ => njob n | [] => 1%positive end) jobs)
        /\ Forall (fun j => j <> []) jobs)
  /\ (forall nm jobs j e, In (nm, jobs) s -> In j jobs -> In e j ->
        nname (fst e) = nm /\ (forall e', In e' j -> njob (fst e') = njob (fst e)))
  /\ (map fst (flatten s) = rs
      /\ Permutation (map fst (flatten s)) (filter (keep fm fn) (db st)))
  /\ (forall e, In e (flatten s) -> snd e = children st (fst e))
  /\ (forall nm jobs j n, In (nm, jobs) s -> In j jobs -> In n (map fst j) ->
        forall n', In n' rs -> nname n' = nname n -> njob n' = njob n -> In n' (map fst j)).
Proof.
  intros st fm fn. destruct (rows_sorted_perm fm fn st) as [HS HP].
  exact (stream_exact st fm fn (rows fm fn st) HS HP).
Qed.

(** Reading of (d) in terms of single spans: a span of the store is streamed iff it passes the
    filters, and then as many times as it occurs in the nodes table. *)
Corollary stream_span_count : forall st fm fn rs,
  Sorted_rows rs -> Permutation rs (filter (keep fm fn) (db st)) ->
  forall n, In n (map fst (flatten (stream_of_rows st rs))) <-> In n (db st) /\ keep fm fn n = true.
Proof.
  intros st fm fn rs HS HP n. rewrite stream_flatten_rows, <- filter_In.
  split; intros H.
  - eapply Permutation_in; [exact HP|exact H].
  - eapply Permutation_in; [apply Permutation_sym, HP|exact H].
Qed.

(* ------------------------------------------------------------------------------------------ *)
(** * Worked instances (non-vacuity) *)

Definition exn (i : positive) (p : option positive) (j nm : positive) : node :=
  mknode i p j nm 1%positive 0%Z 1%Z 1%positive.

Definition ex1 := exn 1 None 3 2.      Definition ex2 := exn 2 None 1 1.
Definition ex3 := exn 3 (Some 1%positive) 3 2.  Definition ex4 := exn 4 (Some 2%positive) 1 1.
Definition ex5 := exn 5 None 2 1.      Definition ex6 := exn 6 None 4 3.
Definition ex7 := exn 7 (Some 5%positive) 2 1.  Definition ex8 := exn 8 None 5 1.
Definition ex9 := exn 9 (Some 2%positive) 1 1.

(** three workflow names, five traces, rows of different traces interleaved in rowid order;
    association table with a dangling child (99) that the join drops *)
Definition ex_store : store :=
  mkstore [ex1; ex2; ex3; ex4; ex5; ex6; ex7; ex8; ex9]
          [ (1, 3); (2, 4); (5, 7); (2, 9); (2, 99) ]%positive
          [].

(** unique-graph filter keeps traces 1,2 of name 1 (drops trace 5), trace 3 of name 2, trace 4 of
    name 3; the name filter keeps names 1 and 2 (drops name 3) *)
Definition ex_fm : list (positive * list positive) := [ (1, [1; 2]); (2, [3]); (3, [4]) ]%positive.
Definition ex_fn : list positive := [1; 2]%positive.

Example filter_example :
  filter (keep ex_fm ex_fn) (db ex_store) = [ex1; ex2; ex3; ex4; ex5; ex7; ex9].
Proof. vm_compute. reflexivity. Qed.

(** NB the model's [sort_rows] puts rows with equal (name, trace) in REVERSE rowid order
    (it is not a stable sort); the theorems above do not care. *)
Example stream_example :
  stream ex_fm ex_fn ex_store =
  [ (1, [ [ (ex9, []); (ex4, []); (ex2, [4; 9]) ];
          [ (ex7, []); (ex5, [7]) ] ]);
    (2, [ [ (ex3, []); (ex1, [3]) ] ]) ]%positive.
Proof. vm_compute. reflexivity. Qed.

(** without filters all three names and five traces come out *)
Example stream_example_nofilter :
  map (fun nj => (fst nj, map (map (fun e => nid (fst e))) (snd nj))) (stream [] [] ex_store) =
  [ (1, [ [9; 4; 2]; [7; 5]; [8] ]); (2, [ [3; 1] ]); (3, [ [6] ]) ]%positive.
Proof. vm_compute. reflexivity. Qed.

(** what groupby does on the same filtered rows WITHOUT the ORDER BY: names 1 and 2 are each
    yielded more than once, and trace 1 of name 1 is split in three *)
Example groupby_unsorted_repeats :
  let s := stream_of_rows ex_store (filter (keep ex_fm ex_fn) (db ex_store)) in
  map fst s = [2; 1; 2; 1]%positive
  /\ map (fun nj => (fst nj, map (map (fun e => nid (fst e))) (snd nj))) s =
     [ (2, [ [1] ]); (1, [ [2] ]); (2, [ [3] ]); (1, [ [4]; [5; 7]; [9] ]) ]%positive
  /\ ~ NoDup (map fst s).
Proof.
  vm_compute. split; [reflexivity|]. split; [reflexivity|].
  intros H. inversion H as [|x l Hni _]; subst. apply Hni. right. left. reflexivity.
Qed.

(** [stream_exact] does not depend on which sorter is used: the rowid-stable arrangement (what a
    stable sorter returns) is key-sorted, is a permutation of the filtered rows, differs from the
    model's [rows], and its stream is the expected one *)
Definition ex_rows_stable : list node := [ex2; ex4; ex9; ex5; ex7; ex1; ex3].

Example stream_exact_hyps_stable :
  Sorted_rows ex_rows_stable
  /\ Permutation ex_rows_stable (filter (keep ex_fm ex_fn) (db ex_store))
  /\ ex_rows_stable <> rows ex_fm ex_fn ex_store
  /\ stream_of_rows ex_store ex_rows_stable =
     [ (1, [ [ (ex2, [4; 9]); (ex4, []); (ex9, []) ]; [ (ex5, [7]); (ex7, []) ] ]);
       (2, [ [ (ex1, [3]); (ex3, []) ] ]) ]%positive.
Proof.
  split; [|split; [|split]].
  - unfold Sorted_rows, ex_rows_stable. repeat constructor.
  - rewrite filter_example. unfold ex_rows_stable.
    apply (Permutation_cons_app [ex1] [ex3; ex4; ex5; ex7; ex9]).
    apply (Permutation_cons_app [ex1; ex3] [ex5; ex7; ex9]).
    apply (Permutation_cons_app [ex1; ex3; ex5; ex7] []).
    apply (Permutation_cons_app [ex1; ex3] [ex7]).
    apply (Permutation_cons_app [ex1; ex3] []).
    apply Permutation_refl.
  - vm_compute. discriminate.
  - vm_compute. reflexivity.
Qed.

Example children_example :
  children ex_store ex2 = [4; 9]%positive /\ ~ In 99%positive (children ex_store ex2).
Proof.
  split; [vm_compute; reflexivity|].
  intros H. apply children_spec in H. destruct H as [_ H]. vm_compute in H.
  repeat (destruct H as [H|H]; [discriminate|]). exact H.
Qed.
