(** Specification-side definitions for find_unique_graphs (C09): the order-insensitive tree
    digest on labelled trees, tree isomorphism, the flat store built from a list of traces and
    the row-level view of the GROUP BY selection.  Definitions only, no proofs. *)
From Coq Require Import ZArith List Bool Permutation.
From V Require Import Store.Rel Store.Clean Store.Unique.
Import ListNotations.

Definition lid (t : ltree) : positive := match t with LT i _ _ => i end.
Definition lty (t : ltree) : positive := match t with LT _ ty _ => ty end.
Definition lkids (t : ltree) : list ltree := match t with LT _ _ ks => ks end.

(** The digest of a labelled tree, for an arbitrary digest function [X] and digest order [dleb]
    (the code: xxh64_hexdigest (event_type ++ concat (sorted child digests))). *)
Section Digest.
  Variable D : Type.
  Variable dleb : D -> D -> bool.
  Variable X : positive -> list D -> D.
  Fixpoint thash (t : ltree) : D :=
    match t with LT _ ty ks => X ty (dsort D dleb (map thash ks)) end.
End Digest.

(** Same call-tree shape: same span type at the root, children matched one-to-one up to their
    order; ids are ignored (times, names and jobs are not part of [ltree]). *)
Inductive TreeIso : ltree -> ltree -> Prop :=
| iso_node : forall i i' ty ks ks' ks'',
    Permutation ks' ks'' -> Forall2 TreeIso ks ks'' -> TreeIso (LT i ty ks) (LT i' ty ks').

(** The executable instance: the digest is the canonical form itself. *)
Definition canon : ltree -> ctree := thash ctree ct_leb CT.

(** the lexicographic extension used inside [ct_cmp], as a top-level function *)
Fixpoint lexc (x y : list ctree) {struct x} : comparison :=
  match x, y with
  | [], [] => Eq
  | [], _ :: _ => Lt
  | _ :: _, [] => Gt
  | p :: x', q :: y' => match ct_cmp p q with Eq => lexc x' y' | c => c end
  end.

Fixpoint tids (t : ltree) : list positive :=
  match t with LT i _ ks => i :: flat_map tids ks end.

Fixpoint depth (t : ltree) : nat :=
  match t with LT _ _ ks => S (list_max (map depth ks)) end.

(** One row of the nodes table per tree node, parent first, children in order. *)
Fixpoint flatten (job name app : positive) (par : option positive) (t : ltree) : list node :=
  match t with
  | LT i ty ks => mknode i par job name ty 0 0 app :: flat_map (flatten job name app (Some i)) ks
  end.

(** A trace: (job id, workflow name, call tree). *)
Definition trace := (positive * positive * ltree)%type.
Definition tjob (tr : trace) : positive := fst (fst tr).
Definition tname (tr : trace) : positive := snd (fst tr).
Definition ttree (tr : trace) : ltree := snd tr.

Definition app0 : positive := 1%positive.

Definition trace_nodes (tr : trace) : list node :=
  flatten (tjob tr) (tname tr) app0 None (ttree tr).

Definition rootnode (tr : trace) : node :=
  mknode (lid (ttree tr)) None (tjob tr) (tname tr) (lty (ttree tr)) 0 0 app0.

Definition store_of (traces : list trace) : store :=
  mkstore (flat_map trace_nodes traces) [] [].

Definition all_ids (traces : list trace) : list positive :=
  flat_map (fun tr => tids (ttree tr)) traces.

(** every span of [store_of] has start = end = 0: the window keeps everything iff it contains 0 *)
Definition win0 (w : Z * Z) : bool := ((0 <=? snd w) && (fst w <=? 0))%Z.

(** Rows of job_hashes and the row-level view of the GROUP BY. *)
Definition row := (positive * positive * option ctree)%type.
Definition rkey (r : row) : positive * option ctree := (snd (fst r), snd r).
Definition rproj (r : row) : positive * positive := (snd (fst r), fst (fst r)).

Fixpoint select_rows (seen : list row) (l : list row) : list row :=
  match l with
  | [] => []
  | r :: rest => if existsb (same_group r) seen then select_rows seen rest
                 else r :: select_rows (r :: seen) rest
  end.

(** Any result SQLite may return for GROUP BY job_name, job_hash: rows of the table, exactly one
    per group. *)
Definition valid_selection (l sel : list row) : Prop :=
  incl sel l /\ forall r, In r l -> length (filter (same_group r) sel) = 1%nat.

Definition row_of (D : Type) (h : ltree -> D) (tr : trace) : positive * positive * option D :=
  (tjob tr, tname tr, Some (h (ttree tr))).

(** the set of (workflow name, shape) pairs represented in the result of find_unique_graphs *)
Definition shapes_hit (bs : nat) (w : Z * Z) (traces : list trace) (nm : positive) (c : ctree) : Prop :=
  exists j t, In (nm, j) (find_unique bs w (store_of traces)) /\ In (j, nm, t) traces /\ canon t = c.
