(** Model of the cleaning statements of SQLDataHolder (sql_dataholder.py:403-483), of
    get_time_window (base.py:177-205) and of the order in which otel_to_pv applies them
    (otel_to_pv.py:60-72).  No proofs in this file. *)
From Coq Require Import ZArith List Bool.
From V Require Import Store.Rel.
Import ListNotations.
Open Scope Z_scope.

(** remove_inconsistent_jobs:
    stmt_1 = parent ids of the association table that are not event ids of any node;
    stmt_2 = job ids of nodes that are the child of such a row;
    DELETE FROM nodes WHERE job_id IN stmt_2; then (since the "fix:" commit 2c81313)
    DELETE FROM NODE_ASSOCIATION WHERE child_id NOT IN (SELECT event_id FROM nodes). *)
Definition missing_parents (st : store) : list positive :=
  filter (fun p => negb (memp p (ids (db st)))) (map fst (assoc st)).

Definition is_dangling_child (st : store) (n : node) : bool :=
  existsb (fun k => Pos.eqb (snd k) (nid n) && memp (fst k) (missing_parents st)) (assoc st).

Definition bad_jobs (st : store) : list positive :=
  map njob (filter (is_dangling_child st) (db st)).

(** _remove_associations_of_removed_nodes *)
Definition prune_assoc (d : list node) (a : list (positive * positive)) : list (positive * positive) :=
  filter (fun k => memp (snd k) (ids d)) a.

Definition rm_inconsistent (st : store) : store :=
  let d := filter (fun n => negb (memp (njob n) (bad_jobs st))) (db st) in
  mkstore d (prune_assoc d (assoc st)) (hashes st).

(** the pinned tree left the association table untouched *)
Definition rm_inconsistent_v0 (st : store) : store :=
  mkstore (filter (fun n => negb (memp (njob n) (bad_jobs st))) (db st)) (assoc st) (hashes st).

(** DataHolder.min_timestamp / max_timestamp over the raw process-local trackers, and
    get_time_window; [None] = ValueError("The time buffer is too large ...") *)
Definition int64_max : Z := 9223372036854775807.
Definition eff_min (mn mx : Z) : Z := if mx <? mn then 0 else mn.
Definition eff_max (mn mx : Z) : Z := if mx <? mn then int64_max else mx.
(** trackers after saving a list of events, starting from (int64_max, 0) *)
Definition track (evs : list node) : Z * Z :=
  fold_left (fun mm n => (Z.min (fst mm) (nst n), Z.max (snd mm) (nen n))) evs (int64_max, 0).

Definition window (buffer_minutes : Z) (mn mx : Z) : option (Z * Z) :=
  let b := buffer_minutes * 60 * 1000000000 in
  let lo := eff_min mn mx + b in
  let hi := eff_max mn mx - b in
  if hi <=? lo then None else Some (lo, hi).

(** remove_jobs_outside_of_time_window: keep the traces that have a span whose start or whose end
    lies in [lo, hi]; delete every other node. *)
Definition in_window (w : Z * Z) (n : node) : bool :=
  ((nst n <=? snd w) && (fst w <=? nst n)) || ((nen n <=? snd w) && (fst w <=? nen n)).

Definition window_jobs (w : Z * Z) (st : store) : list positive :=
  map njob (filter (in_window w) (db st)).

Definition rm_outside (w : Z * Z) (st : store) : store :=
  let d := filter (fun n => memp (njob n) (window_jobs w st)) (db st) in
  mkstore d (prune_assoc d (assoc st)) (hashes st).

Definition rm_outside_v0 (w : Z * Z) (st : store) : store :=
  mkstore (filter (fun n => memp (njob n) (window_jobs w st)) (db st)) (assoc st) (hashes st).

(** update_job_names_by_root_span: UPDATE nodes SET job_name = r.job_name FROM (roots) r
    WHERE nodes.job_id = r.job_id.  With several root rows for one trace SQLite picks one
    arbitrarily; the model takes the first and the theorems only speak about traces with exactly
    one root. *)
Definition is_root (n : node) : bool := match npar n with None => true | Some _ => false end.

Definition root_name (st : store) (j : positive) : option positive :=
  match filter (fun r => is_root r && Pos.eqb (njob r) j) (db st) with
  | r :: _ => Some (nname r)
  | [] => None
  end.

Definition set_name (n : node) (nm : positive) : node :=
  mknode (nid n) (npar n) (njob n) nm (nty n) (nst n) (nen n) (napp n).

Definition update_names (st : store) : store :=
  mkstore (map (fun n => match root_name st (njob n) with Some nm => set_name n nm | None => n end) (db st))
          (assoc st) (hashes st).

(** the fixed order of otel_to_pv *)
Definition clean (w : Z * Z) (st : store) : store :=
  update_names (rm_outside w (rm_inconsistent st)).
Definition clean_v0 (w : Z * Z) (st : store) : store :=
  update_names (rm_outside_v0 w (rm_inconsistent_v0 st)).

(** "had the removed traces never been ingested": drop the nodes of the traces not in [keepj]
    together with the association rows whose child belongs to them. *)
Definition restrict (keepj : list positive) (st : store) : store :=
  let d := filter (fun n => memp (njob n) keepj) (db st) in
  let gone := ids (filter (fun n => negb (memp (njob n) keepj)) (db st)) in
  mkstore d (filter (fun k => negb (memp (snd k) gone)) (assoc st)) (hashes st).

Definition kept_jobs (w : Z * Z) (st : store) : list positive :=
  map njob (db (clean w st)).
