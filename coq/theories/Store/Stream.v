(** Model of SQLDataHolder.stream_data / stream_job_name_batches / node_to_otel_event
    (sql_dataholder.py:251-401).  No proofs in this file. *)
From Coq Require Import ZArith List Bool.
From V Require Import Store.Rel.
Import ListNotations.

(** The two optional filters; an empty dict / set means "no filter" (Python truthiness). *)
Definition keep (fm : list (positive * list positive)) (fn : list positive) (n : node) : bool :=
  (match fn with [] => true | _ => memp (nname n) fn end)
  && (match fm with
      | [] => true
      | _ => existsb (fun kv => Pos.eqb (nname n) (fst kv) && memp (njob n) (snd kv)) fm
      end).

(** ORDER BY job_name, job_id  (byte order of the strings = Pos order of their interned ranks) *)
Definition key_lt (a b : node) : bool :=
  Pos.ltb (nname a) (nname b) || (Pos.eqb (nname a) (nname b) && Pos.ltb (njob a) (njob b)).
Definition key_le (a b : node) : bool := negb (key_lt b a).

(** an insertion sort stands for SQLite's sorter; the theorems are stated for EVERY
    key-sorted permutation of the filtered rows, so no stability assumption is made on SQLite *)
Fixpoint ins_row (x : node) (l : list node) : list node :=
  match l with
  | [] => [x]
  | y :: r => if key_lt x y then x :: l else y :: ins_row x r
  end.
Definition sort_rows (l : list node) : list node := fold_right ins_row [] l.

Definition rows (fm : list (positive * list positive)) (fn : list positive) (st : store) : list node :=
  sort_rows (filter (keep fm fn) (db st)).

(** NodeModel.children: join of the association table with the nodes table *)
Definition children (st : store) (n : node) : list positive :=
  map snd (filter (fun k => Pos.eqb (fst k) (nid n) && memp (snd k) (ids (db st))) (assoc st)).

(** an OTelEvent as streamed: the row plus its child ids *)
Definition oevent := (node * list positive)%type.

(** itertools.groupby: maximal runs of equal consecutive keys *)
Fixpoint groupby {A} (key : A -> positive) (l : list A) : list (positive * list A) :=
  match l with
  | [] => []
  | x :: r =>
      match groupby key r with
      | (k, g) :: gs => if Pos.eqb (key x) k then (k, x :: g) :: gs else (key x, [x]) :: (k, g) :: gs
      | [] => [(key x, [x])]
      end
  end.

(** stream_data from an arbitrary row sequence (what the cursor yields) *)
Definition stream_of_rows (st : store) (rs : list node) : list (positive * list (list oevent)) :=
  map (fun ng => (fst ng,
                  map (fun jg => map (fun n => (n, children st n)) (snd jg)) (groupby njob (snd ng))))
      (groupby nname rs).

Definition stream (fm : list (positive * list positive)) (fn : list positive) (st : store)
  : list (positive * list (list oevent)) :=
  stream_of_rows st (rows fm fn st).

Definition flatten (s : list (positive * list (list oevent))) : list oevent :=
  concat (concat (map snd s)).
