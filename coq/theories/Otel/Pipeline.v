(** Model of the glue between the store's stream and the sequencer:
    tel2puml/otel_to_pv/sequence_otel.py lines 180-245 (root lookup, sequence_otel_event_job) and
    300-423 (sequence_otel_jobs, sequence_otel_job_id_streams, the event-id dict and the
    OTelTreeDisconnectedError skip), plus the per-workflow configuration lookup of
    tel2puml/otel_to_pv/otel_to_pv.py:73-99.  No proofs in this file.

    A streamed job is a [list oevent] ([oevent = node * list positive], the stored span with its
    child ids, see Store/Stream.v).  Everything the Python does on the job's dict
    (event id -> OTelEvent) is done here on an association list in dict (first insertion) order. *)
From Coq Require Import String ZArith List Bool.
From V Require Import Store.Rel Store.Stream Otel.Span Otel.Sequencer Time.PvTime.
Import ListNotations.
Open Scope Z_scope.

(** * Events *)
Definition eid (e : oevent) : positive := nid (fst e).
Definition epar (e : oevent) : option positive := npar (fst e).
Definition ety (e : oevent) : positive := nty (fst e).
Definition est (e : oevent) : Z := nst (fst e).
Definition een (e : oevent) : Z := nen (fst e).
Definition ekids (e : oevent) : list positive := snd e.

Definition is_root (e : oevent) : bool := match epar e with None => true | Some _ => false end.

(** dict lookup (first binding of the key) *)
Fixpoint get (i : positive) (d : list oevent) : option oevent :=
  match d with
  | [] => None
  | e :: r => if Pos.eqb i (eid e) then Some e else get i r
  end.

(** * convert_otel_event_stream_to_event_id_to_otelevent_map (lines 377-399)
    [d[event_id] = event] for every streamed event: a key keeps the position of its FIRST
    occurrence and the value of its LAST one. *)
Definition dict_of (job : list oevent) : list oevent :=
  flat_map (fun i => match get i (rev job) with Some e => [e] | None => [] end)
           (dedup (map eid job)).

(** [parent_event_ids.issubset(dict.keys())]: the parent ids are collected from every streamed
    event (also from one that is later overwritten).  [false] = OTelTreeDisconnectedError, the job is
    skipped with a warning (lines 415-424). *)
Definition parents_present (job : list oevent) : bool :=
  forallb (fun e => match epar e with None => true | Some p => mem p (map eid job) end) job.

(** * update_event_types_based_on_children on the dict (lines 248-300)
    [None] = KeyError("Child event ID ... not found in job."), raised inside sequence_otel_jobs. *)
Definition set_ty (ty : positive) (e : oevent) : oevent :=
  let n := fst e in
  (mknode (nid n) (npar n) (njob n) (nname n) ty (nst n) (nen n) (napp n), snd e).

Definition update (i ty : positive) (d : list oevent) : list oevent :=
  map (fun e => if Pos.eqb i (eid e) then set_ty ty e else e) d.

(** the loop over child_event_ids: KeyError on an absent child, [break] on the first listed type *)
Fixpoint scan_children (d : list oevent) (cts : list positive) (cs : list positive) : option bool :=
  match cs with
  | [] => Some false
  | c :: r =>
      match get c d with
      | None => None
      | Some k => if mem (ety k) cts then Some true else scan_children d cts r
      end
  end.

Definition rename_step (rs : rules) (od : option (list oevent)) (i : positive) : option (list oevent) :=
  match od with
  | None => None
  | Some d =>
      match get i d with
      | None => Some d
      | Some e =>
          match lookup (ety e) rs with
          | None => Some d
          | Some (mapped, cts) =>
              match scan_children d cts (ekids e) with
              | None => None
              | Some true => Some (update i mapped d)
              | Some false => Some d
              end
          end
      end
  end.

(** events visited in dict order; the types seen are the CURRENT ones *)
Definition rename_job (rs : rules) (d : list oevent) : option (list oevent) :=
  fold_left (rename_step rs) (map eid d) (Some d).

(** * sequence_otel_event_ancestors on the dict (lines 105-179)
    [None] = an exception: KeyError (a listed child id is not a key) or RecursionError (a cycle of
    child lists is reachable; fuel = number of dict entries is exhausted exactly in that case). *)
Fixpoint get_all (d : list oevent) (cs : list positive) : option (list oevent) :=
  match cs with
  | [] => Some []
  | c :: r =>
      match get c d, get_all d r with
      | Some k, Some l => Some (k :: l)
      | _, _ => None
      end
  end.

Definition ev_item (e : oevent) : item :=
  {| it_id := eid e; it_ty := ety e; it_st := est e; it_en := een e; it_run := fun _ => [] |}.

Fixpoint seq_anc (fuel : nat) (async : bool) (m : gmap) (d : list oevent) (e : oevent)
         (prev : list positive) {struct fuel} : option links :=
  match fuel with
  | O => None
  | S f =>
      match get_all d (ekids e) with
      | None => None
      | Some kids =>
          let run := fun (j : positive) (p : list positive) =>
                       match get j d with Some k => seq_anc f async m d k p | None => None end in
          match run_groups0 run (event_groups async (gm_of m (ety e)) (map ev_item kids)) prev with
          | Some (out, p) => Some (out ++ [(eid e, p)])
          | None => None
          end
      end
  end.

(** [dict.update] / item assignment: the LAST binding emitted for a key is the one that stays *)
Definition last_link (i : positive) (l : links) : option (list positive) := lookup i (rev l).

(** * PV rows.  (event id, event type, previous ids, timestamp, job id, job name, application) *)
Definition pvrow3 :=
  (positive * positive * list positive * string * positive * positive * positive)%type.

Definition rid (r : pvrow3) : positive := let '(i, _, _, _, _, _, _) := r in i.
Definition rty (r : pvrow3) : positive := let '(_, t, _, _, _, _, _) := r in t.
Definition rprev (r : pvrow3) : list positive := let '(_, _, p, _, _, _, _) := r in p.
Definition rts (r : pvrow3) : string := let '(_, _, _, s, _, _, _) := r in s.
Definition rjob (r : pvrow3) : positive := let '(_, _, _, _, j, _, _) := r in j.
Definition rname (r : pvrow3) : positive := let '(_, _, _, _, _, n, _) := r in n.
Definition rapp (r : pvrow3) : positive := let '(_, _, _, _, _, _, a) := r in a.

Definition row_of (e : oevent) (ps : list positive) : pvrow3 :=
  (eid e, ety e, ps, nano_to_pv (een e), njob (fst e), nname (fst e), napp (fst e)).

(** the final loop of sequence_otel_event_job (lines 236-245), one PVEvent per dict entry in dict
    order; [None] = KeyError on [event_id_to_previous_event_ids[event_id]] (an entry the
    recursion from the root never reached) *)
Fixpoint rows_of_dict (d : list oevent) (l : links) : option (list pvrow3) :=
  match d with
  | [] => Some []
  | e :: r =>
      match last_link (eid e) l, rows_of_dict r l with
      | Some ps, Some rows => Some (row_of e ps :: rows)
      | _, _ => None
      end
  end.

Inductive job_result := JSkipped | JError | JOk (rows : list pvrow3).

(** * One streamed job through sequence_otel_job_id_streams *)
Definition sequence_job (async : bool) (m : gmap) (rs : rules) (job : list oevent) : job_result :=
  if parents_present job then
    let d := dict_of job in
    match rename_job rs d with
    | None => JError                                    (* KeyError in the rename pass *)
    | Some d' =>
        match filter is_root d' with
        | [r] =>
            match seq_anc (length d') async m d' r [] with
            | None => JError                            (* KeyError / RecursionError *)
            | Some l =>
                match rows_of_dict d' l with
                | None => JError                        (* KeyError in the final loop *)
                | Some rows => JOk rows
                end
            end
        | _ => JError                                   (* ValueError: not exactly one root *)
        end
    end
  else JSkipped.

(** * otel_to_pv: per workflow name, its configuration and its traces *)
Definition otel_to_pv_model (async : bool) (cfg : positive -> gmap * rules)
           (s : list (positive * list (list oevent))) : list (positive * list job_result) :=
  map (fun nj => (fst nj, map (sequence_job async (fst (cfg (fst nj))) (snd (cfg (fst nj)))) (snd nj))) s.

(** * The span tree of a streamed trace *)
Fixpoint map_opt {A B} (f : A -> option B) (l : list A) : option (list B) :=
  match l with
  | [] => Some []
  | x :: r =>
      match f x, map_opt f r with
      | Some y, Some ys => Some (y :: ys)
      | _, _ => None
      end
  end.

(** payload of a [span] := the job id *)
Fixpoint build (fuel : nat) (d : list oevent) (e : oevent) {struct fuel} : option span :=
  match fuel with
  | O => None
  | S f =>
      match get_all d (ekids e) with
      | None => None
      | Some kids =>
          match map_opt (build f d) kids with
          | None => None
          | Some ks => Some (Span (eid e) (ety e) (est e) (een e) (njob (fst e)) ks)
          end
      end
  end.

(** exactly one root, child id lists followed in order, fuel = number of events; [None] unless the
    result is a tree over exactly these events (unique ids, every event reached exactly once) *)
Definition build_tree (job : list oevent) : option span :=
  if nodupb (map eid job) then
    match filter is_root job with
    | [r] =>
        match build (length job) job r with
        | Some t =>
            if Nat.eqb (length (Span.ids t)) (length job) && nodupb (Span.ids t) then Some t else None
        | None => None
        end
    | _ => None
    end
  else None.

(** every listed child points back to the lister *)
Definition kids_point_back (job : list oevent) : bool :=
  forallb (fun e => forallb (fun c => match get c job with
                                      | Some k => opt_eqb (epar k) (Some (eid e))
                                      | None => false
                                      end) (ekids e)) job.

(** boolean checker for [TreeJob] (PipelineProofs.v) *)
Definition tree_jobb (job : list oevent) : bool :=
  match build_tree job with Some _ => kids_point_back job | None => false end.

Definition store_treesb (fm : list (positive * list positive)) (fn : list positive) (st : store) : bool :=
  forallb (fun nj => forallb tree_jobb (snd nj)) (stream fm fn st).
