(** Model of tel2puml/otel_to_pv/sequence_otel.py (the sequencing rules).  No proofs in this file.

    [merge_async], [prior_groups] model the code as repaired by the two "fix:" commits
    (running maximum; empty prior groups skipped); the [_v0] variants model the pinned tree. *)
From Coq Require Import ZArith List Bool.
From V Require Import Otel.Span.
Import ListNotations.
Open Scope Z_scope.

Definition links := list (positive * list positive).

(** A child span as the grouping code sees it: its fields plus the (already structurally
    smaller) recursive call on it. *)
Record item := { it_id : positive; it_ty : positive; it_st : Z; it_en : Z;
                 it_run : list positive -> links }.

(** sorted(group, key=start) - stable insertion sort *)
Fixpoint ins (x : item) (l : list item) : list item :=
  match l with
  | [] => [x]
  | y :: r => if it_st y <? it_st x then y :: ins x r else x :: l
  end.
Definition sort_items (l : list item) : list item := fold_right ins [] l.

Definition head_st (g : list item) : Z := match g with [] => 0 | x :: _ => it_st x end.

(** sorted(groups, key=first member's start) - stable *)
Fixpoint insg (x : list item) (l : list (list item)) : list (list item) :=
  match l with
  | [] => [x]
  | y :: r => if head_st y <? head_st x then y :: insg x r else x :: l
  end.
Definition sort_groups (l : list (list item)) : list (list item) := fold_right insg [] l.

(** order_groups_by_start_timestamp *)
Definition order_groups (gs : list (list item)) : list (list item) :=
  sort_groups (map sort_items gs).

(** group_events_using_async_information: [gm] is the dict child type -> group id in insertion
    order.  One list per group id (first occurrence order of the id among the dict's values),
    members in child order; then one singleton per unlisted child, in child order. *)
Definition is_nonempty {A} (l : list A) : bool := match l with [] => false | _ => true end.

Definition in_group (gm : list (positive * positive)) (g : positive) (x : item) : bool :=
  match lookup (it_ty x) gm with Some g' => Pos.eqb g g' | None => false end.
Definition unlisted (gm : list (positive * positive)) (x : item) : bool :=
  match lookup (it_ty x) gm with Some _ => false | None => true end.

Definition prior_groups_v0 (gm : list (positive * positive)) (l : list item) : list (list item) :=
  match l with
  | [] => []
  | _ => map (fun g => filter (in_group gm g) l) (dedup (map snd gm))
         ++ map (fun x => [x]) (filter (unlisted gm) l)
  end.

Definition prior_groups (gm : list (positive * positive)) (l : list item) : list (list item) :=
  filter is_nonempty (prior_groups_v0 gm l).

(** max(e.end_timestamp for e in group) for a non-empty group *)
Definition max_en (g : list item) : Z :=
  match g with [] => 0 | x :: r => fold_left (fun m y => Z.max m (it_en y)) r (it_en x) end.
Definition last_en (g : list item) : Z := it_en (last g {| it_id := 1; it_ty := 1; it_st := 0; it_en := 0; it_run := fun _ => [] |}).

(** sequence_groups_of_otel_events_asynchronously on already ordered groups:
    sweep with the running maximum end time. *)
Fixpoint merge_async (cur : list item) (mx : Z) (gs : list (list item)) : list (list item) :=
  match gs with
  | [] => [cur]
  | g :: r => if mx <? head_st g then cur :: merge_async g (max_en g) r
              else merge_async (cur ++ g) (Z.max mx (max_en g)) r
  end.

(** the pinned tree: compares with the end of the last member appended so far *)
Fixpoint merge_async_v0 (cur : list item) (gs : list (list item)) : list (list item) :=
  match gs with
  | [] => [cur]
  | g :: r => if last_en cur <? head_st g then cur :: merge_async_v0 g r
              else merge_async_v0 (cur ++ g) r
  end.

Definition async_groups (gs : list (list item)) : list (list item) :=
  match order_groups gs with [] => [] | g :: r => merge_async g (max_en g) r end.
Definition async_groups_v0 (gs : list (list item)) : list (list item) :=
  match order_groups gs with [] => [] | g :: r => merge_async_v0 g r end.

Definition event_groups (async : bool) (gm : list (positive * positive)) (l : list item) : list (list item) :=
  let gs := prior_groups gm l in
  if async then async_groups gs else order_groups gs.

(** pinned tree: an empty prior group makes order_groups_by_start_timestamp raise ValueError *)
Definition event_groups_v0 (async : bool) (gm : list (positive * positive)) (l : list item)
  : option (list (list item)) :=
  let gs := prior_groups_v0 gm l in
  if forallb is_nonempty gs then Some (if async then async_groups_v0 gs else order_groups gs) else None.

(** the loop over groups in sequence_otel_event_ancestors *)
Fixpoint run_groups (gs : list (list item)) (prev : list positive) : links * list positive :=
  match gs with
  | [] => ([], prev)
  | g :: r => let out := flat_map (fun it => it_run it prev) g in
              let '(o2, p2) := run_groups r (map it_id g) in (out ++ o2, p2)
  end.

Definition gmap := list (positive * list (positive * positive)).   (* parent type -> child type -> group *)
Definition gm_of (m : gmap) (ty : positive) : list (positive * positive) :=
  match lookup ty m with Some g => g | None => [] end.

Fixpoint seqf (async : bool) (m : gmap) (t : span) (prev : list positive) {struct t} : links :=
  match t with
  | Span i ty st en pl kids =>
      let items := map (fun k => {| it_id := sid k; it_ty := sty k; it_st := sst k; it_en := sen k;
                                    it_run := seqf async m k |}) kids in
      let '(out, p) := run_groups (event_groups async (gm_of m ty) items) prev in
      out ++ [(i, p)]
  end.

(** pinned-tree variant with the ValueError as None (error anywhere aborts the job) *)
Fixpoint run_groups0 (run : positive -> list positive -> option links) (gs : list (list item))
         (prev : list positive) : option (links * list positive) :=
  match gs with
  | [] => Some ([], prev)
  | g :: r =>
      let outs := map (fun it => run (it_id it) prev) g in
      if forallb (fun o => match o with Some _ => true | None => false end) outs then
        match run_groups0 run r (map it_id g) with
        | Some (o2, p2) => Some (flat_map (fun o => match o with Some l => l | None => [] end) outs ++ o2, p2)
        | None => None
        end
      else None
  end.

Fixpoint seqf_v0 (async : bool) (m : gmap) (t : span) (prev : list positive) {struct t} : option links :=
  match t with
  | Span i ty st en pl kids =>
      let items := map (fun k => {| it_id := sid k; it_ty := sty k; it_st := sst k; it_en := sen k;
                                    it_run := fun _ => [] |}) kids in
      let runs := map (fun k => (sid k, seqf_v0 async m k)) kids in
      let run := fun (j : positive) (p : list positive) =>
                   match lookup j runs with Some f => f p | None => None end in
      match event_groups_v0 async (gm_of m ty) items with
      | None => None
      | Some gs => match run_groups0 run gs prev with
                   | Some (out, p) => Some (out ++ [(i, p)])
                   | None => None
                   end
      end
  end.

(** update_event_types_based_on_children: events visited in stream (dict) order [order];
    a visited event whose *current* type has a rule is renamed when one of its children's
    *current* types is listed. *)
Definition rules := list (positive * (positive * list positive)).  (* type -> (mapped type, child types) *)

Fixpoint rename_at (rs : rules) (i : positive) (t : span) : span :=
  match t with
  | Span j ty st en pl kids =>
      let kids' := map (rename_at rs i) kids in
      if Pos.eqb i j then
        match lookup ty rs with
        | Some (mapped, cts) =>
            if existsb (fun k => mem (sty k) cts) kids then Span j mapped st en pl kids else t
        | None => t
        end
      else Span j ty st en pl kids'
  end.

Definition rename (rs : rules) (order : list positive) (t : span) : span :=
  fold_left (fun t i => rename_at rs i t) order t.

(** The documented rule, on original types only. *)
Fixpoint rename_spec (rs : rules) (t : span) : span :=
  match t with
  | Span j ty st en pl kids =>
      let ty' := match lookup ty rs with
                 | Some (mapped, cts) => if existsb (fun k => mem (sty k) cts) kids then mapped else ty
                 | None => ty
                 end in
      Span j ty' st en pl (map (rename_spec rs) kids)
  end.

Definition sequence (async : bool) (m : gmap) (rs : rules) (order : list positive) (t : span) : links :=
  seqf async m (rename rs order t) [].
Definition sequence_v0 (async : bool) (m : gmap) (rs : rules) (order : list positive) (t : span) : option links :=
  seqf_v0 async m (rename rs order t) [].
