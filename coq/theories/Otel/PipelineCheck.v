(** Executable glue for the correspondence check of the OTel pipeline model ([Pipeline.v]) with
    tel2puml.otel_to_pv.sequence_otel.sequence_otel_job_id_streams / otel_to_pv.  No proofs here.

    Term conventions for a harness (all strings interned as [positive]):
    - event id  "e<i>" -> i,  event type "T<k>" -> k,  job id / job name / application -> positives
      (workflow names and trace ids order-preservingly when they come from a store, see Store/Rel.v);
    - an OTelEvent is [ev id parent job name ty st en app kids] with [parent : option positive],
      [st]/[en] the unix-nano integers as [Z], [kids] the child_event_ids list in order;
    - a streamed job is the list of its events in stream order; a stream is
      [list (name * list job)] as produced by Store.Stream.stream;
    - async_event_groups[job_name] is a [gmap] = [(parent type, [(child type, group id); ...]); ...]
      in dict order, event_name_map_information[job_name] is a [rules] =
      [(type, (mapped type, [child types])); ...]; the two config dicts are association lists by
      workflow name, looked up with [cfg_of] (a missing name gives ([], []) like [.get(name, None)]);
    - a PVEvent is the row (eventId, eventType, previousEventIds, timestamp string, jobId, jobName,
      applicationName);
    - the implementation's outcome for one job is [IOk rows] (the inner generator was consumed
      without exception), [IErr] (any exception while advancing the outer generator for this job or
      consuming its inner generator) or [ISkip] (the outer generator produced nothing for the job). *)
From Coq Require Import String ZArith List Bool.
From V Require Import Store.Rel Store.Stream Otel.Span Otel.Sequencer Otel.SeqCheck Otel.Pipeline.
Import ListNotations.
Open Scope Z_scope.

Definition ev (i : positive) (p : option positive) (job name ty : positive) (st en : Z) (app : positive)
           (kids : list positive) : oevent :=
  (mknode i p job name ty st en app, kids).

Inductive impl_outcome := IOk (rows : list pvrow3) | IErr | ISkip.

Definition row3_eqb (a b : pvrow3) : bool :=
  Pos.eqb (rid a) (rid b) && Pos.eqb (rty a) (rty b) && plist_eqb (rprev a) (rprev b)
  && String.eqb (rts a) (rts b) && Pos.eqb (rjob a) (rjob b) && Pos.eqb (rname a) (rname b)
  && Pos.eqb (rapp a) (rapp b).

Definition result_eqb (r : job_result) (o : impl_outcome) : bool :=
  match r, o with
  | JOk rows, IOk rows' => list_eqb row3_eqb rows rows'
  | JError, IErr => true
  | JSkipped, ISkip => true
  | _, _ => false
  end.

(** the two per-workflow dicts of SequencerConfig *)
Definition cfg_of (ag : list (positive * gmap)) (rn : list (positive * rules)) (nm : positive)
  : gmap * rules :=
  (match lookup nm ag with Some g => g | None => [] end,
   match lookup nm rn with Some r => r | None => [] end).

(** comparison of a whole run: same workflow names, same outcome for every job *)
Fixpoint results_eqb (l : list job_result) (l' : list impl_outcome) : bool :=
  match l, l' with
  | [], [] => true
  | r :: t, o :: t' => result_eqb r o && results_eqb t t'
  | _, _ => false
  end.

Fixpoint run_eqb (a : list (positive * list job_result)) (b : list (positive * list impl_outcome)) : bool :=
  match a, b with
  | [], [] => true
  | x :: a', y :: b' => Pos.eqb (fst x) (fst y) && results_eqb (snd x) (snd y) && run_eqb a' b'
  | _, _ => false
  end.

(** What a consumer of otel_to_pv actually observes: the run raises at the first job whose result
    is [JError] (nothing later is produced); skipped jobs leave no trace. *)
Fixpoint observed_jobs (l : list job_result) : list (list pvrow3) * bool :=
  match l with
  | [] => ([], true)
  | JSkipped :: r => observed_jobs r
  | JError :: _ => ([], false)
  | JOk rows :: r => let '(o, ok) := observed_jobs r in (rows :: o, ok)
  end.

Fixpoint observed (out : list (positive * list job_result))
  : list (positive * list (list pvrow3)) * bool :=
  match out with
  | [] => ([], true)
  | (nm, rs) :: r =>
      let '(o, ok) := observed_jobs rs in
      if ok then let '(o', ok') := observed r in ((nm, o) :: o', ok') else ([(nm, o)], false)
  end.

(** projection onto the rows of SeqCheck.v (payload := job id), for comparison with [to_pv] *)
Definition row3_to_row (r : pvrow3) : pvrow := (rid r, rty r, rprev r, rts r, rjob r).

Definition is_some {A} (o : option A) : bool := match o with Some _ => true | None => false end.

Definition idx {A} (f : A -> bool) (l : list A) : list nat :=
  map fst (filter (fun p => negb (f (snd p))) (combine (List.seq 0 (List.length l)) l)).
