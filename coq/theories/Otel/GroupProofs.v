(** Grouping by prior (async) information: which children share a group, no empty group after
    the repair, and the exact condition under which the pinned tree raises ValueError. *)
From Coq Require Import ZArith List Bool Lia Permutation.
From V Require Import Otel.Span Otel.Sequencer Otel.SequencerSpec Otel.SequencerProofs.
Import ListNotations.
Open Scope Z_scope.

Lemma NoDup_map_inj {A B} (f : A -> B) l x y :
  NoDup (map f l) -> In x l -> In y l -> f x = f y -> x = y.
Proof.
  induction l as [|a l IH]; intros Hnd Hx Hy Hf; simpl in *.
  - contradiction.
  - inversion Hnd as [|a' l' Hnotin Hnd']; subst.
    destruct Hx as [->|Hx]; destruct Hy as [->|Hy].
    + reflexivity.
    + exfalso. apply Hnotin. rewrite Hf. apply in_map. exact Hy.
    + exfalso. apply Hnotin. rewrite <- Hf. apply in_map. exact Hx.
    + apply IH; assumption.
Qed.

Lemma in_group_true gm g x : in_group gm g x = true <-> lookup (it_ty x) gm = Some g.
Proof.
  unfold in_group. destruct (lookup (it_ty x) gm) as [g'|].
  - rewrite Pos.eqb_eq. split; [intros ->; reflexivity|intros H; injection H as ->; reflexivity].
  - split; discriminate.
Qed.

Lemma unlisted_true gm x : unlisted gm x = true <-> lookup (it_ty x) gm = None.
Proof.
  unfold unlisted. destruct (lookup (it_ty x) gm); split; (reflexivity || discriminate).
Qed.

Lemma in_pg_body gm l g :
  In g (pg_body gm l) <->
  (exists d, In d (map snd gm) /\ g = filter (in_group gm d) l) \/
  (exists z, In z l /\ lookup (it_ty z) gm = None /\ g = [z]).
Proof.
  unfold pg_body. rewrite in_app_iff, !in_map_iff. split.
  - intros [[d [<- Hd]]|[z [<- Hz]]].
    + left. exists d. split; [apply dedup_In; exact Hd|reflexivity].
    + right. apply filter_In in Hz. destruct Hz as [Hz Hu]. exists z.
      split; [exact Hz|]. split; [apply unlisted_true; exact Hu|reflexivity].
  - intros [[d [Hd ->]]|[z [Hz [Hu ->]]]].
    + left. exists d. split; [reflexivity|apply dedup_In; exact Hd].
    + right. exists z. split; [reflexivity|]. apply filter_In. split; [exact Hz|].
      apply unlisted_true. exact Hu.
Qed.

Lemma in_prior_groups gm l g :
  In g (prior_groups gm l) <-> g <> [] /\ In g (pg_body gm l).
Proof.
  unfold prior_groups. rewrite filter_In, prior_groups_v0_eq. split.
  - intros [Hg Hne]. split; [destruct g; [discriminate|discriminate]|].
    destruct l; [contradiction|exact Hg].
  - intros [Hne Hg]. split.
    + destruct l as [|x l]; [|exact Hg].
      apply in_pg_body in Hg. destruct Hg as [[d [_ ->]]|[z [[] _]]]. contradiction.
    + destruct g; [contradiction|reflexivity].
Qed.

(** * 10a. Which children share a group *)
Theorem prior_groups_spec : forall gm l x y,
  NoDup (map it_id l) -> In x l -> In y l ->
  (same_group (prior_groups gm l) x y <->
   it_id x = it_id y \/
   exists g, lookup (it_ty x) gm = Some g /\ lookup (it_ty y) gm = Some g).
Proof.
  intros gm l x y Hnd Hx Hy. split.
  - intros [g [Hg [Hxg Hyg]]]. apply in_prior_groups in Hg. destruct Hg as [_ Hg].
    apply in_pg_body in Hg. destruct Hg as [[d [_ ->]]|[z [_ [_ ->]]]].
    + right. exists d. apply filter_In in Hxg. apply filter_In in Hyg.
      split; apply in_group_true; [apply Hxg|apply Hyg].
    + left. destruct Hxg as [<-|[]]. destruct Hyg as [<-|[]]. reflexivity.
  - intros [Hid|[d [Hdx Hdy]]].
    + assert (x = y) by (eapply NoDup_map_inj; eassumption). subst y.
      destruct (lookup (it_ty x) gm) as [d|] eqn:E.
      * exists (filter (in_group gm d) l).
        assert (Hin : In x (filter (in_group gm d) l))
          by (apply filter_In; split; [exact Hx|apply in_group_true; exact E]).
        split; [|split; exact Hin].
        apply in_prior_groups. split; [intros He; rewrite He in Hin; contradiction|].
        apply in_pg_body. left. exists d. split; [eapply lookup_In_snd; exact E|reflexivity].
      * exists [x]. split; [|split; left; reflexivity].
        apply in_prior_groups. split; [discriminate|].
        apply in_pg_body. right. exists x. split; [exact Hx|]. split; [exact E|reflexivity].
    + exists (filter (in_group gm d) l).
      assert (Hinx : In x (filter (in_group gm d) l))
        by (apply filter_In; split; [exact Hx|apply in_group_true; exact Hdx]).
      assert (Hiny : In y (filter (in_group gm d) l))
        by (apply filter_In; split; [exact Hy|apply in_group_true; exact Hdy]).
      split; [|split; assumption].
      apply in_prior_groups. split; [intros He; rewrite He in Hinx; contradiction|].
      apply in_pg_body. left. exists d. split; [eapply lookup_In_snd; exact Hdx|reflexivity].
Qed.

(** * 10b. No empty group after the repair *)
Theorem prior_groups_no_empty : forall gm l, Forall (fun g => g <> []) (prior_groups gm l).
Proof. exact prior_groups_nonempty. Qed.

(** * 10c. The pinned tree's ValueError *)
Lemma forallb_false {A} (f : A -> bool) l :
  forallb f l = false <-> exists x, In x l /\ f x = false.
Proof.
  induction l as [|a l IH]; simpl.
  - split; [discriminate|intros [x [[] _]]].
  - rewrite andb_false_iff, IH. split.
    + intros [H|[x [Hx Hf]]]; [exists a; split; [left; reflexivity|exact H]|exists x; split; [right; exact Hx|exact Hf]].
    + intros [x [[->|Hx] Hf]]; [left; exact Hf|right; exists x; split; assumption].
Qed.

Lemma filter_nil_iff {A} (f : A -> bool) l : filter f l = [] <-> forall x, In x l -> f x = false.
Proof.
  induction l as [|a l IH]; simpl.
  - split; [intros _ x []|reflexivity].
  - destruct (f a) eqn:E.
    + split; [discriminate|]. intros H. rewrite (H a (or_introl eq_refl)) in E. discriminate.
    + rewrite IH. split.
      * intros H x [<-|Hx]; [exact E|apply H; exact Hx].
      * intros H x Hx. apply H. right. exact Hx.
Qed.

Theorem event_groups_v0_error : forall async gm l,
  event_groups_v0 async gm l = None <->
  l <> [] /\ exists g, In g (map snd gm) /\ forall x, In x l -> lookup (it_ty x) gm <> Some g.
Proof.
  intros async gm l. unfold event_groups_v0.
  destruct (forallb is_nonempty (prior_groups_v0 gm l)) eqn:E.
  - split; [discriminate|]. intros [Hl [d [Hd Hno]]]. exfalso.
    rewrite forallb_forall in E.
    assert (Hin : In (filter (in_group gm d) l) (prior_groups_v0 gm l)).
    { rewrite prior_groups_v0_eq. destruct l; [contradiction|].
      apply in_pg_body. left. exists d. split; [exact Hd|reflexivity]. }
    apply E in Hin.
    assert (He : filter (in_group gm d) l = []).
    { apply filter_nil_iff. intros x Hx. destruct (in_group gm d x) eqn:Eg; [|reflexivity].
      apply in_group_true in Eg. exfalso. apply (Hno x Hx). exact Eg. }
    rewrite He in Hin. discriminate.
  - split; [intros _|reflexivity].
    apply forallb_false in E. destruct E as [g [Hg Hemp]].
    rewrite prior_groups_v0_eq in Hg. destruct l as [|x0 l]; [contradiction|].
    split; [discriminate|].
    apply in_pg_body in Hg. destruct Hg as [[d [Hd ->]]|[z [_ [_ ->]]]]; [|discriminate].
    exists d. split; [exact Hd|]. intros x Hx Hl.
    assert (Hin : In x (filter (in_group gm d) (x0 :: l)))
      by (apply filter_In; split; [exact Hx|apply in_group_true; exact Hl]).
    destruct (filter (in_group gm d) (x0 :: l)); [contradiction|discriminate].
Qed.

(** the repaired grouping never fails and agrees with the pinned tree whenever that succeeds *)
Theorem event_groups_v0_agrees_sync : forall gm l gs,
  event_groups_v0 false gm l = Some gs -> event_groups false gm l = gs.
Proof.
  intros gm l gs. unfold event_groups_v0, event_groups, prior_groups.
  destruct (forallb is_nonempty (prior_groups_v0 gm l)) eqn:E; [|discriminate].
  intros H. injection H as <-. f_equal.
  rewrite forallb_forall in E. induction (prior_groups_v0 gm l) as [|g gs IH]; simpl.
  - reflexivity.
  - rewrite (E g (or_introl eq_refl)). f_equal. apply IH. intros x Hx. apply E. right. exact Hx.
Qed.

(** * Witnesses *)
Definition it (i ty : positive) (s e : Z) : item :=
  {| it_id := i; it_ty := ty; it_st := s; it_en := e; it_run := fun _ => [] |}.

(** one child of type 2, prior information only about type 1 (group 5): ValueError *)
Example event_groups_v0_error_witness :
  event_groups_v0 false [(1, 5)]%positive [it 1 2 0 10] = None /\
  event_groups false [(1, 5)]%positive [it 1 2 0 10] = [[it 1 2 0 10]].
Proof. split; reflexivity. Qed.

(** non-vacuity of [prior_groups_spec]: two distinct children in one group *)
Example prior_groups_spec_witness :
  let l := [it 1 1 0 10; it 2 2 5 20; it 3 3 7 9] in
  let gm := [(1, 5); (2, 5)]%positive in
  NoDup (map it_id l) /\ same_group (prior_groups gm l) (it 1 1 0 10) (it 2 2 5 20) /\
  ~ same_group (prior_groups gm l) (it 1 1 0 10) (it 3 3 7 9).
Proof.
  cbv zeta. split; [|split].
  - simpl. repeat constructor; simpl; intuition discriminate.
  - exists [it 1 1 0 10; it 2 2 5 20]. split; [left; reflexivity|].
    split; [left; reflexivity|right; left; reflexivity].
  - intros H. apply prior_groups_spec in H.
    + destruct H as [H|[g [_ H]]]; discriminate H.
    + simpl. repeat constructor; simpl; intuition discriminate.
    + left. reflexivity.
    + right. right. left. reflexivity.
Qed.
