(** Executable glue for the correspondence check of C08 (PV rows in stream order and their
    boolean comparison).  No proofs in this file. *)
From Coq Require Import ZArith List Bool String.
From V Require Import Otel.Span Otel.Sequencer Time.PvTime.
Import ListNotations.
Open Scope Z_scope.

(** (event id, event type, previous ids, timestamp, payload) *)
Definition pvrow := (positive * positive * list positive * string * positive)%type.

Fixpoint find_node (i : positive) (t : span) : option span :=
  match t with
  | Span j _ _ _ _ kids =>
      if Pos.eqb i j then Some t
      else fold_right (fun k acc => match find_node i k with Some s => Some s | None => acc end) None kids
  end.

Definition rows_of (order : list positive) (t : span) (l : links) : list pvrow :=
  flat_map (fun i => match find_node i t, lookup i l with
                     | Some s, Some ps => [(i, sty s, ps, nano_to_pv (sen s), spl s)]
                     | _, _ => []
                     end) order.

Definition to_pv (async : bool) (m : gmap) (rs : rules) (order : list positive) (t : span) : list pvrow :=
  let t' := rename rs order t in rows_of order t' (seqf async m t' []).

Definition to_pv_v0 (async : bool) (m : gmap) (rs : rules) (order : list positive) (t : span)
  : option (list pvrow) :=
  let t' := rename rs order t in
  match seqf_v0 async m t' [] with Some l => Some (rows_of order t' l) | None => None end.

Fixpoint plist_eqb (a b : list positive) : bool :=
  match a, b with
  | [], [] => true
  | x :: a', y :: b' => Pos.eqb x y && plist_eqb a' b'
  | _, _ => false
  end.

Definition row_eqb (a b : pvrow) : bool :=
  let '(i, t, ps, s, p) := a in let '(i', t', ps', s', p') := b in
  Pos.eqb i i' && Pos.eqb t t' && plist_eqb ps ps' && String.eqb s s' && Pos.eqb p p'.

Fixpoint rows_eqb (a b : list pvrow) : bool :=
  match a, b with
  | [], [] => true
  | x :: a', y :: b' => row_eqb x y && rows_eqb a' b'
  | _, _ => false
  end.

Definition orows_eqb (a b : option (list pvrow)) : bool :=
  match a, b with
  | Some x, Some y => rows_eqb x y
  | None, None => true
  | _, _ => false
  end.

Definition idx {A} (f : A -> bool) (l : list A) : list nat :=
  map fst (filter (fun p => negb (f (snd p))) (combine (List.seq 0 (List.length l)) l)).
