(** End-to-end theorems on the OTel side: the glue of [Pipeline.v] composed with the stream
    theorems (Store/StreamProofs.v, C12) and the sequencer theorems (Otel/SequencerProofs.v, C08). *)
From Coq Require Import String ZArith List Bool Lia Permutation Sorted.
From V Require Import Store.Rel Store.Stream Store.StreamProofs.
From V Require Import Otel.Span Otel.Sequencer Otel.SequencerSpec Otel.SequencerProofs Otel.GroupProofs
                      Otel.RenameProofs Otel.SeqCheck Time.PvTime Otel.Pipeline Otel.PipelineCheck.
Import ListNotations.
Open Scope Z_scope.

(* ------------------------------------------------------------------------------------------ *)
(** * 0. Basics: dict lookup, boolean reflections *)

Lemma nodupb_spec l : nodupb l = true <-> NoDup l.
Proof.
  induction l as [|x l IH]; cbn [nodupb].
  - split; [constructor|reflexivity].
  - rewrite andb_true_iff, negb_true_iff, IH. split.
    + intros [Hm Hn]. constructor; [|exact Hn]. intros Hin. apply memp_spec in Hin. congruence.
    + intros H. inversion H as [|x' l' Hx Hn]; subst. split; [|exact Hn].
      destruct (memp x l) eqn:E; [|reflexivity]. apply memp_spec in E. contradiction.
Qed.

Lemma get_eid i d e : get i d = Some e -> eid e = i.
Proof.
  induction d as [|x d IH]; cbn [get]; [discriminate|].
  destruct (Pos.eqb_spec i (eid x)) as [->|Hne]; intros H.
  - inversion H; subst. reflexivity.
  - apply IH. exact H.
Qed.

Lemma get_In i d e : get i d = Some e -> In e d.
Proof.
  induction d as [|x d IH]; cbn [get]; [discriminate|].
  destruct (Pos.eqb i (eid x)); intros H.
  - inversion H; subst. left. reflexivity.
  - right. apply IH. exact H.
Qed.

Lemma get_None i d : get i d = None <-> ~ In i (map eid d).
Proof.
  induction d as [|x d IH]; cbn [get map In].
  - tauto.
  - destruct (Pos.eqb_spec i (eid x)) as [->|Hne].
    + split; [discriminate|]. intros H. exfalso. apply H. left. reflexivity.
    + rewrite IH. split.
      * intros H [Heq|Hin]; [apply Hne; symmetry; exact Heq|exact (H Hin)].
      * intros H Hin. apply H. right. exact Hin.
Qed.

Lemma get_Some_in i d : In i (map eid d) -> exists e, get i d = Some e.
Proof.
  intros H. destruct (get i d) as [e|] eqn:E; [exists e; reflexivity|].
  apply get_None in E. contradiction.
Qed.

Lemma get_in_keys i d e : get i d = Some e -> In i (map eid d).
Proof.
  intros H. rewrite <- (get_eid _ _ _ H). apply in_map. eapply get_In. exact H.
Qed.

Lemma get_nodup d e : NoDup (map eid d) -> In e d -> get (eid e) d = Some e.
Proof.
  induction d as [|x d IH]; cbn [map get]; intros Hnd Hin; [contradiction|].
  inversion Hnd as [|x' l' Hx Hnd']; subst.
  destruct Hin as [->|Hin].
  - rewrite Pos.eqb_refl. reflexivity.
  - destruct (Pos.eqb_spec (eid e) (eid x)) as [Heq|Hne].
    + exfalso. apply Hx. rewrite <- Heq. apply in_map. exact Hin.
    + apply IH; assumption.
Qed.

Lemma get_all_spec d cs ks :
  get_all d cs = Some ks <-> Forall2 (fun c k => get c d = Some k) cs ks.
Proof.
  revert ks. induction cs as [|c cs IH]; intros ks; cbn [get_all].
  - split.
    + intros H. inversion H. constructor.
    + intros H. inversion H. reflexivity.
  - split.
    + destruct (get c d) as [k|] eqn:E; [|discriminate].
      destruct (get_all d cs) as [l|] eqn:E2; [|discriminate].
      intros H. inversion H; subst. constructor; [exact E|]. apply IH. reflexivity.
    + intros H. inversion H as [|c' k cs' ks' Hk Hr]; subst. rewrite Hk.
      apply IH in Hr. rewrite Hr. reflexivity.
Qed.

Lemma get_all_ids d cs ks : get_all d cs = Some ks -> map eid ks = cs.
Proof.
  intros H. apply get_all_spec in H. induction H as [|c k cs ks Hk _ IH]; [reflexivity|].
  cbn [map]. rewrite IH, (get_eid _ _ _ Hk). reflexivity.
Qed.

Lemma get_all_some d cs : (forall c, In c cs -> In c (map eid d)) -> exists ks, get_all d cs = Some ks.
Proof.
  induction cs as [|c cs IH]; intros H; cbn [get_all].
  - exists []. reflexivity.
  - destruct (get_Some_in c d (H c (or_introl eq_refl))) as [k Hk]. rewrite Hk.
    destruct IH as [ks Hks]; [intros c' Hc'; apply H; right; exact Hc'|].
    rewrite Hks. exists (k :: ks). reflexivity.
Qed.

Lemma get_all_none d cs : get_all d cs = None <-> exists c, In c cs /\ ~ In c (map eid d).
Proof.
  induction cs as [|c cs IH]; cbn [get_all].
  - split; [discriminate|]. intros [c [[] _]].
  - destruct (get c d) as [k|] eqn:E.
    + destruct (get_all d cs) as [l|] eqn:E2.
      * split; [discriminate|]. intros [c' [[<-|Hc'] Hn]].
        -- exfalso. apply Hn. eapply get_in_keys. exact E.
        -- assert (Hx : @None (list oevent) = None) by reflexivity.
           destruct IH as [_ IH2]. discriminate IH2. exists c'. split; assumption.
      * split; [|reflexivity]. intros _. destruct IH as [IH1 _].
        destruct (IH1 eq_refl) as [c' [Hc' Hn]]. exists c'. split; [right; exact Hc'|exact Hn].
    + split; [|reflexivity]. intros _. exists c. split; [left; reflexivity|].
      apply get_None. exact E.
Qed.

Lemma map_opt_spec {A B} (f : A -> option B) l ys :
  map_opt f l = Some ys <-> Forall2 (fun x y => f x = Some y) l ys.
Proof.
  revert ys. induction l as [|x l IH]; intros ys; cbn [map_opt].
  - split.
    + intros H. inversion H. constructor.
    + intros H. inversion H. reflexivity.
  - split.
    + destruct (f x) as [y|] eqn:E; [|discriminate].
      destruct (map_opt f l) as [r|] eqn:E2; [|discriminate].
      intros H. inversion H; subst. constructor; [exact E|]. apply IH. reflexivity.
    + intros H. inversion H as [|x' y l' ys' Hy Hr]; subst. rewrite Hy.
      apply IH in Hr. rewrite Hr. reflexivity.
Qed.

Lemma Forall2_len {A B} (R : A -> B -> Prop) l l' : Forall2 R l l' -> length l = length l'.
Proof. induction 1; cbn [length]; congruence. Qed.

Lemma Forall2_in_r {A B} (R : A -> B -> Prop) l l' y :
  Forall2 R l l' -> In y l' -> exists x, In x l /\ R x y.
Proof.
  induction 1 as [|a b l l' Hab _ IH]; intros Hin; [contradiction|].
  destruct Hin as [<-|Hin].
  - exists a. split; [left; reflexivity|exact Hab].
  - destruct (IH Hin) as [x [Hx Hr]]. exists x. split; [right; exact Hx|exact Hr].
Qed.

Lemma Forall2_in_l {A B} (R : A -> B -> Prop) l l' x :
  Forall2 R l l' -> In x l -> exists y, In y l' /\ R x y.
Proof.
  induction 1 as [|a b l l' Hab _ IH]; intros Hin; [contradiction|].
  destruct Hin as [<-|Hin].
  - exists b. split; [left; reflexivity|exact Hab].
  - destruct (IH Hin) as [y [Hy Hr]]. exists y. split; [right; exact Hy|exact Hr].
Qed.

(* ------------------------------------------------------------------------------------------ *)
(** * 1. Span trees: nodes, ids *)

Lemma ids_nodes t : ids t = map sid (nodes t).
Proof.
  induction t as [i ty st en pl kids IH] using span_ind'.
  cbn [ids nodes map sid]. f_equal.
  induction IH as [|k kids Hk _ IHk]; [reflexivity|].
  cbn [flat_map]. rewrite map_app, Hk, IHk. reflexivity.
Qed.

Lemma in_ids_node t i : In i (ids t) <-> exists s, In s (nodes t) /\ sid s = i.
Proof.
  rewrite ids_nodes, in_map_iff. split; intros [s [H1 H2]]; exists s; tauto.
Qed.

Lemma node_self t : In t (nodes t).
Proof. destruct t. left. reflexivity. Qed.

Lemma nodes_kid t k s : In k (skids t) -> In s (nodes k) -> In s (nodes t).
Proof.
  destruct t as [i ty st en pl kids]. cbn [skids nodes]. intros Hk Hs.
  right. apply in_flat_map. exists k. split; assumption.
Qed.

Lemma nodes_trans t : forall s x, In s (nodes t) -> In x (nodes s) -> In x (nodes t).
Proof.
  induction t as [i ty st en pl kids IH] using span_ind'. intros s x Hs Hx.
  cbn [nodes] in Hs. destruct Hs as [<-|Hs]; [exact Hx|].
  apply in_flat_map in Hs. destruct Hs as [k [Hk Hs]].
  rewrite Forall_forall in IH. cbn [nodes]. right. apply in_flat_map.
  exists k. split; [exact Hk|]. eapply IH; eassumption.
Qed.

Lemma nodes_skids t s k : In s (nodes t) -> In k (skids s) -> In k (nodes t).
Proof.
  intros Hs Hk. eapply nodes_trans; [exact Hs|].
  eapply nodes_kid; [exact Hk|apply node_self].
Qed.

Lemma nodes_ids_incl t s : In s (nodes t) -> incl (ids s) (ids t).
Proof.
  intros Hs i Hi. apply in_ids_node in Hi. destruct Hi as [x [Hx <-]].
  apply in_ids_node. exists x. split; [|reflexivity]. eapply nodes_trans; eassumption.
Qed.

Lemma nodes_NoDup t : forall s, NoDup (ids t) -> In s (nodes t) -> NoDup (ids s).
Proof.
  induction t as [i ty st en pl kids IH] using span_ind'. intros s Hnd Hs.
  cbn [nodes] in Hs. destruct Hs as [<-|Hs]; [exact Hnd|].
  apply in_flat_map in Hs. destruct Hs as [k [Hk Hs]].
  rewrite Forall_forall in IH. apply (IH k Hk); [|exact Hs].
  cbn [ids] in Hnd. inversion Hnd; subst. eapply NoDup_flat_map_in; eassumption.
Qed.

Lemma nodes_sid_inj t s1 s2 :
  NoDup (ids t) -> In s1 (nodes t) -> In s2 (nodes t) -> sid s1 = sid s2 -> s1 = s2.
Proof.
  rewrite ids_nodes. intros Hnd H1 H2 Heq. eapply NoDup_map_inj; eassumption.
Qed.

Lemma size_kid i ty st en pl kids k :
  In k kids -> (length (ids k) < length (ids (Span i ty st en pl kids)))%nat.
Proof.
  intros Hk. cbn [ids length]. apply in_split in Hk. destruct Hk as [l1 [l2 ->]].
  rewrite flat_map_app. cbn [flat_map]. rewrite !app_length. lia.
Qed.

(* ------------------------------------------------------------------------------------------ *)
(** * 2. [build] and [build_tree]: the tree represents the job *)

(** the node [s] carries the fields of the event [e] and its kids are [e]'s child ids in order *)
Definition matches (e : oevent) (s : span) : Prop :=
  sid s = eid e /\ sty s = ety e /\ sst s = est e /\ sen s = een e /\ spl s = njob (fst e)
  /\ map sid (skids s) = ekids e.

(** every node of [t] is the image of the dict entry with its id *)
Definition rep (d : list oevent) (t : span) : Prop :=
  forall s, In s (nodes t) -> exists e, get (sid s) d = Some e /\ matches e s.

Lemma rep_sub d t s : rep d t -> In s (nodes t) -> rep d s.
Proof. intros H Hs x Hx. apply H. eapply nodes_trans; eassumption. Qed.

Lemma build_rep d : forall fuel e t,
  get (eid e) d = Some e -> build fuel d e = Some t -> matches e t /\ rep d t.
Proof.
  induction fuel as [|f IH]; intros e t He Hb; cbn [build] in Hb; [discriminate|].
  destruct (get_all d (ekids e)) as [kids|] eqn:Ek; [|discriminate].
  destruct (map_opt (build f d) kids) as [ks|] eqn:Em; [|discriminate].
  inversion Hb; subst t. clear Hb.
  apply map_opt_spec in Em.
  pose proof (get_all_ids _ _ _ Ek) as Hids.
  apply get_all_spec in Ek.
  assert (Hkids : Forall2 (fun k tk => matches k tk /\ rep d tk) kids ks).
  { clear Hids. revert ks Em. induction Ek as [|c k cs kids' Hk _ IHk]; intros ks Em.
    - inversion Em. constructor.
    - inversion Em as [|k' tk l' ks' Hb Hr]; subst. constructor.
      + apply (IH k tk); [|exact Hb]. rewrite (get_eid _ _ _ Hk). exact Hk.
      + apply IHk. exact Hr. }
  assert (Hm : matches e (Span (eid e) (ety e) (est e) (een e) (njob (fst e)) ks)).
  { unfold matches. cbn [sid sty sst sen spl skids]. repeat split.
    rewrite <- Hids. clear -Hkids. induction Hkids as [|k tk kids ks [Hm _] _ IHk]; [reflexivity|].
    cbn [map]. rewrite IHk. destruct Hm as [-> _]. reflexivity. }
  split; [exact Hm|].
  intros s Hs. cbn [nodes] in Hs. destruct Hs as [<-|Hs].
  - exists e. split; [exact He|exact Hm].
  - apply in_flat_map in Hs. destruct Hs as [tk [Htk Hs]].
    destruct (Forall2_in_r _ _ _ _ Hkids Htk) as [k [_ [_ Hrep]]]. apply Hrep. exact Hs.
Qed.

Lemma rep_ids_incl d t : rep d t -> incl (ids t) (map eid d).
Proof.
  intros H i Hi. apply in_ids_node in Hi. destruct Hi as [s [Hs <-]].
  destruct (H s Hs) as [e [He _]]. eapply get_in_keys. exact He.
Qed.

(** everything [build_tree] checks *)
Lemma build_tree_facts job t : build_tree job = Some t ->
  NoDup (map eid job) /\ NoDup (ids t) /\ rep job t /\ Permutation (ids t) (map eid job)
  /\ exists r, filter is_root job = [r] /\ matches r t.
Proof.
  unfold build_tree. destruct (nodupb (map eid job)) eqn:En; [|discriminate].
  apply nodupb_spec in En.
  destruct (filter is_root job) as [|r [|r' l]] eqn:Er; try discriminate.
  destruct (build (length job) job r) as [t'|] eqn:Eb; [|discriminate].
  destruct (Nat.eqb (length (ids t')) (length job) && nodupb (ids t')) eqn:Ec; [|discriminate].
  intros H. inversion H; subst t'. clear H.
  apply andb_true_iff in Ec. destruct Ec as [El Hnd].
  apply Nat.eqb_eq in El. apply nodupb_spec in Hnd.
  assert (Hr : In r job).
  { assert (Hin : In r (filter is_root job)) by (rewrite Er; left; reflexivity).
    apply filter_In in Hin. tauto. }
  destruct (build_rep job _ r t (get_nodup _ _ En Hr) Eb) as [Hm Hrep].
  split; [exact En|]. split; [exact Hnd|]. split; [exact Hrep|]. split.
  - apply NoDup_Permutation_bis; [exact Hnd| |apply rep_ids_incl; exact Hrep].
    rewrite map_length, El. apply le_n.
  - exists r. split; [reflexivity|exact Hm].
Qed.

(** ** (a) build_tree_spec *)
Theorem build_tree_spec : forall job t, build_tree job = Some t ->
  Permutation (ids t) (map (fun e => nid (fst e)) job)
  /\ (forall s, In s (nodes t) ->
        exists n cs, In (n, cs) job
          /\ sid s = nid n /\ sty s = nty n /\ sst s = nst n /\ sen s = nen n /\ spl s = njob n
          /\ map sid (skids s) = cs).
Proof.
  intros job t H. destruct (build_tree_facts job t H) as [_ [_ [Hrep [Hp _]]]].
  split; [exact Hp|].
  intros s Hs. destruct (Hrep s Hs) as [[n cs] [He Hm]].
  exists n, cs. split; [eapply get_In; exact He|]. exact Hm.
Qed.

(* ------------------------------------------------------------------------------------------ *)
(** * 3. The grouping code does not look at [it_run] *)

Definition strip (x : item) : item :=
  {| it_id := it_id x; it_ty := it_ty x; it_st := it_st x; it_en := it_en x; it_run := fun _ => [] |}.

Lemma filter_map_comm {A B} (f : A -> B) (p : B -> bool) (q : A -> bool) l :
  (forall x, p (f x) = q x) -> filter p (map f l) = map f (filter q l).
Proof.
  intros H. induction l as [|x l IH]; [reflexivity|].
  cbn [map filter]. rewrite H. destruct (q x); cbn [map]; rewrite IH; reflexivity.
Qed.

Lemma sort_items_strip l : sort_items (map strip l) = map strip (sort_items l).
Proof. rewrite sort_items_gsort. apply (gsort_map it_st it_st strip). reflexivity. Qed.

Lemma head_st_strip g : head_st (map strip g) = head_st g.
Proof. destruct g; reflexivity. Qed.

Lemma sort_groups_strip gs : sort_groups (map (map strip) gs) = map (map strip) (sort_groups gs).
Proof. rewrite sort_groups_gsort. apply (gsort_map head_st head_st (map strip)). apply head_st_strip. Qed.

Lemma order_groups_strip gs : order_groups (map (map strip) gs) = map (map strip) (order_groups gs).
Proof.
  unfold order_groups. rewrite <- sort_groups_strip. f_equal.
  rewrite !map_map. apply map_ext. intros g. apply sort_items_strip.
Qed.

Lemma prior_groups_v0_strip gm l :
  prior_groups_v0 gm (map strip l) = map (map strip) (prior_groups_v0 gm l).
Proof.
  destruct l as [|x l]; [reflexivity|].
  unfold prior_groups_v0. change (map strip (x :: l)) with (strip x :: map strip l).
  cbv iota. change (strip x :: map strip l) with (map strip (x :: l)).
  rewrite map_app, !map_map. f_equal.
  - apply map_ext. intros g. apply filter_map_comm. intros y. reflexivity.
  - rewrite (filter_map_comm strip (unlisted gm) (unlisted gm)) by (intros y; reflexivity).
    rewrite map_map. reflexivity.
Qed.

Lemma filter_nonempty_strip (gs : list (list item)) :
  filter is_nonempty (map (map strip) gs) = map (map strip) (filter is_nonempty gs).
Proof. apply filter_map_comm. intros g. destruct g; reflexivity. Qed.

Lemma prior_groups_strip gm l : prior_groups gm (map strip l) = map (map strip) (prior_groups gm l).
Proof. unfold prior_groups. rewrite prior_groups_v0_strip. apply filter_nonempty_strip. Qed.

Lemma max_en_strip g : max_en (map strip g) = max_en g.
Proof.
  destruct g as [|x g]; [reflexivity|]. cbn [max_en map]. change (it_en (strip x)) with (it_en x).
  generalize (it_en x). induction g as [|y g IH]; intros a; [reflexivity|].
  cbn [map fold_left]. change (it_en (strip y)) with (it_en y). apply IH.
Qed.

Lemma merge_async_strip gs : forall cur mx,
  merge_async (map strip cur) mx (map (map strip) gs) = map (map strip) (merge_async cur mx gs).
Proof.
  induction gs as [|g gs IH]; intros cur mx; [reflexivity|].
  cbn [map merge_async]. rewrite head_st_strip, max_en_strip.
  destruct (mx <? head_st g).
  - cbn [map]. rewrite IH. reflexivity.
  - rewrite <- map_app. apply IH.
Qed.

Lemma async_groups_strip gs : async_groups (map (map strip) gs) = map (map strip) (async_groups gs).
Proof.
  unfold async_groups. rewrite order_groups_strip.
  destruct (order_groups gs) as [|g r]; [reflexivity|].
  cbn [map]. rewrite max_en_strip. apply merge_async_strip.
Qed.

Lemma event_groups_strip async gm l :
  event_groups async gm (map strip l) = map (map strip) (event_groups async gm l).
Proof.
  unfold event_groups. rewrite prior_groups_strip.
  destruct async; [apply async_groups_strip|apply order_groups_strip].
Qed.

(** ** [run_groups0] on stripped items = [run_groups] when [run] agrees with the closures *)
Lemma run_groups0_strip run gs : forall prev,
  (forall it p, In it (concat gs) -> run (it_id it) p = Some (it_run it p)) ->
  run_groups0 run (map (map strip) gs) prev = Some (run_groups gs prev).
Proof.
  induction gs as [|g r IH]; intros prev H; [reflexivity|].
  cbn [map run_groups0 run_groups].
  assert (Hg : map (fun it => run (it_id it) prev) (map strip g) = map (fun it => Some (it_run it prev)) g).
  { rewrite map_map. apply map_ext_in. intros it Hit. cbn [strip it_id].
    apply H. cbn [concat]. apply in_or_app. left. exact Hit. }
  rewrite Hg.
  assert (Hall : forallb (fun o : option links => match o with Some _ => true | None => false end)
                         (map (fun it => Some (it_run it prev)) g) = true).
  { apply forallb_forall. intros o Ho. apply in_map_iff in Ho. destruct Ho as [it [<- _]]. reflexivity. }
  rewrite Hall.
  assert (Hids : map it_id (map strip g) = map it_id g) by (rewrite map_map; reflexivity).
  rewrite Hids, IH.
  - destruct (run_groups r (map it_id g)) as [o2 p2]. f_equal. f_equal. f_equal.
    clear. induction g as [|it g IHg]; [reflexivity|]. cbn [map flat_map]. rewrite IHg. reflexivity.
  - intros it p Hit. apply H. cbn [concat]. apply in_or_app. right. exact Hit.
Qed.

(* ------------------------------------------------------------------------------------------ *)
(** * 4. On a dict that represents a tree, the dict recursion is the tree recursion *)

Lemma rep_kids_events d kids :
  (forall k, In k kids -> exists e, get (sid k) d = Some e /\ matches e k) ->
  exists es, get_all d (map sid kids) = Some es
             /\ Forall2 (fun e k => get (sid k) d = Some e /\ matches e k) es kids.
Proof.
  induction kids as [|k kids IH]; intros H.
  - exists []. split; [reflexivity|constructor].
  - destruct (H k (or_introl eq_refl)) as [e [He Hm]].
    destruct IH as [es [Hes HF]]; [intros k' Hk'; apply H; right; exact Hk'|].
    exists (e :: es). split.
    + cbn [map get_all]. rewrite He, Hes. reflexivity.
    + constructor; [split; assumption|exact HF].
Qed.

Lemma ev_item_strip async m e k : matches e k -> ev_item e = strip (item_of async m k).
Proof.
  intros [H1 [H2 [H3 [H4 _]]]]. unfold ev_item, strip, item_of. cbn [it_id it_ty it_st it_en].
  rewrite H1, H2, H3, H4. reflexivity.
Qed.

Theorem seq_anc_rep async m d : forall t fuel e p,
  rep d t -> get (sid t) d = Some e -> (length (ids t) <= fuel)%nat ->
  seq_anc fuel async m d e p = Some (seqf async m t p).
Proof.
  induction t as [i ty st en pl kids IH] using span_ind'. intros fuel e p Hrep He Hfuel.
  rewrite Forall_forall in IH.
  destruct fuel as [|f]; [cbn [ids length] in Hfuel; lia|].
  destruct (Hrep _ (node_self _)) as [e' [He' Hm]].
  cbn [sid] in He, He'. rewrite He in He'. inversion He'; subst e'. clear He'.
  pose proof Hm as [_ [Hty [_ [_ [_ Hk]]]]]. cbn [sty skids] in Hty, Hk.
  destruct (rep_kids_events d kids) as [es [Hes HF]].
  { intros k Hk'. apply Hrep. eapply nodes_kid; [exact Hk'|apply node_self]. }
  cbn [seq_anc]. rewrite <- Hk, Hes.
  assert (Hitems : map ev_item es = map strip (map (item_of async m) kids)).
  { clear -HF. induction HF as [|e k es kids [_ Hm] _ IHF]; [reflexivity|].
    cbn [map]. rewrite IHF, (ev_item_strip async m e k Hm). reflexivity. }
  rewrite Hitems, event_groups_strip, <- Hty.
  rewrite run_groups0_strip.
  - rewrite seqf_unfold. destruct (run_groups _ p) as [out p']. rewrite (get_eid _ _ _ He). reflexivity.
  - intros it q Hit. apply event_groups_items in Hit. destruct Hit as [k [Hkin ->]].
    cbn [item_of it_id it_run].
    destruct (Hrep k (nodes_kid (Span i ty st en pl kids) k k Hkin (node_self k))) as [ek [Hek _]].
    rewrite Hek. apply (IH k Hkin).
    + eapply rep_sub; [exact Hrep|]. eapply nodes_kid; [exact Hkin|apply node_self].
    + exact Hek.
    + pose proof (size_kid i ty st en pl kids k Hkin). lia.
Qed.

(* ------------------------------------------------------------------------------------------ *)
(** * 5. The rename pass on the dict is the rename pass on the tree *)

(** the dict with all event types erased: what the rename pass cannot change *)
Definition erase (d : list oevent) : list oevent := map (set_ty 1%positive) d.

Lemma set_ty_set_ty a b e : set_ty a (set_ty b e) = set_ty a e.
Proof. destruct e as [n cs]. reflexivity. Qed.

Lemma erase_update i ty d : erase (update i ty d) = erase d.
Proof.
  unfold erase, update. rewrite map_map. apply map_ext. intros e.
  destruct (Pos.eqb i (eid e)); [apply set_ty_set_ty|reflexivity].
Qed.

Lemma rename_step_erase rs d i d' : rename_step rs (Some d) i = Some d' -> erase d' = erase d.
Proof.
  unfold rename_step. destruct (get i d) as [e|]; [|intros H; inversion H; reflexivity].
  destruct (lookup (ety e) rs) as [[mapped cts]|]; [|intros H; inversion H; reflexivity].
  destruct (scan_children d cts (ekids e)) as [[|]|]; intros H; inversion H.
  - apply erase_update.
  - reflexivity.
Qed.

Lemma rename_fold_erase rs order : forall d d',
  fold_left (rename_step rs) order (Some d) = Some d' -> erase d' = erase d.
Proof.
  induction order as [|i order IH]; intros d d' H; cbn [fold_left] in H.
  - inversion H. reflexivity.
  - destruct (rename_step rs (Some d) i) as [d1|] eqn:E.
    + rewrite (IH d1 d' H). eapply rename_step_erase. exact E.
    + exfalso. clear -H. induction order as [|j order IHo]; cbn [fold_left] in H; [discriminate|].
      apply IHo. exact H.
Qed.

Lemma rename_job_erase rs d d' : rename_job rs d = Some d' -> erase d' = erase d.
Proof. apply rename_fold_erase. Qed.

(** any observation that ignores the type is unchanged *)
Lemma erase_inv {B} (f : oevent -> B) d d' :
  (forall ty e, f (set_ty ty e) = f e) -> erase d' = erase d -> map f d' = map f d.
Proof.
  intros Hf H. assert (Hm : forall l, map f (erase l) = map f l).
  { intros l. unfold erase. rewrite map_map. apply map_ext. intros e. apply Hf. }
  rewrite <- (Hm d'), <- (Hm d), H. reflexivity.
Qed.

Lemma erase_ids d d' : erase d' = erase d -> map eid d' = map eid d.
Proof. apply erase_inv. intros ty [n cs]. reflexivity. Qed.
Lemma erase_length d d' : erase d' = erase d -> length d' = length d.
Proof. intros H. rewrite <- (map_length eid d'), <- (map_length eid d), (erase_ids _ _ H). reflexivity. Qed.

Lemma get_update j i ty d :
  get j (update i ty d) = option_map (fun e => if Pos.eqb i (eid e) then set_ty ty e else e) (get j d).
Proof.
  induction d as [|x d IH]; [reflexivity|].
  cbn [update map get]. fold (update i ty d).
  assert (Hid : eid (if Pos.eqb i (eid x) then set_ty ty x else x) = eid x).
  { destruct (Pos.eqb i (eid x)); [destruct x as [n cs]|]; reflexivity. }
  rewrite Hid. destruct (Pos.eqb j (eid x)); [reflexivity|exact IH].
Qed.

Lemma scan_rep d cts kids :
  (forall k, In k kids -> exists e, get (sid k) d = Some e /\ matches e k) ->
  scan_children d cts (map sid kids) = Some (existsb (fun k => mem (sty k) cts) kids).
Proof.
  induction kids as [|k kids IH]; intros H; [reflexivity|].
  cbn [map scan_children existsb].
  destruct (H k (or_introl eq_refl)) as [e [He [_ [Hty _]]]]. rewrite He, <- Hty.
  destruct (mem (sty k) cts); [reflexivity|].
  cbn [orb]. apply IH. intros k' Hk'. apply H. right. exact Hk'.
Qed.

(** type of the node [s] after the visit of [i] *)
Definition retype (rs : rules) (i : positive) (s : span) : positive :=
  if Pos.eqb i (sid s) then spec_ty rs (sty s) (skids s) else sty s.

Lemma sid_rename_at rs i t : sid (rename_at rs i t) = sid t.
Proof.
  destruct t as [j ty st en pl kids]. rewrite rename_at_unfold.
  destruct (Pos.eqb i j); [|reflexivity].
  destruct (lookup ty rs) as [[mapped cts]|]; [|reflexivity].
  destruct (existsb _ kids); reflexivity.
Qed.

Lemma rename_at_hit rs j ty st en pl kids :
  rename_at rs j (Span j ty st en pl kids) = Span j (spec_ty rs ty kids) st en pl kids.
Proof.
  rewrite rename_at_unfold, Pos.eqb_refl. unfold spec_ty.
  destruct (lookup ty rs) as [[mapped cts]|]; [|reflexivity].
  destruct (existsb _ kids); reflexivity.
Qed.

Lemma ids_rename_at rs i t : ids (rename_at rs i t) = ids t.
Proof.
  induction t as [j ty st en pl kids IH] using span_ind'.
  destruct (Pos.eqb_spec i j) as [->|Hne].
  - rewrite rename_at_hit. reflexivity.
  - rewrite rename_at_unfold. apply Pos.eqb_neq in Hne. rewrite Hne. cbn [ids]. f_equal.
    induction IH as [|k kids Hk _ IHk]; [reflexivity|].
    cbn [map flat_map]. rewrite Hk, IHk. reflexivity.
Qed.

Lemma ids_rename rs order : forall t, ids (rename rs order t) = ids t.
Proof.
  unfold rename. induction order as [|i order IH]; intros t; [reflexivity|].
  cbn [fold_left]. rewrite IH. apply ids_rename_at.
Qed.

Lemma nodes_rename_at rs i t : NoDup (ids t) ->
  forall s', In s' (nodes (rename_at rs i t)) ->
  exists s, In s (nodes t) /\ sid s' = sid s /\ sty s' = retype rs i s /\ sst s' = sst s
            /\ sen s' = sen s /\ spl s' = spl s /\ map sid (skids s') = map sid (skids s).
Proof.
  induction t as [j ty st en pl kids IH] using span_ind'. intros Hnd s' Hs'.
  rewrite Forall_forall in IH.
  cbn [ids] in Hnd. inversion Hnd as [|j' l' Hj Hnd']; subst.
  destruct (Pos.eqb_spec i j) as [->|Hne].
  - rewrite rename_at_hit in Hs'. cbn [nodes] in Hs'. destruct Hs' as [<-|Hs'].
    + exists (Span j ty st en pl kids). split; [apply node_self|].
      unfold retype. cbn [sid sty sst sen spl skids]. rewrite Pos.eqb_refl. repeat split.
    + exists s'. split; [cbn [nodes]; right; exact Hs'|].
      assert (Hn : (j =? sid s')%positive = false).
      { apply Pos.eqb_neq. intros ->. apply Hj.
        apply in_flat_map in Hs'. destruct Hs' as [k [Hk Hs']]. apply in_flat_map.
        exists k. split; [exact Hk|]. apply in_ids_node. exists s'. split; [exact Hs'|reflexivity]. }
      unfold retype. rewrite Hn. repeat split.
  - rewrite rename_at_unfold in Hs'. pose proof Hne as Hne'. apply Pos.eqb_neq in Hne'.
    rewrite Hne' in Hs'. cbn [nodes] in Hs'. destruct Hs' as [<-|Hs'].
    + exists (Span j ty st en pl kids). split; [apply node_self|].
      unfold retype. cbn [sid sty sst sen spl skids]. rewrite Hne'. repeat split.
      rewrite map_map. apply map_ext. intros k. apply sid_rename_at.
    + apply in_flat_map in Hs'. destruct Hs' as [k' [Hk' Hs']].
      apply in_map_iff in Hk'. destruct Hk' as [k [<- Hk]].
      destruct (IH k Hk (NoDup_flat_map_in _ _ _ Hnd' Hk) s' Hs') as [s [Hs Hrest]].
      exists s. split; [|exact Hrest]. cbn [nodes]. right. apply in_flat_map. exists k. split; assumption.
Qed.

Lemma matches_retyped e e' s s' :
  matches e s -> set_ty 1%positive e' = set_ty 1%positive e -> ety e' = sty s' ->
  sid s' = sid s -> sst s' = sst s -> sen s' = sen s -> spl s' = spl s ->
  map sid (skids s') = map sid (skids s) -> matches e' s'.
Proof.
  intros [H1 [H2 [H3 [H4 [H5 H6]]]]] He Hty Hs1 Hs3 Hs4 Hs5 Hs6.
  destruct e as [n cs], e' as [n' cs']. unfold set_ty in He. cbn [fst snd] in He.
  inversion He; subst.
  unfold matches, eid, ety, est, een, ekids in *. cbn [fst snd] in *.
  repeat split; congruence.
Qed.

(** ** one visit *)
Lemma rename_step_rep rs d t i :
  rep d t -> NoDup (ids t) -> In i (ids t) ->
  exists d', rename_step rs (Some d) i = Some d' /\ rep d' (rename_at rs i t).
Proof.
  intros Hrep Hnd Hi.
  apply in_ids_node in Hi. destruct Hi as [s0 [Hs0 Hid0]].
  destruct (Hrep s0 Hs0) as [e0 [He0 Hm0]]. rewrite Hid0 in He0.
  assert (Hscan : forall cts, scan_children d cts (ekids e0)
                              = Some (existsb (fun k => mem (sty k) cts) (skids s0))).
  { intros cts. destruct Hm0 as [_ [_ [_ [_ [_ <-]]]]]. apply scan_rep.
    intros k Hk. apply Hrep. eapply nodes_skids; eassumption. }
  assert (Hty0 : ety e0 = sty s0) by (destruct Hm0 as [_ [H _]]; symmetry; exact H).
  (* the dict after the visit, described pointwise *)
  assert (Hgoal : forall d',
    (forall s e, In s (nodes t) -> get (sid s) d = Some e ->
       exists e', get (sid s) d' = Some e' /\ set_ty 1%positive e' = set_ty 1%positive e
                  /\ ety e' = retype rs i s) -> rep d' (rename_at rs i t)).
  { intros d' H s' Hs'.
    destruct (nodes_rename_at rs i t Hnd s' Hs') as [s [Hs [E1 [E2 [E3 [E4 [E5 E6]]]]]]].
    destruct (Hrep s Hs) as [e [He Hm]].
    destruct (H s e Hs He) as [e' [He' [Her Hty']]].
    exists e'. split; [rewrite E1; exact He'|].
    eapply matches_retyped; try eassumption. congruence. }
  (* a node whose type the visit leaves alone *)
  assert (Hsame : forall s, In s (nodes t) -> sid s <> i -> retype rs i s = sty s).
  { intros s _ Hne. unfold retype. replace (i =? sid s)%positive with false; [reflexivity|].
    symmetry. apply Pos.eqb_neq. intros ->. apply Hne. reflexivity. }
  assert (Hat : forall s, In s (nodes t) -> sid s = i -> s = s0).
  { intros s Hs Heq. eapply nodes_sid_inj; try eassumption. congruence. }
  unfold rename_step. rewrite He0, Hty0.
  assert (Hkeep : spec_ty rs (sty s0) (skids s0) = sty s0 -> rep d (rename_at rs i t)).
  { intros Hspec. apply Hgoal. intros s e Hs He. exists e. split; [exact He|]. split; [reflexivity|].
    destruct (Pos.eq_dec (sid s) i) as [Heq|Hne].
    - rewrite (Hat s Hs Heq). unfold retype. rewrite Hid0, Pos.eqb_refl, Hspec.
      rewrite (Hat s Hs Heq) in He. rewrite Hid0, He0 in He. inversion He; subst. exact Hty0.
    - rewrite (Hsame s Hs Hne). destruct (Hrep s Hs) as [e2 [He2 [_ [H2 _]]]].
      rewrite He in He2. inversion He2; subst. symmetry. exact H2. }
  destruct (lookup (sty s0) rs) as [[mapped cts]|] eqn:El.
  - rewrite Hscan. destruct (existsb (fun k => mem (sty k) cts) (skids s0)) eqn:Eb.
    + exists (update i mapped d). split; [reflexivity|].
      apply Hgoal. intros s e Hs He. rewrite get_update, He. cbn [option_map].
      eexists. split; [reflexivity|].
      rewrite (get_eid _ _ _ He).
      destruct (Pos.eqb_spec i (sid s)) as [Heq|Hne].
      * split; [apply set_ty_set_ty|].
        rewrite (Hat s Hs (eq_sym Heq)). unfold retype. rewrite Hid0, Pos.eqb_refl.
        unfold spec_ty. rewrite El, Eb. destruct e as [n cs]. reflexivity.
      * split; [reflexivity|]. rewrite (Hsame s Hs (fun H => Hne (eq_sym H))).
        destruct (Hrep s Hs) as [e2 [He2 [_ [H2 _]]]]. rewrite He in He2. inversion He2; subst.
        symmetry. exact H2.
    + exists d. split; [reflexivity|]. apply Hkeep. unfold spec_ty. rewrite El, Eb. reflexivity.
  - exists d. split; [reflexivity|]. apply Hkeep. unfold spec_ty. rewrite El. reflexivity.
Qed.

(** ** the whole pass *)
Lemma rename_fold_rep rs order : forall d t,
  rep d t -> NoDup (ids t) -> (forall i, In i order -> In i (ids t)) ->
  exists d', fold_left (rename_step rs) order (Some d) = Some d'
             /\ rep d' (rename rs order t).
Proof.
  unfold rename. induction order as [|i order IH]; intros d t Hrep Hnd Hin.
  - exists d. split; [reflexivity|exact Hrep].
  - cbn [fold_left].
    destruct (rename_step_rep rs d t i Hrep Hnd (Hin i (or_introl eq_refl))) as [d1 [E1 Hrep1]].
    rewrite E1. apply IH; [exact Hrep1|rewrite ids_rename_at; exact Hnd|].
    intros j Hj. rewrite ids_rename_at. apply Hin. right. exact Hj.
Qed.

(* ------------------------------------------------------------------------------------------ *)
(** * 6. The dict of a stream with unique ids; association lists with unique keys *)

Lemma filter_all {A} (p : A -> bool) l : (forall x, In x l -> p x = true) -> filter p l = l.
Proof.
  induction l as [|x l IH]; intros H; [reflexivity|].
  cbn [filter]. rewrite (H x (or_introl eq_refl)), IH; [reflexivity|].
  intros y Hy. apply H. right. exact Hy.
Qed.

Lemma dedup_nodup l : NoDup l -> dedup l = l.
Proof.
  induction 1 as [|x l Hx Hnd IH]; [reflexivity|].
  cbn [dedup]. rewrite IH. f_equal. apply filter_all.
  intros y Hy. apply negb_true_iff, Pos.eqb_neq. intros ->. contradiction.
Qed.

Lemma dedup_keys_nodup job : NoDup (map eid (dict_of job)).
Proof.
  unfold dict_of.
  assert (H : forall l dd, NoDup l ->
            NoDup (map eid (flat_map (fun i => match get i dd with Some e => [e] | None => [] end) l))).
  { intros l dd. induction 1 as [|i l Hi Hnd IH]; [constructor|].
    cbn [flat_map]. rewrite map_app. destruct (get i dd) as [e|] eqn:E; [|exact IH].
    cbn [map app]. constructor; [|exact IH].
    rewrite (get_eid _ _ _ E). intros Hin. apply Hi.
    apply in_map_iff in Hin. destruct Hin as [x [Hx Hin]].
    apply in_flat_map in Hin. destruct Hin as [j [Hj Hin]].
    destruct (get j dd) as [e'|] eqn:E'; [|contradiction].
    destruct Hin as [<-|[]]. rewrite (get_eid _ _ _ E') in Hx. subst j. exact Hj. }
  apply H. apply dedup_NoDup.
Qed.

Lemma dict_of_nodup job : NoDup (map eid job) -> dict_of job = job.
Proof.
  intros Hnd. unfold dict_of. rewrite (dedup_nodup _ Hnd).
  assert (Hget : forall e, In e job -> get (eid e) (rev job) = Some e).
  { intros e He. apply get_nodup; [rewrite map_rev; apply NoDup_rev; exact Hnd|].
    apply in_rev. rewrite rev_involutive. exact He. }
  revert Hget. generalize (rev job) as dd. intros dd.
  induction job as [|e job IH]; intros Hget; [reflexivity|].
  cbn [map flat_map]. rewrite (Hget e (or_introl eq_refl)). cbn [app]. f_equal.
  apply IH; [inversion Hnd; assumption|]. intros x Hx. apply Hget. right. exact Hx.
Qed.

Lemma lookup_in_keys {A} i (l : list (positive * A)) : In i (map fst l) -> exists v, lookup i l = Some v.
Proof.
  induction l as [|[k v] l IH]; cbn [map fst In lookup]; [contradiction|].
  intros H. destruct (Pos.eqb_spec i k) as [->|Hne]; [exists v; reflexivity|].
  apply IH. destruct H as [H|H]; [exfalso; apply Hne; symmetry; exact H|exact H].
Qed.

Lemma lookup_nodup {A} i v (l : list (positive * A)) :
  NoDup (map fst l) -> In (i, v) l -> lookup i l = Some v.
Proof.
  induction l as [|[k w] l IH]; cbn [map fst lookup]; intros Hnd Hin; [contradiction|].
  inversion Hnd as [|k' l' Hk Hnd']; subst.
  destruct Hin as [Heq|Hin].
  - inversion Heq; subst. rewrite Pos.eqb_refl. reflexivity.
  - destruct (Pos.eqb_spec i k) as [->|Hne].
    + exfalso. apply Hk. apply in_map_iff. exists (k, v). split; [reflexivity|exact Hin].
    + apply IH; assumption.
Qed.

Lemma lookup_none_keys {A} i (l : list (positive * A)) : lookup i l = None -> ~ In i (map fst l).
Proof.
  intros H Hin. destruct (lookup_in_keys i l Hin) as [v Hv]. congruence.
Qed.

Lemma lookup_rev {A} i (l : list (positive * A)) : NoDup (map fst l) -> lookup i (rev l) = lookup i l.
Proof.
  intros Hnd. destruct (lookup i l) as [v|] eqn:E.
  - apply lookup_nodup; [rewrite map_rev; apply NoDup_rev; exact Hnd|].
    apply in_rev. rewrite rev_involutive. eapply lookup_In. exact E.
  - destruct (lookup i (rev l)) as [w|] eqn:E2; [|reflexivity].
    exfalso. apply (lookup_none_keys _ _ E). apply lookup_In in E2. apply in_rev in E2.
    apply in_map_iff. exists (i, w). split; [reflexivity|exact E2].
Qed.

Lemma rows_of_dict_some (lk : positive -> option (list positive)) d l :
  (forall i, last_link i l = lk i) ->
  (forall e, In e d -> exists ps, lk (eid e) = Some ps) ->
  exists rows, rows_of_dict d l = Some rows
               /\ Forall2 (fun e r => exists ps, lk (eid e) = Some ps /\ r = row_of e ps) d rows.
Proof.
  intros Hlk. induction d as [|e d IH]; intros H.
  - exists []. split; [reflexivity|constructor].
  - destruct (H e (or_introl eq_refl)) as [ps Hps].
    destruct IH as [rows [Hr HF]]; [intros x Hx; apply H; right; exact Hx|].
    exists (row_of e ps :: rows). split.
    + cbn [rows_of_dict]. rewrite Hlk, Hps, Hr. reflexivity.
    + constructor; [exists ps; split; [exact Hps|reflexivity]|exact HF].
Qed.

Lemma is_root_set_ty ty e : is_root (set_ty ty e) = is_root e.
Proof. destruct e as [n cs]. reflexivity. Qed.

Lemma erase_roots d d' r :
  erase d' = erase d -> filter is_root d = [r] ->
  exists r', filter is_root d' = [r'] /\ set_ty 1%positive r' = set_ty 1%positive r.
Proof.
  intros He Hr.
  assert (Hc : forall l, map (set_ty 1%positive) (filter is_root l) = filter is_root (erase l)).
  { intros l. unfold erase. symmetry. apply filter_map_comm. intros x. apply is_root_set_ty. }
  pose proof (Hc d') as H1. rewrite He, <- Hc, Hr in H1.
  destruct (filter is_root d') as [|r' [|r'' l]]; try discriminate.
  exists r'. split; [reflexivity|].
  exact (f_equal (hd (set_ty 1%positive r)) H1).
Qed.

Lemma set_ty_eid a e e' : set_ty a e' = set_ty a e -> eid e' = eid e.
Proof. destruct e as [n cs], e' as [n' cs']. unfold set_ty, eid. cbn [fst snd]. intros H. inversion H. reflexivity. Qed.

(* ------------------------------------------------------------------------------------------ *)
(** * 7. A job whose events form a tree is sequenced like its tree *)

Lemma sequence_job_tree_links async m rs job t :
  build_tree job = Some t -> parents_present job = true ->
  let t' := rename rs (map eid job) t in
  let l := seqf async m t' [] in
  exists d' rows,
    rename_job rs job = Some d' /\ erase d' = erase job /\ rep d' t'
    /\ sequence_job async m rs job = JOk rows
    /\ Forall2 (fun e r => exists ps, lookup (eid e) l = Some ps /\ r = row_of e ps) d' rows.
Proof.
  intros Hb Hpp t' l.
  destruct (build_tree_facts job t Hb) as [Hnd [Hndt [Hrep [Hperm [r [Hroot Hmr]]]]]].
  assert (Hin : forall i, In i (map eid job) -> In i (ids t)).
  { intros i Hi. eapply Permutation_in; [apply Permutation_sym; exact Hperm|exact Hi]. }
  destruct (rename_fold_rep rs (map eid job) job t Hrep Hndt Hin) as [d' [Hren Hrep']].
  fold t' in Hrep'.
  pose proof (rename_fold_erase rs _ _ _ Hren) as Her.
  pose proof (erase_ids _ _ Her) as Hids.
  destruct (erase_roots job d' r Her Hroot) as [r' [Hroot' Hrr]].
  assert (Hidt' : ids t' = ids t) by apply ids_rename.
  assert (Hndl : NoDup (map fst l)).
  { eapply Permutation_NoDup; [apply Permutation_sym; apply seq_once|]. rewrite Hidt'. exact Hndt. }
  assert (Hkeys : forall i, In i (map eid d') -> In i (map fst l)).
  { intros i Hi. eapply Permutation_in; [apply Permutation_sym; apply seq_once|].
    rewrite Hidt'. apply Hin. rewrite <- Hids. exact Hi. }
  destruct (rows_of_dict_some (fun i => lookup i l) d' l) as [rows [Hrows HF]].
  { intros i. unfold last_link. apply lookup_rev. exact Hndl. }
  { intros e He. apply lookup_in_keys. apply Hkeys. apply in_map. exact He. }
  exists d', rows. split; [exact Hren|]. split; [exact Her|]. split; [exact Hrep'|]. split; [|exact HF].
  unfold sequence_job. rewrite Hpp, (dict_of_nodup job Hnd).
  unfold rename_job at 1. rewrite Hren, Hroot'.
  assert (Hget : get (sid t') d' = Some r').
  { assert (Hs : sid t' = eid r').
    { destruct Hmr as [Hs _]. rewrite (set_ty_eid _ _ _ Hrr), <- Hs.
      pose proof (f_equal (@hd positive 1%positive) Hidt') as Hh.
      destruct t as [i1 ? ? ? ? ?], t' as [i2 ? ? ? ? ?]. exact Hh. }
    rewrite Hs. apply get_nodup; [rewrite Hids; exact Hnd|].
    assert (Hx : In r' (filter is_root d')) by (rewrite Hroot'; left; reflexivity).
    apply filter_In in Hx. tauto. }
  rewrite (seq_anc_rep async m d' t' (length d') r' [] Hrep' Hget).
  - fold l. rewrite Hrows. reflexivity.
  - rewrite Hidt', (Permutation_length Hperm), map_length, (erase_length _ _ Her). apply le_n.
Qed.

(* ------------------------------------------------------------------------------------------ *)
(** * 8. What the rows of a tree job satisfy *)

(** the link relation carried by the rows *)
Definition links_of (rows : list pvrow3) : links := map (fun r => (rid r, rprev r)) rows.

(** [JDesc job d a]: [d] is a proper descendant of [a] through the child id lists *)
Inductive JDesc (job : list oevent) : positive -> positive -> Prop :=
| jdesc_kid e c : In e job -> In c (ekids e) -> JDesc job c (eid e)
| jdesc_trans a b c : JDesc job a b -> JDesc job b c -> JDesc job a c.

(** ** position in the emission order *)
Fixpoint rank (i : positive) (ks : list positive) : nat :=
  match ks with
  | [] => O
  | k :: r => if Pos.eqb i k then O else S (rank i r)
  end.

Lemma rank_in a ks1 ks2 : In a ks1 -> (rank a (ks1 ++ ks2) < length ks1)%nat.
Proof.
  induction ks1 as [|k ks1 IH]; intros H; [contradiction|].
  cbn [app rank length]. destruct (Pos.eqb_spec a k) as [->|Hne]; [lia|].
  destruct H as [H|H]; [exfalso; apply Hne; symmetry; exact H|]. specialize (IH H). lia.
Qed.

Lemma rank_notin b ks1 ks2 : ~ In b ks1 -> rank b (ks1 ++ b :: ks2) = length ks1.
Proof.
  induction ks1 as [|k ks1 IH]; intros H; cbn [app rank length].
  - rewrite Pos.eqb_refl. reflexivity.
  - destruct (Pos.eqb_spec b k) as [->|Hne]; [exfalso; apply H; left; reflexivity|].
    rewrite IH; [reflexivity|]. intros Hin. apply H. right. exact Hin.
Qed.

Definition topo (l : links) : Prop :=
  forall o1 i ps o2, l = o1 ++ (i, ps) :: o2 -> forall q, In q ps -> In q (map fst o1).

Lemma path_rank l : NoDup (map fst l) -> topo l ->
  forall a b, path l a b -> (rank a (map fst l) < rank b (map fst l))%nat.
Proof.
  intros Hnd Ht a b H. induction H as [a b ps Hin Ha|a b c _ IH1 _ IH2]; [|lia].
  apply in_split in Hin. destruct Hin as [o1 [o2 E]].
  pose proof (Ht o1 b ps o2 E a Ha) as Ha1.
  rewrite E, map_app in *. cbn [map fst] in *.
  rewrite rank_notin.
  - apply rank_in. exact Ha1.
  - apply NoDup_remove_2 in Hnd. intros Hb. apply Hnd. apply in_or_app. left. exact Hb.
Qed.

Lemma topo_acyclic l : NoDup (map fst l) -> topo l -> forall a, ~ path l a a.
Proof. intros Hnd Ht a H. pose proof (path_rank l Hnd Ht a a H). lia. Qed.

Lemma seqf_topo async m t : topo (seqf async m t []).
Proof.
  intros o1 i ps o2 E q Hq.
  destruct (seq_topological async m t [] o1 i ps o2 E q Hq) as [[]|H]. exact H.
Qed.

(** ** the emission of a subtree is part of the emission of the tree *)
Lemma seqf_sub async m i ty st en pl kids k p :
  In k kids -> exists q, incl (seqf async m k q) (seqf async m (Span i ty st en pl kids) p).
Proof.
  intros Hk. rewrite seqf_unfold.
  set (gs := event_groups async (gm_of m ty) (map (item_of async m) kids)).
  assert (Hit : In (item_of async m k) (concat gs)).
  { destruct (event_groups_perm async (gm_of m ty) (map (item_of async m) kids)) as [Hp _].
    eapply Permutation_in; [apply Permutation_sym; exact Hp|]. apply in_map. exact Hk. }
  destruct (run_groups_contains gs p _ Hit) as [q Hq].
  exists q. destruct (run_groups gs p) as [out p']. cbn [fst] in Hq.
  intros x Hx. apply in_or_app. left. apply Hq. exact Hx.
Qed.

Lemma desc_path async m t : forall p s x,
  In s (nodes t) -> In x (ids s) -> x <> sid s -> path (seqf async m t p) x (sid s).
Proof.
  induction t as [i ty st en pl kids IH] using span_ind'. intros p s x Hs Hx Hne.
  rewrite Forall_forall in IH. cbn [nodes] in Hs. destruct Hs as [<-|Hs].
  - apply seq_after_desc; assumption.
  - apply in_flat_map in Hs. destruct Hs as [k [Hk Hs]].
    destruct (seqf_sub async m i ty st en pl kids k p Hk) as [q Hq].
    eapply path_incl; [exact Hq|]. apply IH; assumption.
Qed.

Lemma get_erase i d : get i (erase d) = option_map (set_ty 1%positive) (get i d).
Proof.
  induction d as [|x d IH]; [reflexivity|].
  cbn [erase map get]. fold (erase d).
  replace (eid (set_ty 1%positive x)) with (eid x) by (destruct x as [n cs]; reflexivity).
  destruct (Pos.eqb i (eid x)); [reflexivity|exact IH].
Qed.

Lemma erase_get d d' i e' :
  erase d' = erase d -> get i d' = Some e' ->
  exists e, get i d = Some e /\ set_ty 1%positive e' = set_ty 1%positive e.
Proof.
  intros He Hg. pose proof (get_erase i d') as H1. rewrite He, get_erase, Hg in H1.
  destruct (get i d) as [e|]; [|discriminate]. exists e. split; [reflexivity|].
  cbn [option_map] in H1. symmetry.
  exact (f_equal (fun o => match o with Some x => x | None => set_ty 1%positive e end) H1).
Qed.

Lemma set_ty_fields a e e' : set_ty a e' = set_ty a e ->
  eid e' = eid e /\ epar e' = epar e /\ ekids e' = ekids e /\ est e' = est e /\ een e' = een e
  /\ njob (fst e') = njob (fst e) /\ nname (fst e') = nname (fst e) /\ napp (fst e') = napp (fst e).
Proof.
  destruct e as [n cs], e' as [n' cs']. unfold set_ty, eid, epar, ekids, est, een. cbn [fst snd].
  intros H. inversion H. repeat split; assumption.
Qed.

Lemma erase_Forall2 d d' : erase d' = erase d ->
  Forall2 (fun e e' => set_ty 1%positive e' = set_ty 1%positive e) d d'.
Proof.
  revert d'. induction d as [|e d IH]; intros d' H.
  - destruct d'; [constructor|discriminate].
  - destruct d' as [|e' d']; [discriminate|]. cbn [erase map] in H.
    constructor; [exact (f_equal (hd (set_ty 1%positive e)) H)|].
    apply IH. exact (f_equal (@tl oevent) H).
Qed.

Lemma rid_row_of e ps : rid (row_of e ps) = eid e. Proof. reflexivity. Qed.
Lemma rprev_row_of e ps : rprev (row_of e ps) = ps. Proof. reflexivity. Qed.

(** ** (b) on the tree: everything, stated with [build_tree] *)
Theorem sequence_job_tree : forall async m rs job t,
  build_tree job = Some t -> parents_present job = true ->
  let t' := rename rs (map eid job) t in
  exists rows,
    sequence_job async m rs job = JOk rows
    (* each span exactly once, in stream order *)
    /\ map rid rows = map eid job
    (* copied fields *)
    /\ Forall2 (fun e r => rts r = nano_to_pv (een e) /\ rjob r = njob (fst e)
                           /\ rname r = nname (fst e) /\ rapp r = napp (fst e)) job rows
    (* renamed types: as computed on the dict and as computed on the tree *)
    /\ (exists d', rename_job rs job = Some d' /\ map rty rows = map ety d')
    /\ (forall s, In s (nodes t') -> exists r, In r rows /\ rid r = sid s /\ rty r = sty s)
    (* the links are exactly those the sequencer emits for the tree *)
    /\ (forall i ps, In (i, ps) (links_of rows) <-> In (i, ps) (sequence async m rs (map eid job) t))
    (* links stay inside the trace, are acyclic, and every span follows all its descendants *)
    /\ (forall r q, In r rows -> In q (rprev r) -> In q (map eid job))
    /\ (forall a, ~ path (links_of rows) a a)
    /\ (forall d a, JDesc job d a -> path (links_of rows) d a).
Proof.
  intros async m rs job t Hb Hpp t'.
  destruct (sequence_job_tree_links async m rs job t Hb Hpp) as [d' [rows [Hren [Her [Hrep' [Hseq HF]]]]]].
  fold t' in Hrep', HF.
  set (l := seqf async m t' []) in *.
  destruct (build_tree_facts job t Hb) as [Hnd [Hndt [Hrep [Hperm _]]]].
  assert (Hidt' : ids t' = ids t) by apply ids_rename.
  assert (Hndt' : NoDup (ids t')) by (rewrite Hidt'; exact Hndt).
  assert (Hpl : Permutation (map fst l) (ids t')) by apply seq_once.
  assert (Hndl : NoDup (map fst l)).
  { eapply Permutation_NoDup; [apply Permutation_sym; exact Hpl|exact Hndt']. }
  pose proof (erase_ids _ _ Her) as Hids.
  assert (Hrid : map rid rows = map eid d').
  { clear -HF. induction HF as [|e r d rows [ps [_ ->]] _ IH]; [reflexivity|].
    cbn [map]. rewrite IH. reflexivity. }
  assert (Hlinks : forall i ps, In (i, ps) (links_of rows) <-> In (i, ps) l).
  { intros i ps. unfold links_of. rewrite in_map_iff. split.
    - intros [r [Hr Hin]]. destruct (Forall2_in_r _ _ _ _ HF Hin) as [e [_ [ps' [Hl ->]]]].
      rewrite rid_row_of, rprev_row_of in Hr. inversion Hr; subst. apply lookup_In. exact Hl.
    - intros Hin.
      assert (Hk : In i (map eid d')).
      { rewrite Hids. eapply Permutation_in; [exact Hperm|]. rewrite <- Hidt'.
        eapply Permutation_in; [exact Hpl|]. apply in_map_iff. exists (i, ps). split; [reflexivity|exact Hin]. }
      apply in_map_iff in Hk. destruct Hk as [e [<- He]].
      destruct (Forall2_in_l _ _ _ _ HF He) as [r [Hr [ps' [Hl ->]]]].
      exists (row_of e ps'). split; [|exact Hr].
      rewrite rid_row_of, rprev_row_of. rewrite (lookup_nodup _ _ _ Hndl Hin) in Hl.
      inversion Hl. reflexivity. }
  assert (Hincl1 : incl (links_of rows) l) by (intros [i ps] H; apply Hlinks; exact H).
  assert (Hincl2 : incl l (links_of rows)) by (intros [i ps] H; apply Hlinks; exact H).
  exists rows. split; [exact Hseq|]. split; [rewrite Hrid; exact Hids|].
  split.
  { (* copied fields *)
    pose proof (erase_Forall2 _ _ Her) as HE.
    assert (HF0 : Forall2 (fun e r => exists ps, r = row_of e ps) d' rows).
    { clear -HF. induction HF as [|e r d rows [ps [_ ->]] _ IH]; constructor; [exists ps; reflexivity|exact IH]. }
    clear -HE HF0. revert rows HF0. induction HE as [|e e' job d' Hee _ IH]; intros rows HF.
    - inversion HF. constructor.
    - inversion HF as [|e2 r d2 rows' [ps ->] HF']; subst. constructor; [|apply IH; exact HF'].
      destruct (set_ty_fields _ _ _ Hee) as [_ [_ [_ [_ [H1 [H2 [H3 H4]]]]]]].
      unfold row_of, rts, rjob, rname, rapp. rewrite H1, H2, H3, H4. repeat split. }
  split.
  { exists d'. split; [exact Hren|].
    clear -HF. induction HF as [|e r d rows [ps [_ ->]] _ IH]; [reflexivity|].
    cbn [map]. rewrite IH. reflexivity. }
  split.
  { intros s Hs. destruct (Hrep' s Hs) as [e [He [_ [Hty _]]]].
    destruct (Forall2_in_l _ _ _ _ HF (get_In _ _ _ He)) as [r [Hr [ps [_ ->]]]].
    exists (row_of e ps). split; [exact Hr|]. rewrite rid_row_of.
    split; [apply (get_eid _ _ _ He)|]. unfold row_of, rty. symmetry. exact Hty. }
  split; [exact Hlinks|].
  split.
  { intros r q Hr Hq.
    assert (Hin : In (rid r, rprev r) l).
    { apply Hlinks. unfold links_of. apply in_map_iff. exists r. split; [reflexivity|exact Hr]. }
    apply in_split in Hin. destruct Hin as [o1 [o2 E]].
    pose proof (seqf_topo async m t' o1 (rid r) (rprev r) o2 E q Hq) as Hq1.
    eapply Permutation_in; [exact Hperm|]. rewrite <- Hidt'.
    eapply Permutation_in; [exact Hpl|]. fold l. rewrite E, map_app. apply in_or_app. left. exact Hq1. }
  split.
  { intros a Hp. apply (topo_acyclic l Hndl (seqf_topo async m t') a).
    eapply path_incl; [exact Hincl1|exact Hp]. }
  { intros d a Hd. induction Hd as [e c He Hc|a b c _ IH1 _ IH2]; [|eapply path_trans; eassumption].
    eapply path_incl; [exact Hincl2|].
    assert (Hi : In (eid e) (ids t')).
    { rewrite Hidt'. eapply Permutation_in; [apply Permutation_sym; exact Hperm|]. apply in_map. exact He. }
    apply in_ids_node in Hi. destruct Hi as [s [Hs Hsid]].
    destruct (Hrep' s Hs) as [e' [He' [_ [_ [_ [_ [_ Hk]]]]]]].
    rewrite Hsid in He'.
    destruct (erase_get _ _ _ _ Her He') as [e0 [He0 Hee]].
    rewrite (get_nodup _ _ Hnd He) in He0. inversion He0; subst e0.
    destruct (set_ty_fields _ _ _ Hee) as [_ [_ [Hkids _]]].
    rewrite Hkids in Hk. rewrite <- Hk in Hc. apply in_map_iff in Hc. destruct Hc as [k [<- Hkin]].
    rewrite <- Hsid. apply desc_path; [exact Hs| |].
    - destruct s as [i ty st en pl kids]. cbn [skids] in Hkin. cbn [ids]. right.
      apply in_flat_map. exists k. split; [exact Hkin|]. destruct k. left. reflexivity.
    - pose proof (nodes_NoDup t' s Hndt' Hs) as Hnds.
      destruct s as [i ty st en pl kids]. cbn [skids] in Hkin. cbn [ids sid] in *.
      inversion Hnds as [|i' l' Hi' _]; subst. intros Heq. apply Hi'. rewrite <- Heq.
      apply in_flat_map. exists k. split; [exact Hkin|]. destruct k. left. reflexivity. }
Qed.

(* ------------------------------------------------------------------------------------------ *)
(** * 9. [TreeJob]: the first-order description of "the events of this trace form a tree" *)

(** reachable from a parentless event through the child id lists *)
Inductive Reach (job : list oevent) : oevent -> Prop :=
| reach_root r : In r job -> epar r = None -> Reach job r
| reach_kid e k : Reach job e -> In k job -> In (eid k) (ekids e) -> Reach job k.

Record TreeJob (job : list oevent) : Prop := {
  (* unique ids *)
  tj_ids : NoDup (map eid job);
  (* exactly one root *)
  tj_root : exists r, filter is_root job = [r];
  (* child lists consistent with parent pointers: no child listed twice, every listed child is an
     event of the job and points back to the lister *)
  tj_kids_nodup : forall e, In e job -> NoDup (ekids e);
  tj_kids : forall e c, In e job -> In c (ekids e) ->
            exists k, In k job /\ eid k = c /\ epar k = Some (eid e);
  (* all reachable *)
  tj_reach : forall e, In e job -> Reach job e
}.

Lemma Reach_In job e : Reach job e -> In e job.
Proof. destruct 1; assumption. Qed.

Lemma eid_inj job x y : NoDup (map eid job) -> In x job -> In y job -> eid x = eid y -> x = y.
Proof. intros. eapply NoDup_map_inj; eassumption. Qed.

Lemma opt_eqb_spec a b : opt_eqb a b = true <-> a = b.
Proof.
  destruct a as [x|], b as [y|]; cbn [opt_eqb]; try (split; [discriminate|intros H; inversion H]).
  - rewrite Pos.eqb_eq. split; [intros ->; reflexivity|intros H; inversion H; reflexivity].
  - split; reflexivity.
Qed.

Lemma kids_point_back_spec job :
  kids_point_back job = true <->
  forall e c, In e job -> In c (ekids e) -> exists k, get c job = Some k /\ epar k = Some (eid e).
Proof.
  unfold kids_point_back. rewrite forallb_forall. split.
  - intros H e c He Hc. specialize (H e He). rewrite forallb_forall in H. specialize (H c Hc).
    destruct (get c job) as [k|]; [|discriminate]. exists k. split; [reflexivity|].
    apply opt_eqb_spec. exact H.
  - intros H e He. apply forallb_forall. intros c Hc. destruct (H e c He Hc) as [k [-> Hk]].
    apply opt_eqb_spec. exact Hk.
Qed.

(** a listed child of an event of a [TreeJob] points back *)
Lemma tj_kid_par job e k : TreeJob job -> In e job -> In k job -> In (eid k) (ekids e) ->
  epar k = Some (eid e).
Proof.
  intros HT He Hk Hc. destruct (tj_kids job HT e (eid k) He Hc) as [k' [Hk' [Heq Hp]]].
  rewrite (eid_inj job k k' (tj_ids job HT) Hk Hk' (eq_sym Heq)). exact Hp.
Qed.

(** every non-root event's parent is an event of the job: nothing is skipped *)
Lemma Reach_parent job k : TreeJob job -> Reach job k ->
  epar k = None \/ exists e, In e job /\ epar k = Some (eid e).
Proof.
  intros HT H. destruct H as [r Hr Hp|e k He Hk Hc]; [left; exact Hp|].
  right. exists e. split; [apply Reach_In; exact He|].
  apply (tj_kid_par job e k HT); [apply Reach_In; exact He|exact Hk|exact Hc].
Qed.

Lemma TreeJob_parents job : TreeJob job -> parents_present job = true.
Proof.
  intros HT. unfold parents_present. apply forallb_forall. intros k Hk.
  destruct (Reach_parent job k HT (tj_reach job HT k Hk)) as [->|[e [He ->]]]; [reflexivity|].
  apply mem_In. apply in_map. exact He.
Qed.

(** ** soundness of the checker *)
Lemma NoDup_heads kids : NoDup (flat_map ids kids) -> NoDup (map sid kids).
Proof.
  induction kids as [|k kids IH]; intros H; [constructor|].
  cbn [flat_map map] in *. constructor.
  - intros Hin. apply in_map_iff in Hin. destruct Hin as [k' [Heq Hk']].
    destruct k as [i ty st en pl ks]. cbn [ids sid app] in *. apply NoDup_cons_iff in H.
    destruct H as [Hx _]. apply Hx. apply in_or_app. right. apply in_flat_map. exists k'. split; [exact Hk'|].
    rewrite <- Heq. destruct k'. left. reflexivity.
  - apply IH. eapply NoDup_app_r. exact H.
Qed.

Lemma rep_reach job t0 : NoDup (map eid job) -> rep job t0 ->
  (forall e0, get (sid t0) job = Some e0 -> Reach job e0) ->
  forall s e, In s (nodes t0) -> get (sid s) job = Some e -> Reach job e.
Proof.
  intros Hnd. induction t0 as [i ty st en pl kids IH] using span_ind'. intros Hrep H0 s e Hs He.
  rewrite Forall_forall in IH. cbn [nodes] in Hs. destruct Hs as [<-|Hs]; [apply H0; exact He|].
  apply in_flat_map in Hs. destruct Hs as [k [Hk Hs]].
  apply (IH k Hk) with (s := s); [| |exact Hs|exact He].
  - eapply rep_sub; [exact Hrep|]. eapply nodes_kid; [exact Hk|apply node_self].
  - intros ek Hek.
    destruct (Hrep _ (node_self _)) as [e0 [He0 Hm0]].
    apply reach_kid with (e := e0); [apply H0; exact He0|eapply get_In; exact Hek|].
    destruct Hm0 as [_ [_ [_ [_ [_ Hk0]]]]]. cbn [skids] in Hk0. rewrite <- Hk0.
    rewrite (get_eid _ _ _ Hek). apply in_map. exact Hk.
Qed.

Theorem tree_jobb_sound job : tree_jobb job = true -> TreeJob job.
Proof.
  unfold tree_jobb. destruct (build_tree job) as [t|] eqn:Hb; [|discriminate]. intros Hpb.
  destruct (build_tree_facts job t Hb) as [Hnd [Hndt [Hrep [Hperm [r [Hroot Hmr]]]]]].
  pose proof (proj1 (kids_point_back_spec job) Hpb) as Hback.
  assert (Hnode : forall e, In e job -> exists s, In s (nodes t) /\ matches e s).
  { intros e He.
    assert (Hi : In (eid e) (ids t)).
    { eapply Permutation_in; [apply Permutation_sym; exact Hperm|apply in_map; exact He]. }
    apply in_ids_node in Hi. destruct Hi as [s [Hs Hsid]].
    destruct (Hrep s Hs) as [e' [He' Hm]]. rewrite Hsid, (get_nodup _ _ Hnd He) in He'.
    inversion He'; subst e'. exists s. split; assumption. }
  constructor.
  - exact Hnd.
  - exists r. exact Hroot.
  - intros e He. destruct (Hnode e He) as [s [Hs [_ [_ [_ [_ [_ Hk]]]]]]]. rewrite <- Hk.
    pose proof (nodes_NoDup t s Hndt Hs) as Hn. destruct s as [i ty st en pl kids].
    cbn [ids skids] in *. inversion Hn; subst. apply NoDup_heads. assumption.
  - intros e c He Hc. destruct (Hback e c He Hc) as [k [Hk Hp]].
    exists k. split; [eapply get_In; exact Hk|]. split; [eapply get_eid; exact Hk|exact Hp].
  - intros e He. destruct (Hnode e He) as [s [Hs [Hsid _]]].
    apply (rep_reach job t Hnd Hrep) with (s := s); [|exact Hs|].
    + intros e0 He0. destruct Hmr as [Hs0 _]. rewrite Hs0 in He0.
      assert (Hr : In r (filter is_root job)) by (rewrite Hroot; left; reflexivity).
      apply filter_In in Hr. destruct Hr as [Hr Hroot1].
      rewrite (get_nodup _ _ Hnd Hr) in He0. inversion He0; subst e0.
      apply reach_root; [exact Hr|]. unfold is_root in Hroot1. destruct (epar r); [discriminate|reflexivity].
    + rewrite Hsid. apply get_nodup; assumption.
Qed.

(* ------------------------------------------------------------------------------------------ *)
(** * 10. Completeness of the checker: a [TreeJob] is built by [build_tree] *)

(** [Up job j x a]: [a] is [j] parent pointers above [x] *)
Inductive Up (job : list oevent) : nat -> oevent -> oevent -> Prop :=
| up_0 x : Up job 0 x x
| up_S j x y a : epar x = Some (eid y) -> In y job -> Up job j y a -> Up job (S j) x a.

(** depth below the parentless event *)
Definition Lvl (job : list oevent) (m : nat) (x : oevent) : Prop :=
  exists r, Up job m x r /\ epar r = None.

Lemma Up_fun job : NoDup (map eid job) -> forall j x a b, Up job j x a -> Up job j x b -> a = b.
Proof.
  intros Hnd j x a b H. revert b. induction H as [x|j x y a Hp Hy _ IH]; intros b Hb.
  - inversion Hb. reflexivity.
  - inversion Hb as [|j' x' y' b' Hp' Hy' Hb']; subst. apply IH.
    rewrite Hp in Hp'. inversion Hp' as [Heq].
    rewrite (eid_inj job y y' Hnd Hy Hy' Heq). exact Hb'.
Qed.

Lemma Up_trans job j x a : Up job j x a -> forall k b, Up job k a b -> Up job (j + k) x b.
Proof.
  induction 1 as [x|j x y a Hp Hy _ IH]; intros k b Hb; [exact Hb|].
  cbn [Nat.add]. eapply up_S; [exact Hp|exact Hy|apply IH; exact Hb].
Qed.

Lemma Lvl_fun job : NoDup (map eid job) -> forall m x m', Lvl job m x -> Lvl job m' x -> m = m'.
Proof.
  intros Hnd m x m' [r [H Hr]]. revert m'. induction H as [x|j x y a Hp Hy _ IH]; intros m' [r' [H' Hr']].
  - inversion H' as [|j' x' y' a' Hp' _ _]; [reflexivity|]. subst. congruence.
  - inversion H' as [|j' x' y' a' Hp' Hy' Hu']; subst; [congruence|].
    f_equal. apply (IH Hr). exists r'. split; [|exact Hr'].
    rewrite Hp in Hp'. inversion Hp' as [Heq].
    rewrite (eid_inj job y y' Hnd Hy Hy' Heq). exact Hu'.
Qed.

Lemma Lvl_up job m x j a : Lvl job m a -> Up job j x a -> Lvl job (j + m) x.
Proof. intros [r [H Hr]] Hu. exists r. split; [eapply Up_trans; eassumption|exact Hr]. Qed.

Lemma Lvl_kid job m e k : In e job -> epar k = Some (eid e) -> Lvl job m e -> Lvl job (S m) k.
Proof.
  intros He Hp H. apply (Lvl_up job m k 1 e H). eapply up_S; [exact Hp|exact He|constructor].
Qed.

Lemma Reach_Lvl job e : TreeJob job -> Reach job e -> exists m, Lvl job m e.
Proof.
  intros HT. induction 1 as [r Hr Hp|e k He [m IH] Hk Hc].
  - exists O, r. split; [constructor|exact Hp].
  - exists (S m). apply (Lvl_kid job m e k (Reach_In _ _ He)); [|exact IH].
    apply (tj_kid_par job e k HT); [apply Reach_In; exact He|exact Hk|exact Hc].
Qed.

(** the parent chain of an event at depth [m] consists of [m+1] distinct events of the job *)
Lemma Up_chain job : NoDup (map eid job) -> forall m x r, Up job m x r -> epar r = None -> In x job ->
  exists l, length l = S m /\ incl l job /\ NoDup l
            /\ forall z, In z l -> exists j, (j <= m)%nat /\ Lvl job j z.
Proof.
  intros Hnd m x r H Hr. induction H as [x|j x y a Hp Hy Hu IH]; intros Hx.
  - exists [x]. split; [reflexivity|]. split; [intros z [<-|[]]; exact Hx|].
    split; [constructor; [intros []|constructor]|].
    intros z [<-|[]]. exists O. split; [apply le_n|]. exists x. split; [constructor|exact Hr].
  - destruct (IH Hr Hy) as [l [Hlen [Hincl [Hndl Hlv]]]].
    assert (HLx : Lvl job (S j) x) by (exists a; split; [eapply up_S; eassumption|exact Hr]).
    exists (x :: l). split; [cbn [length]; rewrite Hlen; reflexivity|].
    split; [intros z [<-|Hz]; [exact Hx|apply Hincl; exact Hz]|].
    split.
    + constructor; [|exact Hndl]. intros Hin. destruct (Hlv x Hin) as [j' [Hle HL]].
      pose proof (Lvl_fun job Hnd _ _ _ HLx HL). lia.
    + intros z [<-|Hz]; [exists (S j); split; [apply le_n|exact HLx]|].
      destruct (Hlv z Hz) as [j' [Hle HL]]. exists j'. split; [lia|exact HL].
Qed.

Lemma Lvl_bound job m x : NoDup (map eid job) -> Lvl job m x -> In x job -> (m < length job)%nat.
Proof.
  intros Hnd [r [H Hr]] Hx. destruct (Up_chain job Hnd m x r H Hr Hx) as [l [Hlen [Hincl [Hndl _]]]].
  pose proof (NoDup_incl_length Hndl Hincl). lia.
Qed.

Lemma map_opt_some {A B} (f : A -> option B) l :
  (forall x, In x l -> exists y, f x = Some y) -> exists ys, map_opt f l = Some ys.
Proof.
  induction l as [|x l IH]; intros H; [exists []; reflexivity|].
  destruct (H x (or_introl eq_refl)) as [y Hy].
  destruct IH as [ys Hys]; [intros z Hz; apply H; right; exact Hz|].
  exists (y :: ys). cbn [map_opt]. rewrite Hy, Hys. reflexivity.
Qed.

(** the listed children of an event of a [TreeJob], as events *)
Lemma tj_get_kids job e : TreeJob job -> In e job ->
  exists kids, get_all job (ekids e) = Some kids
               /\ forall k, In k kids -> In k job /\ epar k = Some (eid e).
Proof.
  intros HT He.
  destruct (get_all_some job (ekids e)) as [kids Hk].
  { intros c Hc. destruct (tj_kids job HT e c He Hc) as [k [Hk [<- _]]]. apply in_map. exact Hk. }
  exists kids. split; [exact Hk|]. intros k Hin.
  pose proof (get_all_ids _ _ _ Hk) as Hids. apply get_all_spec in Hk.
  destruct (Forall2_in_r _ _ _ _ Hk Hin) as [c [Hc Hg]].
  pose proof (get_In _ _ _ Hg) as Hkj. split; [exact Hkj|].
  apply (tj_kid_par job e k HT He Hkj). rewrite (get_eid _ _ _ Hg). exact Hc.
Qed.

Lemma build_succeeds job : TreeJob job -> forall fuel e m,
  In e job -> Lvl job m e -> (length job <= fuel + m)%nat -> exists t, build fuel job e = Some t.
Proof.
  intros HT. induction fuel as [|f IH]; intros e m He HL Hf.
  - pose proof (Lvl_bound job m e (tj_ids job HT) HL He). lia.
  - destruct (tj_get_kids job e HT He) as [kids [Hk Hkids]].
    cbn [build]. rewrite Hk.
    destruct (map_opt_some (build f job) kids) as [ks Hks].
    { intros k Hin. destruct (Hkids k Hin) as [Hkj Hp].
      apply (IH k (S m) Hkj); [apply (Lvl_kid job m e k He Hp HL)|lia]. }
    rewrite Hks. eexists. reflexivity.
Qed.

Lemma NoDup_app_intro {A} (a b : list A) :
  NoDup a -> NoDup b -> (forall x, In x a -> ~ In x b) -> NoDup (a ++ b).
Proof.
  induction a as [|x a IH]; intros Ha Hb Hd; [exact Hb|].
  cbn [app]. inversion Ha as [|x' a' Hx Ha']; subst. constructor.
  - intros Hin. apply in_app_or in Hin. destruct Hin as [Hin|Hin]; [contradiction|].
    apply (Hd x (or_introl eq_refl) Hin).
  - apply IH; [exact Ha'|exact Hb|]. intros y Hy. apply Hd. right. exact Hy.
Qed.

Lemma NoDup_flat_map_disj kids :
  NoDup (map sid kids) -> (forall k, In k kids -> NoDup (ids k)) ->
  (forall k1 k2 x, In k1 kids -> In k2 kids -> In x (ids k1) -> In x (ids k2) -> sid k1 = sid k2) ->
  NoDup (flat_map ids kids).
Proof.
  induction kids as [|k kids IH]; intros Hs Hn Hd; [constructor|].
  cbn [map flat_map] in *. inversion Hs as [|s l Hk Hs']; subst.
  apply NoDup_app_intro.
  - apply Hn. left. reflexivity.
  - apply IH; [exact Hs'|intros k' Hk'; apply Hn; right; exact Hk'|].
    intros k1 k2 x H1 H2. apply Hd; right; assumption.
  - intros x Hx Hin. apply in_flat_map in Hin. destruct Hin as [k2 [Hk2 Hx2]].
    apply Hk. rewrite (Hd k k2 x (or_introl eq_refl) (or_intror Hk2) Hx Hx2).
    apply in_map. exact Hk2.
Qed.

(** a tree built over a [TreeJob] has no repeated id *)
Lemma built_nodup job : TreeJob job -> forall t e m,
  rep job t -> get (sid t) job = Some e -> Lvl job m e ->
  NoDup (ids t)
  /\ forall x, In x (ids t) -> exists ex j, get x job = Some ex /\ Up job j ex e.
Proof.
  intros HT. pose proof (tj_ids job HT) as Hnd.
  induction t as [i ty st en pl kids IH] using span_ind'. intros e m Hrep He HL.
  rewrite Forall_forall in IH. cbn [sid] in He.
  pose proof (get_In _ _ _ He) as Hej.
  destruct (Hrep _ (node_self _)) as [e' [He' Hm]]. cbn [sid] in He'. rewrite He in He'.
  inversion He'; subst e'. clear He'.
  destruct Hm as [_ [_ [_ [_ [_ Hk]]]]]. cbn [skids] in Hk.
  (* the events of the kids *)
  assert (Hkid : forall k, In k kids -> exists ek, get (sid k) job = Some ek /\ epar ek = Some (eid e)
                                                   /\ rep job k).
  { intros k Hkin.
    destruct (Hrep k (nodes_kid (Span i ty st en pl kids) k k Hkin (node_self k))) as [ek [Hek _]].
    exists ek. split; [exact Hek|]. split.
    - apply (tj_kid_par job e ek HT Hej (get_In _ _ _ Hek)).
      rewrite (get_eid _ _ _ Hek), <- Hk. apply in_map. exact Hkin.
    - eapply rep_sub; [exact Hrep|]. eapply nodes_kid; [exact Hkin|apply node_self]. }
  assert (Hsub : forall k x, In k kids -> In x (ids k) ->
            exists ek ex j, get (sid k) job = Some ek /\ get x job = Some ex /\ Up job j ex ek
                            /\ Up job (j + 1) ex e).
  { intros k x Hkin Hx. destruct (Hkid k Hkin) as [ek [Hek [Hp Hrk]]].
    destruct (IH k Hkin ek (S m) Hrk Hek (Lvl_kid job m e ek Hej Hp HL)) as [_ Hup].
    destruct (Hup x Hx) as [ex [j [Hex Hu]]].
    exists ek, ex, j. split; [exact Hek|]. split; [exact Hex|]. split; [exact Hu|].
    eapply Up_trans; [exact Hu|]. eapply up_S; [exact Hp|exact Hej|constructor]. }
  split.
  - cbn [ids]. constructor.
    + intros Hin. apply in_flat_map in Hin. destruct Hin as [k [Hkin Hx]].
      destruct (Hsub k i Hkin Hx) as [ek [ex [j [_ [Hex [_ Hu]]]]]].
      rewrite He in Hex. inversion Hex; subst ex.
      pose proof (Lvl_up job m e (j + 1) e HL Hu) as HL2.
      pose proof (Lvl_fun job Hnd _ _ _ HL HL2). lia.
    + apply NoDup_flat_map_disj.
      * rewrite Hk. apply (tj_kids_nodup job HT e Hej).
      * intros k Hkin. destruct (Hkid k Hkin) as [ek [Hek [Hp Hrk]]].
        apply (IH k Hkin ek (S m) Hrk Hek (Lvl_kid job m e ek Hej Hp HL)).
      * intros k1 k2 x H1 H2 Hx1 Hx2.
        destruct (Hsub k1 x H1 Hx1) as [ek1 [ex1 [j1 [Hek1 [Hex1 [Hu1 _]]]]]].
        destruct (Hsub k2 x H2 Hx2) as [ek2 [ex2 [j2 [Hek2 [Hex2 [Hu2 _]]]]]].
        rewrite Hex1 in Hex2. inversion Hex2; subst ex2.
        destruct (Hkid k1 H1) as [ek1' [Hek1' [Hp1 _]]]. rewrite Hek1 in Hek1'. inversion Hek1'; subst ek1'.
        destruct (Hkid k2 H2) as [ek2' [Hek2' [Hp2 _]]]. rewrite Hek2 in Hek2'. inversion Hek2'; subst ek2'.
        pose proof (Lvl_up job (S m) ex1 j1 ek1 (Lvl_kid job m e ek1 Hej Hp1 HL) Hu1) as L1.
        pose proof (Lvl_up job (S m) ex1 j2 ek2 (Lvl_kid job m e ek2 Hej Hp2 HL) Hu2) as L2.
        pose proof (Lvl_fun job Hnd _ _ _ L1 L2) as Hj.
        assert (j1 = j2) by lia. subst j2.
        pose proof (Up_fun job Hnd _ _ _ _ Hu1 Hu2) as Heq. subst ek2.
        rewrite <- (get_eid _ _ _ Hek1), <- (get_eid _ _ _ Hek2). reflexivity.
  - intros x Hx. cbn [ids] in Hx. destruct Hx as [<-|Hx].
    + exists e, O. split; [exact He|constructor].
    + apply in_flat_map in Hx. destruct Hx as [k [Hkin Hx]].
      destruct (Hsub k x Hkin Hx) as [ek [ex [j [_ [Hex [_ Hu]]]]]].
      exists ex, (j + 1)%nat. split; assumption.
Qed.

(** everything reachable is in the tree built from the root *)
Lemma reach_covered job t r : NoDup (map eid job) -> rep job t ->
  filter is_root job = [r] -> sid t = eid r ->
  forall e, Reach job e -> In (eid e) (ids t).
Proof.
  intros Hnd Hrep Hroot Hsid e H. induction H as [r' Hr' Hp|e k He IH Hk Hc].
  - assert (Hin : In r' (filter is_root job)).
    { apply filter_In. split; [exact Hr'|]. unfold is_root. rewrite Hp. reflexivity. }
    rewrite Hroot in Hin. destruct Hin as [<-|[]]. rewrite <- Hsid.
    destruct t. left. reflexivity.
  - apply in_ids_node in IH. destruct IH as [s [Hs Hse]].
    destruct (Hrep s Hs) as [e' [He' Hm]].
    rewrite Hse, (get_nodup _ _ Hnd (Reach_In _ _ He)) in He'. inversion He'; subst e'.
    destruct Hm as [_ [_ [_ [_ [_ Hks]]]]]. rewrite <- Hks in Hc.
    apply in_map_iff in Hc. destruct Hc as [ks [Heq Hkin]].
    apply in_ids_node. exists ks. split; [|exact Heq]. eapply nodes_skids; eassumption.
Qed.

Theorem tree_jobb_complete job : TreeJob job -> tree_jobb job = true.
Proof.
  intros HT. pose proof (tj_ids job HT) as Hnd.
  destruct (tj_root job HT) as [r Hroot].
  assert (Hr : In r job /\ epar r = None).
  { assert (Hin : In r (filter is_root job)) by (rewrite Hroot; left; reflexivity).
    apply filter_In in Hin. destruct Hin as [Hin Hb]. split; [exact Hin|].
    unfold is_root in Hb. destruct (epar r); [discriminate|reflexivity]. }
  destruct Hr as [Hr Hpr].
  assert (HL0 : Lvl job 0 r) by (exists r; split; [constructor|exact Hpr]).
  destruct (build_succeeds job HT (length job) r 0 Hr HL0) as [t Hb]; [lia|].
  destruct (build_rep job _ r t (get_nodup _ _ Hnd Hr) Hb) as [Hm Hrep].
  assert (Hsid : sid t = eid r) by (destruct Hm as [H _]; exact H).
  assert (Hget : get (sid t) job = Some r) by (rewrite Hsid; apply get_nodup; assumption).
  destruct (built_nodup job HT t r 0 Hrep Hget HL0) as [Hndt _].
  assert (Hcov : incl (map eid job) (ids t)).
  { intros i Hi. apply in_map_iff in Hi. destruct Hi as [e [<- He]].
    apply (reach_covered job t r Hnd Hrep Hroot Hsid). apply (tj_reach job HT e He). }
  assert (Hlen : length (ids t) = length job).
  { pose proof (NoDup_incl_length Hndt (rep_ids_incl job t Hrep)) as H1.
    pose proof (NoDup_incl_length Hnd Hcov) as H2. rewrite map_length in H1, H2. lia. }
  unfold tree_jobb, build_tree.
  rewrite (proj2 (nodupb_spec _) Hnd), Hroot, Hb, Hlen, Nat.eqb_refl, (proj2 (nodupb_spec _) Hndt).
  cbn [andb]. apply kids_point_back_spec. intros e c He Hc.
  destruct (tj_kids job HT e c He Hc) as [k [Hk [Heq Hp]]].
  exists k. split; [|exact Hp]. rewrite <- Heq. apply get_nodup; assumption.
Qed.

Theorem tree_jobb_spec job : tree_jobb job = true <-> TreeJob job.
Proof. split; [apply tree_jobb_sound|apply tree_jobb_complete]. Qed.

Lemma TreeJob_build job : TreeJob job -> exists t, build_tree job = Some t.
Proof.
  intros HT. pose proof (tree_jobb_complete job HT) as H. unfold tree_jobb in H.
  destruct (build_tree job) as [t|]; [exists t; reflexivity|discriminate].
Qed.

(* ------------------------------------------------------------------------------------------ *)
(** * 11. (b) sequence_job_ok, and the rows are those of [SeqCheck.to_pv] on the built tree *)

Theorem sequence_job_ok : forall async m rs job, TreeJob job ->
  exists t rows,
    build_tree job = Some t
    /\ sequence_job async m rs job = JOk rows
    (* each span exactly once, in stream order *)
    /\ map rid rows = map eid job
    (* timestamp = nano_to_pv (end), job id / job name / application copied *)
    /\ Forall2 (fun e r => rts r = nano_to_pv (een e) /\ rjob r = njob (fst e)
                           /\ rname r = nname (fst e) /\ rapp r = napp (fst e)) job rows
    (* type = renamed type (dict pass = tree pass of Sequencer.v) *)
    /\ (exists d', rename_job rs job = Some d' /\ map rty rows = map ety d')
    /\ (forall s, In s (nodes (rename rs (map eid job) t)) ->
          exists r, In r rows /\ rid r = sid s /\ rty r = sty s)
    (* the links are exactly those of the sequencer on the tree *)
    /\ (forall i ps, In (i, ps) (links_of rows) <-> In (i, ps) (sequence async m rs (map eid job) t))
    (* every previous id is an id of the same job *)
    /\ (forall r q, In r rows -> In q (rprev r) -> In q (map eid job))
    (* the link relation is acyclic *)
    /\ (forall a, ~ path (links_of rows) a a)
    (* every span follows all its descendants *)
    /\ (forall d a, JDesc job d a -> path (links_of rows) d a).
Proof.
  intros async m rs job HT. destruct (TreeJob_build job HT) as [t Hb].
  destruct (sequence_job_tree async m rs job t Hb (TreeJob_parents job HT)) as [rows H].
  exists t, rows. split; [exact Hb|exact H].
Qed.

Lemma find_node_sound t : forall i s, find_node i t = Some s -> In s (nodes t) /\ sid s = i.
Proof.
  induction t as [j ty st en pl kids IH] using span_ind'. intros i s H.
  cbn [find_node] in H. destruct (Pos.eqb_spec i j) as [->|Hne].
  - inversion H; subst. split; [apply node_self|reflexivity].
  - cbn [nodes]. induction IH as [|k kids Hk _ IHk]; cbn [fold_right] in H; [discriminate|].
    destruct (find_node i k) as [s'|] eqn:E.
    + inversion H; subst s'. destruct (Hk i s E) as [H1 H2]. split; [|exact H2].
      right. cbn [flat_map]. apply in_or_app. left. exact H1.
    + destruct (IHk H) as [[H1|H1] H2].
      * exfalso. subst s. cbn [sid] in H2. apply Hne. symmetry. exact H2.
      * split; [|exact H2]. right. cbn [flat_map]. apply in_or_app. right. exact H1.
Qed.

Lemma find_node_complete t : forall i, In i (ids t) -> exists s, find_node i t = Some s.
Proof.
  induction t as [j ty st en pl kids IH] using span_ind'. intros i Hi.
  cbn [find_node]. destruct (Pos.eqb_spec i j) as [->|Hne]; [eexists; reflexivity|].
  cbn [ids] in Hi. destruct Hi as [Hi|Hi]; [exfalso; apply Hne; symmetry; exact Hi|].
  induction IH as [|k kids Hk _ IHk]; cbn [flat_map fold_right] in *; [contradiction|].
  destruct (find_node i k) as [s'|] eqn:E; [eexists; reflexivity|].
  apply in_app_or in Hi. destruct Hi as [Hi|Hi]; [|apply IHk; exact Hi].
  destruct (Hk i Hi) as [s Hs]. congruence.
Qed.

(** the same rows as C08's [to_pv] on the built tree (payload of a [span] := job id) *)
Theorem sequence_job_to_pv : forall async m rs job t,
  build_tree job = Some t -> parents_present job = true ->
  exists rows, sequence_job async m rs job = JOk rows
               /\ map row3_to_row rows = to_pv async m rs (map eid job) t.
Proof.
  intros async m rs job t Hb Hpp.
  destruct (sequence_job_tree_links async m rs job t Hb Hpp) as [d' [rows [Hren [Her [Hrep' [Hseq HF]]]]]].
  exists rows. split; [exact Hseq|].
  unfold to_pv. set (t' := rename rs (map eid job) t) in *. set (l := seqf async m t' []) in *.
  destruct (build_tree_facts job t Hb) as [Hnd [Hndt [_ [Hperm _]]]].
  assert (Hndt' : NoDup (ids t')) by (unfold t'; rewrite ids_rename; exact Hndt).
  assert (Hfind : forall e, In e d' -> exists s, find_node (eid e) t' = Some s /\ matches e s).
  { intros e He.
    assert (Hi : In (eid e) (ids t')).
    { unfold t'. rewrite ids_rename. eapply Permutation_in; [apply Permutation_sym; exact Hperm|].
      rewrite <- (erase_ids _ _ Her). apply in_map. exact He. }
    destruct (find_node_complete t' _ Hi) as [s Hs]. exists s. split; [exact Hs|].
    destruct (find_node_sound t' _ _ Hs) as [Hin Hsid].
    destruct (Hrep' s Hin) as [e' [He' Hm]]. rewrite Hsid in He'.
    assert (Hnd' : NoDup (map eid d')) by (rewrite (erase_ids _ _ Her); exact Hnd).
    rewrite (get_nodup _ _ Hnd' He) in He'. inversion He'; subst e'. exact Hm. }
  rewrite <- (erase_ids _ _ Her). unfold rows_of.
  clear -HF Hfind. induction HF as [|e r d rows [ps [Hl ->]] _ IH]; [reflexivity|].
  cbn [map flat_map].
  destruct (Hfind e (or_introl eq_refl)) as [s [Hs [_ [H2 [_ [H4 [H5 _]]]]]]].
  rewrite Hs, Hl. cbn [app]. f_equal.
  - unfold row3_to_row, row_of, rid, rty, rprev, rts, rjob. rewrite H2, H4, H5. reflexivity.
  - apply IH. intros x Hx. apply Hfind. right. exact Hx.
Qed.

(** ** non-vacuity: a shuffled five-span trace with a rename rule and a group map
    (the group map is keyed by the RENAMED type 9: renaming happens before grouping) *)
Definition ex_job : list oevent :=
  [ ev 3 (Some 1%positive) 7 2 3 10 40 1 [4]%positive;
    ev 1 None 7 2 1 0 100 1 [2; 3]%positive;
    ev 4 (Some 3%positive) 7 2 4 20 30 2 [];
    ev 2 (Some 1%positive) 7 2 2 50 60 1 [5]%positive;
    ev 5 (Some 2%positive) 7 2 4 52 58 3 [] ]%positive.

Example ex_job_tree : TreeJob ex_job.
Proof. apply tree_jobb_spec. vm_compute. reflexivity. Qed.

Example ex_job_build :
  build_tree ex_job
  = Some (Span 1 1 0 100 7 [Span 2 2 50 60 7 [Span 5 4 52 58 7 []];
                            Span 3 3 10 40 7 [Span 4 4 20 30 7 []]])%positive.
Proof. vm_compute. reflexivity. Qed.

Example ex_job_rows :
  sequence_job true [(1, [(2, 7); (9, 7)])]%positive [(3, (9, [4]))]%positive ex_job
  = JOk [ (3, 9, [4], "1970-01-01T00:00:00.000000Z"%string, 7, 2, 1);
          (1, 1, [3; 2], "1970-01-01T00:00:00.000000Z"%string, 7, 2, 1);
          (4, 4, [], "1970-01-01T00:00:00.000000Z"%string, 7, 2, 2);
          (2, 2, [5], "1970-01-01T00:00:00.000000Z"%string, 7, 2, 1);
          (5, 4, [], "1970-01-01T00:00:00.000000Z"%string, 7, 2, 3) ]%positive.
Proof. vm_compute. reflexivity. Qed.

(* ------------------------------------------------------------------------------------------ *)
(** * 12. (c) pipeline_exact: store -> stream -> PV rows *)

(** every trace streamed from the store is a tree *)
Definition StoreTrees (fm : list (positive * list positive)) (fn : list positive) (st : store) : Prop :=
  forall nm jobs j, In (nm, jobs) (stream fm fn st) -> In j jobs -> TreeJob j.

Lemma store_treesb_spec fm fn st : store_treesb fm fn st = true <-> StoreTrees fm fn st.
Proof.
  unfold store_treesb, StoreTrees. rewrite forallb_forall. split.
  - intros H nm jobs j Hin Hj. specialize (H (nm, jobs) Hin). cbn [snd] in H.
    rewrite forallb_forall in H. apply tree_jobb_spec. apply H. exact Hj.
  - intros H [nm jobs] Hin. cbn [snd]. apply forallb_forall. intros j Hj.
    apply tree_jobb_spec. eapply H; eassumption.
Qed.

Definition rows_of_result (r : job_result) : list pvrow3 :=
  match r with JOk rows => rows | _ => [] end.

(** all PV rows of a run, in output order *)
Definition all_rows (out : list (positive * list job_result)) : list pvrow3 :=
  flat_map (fun nr => flat_map rows_of_result (snd nr)) out.

Definition trace_id (j : list oevent) : positive :=
  match j with e :: _ => njob (fst e) | [] => 1%positive end.

Lemma Forall2_map_r {A B} (R : A -> B -> Prop) (f : A -> B) l :
  (forall x, In x l -> R x (f x)) -> Forall2 R l (map f l).
Proof.
  induction l as [|x l IH]; intros H; [constructor|].
  cbn [map]. constructor; [apply H; left; reflexivity|]. apply IH. intros y Hy. apply H. right. exact Hy.
Qed.

Lemma NoDup_map_filter {A B} (f : A -> B) (p : A -> bool) l : NoDup (map f l) -> NoDup (map f (filter p l)).
Proof.
  induction l as [|x l IH]; intros H; [constructor|].
  cbn [map filter] in *. inversion H as [|y l' Hx Hn]; subst.
  destruct (p x); [|apply IH; exact Hn]. cbn [map]. constructor; [|apply IH; exact Hn].
  intros Hin. apply Hx. apply in_map_iff in Hin. destruct Hin as [z [Hz Hin]].
  apply filter_In in Hin. apply in_map_iff. exists z. split; [exact Hz|tauto].
Qed.

Lemma in_flatten (s : list (positive * list (list oevent))) nm jobs j e :
  In (nm, jobs) s -> In j jobs -> In e j -> In e (flatten s).
Proof.
  intros H1 H2 H3. unfold flatten. apply in_concat. exists j. split; [|exact H3].
  apply in_concat. exists jobs. split; [|exact H2].
  apply in_map_iff. exists (nm, jobs). split; [reflexivity|exact H1].
Qed.

Lemma eid_nid (j : list oevent) : map eid j = map nid (map fst j).
Proof. rewrite map_map. reflexivity. Qed.

(** the rows of the whole run carry the ids of the whole stream, in order *)
Lemma all_rows_ids async cfg (s : list (positive * list (list oevent))) :
  (forall nm jobs j, In (nm, jobs) s -> In j jobs -> TreeJob j) ->
  map rid (all_rows (otel_to_pv_model async cfg s)) = map eid (flatten s).
Proof.
  unfold flatten. induction s as [|[nm jobs] s IH]; intros H; [reflexivity|].
  cbn [otel_to_pv_model map all_rows flat_map fst snd concat].
  rewrite concat_app, !map_app. f_equal.
  - assert (Hj : forall j, In j jobs -> TreeJob j) by (intros j Hj; apply (H nm jobs j); [left; reflexivity|exact Hj]).
    clear -Hj. induction jobs as [|j jobs IHj]; [reflexivity|].
    cbn [map flat_map concat]. rewrite !map_app. f_equal.
    + destruct (sequence_job_ok async (fst (cfg nm)) (snd (cfg nm)) j (Hj j (or_introl eq_refl)))
        as [t [rows [_ [-> [Hids _]]]]]. exact Hids.
    + apply IHj. intros j' Hj'. apply Hj. right. exact Hj'.
  - apply IH. intros nm' jobs' j H1 H2. apply (H nm' jobs' j); [right; exact H1|exact H2].
Qed.

Lemma out_inv async cfg (s : list (positive * list (list oevent))) nm res rows :
  In (nm, res) (otel_to_pv_model async cfg s) -> In (JOk rows) res ->
  exists jobs j, In (nm, jobs) s /\ In j jobs
                 /\ sequence_job async (fst (cfg nm)) (snd (cfg nm)) j = JOk rows.
Proof.
  unfold otel_to_pv_model. intros H1 H2. apply in_map_iff in H1. destruct H1 as [[nm' jobs] [Heq Hin]].
  cbn [fst snd] in Heq. inversion Heq; subst. apply in_map_iff in H2. destruct H2 as [j [Hj Hin2]].
  exists jobs, j. split; [exact Hin|]. split; [exact Hin2|exact Hj].
Qed.

Lemma all_rows_inv out x : In x (all_rows out) ->
  exists nm res rows, In (nm, res) out /\ In (JOk rows) res /\ In x rows.
Proof.
  unfold all_rows. intros H. apply in_flat_map in H. destruct H as [[nm res] [H1 H2]].
  cbn [snd] in H2. apply in_flat_map in H2. destruct H2 as [r [H2 H3]].
  destruct r as [| |rows]; try contradiction. exists nm, res, rows. auto.
Qed.

(** what one streamed trace of a well-formed store gives *)
Lemma stream_job_rows async m rs fm fn st nm jobs j :
  StoreTrees fm fn st -> In (nm, jobs) (stream fm fn st) -> In j jobs ->
  exists rows, sequence_job async m rs j = JOk rows /\ map rid rows = map eid j
               /\ (forall x, In x rows -> rname x = nm /\ rjob x = trace_id j)
               /\ (forall x q, In x rows -> In q (rprev x) -> In q (map rid rows)).
Proof.
  intros HT Hin Hj.
  destruct (sequence_job_ok async m rs j (HT nm jobs j Hin Hj))
    as [t [rows [_ [Hs [Hids [Hcopy [_ [_ [_ [Hprev _]]]]]]]]]].
  exists rows. split; [exact Hs|]. split; [exact Hids|]. split.
  - intros x Hx. destruct (Forall2_in_r _ _ _ _ Hcopy Hx) as [e [He [_ [Hjob [Hname _]]]]].
    destruct (stream_exact_model st fm fn) as [_ [_ [Hc _]]].
    destruct (Hc nm jobs j e Hin Hj He) as [Hnm Hsame]. split; [congruence|].
    rewrite Hjob. destruct j as [|e0 j']; [contradiction|]. cbn [trace_id].
    symmetry. apply Hsame. left. reflexivity.
  - intros x q Hx Hq. rewrite Hids. eapply Hprev; eassumption.
Qed.

Theorem pipeline_exact : forall async cfg fm fn st,
  NoDup (Rel.ids (db st)) -> StoreTrees fm fn st ->
  let s := stream fm fn st in
  let out := otel_to_pv_model async cfg s in
  (* each workflow name once *)
  map fst out = map fst s /\ StronglySorted Pos.lt (map fst out)
  (* under it each streamed trace once ... *)
  /\ (forall nm jobs, In (nm, jobs) s -> StronglySorted Pos.lt (map trace_id jobs))
  (* ... and for each trace one [JOk] result: one row per span of the trace in stream order, carrying
     the workflow name and the trace id, with links inside the trace *)
  /\ Forall2 (fun nj nr => fst nr = fst nj /\
        Forall2 (fun j r => exists rows, r = JOk rows /\ map rid rows = map eid j
                   /\ (forall x, In x rows -> rname x = fst nj /\ rjob x = trace_id j)
                   /\ (forall x q, In x rows -> In q (rprev x) -> In q (map rid rows)))
                (snd nj) (snd nr)) s out
  (* exactly one row per stored span that passes the filters *)
  /\ Permutation (map rid (all_rows out)) (Rel.ids (filter (keep fm fn) (db st)))
  /\ NoDup (map rid (all_rows out))
  (* whole traces: every stored filtered span of the trace of a row is a row of the same result *)
  /\ (forall nm res rows x n, In (nm, res) out -> In (JOk rows) res -> In x rows ->
        In n (db st) -> keep fm fn n = true -> nname n = rname x -> njob n = rjob x ->
        In (nid n) (map rid rows))
  (* no row mentions an id of another trace *)
  /\ (forall x q, In x (all_rows out) -> In q (rprev x) ->
        exists n nq, In n (db st) /\ In nq (db st) /\ nid n = rid x /\ nid nq = q
                     /\ njob nq = njob n /\ nname nq = nname n).
Proof.
  intros async cfg fm fn st Hnd HT s out.
  destruct (stream_exact_model st fm fn) as [Ha [Hb [Hc [[Hd1 Hd2] [_ Hf]]]]].
  fold s in Ha, Hb, Hc, Hd1, Hd2, Hf.
  assert (Hfst : map fst out = map fst s).
  { unfold out, otel_to_pv_model. rewrite map_map. reflexivity. }
  assert (Hids : map rid (all_rows out) = map eid (flatten s)) by (apply all_rows_ids; exact HT).
  assert (Hperm : Permutation (map rid (all_rows out)) (Rel.ids (filter (keep fm fn) (db st)))).
  { rewrite Hids, eid_nid. unfold Rel.ids. apply Permutation_map. exact Hd2. }
  assert (Hdb : forall nm jobs j e, In (nm, jobs) s -> In j jobs -> In e j ->
                  In (fst e) (db st) /\ keep fm fn (fst e) = true).
  { intros nm jobs j e H1 H2 H3. apply filter_In. eapply Permutation_in; [exact Hd2|].
    apply in_map. eapply in_flatten; eassumption. }
  split; [exact Hfst|]. split; [rewrite Hfst; exact Ha|]. split.
  { intros nm jobs Hin. destruct (Hb nm jobs Hin) as [Hs _].
    erewrite map_ext; [exact Hs|]. intros [|[n cs] j]; reflexivity. }
  split.
  { unfold out, otel_to_pv_model. apply Forall2_map_r. intros [nm jobs] Hin. cbn [fst snd].
    split; [reflexivity|]. apply Forall2_map_r. intros j Hj.
    destruct (stream_job_rows async (fst (cfg nm)) (snd (cfg nm)) fm fn st nm jobs j HT Hin Hj)
      as [rows [Hs Hrest]]. exists rows. split; [exact Hs|exact Hrest]. }
  split; [exact Hperm|]. split.
  { eapply Permutation_NoDup; [apply Permutation_sym; exact Hperm|].
    unfold Rel.ids. apply NoDup_map_filter. exact Hnd. }
  split.
  { intros nm res rows x n Hres Hrows Hx Hn Hk Hname Hjob.
    destruct (out_inv async cfg s nm res rows Hres Hrows) as [jobs [j [Hin [Hj Hs]]]].
    destruct (stream_job_rows async (fst (cfg nm)) (snd (cfg nm)) fm fn st nm jobs j HT Hin Hj)
      as [rows' [Hs' [Hrid [Hlab _]]]].
    rewrite Hs in Hs'. inversion Hs'; subst rows'.
    destruct (Hlab x Hx) as [Hxn Hxj].
    destruct j as [|e0 j']; [destruct rows; [contradiction|discriminate]|].
    cbn [trace_id] in Hxj.
    destruct (Hc nm jobs (e0 :: j') e0 Hin Hj (or_introl eq_refl)) as [Hnm0 _].
    rewrite Hrid, eid_nid. apply in_map.
    assert (H0 : In (fst e0) (map fst (e0 :: j'))) by (left; reflexivity).
    apply (Hf nm jobs (e0 :: j') (fst e0) Hin Hj H0 n).
    - unfold s in Hd1. rewrite <- Hd1. eapply Permutation_in; [apply Permutation_sym; exact Hd2|].
      apply filter_In. split; assumption.
    - congruence.
    - congruence. }
  { intros x q Hx Hq.
    destruct (all_rows_inv out x Hx) as [nm [res [rows [Hres [Hrows Hxr]]]]].
    destruct (out_inv async cfg s nm res rows Hres Hrows) as [jobs [j [Hin [Hj Hs]]]].
    destruct (stream_job_rows async (fst (cfg nm)) (snd (cfg nm)) fm fn st nm jobs j HT Hin Hj)
      as [rows' [Hs' [Hrid [_ Hprev]]]].
    rewrite Hs in Hs'. inversion Hs'; subst rows'.
    assert (H1 : In (rid x) (map eid j)) by (rewrite <- Hrid; apply in_map; exact Hxr).
    assert (H2 : In q (map eid j)) by (rewrite <- Hrid; eapply Hprev; eassumption).
    apply in_map_iff in H1. destruct H1 as [e [He1 He]].
    apply in_map_iff in H2. destruct H2 as [eq [Hq1 Heq]].
    exists (fst e), (fst eq).
    split; [apply (Hdb nm jobs j e Hin Hj He)|]. split; [apply (Hdb nm jobs j eq Hin Hj Heq)|].
    split; [exact He1|]. split; [exact Hq1|].
    destruct (Hc nm jobs j e Hin Hj He) as [Hn1 Hsame].
    destruct (Hc nm jobs j eq Hin Hj Heq) as [Hn2 _].
    split; [apply Hsame; exact Heq|congruence]. }
Qed.

(** ** non-vacuity: the store of Store/StreamProofs.v (nine spans, five traces, three workflows,
    both filters active) *)
Example ex_store_ok :
  NoDup (Rel.ids (db ex_store)) /\ StoreTrees ex_fm ex_fn ex_store.
Proof.
  split; [apply nodupb_spec; vm_compute; reflexivity|].
  apply store_treesb_spec. vm_compute. reflexivity.
Qed.

Example ex_store_rows :
  map (fun nr => (fst nr, map (fun r => map (fun x => (rid x, rprev x, rjob x)) (rows_of_result r)) (snd nr)))
      (otel_to_pv_model false (fun _ => ([], [])) (stream ex_fm ex_fn ex_store))
  = [ (1, [ [ (9, [4], 1); (4, [], 1); (2, [9], 1) ]; [ (7, [], 2); (5, [7], 2) ] ]);
      (2, [ [ (3, [], 3); (1, [3], 3) ] ]) ]%positive.
Proof. vm_compute. reflexivity. Qed.

(* ------------------------------------------------------------------------------------------ *)
(** * 13. (d) Irregular inputs: exactly when a job is skipped, fails, or is sequenced *)

(** the child-id graph of a dict *)
Definition kidmap (d : list oevent) : list (positive * list positive) :=
  map (fun e => (eid e, ekids e)) d.

(** [Term g i]: the recursion of sequence_otel_event_ancestors started at [i] terminates without a
    KeyError: every child id met is a key, and no cycle of child lists is met *)
Inductive Term (g : list (positive * list positive)) : positive -> Prop :=
| Term_intro i cs : lookup i g = Some cs -> (forall c, In c cs -> Term g c) -> Term g i.

(** [Reaches g i j]: [j] is [i] or is met by the recursion started at [i] *)
Inductive Reaches (g : list (positive * list positive)) : positive -> positive -> Prop :=
| reaches_refl i : Reaches g i i
| reaches_step i cs c j : lookup i g = Some cs -> In c cs -> Reaches g c j -> Reaches g i j.

(** exactly one parentless entry, the recursion from it terminates and meets every entry *)
Definition Sequencable (d : list oevent) : Prop :=
  exists r, filter is_root d = [r] /\ Term (kidmap d) (eid r)
            /\ forall e, In e d -> Reaches (kidmap d) (eid r) (eid e).

Definition ParentsClosed (job : list oevent) : Prop :=
  forall e p, In e job -> epar e = Some p -> In p (map eid job).

Lemma parents_present_spec job : parents_present job = true <-> ParentsClosed job.
Proof.
  unfold parents_present, ParentsClosed. rewrite forallb_forall. split.
  - intros H e p He Hp. specialize (H e He). rewrite Hp in H. apply mem_In. exact H.
  - intros H e He. destruct (epar e) as [p|] eqn:E; [|reflexivity]. apply mem_In. eapply H; eassumption.
Qed.

Lemma lookup_kidmap i d : lookup i (kidmap d) = option_map ekids (get i d).
Proof.
  induction d as [|x d IH]; [reflexivity|].
  cbn [kidmap map lookup get]. fold (kidmap d). destruct (Pos.eqb i (eid x)); [reflexivity|exact IH].
Qed.

Lemma kidmap_erase d d' : erase d' = erase d -> kidmap d' = kidmap d.
Proof. apply (erase_inv (fun e => (eid e, ekids e))). intros ty [n cs]. reflexivity. Qed.

Lemma Reaches_snoc g i j : Reaches g i j -> forall cs c, lookup j g = Some cs -> In c cs -> Reaches g i c.
Proof.
  induction 1 as [i|i cs0 c0 j Hl Hc _ IH]; intros cs c Hl' Hc'.
  - eapply reaches_step; [exact Hl'|exact Hc'|constructor].
  - eapply reaches_step; [exact Hl|exact Hc|]. eapply IH; eassumption.
Qed.

Lemma Reaches_trans g i j k : Reaches g i j -> Reaches g j k -> Reaches g i k.
Proof.
  induction 1 as [i|i cs c j Hl Hc _ IH]; intros H2; [exact H2|].
  eapply reaches_step; [exact Hl|exact Hc|]. apply IH. exact H2.
Qed.

Lemma Term_reaches g i j : Term g i -> Reaches g i j -> Term g j.
Proof.
  intros HT H. induction H as [i|i cs c j Hl Hc _ IH]; [exact HT|].
  apply IH. inversion HT as [i' cs' Hl' Hk]; subst. rewrite Hl in Hl'. inversion Hl'; subst cs'.
  apply Hk. exact Hc.
Qed.

(** an id from which the recursion terminates is not on a cycle *)
Lemma Term_acyclic g i : Term g i -> forall cs c, lookup i g = Some cs -> In c cs -> Reaches g c i -> False.
Proof.
  induction 1 as [i cs0 Hl0 _ IH]. intros cs c Hl Hc Hr.
  rewrite Hl0 in Hl. inversion Hl; subst cs0. clear Hl.
  inversion Hr as [i'|i' cs1 c1 j Hl1 Hc1 Hr1]; subst.
  - (* c = i: a self loop *)
    apply (IH i Hc cs i Hl0 Hc). constructor.
  - apply (IH c Hc cs1 c1 Hl1 Hc1).
    eapply Reaches_snoc; [exact Hr1|exact Hl0|exact Hc].
Qed.

(** ** [run_groups0]: success and what the output consists of *)
Definition is_some_l (o : option links) : bool := match o with Some _ => true | None => false end.

Lemma run_groups0_some run gs :
  (forall it q, In it (concat gs) -> exists l, run (it_id it) q = Some l) ->
  forall prev, exists r, run_groups0 run gs prev = Some r.
Proof.
  induction gs as [|g r IH]; intros H prev; [eexists; reflexivity|].
  cbn [run_groups0].
  assert (Hall : forallb (fun o : option links => match o with Some _ => true | None => false end)
                         (map (fun it => run (it_id it) prev) g) = true).
  { apply forallb_forall. intros o Ho. apply in_map_iff in Ho. destruct Ho as [it [<- Hit]].
    destruct (H it prev) as [l ->]; [cbn [concat]; apply in_or_app; left; exact Hit|reflexivity]. }
  rewrite Hall.
  destruct (IH (fun it q Hit => H it q (in_or_app _ _ _ (or_intror Hit))) (map it_id g)) as [[o2 p2] ->].
  eexists. reflexivity.
Qed.

Lemma run_groups0_inv run gs : forall prev out p',
  run_groups0 run gs prev = Some (out, p') ->
  (forall it, In it (concat gs) -> exists q l, run (it_id it) q = Some l /\ incl l out)
  /\ (forall x, In x out -> exists it q l, In it (concat gs) /\ run (it_id it) q = Some l /\ In x l).
Proof.
  induction gs as [|g r IH]; intros prev out p' H; cbn [run_groups0] in H.
  - inversion H; subst. split; [intros it []|intros x []].
  - destruct (forallb _ (map (fun it => run (it_id it) prev) g)) eqn:Hall; [|discriminate].
    destruct (run_groups0 run r (map it_id g)) as [[o2 p2]|] eqn:Er; [|discriminate].
    inversion H; subst. clear H. destruct (IH _ _ _ Er) as [IH1 IH2].
    rewrite forallb_forall in Hall.
    assert (Hg : forall it, In it g -> exists l, run (it_id it) prev = Some l).
    { intros it Hit.
      assert (Hin : In (run (it_id it) prev) (map (fun it => run (it_id it) prev) g))
        by (apply in_map_iff; exists it; split; [reflexivity|exact Hit]).
      specialize (Hall _ Hin).
      destruct (run (it_id it) prev) as [l|]; [exists l; reflexivity|discriminate Hall]. }
    split.
    + intros it Hit. cbn [concat] in Hit. apply in_app_or in Hit. destruct Hit as [Hit|Hit].
      * destruct (Hg it Hit) as [l Hl]. exists prev, l. split; [exact Hl|].
        intros x Hx. apply in_or_app. left. apply in_flat_map. exists (Some l). split; [|exact Hx].
        apply in_map_iff. exists it. split; [exact Hl|exact Hit].
      * destruct (IH1 it Hit) as [q [l [Hl Hi]]]. exists q, l. split; [exact Hl|].
        intros x Hx. apply in_or_app. right. apply Hi. exact Hx.
    + intros x Hx. apply in_app_or in Hx. destruct Hx as [Hx|Hx].
      * apply in_flat_map in Hx. destruct Hx as [o [Ho Hx]].
        apply in_map_iff in Ho. destruct Ho as [it [Hrun Hit]]. subst o.
        destruct (run (it_id it) prev) as [l|] eqn:El; [|contradiction].
        exists it, prev, l. split; [cbn [concat]; apply in_or_app; left; exact Hit|]. split; [exact El|exact Hx].
      * destruct (IH2 x Hx) as [it [q [l [Hit [Hl Hxl]]]]]. exists it, q, l.
        split; [cbn [concat]; apply in_or_app; right; exact Hit|]. split; assumption.
Qed.

(** the items the recursion iterates over are exactly the looked-up children *)
Lemma groups_items async gm kids it :
  In it (concat (event_groups async gm (map ev_item kids))) <-> exists k, In k kids /\ it = ev_item k.
Proof.
  destruct (event_groups_perm async gm (map ev_item kids)) as [Hp _]. split.
  - intros H. apply (Permutation_in _ Hp) in H. apply in_map_iff in H. destruct H as [k [<- Hk]].
    exists k. split; [exact Hk|reflexivity].
  - intros [k [Hk ->]]. apply (Permutation_in _ (Permutation_sym Hp)). apply in_map. exact Hk.
Qed.

Section Graph.
  Variables (async : bool) (m : gmap) (d : list oevent).
  Let g := kidmap d.

  Lemma lookup_g e : get (eid e) d = Some e -> lookup (eid e) g = Some (ekids e).
  Proof. intros H. unfold g. rewrite lookup_kidmap, H. reflexivity. Qed.

  Lemma lookup_g_key i cs : lookup i g = Some cs -> exists e, get i d = Some e /\ ekids e = cs.
  Proof.
    unfold g. rewrite lookup_kidmap. destruct (get i d) as [e|]; [|discriminate].
    intros H. inversion H. exists e. split; reflexivity.
  Qed.

  (** *** success implies termination and only reachable ids are emitted *)
  Lemma seq_anc_sound : forall fuel e p l,
    get (eid e) d = Some e -> seq_anc fuel async m d e p = Some l ->
    Term g (eid e) /\ forall j, In j (map fst l) -> Reaches g (eid e) j.
  Proof.
    induction fuel as [|f IH]; intros e p l He H; cbn [seq_anc] in H; [discriminate|].
    destruct (get_all d (ekids e)) as [kids|] eqn:Ek; [|discriminate].
    destruct (run_groups0 _ _ p) as [[out p']|] eqn:Er; [|discriminate].
    inversion H; subst l. clear H.
    destruct (run_groups0_inv _ _ _ _ _ Er) as [H1 H2].
    pose proof (get_all_ids _ _ _ Ek) as Hids. apply get_all_spec in Ek.
    assert (Hkid : forall k, In k kids -> get (eid k) d = Some k /\ In (eid k) (ekids e)).
    { intros k Hk. destruct (Forall2_in_r _ _ _ _ Ek Hk) as [c [Hc Hg]].
      rewrite (get_eid _ _ _ Hg). split; assumption. }
    split.
    - apply Term_intro with (cs := ekids e); [apply lookup_g; exact He|].
      intros c Hc. rewrite <- Hids in Hc. apply in_map_iff in Hc. destruct Hc as [k [<- Hk]].
      destruct (Hkid k Hk) as [Hgk _].
      destruct (H1 (ev_item k)) as [q [l' [Hrun _]]]; [apply groups_items; exists k; split; [exact Hk|reflexivity]|].
      cbn [ev_item it_id] in Hrun. rewrite Hgk in Hrun. apply (IH k q l' Hgk Hrun).
    - intros j Hj. rewrite map_app in Hj. apply in_app_or in Hj. destruct Hj as [Hj|Hj].
      + apply in_map_iff in Hj. destruct Hj as [x [<- Hx]].
        destruct (H2 x Hx) as [it [q [l' [Hit [Hrun Hxl]]]]].
        apply groups_items in Hit. destruct Hit as [k [Hk ->]].
        destruct (Hkid k Hk) as [Hgk Hc].
        cbn [ev_item it_id] in Hrun. rewrite Hgk in Hrun.
        eapply reaches_step; [apply lookup_g; exact He|exact Hc|].
        apply (IH k q l' Hgk Hrun). apply in_map. exact Hxl.
      + cbn [map fst] in Hj. destruct Hj as [<-|[]]. constructor.
  Qed.

  (** *** every reachable id is emitted *)
  Lemma seq_anc_covers i j : Reaches g i j -> forall fuel e p l,
    get i d = Some e -> seq_anc fuel async m d e p = Some l -> In j (map fst l).
  Proof.
    induction 1 as [i|i cs c j Hl Hc _ IH]; intros fuel e p l He H.
    - destruct fuel as [|f]; cbn [seq_anc] in H; [discriminate|].
      destruct (get_all d (ekids e)) as [kids|]; [|discriminate].
      destruct (run_groups0 _ _ p) as [[out p']|]; [|discriminate].
      inversion H; subst l. rewrite map_app. apply in_or_app. right. left.
      cbn [fst]. apply (get_eid _ _ _ He).
    - destruct fuel as [|f]; cbn [seq_anc] in H; [discriminate|].
      destruct (get_all d (ekids e)) as [kids|] eqn:Ek; [|discriminate].
      destruct (run_groups0 _ _ p) as [[out p']|] eqn:Er; [|discriminate].
      inversion H; subst l. clear H.
      destruct (run_groups0_inv _ _ _ _ _ Er) as [H1 _].
      pose proof (get_all_ids _ _ _ Ek) as Hids. apply get_all_spec in Ek.
      destruct (lookup_g_key i cs Hl) as [e' [He' Hcs]]. rewrite He in He'. inversion He'; subst e'.
      rewrite <- Hcs, <- Hids in Hc. apply in_map_iff in Hc. destruct Hc as [k [Hkc Hk]].
      destruct (Forall2_in_r _ _ _ _ Ek Hk) as [c' [_ Hg]].
      assert (Hgk : get c d = Some k) by (rewrite <- Hkc, (get_eid _ _ _ Hg) in *; exact Hg).
      destruct (H1 (ev_item k)) as [q [l' [Hrun Hincl]]]; [apply groups_items; exists k; split; [exact Hk|reflexivity]|].
      cbn [ev_item it_id] in Hrun. rewrite Hkc, Hgk in Hrun.
      rewrite map_app. apply in_or_app. left.
      pose proof (IH f k q l' Hgk Hrun) as Hin. apply in_map_iff in Hin. destruct Hin as [x [<- Hx]].
      apply in_map. apply Hincl. exact Hx.
  Qed.

  (** *** termination implies success with fuel = number of entries (no id repeats on a path) *)
  Lemma seq_anc_complete : forall fuel e path p,
    get (eid e) d = Some e -> Term g (eid e) ->
    NoDup (eid e :: path) -> incl (eid e :: path) (map eid d) ->
    (forall x, In x path -> Reaches g x (eid e)) ->
    (length d <= fuel + length path)%nat ->
    exists l, seq_anc fuel async m d e p = Some l.
  Proof.
    induction fuel as [|f IH]; intros e path p He HT Hnd Hincl Hreach Hlen.
    - pose proof (NoDup_incl_length Hnd Hincl) as H. rewrite map_length in H. cbn [length] in H. lia.
    - inversion HT as [i cs Hl Hkids]; subst.
      rewrite (lookup_g e He) in Hl. inversion Hl; subst cs. clear Hl.
      destruct (get_all_some d (ekids e)) as [kids Ek].
      { intros c Hc. specialize (Hkids c Hc). inversion Hkids as [i cs Hl _]; subst.
        destruct (lookup_g_key c cs Hl) as [k [Hk _]]. eapply get_in_keys. exact Hk. }
      cbn [seq_anc]. rewrite Ek.
      pose proof (get_all_ids _ _ _ Ek) as Hids. apply get_all_spec in Ek.
      match goal with |- context [run_groups0 ?run ?gs p] =>
        assert (Hr : exists r, run_groups0 run gs p = Some r);
          [apply run_groups0_some|destruct Hr as [[out p'] Hr]; rewrite Hr; eexists; reflexivity] end.
      intros it q Hit. apply groups_items in Hit. destruct Hit as [k [Hk ->]].
      cbn [ev_item it_id].
      destruct (Forall2_in_r _ _ _ _ Ek Hk) as [c [Hc Hg]].
      pose proof (get_eid _ _ _ Hg) as Hkc. rewrite <- Hkc in Hg, Hc. rewrite Hg.
      apply (IH k (eid e :: path) q Hg (Hkids _ Hc)).
      + constructor; [|exact Hnd]. intros Hin.
        apply (Term_acyclic g (eid e) HT (ekids e) (eid k) (lookup_g e He) Hc).
        destruct Hin as [<-|Hin]; [constructor|apply Hreach; exact Hin].
      + intros x [<-|Hx]; [eapply get_in_keys; exact Hg|apply Hincl; exact Hx].
      + intros x [<-|Hx].
        * eapply reaches_step; [apply lookup_g; exact He|exact Hc|constructor].
        * eapply Reaches_snoc; [apply Hreach; exact Hx|apply lookup_g; exact He|exact Hc].
      + cbn [length]. lia.
  Qed.
End Graph.

(* ------------------------------------------------------------------------------------------ *)
(** * 14. (d) The three outcomes, as iff statements over the job *)

Lemma scan_some dk cts cs : (forall c, In c cs -> In c (map eid dk)) -> exists b, scan_children dk cts cs = Some b.
Proof.
  induction cs as [|c cs IH]; intros H; [exists false; reflexivity|].
  cbn [scan_children]. destruct (get_Some_in c dk (H c (or_introl eq_refl))) as [k ->].
  destruct (mem (ety k) cts); [exists true; reflexivity|].
  apply IH. intros c' Hc'. apply H. right. exact Hc'.
Qed.

(** the rename pass cannot fail when every listed child id is a key *)
Lemma rename_closed rs d : (forall e c, In e d -> In c (ekids e) -> In c (map eid d)) ->
  exists d', rename_job rs d = Some d'.
Proof.
  intros Hc. unfold rename_job.
  assert (H : forall order dk, erase dk = erase d ->
              exists d', fold_left (rename_step rs) order (Some dk) = Some d').
  { induction order as [|i order IH]; intros dk Hk; [exists dk; reflexivity|].
    cbn [fold_left].
    assert (Hs : exists d1, rename_step rs (Some dk) i = Some d1).
    { unfold rename_step. destruct (get i dk) as [e|] eqn:Eg; [|exists dk; reflexivity].
      destruct (lookup (ety e) rs) as [[mapped cts]|]; [|exists dk; reflexivity].
      destruct (scan_some dk cts (ekids e)) as [b ->].
      - intros c Hcin. rewrite (erase_ids _ _ Hk).
        destruct (erase_get _ _ _ _ Hk Eg) as [e0 [He0 Hee]].
        destruct (set_ty_fields _ _ _ Hee) as [_ [_ [Hkids _]]]. rewrite Hkids in Hcin.
        apply (Hc e0 c (get_In _ _ _ He0) Hcin).
      - destruct b; eexists; reflexivity. }
    destruct Hs as [d1 Hs]. rewrite Hs. apply IH.
    rewrite (rename_step_erase _ _ _ _ Hs). exact Hk. }
  apply H. reflexivity.
Qed.

Lemma rows_of_dict_inv d l rows : rows_of_dict d l = Some rows ->
  forall e, In e d -> exists ps, last_link (eid e) l = Some ps.
Proof.
  revert rows. induction d as [|x d IH]; intros rows H e He; [contradiction|].
  cbn [rows_of_dict] in H. destruct (last_link (eid x) l) as [ps|] eqn:El; [|discriminate].
  destruct (rows_of_dict d l) as [rs'|] eqn:Er; [|discriminate].
  destruct He as [<-|He]; [exists ps; exact El|]. eapply IH; [reflexivity|exact He].
Qed.

Lemma last_link_keys i l : (exists ps, last_link i l = Some ps) <-> In i (map fst l).
Proof.
  unfold last_link. split.
  - intros [ps H]. apply lookup_In in H. apply in_rev in H.
    apply in_map_iff. exists (i, ps). split; [reflexivity|exact H].
  - intros H. apply lookup_in_keys. rewrite map_rev. apply in_rev. rewrite rev_involutive. exact H.
Qed.

Lemma sequence_job_skipped async m rs job :
  sequence_job async m rs job = JSkipped <-> parents_present job = false.
Proof.
  unfold sequence_job. destruct (parents_present job); [|split; reflexivity].
  split; [|discriminate].
  destruct (rename_job rs (dict_of job)) as [d'|]; [|discriminate].
  destruct (filter is_root d') as [|r [|r2 rest]]; try discriminate.
  destruct (seq_anc _ _ _ _ _ _) as [l|]; [|discriminate].
  destruct (rows_of_dict d' l); discriminate.
Qed.

(** ** JSkipped: exactly the OTelTreeDisconnectedError case *)
Theorem job_skipped_iff : forall async m rs job,
  sequence_job async m rs job = JSkipped <->
  exists e p, In e job /\ epar e = Some p /\ ~ In p (map eid job).
Proof.
  intros async m rs job. rewrite sequence_job_skipped. unfold parents_present.
  rewrite forallb_false. split.
  - intros [e [He Hf]]. destruct (epar e) as [p|] eqn:E; [|discriminate].
    exists e, p. split; [exact He|]. split; [exact E|]. apply mem_false. exact Hf.
  - intros [e [p [He [Hp Hn]]]]. exists e. split; [exact He|]. rewrite Hp. apply mem_false. exact Hn.
Qed.

(** ** JOk: exactly the sequencable dicts (whatever the mode, the group map and the rules) *)
Theorem job_ok_iff : forall async m rs job,
  (exists rows, sequence_job async m rs job = JOk rows) <->
  ParentsClosed job /\ Sequencable (dict_of job).
Proof.
  intros async m rs job. set (d := dict_of job).
  assert (Hnd : NoDup (map eid d)) by apply dedup_keys_nodup.
  split.
  - intros [rows H]. unfold sequence_job in H. fold d in H.
    destruct (parents_present job) eqn:Epp; [|discriminate].
    destruct (rename_job rs d) as [d'|] eqn:Eren; [|discriminate].
    destruct (filter is_root d') as [|r' [|r2 rest]] eqn:Eroot; try discriminate.
    destruct (seq_anc (length d') async m d' r' []) as [l|] eqn:Eseq; [|discriminate].
    destruct (rows_of_dict d' l) as [rows'|] eqn:Erows; [|discriminate].
    split; [apply parents_present_spec; exact Epp|].
    pose proof (rename_job_erase _ _ _ Eren) as Her.
    pose proof (erase_ids _ _ Her) as Hids.
    destruct (erase_roots d' d r' (eq_sym Her) Eroot) as [r [Hroot Hrr]].
    assert (Hr' : In r' d').
    { assert (Hx : In r' (filter is_root d')) by (rewrite Eroot; left; reflexivity).
      apply filter_In in Hx. tauto. }
    assert (Hget : get (eid r') d' = Some r') by (apply get_nodup; [rewrite Hids; exact Hnd|exact Hr']).
    destruct (seq_anc_sound async m d' _ _ _ _ Hget Eseq) as [HT Honly].
    rewrite (kidmap_erase _ _ Her) in HT, Honly.
    rewrite <- (set_ty_eid _ _ _ Hrr) in HT, Honly.
    exists r. split; [exact Hroot|]. split; [exact HT|].
    intros e He. apply Honly.
    assert (Hk : In (eid e) (map eid d')) by (rewrite Hids; apply in_map; exact He).
    apply in_map_iff in Hk. destruct Hk as [e' [Heq He']]. rewrite <- Heq.
    apply last_link_keys. eapply rows_of_dict_inv; eassumption.
  - intros [Hpc [r [Hroot [HT Hreach]]]].
    assert (Hr : In r d).
    { assert (Hx : In r (filter is_root d)) by (rewrite Hroot; left; reflexivity).
      apply filter_In in Hx. tauto. }
    assert (Hclosed : forall e c, In e d -> In c (ekids e) -> In c (map eid d)).
    { intros e c He Hc.
      pose proof (Term_reaches _ _ _ HT (Hreach e He)) as HTe.
      inversion HTe as [i cs Hl Hkids]; subst.
      rewrite (lookup_g d e (get_nodup _ _ Hnd He)) in Hl. inversion Hl; subst cs.
      specialize (Hkids c Hc). inversion Hkids as [i cs Hl2 _]; subst.
      destruct (lookup_g_key d c cs Hl2) as [k [Hk _]]. eapply get_in_keys. exact Hk. }
    destruct (rename_closed rs d Hclosed) as [d' Eren].
    pose proof (rename_job_erase _ _ _ Eren) as Her.
    pose proof (erase_ids _ _ Her) as Hids.
    destruct (erase_roots d d' r Her Hroot) as [r' [Eroot Hrr]].
    assert (Hr' : In r' d').
    { assert (Hx : In r' (filter is_root d')) by (rewrite Eroot; left; reflexivity).
      apply filter_In in Hx. tauto. }
    assert (Hnd' : NoDup (map eid d')) by (rewrite Hids; exact Hnd).
    assert (Hget : get (eid r') d' = Some r') by (apply get_nodup; assumption).
    assert (HT' : Term (kidmap d') (eid r')).
    { rewrite (kidmap_erase _ _ Her), (set_ty_eid _ _ _ Hrr). exact HT. }
    destruct (seq_anc_complete async m d' (length d') r' [] [] Hget HT') as [l Eseq].
    { constructor; [intros []|constructor]. }
    { intros x [<-|[]]. apply in_map. exact Hr'. }
    { intros x []. }
    { lia. }
    destruct (rows_of_dict_some (fun i => last_link i l) d' l) as [rows [Erows _]].
    { reflexivity. }
    { intros e' He'. apply last_link_keys.
      apply (seq_anc_covers async m d' (eid r') (eid e')) with (fuel := length d') (e := r') (p := []);
        [|exact Hget|exact Eseq].
      rewrite (kidmap_erase _ _ Her), (set_ty_eid _ _ _ Hrr).
      assert (Hk : In (eid e') (map eid d)) by (rewrite <- Hids; apply in_map; exact He').
      apply in_map_iff in Hk. destruct Hk as [e [Heq He]]. rewrite <- Heq. apply Hreach. exact He. }
    exists rows. unfold sequence_job. fold d.
    rewrite (proj2 (parents_present_spec job) Hpc), Eren, Eroot, Eseq, Erows. reflexivity.
Qed.

(** ** JError: parents present but the dict is not sequencable -
    ValueError (zero or several parentless entries), KeyError (a child id met by the recursion,
    or scanned by the rename pass, is not a key; or an entry is not met by the recursion) or
    RecursionError (a cycle of child lists is met) *)
Theorem job_error_iff : forall async m rs job,
  sequence_job async m rs job = JError <->
  ParentsClosed job /\ ~ Sequencable (dict_of job).
Proof.
  intros async m rs job. split.
  - intros H. split.
    + apply parents_present_spec. destruct (parents_present job) eqn:E; [reflexivity|].
      apply (sequence_job_skipped async m rs) in E. congruence.
    + intros Hs.
      assert (Hp : ParentsClosed job).
      { apply parents_present_spec. destruct (parents_present job) eqn:E; [reflexivity|].
        apply (sequence_job_skipped async m rs) in E. congruence. }
      destruct (proj2 (job_ok_iff async m rs job) (conj Hp Hs)) as [rows Hr]. congruence.
  - intros [Hp Hn]. destruct (sequence_job async m rs job) as [| |rows] eqn:E; [|reflexivity|].
    + apply sequence_job_skipped in E. apply parents_present_spec in Hp. congruence.
    + exfalso. apply Hn. apply (proj1 (job_ok_iff async m rs job)). exists rows. exact E.
Qed.

(** the class of the outcome depends on ids, parent pointers and child lists only *)
Corollary outcome_class_shape : forall async m rs async' m' rs' job,
  match sequence_job async m rs job, sequence_job async' m' rs' job with
  | JSkipped, JSkipped | JError, JError | JOk _, JOk _ => True
  | _, _ => False
  end.
Proof.
  intros async m rs async' m' rs' job.
  destruct (sequence_job async m rs job) as [| |rows] eqn:E1.
  - apply sequence_job_skipped in E1. apply (sequence_job_skipped async' m' rs') in E1. rewrite E1. exact I.
  - apply job_error_iff in E1. apply (job_error_iff async' m' rs') in E1. rewrite E1. exact I.
  - assert (H : exists rows, sequence_job async m rs job = JOk rows) by (exists rows; exact E1).
    apply job_ok_iff in H. apply (job_ok_iff async' m' rs') in H. destruct H as [rows' ->]. exact I.
Qed.

(** ** one Example per modelled Python exception *)
Local Open Scope positive_scope.

(** OTelTreeDisconnectedError -> the job is skipped with a warning *)
Example ex_skipped :
  sequence_job false [] [] [ev 1 None 7 2 1 0 10 1 [2]; ev 2 (Some 9) 7 2 2 1 2 1 []] = JSkipped.
Proof. vm_compute. reflexivity. Qed.

(** ValueError: two parentless events *)
Example ex_two_roots :
  sequence_job false [] [] [ev 1 None 7 2 1 0 10 1 [2]; ev 2 (Some 1) 7 2 2 1 2 1 []; ev 3 None 7 2 3 3 4 1 []]
  = JError.
Proof. vm_compute. reflexivity. Qed.

(** ValueError: no parentless event (the empty stream, and a span that is its own parent) *)
Example ex_no_root :
  sequence_job false [] [] [] = JError
  /\ sequence_job false [] [] [ev 1 (Some 1) 7 2 1 0 10 1 []] = JError.
Proof. split; vm_compute; reflexivity. Qed.

(** KeyError in sequence_otel_event_ancestors: child id 3 is listed but not streamed *)
Example ex_child_missing :
  let job := [ev 1 None 7 2 1 0 10 1 [2; 3]; ev 2 (Some 1) 7 2 2 1 2 1 []] in
  sequence_job false [] [] job = JError
  /\ filter is_root job = [ev 1 None 7 2 1 0 10 1 [2; 3]]
  /\ seq_anc 2 false [] job (ev 1 None 7 2 1 0 10 1 [2; 3]) [] = None.
Proof. repeat split; vm_compute; reflexivity. Qed.

(** KeyError already in update_event_type_based_on_children (raised by the OUTER generator): the
    same job with a rule on the root's type *)
Example ex_child_missing_rename :
  let job := [ev 1 None 7 2 1 0 10 1 [2; 3]; ev 2 (Some 1) 7 2 2 1 2 1 []] in
  sequence_job false [] [(1, (9, [5]))] job = JError /\ rename_job [(1, (9, [5]))] (dict_of job) = None.
Proof. split; vm_compute; reflexivity. Qed.

(** KeyError in the final loop of sequence_otel_event_job: span 2 is streamed (its parent exists) but
    is in no child list, the recursion from the root never reaches it *)
Example ex_unreachable :
  let job := [ev 1 None 7 2 1 0 10 1 []; ev 2 (Some 1) 7 2 2 1 2 1 []] in
  sequence_job false [] [] job = JError
  /\ seq_anc 2 false [] job (ev 1 None 7 2 1 0 10 1 []) [] = Some [(1, [])]
  /\ rows_of_dict job [(1, [])] = None.
Proof. repeat split; vm_compute; reflexivity. Qed.

(** RecursionError: the child lists form a cycle *)
Example ex_cycle :
  let job := [ev 1 None 7 2 1 0 10 1 [2]; ev 2 (Some 1) 7 2 2 1 2 1 [1]] in
  sequence_job false [] [] job = JError /\ get_all job [1; 2] = Some job
  /\ ~ Term (kidmap job) 1.
Proof.
  split; [vm_compute; reflexivity|]. split; [vm_compute; reflexivity|].
  intros H. apply (Term_acyclic _ _ H [2] 2); [reflexivity|left; reflexivity|].
  eapply reaches_step; [reflexivity|left; reflexivity|constructor].
Qed.

(** no exception although the job is not a tree: a child id listed twice is sequenced twice and ends
    up as its own predecessor (the implementation emits exactly these rows) *)
Example ex_dup_child :
  let job := [ev 1 None 7 2 1 0 10 1 [2; 2]; ev 2 (Some 1) 7 2 2 1 2 1 []] in
  sequence_job false [] [] job
  = JOk [ (1, 1, [2], "1970-01-01T00:00:00.000000Z"%string, 7, 2, 1);
          (2, 2, [2], "1970-01-01T00:00:00.000000Z"%string, 7, 2, 1) ]
  /\ build_tree job = None.
Proof. split; vm_compute; reflexivity. Qed.

(** an event id streamed twice: the dict keeps the first position and the last value *)
Example ex_dup_event_id :
  let job := [ev 1 None 7 2 1 0 10 1 [2]; ev 2 (Some 1) 7 2 2 1 2 1 []; ev 2 (Some 1) 7 2 3 1 5 1 []] in
  dict_of job = [ev 1 None 7 2 1 0 10 1 [2]; ev 2 (Some 1) 7 2 3 1 5 1 []]
  /\ sequence_job false [] [] job
     = JOk [ (1, 1, [2], "1970-01-01T00:00:00.000000Z"%string, 7, 2, 1);
             (2, 3, [], "1970-01-01T00:00:00.000000Z"%string, 7, 2, 1) ].
Proof. split; vm_compute; reflexivity. Qed.

(* ------------------------------------------------------------------------------------------ *)
(** * 15. Corollaries and remaining non-vacuity witnesses *)

Corollary TreeJob_sequencable job : TreeJob job -> ParentsClosed job /\ Sequencable job.
Proof.
  intros HT. destruct (sequence_job_ok false [] [] job HT) as [t [rows [_ [Hs _]]]].
  assert (H : exists rows, sequence_job false [] [] job = JOk rows) by (exists rows; exact Hs).
  apply job_ok_iff in H. rewrite (dict_of_nodup job (tj_ids job HT)) in H. exact H.
Qed.

(** a sequencable job need not be a tree (see [ex_dup_child]) *)
Example sequencable_not_tree :
  let job := [ev 1 None 7 2 1 0 10 1 [2; 2]; ev 2 (Some 1%positive) 7 2 2 1 2 1 []]%positive in
  Sequencable (dict_of job) /\ ~ TreeJob job.
Proof.
  cbv zeta. split.
  - assert (H : exists rows, sequence_job false [] []
                 [ev 1 None 7 2 1 0 10 1 [2; 2]; ev 2 (Some 1%positive) 7 2 2 1 2 1 []]%positive = JOk rows).
    { eexists. vm_compute. reflexivity. }
    apply job_ok_iff in H. tauto.
  - intros HT. apply tree_jobb_complete in HT. vm_compute in HT. discriminate.
Qed.

Example ex_job_hyps : build_tree ex_job <> None /\ parents_present ex_job = true.
Proof. split; [vm_compute; discriminate|vm_compute; reflexivity]. Qed.

(** the rows of [ex_job] are those of C08's [to_pv] on the built tree *)
Example ex_job_to_pv :
  forall t, build_tree ex_job = Some t ->
  exists rows, sequence_job true [(1, [(2, 7); (9, 7)])]%positive [(3, (9, [4]))]%positive ex_job = JOk rows
    /\ map row3_to_row rows
       = to_pv true [(1, [(2, 7); (9, 7)])]%positive [(3, (9, [4]))]%positive (map eid ex_job) t.
Proof. intros t Ht. apply sequence_job_to_pv; [exact Ht|vm_compute; reflexivity]. Qed.
