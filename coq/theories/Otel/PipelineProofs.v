(** End-to-end theorems on the OTel side: the glue of [Pipeline.v] composed with the stream
    theorems (Store/StreamProofs.v, C12) and the sequencer theorems (Otel/SequencerProofs.v, C08). *)
From Coq Require Import String ZArith List Bool Lia Permutation Sorted.
From V Require Import Store.Rel Store.Stream Store.StreamProofs.
From V Require Import Otel.Span Otel.Sequencer Otel.SequencerSpec Otel.SequencerProofs Otel.GroupProofs
                      Otel.RenameProofs Otel.SeqCheck Time.PvTime Otel.Pipeline Otel.PipelineCheck.
Import ListNotations.
Open Scope Z_scope.

(* ------------------------------------------------------------------------------------------ *)
(** * 0. Basics: dict lookup, boolean reflections *)

Lemma nodupb_spec l : nodupb l = true <-> NoDup l.
Proof.
  induction l as [|x l IH]; cbn [nodupb].
  - split; [constructor|reflexivity].
  - rewrite andb_true_iff, negb_true_iff, IH. split.
    + intros [Hm Hn]. constructor; [|exact Hn]. intros Hin. apply memp_spec in Hin. congruence.
    + intros H. inversion H as [|x' l' Hx Hn]; subst. split; [|exact Hn].
      destruct (memp x l) eqn:E; [|reflexivity]. apply memp_spec in E. contradiction.
Qed.

Lemma get_eid i d e : get i d = Some e -> eid e = i.
Proof.
  induction d as [|x d IH]; cbn [get]; [discriminate|].
  destruct (Pos.eqb_spec i (eid x)) as [->|Hne]; intros H.
  - inversion H; subst. reflexivity.
  - apply IH. exact H.
Qed.

Lemma get_In i d e : get i d = Some e -> In e d.
Proof.
  induction d as [|x d IH]; cbn [get]; [discriminate|].
  destruct (Pos.eqb i (eid x)); intros H.
  - inversion H; subst. left. reflexivity.
  - right. apply IH. exact H.
Qed.

Lemma get_None i d : get i d = None <-> ~ In i (map eid d).
Proof.
  induction d as [|x d IH]; cbn [get map In].
  - tauto.
  - destruct (Pos.eqb_spec i (eid x)) as [->|Hne].
    + split; [discriminate|]. intros H. exfalso. apply H. left. reflexivity.
    + rewrite IH. split.
      * intros H [Heq|Hin]; [apply Hne; symmetry; exact Heq|exact (H Hin)].
      * intros H Hin. apply H. right. exact Hin.
Qed.

Lemma get_Some_in i d : In i (map eid d) -> exists e, get i d = Some e.
Proof.
  intros H. destruct (get i d) as [e|] eqn:E; [exists e; reflexivity|].
  apply get_None in E. contradiction.
Qed.

Lemma get_in_keys i d e : get i d = Some e -> In i (map eid d).
Proof.
  intros H. rewrite <- (get_eid _ _ _ H). apply in_map. eapply get_In. exact H.
Qed.

Lemma get_nodup d e : NoDup (map eid d) -> In e d -> get (eid e) d = Some e.
Proof.
  induction d as [|x d IH]; cbn [map get]; intros Hnd Hin; [contradiction|].
  inversion Hnd as [|x' l' Hx Hnd']; subst.
  destruct Hin as [->|Hin].
  - rewrite Pos.eqb_refl. reflexivity.
  - destruct (Pos.eqb_spec (eid e) (eid x)) as [Heq|Hne].
    + exfalso. apply Hx. rewrite <- Heq. apply in_map. exact Hin.
    + apply IH; assumption.
Qed.

Lemma get_all_spec d cs ks :
  get_all d cs = Some ks <-> Forall2 (fun c k => get c d = Some k) cs ks.
Proof.
  revert ks. induction cs as [|c cs IH]; intros ks; cbn [get_all].
  - split.
    + intros H. inversion H. constructor.
    + intros H. inversion H. reflexivity.
  - split.
    + destruct (get c d) as [k|] eqn:E; [|discriminate].
      destruct (get_all d cs) as [l|] eqn:E2; [|discriminate].
      intros H. inversion H; subst. constructor; [exact E|]. apply IH. reflexivity.
    + intros H. inversion H as [|c' k cs' ks' Hk Hr]; subst. rewrite Hk.
      apply IH in Hr. rewrite Hr. reflexivity.
Qed.

Lemma get_all_ids d cs ks : get_all d cs = Some ks -> map eid ks = cs.
Proof.
  intros H. apply get_all_spec in H. induction H as [|c k cs ks Hk _ IH]; [reflexivity|].
  cbn [map]. rewrite IH, (get_eid _ _ _ Hk). reflexivity.
Qed.

Lemma get_all_some d cs : (forall c, In c cs -> In c (map eid d)) -> exists ks, get_all d cs = Some ks.
Proof.
  induction cs as [|c cs IH]; intros H; cbn [get_all].
  - exists []. reflexivity.
  - destruct (get_Some_in c d (H c (or_introl eq_refl))) as [k Hk]. rewrite Hk.
    destruct IH as [ks Hks]; [intros c' Hc'; apply H; right; exact Hc'|].
    rewrite Hks. exists (k :: ks). reflexivity.
Qed.

Lemma get_all_none d cs : get_all d cs = None <-> exists c, In c cs /\ ~ In c (map eid d).
Proof.
  induction cs as [|c cs IH]; cbn [get_all].
  - split; [discriminate|]. intros [c [[] _]].
  - destruct (get c d) as [k|] eqn:E.
    + destruct (get_all d cs) as [l|] eqn:E2.
      * split; [discriminate|]. intros [c' [[<-|Hc'] Hn]].
        -- exfalso. apply Hn. eapply get_in_keys. exact E.
        -- assert (Hx : @None (list oevent) = None) by reflexivity.
           destruct IH as [_ IH2]. discriminate IH2. exists c'. split; assumption.
      * split; [|reflexivity]. intros _. destruct IH as [IH1 _].
        destruct (IH1 eq_refl) as [c' [Hc' Hn]]. exists c'. split; [right; exact Hc'|exact Hn].
    + split; [|reflexivity]. intros _. exists c. split; [left; reflexivity|].
      apply get_None. exact E.
Qed.

Lemma map_opt_spec {A B} (f : A -> option B) l ys :
  map_opt f l = Some ys <-> Forall2 (fun x y => f x = Some y) l ys.
Proof.
  revert ys. induction l as [|x l IH]; intros ys; cbn [map_opt].
  - split.
    + intros H. inversion H. constructor.
    + intros H. inversion H. reflexivity.
  - split.
    + destruct (f x) as [y|] eqn:E; [|discriminate].
      destruct (map_opt f l) as [r|] eqn:E2; [|discriminate].
      intros H. inversion H; subst. constructor; [exact E|]. apply IH. reflexivity.
    + intros H. inversion H as [|x' y l' ys' Hy Hr]; subst. rewrite Hy.
      apply IH in Hr. rewrite Hr. reflexivity.
Qed.

Lemma Forall2_len {A B} (R : A -> B -> Prop) l l' : Forall2 R l l' -> length l = length l'.
Proof. induction 1; cbn [length]; congruence. Qed.

Lemma Forall2_in_r {A B} (R : A -> B -> Prop) l l' y :
  Forall2 R l l' -> In y l' -> exists x, In x l /\ R x y.
Proof.
  induction 1 as [|a b l l' Hab _ IH]; intros Hin; [contradiction|].
  destruct Hin as [<-|Hin].
  - exists a. split; [left; reflexivity|exact Hab].
  - destruct (IH Hin) as [x [Hx Hr]]. exists x. split; [right; exact Hx|exact Hr].
Qed.

Lemma Forall2_in_l {A B} (R : A -> B -> Prop) l l' x :
  Forall2 R l l' -> In x l -> exists y, In y l' /\ R x y.
Proof.
  induction 1 as [|a b l l' Hab _ IH]; intros Hin; [contradiction|].
  destruct Hin as [<-|Hin].
  - exists b. split; [left; reflexivity|exact Hab].
  - destruct (IH Hin) as [y [Hy Hr]]. exists y. split; [right; exact Hy|exact Hr].
Qed.

(* ------------------------------------------------------------------------------------------ *)
(** * 1. Span trees: nodes, ids *)

Lemma ids_nodes t : ids t = map sid (nodes t).
Proof.
  induction t as [i ty st en pl kids IH] using span_ind'.
  cbn [ids nodes map sid]. f_equal.
  induction IH as [|k kids Hk _ IHk]; [reflexivity|].
  cbn [flat_map]. rewrite map_app, Hk, IHk. reflexivity.
Qed.

Lemma in_ids_node t i : In i (ids t) <-> exists s, In s (nodes t) /\ sid s = i.
Proof.
  rewrite ids_nodes, in_map_iff. split; intros [s [H1 H2]]; exists s; tauto.
Qed.

Lemma node_self t : In t (nodes t).
Proof. destruct t. left. reflexivity. Qed.

Lemma nodes_kid t k s : In k (skids t) -> In s (nodes k) -> In s (nodes t).
Proof.
  destruct t as [i ty st en pl kids]. cbn [skids nodes]. intros Hk Hs.
  right. apply in_flat_map. exists k. split; assumption.
Qed.

Lemma nodes_trans t : forall s x, In s (nodes t) -> In x (nodes s) -> In x (nodes t).
Proof.
  induction t as [i ty st en pl kids IH] using span_ind'. intros s x Hs Hx.
  cbn [nodes] in Hs. destruct Hs as [<-|Hs]; [exact Hx|].
  apply in_flat_map in Hs. destruct Hs as [k [Hk Hs]].
  rewrite Forall_forall in IH. cbn [nodes]. right. apply in_flat_map.
  exists k. split; [exact Hk|]. eapply IH; eassumption.
Qed.

Lemma nodes_skids t s k : In s (nodes t) -> In k (skids s) -> In k (nodes t).
Proof.
  intros Hs Hk. eapply nodes_trans; [exact Hs|].
  eapply nodes_kid; [exact Hk|apply node_self].
Qed.

Lemma nodes_ids_incl t s : In s (nodes t) -> incl (ids s) (ids t).
Proof.
  intros Hs i Hi. apply in_ids_node in Hi. destruct Hi as [x [Hx <-]].
  apply in_ids_node. exists x. split; [|reflexivity]. eapply nodes_trans; eassumption.
Qed.

Lemma nodes_NoDup t : forall s, NoDup (ids t) -> In s (nodes t) -> NoDup (ids s).
Proof.
  induction t as [i ty st en pl kids IH] using span_ind'. intros s Hnd Hs.
  cbn [nodes] in Hs. destruct Hs as [<-|Hs]; [exact Hnd|].
  apply in_flat_map in Hs. destruct Hs as [k [Hk Hs]].
  rewrite Forall_forall in IH. apply (IH k Hk); [|exact Hs].
  cbn [ids] in Hnd. inversion Hnd; subst. eapply NoDup_flat_map_in; eassumption.
Qed.

Lemma nodes_sid_inj t s1 s2 :
  NoDup (ids t) -> In s1 (nodes t) -> In s2 (nodes t) -> sid s1 = sid s2 -> s1 = s2.
Proof.
  rewrite ids_nodes. intros Hnd H1 H2 Heq. eapply NoDup_map_inj; eassumption.
Qed.

Lemma size_kid i ty st en pl kids k :
  In k kids -> (length (ids k) < length (ids (Span i ty st en pl kids)))%nat.
Proof.
  intros Hk. cbn [ids length]. apply in_split in Hk. destruct Hk as [l1 [l2 ->]].
  rewrite flat_map_app. cbn [flat_map]. rewrite !app_length. lia.
Qed.

(* ------------------------------------------------------------------------------------------ *)
(** * 2. [build] and [build_tree]: the tree represents the job *)

(** the node [s] carries the fields of the event [e] and its kids are [e]'s child ids in order *)
Definition matches (e : oevent) (s : span) : Prop :=
  sid s = eid e /\ sty s = ety e /\ sst s = est e /\ sen s = een e /\ spl s = njob (fst e)
  /\ map sid (skids s) = ekids e.

(** every node of [t] is the image of the dict entry with its id *)
Definition rep (d : list oevent) (t : span) : Prop :=
  forall s, In s (nodes t) -> exists e, get (sid s) d = Some e /\ matches e s.

Lemma rep_sub d t s : rep d t -> In s (nodes t) -> rep d s.
Proof. intros H Hs x Hx. apply H. eapply nodes_trans; eassumption. Qed.

Lemma build_rep d : forall fuel e t,
  get (eid e) d = Some e -> build fuel d e = Some t -> matches e t /\ rep d t.
Proof.
  induction fuel as [|f IH]; intros e t He Hb; cbn [build] in Hb; [discriminate|].
  destruct (get_all d (ekids e)) as [kids|] eqn:Ek; [|discriminate].
  destruct (map_opt (build f d) kids) as [ks|] eqn:Em; [|discriminate].
  inversion Hb; subst t. clear Hb.
  apply map_opt_spec in Em.
  pose proof (get_all_ids _ _ _ Ek) as Hids.
  apply get_all_spec in Ek.
  assert (Hkids : Forall2 (fun k tk => matches k tk /\ rep d tk) kids ks).
  { clear Hids. revert ks Em. induction Ek as [|c k cs kids' Hk _ IHk]; intros ks Em.
    - inversion Em. constructor.
    - inversion Em as [|k' tk l' ks' Hb Hr]; subst. constructor.
      + apply (IH k tk); [|exact Hb]. rewrite (get_eid _ _ _ Hk). exact Hk.
      + apply IHk. exact Hr. }
  assert (Hm : matches e (Span (eid e) (ety e) (est e) (een e) (njob (fst e)) ks)).
  { unfold matches. cbn [sid sty sst sen spl skids]. repeat split.
    rewrite <- Hids. clear -Hkids. induction Hkids as [|k tk kids ks [Hm _] _ IHk]; [reflexivity|].
    cbn [map]. rewrite IHk. destruct Hm as [-> _]. reflexivity. }
  split; [exact Hm|].
  intros s Hs. cbn [nodes] in Hs. destruct Hs as [<-|Hs].
  - exists e. split; [exact He|exact Hm].
  - apply in_flat_map in Hs. destruct Hs as [tk [Htk Hs]].
    destruct (Forall2_in_r _ _ _ _ Hkids Htk) as [k [_ [_ Hrep]]]. apply Hrep. exact Hs.
Qed.

Lemma rep_ids_incl d t : rep d t -> incl (ids t) (map eid d).
Proof.
  intros H i Hi. apply in_ids_node in Hi. destruct Hi as [s [Hs <-]].
  destruct (H s Hs) as [e [He _]]. eapply get_in_keys. exact He.
Qed.

(** everything [build_tree] checks *)
Lemma build_tree_facts job t : build_tree job = Some t ->
  NoDup (map eid job) /\ NoDup (ids t) /\ rep job t /\ Permutation (ids t) (map eid job)
  /\ exists r, filter is_root job = [r] /\ matches r t.
Proof.
  unfold build_tree. destruct (nodupb (map eid job)) eqn:En; [|discriminate].
  apply nodupb_spec in En.
  destruct (filter is_root job) as [|r [|r' l]] eqn:Er; try discriminate.
  destruct (build (length job) job r) as [t'|] eqn:Eb; [|discriminate].
  destruct (Nat.eqb (length (ids t')) (length job) && nodupb (ids t')) eqn:Ec; [|discriminate].
  intros H. inversion H; subst t'. clear H.
  apply andb_true_iff in Ec. destruct Ec as [El Hnd].
  apply Nat.eqb_eq in El. apply nodupb_spec in Hnd.
  assert (Hr : In r job).
  { assert (Hin : In r (filter is_root job)) by (rewrite Er; left; reflexivity).
    apply filter_In in Hin. tauto. }
  destruct (build_rep job _ r t (get_nodup _ _ En Hr) Eb) as [Hm Hrep].
  split; [exact En|]. split; [exact Hnd|]. split; [exact Hrep|]. split.
  - apply NoDup_Permutation_bis; [exact Hnd| |apply rep_ids_incl; exact Hrep].
    rewrite map_length, El. apply le_n.
  - exists r. split; [reflexivity|exact Hm].
Qed.

(** ** (a) build_tree_spec *)
Theorem build_tree_spec : forall job t, build_tree job = Some t ->
  Permutation (ids t) (map (fun e => nid (fst e)) job)
  /\ (forall s, In s (nodes t) ->
        exists n cs, In (n, cs) job
          /\ sid s = nid n /\ sty s = nty n /\ sst s = nst n /\ sen s = nen n /\ spl s = njob n
          /\ map sid (skids s) = cs).
Proof.
  intros job t H. destruct (build_tree_facts job t H) as [_ [_ [Hrep [Hp _]]]].
  split; [exact Hp|].
  intros s Hs. destruct (Hrep s Hs) as [[n cs] [He Hm]].
  exists n, cs. split; [eapply get_In; exact He|]. exact Hm.
Qed.

(* ------------------------------------------------------------------------------------------ *)
(** * 3. The grouping code does not look at [it_run] *)

Definition strip (x : item) : item :=
  {| it_id := it_id x; it_ty := it_ty x; it_st := it_st x; it_en := it_en x; it_run := fun _ => [] |}.

Lemma filter_map_comm {A B} (f : A -> B) (p : B -> bool) (q : A -> bool) l :
  (forall x, p (f x) = q x) -> filter p (map f l) = map f (filter q l).
Proof.
  intros H. induction l as [|x l IH]; [reflexivity|].
  cbn [map filter]. rewrite H. destruct (q x); cbn [map]; rewrite IH; reflexivity.
Qed.

Lemma sort_items_strip l : sort_items (map strip l) = map strip (sort_items l).
Proof. rewrite sort_items_gsort. apply (gsort_map it_st it_st strip). reflexivity. Qed.

Lemma head_st_strip g : head_st (map strip g) = head_st g.
Proof. destruct g; reflexivity. Qed.

Lemma sort_groups_strip gs : sort_groups (map (map strip) gs) = map (map strip) (sort_groups gs).
Proof. rewrite sort_groups_gsort. apply (gsort_map head_st head_st (map strip)). apply head_st_strip. Qed.

Lemma order_groups_strip gs : order_groups (map (map strip) gs) = map (map strip) (order_groups gs).
Proof.
  unfold order_groups. rewrite <- sort_groups_strip. f_equal.
  rewrite !map_map. apply map_ext. intros g. apply sort_items_strip.
Qed.

Lemma prior_groups_v0_strip gm l :
  prior_groups_v0 gm (map strip l) = map (map strip) (prior_groups_v0 gm l).
Proof.
  destruct l as [|x l]; [reflexivity|].
  unfold prior_groups_v0. change (map strip (x :: l)) with (strip x :: map strip l).
  cbv iota. change (strip x :: map strip l) with (map strip (x :: l)).
  rewrite map_app, !map_map. f_equal.
  - apply map_ext. intros g. apply filter_map_comm. intros y. reflexivity.
  - rewrite (filter_map_comm strip (unlisted gm) (unlisted gm)) by (intros y; reflexivity).
    rewrite map_map. reflexivity.
Qed.

Lemma filter_nonempty_strip (gs : list (list item)) :
  filter is_nonempty (map (map strip) gs) = map (map strip) (filter is_nonempty gs).
Proof. apply filter_map_comm. intros g. destruct g; reflexivity. Qed.

Lemma prior_groups_strip gm l : prior_groups gm (map strip l) = map (map strip) (prior_groups gm l).
Proof. unfold prior_groups. rewrite prior_groups_v0_strip. apply filter_nonempty_strip. Qed.

Lemma max_en_strip g : max_en (map strip g) = max_en g.
Proof.
  destruct g as [|x g]; [reflexivity|]. cbn [max_en map]. change (it_en (strip x)) with (it_en x).
  generalize (it_en x). induction g as [|y g IH]; intros a; [reflexivity|].
  cbn [map fold_left]. change (it_en (strip y)) with (it_en y). apply IH.
Qed.

Lemma merge_async_strip gs : forall cur mx,
  merge_async (map strip cur) mx (map (map strip) gs) = map (map strip) (merge_async cur mx gs).
Proof.
  induction gs as [|g gs IH]; intros cur mx; [reflexivity|].
  cbn [map merge_async]. rewrite head_st_strip, max_en_strip.
  destruct (mx <? head_st g).
  - cbn [map]. rewrite IH. reflexivity.
  - rewrite <- map_app. apply IH.
Qed.

Lemma async_groups_strip gs : async_groups (map (map strip) gs) = map (map strip) (async_groups gs).
Proof.
  unfold async_groups. rewrite order_groups_strip.
  destruct (order_groups gs) as [|g r]; [reflexivity|].
  cbn [map]. rewrite max_en_strip. apply merge_async_strip.
Qed.

Lemma event_groups_strip async gm l :
  event_groups async gm (map strip l) = map (map strip) (event_groups async gm l).
Proof.
  unfold event_groups. rewrite prior_groups_strip.
  destruct async; [apply async_groups_strip|apply order_groups_strip].
Qed.

(** ** [run_groups0] on stripped items = [run_groups] when [run] agrees with the closures *)
Lemma run_groups0_strip run gs : forall prev,
  (forall it p, In it (concat gs) -> run (it_id it) p = Some (it_run it p)) ->
  run_groups0 run (map (map strip) gs) prev = Some (run_groups gs prev).
Proof.
  induction gs as [|g r IH]; intros prev H; [reflexivity|].
  cbn [map run_groups0 run_groups].
  assert (Hg : map (fun it => run (it_id it) prev) (map strip g) = map (fun it => Some (it_run it prev)) g).
  { rewrite map_map. apply map_ext_in. intros it Hit. cbn [strip it_id].
    apply H. cbn [concat]. apply in_or_app. left. exact Hit. }
  rewrite Hg.
  assert (Hall : forallb (fun o : option links => match o with Some _ => true | None => false end)
                         (map (fun it => Some (it_run it prev)) g) = true).
  { apply forallb_forall. intros o Ho. apply in_map_iff in Ho. destruct Ho as [it [<- _]]. reflexivity. }
  rewrite Hall.
  assert (Hids : map it_id (map strip g) = map it_id g) by (rewrite map_map; reflexivity).
  rewrite Hids, IH.
  - destruct (run_groups r (map it_id g)) as [o2 p2]. f_equal. f_equal. f_equal.
    clear. induction g as [|it g IHg]; [reflexivity|]. cbn [map flat_map]. rewrite IHg. reflexivity.
  - intros it p Hit. apply H. cbn [concat]. apply in_or_app. right. exact Hit.
Qed.

(* ------------------------------------------------------------------------------------------ *)
(** * 4. On a dict that represents a tree, the dict recursion is the tree recursion *)

Lemma rep_kids_events d kids :
  (forall k, In k kids -> exists e, get (sid k) d = Some e /\ matches e k) ->
  exists es, get_all d (map sid kids) = Some es
             /\ Forall2 (fun e k => get (sid k) d = Some e /\ matches e k) es kids.
Proof.
  induction kids as [|k kids IH]; intros H.
  - exists []. split; [reflexivity|constructor].
  - destruct (H k (or_introl eq_refl)) as [e [He Hm]].
    destruct IH as [es [Hes HF]]; [intros k' Hk'; apply H; right; exact Hk'|].
    exists (e :: es). split.
    + cbn [map get_all]. rewrite He, Hes. reflexivity.
    + constructor; [split; assumption|exact HF].
Qed.

Lemma ev_item_strip async m e k : matches e k -> ev_item e = strip (item_of async m k).
Proof.
  intros [H1 [H2 [H3 [H4 _]]]]. unfold ev_item, strip, item_of. cbn [it_id it_ty it_st it_en].
  rewrite H1, H2, H3, H4. reflexivity.
Qed.

Theorem seq_anc_rep async m d : forall t fuel e p,
  rep d t -> get (sid t) d = Some e -> (length (ids t) <= fuel)%nat ->
  seq_anc fuel async m d e p = Some (seqf async m t p).
Proof.
  induction t as [i ty st en pl kids IH] using span_ind'. intros fuel e p Hrep He Hfuel.
  rewrite Forall_forall in IH.
  destruct fuel as [|f]; [cbn [ids length] in Hfuel; lia|].
  destruct (Hrep _ (node_self _)) as [e' [He' Hm]].
  cbn [sid] in He, He'. rewrite He in He'. inversion He'; subst e'. clear He'.
  pose proof Hm as [_ [Hty [_ [_ [_ Hk]]]]]. cbn [sty skids] in Hty, Hk.
  destruct (rep_kids_events d kids) as [es [Hes HF]].
  { intros k Hk'. apply Hrep. eapply nodes_kid; [exact Hk'|apply node_self]. }
  cbn [seq_anc]. rewrite <- Hk, Hes.
  assert (Hitems : map ev_item es = map strip (map (item_of async m) kids)).
  { clear -HF. induction HF as [|e k es kids [_ Hm] _ IHF]; [reflexivity|].
    cbn [map]. rewrite IHF, (ev_item_strip async m e k Hm). reflexivity. }
  rewrite Hitems, event_groups_strip, <- Hty.
  rewrite run_groups0_strip.
  - rewrite seqf_unfold. destruct (run_groups _ p) as [out p']. rewrite (get_eid _ _ _ He). reflexivity.
  - intros it q Hit. apply event_groups_items in Hit. destruct Hit as [k [Hkin ->]].
    cbn [item_of it_id it_run].
    destruct (Hrep k (nodes_kid (Span i ty st en pl kids) k k Hkin (node_self k))) as [ek [Hek _]].
    rewrite Hek. apply (IH k Hkin).
    + eapply rep_sub; [exact Hrep|]. eapply nodes_kid; [exact Hkin|apply node_self].
    + exact Hek.
    + pose proof (size_kid i ty st en pl kids k Hkin). lia.
Qed.

(* ------------------------------------------------------------------------------------------ *)
(** * 5. The rename pass on the dict is the rename pass on the tree *)

(** the dict with all event types erased: what the rename pass cannot change *)
Definition erase (d : list oevent) : list oevent := map (set_ty 1%positive) d.

Lemma set_ty_set_ty a b e : set_ty a (set_ty b e) = set_ty a e.
Proof. destruct e as [n cs]. reflexivity. Qed.

Lemma erase_update i ty d : erase (update i ty d) = erase d.
Proof.
  unfold erase, update. rewrite map_map. apply map_ext. intros e.
  destruct (Pos.eqb i (eid e)); [apply set_ty_set_ty|reflexivity].
Qed.

Lemma rename_step_erase rs d i d' : rename_step rs (Some d) i = Some d' -> erase d' = erase d.
Proof.
  unfold rename_step. destruct (get i d) as [e|]; [|intros H; inversion H; reflexivity].
  destruct (lookup (ety e) rs) as [[mapped cts]|]; [|intros H; inversion H; reflexivity].
  destruct (scan_children d cts (ekids e)) as [[|]|]; intros H; inversion H.
  - apply erase_update.
  - reflexivity.
Qed.

Lemma rename_fold_erase rs order : forall d d',
  fold_left (rename_step rs) order (Some d) = Some d' -> erase d' = erase d.
Proof.
  induction order as [|i order IH]; intros d d' H; cbn [fold_left] in H.
  - inversion H. reflexivity.
  - destruct (rename_step rs (Some d) i) as [d1|] eqn:E.
    + rewrite (IH d1 d' H). eapply rename_step_erase. exact E.
    + exfalso. clear -H. induction order as [|j order IHo]; cbn [fold_left] in H; [discriminate|].
      apply IHo. exact H.
Qed.

Lemma rename_job_erase rs d d' : rename_job rs d = Some d' -> erase d' = erase d.
Proof. apply rename_fold_erase. Qed.

(** any observation that ignores the type is unchanged *)
Lemma erase_inv {B} (f : oevent -> B) d d' :
  (forall ty e, f (set_ty ty e) = f e) -> erase d' = erase d -> map f d' = map f d.
Proof.
  intros Hf H. assert (Hm : forall l, map f (erase l) = map f l).
  { intros l. unfold erase. rewrite map_map. apply map_ext. intros e. apply Hf. }
  rewrite <- (Hm d'), <- (Hm d), H. reflexivity.
Qed.

Lemma erase_ids d d' : erase d' = erase d -> map eid d' = map eid d.
Proof. apply erase_inv. intros ty [n cs]. reflexivity. Qed.
Lemma erase_length d d' : erase d' = erase d -> length d' = length d.
Proof. intros H. rewrite <- (map_length eid d'), <- (map_length eid d), (erase_ids _ _ H). reflexivity. Qed.

Lemma get_update j i ty d :
  get j (update i ty d) = option_map (fun e => if Pos.eqb i (eid e) then set_ty ty e else e) (get j d).
Proof.
  induction d as [|x d IH]; [reflexivity|].
  cbn [update map get]. fold (update i ty d).
  assert (Hid : eid (if Pos.eqb i (eid x) then set_ty ty x else x) = eid x).
  { destruct (Pos.eqb i (eid x)); [destruct x as [n cs]|]; reflexivity. }
  rewrite Hid. destruct (Pos.eqb j (eid x)); [reflexivity|exact IH].
Qed.

Lemma scan_rep d cts kids :
  (forall k, In k kids -> exists e, get (sid k) d = Some e /\ matches e k) ->
  scan_children d cts (map sid kids) = Some (existsb (fun k => mem (sty k) cts) kids).
Proof.
  induction kids as [|k kids IH]; intros H; [reflexivity|].
  cbn [map scan_children existsb].
  destruct (H k (or_introl eq_refl)) as [e [He [_ [Hty _]]]]. rewrite He, <- Hty.
  destruct (mem (sty k) cts); [reflexivity|].
  cbn [orb]. apply IH. intros k' Hk'. apply H. right. exact Hk'.
Qed.

(** type of the node [s] after the visit of [i] *)
Definition retype (rs : rules) (i : positive) (s : span) : positive :=
  if Pos.eqb i (sid s) then spec_ty rs (sty s) (skids s) else sty s.

Lemma sid_rename_at rs i t : sid (rename_at rs i t) = sid t.
Proof.
  destruct t as [j ty st en pl kids]. rewrite rename_at_unfold.
  destruct (Pos.eqb i j); [|reflexivity].
  destruct (lookup ty rs) as [[mapped cts]|]; [|reflexivity].
  destruct (existsb _ kids); reflexivity.
Qed.

Lemma rename_at_hit rs j ty st en pl kids :
  rename_at rs j (Span j ty st en pl kids) = Span j (spec_ty rs ty kids) st en pl kids.
Proof.
  rewrite rename_at_unfold, Pos.eqb_refl. unfold spec_ty.
  destruct (lookup ty rs) as [[mapped cts]|]; [|reflexivity].
  destruct (existsb _ kids); reflexivity.
Qed.

Lemma ids_rename_at rs i t : ids (rename_at rs i t) = ids t.
Proof.
  induction t as [j ty st en pl kids IH] using span_ind'.
  destruct (Pos.eqb_spec i j) as [->|Hne].
  - rewrite rename_at_hit. reflexivity.
  - rewrite rename_at_unfold. apply Pos.eqb_neq in Hne. rewrite Hne. cbn [ids]. f_equal.
    induction IH as [|k kids Hk _ IHk]; [reflexivity|].
    cbn [map flat_map]. rewrite Hk, IHk. reflexivity.
Qed.

Lemma ids_rename rs order : forall t, ids (rename rs order t) = ids t.
Proof.
  unfold rename. induction order as [|i order IH]; intros t; [reflexivity|].
  cbn [fold_left]. rewrite IH. apply ids_rename_at.
Qed.

Lemma nodes_rename_at rs i t : NoDup (ids t) ->
  forall s', In s' (nodes (rename_at rs i t)) ->
  exists s, In s (nodes t) /\ sid s' = sid s /\ sty s' = retype rs i s /\ sst s' = sst s
            /\ sen s' = sen s /\ spl s' = spl s /\ map sid (skids s') = map sid (skids s).
Proof.
  induction t as [j ty st en pl kids IH] using span_ind'. intros Hnd s' Hs'.
  rewrite Forall_forall in IH.
  cbn [ids] in Hnd. inversion Hnd as [|j' l' Hj Hnd']; subst.
  destruct (Pos.eqb_spec i j) as [->|Hne].
  - rewrite rename_at_hit in Hs'. cbn [nodes] in Hs'. destruct Hs' as [<-|Hs'].
    + exists (Span j ty st en pl kids). split; [apply node_self|].
      unfold retype. cbn [sid sty sst sen spl skids]. rewrite Pos.eqb_refl. repeat split.
    + exists s'. split; [cbn [nodes]; right; exact Hs'|].
      assert (Hn : (j =? sid s')%positive = false).
      { apply Pos.eqb_neq. intros ->. apply Hj.
        apply in_flat_map in Hs'. destruct Hs' as [k [Hk Hs']]. apply in_flat_map.
        exists k. split; [exact Hk|]. apply in_ids_node. exists s'. split; [exact Hs'|reflexivity]. }
      unfold retype. rewrite Hn. repeat split.
  - rewrite rename_at_unfold in Hs'. pose proof Hne as Hne'. apply Pos.eqb_neq in Hne'.
    rewrite Hne' in Hs'. cbn [nodes] in Hs'. destruct Hs' as [<-|Hs'].
    + exists (Span j ty st en pl kids). split; [apply node_self|].
      unfold retype. cbn [sid sty sst sen spl skids]. rewrite Hne'. repeat split.
      rewrite map_map. apply map_ext. intros k. apply sid_rename_at.
    + apply in_flat_map in Hs'. destruct Hs' as [k' [Hk' Hs']].
      apply in_map_iff in Hk'. destruct Hk' as [k [<- Hk]].
      destruct (IH k Hk (NoDup_flat_map_in _ _ _ Hnd' Hk) s' Hs') as [s [Hs Hrest]].
      exists s. split; [|exact Hrest]. cbn [nodes]. right. apply in_flat_map. exists k. split; assumption.
Qed.

Lemma matches_retyped e e' s s' :
  matches e s -> set_ty 1%positive e' = set_ty 1%positive e -> ety e' = sty s' ->
  sid s' = sid s -> sst s' = sst s -> sen s' = sen s -> spl s' = spl s ->
  map sid (skids s') = map sid (skids s) -> matches e' s'.
Proof.
  intros [H1 [H2 [H3 [H4 [H5 H6]]]]] He Hty Hs1 Hs3 Hs4 Hs5 Hs6.
  destruct e as [n cs], e' as [n' cs']. unfold set_ty in He. cbn [fst snd] in He.
  inversion He; subst.
  unfold matches, eid, ety, est, een, ekids in *. cbn [fst snd] in *.
  repeat split; congruence.
Qed.

(** ** one visit *)
Lemma rename_step_rep rs d t i :
  rep d t -> NoDup (ids t) -> In i (ids t) ->
  exists d', rename_step rs (Some d) i = Some d' /\ rep d' (rename_at rs i t).
Proof.
  intros Hrep Hnd Hi.
  apply in_ids_node in Hi. destruct Hi as [s0 [Hs0 Hid0]].
  destruct (Hrep s0 Hs0) as [e0 [He0 Hm0]]. rewrite Hid0 in He0.
  assert (Hscan : forall cts, scan_children d cts (ekids e0)
                              = Some (existsb (fun k => mem (sty k) cts) (skids s0))).
  { intros cts. destruct Hm0 as [_ [_ [_ [_ [_ <-]]]]]. apply scan_rep.
    intros k Hk. apply Hrep. eapply nodes_skids; eassumption. }
  assert (Hty0 : ety e0 = sty s0) by (destruct Hm0 as [_ [H _]]; symmetry; exact H).
  (* the dict after the visit, described pointwise *)
  assert (Hgoal : forall d',
    (forall s e, In s (nodes t) -> get (sid s) d = Some e ->
       exists e', get (sid s) d' = Some e' /\ set_ty 1%positive e' = set_ty 1%positive e
                  /\ ety e' = retype rs i s) -> rep d' (rename_at rs i t)).
  { intros d' H s' Hs'.
    destruct (nodes_rename_at rs i t Hnd s' Hs') as [s [Hs [E1 [E2 [E3 [E4 [E5 E6]]]]]]].
    destruct (Hrep s Hs) as [e [He Hm]].
    destruct (H s e Hs He) as [e' [He' [Her Hty']]].
    exists e'. split; [rewrite E1; exact He'|].
    eapply matches_retyped; try eassumption. congruence. }
  (* a node whose type the visit leaves alone *)
  assert (Hsame : forall s, In s (nodes t) -> sid s <> i -> retype rs i s = sty s).
  { intros s _ Hne. unfold retype. replace (i =? sid s)%positive with false; [reflexivity|].
    symmetry. apply Pos.eqb_neq. intros ->. apply Hne. reflexivity. }
  assert (Hat : forall s, In s (nodes t) -> sid s = i -> s = s0).
  { intros s Hs Heq. eapply nodes_sid_inj; try eassumption. congruence. }
  unfold rename_step. rewrite He0, Hty0.
  assert (Hkeep : spec_ty rs (sty s0) (skids s0) = sty s0 -> rep d (rename_at rs i t)).
  { intros Hspec. apply Hgoal. intros s e Hs He. exists e. split; [exact He|]. split; [reflexivity|].
    destruct (Pos.eq_dec (sid s) i) as [Heq|Hne].
    - rewrite (Hat s Hs Heq). unfold retype. rewrite Hid0, Pos.eqb_refl, Hspec.
      rewrite (Hat s Hs Heq) in He. rewrite Hid0, He0 in He. inversion He; subst. exact Hty0.
    - rewrite (Hsame s Hs Hne). destruct (Hrep s Hs) as [e2 [He2 [_ [H2 _]]]].
      rewrite He in He2. inversion He2; subst. symmetry. exact H2. }
  destruct (lookup (sty s0) rs) as [[mapped cts]|] eqn:El.
  - rewrite Hscan. destruct (existsb (fun k => mem (sty k) cts) (skids s0)) eqn:Eb.
    + exists (update i mapped d). split; [reflexivity|].
      apply Hgoal. intros s e Hs He. rewrite get_update, He. cbn [option_map].
      eexists. split; [reflexivity|].
      rewrite (get_eid _ _ _ He).
      destruct (Pos.eqb_spec i (sid s)) as [Heq|Hne].
      * split; [apply set_ty_set_ty|].
        rewrite (Hat s Hs (eq_sym Heq)). unfold retype. rewrite Hid0, Pos.eqb_refl.
        unfold spec_ty. rewrite El, Eb. destruct e as [n cs]. reflexivity.
      * split; [reflexivity|]. rewrite (Hsame s Hs (fun H => Hne (eq_sym H))).
        destruct (Hrep s Hs) as [e2 [He2 [_ [H2 _]]]]. rewrite He in He2. inversion He2; subst.
        symmetry. exact H2.
    + exists d. split; [reflexivity|]. apply Hkeep. unfold spec_ty. rewrite El, Eb. reflexivity.
  - exists d. split; [reflexivity|]. apply Hkeep. unfold spec_ty. rewrite El. reflexivity.
Qed.

(** ** the whole pass *)
Lemma rename_fold_rep rs order : forall d t,
  rep d t -> NoDup (ids t) -> (forall i, In i order -> In i (ids t)) ->
  exists d', fold_left (rename_step rs) order (Some d) = Some d'
             /\ rep d' (rename rs order t).
Proof.
  unfold rename. induction order as [|i order IH]; intros d t Hrep Hnd Hin.
  - exists d. split; [reflexivity|exact Hrep].
  - cbn [fold_left].
    destruct (rename_step_rep rs d t i Hrep Hnd (Hin i (or_introl eq_refl))) as [d1 [E1 Hrep1]].
    rewrite E1. apply IH; [exact Hrep1|rewrite ids_rename_at; exact Hnd|].
    intros j Hj. rewrite ids_rename_at. apply Hin. right. exact Hj.
Qed.

(* ------------------------------------------------------------------------------------------ *)
(** * 6. The dict of a stream with unique ids; association lists with unique keys *)

Lemma filter_all {A} (p : A -> bool) l : (forall x, In x l -> p x = true) -> filter p l = l.
Proof.
  induction l as [|x l IH]; intros H; [reflexivity|].
  cbn [filter]. rewrite (H x (or_introl eq_refl)), IH; [reflexivity|].
  intros y Hy. apply H. right. exact Hy.
Qed.

Lemma dedup_nodup l : NoDup l -> dedup l = l.
Proof.
  induction 1 as [|x l Hx Hnd IH]; [reflexivity|].
  cbn [dedup]. rewrite IH. f_equal. apply filter_all.
  intros y Hy. apply negb_true_iff, Pos.eqb_neq. intros ->. contradiction.
Qed.

Lemma dedup_keys_nodup job : NoDup (map eid (dict_of job)).
Proof.
  unfold dict_of.
  assert (H : forall l dd, NoDup l ->
            NoDup (map eid (flat_map (fun i => match get i dd with Some e => [e] | None => [] end) l))).
  { intros l dd. induction 1 as [|i l Hi Hnd IH]; [constructor|].
    cbn [flat_map]. rewrite map_app. destruct (get i dd) as [e|] eqn:E; [|exact IH].
    cbn [map app]. constructor; [|exact IH].
    rewrite (get_eid _ _ _ E). intros Hin. apply Hi.
    apply in_map_iff in Hin. destruct Hin as [x [Hx Hin]].
    apply in_flat_map in Hin. destruct Hin as [j [Hj Hin]].
    destruct (get j dd) as [e'|] eqn:E'; [|contradiction].
    destruct Hin as [<-|[]]. rewrite (get_eid _ _ _ E') in Hx. subst j. exact Hj. }
  apply H. apply dedup_NoDup.
Qed.

Lemma dict_of_nodup job : NoDup (map eid job) -> dict_of job = job.
Proof.
  intros Hnd. unfold dict_of. rewrite (dedup_nodup _ Hnd).
  assert (Hget : forall e, In e job -> get (eid e) (rev job) = Some e).
  { intros e He. apply get_nodup; [rewrite map_rev; apply NoDup_rev; exact Hnd|].
    apply in_rev. rewrite rev_involutive. exact He. }
  revert Hget. generalize (rev job) as dd. intros dd.
  induction job as [|e job IH]; intros Hget; [reflexivity|].
  cbn [map flat_map]. rewrite (Hget e (or_introl eq_refl)). cbn [app]. f_equal.
  apply IH; [inversion Hnd; assumption|]. intros x Hx. apply Hget. right. exact Hx.
Qed.

Lemma lookup_in_keys {A} i (l : list (positive * A)) : In i (map fst l) -> exists v, lookup i l = Some v.
Proof.
  induction l as [|[k v] l IH]; cbn [map fst In lookup]; [contradiction|].
  intros H. destruct (Pos.eqb_spec i k) as [->|Hne]; [exists v; reflexivity|].
  apply IH. destruct H as [H|H]; [exfalso; apply Hne; symmetry; exact H|exact H].
Qed.

Lemma lookup_nodup {A} i v (l : list (positive * A)) :
  NoDup (map fst l) -> In (i, v) l -> lookup i l = Some v.
Proof.
  induction l as [|[k w] l IH]; cbn [map fst lookup]; intros Hnd Hin; [contradiction|].
  inversion Hnd as [|k' l' Hk Hnd']; subst.
  destruct Hin as [Heq|Hin].
  - inversion Heq; subst. rewrite Pos.eqb_refl. reflexivity.
  - destruct (Pos.eqb_spec i k) as [->|Hne].
    + exfalso. apply Hk. apply in_map_iff. exists (k, v). split; [reflexivity|exact Hin].
    + apply IH; assumption.
Qed.

Lemma lookup_none_keys {A} i (l : list (positive * A)) : lookup i l = None -> ~ In i (map fst l).
Proof.
  intros H Hin. destruct (lookup_in_keys i l Hin) as [v Hv]. congruence.
Qed.

Lemma lookup_rev {A} i (l : list (positive * A)) : NoDup (map fst l) -> lookup i (rev l) = lookup i l.
Proof.
  intros Hnd. destruct (lookup i l) as [v|] eqn:E.
  - apply lookup_nodup; [rewrite map_rev; apply NoDup_rev; exact Hnd|].
    apply in_rev. rewrite rev_involutive. eapply lookup_In. exact E.
  - destruct (lookup i (rev l)) as [w|] eqn:E2; [|reflexivity].
    exfalso. apply (lookup_none_keys _ _ E). apply lookup_In in E2. apply in_rev in E2.
    apply in_map_iff. exists (i, w). split; [reflexivity|exact E2].
Qed.

Lemma rows_of_dict_some (lk : positive -> option (list positive)) d l :
  (forall i, last_link i l = lk i) ->
  (forall e, In e d -> exists ps, lk (eid e) = Some ps) ->
  exists rows, rows_of_dict d l = Some rows
               /\ Forall2 (fun e r => exists ps, lk (eid e) = Some ps /\ r = row_of e ps) d rows.
Proof.
  intros Hlk. induction d as [|e d IH]; intros H.
  - exists []. split; [reflexivity|constructor].
  - destruct (H e (or_introl eq_refl)) as [ps Hps].
    destruct IH as [rows [Hr HF]]; [intros x Hx; apply H; right; exact Hx|].
    exists (row_of e ps :: rows). split.
    + cbn [rows_of_dict]. rewrite Hlk, Hps, Hr. reflexivity.
    + constructor; [exists ps; split; [exact Hps|reflexivity]|exact HF].
Qed.

Lemma is_root_set_ty ty e : is_root (set_ty ty e) = is_root e.
Proof. destruct e as [n cs]. reflexivity. Qed.

Lemma erase_roots d d' r :
  erase d' = erase d -> filter is_root d = [r] ->
  exists r', filter is_root d' = [r'] /\ set_ty 1%positive r' = set_ty 1%positive r.
Proof.
  intros He Hr.
  assert (Hc : forall l, map (set_ty 1%positive) (filter is_root l) = filter is_root (erase l)).
  { intros l. unfold erase. symmetry. apply filter_map_comm. intros x. apply is_root_set_ty. }
  pose proof (Hc d') as H1. rewrite He, <- Hc, Hr in H1.
  destruct (filter is_root d') as [|r' [|r'' l]]; try discriminate.
  exists r'. split; [reflexivity|].
  exact (f_equal (hd (set_ty 1%positive r)) H1).
Qed.

Lemma set_ty_eid a e e' : set_ty a e' = set_ty a e -> eid e' = eid e.
Proof. destruct e as [n cs], e' as [n' cs']. unfold set_ty, eid. cbn [fst snd]. intros H. inversion H. reflexivity. Qed.

(* ------------------------------------------------------------------------------------------ *)
(** * 7. A job whose events form a tree is sequenced like its tree *)

Lemma sequence_job_tree_links async m rs job t :
  build_tree job = Some t -> parents_present job = true ->
  let t' := rename rs (map eid job) t in
  let l := seqf async m t' [] in
  exists d' rows,
    rename_job rs job = Some d' /\ erase d' = erase job /\ rep d' t'
    /\ sequence_job async m rs job = JOk rows
    /\ Forall2 (fun e r => exists ps, lookup (eid e) l = Some ps /\ r = row_of e ps) d' rows.
Proof.
  intros Hb Hpp t' l.
  destruct (build_tree_facts job t Hb) as [Hnd [Hndt [Hrep [Hperm [r [Hroot Hmr]]]]]].
  assert (Hin : forall i, In i (map eid job) -> In i (ids t)).
  { intros i Hi. eapply Permutation_in; [apply Permutation_sym; exact Hperm|exact Hi]. }
  destruct (rename_fold_rep rs (map eid job) job t Hrep Hndt Hin) as [d' [Hren Hrep']].
  fold t' in Hrep'.
  pose proof (rename_fold_erase rs _ _ _ Hren) as Her.
  pose proof (erase_ids _ _ Her) as Hids.
  destruct (erase_roots job d' r Her Hroot) as [r' [Hroot' Hrr]].
  assert (Hidt' : ids t' = ids t) by apply ids_rename.
  assert (Hndl : NoDup (map fst l)).
  { eapply Permutation_NoDup; [apply Permutation_sym; apply seq_once|]. rewrite Hidt'. exact Hndt. }
  assert (Hkeys : forall i, In i (map eid d') -> In i (map fst l)).
  { intros i Hi. eapply Permutation_in; [apply Permutation_sym; apply seq_once|].
    rewrite Hidt'. apply Hin. rewrite <- Hids. exact Hi. }
  destruct (rows_of_dict_some (fun i => lookup i l) d' l) as [rows [Hrows HF]].
  { intros i. unfold last_link. apply lookup_rev. exact Hndl. }
  { intros e He. apply lookup_in_keys. apply Hkeys. apply in_map. exact He. }
  exists d', rows. split; [exact Hren|]. split; [exact Her|]. split; [exact Hrep'|]. split; [|exact HF].
  unfold sequence_job. rewrite Hpp, (dict_of_nodup job Hnd).
  unfold rename_job at 1. rewrite Hren, Hroot'.
  assert (Hget : get (sid t') d' = Some r').
  { assert (Hs : sid t' = eid r').
    { destruct Hmr as [Hs _]. rewrite (set_ty_eid _ _ _ Hrr), <- Hs.
      pose proof (f_equal (@hd positive 1%positive) Hidt') as Hh.
      destruct t as [i1 ? ? ? ? ?], t' as [i2 ? ? ? ? ?]. exact Hh. }
    rewrite Hs. apply get_nodup; [rewrite Hids; exact Hnd|].
    assert (Hx : In r' (filter is_root d')) by (rewrite Hroot'; left; reflexivity).
    apply filter_In in Hx. tauto. }
  rewrite (seq_anc_rep async m d' t' (length d') r' [] Hrep' Hget).
  - fold l. rewrite Hrows. reflexivity.
  - rewrite Hidt', (Permutation_length Hperm), map_length, (erase_length _ _ Her). apply le_n.
Qed.

(* ------------------------------------------------------------------------------------------ *)
(** * 8. What the rows of a tree job satisfy *)

(** the link relation carried by the rows *)
Definition links_of (rows : list pvrow3) : links := map (fun r => (rid r, rprev r)) rows.

(** [JDesc job d a]: [d] is a proper descendant of [a] through the child id lists *)
Inductive JDesc (job : list oevent) : positive -> positive -> Prop :=
| jdesc_kid e c : In e job -> In c (ekids e) -> JDesc job c (eid e)
| jdesc_trans a b c : JDesc job a b -> JDesc job b c -> JDesc job a c.

(** ** position in the emission order *)
Fixpoint rank (i : positive) (ks : list positive) : nat :=
  match ks with
  | [] => O
  | k :: r => if Pos.eqb i k then O else S (rank i r)
  end.

Lemma rank_in a ks1 ks2 : In a ks1 -> (rank a (ks1 ++ ks2) < length ks1)%nat.
Proof.
  induction ks1 as [|k ks1 IH]; intros H; [contradiction|].
  cbn [app rank length]. destruct (Pos.eqb_spec a k) as [->|Hne]; [lia|].
  destruct H as [H|H]; [exfalso; apply Hne; symmetry; exact H|]. specialize (IH H). lia.
Qed.

Lemma rank_notin b ks1 ks2 : ~ In b ks1 -> rank b (ks1 ++ b :: ks2) = length ks1.
Proof.
  induction ks1 as [|k ks1 IH]; intros H; cbn [app rank length].
  - rewrite Pos.eqb_refl. reflexivity.
  - destruct (Pos.eqb_spec b k) as [->|Hne]; [exfalso; apply H; left; reflexivity|].
    rewrite IH; [reflexivity|]. intros Hin. apply H. right. exact Hin.
Qed.

Definition topo (l : links) : Prop :=
  forall o1 i ps o2, l = o1 ++ (i, ps) :: o2 -> forall q, In q ps -> In q (map fst o1).

Lemma path_rank l : NoDup (map fst l) -> topo l ->
  forall a b, path l a b -> (rank a (map fst l) < rank b (map fst l))%nat.
Proof.
  intros Hnd Ht a b H. induction H as [a b ps Hin Ha|a b c _ IH1 _ IH2]; [|lia].
  apply in_split in Hin. destruct Hin as [o1 [o2 E]].
  pose proof (Ht o1 b ps o2 E a Ha) as Ha1.
  rewrite E, map_app in *. cbn [map fst] in *.
  rewrite rank_notin.
  - apply rank_in. exact Ha1.
  - apply NoDup_remove_2 in Hnd. intros Hb. apply Hnd. apply in_or_app. left. exact Hb.
Qed.

Lemma topo_acyclic l : NoDup (map fst l) -> topo l -> forall a, ~ path l a a.
Proof. intros Hnd Ht a H. pose proof (path_rank l Hnd Ht a a H). lia. Qed.

Lemma seqf_topo async m t : topo (seqf async m t []).
Proof.
  intros o1 i ps o2 E q Hq.
  destruct (seq_topological async m t [] o1 i ps o2 E q Hq) as [[]|H]. exact H.
Qed.

(** ** the emission of a subtree is part of the emission of the tree *)
Lemma seqf_sub async m i ty st en pl kids k p :
  In k kids -> exists q, incl (seqf async m k q) (seqf async m (Span i ty st en pl kids) p).
Proof.
  intros Hk. rewrite seqf_unfold.
  set (gs := event_groups async (gm_of m ty) (map (item_of async m) kids)).
  assert (Hit : In (item_of async m k) (concat gs)).
  { destruct (event_groups_perm async (gm_of m ty) (map (item_of async m) kids)) as [Hp _].
    eapply Permutation_in; [apply Permutation_sym; exact Hp|]. apply in_map. exact Hk. }
  destruct (run_groups_contains gs p _ Hit) as [q Hq].
  exists q. destruct (run_groups gs p) as [out p']. cbn [fst] in Hq.
  intros x Hx. apply in_or_app. left. apply Hq. exact Hx.
Qed.

Lemma desc_path async m t : forall p s x,
  In s (nodes t) -> In x (ids s) -> x <> sid s -> path (seqf async m t p) x (sid s).
Proof.
  induction t as [i ty st en pl kids IH] using span_ind'. intros p s x Hs Hx Hne.
  rewrite Forall_forall in IH. cbn [nodes] in Hs. destruct Hs as [<-|Hs].
  - apply seq_after_desc; assumption.
  - apply in_flat_map in Hs. destruct Hs as [k [Hk Hs]].
    destruct (seqf_sub async m i ty st en pl kids k p Hk) as [q Hq].
    eapply path_incl; [exact Hq|]. apply IH; assumption.
Qed.

Lemma get_erase i d : get i (erase d) = option_map (set_ty 1%positive) (get i d).
Proof.
  induction d as [|x d IH]; [reflexivity|].
  cbn [erase map get]. fold (erase d).
  replace (eid (set_ty 1%positive x)) with (eid x) by (destruct x as [n cs]; reflexivity).
  destruct (Pos.eqb i (eid x)); [reflexivity|exact IH].
Qed.

Lemma erase_get d d' i e' :
  erase d' = erase d -> get i d' = Some e' ->
  exists e, get i d = Some e /\ set_ty 1%positive e' = set_ty 1%positive e.
Proof.
  intros He Hg. pose proof (get_erase i d') as H1. rewrite He, get_erase, Hg in H1.
  destruct (get i d) as [e|]; [|discriminate]. exists e. split; [reflexivity|].
  cbn [option_map] in H1. symmetry.
  exact (f_equal (fun o => match o with Some x => x | None => set_ty 1%positive e end) H1).
Qed.

Lemma set_ty_fields a e e' : set_ty a e' = set_ty a e ->
  eid e' = eid e /\ epar e' = epar e /\ ekids e' = ekids e /\ est e' = est e /\ een e' = een e
  /\ njob (fst e') = njob (fst e) /\ nname (fst e') = nname (fst e) /\ napp (fst e') = napp (fst e).
Proof.
  destruct e as [n cs], e' as [n' cs']. unfold set_ty, eid, epar, ekids, est, een. cbn [fst snd].
  intros H. inversion H. repeat split; assumption.
Qed.

Lemma erase_Forall2 d d' : erase d' = erase d ->
  Forall2 (fun e e' => set_ty 1%positive e' = set_ty 1%positive e) d d'.
Proof.
  revert d'. induction d as [|e d IH]; intros d' H.
  - destruct d'; [constructor|discriminate].
  - destruct d' as [|e' d']; [discriminate|]. cbn [erase map] in H.
    constructor; [exact (f_equal (hd (set_ty 1%positive e)) H)|].
    apply IH. exact (f_equal (@tl oevent) H).
Qed.

Lemma rid_row_of e ps : rid (row_of e ps) = eid e. Proof. reflexivity. Qed.
Lemma rprev_row_of e ps : rprev (row_of e ps) = ps. Proof. reflexivity. Qed.

(** ** (b) on the tree: everything, stated with [build_tree] *)
Theorem sequence_job_tree : forall async m rs job t,
  build_tree job = Some t -> parents_present job = true ->
  let t' := rename rs (map eid job) t in
  exists rows,
    sequence_job async m rs job = JOk rows
    (* each span exactly once, in stream order *)
    /\ map rid rows = map eid job
    (* copied fields *)
    /\ Forall2 (fun e r => rts r = nano_to_pv (een e) /\ rjob r = njob (fst e)
                           /\ rname r = nname (fst e) /\ rapp r = napp (fst e)) job rows
    (* renamed types: as computed on the dict and as computed on the tree *)
    /\ (exists d', rename_job rs job = Some d' /\ map rty rows = map ety d')
    /\ (forall s, In s (nodes t') -> exists r, In r rows /\ rid r = sid s /\ rty r = sty s)
    (* the links are exactly those the sequencer emits for the tree *)
    /\ (forall i ps, In (i, ps) (links_of rows) <-> In (i, ps) (sequence async m rs (map eid job) t))
    (* links stay inside the trace, are acyclic, and every span follows all its descendants *)
    /\ (forall r q, In r rows -> In q (rprev r) -> In q (map eid job))
    /\ (forall a, ~ path (links_of rows) a a)
    /\ (forall d a, JDesc job d a -> path (links_of rows) d a).
Proof.
  intros async m rs job t Hb Hpp t'.
  destruct (sequence_job_tree_links async m rs job t Hb Hpp) as [d' [rows [Hren [Her [Hrep' [Hseq HF]]]]]].
  fold t' in Hrep', HF.
  set (l := seqf async m t' []) in *.
  destruct (build_tree_facts job t Hb) as [Hnd [Hndt [Hrep [Hperm _]]]].
  assert (Hidt' : ids t' = ids t) by apply ids_rename.
  assert (Hndt' : NoDup (ids t')) by (rewrite Hidt'; exact Hndt).
  assert (Hpl : Permutation (map fst l) (ids t')) by apply seq_once.
  assert (Hndl : NoDup (map fst l)).
  { eapply Permutation_NoDup; [apply Permutation_sym; exact Hpl|exact Hndt']. }
  pose proof (erase_ids _ _ Her) as Hids.
  assert (Hrid : map rid rows = map eid d').
  { clear -HF. induction HF as [|e r d rows [ps [_ ->]] _ IH]; [reflexivity|].
    cbn [map]. rewrite IH. reflexivity. }
  assert (Hlinks : forall i ps, In (i, ps) (links_of rows) <-> In (i, ps) l).
  { intros i ps. unfold links_of. rewrite in_map_iff. split.
    - intros [r [Hr Hin]]. destruct (Forall2_in_r _ _ _ _ HF Hin) as [e [_ [ps' [Hl ->]]]].
      rewrite rid_row_of, rprev_row_of in Hr. inversion Hr; subst. apply lookup_In. exact Hl.
    - intros Hin.
      assert (Hk : In i (map eid d')).
      { rewrite Hids. eapply Permutation_in; [exact Hperm|]. rewrite <- Hidt'.
        eapply Permutation_in; [exact Hpl|]. apply in_map_iff. exists (i, ps). split; [reflexivity|exact Hin]. }
      apply in_map_iff in Hk. destruct Hk as [e [<- He]].
      destruct (Forall2_in_l _ _ _ _ HF He) as [r [Hr [ps' [Hl ->]]]].
      exists (row_of e ps'). split; [|exact Hr].
      rewrite rid_row_of, rprev_row_of. rewrite (lookup_nodup _ _ _ Hndl Hin) in Hl.
      inversion Hl. reflexivity. }
  assert (Hincl1 : incl (links_of rows) l) by (intros [i ps] H; apply Hlinks; exact H).
  assert (Hincl2 : incl l (links_of rows)) by (intros [i ps] H; apply Hlinks; exact H).
  exists rows. split; [exact Hseq|]. split; [rewrite Hrid; exact Hids|].
  split.
  { (* copied fields *)
    pose proof (erase_Forall2 _ _ Her) as HE.
    assert (HF0 : Forall2 (fun e r => exists ps, r = row_of e ps) d' rows).
    { clear -HF. induction HF as [|e r d rows [ps [_ ->]] _ IH]; constructor; [exists ps; reflexivity|exact IH]. }
    clear -HE HF0. revert rows HF0. induction HE as [|e e' job d' Hee _ IH]; intros rows HF.
    - inversion HF. constructor.
    - inversion HF as [|e2 r d2 rows' [ps ->] HF']; subst. constructor; [|apply IH; exact HF'].
      destruct (set_ty_fields _ _ _ Hee) as [_ [_ [_ [_ [H1 [H2 [H3 H4]]]]]]].
      unfold row_of, rts, rjob, rname, rapp. rewrite H1, H2, H3, H4. repeat split. }
  split.
  { exists d'. split; [exact Hren|].
    clear -HF. induction HF as [|e r d rows [ps [_ ->]] _ IH]; [reflexivity|].
    cbn [map]. rewrite IH. reflexivity. }
  split.
  { intros s Hs. destruct (Hrep' s Hs) as [e [He [_ [Hty _]]]].
    destruct (Forall2_in_l _ _ _ _ HF (get_In _ _ _ He)) as [r [Hr [ps [_ ->]]]].
    exists (row_of e ps). split; [exact Hr|]. rewrite rid_row_of.
    split; [apply (get_eid _ _ _ He)|]. unfold row_of, rty. symmetry. exact Hty. }
  split; [exact Hlinks|].
  split.
  { intros r q Hr Hq.
    assert (Hin : In (rid r, rprev r) l).
    { apply Hlinks. unfold links_of. apply in_map_iff. exists r. split; [reflexivity|exact Hr]. }
    apply in_split in Hin. destruct Hin as [o1 [o2 E]].
    pose proof (seqf_topo async m t' o1 (rid r) (rprev r) o2 E q Hq) as Hq1.
    eapply Permutation_in; [exact Hperm|]. rewrite <- Hidt'.
    eapply Permutation_in; [exact Hpl|]. fold l. rewrite E, map_app. apply in_or_app. left. exact Hq1. }
  split.
  { intros a Hp. apply (topo_acyclic l Hndl (seqf_topo async m t') a).
    eapply path_incl; [exact Hincl1|exact Hp]. }
  { intros d a Hd. induction Hd as [e c He Hc|a b c _ IH1 _ IH2]; [|eapply path_trans; eassumption].
    eapply path_incl; [exact Hincl2|].
    assert (Hi : In (eid e) (ids t')).
    { rewrite Hidt'. eapply Permutation_in; [apply Permutation_sym; exact Hperm|]. apply in_map. exact He. }
    apply in_ids_node in Hi. destruct Hi as [s [Hs Hsid]].
    destruct (Hrep' s Hs) as [e' [He' [_ [_ [_ [_ [_ Hk]]]]]]].
    rewrite Hsid in He'.
    destruct (erase_get _ _ _ _ Her He') as [e0 [He0 Hee]].
    rewrite (get_nodup _ _ Hnd He) in He0. inversion He0; subst e0.
    destruct (set_ty_fields _ _ _ Hee) as [_ [_ [Hkids _]]].
    rewrite Hkids in Hk. rewrite <- Hk in Hc. apply in_map_iff in Hc. destruct Hc as [k [<- Hkin]].
    rewrite <- Hsid. apply desc_path; [exact Hs| |].
    - destruct s as [i ty st en pl kids]. cbn [skids] in Hkin. cbn [ids]. right.
      apply in_flat_map. exists k. split; [exact Hkin|]. destruct k. left. reflexivity.
    - pose proof (nodes_NoDup t' s Hndt' Hs) as Hnds.
      destruct s as [i ty st en pl kids]. cbn [skids] in Hkin. cbn [ids sid] in *.
      inversion Hnds as [|i' l' Hi' _]; subst. intros Heq. apply Hi'. rewrite <- Heq.
      apply in_flat_map. exists k. split; [exact Hkin|]. destruct k. left. reflexivity. }
Qed.
