(** update_event_types_based_on_children: under a stability side condition on the rules the
    stream-order pass computes the documented (order-free) rule; without it the result depends
    on the order. *)
From Coq Require Import ZArith List Bool Lia Permutation.
From V Require Import Otel.Span Otel.Sequencer Otel.SequencerSpec Otel.SequencerProofs.
Import ListNotations.
Open Scope Z_scope.

Lemma rename_at_unfold rs i j ty st en pl kids :
  rename_at rs i (Span j ty st en pl kids) =
  if Pos.eqb i j then
    match lookup ty rs with
    | Some (mapped, cts) =>
        if existsb (fun k => mem (sty k) cts) kids then Span j mapped st en pl kids
        else Span j ty st en pl kids
    | None => Span j ty st en pl kids
    end
  else Span j ty st en pl (map (rename_at rs i) kids).
Proof. reflexivity. Qed.

Lemma NoDup_app_l {A} (l1 l2 : list A) : NoDup (l1 ++ l2) -> NoDup l1.
Proof.
  induction l1 as [|a l1 IH]; simpl; intros H.
  - constructor.
  - inversion H as [|a' l' Hn Hnd]; subst. constructor.
    + intros Hin. apply Hn. apply in_or_app. left. exact Hin.
    + apply IH. exact Hnd.
Qed.

Lemma NoDup_app_r {A} (l1 l2 : list A) : NoDup (l1 ++ l2) -> NoDup l2.
Proof.
  induction l1 as [|a l1 IH]; simpl; intros H.
  - exact H.
  - inversion H; subst. apply IH. assumption.
Qed.

Lemma NoDup_flat_map_in {A B} (f : A -> list B) l k :
  NoDup (flat_map f l) -> In k l -> NoDup (f k).
Proof.
  induction l as [|a l IH]; simpl; intros Hnd Hk.
  - contradiction.
  - destruct Hk as [->|Hk].
    + eapply NoDup_app_l. exact Hnd.
    + apply IH; [eapply NoDup_app_r; exact Hnd|exact Hk].
Qed.

Lemma mem_false k l : mem k l = false <-> ~ In k l.
Proof.
  rewrite <- mem_In. destruct (mem k l); split; intros H.
  - discriminate H.
  - exfalso. apply H. reflexivity.
  - intros H'. discriminate H'.
  - reflexivity.
Qed.

Lemma lookup_None_not_In {A} k (l : list (positive * A)) :
  lookup k l = None -> forall v, ~ In (k, v) l.
Proof.
  induction l as [|[k' v'] l IH]; simpl; intros H v Hin.
  - contradiction.
  - destruct (Pos.eqb_spec k k') as [->|Hne]; [discriminate|].
    destruct Hin as [Hin|Hin]; [injection Hin as <- _; contradiction|].
    apply (IH H v Hin).
Qed.

Lemma rename_part_ext rs t : forall S S',
  (forall x, In x (ids t) -> mem x S = mem x S') -> rename_part rs S t = rename_part rs S' t.
Proof.
  induction t as [j ty st en pl kids IH] using span_ind'. intros S S' H.
  cbn [rename_part]. rewrite (H j (or_introl eq_refl)). f_equal.
  apply map_ext_in. intros k Hk. rewrite Forall_forall in IH. apply (IH k Hk).
  intros x Hx. apply H. right. apply in_flat_map. exists k. split; assumption.
Qed.

Lemma rename_part_nil rs t : rename_part rs [] t = t.
Proof.
  induction t as [j ty st en pl kids IH] using span_ind'.
  cbn [rename_part mem]. f_equal.
  rewrite <- (map_id kids) at 2. apply map_ext_in. intros k Hk.
  rewrite Forall_forall in IH. apply IH. exact Hk.
Qed.

Lemma rename_part_all rs t : forall S,
  (forall i, In i (ids t) -> In i S) -> rename_part rs S t = rename_spec rs t.
Proof.
  induction t as [j ty st en pl kids IH] using span_ind'. intros S H.
  cbn [rename_part rename_spec].
  assert (Hj : mem j S = true) by (apply mem_In; apply H; left; reflexivity).
  rewrite Hj. unfold spec_ty. f_equal.
  apply map_ext_in. intros k Hk. rewrite Forall_forall in IH. apply (IH k Hk).
  intros x Hx. apply H. right. apply in_flat_map. exists k. split; assumption.
Qed.

Section Stable.
  Variable rs : rules.
  Hypothesis Hstable : rules_stable rs.

  Lemma stable_mem S k0 mapped cts k :
    In (k0, (mapped, cts)) rs ->
    mem (sty (rename_part rs S k)) cts = mem (sty k) cts.
  Proof.
    intros Hrule. destruct k as [j ty st en pl kids]. cbn [rename_part sty].
    destruct (mem j S); [|reflexivity].
    unfold spec_ty. destruct (lookup ty rs) as [[m' cts']|] eqn:E; [|reflexivity].
    destruct (existsb (fun k => mem (sty k) cts') kids); [|reflexivity].
    apply lookup_In in E.
    assert (H1 : mem m' cts = false).
    { apply mem_false. intros Hin.
      destruct (Hstable k0 mapped cts m' Hrule Hin) as [_ Hno].
      apply (Hno ty m' cts' E). reflexivity. }
    assert (H2 : mem ty cts = false).
    { apply mem_false. intros Hin.
      destruct (Hstable k0 mapped cts ty Hrule Hin) as [Hnone _].
      apply (lookup_None_not_In _ _ Hnone _ E). }
    rewrite H1, H2. reflexivity.
  Qed.
End Stable.

Section Stable2.
  Variable rs : rules.
  Hypothesis Hstable : rules_stable rs.

  Lemma stable_existsb S k0 mapped cts kids :
    In (k0, (mapped, cts)) rs ->
    existsb (fun k => mem (sty k) cts) (map (rename_part rs S) kids) =
    existsb (fun k => mem (sty k) cts) kids.
  Proof.
    intros Hrule. induction kids as [|k kids IH]; simpl.
    - reflexivity.
    - rewrite (stable_mem rs Hstable S k0 mapped cts k Hrule), IH. reflexivity.
  Qed.

  (** visiting [i] after the ids in [S] *)
  Lemma rename_at_part t : forall S i,
    NoDup (ids t) -> ~ In i S ->
    rename_at rs i (rename_part rs S t) = rename_part rs (i :: S) t.
  Proof.
    induction t as [j ty st en pl kids IH] using span_ind'. intros S i Hnd HiS.
    rewrite Forall_forall in IH.
    cbn [ids] in Hnd. inversion Hnd as [|j' l' Hjn Hnd']; subst.
    cbn [rename_part]. rewrite rename_at_unfold. cbn [mem].
    destruct (Pos.eqb_spec i j) as [->|Hne].
    - rewrite Pos.eqb_refl. cbn [orb].
      assert (Hm : mem j S = false) by (apply mem_false; exact HiS).
      rewrite Hm.
      assert (Hk : map (rename_part rs (j :: S)) kids = map (rename_part rs S) kids).
      { apply map_ext_in. intros k Hk. apply rename_part_ext. intros x Hx. cbn [mem].
        replace (x =? j)%positive with false; [reflexivity|].
        symmetry. apply Pos.eqb_neq. intros ->. apply Hjn. apply in_flat_map.
        exists k. split; assumption. }
      rewrite Hk. unfold spec_ty.
      destruct (lookup ty rs) as [[mapped cts]|] eqn:E; [|reflexivity].
      rewrite (stable_existsb S ty mapped cts kids (lookup_In _ _ _ E)).
      destruct (existsb (fun k => mem (sty k) cts) kids); reflexivity.
    - replace (j =? i)%positive with false
        by (symmetry; apply Pos.eqb_neq; intros ->; apply Hne; reflexivity).
      cbn [orb]. f_equal. rewrite map_map. apply map_ext_in. intros k Hk.
      apply (IH k Hk); [|exact HiS]. eapply NoDup_flat_map_in; eassumption.
  Qed.

  Lemma rename_fold t order : forall S,
    NoDup (ids t) -> NoDup order -> (forall i, In i order -> ~ In i S) ->
    fold_left (fun t i => rename_at rs i t) order (rename_part rs S t) =
    rename_part rs (rev order ++ S) t.
  Proof.
    induction order as [|i order IH]; intros S Hnd Hno HS; simpl.
    - reflexivity.
    - inversion Hno as [|i' o' Hin Hno']; subst.
      rewrite rename_at_part; [|exact Hnd|apply HS; left; reflexivity].
      rewrite IH; [|exact Hnd|exact Hno'|].
      + rewrite <- app_assoc. reflexivity.
      + intros x Hx [<-|HxS]; [contradiction|]. apply (HS x); [right; exact Hx|exact HxS].
  Qed.
End Stable2.

(** * 11. The stream-order pass computes the documented rule *)
Theorem rename_spec_correct : forall rs order t,
  NoDup (ids t) -> NoDup order -> (forall i, In i (ids t) -> In i order) ->
  (forall k mapped cts c, In (k, (mapped, cts)) rs -> In c cts ->
     lookup c rs = None /\ (forall k' m' cts', In (k', (m', cts')) rs -> m' <> c)) ->
  rename rs order t = rename_spec rs t.
Proof.
  intros rs order t Hnd Hno Hcov Hst. unfold rename.
  rewrite <- (rename_part_nil rs t) at 1.
  rewrite (rename_fold rs Hst t order []); [|exact Hnd|exact Hno|intros i _ []].
  apply rename_part_all. intros i Hi. apply in_or_app. left. apply in_rev.
  rewrite rev_involutive. apply Hcov. exact Hi.
Qed.

(** * Witnesses *)
Definition ex_rs_bad : rules := [(1, (2, [3])); (4, (3, [5]))]%positive.
Definition ex_t : span :=
  Span 1 1 0 10 1 [Span 2 4 1 9 1 [Span 3 5 2 8 1 []]].

(** child type 3 is the target of another rule: the outcome depends on the visiting order *)
Example rename_order_dependent :
  NoDup (ids ex_t) /\ ~ rules_stable ex_rs_bad /\
  rename ex_rs_bad [1; 2; 3]%positive ex_t <> rename ex_rs_bad [2; 1; 3]%positive ex_t /\
  rename ex_rs_bad [1; 2; 3]%positive ex_t = rename_spec ex_rs_bad ex_t /\
  sty (rename ex_rs_bad [1; 2; 3]%positive ex_t) = 1%positive /\
  sty (rename ex_rs_bad [2; 1; 3]%positive ex_t) = 2%positive.
Proof.
  split; [|split; [|split; [|split; [|split]]]].
  - simpl. repeat constructor; simpl; intuition discriminate.
  - intros H. destruct (H 1 2 [3] 3)%positive as [_ Hno].
    + left. reflexivity.
    + left. reflexivity.
    + apply (Hno 4 3 [5])%positive; [right; left; reflexivity|reflexivity].
  - vm_compute. intros H. discriminate H.
  - reflexivity.
  - reflexivity.
  - reflexivity.
Qed.

(** non-vacuity of [rename_spec_correct]: a stable rule set that fires *)
Definition ex_rs_ok : rules := [(1, (2, [4]))]%positive.

Example rename_spec_correct_witness :
  rules_stable ex_rs_ok /\ NoDup (ids ex_t) /\
  rename ex_rs_ok [3; 2; 1]%positive ex_t = rename_spec ex_rs_ok ex_t /\
  sty (rename ex_rs_ok [3; 2; 1]%positive ex_t) = 2%positive.
Proof.
  split; [|split; [|split]].
  - intros k mapped cts c Hin Hc. simpl in Hin.
    destruct Hin as [Hin|[]]. injection Hin as <- <- <-.
    destruct Hc as [<-|[]]. split; [reflexivity|].
    intros k' m' cts' [Hin'|[]]. injection Hin' as <- <- <-. discriminate.
  - simpl. repeat constructor; simpl; intuition discriminate.
  - reflexivity.
  - reflexivity.
Qed.
