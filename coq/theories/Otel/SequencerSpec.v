(** Specification-side definitions for the sequencer (no proofs in this file).
    Everything here is *about* the model in [Sequencer.v]; nothing here changes it. *)
From Coq Require Import ZArith List Bool.
From V Require Import Otel.Span Otel.Sequencer.
Import ListNotations.
Open Scope Z_scope.

(** * Generic stable insertion sort (the common shape of [ins]/[insg]/[ins_span]) *)
Section InsSort.
  Context {A : Type} (key : A -> Z).
  Fixpoint gins (x : A) (l : list A) : list A :=
    match l with
    | [] => [x]
    | y :: r => if key y <? key x then y :: gins x r else x :: l
    end.
  Definition gsort (l : list A) : list A := fold_right gins [] l.
End InsSort.

(** * Stable insertion sort of spans by start time (same shape as [ins]/[sort_items]) *)
Fixpoint ins_span (x : span) (l : list span) : list span :=
  match l with
  | [] => [x]
  | y :: r => if sst y <? sst x then y :: ins_span x r else x :: l
  end.
Definition sort_spans (l : list span) : list span := fold_right ins_span [] l.

(** The item the sequencer builds for a child span. *)
Definition item_of (async : bool) (m : gmap) (k : span) : item :=
  {| it_id := sid k; it_ty := sty k; it_st := sst k; it_en := sen k; it_run := seqf async m k |}.

(** * Predecessor paths in an emitted link list: [path o a b] = a is a (transitive) predecessor of b *)
Inductive path (o : links) : positive -> positive -> Prop :=
| path_step a b ps : In (b, ps) o -> In a ps -> path o a b
| path_trans a b c : path o a b -> path o b c -> path o a c.

(** * Synchronous chaining of siblings *)
Fixpoint chain (f : span -> list positive -> links) (cs : list span) (p : list positive)
  : links * list positive :=
  match cs with
  | [] => ([], p)
  | c :: r => let '(o, p') := chain f r [sid c] in (f c p ++ o, p')
  end.

(** number of events without predecessors *)
Definition nstart (o : links) : nat :=
  length (filter (fun e => match snd e with [] => true | _ => false end) o).

(** * Sweep line over units (groups) *)
Definition lo (u : list item) : Z := head_st u.
Definition hi (u : list item) : Z := max_en u.
Definition ov (a b : list item) : Prop := lo a <= hi b /\ lo b <= hi a.

(** reflexive-transitive closure of closed-interval overlap among the members of [us] *)
Inductive Chain (us : list (list item)) : list item -> list item -> Prop :=
| chain_refl a : In a us -> Chain us a a
| chain_step a b c : In a us -> In b us -> ov a b -> Chain us b c -> Chain us a c.

(** [merge_async] before flattening: the same sweep, but keeping the units of a group apart *)
Fixpoint merge_units (cur : list (list item)) (mx : Z) (gs : list (list item))
  : list (list (list item)) :=
  match gs with
  | [] => [cur]
  | g :: r => if mx <? lo g then cur :: merge_units [g] (hi g) r
              else merge_units (cur ++ [g]) (Z.max mx (hi g)) r
  end.

Fixpoint merge_units_v0 (cur : list (list item)) (gs : list (list item))
  : list (list (list item)) :=
  match gs with
  | [] => [cur]
  | g :: r => if last_en (concat cur) <? lo g then cur :: merge_units_v0 [g] r
              else merge_units_v0 (cur ++ [g]) r
  end.

Definition same_part (parts : list (list (list item))) (a b : list item) : Prop :=
  exists part, In part parts /\ In a part /\ In b part.

(** * Grouping by prior information *)
Definition same_group (gs : list (list item)) (x y : item) : Prop :=
  exists g, In g gs /\ In x g /\ In y g.

(** * Renaming: the state after the ids in [S] have been visited *)
Definition spec_ty (rs : rules) (ty : positive) (kids : list span) : positive :=
  match lookup ty rs with
  | Some (mapped, cts) => if existsb (fun k => mem (sty k) cts) kids then mapped else ty
  | None => ty
  end.

Fixpoint rename_part (rs : rules) (S : list positive) (t : span) : span :=
  match t with
  | Span j ty st en pl kids =>
      Span j (if mem j S then spec_ty rs ty kids else ty) st en pl (map (rename_part rs S) kids)
  end.

(** the side condition of [rename_spec_correct]: listed child types are never renamed and are
    never the target of a renaming *)
Definition rules_stable (rs : rules) : Prop :=
  forall k mapped cts c, In (k, (mapped, cts)) rs -> In c cts ->
    lookup c rs = None /\ (forall k' m' cts', In (k', (m', cts')) rs -> m' <> c).
