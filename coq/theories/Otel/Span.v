(** Span trees as the sequencer sees them.  No proofs in this file. *)
From Coq Require Import ZArith List Bool.
Import ListNotations.
Open Scope Z_scope.

(** [pl] is an opaque payload standing for (job_id, job_name, application_name). *)
Inductive span := Span (id : positive) (ty : positive) (st en : Z) (pl : positive) (kids : list span).

Definition sid s := match s with Span i _ _ _ _ _ => i end.
Definition sty s := match s with Span _ t _ _ _ _ => t end.
Definition sst s := match s with Span _ _ a _ _ _ => a end.
Definition sen s := match s with Span _ _ _ b _ _ => b end.
Definition spl s := match s with Span _ _ _ _ p _ => p end.
Definition skids s := match s with Span _ _ _ _ _ k => k end.

Fixpoint ids (s : span) : list positive :=
  match s with Span i _ _ _ _ kids => i :: flat_map ids kids end.

Fixpoint nodes (s : span) : list span :=
  match s with Span _ _ _ _ _ kids => s :: flat_map nodes kids end.

Fixpoint lookup {A} (k : positive) (l : list (positive * A)) : option A :=
  match l with
  | [] => None
  | (k', v) :: r => if Pos.eqb k k' then Some v else lookup k r
  end.

Fixpoint mem (k : positive) (l : list positive) : bool :=
  match l with [] => false | x :: r => Pos.eqb k x || mem k r end.

Fixpoint dedup (l : list positive) : list positive :=
  match l with
  | [] => []
  | x :: r => x :: filter (fun y => negb (Pos.eqb x y)) (dedup r)
  end.
