(** The sweep-line theorem: [merge_async] produces exactly the connected components of the
    closed-interval-overlap graph, in order; the pinned-tree variant does not. *)
From Coq Require Import ZArith List Bool Lia Permutation Sorted.
From V Require Import Otel.Span Otel.Sequencer Otel.SequencerSpec Otel.SequencerProofs.
Import ListNotations.
Open Scope Z_scope.

(** * [merge_units] is [merge_async] before flattening *)
Lemma merge_units_flatten gs : forall cur mx,
  map (@concat item) (merge_units cur mx gs) = merge_async (concat cur) mx gs.
Proof.
  induction gs as [|g r IH]; intros cur mx; simpl.
  - reflexivity.
  - unfold lo, hi. destruct (mx <? head_st g); simpl.
    + rewrite IH. simpl. rewrite app_nil_r. reflexivity.
    + rewrite IH. rewrite concat_app. simpl. rewrite app_nil_r. reflexivity.
Qed.

Lemma merge_units_v0_flatten gs : forall cur,
  map (@concat item) (merge_units_v0 cur gs) = merge_async_v0 (concat cur) gs.
Proof.
  induction gs as [|g r IH]; intros cur; simpl.
  - reflexivity.
  - unfold lo. destruct (last_en (concat cur) <? head_st g); simpl.
    + rewrite IH. simpl. rewrite app_nil_r. reflexivity.
    + rewrite IH. rewrite concat_app. simpl. rewrite app_nil_r. reflexivity.
Qed.

Lemma merge_units_concat gs : forall cur mx, concat (merge_units cur mx gs) = cur ++ gs.
Proof.
  induction gs as [|g r IH]; intros cur mx; simpl.
  - rewrite app_nil_r. reflexivity.
  - destruct (mx <? lo g); simpl; rewrite IH.
    + reflexivity.
    + rewrite <- app_assoc. reflexivity.
Qed.

Lemma merge_units_nonempty gs : forall cur mx,
  cur <> [] -> Forall (fun p => p <> []) (merge_units cur mx gs).
Proof.
  induction gs as [|g r IH]; intros cur mx Hc; simpl.
  - constructor; [exact Hc|constructor].
  - destruct (mx <? lo g).
    + constructor; [exact Hc|]. apply IH. discriminate.
    + apply IH. destruct cur; discriminate.
Qed.

(** * Chain is an equivalence on the members of [us] *)
Lemma ov_sym a b : ov a b -> ov b a.
Proof. unfold ov. tauto. Qed.

Lemma Chain_in_l us a b : Chain us a b -> In a us.
Proof. destruct 1; assumption. Qed.

Lemma Chain_in_r us a b : Chain us a b -> In b us.
Proof. induction 1; assumption. Qed.

Lemma Chain_trans us a b c : Chain us a b -> Chain us b c -> Chain us a c.
Proof.
  intros H. revert c. induction H as [a Ha|a b c' Ha Hb Hov _ IH]; intros c Hc.
  - exact Hc.
  - eapply chain_step; [exact Ha|exact Hb|exact Hov|]. apply IH. exact Hc.
Qed.

Lemma Chain_one us a b : In a us -> In b us -> ov a b -> Chain us a b.
Proof.
  intros Ha Hb Hov. eapply chain_step; [exact Ha|exact Hb|exact Hov|]. apply chain_refl. exact Hb.
Qed.

Lemma Chain_sym us a b : Chain us a b -> Chain us b a.
Proof.
  induction 1 as [a Ha|a b c Ha Hb Hov _ IH].
  - apply chain_refl. exact Ha.
  - eapply Chain_trans; [exact IH|]. apply Chain_one; [exact Hb|exact Ha|apply ov_sym; exact Hov].
Qed.

(** * Soundness: members of one part are chain-connected *)
Lemma merge_units_sound us gs : forall cur mx,
  incl cur us -> incl gs us ->
  (forall a b, In a cur -> In b cur -> Chain us a b) ->
  (exists m, In m cur /\ hi m = mx) ->
  (forall u g, In u cur -> In g gs -> lo u <= lo g) ->
  StronglySorted (fun a b => lo a <= lo b) gs ->
  Forall (fun u => lo u <= hi u) gs ->
  forall part, In part (merge_units cur mx gs) ->
  forall a b, In a part -> In b part -> Chain us a b.
Proof.
  induction gs as [|g r IH]; intros cur mx Hcu Hgu Hch Hmx Hlo Hs Hv part Hp a b Ha Hb; simpl in Hp.
  - destruct Hp as [<-|[]]. apply Hch; assumption.
  - apply StronglySorted_inv in Hs. destruct Hs as [Hs Hgr].
    rewrite Forall_forall in Hgr.
    inversion Hv as [|g' r' Hvg Hvr]; subst.
    assert (Hgin : In g us) by (apply Hgu; left; reflexivity).
    assert (Hru : incl r us) by (intros x Hx; apply Hgu; right; exact Hx).
    destruct (mx <? lo g) eqn:Ecmp.
    + destruct Hp as [<-|Hp].
      * apply Hch; assumption.
      * apply (IH [g] (hi g)) with (part := part); try assumption.
        -- intros x [<-|[]]. exact Hgin.
        -- intros x y [<-|[]] [<-|[]]. apply chain_refl. exact Hgin.
        -- exists g. split; [left; reflexivity|reflexivity].
        -- intros u v [<-|[]] Hv'. apply Hgr. exact Hv'.
    + apply Z.ltb_ge in Ecmp.
      destruct Hmx as [m [Hm Hmx]].
      assert (Hmg : Chain us m g).
      { apply Chain_one; [apply Hcu; exact Hm|exact Hgin|].
        split.
        - pose proof (Hlo m g Hm (or_introl eq_refl)). lia.
        - lia. }
      apply (IH (cur ++ [g]) (Z.max mx (hi g))) with (part := part); try assumption.
      * intros x Hx. apply in_app_or in Hx. destruct Hx as [Hx|[<-|[]]]; [apply Hcu; exact Hx|exact Hgin].
      * intros x y Hx Hy. apply in_app_or in Hx. apply in_app_or in Hy.
        destruct Hx as [Hx|[<-|[]]]; destruct Hy as [Hy|[<-|[]]].
        -- apply Hch; assumption.
        -- eapply Chain_trans; [apply (Hch x m Hx Hm)|exact Hmg].
        -- eapply Chain_trans; [apply Chain_sym; exact Hmg|apply (Hch m y Hm Hy)].
        -- apply chain_refl. exact Hgin.
      * destruct (Z.max_spec mx (hi g)) as [[_ E]|[_ E]]; rewrite E.
        -- exists g. split; [apply in_or_app; right; left; reflexivity|reflexivity].
        -- exists m. split; [apply in_or_app; left; exact Hm|exact Hmx].
      * intros u v Hu Hv'. apply in_app_or in Hu. destruct Hu as [Hu|[<-|[]]].
        -- apply Hlo; [exact Hu|right; exact Hv'].
        -- apply Hgr. exact Hv'.
Qed.

(** * Completeness: different parts are separated by a gap, so no chain crosses *)
Fixpoint Separated (parts : list (list (list item))) : Prop :=
  match parts with
  | [] => True
  | P :: rest => (forall u Q v, In u P -> In Q rest -> In v Q -> hi u < lo v) /\ Separated rest
  end.

Lemma merge_units_separated gs : forall cur mx,
  (forall u, In u cur -> hi u <= mx) ->
  StronglySorted (fun a b => lo a <= lo b) gs ->
  Separated (merge_units cur mx gs).
Proof.
  induction gs as [|g r IH]; intros cur mx Hmx Hs; simpl.
  - split; [intros u Q v _ []|exact I].
  - apply StronglySorted_inv in Hs. destruct Hs as [Hs Hgr]. rewrite Forall_forall in Hgr.
    destruct (mx <? lo g) eqn:Ecmp.
    + apply Z.ltb_lt in Ecmp. split.
      * intros u Q v Hu HQ Hv.
        assert (Hvin : In v ([g] ++ r)).
        { rewrite <- (merge_units_concat r [g] (hi g)). apply in_concat. exists Q. split; assumption. }
        pose proof (Hmx u Hu) as Hle.
        destruct Hvin as [<-|Hvin]; [lia|]. pose proof (Hgr v Hvin). lia.
      * apply IH; [|exact Hs]. intros u [<-|[]]. lia.
    + apply IH; [|exact Hs]. intros u Hu. apply in_app_or in Hu.
      destruct Hu as [Hu|[<-|[]]]; [pose proof (Hmx u Hu)|]; lia.
Qed.

Lemma separated_step parts : Separated parts ->
  forall P a b, In P parts -> In a P -> In b (concat parts) -> ov a b -> In b P.
Proof.
  induction parts as [|P0 rest IH]; intros Hsep P a b HP Ha Hb Hov.
  - contradiction.
  - destruct Hsep as [Hgap Hsep]. simpl in Hb. apply in_app_or in Hb.
    destruct HP as [->|HP].
    + destruct Hb as [Hb|Hb]; [exact Hb|].
      apply in_concat in Hb. destruct Hb as [Q [HQ HbQ]].
      pose proof (Hgap a Q b Ha HQ HbQ). destruct Hov. lia.
    + destruct Hb as [Hb|Hb].
      * pose proof (Hgap b P a Hb HP Ha). destruct Hov. lia.
      * apply (IH Hsep P a b HP Ha Hb Hov).
Qed.

Lemma separated_chain parts : Separated parts ->
  forall a b, Chain (concat parts) a b -> forall P, In P parts -> In a P -> In b P.
Proof.
  intros Hsep a b H. induction H as [a Ha|a b c Ha Hb Hov _ IH]; intros P HP HaP.
  - exact HaP.
  - apply IH; [exact HP|]. apply (separated_step parts Hsep P a b HP HaP Hb Hov).
Qed.

(** * 8. The sweep-line theorem *)
Theorem merge_units_components : forall g r,
  let us := g :: r in
  StronglySorted (fun a b => lo a <= lo b) us ->
  Forall (fun u => lo u <= hi u) us ->
  let parts := merge_units [g] (hi g) r in
  concat parts = us /\
  Forall (fun p => p <> []) parts /\
  (forall a b, In a us -> In b us -> (same_part parts a b <-> Chain us a b)).
Proof.
  intros g r us Hs Hv parts.
  assert (Hc : concat parts = us) by apply merge_units_concat.
  split; [exact Hc|]. split; [apply merge_units_nonempty; discriminate|].
  intros a b Ha Hb. split.
  - intros [part [Hp [Hap Hbp]]].
    pose proof Hs as Hs'. apply StronglySorted_inv in Hs'. destruct Hs' as [Hsr Hgr].
    rewrite Forall_forall in Hgr.
    inversion Hv as [|g' r' Hvg Hvr]; subst.
    apply (merge_units_sound us r [g] (hi g)) with (part := part); try assumption.
    + intros x [<-|[]]. left. reflexivity.
    + intros x Hx. right. exact Hx.
    + intros x y [<-|[]] [<-|[]]. apply chain_refl. left. reflexivity.
    + exists g. split; [left; reflexivity|reflexivity].
    + intros u v [<-|[]] Hv'. apply Hgr. exact Hv'.
  - intros Hch.
    assert (Hsep : Separated parts).
    { apply merge_units_separated.
      - intros u [<-|[]]. lia.
      - apply StronglySorted_inv in Hs. apply Hs. }
    rewrite <- Hc in Ha. apply in_concat in Ha. destruct Ha as [P [HP HaP]].
    exists P. split; [exact HP|]. split; [exact HaP|].
    rewrite <- Hc in Hch. apply (separated_chain parts Hsep a b Hch P HP HaP).
Qed.

Theorem merge_async_components : forall g r,
  let us := g :: r in
  StronglySorted (fun a b => lo a <= lo b) us ->
  Forall (fun u => u <> [] /\ lo u <= hi u) us ->
  let res := merge_async g (max_en g) r in
  let parts := merge_units [g] (hi g) r in
  concat res = concat us /\
  concat parts = us /\ map (@concat item) parts = res /\ Forall (fun p => p <> []) parts /\
  (forall a b, In a us -> In b us -> (same_part parts a b <-> Chain us a b)).
Proof.
  intros g r us Hs Hv res parts.
  assert (Hv' : Forall (fun u => lo u <= hi u) us).
  { eapply Forall_impl; [|exact Hv]. intros u [_ H]. exact H. }
  destruct (merge_units_components g r Hs Hv') as [H1 [H2 H3]].
  split; [|split; [exact H1|split; [|split; [exact H2|exact H3]]]].
  - unfold res. rewrite merge_async_concat. reflexivity.
  - unfold parts, res. rewrite merge_units_flatten. simpl. rewrite app_nil_r. reflexivity.
Qed.

(** * Well-formed units really satisfy the hypotheses: [lo u <= hi u] whenever the first member
      of [u] has [start <= end] *)
Lemma fold_max_ge l : forall a, a <= fold_left (fun m (y : item) => Z.max m (it_en y)) l a.
Proof.
  induction l as [|y l IH]; intros a; simpl.
  - lia.
  - specialize (IH (Z.max a (it_en y))). lia.
Qed.

Lemma lo_le_hi x u : it_st x <= it_en x -> lo (x :: u) <= hi (x :: u).
Proof.
  intros H. unfold lo, hi. simpl. pose proof (fold_max_ge u (it_en x)). lia.
Qed.

(** * 8'. The theorem applies to what [async_groups] feeds the sweep: the groups produced by
      the asynchronous sequencing are the overlap components of the ordered prior groups *)
Lemma order_groups_sorted gs : StronglySorted (fun a b => lo a <= lo b) (order_groups gs).
Proof. unfold order_groups. rewrite sort_groups_gsort. apply (gsort_sorted head_st). Qed.

Lemma order_groups_valid gs :
  Forall (fun g => g <> []) gs ->
  (forall g x, In g gs -> In x g -> it_st x <= it_en x) ->
  Forall (fun u => u <> [] /\ lo u <= hi u) (order_groups gs).
Proof.
  intros Hne Hwf. apply Forall_forall. intros u Hu.
  unfold order_groups in Hu. rewrite sort_groups_gsort in Hu. apply gsort_in in Hu.
  apply in_map_iff in Hu. destruct Hu as [g [<- Hg]].
  rewrite Forall_forall in Hne. pose proof (Hne g Hg) as Hgne.
  rewrite sort_items_gsort.
  pose proof (gsort_nonempty it_st g Hgne) as Hsne.
  split; [exact Hsne|].
  destruct (gsort it_st g) as [|x u'] eqn:E; [contradiction|].
  apply lo_le_hi. apply (Hwf g x Hg). apply (gsort_in it_st). rewrite E. left. reflexivity.
Qed.

Theorem async_groups_components : forall gs,
  Forall (fun g => g <> []) gs ->
  (forall g x, In g gs -> In x g -> it_st x <= it_en x) ->
  match order_groups gs with
  | [] => async_groups gs = []
  | g :: r =>
      let us := g :: r in
      let parts := merge_units [g] (hi g) r in
      async_groups gs = map (@concat item) parts /\ concat parts = us /\
      Forall (fun p => p <> []) parts /\
      (forall a b, In a us -> In b us -> (same_part parts a b <-> Chain us a b))
  end.
Proof.
  intros gs Hne Hwf.
  pose proof (order_groups_sorted gs) as Hs. pose proof (order_groups_valid gs Hne Hwf) as Hv.
  unfold async_groups. destruct (order_groups gs) as [|g r]; [reflexivity|].
  destruct (merge_async_components g r Hs Hv) as [_ [H1 [H2 [H3 H4]]]].
  cbv zeta. split; [symmetry; exact H2|]. split; [exact H1|]. split; [exact H3|exact H4].
Qed.

(** * 9. The pinned tree (compare with the last appended member) is refuted *)
Definition mk (i : positive) (s e : Z) : item :=
  {| it_id := i; it_ty := i; it_st := s; it_en := e; it_run := fun _ => [] |}.
Definition uA := [mk 1 0 100].
Definition uB := [mk 2 10 20].
Definition uC := [mk 3 30 40].

Example ex_units_sorted : StronglySorted (fun a b => lo a <= lo b) [uA; uB; uC].
Proof.
  repeat (constructor; [|repeat constructor; unfold lo, uA, uB, uC; simpl; lia]). constructor.
Qed.

Example ex_units_valid : Forall (fun u => u <> [] /\ lo u <= hi u) [uA; uB; uC].
Proof.
  repeat constructor; try discriminate; unfold lo, hi, uA, uB, uC; simpl; lia.
Qed.

(** the repaired sweep puts all three into one group ... *)
Example ex_merge_async : merge_async uA (max_en uA) [uB; uC] = [uA ++ uB ++ uC].
Proof. reflexivity. Qed.

(** ... the pinned tree does not *)
Example ex_merge_async_v0 : merge_async_v0 uA [uB; uC] = [uA ++ uB; uC].
Proof. reflexivity. Qed.

Theorem merge_async_v0_refuted :
  exists g r, let us := g :: r in
    StronglySorted (fun a b => lo a <= lo b) us /\
    Forall (fun u => u <> [] /\ lo u <= hi u) us /\
    map (@concat item) (merge_units_v0 [g] r) = merge_async_v0 g r /\
    concat (merge_units_v0 [g] r) = us /\
    exists a c, In a us /\ In c us /\ ov a c /\ Chain us a c /\
      ~ same_part (merge_units_v0 [g] r) a c /\
      (* the same, stated on the flattened output: no output group holds a member of both *)
      ~ (exists grp x z, In grp (merge_async_v0 g r) /\ In x a /\ In z c /\ In x grp /\ In z grp).
Proof.
  exists uA, [uB; uC]. cbv zeta.
  split; [exact ex_units_sorted|]. split; [exact ex_units_valid|].
  split; [reflexivity|]. split; [reflexivity|].
  exists uA, uC.
  assert (Hov : ov uA uC) by (unfold ov, lo, hi, uA, uC; simpl; lia).
  split; [left; reflexivity|]. split; [right; right; left; reflexivity|].
  split; [exact Hov|]. split.
  - apply Chain_one; [left; reflexivity|right; right; left; reflexivity|exact Hov].
  - split.
    + intros [part [Hp [Ha Hc]]]. simpl in Hp.
      destruct Hp as [<-|[<-|[]]].
      * destruct Hc as [Hc|[Hc|[]]]; discriminate Hc.
      * destruct Ha as [Ha|[]]. discriminate Ha.
    + intros [grp [x [z [Hg [Hx [Hz [Hxg Hzg]]]]]]].
      destruct Hx as [<-|[]]. destruct Hz as [<-|[]]. simpl in Hg.
      destruct Hg as [<-|[<-|[]]].
      * destruct Hzg as [Hz|[Hz|[]]]; apply (f_equal it_id) in Hz; discriminate Hz.
      * destruct Hxg as [Hx|[]]. apply (f_equal it_id) in Hx. discriminate Hx.
Qed.

(** Non-vacuity of 8 on the same units: one component. *)
Example ex_components : same_part (merge_units [uA] (hi uA) [uB; uC]) uA uC.
Proof.
  apply (proj2 (proj2 (merge_units_components uA [uB; uC] ex_units_sorted
           (Forall_impl _ (fun u H => proj2 H) ex_units_valid)))).
  - left. reflexivity.
  - right. right. left. reflexivity.
  - apply Chain_one; [left; reflexivity|right; right; left; reflexivity|].
    unfold ov, lo, hi, uA, uC; simpl; lia.
Qed.
