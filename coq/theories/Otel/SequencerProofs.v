(** Proofs about the sequencing rules ([Sequencer.v]): grouping is a partition, every span is
    emitted once, emission order is topological, root last, descendants precede, synchronous
    chaining. *)
From Coq Require Import ZArith List Bool Lia Permutation Sorted.
From V Require Import Otel.Span Otel.Sequencer Otel.SequencerSpec.
Import ListNotations.
Open Scope Z_scope.

(** * Nested induction on spans *)
Fixpoint span_ind' (P : span -> Prop)
  (H : forall i ty st en pl kids, Forall P kids -> P (Span i ty st en pl kids))
  (s : span) {struct s} : P s :=
  match s with
  | Span i ty st en pl kids =>
      H i ty st en pl kids
        ((fix go (l : list span) : Forall P l :=
            match l with
            | [] => Forall_nil P
            | k :: r => Forall_cons k (span_ind' P H k) (go r)
            end) kids)
  end.

(** * The three insertion sorts are instances of [gins]/[gsort] *)
Lemma ins_gins : ins = gins it_st. Proof. reflexivity. Qed.
Lemma sort_items_gsort : sort_items = gsort it_st. Proof. reflexivity. Qed.
Lemma insg_gins : insg = gins head_st. Proof. reflexivity. Qed.
Lemma sort_groups_gsort : sort_groups = gsort head_st. Proof. reflexivity. Qed.
Lemma ins_span_gins : ins_span = gins sst. Proof. reflexivity. Qed.
Lemma sort_spans_gsort : sort_spans = gsort sst. Proof. reflexivity. Qed.

Section GSort.
  Context {A : Type} (key : A -> Z).

  Lemma gins_perm x l : Permutation (gins key x l) (x :: l).
  Proof.
    induction l as [|y r IH]; simpl.
    - reflexivity.
    - destruct (key y <? key x).
      + transitivity (y :: x :: r); [apply perm_skip; exact IH | apply perm_swap].
      + reflexivity.
  Qed.

  Lemma gsort_perm l : Permutation (gsort key l) l.
  Proof.
    induction l as [|x l IH]; simpl.
    - constructor.
    - fold (gsort key l). rewrite gins_perm. apply perm_skip. exact IH.
  Qed.

  Lemma gsort_in x l : In x (gsort key l) <-> In x l.
  Proof.
    split; apply Permutation_in; [|symmetry]; apply gsort_perm.
  Qed.

  Lemma gsort_nonempty l : l <> [] -> gsort key l <> [].
  Proof.
    intros Hl He. apply Hl. apply Permutation_nil. rewrite <- He. apply gsort_perm.
  Qed.

  Lemma gsort_Forall (P : A -> Prop) l : Forall P l -> Forall P (gsort key l).
  Proof.
    intros H. rewrite Forall_forall in *. intros x Hx. apply H. apply gsort_in. exact Hx.
  Qed.

  Lemma gins_sorted x l :
    StronglySorted (fun a b => key a <= key b) l ->
    StronglySorted (fun a b => key a <= key b) (gins key x l).
  Proof.
    induction l as [|y r IH]; intros Hs; simpl.
    - constructor; constructor.
    - apply StronglySorted_inv in Hs. destruct Hs as [Hr Hy].
      destruct (key y <? key x) eqn:E.
      + apply Z.ltb_lt in E. constructor; [apply IH; exact Hr|].
        rewrite Forall_forall in *. intros z Hz.
        apply (Permutation_in _ (gins_perm x r)) in Hz.
        destruct Hz as [<-|Hz]; [lia|apply Hy; exact Hz].
      + apply Z.ltb_ge in E. constructor; [constructor; assumption|].
        constructor; [exact E|].
        rewrite Forall_forall in *. intros z Hz. specialize (Hy z Hz). lia.
  Qed.

  Lemma gsort_sorted l : StronglySorted (fun a b => key a <= key b) (gsort key l).
  Proof.
    induction l as [|x l IH]; simpl.
    - constructor.
    - apply gins_sorted. exact IH.
  Qed.

  Context {B : Type} (keyB : B -> Z) (f : B -> A) (Hkey : forall b, key (f b) = keyB b).

  Lemma gins_map x l : gins key (f x) (map f l) = map f (gins keyB x l).
  Proof.
    induction l as [|y r IH]; simpl.
    - reflexivity.
    - rewrite !Hkey. destruct (keyB y <? keyB x); simpl.
      + rewrite IH. reflexivity.
      + reflexivity.
  Qed.

  Lemma gsort_map l : gsort key (map f l) = map f (gsort keyB l).
  Proof.
    induction l as [|x l IH]; simpl.
    - reflexivity.
    - fold (gsort key (map f l)). fold (gsort keyB l). rewrite IH. apply gins_map.
  Qed.
End GSort.

(** * Small list facts *)
Lemma Permutation_concat {A} (l l' : list (list A)) :
  Permutation l l' -> Permutation (concat l) (concat l').
Proof.
  induction 1 as [|x l l' _ IH|x y l|l l' l'' _ IH1 _ IH2]; simpl.
  - constructor.
  - apply Permutation_app_head. exact IH.
  - rewrite !app_assoc. apply Permutation_app_tail. apply Permutation_app_comm.
  - etransitivity; eassumption.
Qed.

Lemma concat_filter_nonempty {A} (l : list (list A)) : concat (filter is_nonempty l) = concat l.
Proof.
  induction l as [|g l IH]; simpl.
  - reflexivity.
  - destruct g as [|x g]; simpl.
    + exact IH.
    + rewrite IH. reflexivity.
Qed.

Lemma filter_nonempty_Forall {A} (l : list (list A)) : Forall (fun g => g <> []) (filter is_nonempty l).
Proof.
  apply Forall_forall. intros g Hg. apply filter_In in Hg. destruct Hg as [_ Hg].
  destruct g; [discriminate|discriminate].
Qed.

Lemma concat_map_nil {A B} (D : list A) : concat (map (fun _ => @nil B) D) = [].
Proof. induction D as [|d D IH]; simpl; auto. Qed.

Lemma lookup_In {A} k (l : list (positive * A)) v : lookup k l = Some v -> In (k, v) l.
Proof.
  induction l as [|[k' v'] l IH]; simpl.
  - discriminate.
  - destruct (Pos.eqb_spec k k') as [->|Hne].
    + intros H. injection H as ->. left. reflexivity.
    + intros H. right. apply IH. exact H.
Qed.

Lemma lookup_In_snd {A} k (l : list (positive * A)) v : lookup k l = Some v -> In v (map snd l).
Proof.
  intros H. apply lookup_In in H. apply in_map_iff. exists (k, v). split; [reflexivity|exact H].
Qed.

Lemma mem_In k l : mem k l = true <-> In k l.
Proof.
  induction l as [|x l IH]; simpl.
  - split; [discriminate|contradiction].
  - rewrite orb_true_iff, IH. split.
    + intros [H|H]; [left; symmetry; apply Pos.eqb_eq; exact H | right; exact H].
    + intros [H|H]; [left; apply Pos.eqb_eq; symmetry; exact H | right; exact H].
Qed.

Lemma dedup_In x l : In x (dedup l) <-> In x l.
Proof.
  induction l as [|a l IH]; simpl.
  - reflexivity.
  - split.
    + intros [H|H]; [left; exact H|]. apply filter_In in H. right. apply IH. apply H.
    + intros [H|H]; [left; exact H|].
      destruct (Pos.eqb_spec a x) as [->|Hne]; [left; reflexivity|].
      right. apply filter_In. split; [apply IH; exact H|].
      apply negb_true_iff. apply Pos.eqb_neq. exact Hne.
Qed.

Lemma dedup_NoDup l : NoDup (dedup l).
Proof.
  induction l as [|a l IH]; simpl.
  - constructor.
  - constructor.
    + intros H. apply filter_In in H. destruct H as [_ H].
      rewrite Pos.eqb_refl in H. discriminate.
    + apply NoDup_filter. exact IH.
Qed.

(** * 1. Grouping is a partition of the children into non-empty groups *)
Definition pg_body (gm : list (positive * positive)) (l : list item) : list (list item) :=
  map (fun g => filter (in_group gm g) l) (dedup (map snd gm))
  ++ map (fun x => [x]) (filter (unlisted gm) l).

Lemma prior_groups_v0_eq gm l :
  prior_groups_v0 gm l = match l with [] => [] | _ => pg_body gm l end.
Proof. reflexivity. Qed.

Lemma groups_cons_none (P : positive -> item -> bool) D x l :
  (forall g, In g D -> P g x = false) ->
  map (fun g => filter (P g) (x :: l)) D = map (fun g => filter (P g) l) D.
Proof.
  intros H. apply map_ext_in. intros g Hg. simpl. rewrite (H g Hg). reflexivity.
Qed.

Lemma groups_cons_one (P : positive -> item -> bool) D x l g0 :
  NoDup D -> In g0 D -> (forall g, In g D -> P g x = Pos.eqb g0 g) ->
  Permutation (concat (map (fun g => filter (P g) (x :: l)) D))
              (x :: concat (map (fun g => filter (P g) l) D)).
Proof.
  induction D as [|d D IH]; intros Hnd Hin HP.
  - contradiction.
  - inversion Hnd as [|d' D' Hnotin Hnd']; subst.
    destruct Hin as [->|Hin].
    + cbn [map concat]. rewrite groups_cons_none.
      * cbn [filter]. rewrite (HP g0 (or_introl eq_refl)), Pos.eqb_refl. reflexivity.
      * intros g Hg. rewrite (HP g (or_intror Hg)). apply Pos.eqb_neq.
        intros ->. contradiction.
    + cbn [map concat]. cbn [filter].
      rewrite (HP d (or_introl eq_refl)).
      replace (g0 =? d)%positive with false
        by (symmetry; apply Pos.eqb_neq; intros ->; contradiction).
      etransitivity.
      * apply Permutation_app_head. apply IH; [exact Hnd'|exact Hin|].
        intros g Hg. apply HP. right. exact Hg.
      * symmetry. apply Permutation_middle.
Qed.

Lemma pg_body_perm gm l : Permutation (concat (pg_body gm l)) l.
Proof.
  induction l as [|x l IH]; unfold pg_body in *; rewrite concat_app in *.
  - cbn [filter map concat]. rewrite concat_map_nil. constructor.
  - destruct (lookup (it_ty x) gm) as [g0|] eqn:E.
    + assert (Hu : unlisted gm x = false) by (unfold unlisted; rewrite E; reflexivity).
      cbn [filter]. rewrite Hu.
      etransitivity.
      * apply Permutation_app_tail.
        apply (groups_cons_one (in_group gm) _ x l g0).
        -- apply dedup_NoDup.
        -- apply dedup_In. eapply lookup_In_snd. exact E.
        -- intros g _. unfold in_group. rewrite E. apply Pos.eqb_sym.
      * simpl. apply perm_skip. exact IH.
    + assert (Hu : unlisted gm x = true) by (unfold unlisted; rewrite E; reflexivity).
      rewrite groups_cons_none.
      * cbn [filter]. rewrite Hu. cbn [map concat app].
        symmetry. apply Permutation_cons_app. symmetry. exact IH.
      * intros g _. unfold in_group. rewrite E. reflexivity.
Qed.

Lemma prior_groups_perm gm l : Permutation (concat (prior_groups gm l)) l.
Proof.
  unfold prior_groups. rewrite concat_filter_nonempty, prior_groups_v0_eq.
  destruct l as [|x l]; [constructor|apply pg_body_perm].
Qed.

Lemma prior_groups_nonempty gm l : Forall (fun g => g <> []) (prior_groups gm l).
Proof. apply filter_nonempty_Forall. Qed.

Lemma concat_map_sort_items gs : Permutation (concat (map sort_items gs)) (concat gs).
Proof.
  induction gs as [|g gs IH]; simpl.
  - constructor.
  - apply Permutation_app; [apply (gsort_perm it_st)|exact IH].
Qed.

Lemma order_groups_perm gs : Permutation (concat (order_groups gs)) (concat gs).
Proof.
  unfold order_groups. etransitivity.
  - apply Permutation_concat. apply (gsort_perm head_st).
  - apply concat_map_sort_items.
Qed.

Lemma order_groups_nonempty gs :
  Forall (fun g => g <> []) gs -> Forall (fun g => g <> []) (order_groups gs).
Proof.
  intros H. unfold order_groups. apply (gsort_Forall head_st).
  apply Forall_forall. intros g Hg. apply in_map_iff in Hg. destruct Hg as [g' [<- Hg']].
  apply (gsort_nonempty it_st). rewrite Forall_forall in H. apply H. exact Hg'.
Qed.

Lemma merge_async_concat gs : forall cur mx, concat (merge_async cur mx gs) = cur ++ concat gs.
Proof.
  induction gs as [|g r IH]; intros cur mx; simpl.
  - reflexivity.
  - destruct (mx <? head_st g); simpl; rewrite IH.
    + reflexivity.
    + rewrite app_assoc. reflexivity.
Qed.

Lemma merge_async_nonempty gs : forall cur mx,
  cur <> [] -> Forall (fun g => g <> []) gs -> Forall (fun g => g <> []) (merge_async cur mx gs).
Proof.
  induction gs as [|g r IH]; intros cur mx Hc Hgs; simpl.
  - constructor; [exact Hc|constructor].
  - inversion Hgs as [|g' r' Hg Hr]; subst.
    destruct (mx <? head_st g).
    + constructor; [exact Hc|]. apply IH; assumption.
    + apply IH; [|exact Hr]. destruct cur; [contradiction|discriminate].
Qed.

Lemma async_groups_perm gs : Permutation (concat (async_groups gs)) (concat gs).
Proof.
  unfold async_groups. pose proof (order_groups_perm gs) as H.
  destruct (order_groups gs) as [|g r].
  - exact H.
  - rewrite merge_async_concat. exact H.
Qed.

Lemma async_groups_nonempty gs :
  Forall (fun g => g <> []) gs -> Forall (fun g => g <> []) (async_groups gs).
Proof.
  intros H. unfold async_groups. pose proof (order_groups_nonempty gs H) as Ho.
  destruct (order_groups gs) as [|g r].
  - constructor.
  - inversion Ho; subst. apply merge_async_nonempty; assumption.
Qed.

Theorem event_groups_perm : forall async gm l,
  Permutation (concat (event_groups async gm l)) l /\
  Forall (fun g => g <> []) (event_groups async gm l).
Proof.
  intros async gm l. unfold event_groups. destruct async.
  - split.
    + etransitivity; [apply async_groups_perm|apply prior_groups_perm].
    + apply async_groups_nonempty. apply prior_groups_nonempty.
  - split.
    + etransitivity; [apply order_groups_perm|apply prior_groups_perm].
    + apply order_groups_nonempty. apply prior_groups_nonempty.
Qed.

(** * Unfolding [seqf] *)
Lemma seqf_unfold async m i ty st en pl kids p :
  seqf async m (Span i ty st en pl kids) p =
  let '(out, p') := run_groups (event_groups async (gm_of m ty) (map (item_of async m) kids)) p in
  out ++ [(i, p')].
Proof. reflexivity. Qed.

Lemma event_groups_items async m gm kids it :
  In it (concat (event_groups async gm (map (item_of async m) kids))) ->
  exists k, In k kids /\ it = item_of async m k.
Proof.
  intros H. destruct (event_groups_perm async gm (map (item_of async m) kids)) as [Hp _].
  apply (Permutation_in _ Hp) in H. apply in_map_iff in H. destruct H as [k [<- Hk]].
  exists k. split; [exact Hk|reflexivity].
Qed.

(** * 4. The root is emitted last *)
Theorem seq_root_last : forall async m t p, exists o ps, seqf async m t p = o ++ [(sid t, ps)].
Proof.
  intros async m [i ty st en pl kids] p. rewrite seqf_unfold.
  destruct (run_groups _ p) as [out p']. exists out, p'. reflexivity.
Qed.

Lemma seq_root_in async m t p : In (sid t) (map fst (seqf async m t p)).
Proof.
  destruct (seq_root_last async m t p) as [o [ps ->]].
  rewrite map_app. apply in_or_app. right. left. reflexivity.
Qed.

(** * 2. Every span is emitted exactly once *)
Lemma flat_map_run_perm (W : item -> list positive) prev g :
  (forall it, In it g -> Permutation (map fst (it_run it prev)) (W it)) ->
  Permutation (map fst (flat_map (fun it => it_run it prev) g)) (flat_map W g).
Proof.
  induction g as [|it g IH]; intros H; simpl.
  - constructor.
  - rewrite map_app. apply Permutation_app.
    + apply H. left. reflexivity.
    + apply IH. intros it' Hit'. apply H. right. exact Hit'.
Qed.

Lemma run_groups_ids (W : item -> list positive) gs :
  (forall it p, In it (concat gs) -> Permutation (map fst (it_run it p)) (W it)) ->
  forall prev, Permutation (map fst (fst (run_groups gs prev))) (flat_map W (concat gs)).
Proof.
  induction gs as [|g r IH]; intros H prev; simpl.
  - constructor.
  - specialize (IH (fun it p Hit => H it p (in_or_app _ _ _ (or_intror Hit))) (map it_id g)).
    destruct (run_groups r (map it_id g)) as [o2 p2]. simpl in *.
    rewrite map_app, flat_map_app. apply Permutation_app; [|exact IH].
    apply flat_map_run_perm. intros it Hit. apply H. apply in_or_app. left. exact Hit.
Qed.

Lemma flat_map_map_perm {A B C} (W : B -> list C) (h : A -> B) (g : A -> list C) l :
  Forall (fun k => Permutation (W (h k)) (g k)) l ->
  Permutation (flat_map W (map h l)) (flat_map g l).
Proof.
  induction 1 as [|k l Hk _ IH]; simpl.
  - constructor.
  - apply Permutation_app; assumption.
Qed.

Theorem seq_once : forall async m t p, Permutation (map fst (seqf async m t p)) (ids t).
Proof.
  intros async m t. induction t as [i ty st en pl kids IH] using span_ind'. intros p.
  rewrite seqf_unfold.
  set (items := map (item_of async m) kids).
  set (gs := event_groups async (gm_of m ty) items).
  pose proof (run_groups_ids (fun it => map fst (it_run it [])) gs) as HR.
  assert (Hit : forall it q, In it (concat gs) ->
            Permutation (map fst (it_run it q)) (map fst (it_run it []))).
  { intros it q Hin. apply event_groups_items in Hin. destruct Hin as [k [Hk ->]].
    rewrite Forall_forall in IH. simpl.
    etransitivity; [apply (IH k Hk)|symmetry; apply (IH k Hk)]. }
  specialize (HR Hit p).
  destruct (run_groups gs p) as [out p']. simpl in HR.
  rewrite map_app. simpl.
  etransitivity; [symmetry; apply Permutation_cons_append|].
  apply perm_skip.
  etransitivity; [exact HR|].
  etransitivity.
  - apply Permutation_flat_map. apply (proj1 (event_groups_perm async (gm_of m ty) items)).
  - unfold items. apply flat_map_map_perm.
    apply Forall_forall. intros k Hk. rewrite Forall_forall in IH. simpl. apply IH. exact Hk.
Qed.

(** * 3. The emission order is topological *)
Fixpoint topo_l (seen : list positive) (o : links) : Prop :=
  match o with
  | [] => True
  | (i, ps) :: r => (forall q, In q ps -> In q seen) /\ topo_l (i :: seen) r
  end.

Lemma topo_l_mono o : forall s s', (forall q, In q s -> In q s') -> topo_l s o -> topo_l s' o.
Proof.
  induction o as [|[i ps] r IH]; intros s s' Hs H; simpl in *.
  - exact I.
  - destruct H as [H1 H2]. split.
    + intros q Hq. apply Hs. apply H1. exact Hq.
    + apply (IH (i :: s)); [|exact H2].
      intros q [Hq|Hq]; [left; exact Hq|right; apply Hs; exact Hq].
Qed.

Lemma topo_l_app o : forall o' s, topo_l s o -> topo_l (map fst o ++ s) o' -> topo_l s (o ++ o').
Proof.
  induction o as [|[i ps] r IH]; intros o' s H H'; simpl in *.
  - exact H'.
  - destruct H as [H1 H2]. split; [exact H1|].
    apply IH; [exact H2|].
    apply (topo_l_mono o' (i :: map fst r ++ s)); [|exact H'].
    intros q [Hq|Hq].
    + apply in_or_app. right. left. exact Hq.
    + apply in_app_or in Hq. apply in_or_app. destruct Hq as [Hq|Hq]; [left; exact Hq|right; right; exact Hq].
Qed.

Lemma topo_l_split o1 : forall o s i ps o2, topo_l s o -> o = o1 ++ (i, ps) :: o2 ->
  forall q, In q ps -> In q s \/ In q (map fst o1).
Proof.
  induction o1 as [|[j qs] o1 IH]; intros o s i ps o2 H -> q Hq; simpl in *.
  - left. apply H. exact Hq.
  - destruct H as [_ H2].
    destruct (IH _ _ _ _ _ H2 eq_refl q Hq) as [[Hj|Hs]|Ho].
    + right. left. exact Hj.
    + left. exact Hs.
    + right. right. exact Ho.
Qed.

Lemma flat_map_run_topo prev g : forall s,
  (forall it, In it g -> forall p s', incl p s' -> topo_l s' (it_run it p)) ->
  incl prev s -> topo_l s (flat_map (fun it => it_run it prev) g).
Proof.
  induction g as [|it g IH]; intros s H Hp; simpl.
  - exact I.
  - apply topo_l_app.
    + apply H; [left; reflexivity|exact Hp].
    + apply IH.
      * intros it' Hit'. apply H. right. exact Hit'.
      * intros q Hq. apply in_or_app. right. apply Hp. exact Hq.
Qed.

Lemma run_groups_topo gs :
  (forall it, In it (concat gs) -> forall p s, incl p s -> topo_l s (it_run it p)) ->
  (forall it, In it (concat gs) -> forall p, In (it_id it) (map fst (it_run it p))) ->
  forall prev s, incl prev s ->
    topo_l s (fst (run_groups gs prev)) /\
    incl (snd (run_groups gs prev)) (map fst (fst (run_groups gs prev)) ++ s).
Proof.
  induction gs as [|g r IH]; intros H1 H2 prev s Hp; simpl.
  - split; [exact I|exact Hp].
  - set (out := flat_map (fun it => it_run it prev) g).
    assert (Hout : topo_l s out).
    { apply flat_map_run_topo; [|exact Hp].
      intros it Hit. apply H1. apply in_or_app. left. exact Hit. }
    assert (Hids : incl (map it_id g) (map fst out ++ s)).
    { intros q Hq. apply in_map_iff in Hq. destruct Hq as [it [<- Hit]].
      apply in_or_app. left. unfold out. rewrite flat_map_concat_map, concat_map.
      apply in_concat. exists (map fst (it_run it prev)). split.
      - apply in_map_iff. exists (it_run it prev). split; [reflexivity|].
        apply in_map_iff. exists it. split; [reflexivity|exact Hit].
      - apply H2. apply in_or_app. left. exact Hit. }
    specialize (IH (fun it Hit => H1 it (in_or_app _ _ _ (or_intror Hit)))
                   (fun it Hit => H2 it (in_or_app _ _ _ (or_intror Hit)))
                   (map it_id g) (map fst out ++ s) Hids).
    destruct (run_groups r (map it_id g)) as [o2 p2]. simpl in *.
    destruct IH as [IHa IHb]. split.
    + apply topo_l_app; assumption.
    + rewrite map_app, <- app_assoc. intros q Hq. apply IHb in Hq.
      rewrite !in_app_iff in *. tauto.
Qed.

Lemma seq_topo_l async m t : forall p s, incl p s -> topo_l s (seqf async m t p).
Proof.
  induction t as [i ty st en pl kids IH] using span_ind'. intros p s Hp.
  rewrite seqf_unfold.
  set (gs := event_groups async (gm_of m ty) (map (item_of async m) kids)).
  assert (H1 : forall it, In it (concat gs) -> forall p s, incl p s -> topo_l s (it_run it p)).
  { intros it Hin. apply event_groups_items in Hin. destruct Hin as [k [Hk ->]].
    rewrite Forall_forall in IH. simpl. apply IH. exact Hk. }
  assert (H2 : forall it, In it (concat gs) -> forall p, In (it_id it) (map fst (it_run it p))).
  { intros it Hin q. apply event_groups_items in Hin. destruct Hin as [k [Hk ->]].
    simpl. apply seq_root_in. }
  destruct (run_groups_topo gs H1 H2 p s Hp) as [Ha Hb].
  destruct (run_groups gs p) as [out p']. simpl in *.
  apply topo_l_app; [exact Ha|].
  simpl. split; [exact Hb|exact I].
Qed.

Theorem seq_topological : forall async m t p o1 i ps o2,
  seqf async m t p = o1 ++ (i, ps) :: o2 ->
  forall q, In q ps -> In q p \/ In q (map fst o1).
Proof.
  intros async m t p o1 i ps o2 E q Hq.
  apply (topo_l_split o1 (seqf async m t p) p i ps o2); [|exact E|exact Hq].
  apply seq_topo_l. apply incl_refl.
Qed.

(** * 7. Synchronous sequencing without prior information: siblings chained by start time *)
Lemma filter_unlisted_nil (l : list item) : filter (unlisted []) l = l.
Proof.
  induction l as [|x l IH]; cbn [filter].
  - reflexivity.
  - change (unlisted [] x) with true. cbn iota. rewrite IH. reflexivity.
Qed.

Lemma filter_nonempty_singletons {A} (l : list A) :
  filter is_nonempty (map (fun x => [x]) l) = map (fun x => [x]) l.
Proof.
  induction l as [|x l IH]; simpl.
  - reflexivity.
  - rewrite IH. reflexivity.
Qed.

Lemma prior_groups_nil_gm (l : list item) : prior_groups [] l = map (fun x => [x]) l.
Proof.
  unfold prior_groups, prior_groups_v0. destruct l as [|x l].
  - reflexivity.
  - generalize (x :: l) as l'. intros l'.
    cbn [map snd dedup app]. rewrite filter_unlisted_nil. apply filter_nonempty_singletons.
Qed.

Lemma order_groups_singletons (l : list item) :
  order_groups (map (fun x => [x]) l) = map (fun x => [x]) (sort_items l).
Proof.
  unfold order_groups. rewrite map_map.
  rewrite (map_ext (fun x => sort_items [x]) (fun x => [x])) by reflexivity.
  rewrite sort_groups_gsort, sort_items_gsort.
  apply (gsort_map head_st it_st (fun x => [x])). reflexivity.
Qed.

Lemma sort_items_item_of async m kids :
  sort_items (map (item_of async m) kids) = map (item_of async m) (sort_spans kids).
Proof.
  rewrite sort_items_gsort, sort_spans_gsort.
  apply (gsort_map it_st sst (item_of async m)). reflexivity.
Qed.

Lemma run_groups_singletons async m cs : forall p,
  run_groups (map (fun x => [x]) (map (item_of async m) cs)) p = chain (seqf async m) cs p.
Proof.
  induction cs as [|c r IH]; intros p; simpl.
  - reflexivity.
  - rewrite app_nil_r. rewrite IH. destruct (chain (seqf async m) r [sid c]) as [o p'].
    reflexivity.
Qed.

Theorem seq_links_sync : forall i ty st en pl kids p,
  seqf false [] (Span i ty st en pl kids) p =
  let '(o, p') := chain (seqf false []) (sort_spans kids) p in o ++ [(i, p')].
Proof.
  intros i ty st en pl kids p. rewrite seqf_unfold.
  unfold event_groups. change (gm_of [] ty) with (@nil (positive * positive)).
  rewrite prior_groups_nil_gm, order_groups_singletons, sort_items_item_of, run_groups_singletons.
  reflexivity.
Qed.

Lemma sort_spans_Forall (P : span -> Prop) l : Forall P l -> Forall P (sort_spans l).
Proof. rewrite sort_spans_gsort. apply gsort_Forall. Qed.

Lemma sort_spans_perm l : Permutation (sort_spans l) l.
Proof. rewrite sort_spans_gsort. apply gsort_perm. Qed.

(** * 6. Synchronous sequencing yields exactly one start event *)
Definition nstart_of (p : list positive) : nat := match p with [] => 1%nat | _ => 0%nat end.

Lemma nstart_app a b : nstart (a ++ b) = (nstart a + nstart b)%nat.
Proof. unfold nstart. rewrite filter_app, app_length. reflexivity. Qed.

Lemma chain_nstart (f : span -> list positive -> links) cs : forall p,
  Forall (fun c => forall q, nstart (f c q) = nstart_of q) cs ->
  (nstart (fst (chain f cs p)) + nstart_of (snd (chain f cs p)) = nstart_of p)%nat.
Proof.
  induction cs as [|c r IH]; intros p H; simpl.
  - reflexivity.
  - inversion H as [|c' r' Hc Hr]; subst.
    specialize (IH [sid c] Hr).
    destruct (chain f r [sid c]) as [o p']. simpl in *.
    rewrite nstart_app, Hc. lia.
Qed.

Lemma seq_nstart_sync t : forall p, nstart (seqf false [] t p) = nstart_of p.
Proof.
  induction t as [i ty st en pl kids IH] using span_ind'. intros p.
  rewrite seq_links_sync.
  pose proof (chain_nstart (seqf false []) (sort_spans kids) p (sort_spans_Forall _ _ IH)) as H.
  destruct (chain (seqf false []) (sort_spans kids) p) as [o p']. simpl in H.
  rewrite nstart_app. rewrite <- H. f_equal.
  destruct p'; reflexivity.
Qed.

Theorem seq_single_start_sync : forall t,
  length (filter (fun e => match snd e with [] => true | _ => false end) (seqf false [] t [])) = 1%nat.
Proof. intros t. apply (seq_nstart_sync t []). Qed.

(** * 5. Every span follows all of its descendants *)
Lemma path_incl o o' a b : incl o o' -> path o a b -> path o' a b.
Proof.
  intros Hi H. induction H as [a b ps H1 H2|a b c _ IH1 _ IH2].
  - eapply path_step; [apply Hi; exact H1|exact H2].
  - eapply path_trans; eassumption.
Qed.

(** [starts_at o p r]: some node with exactly the predecessors [p] is [r] or leads to [r] *)
Definition starts_at (o : links) (p : list positive) (r : positive) : Prop :=
  exists b, In (b, p) o /\ (b = r \/ path o b r).

Lemma starts_at_incl o o' p r : incl o o' -> starts_at o p r -> starts_at o' p r.
Proof.
  intros Hi [b [Hb Hr]]. exists b. split; [apply Hi; exact Hb|].
  destruct Hr as [->|Hr]; [left; reflexivity|right; eapply path_incl; eassumption].
Qed.

Lemma run_groups_paths gs : forall prev (o' : links) (i : positive),
  Forall (fun g => g <> []) gs ->
  (forall it, In it (concat gs) -> forall p, starts_at (it_run it p) p (it_id it)) ->
  incl (fst (run_groups gs prev)) o' ->
  In (i, snd (run_groups gs prev)) o' ->
  (forall it, In it (concat gs) -> path o' (it_id it) i) /\
  (gs <> [] -> starts_at o' prev i).
Proof.
  induction gs as [|g r IH]; intros prev o' i Hne Hst Hincl Hlast.
  - split; [intros it []|intros H; contradiction].
  - inversion Hne as [|g' r' Hg Hr]; subst. simpl in Hincl, Hlast.
    specialize (IH (map it_id g) o' i Hr
                   (fun it Hit => Hst it (in_or_app _ _ _ (or_intror Hit)))).
    destruct (run_groups r (map it_id g)) as [o2 p2] eqn:ER. simpl in *.
    assert (Hi1 : incl (flat_map (fun it => it_run it prev) g) o')
      by (intros e He; apply Hincl; apply in_or_app; left; exact He).
    assert (Hi2 : incl o2 o') by (intros e He; apply Hincl; apply in_or_app; right; exact He).
    destruct (IH Hi2 Hlast) as [IHa IHb].
    assert (Hrun : forall it, In it g -> incl (it_run it prev) o').
    { intros it Hit e He. apply Hi1. apply in_flat_map. exists it. split; assumption. }
    (* every member of g reaches i *)
    assert (Hg_path : forall it, In it g -> path o' (it_id it) i).
    { intros it Hit. destruct r as [|g2 r2].
      - simpl in ER. injection ER as <- <-. eapply path_step; [exact Hlast|].
        apply in_map. exact Hit.
      - destruct (IHb ltac:(discriminate)) as [b [Hb Hbi]].
        assert (Hstep : path o' (it_id it) b)
          by (eapply path_step; [exact Hb|apply in_map; exact Hit]).
        destruct Hbi as [->|Hbi]; [exact Hstep|eapply path_trans; eassumption]. }
    split.
    + intros it Hit. apply in_app_or in Hit. destruct Hit as [Hit|Hit].
      * apply Hg_path. exact Hit.
      * apply IHa. exact Hit.
    + intros _. destruct g as [|it0 g0]; [contradiction|].
      assert (Hit0 : In it0 (it0 :: g0)) by (left; reflexivity).
      destruct (Hst it0 (in_or_app _ _ _ (or_introl Hit0)) prev) as [b [Hb Hb0]].
      exists b. split; [apply (Hrun it0 Hit0); exact Hb|].
      right. destruct Hb0 as [->|Hb0].
      * apply Hg_path. exact Hit0.
      * eapply path_trans; [|apply Hg_path; exact Hit0].
        eapply path_incl; [apply (Hrun it0 Hit0)|exact Hb0].
Qed.

Lemma run_groups_contains gs : forall prev it, In it (concat gs) ->
  exists q, incl (it_run it q) (fst (run_groups gs prev)).
Proof.
  induction gs as [|g r IH]; intros prev it Hit; simpl in *.
  - contradiction.
  - specialize (IH (map it_id g) it).
    destruct (run_groups r (map it_id g)) as [o2 p2]. simpl in *.
    apply in_app_or in Hit. destruct Hit as [Hit|Hit].
    + exists prev. intros e He. apply in_or_app. left. apply in_flat_map.
      exists it. split; assumption.
    + destruct (IH Hit) as [q Hq]. exists q. intros e He. apply in_or_app. right.
      apply Hq. exact He.
Qed.

Lemma seq_desc_aux async m t : forall p,
  starts_at (seqf async m t p) p (sid t) /\
  (forall d, In d (ids t) -> d <> sid t -> path (seqf async m t p) d (sid t)).
Proof.
  induction t as [i ty st en pl kids IH] using span_ind'. intros p.
  rewrite Forall_forall in IH.
  pose proof (seqf_unfold async m i ty st en pl kids p) as E.
  destruct (event_groups_perm async (gm_of m ty) (map (item_of async m) kids)) as [Hperm Hne].
  remember (event_groups async (gm_of m ty) (map (item_of async m) kids)) as gs eqn:Egs.
  assert (Hitems : forall it, In it (concat gs) -> exists k, In k kids /\ it = item_of async m k).
  { intros it Hin. rewrite Egs in Hin. apply event_groups_items in Hin. exact Hin. }
  assert (Hst : forall it, In it (concat gs) -> forall q, starts_at (it_run it q) q (it_id it)).
  { intros it Hin q. destruct (Hitems it Hin) as [k [Hk ->]]. simpl. apply (IH k Hk q). }
  pose proof (run_groups_paths gs p (seqf async m (Span i ty st en pl kids) p) i Hne Hst) as HR.
  pose proof (run_groups_contains gs p) as HC.
  destruct (run_groups gs p) as [out p'] eqn:ER.
  cbv beta iota in E. cbn [fst snd] in HR, HC. rewrite E in HR |- *. clear E.
  destruct HR as [HRa HRb].
  { intros e He. apply in_or_app. left. exact He. }
  { apply in_or_app. right. left. reflexivity. }
  split.
  - simpl. destruct gs as [|g0 gs0].
    + simpl in ER. injection ER as <- <-. exists i.
      split; [left; reflexivity|left; reflexivity].
    + apply HRb. discriminate.
  - simpl. intros d [Hd|Hd] Hne'; [congruence|].
    apply in_flat_map in Hd. destruct Hd as [k [Hk Hdk]].
    assert (Hin : In (item_of async m k) (concat gs)).
    { apply (Permutation_in _ (Permutation_sym Hperm)). apply in_map. exact Hk. }
    pose proof (HRa _ Hin) as Hroot. simpl in Hroot.
    destruct (Pos.eq_dec d (sid k)) as [->|Hdk'].
    + exact Hroot.
    + destruct (HC _ Hin) as [q Hq]. simpl in Hq.
      eapply path_trans; [|exact Hroot].
      eapply path_incl; [|apply (proj2 (IH k Hk q) d Hdk Hdk')].
      intros e He. apply in_or_app. left. apply Hq. exact He.
Qed.

(** [NoDup (ids t)] is not needed. *)
Theorem seq_after_desc : forall async m t p d,
  In d (ids t) -> d <> sid t -> path (seqf async m t p) d (sid t).
Proof. intros async m t p d Hd Hne. apply (proj2 (seq_desc_aux async m t p) d Hd Hne). Qed.

(** the first-emitted leaf inherits the caller's predecessors and leads to the root *)
Theorem seq_inherits : forall async m t p, starts_at (seqf async m t p) p (sid t).
Proof. intros async m t p. apply (proj1 (seq_desc_aux async m t p)). Qed.

(** * Non-vacuity / sanity examples *)
Definition ex_tree : span :=
  Span 1 1 0 100 1 [ Span 2 2 50 60 1 []; Span 3 3 10 40 1 [ Span 4 4 20 30 1 [] ] ].

Example ex_tree_sync : seqf false [] ex_tree [] = [(4, []); (3, [4]); (2, [3]); (1, [2])]%positive.
Proof. reflexivity. Qed.

Example ex_tree_path : path (seqf false [] ex_tree []) 4 1.
Proof. apply seq_after_desc; [simpl; tauto|discriminate]. Qed.

Example ex_tree_async :
  seqf true [(1, [(2, 7); (3, 7)])]%positive ex_tree [] = [(4, []); (3, [4]); (2, []); (1, [3; 2])]%positive.
Proof. reflexivity. Qed.
