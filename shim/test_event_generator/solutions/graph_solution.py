from .event_solution import EventSolution
class GraphSolution:
    def __init__(self):
        self.start_events={}; self.end_events={}; self.missing_events=[]; self.events={}; self.event_dict_count=0
    def add_event(self, e):
        self.event_dict_count+=1
        self.events[self.event_dict_count]=e
        if e.is_start: self.start_events[self.event_dict_count]=e
        if e.is_end: self.end_events[self.event_dict_count]=e
    @classmethod
    def from_event_list(cls, event_list):
        g=cls(); m={}
        event_list=list(event_list)
        for ev in event_list:
            m[ev["eventId"]]=EventSolution(meta_data={"EventType":ev["eventType"]})
        for ev in event_list:
            prev=ev.get("previousEventIds",[])
            if isinstance(prev,str): prev=[prev]
            for p in prev:
                m[ev["eventId"]].add_prev_event(m[p])
        for e in m.values(): e.add_to_previous_events()
        for e in m.values(): g.add_event(e)
        return g
