class EventSolution:
    def __init__(self, is_branch=False, is_break_point=False, meta_data=None, **kw):
        self.meta_data = meta_data or {}
        self.post_events = []
        self.previous_events = []
        self.is_branch = is_branch
        self.is_break_point = is_break_point
    def add_post_event(self, e): self.post_events.append(e)
    def add_prev_event(self, e): self.previous_events.append(e)
    def add_to_post_events(self):
        for p in self.post_events: p.add_prev_event(self)
    def add_to_previous_events(self):
        for p in self.previous_events: p.add_post_event(self)
    @property
    def is_start(self): return len(self.previous_events)==0
    @property
    def is_end(self): return len(self.post_events)==0
