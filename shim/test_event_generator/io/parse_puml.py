class EventData: pass
def get_unparsed_job_defs(*a,**k): raise NotImplementedError
def parse_raw_job_def_lines(*a,**k): raise NotImplementedError
