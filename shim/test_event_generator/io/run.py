def puml_file_to_test_events(*a,**k): raise NotImplementedError
