#!/bin/bash
# MANIFEST.setup_cmd: offline build of the Coq development (full .vo build) + shim self-test.
set -e
cd "$(dirname "$0")"
export PYTHONDONTWRITEBYTECODE=1
cd coq
coq_makefile -f _CoqProject -o Makefile
timeout 7200 make -j16
cd ..
/venv/bin/python -m harness.selftest
